(* Model of src/fdl/token_ring.rs: the LAS (list of active stations) as 128 booleans,
   NS / PS, discovery and verification.  No proofs here. *)
From PB Require Export Common.

Inductive las_state : Set := LasUninitialized | LasDiscovery | LasVerification | LasValid.

Record ring : Set := mkRing {
  r_las : list bool;          (* 128 entries: BitArr!(for 128) *)
  r_state : las_state;
  r_ts : Z;                   (* this station *)
  r_ns : Z;                   (* next station *)
  r_ps : Z                    (* previous station *)
}.

Definition las_size : nat := 128.

(* active_stations[i] *)
Definition las_get (las : list bool) (i : Z) : res bool :=
  if (0 <=? i) && (i <? 128) then Ok (nth (Z.to_nat i) las false) else Panic SiteIndex.

Fixpoint set_nth (l : list bool) (i : nat) (v : bool) : list bool :=
  match l, i with
  | [], _ => []
  | _ :: t, O => v :: t
  | x :: t, S j => x :: set_nth t j v
  end.

(* active_stations.set(i, v) *)
Definition las_set (las : list bool) (i : Z) (v : bool) : res (list bool) :=
  if (0 <=? i) && (i <? 128) then Ok (set_nth las (Z.to_nat i) v) else Panic SiteIndex.

(* active_stations[lo..hi].fill(v) for 0 <= lo <= hi <= 128 (slice range panics otherwise) *)
Fixpoint fill_from (l : list bool) (lo len : nat) (v : bool) : list bool :=
  match l with
  | [] => []
  | x :: t =>
      match lo with
      | S lo' => x :: fill_from t lo' len v
      | O => match len with
             | O => x :: t
             | S len' => v :: fill_from t O len' v
             end
      end
  end.

Definition las_fill (las : list bool) (lo hi : Z) (v : bool) : res (list bool) :=
  if (0 <=? lo) && (lo <=? hi) && (hi <=? 128) then
    Ok (fill_from las (Z.to_nat lo) (Z.to_nat (hi - lo)) v)
  else Panic SiteIndex.

(* active_stations[lo..hi].any() *)
Definition las_any (las : list bool) (lo hi : Z) : res bool :=
  if (0 <=? lo) && (lo <=? hi) && (hi <=? 128) then
    Ok (existsb (fun b => b) (firstn (Z.to_nat (hi - lo)) (skipn (Z.to_nat lo) las)))
  else Panic SiteIndex.

(* iter_active_stations(): ascending addresses with their bit set *)
Fixpoint ones_from (l : list bool) (i : Z) : list Z :=
  match l with
  | [] => []
  | b :: t => if b then i :: ones_from t (i + 1) else ones_from t (i + 1)
  end.
Definition las_ones (las : list bool) : list Z := ones_from las 0.

Definition ring_new (address : Z) : res ring :=
  let* las := las_set (repeat false las_size) address true in
  Ok (mkRing las LasUninitialized address address address).

(* update_next_previous: the two `if let ... else if let ... else` chains over
   iter_active_stations() (ascending) and its .rev() *)
Definition next_of (ones : list Z) (ts : Z) : Z :=
  match find (fun a => ts <? a) ones with
  | Some n => n
  | None => match ones with n :: _ => n | [] => ts end
  end.
Definition prev_of (ones : list Z) (ts : Z) : Z :=
  match find (fun a => a <? ts) (rev ones) with
  | Some p => p
  | None => match rev ones with p :: _ => p | [] => ts end
  end.
Definition update_next_previous (r : ring) : ring :=
  let ones := las_ones (r_las r) in
  let ts := r_ts r in
  mkRing (r_las r) (r_state r) ts (next_of ones ts) (prev_of ones ts).

(* verify_las_from_token_pass *)
Definition verify_las (r : ring) (sa da : Z) : res bool :=
  let* a := las_get (r_las r) sa in
  if negb a then Ok false else
  let* b := las_get (r_las r) da in
  if negb b then Ok false else
  if sa <? da then
    let* x := las_any (r_las r) (sa + 1) da in Ok (negb x)
  else
    let* x := las_any (r_las r) (sa + 1) 128 in
    if x then Ok false else
    let* y := las_any (r_las r) 0 da in Ok (negb y).

(* update_las_from_token_pass *)
Definition update_las (r : ring) (sa da : Z) : res ring :=
  let* las :=
    (if sa <? da then las_fill (r_las r) sa da false
     else let* l1 := las_fill (r_las r) sa 128 false in las_fill l1 0 da false) in
  let* las := las_set las sa true in
  Ok (update_next_previous (mkRing las (r_state r) (r_ts r) (r_ns r) (r_ps r))).

Definition with_state (r : ring) (s : las_state) : ring :=
  mkRing (r_las r) s (r_ts r) (r_ns r) (r_ps r).

(* witness_token_pass(sa, da) *)
Definition witness (r : ring) (sa da : Z) : res ring :=
  if 125 <? sa then Ok r else
  if 125 <? da then Ok r else
  match r_state r with
  | LasUninitialized => if da <=? sa then Ok (with_state r LasDiscovery) else Ok r
  | LasDiscovery =>
      let* r' := update_las r sa da in
      if da <=? sa then Ok (with_state r' LasVerification) else Ok r'
  | LasVerification =>
      let* ok := verify_las r sa da in
      if negb ok then
        let* r' := update_las r sa da in Ok (with_state r' LasDiscovery)
      else if da <=? sa then Ok (with_state r LasValid) else Ok r
  | LasValid => update_las r sa da
  end.

Definition claim_token (r : ring) : ring := with_state r LasValid.

Definition set_next_station (r : ring) (address : Z) : res ring :=
  let* las := las_set (r_las r) address true in
  update_las (mkRing las (r_state r) (r_ts r) (r_ns r) (r_ps r)) (r_ts r) address.

Definition remove_station (r : ring) (address : Z) : res ring :=
  let* las := las_set (r_las r) address false in
  Ok (update_next_previous (mkRing las (r_state r) (r_ts r) (r_ns r) (r_ps r))).

Definition ready_for_ring (r : ring) : bool :=
  match r_state r with LasValid => true | _ => false end.

(* impl Debug for TokenRing: the addresses are copied into `[0u8; 127]` by index, which is out
   of bounds for the 128th active station. *)
Definition debug_active (r : ring) : res (list Z) :=
  let ones := las_ones (r_las r) in
  if Nat.leb (length ones) 127 then Ok ones else Panic SiteIndex.

(* Operations of the correspondence check and what is observed after each of them. *)
Inductive op : Set :=
| OpW (sa da : Z)      (* witness_token_pass(sa, da) *)
| OpC                  (* claim_token() *)
| OpN (a : Z)          (* set_next_station(a) *)
| OpR (a : Z).         (* remove_station(a) *)

Definition step (r : ring) (o : op) : res ring :=
  match o with
  | OpW sa da => witness r sa da
  | OpC => Ok (claim_token r)
  | OpN a => set_next_station r a
  | OpR a => remove_station r a
  end.

Fixpoint run (r : ring) (ops : list op) : res ring :=
  match ops with
  | [] => Ok r
  | o :: t => let* r' := step r o in run r' t
  end.

(* witness_token_pass over a list of (sa, da) passes *)
Fixpoint run_w (r : ring) (passes : list (Z * Z)) : res ring :=
  match passes with
  | [] => Ok r
  | (sa, da) :: t => let* r' := witness r sa da in run_w r' t
  end.

Record obs : Set := mkObs {
  o_state : option las_state;   (* las_state as printed by Debug; None: Debug panicked *)
  o_ready : bool;               (* ready_for_ring() *)
  o_ns : Z;
  o_ps : Z;
  o_las : list Z                (* iter_active_stations() *)
}.

Definition observe (r : ring) : obs :=
  mkObs (match debug_active r with Ok _ => Some (r_state r) | _ => None end)
        (ready_for_ring r) (r_ns r) (r_ps r) (las_ones (r_las r)).
