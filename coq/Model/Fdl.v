(* Model of src/fdl/active.rs (the FDL active station), src/fdl/mod.rs (FdlApplication) and the
   time arithmetic of src/time.rs it uses.  One Gallina function per Rust function, same names,
   same order of effects; comments name the Rust lines (numbering of the tree before the fixes
   F1 F2 F3 F12, commit 5ed9155; the model is of the FIXED code, deviations are marked F1/F2/F3/F12).

   Conventions
   * `&mut self` methods take and return the `fdl` record.  Functions that use the PHY or the
     applications also thread a `world` (PHY receive buffer as seen in this poll, the
     transmission of this poll, application states, call log, ghost coverage trace).
   * `PollDone` carries no information: functions returning `PollDone` return `(fdl, world)`,
     functions returning `Option<PollDone>` additionally return `done : bool` (= `Some(_)`).
   * Every panic site is explicit: legality assertions (`debug_assert_state!`, tables regenerated
     into Generated/FdlTables.v), `debug_assert!`/`debug_assert_ne!`, state accessors that are
     `unreachable!()` in other states, `unwrap`s, u8/u32/usize arithmetic of a debug build, Instant
     arithmetic (i64), slice indexing, `todo!()`.
   * Time: `Instant` = Z microseconds (i64), `Duration` = Z microseconds (u64).  Durations in this
     file come from `bits_to_time` of a u32 bit count and are < 2^63, so `as i64` is the identity.
   * The PHY is an atomic snapshot per poll: `tx_busy` is what `poll_transmission(now)` returns,
     `rx` is the content of the receive buffer during this poll (the harness PHY only appends
     between polls).  The PHY accepts one transmission per poll; a second `transmit_data` with a
     non-empty result in the same poll is a panic of the (harness) PHY.
   No proofs in this file. *)
From PB Require Export Common Tables FdlTables Telegram Phy TokenRing Params.

(* ------------------------------------------------------------------------------------------ *)
(* Data (active.rs:13-144, 386-420)                                                            *)

Inductive conn_state : Set := ConnOffline | ConnPassive | ConnOnline.   (* ConnectivityState *)

Inductive gap_state : Set :=                                            (* GapState, :44-53 *)
| GapWaiting (rotation_count : Z)
| GapDoPoll (current_address : Z).

Inductive claim_step : Set :=                                           (* ClaimTokenStep, :94-101 *)
| StepFirstToken | StepSecondToken | StepScan | StepScanAwaitResponse (address : Z).

(* State, :110-144.  UseTokenData { token_time, first_app } is inlined. `attempt` and the payload-free
   view `state_kind` are generated.  DoGap::Yes = true. *)
Inductive state : Set :=
| Offline
| PassiveIdle
| ListenToken (status_request : option Z) (collision_count : Z)
| ActiveIdle (status_request new_previous_station : option Z) (collision_count : Z)
| UseToken (token_time : Z) (first_app : option nat) (first_cycle_done : bool)
| ClaimToken (step : claim_step)
| AwaitDataResponse (address : Z) (token_time : Z) (first_app : option nat)
| PassToken (do_gap : bool) (att : attempt)
| CheckTokenPass (att : attempt)
| AwaitStatusResponse (address : Z).

Definition kind_of (s : state) : state_kind :=
  match s with
  | Offline => KOffline | PassiveIdle => KPassiveIdle | ListenToken _ _ => KListenToken
  | ActiveIdle _ _ _ => KActiveIdle | UseToken _ _ _ => KUseToken | ClaimToken _ => KClaimToken
  | AwaitDataResponse _ _ _ => KAwaitDataResponse | PassToken _ _ => KPassToken
  | CheckTokenPass _ => KCheckTokenPass | AwaitStatusResponse _ => KAwaitStatusResponse
  end.

Definition state_kind_eqb (a b : state_kind) : bool :=
  match a, b with
  | KOffline, KOffline | KPassiveIdle, KPassiveIdle | KListenToken, KListenToken
  | KActiveIdle, KActiveIdle | KUseToken, KUseToken | KClaimToken, KClaimToken
  | KAwaitDataResponse, KAwaitDataResponse | KPassToken, KPassToken
  | KCheckTokenPass, KCheckTokenPass | KAwaitStatusResponse, KAwaitStatusResponse => true
  | _, _ => false
  end.

(* FdlActiveStation, :386-420 *)
Record fdl : Set := mkFdl {
  f_p : params;                 (* p *)
  f_ring : ring;                (* token_ring *)
  f_conn : conn_state;          (* connectivity_state *)
  f_gap : gap_state;            (* gap_state *)
  f_state : state;              (* state *)
  f_lba : option Z;             (* last_bus_activity *)
  f_pending : nat;              (* pending_bytes *)
  f_last_token_time : Z;        (* last_token_time *)
  f_end_tht : Z;                (* end_token_hold_time *)
  f_next_app : nat              (* next_application *)
}.

Definition set_ring (f : fdl) (r : ring) : fdl :=
  mkFdl (f_p f) r (f_conn f) (f_gap f) (f_state f) (f_lba f) (f_pending f) (f_last_token_time f) (f_end_tht f) (f_next_app f).
Definition set_conn (f : fdl) (c : conn_state) : fdl :=
  mkFdl (f_p f) (f_ring f) c (f_gap f) (f_state f) (f_lba f) (f_pending f) (f_last_token_time f) (f_end_tht f) (f_next_app f).
Definition set_gap (f : fdl) (g : gap_state) : fdl :=
  mkFdl (f_p f) (f_ring f) (f_conn f) g (f_state f) (f_lba f) (f_pending f) (f_last_token_time f) (f_end_tht f) (f_next_app f).
Definition set_st (f : fdl) (s : state) : fdl :=
  mkFdl (f_p f) (f_ring f) (f_conn f) (f_gap f) s (f_lba f) (f_pending f) (f_last_token_time f) (f_end_tht f) (f_next_app f).
Definition set_lba (f : fdl) (l : option Z) : fdl :=
  mkFdl (f_p f) (f_ring f) (f_conn f) (f_gap f) (f_state f) l (f_pending f) (f_last_token_time f) (f_end_tht f) (f_next_app f).
Definition set_pending (f : fdl) (n : nat) : fdl :=
  mkFdl (f_p f) (f_ring f) (f_conn f) (f_gap f) (f_state f) (f_lba f) n (f_last_token_time f) (f_end_tht f) (f_next_app f).
Definition set_hold (f : fdl) (last_token_time end_tht : Z) : fdl :=
  mkFdl (f_p f) (f_ring f) (f_conn f) (f_gap f) (f_state f) (f_lba f) (f_pending f) last_token_time end_tht (f_next_app f).
Definition set_next_app (f : fdl) (n : nat) : fdl :=
  mkFdl (f_p f) (f_ring f) (f_conn f) (f_gap f) (f_state f) (f_lba f) (f_pending f) (f_last_token_time f) (f_end_tht f) n.

Definition ts (f : fdl) : Z := p_address (f_p f).      (* self.p.address *)

(* ------------------------------------------------------------------------------------------ *)
(* Integer and time arithmetic of a debug build                                                *)

Definition u8_add (a b : Z) : res Z := if a + b <=? 255 then Ok (a + b) else Panic SiteArith.
Definition u8_sub (a b : Z) : res Z := if 0 <=? a - b then Ok (a - b) else Panic SiteArith.

Definition i64_ok (x : Z) : bool := (-9223372036854775808 <=? x) && (x <=? 9223372036854775807).
(* Instant + Duration, Instant - Duration (time.rs: i64 arithmetic on micros) *)
Definition inst_add (i d : Z) : res Z := if i64_ok (i + d) then Ok (i + d) else Panic SiteArith.
Definition inst_sub_dur (i d : Z) : res Z := if i64_ok (i - d) then Ok (i - d) else Panic SiteArith.
(* Instant - Instant = ABSOLUTE difference: (a - b).unsigned_abs() *)
Definition inst_diff (a b : Z) : res Z := if i64_ok (a - b) then Ok (Z.abs (a - b)) else Panic SiteArith.

(* ------------------------------------------------------------------------------------------ *)
(* State transitions with their legality assertions (active.rs:172-273)                        *)

Definition assert_kind (ok : state_kind -> bool) (s : state) : res unit :=
  if ok (kind_of s) then Ok tt else Panic SiteAssert.

Definition transition_offline (s : state) : res state :=
  let* _ := assert_kind may_transition_offline s in Ok Offline.
Definition transition_passive_idle (s : state) : res state :=
  let* _ := assert_kind may_transition_passive_idle s in Ok PassiveIdle.
Definition transition_listen_token (s : state) : res state :=
  let* _ := assert_kind may_transition_listen_token s in Ok (ListenToken None 0).
Definition transition_active_idle (s : state) : res state :=
  let* _ := assert_kind may_transition_active_idle s in Ok (ActiveIdle None None 0).
Definition transition_use_token (s : state) (token_time : Z) (first_app : option nat) : res state :=
  let* _ := assert_kind may_transition_use_token s in Ok (UseToken token_time first_app false).
Definition transition_claim_token (s : state) : res state :=
  let* _ := assert_kind may_transition_claim_token s in Ok (ClaimToken StepFirstToken).
Definition transition_await_data_response (s : state) (address token_time : Z) (first_app : option nat) : res state :=
  let* _ := assert_kind may_transition_await_data_response s in Ok (AwaitDataResponse address token_time first_app).
Definition transition_pass_token (s : state) (do_gap : bool) (att : attempt) : res state :=
  let* _ := assert_kind may_transition_pass_token s in Ok (PassToken do_gap att).
Definition transition_check_token_pass (s : state) (att : attempt) : res state :=
  let* _ := assert_kind may_transition_check_token_pass s in Ok (CheckTokenPass att).
Definition transition_await_status_response (s : state) (address : Z) : res state :=
  let* _ := assert_kind may_transition_await_status_response s in Ok (AwaitStatusResponse address).

(* debug_assert_state!(self.state, State::X { .. }) at the head of every do_* function *)
Definition assert_entry (fn : do_fn) (f : fdl) : res unit :=
  if state_kind_eqb (kind_of (f_state f)) (do_fn_entry fn) then Ok tt else Panic SiteAssert.

(* State-specific accessors, `unreachable!()` in any other state (active.rs:277-384) *)
Definition get_listen_token (s : state) : res (option Z * Z) :=
  match s with ListenToken sr cc => Ok (sr, cc) | _ => Panic SiteUnreachable end.
Definition get_active_idle (s : state) : res (option Z * option Z * Z) :=
  match s with ActiveIdle sr nps cc => Ok (sr, nps, cc) | _ => Panic SiteUnreachable end.
Definition get_use_token (s : state) : res (Z * option nat * bool) :=
  match s with UseToken tk fa fcd => Ok (tk, fa, fcd) | _ => Panic SiteUnreachable end.
Definition get_claim_token_step (s : state) : res claim_step :=
  match s with ClaimToken st => Ok st | _ => Panic SiteUnreachable end.
Definition get_await_data_response (s : state) : res (Z * Z * option nat) :=
  match s with AwaitDataResponse a tk fa => Ok (a, tk, fa) | _ => Panic SiteUnreachable end.
Definition get_pass_token (s : state) : res (bool * attempt) :=
  match s with PassToken g a => Ok (g, a) | _ => Panic SiteUnreachable end.
Definition get_await_status_response_address (s : state) : res Z :=
  match s with AwaitStatusResponse a => Ok a | _ => Panic SiteUnreachable end.
Definition get_check_token_pass_attempt (s : state) : res attempt :=
  match s with CheckTokenPass a => Ok a | _ => Panic SiteUnreachable end.

(* ------------------------------------------------------------------------------------------ *)
(* World of one poll: PHY snapshot, applications, call log, ghost coverage trace               *)

Record phy_in : Set := mkPhyIn { tx_busy : bool; rx : bytes }.
Record phy_out : Set := mkPhyOut { tx : option bytes; rx_left : bytes }.   (* dropped = |rx| - |rx_left| *)

(* FdlApplication (src/fdl/mod.rs:34-66) over an abstract application state.  The `&FdlActiveStation`
   argument is represented by the parameters (the only thing applications read from it).
   a_tx: transmit_telegram(now, fdl, tx, high_prio_only) -> None | Some(wire bytes, expects_reply)
   a_rx: receive_reply(now, fdl, addr, telegram);  a_to: handle_timeout(now, fdl, addr). *)
Record app_ops (A : Type) : Type := mkAppOps {
  a_tx : A -> Z -> params -> bool -> res (A * option (bytes * option Z));
  a_rx : A -> Z -> params -> Z -> telegram -> res A;
  a_to : A -> Z -> params -> Z -> res A
}.
Arguments a_tx {A}. Arguments a_rx {A}. Arguments a_to {A}.

Inductive call : Set :=
| CallTransmit (app : nat) (high_prio_only : bool) (result : option (bytes * option Z))
| CallReceiveReply (app : nat) (addr : Z) (t : telegram)
| CallHandleTimeout (app : nat) (addr : Z).

(* Ghost coverage tags: which branch of the code was taken.  They do not influence anything. *)
Inductive tag : Set :=
| TTrans (from to : state_kind)           (* a transition_* call *)
| TOngoingPhy | TOngoingPredicted | TBusActivity | TSyncWait
| TLostTokenClaim
| TClaimSendToken | TClaimScanDone | TClaimScanPoll | TClaimScanIdle
| TGapEnd | TGapNext | TGapWaitCount | TGapWaitDone
| TGapReplyMaster | TGapReplyOther | TGapUnexpected | TGapNoResponse | TGapAwait | TGapRxDiscard
| TLtOfflineSkip | TLtCollisionFirst | TLtCollisionOffline | TLtWitness | TLtStatusReqLast
| TLtStatusReqNotLast | TLtOther | TLtReplyReady | TLtReplyNotReady
| THtListenSkip | THtCollisionFirst | THtCollisionLeave | THtWitness | THtAcceptPS
| THtAcceptSecondOffer | THtPendStranger | THtStatusReq | THtOther
| TAiReplyInRing
| TUseNewVisit | TUseNewVisitGapReserve | TUseLowPrio | TUseHighPrioOnce | TUseHoldOver
| TAppTxNoReply | TAppTxExpectReply | TAppDecline | TAppCycleCompleted
| TReplyDelivered | TReplyUnexpected | TReplyTimeout | TReplyAwait | TReplyRxDiscard
| TPassToken | TPassTokenToSelf
| TCheckRetry (a : attempt) | TCheckRemove | TCheckHeardExpected | TCheckHeardOther | TCheckAwait.

Record world (A : Type) : Type := mkWorld {
  w_rx : bytes;               (* PHY receive buffer *)
  w_tx : option bytes;        (* what was handed to the PHY for transmission in this poll *)
  w_apps : list A;
  w_calls : list call;        (* application callbacks of this poll, in order *)
  w_trace : list tag          (* ghost *)
}.
Arguments mkWorld {A}. Arguments w_rx {A}. Arguments w_tx {A}. Arguments w_apps {A}.
Arguments w_calls {A}. Arguments w_trace {A}.

Section Poll.
Variable A : Type.
Variable ops : app_ops A.
Notation W := (world A).

Definition note (w : W) (t : tag) : W :=
  mkWorld (w_rx w) (w_tx w) (w_apps w) (w_calls w) (w_trace w ++ [t]).
Definition set_rx (w : W) (b : bytes) : W :=
  mkWorld b (w_tx w) (w_apps w) (w_calls w) (w_trace w).
Definition log_call (w : W) (c : call) : W :=
  mkWorld (w_rx w) (w_tx w) (w_apps w) (w_calls w ++ [c]) (w_trace w).

Fixpoint replace_nth {X} (l : list X) (i : nat) (x : X) : list X :=
  match l, i with
  | [], _ => []
  | _ :: t, O => x :: t
  | h :: t, S j => h :: replace_nth t j x
  end.
Definition set_app (w : W) (i : nat) (a : A) : W :=
  mkWorld (w_rx w) (w_tx w) (replace_nth (w_apps w) i a) (w_calls w) (w_trace w).

(* apply a transition_* function to the station state, recording it in the trace *)
Definition trans (f : fdl) (w : W) (t : state -> res state) : res (fdl * W) :=
  let* s' := t (f_state f) in
  Ok (set_st f s', note w (TTrans (kind_of (f_state f)) (kind_of s'))).

(* phy.transmit_data with a non-empty result: at most one per poll *)
Definition phy_transmit (w : W) (wire : bytes) : res W :=
  match w_tx w with
  | Some _ => Panic SiteAssert
  | None => Ok (mkWorld (w_rx w) (Some wire) (w_apps w) (w_calls w) (w_trace w))
  end.

(* the telegrams the station itself sends (TelegramTx, telegram.rs:678-745) through
   phy.transmit_telegram(..).unwrap() *)
Definition status_request_header (da sa : Z) : header :=
  mkHeader da sa None None (FcRequest FcbInactive RqFdlStatus).
Definition status_response_header (da sa : Z) (st : resp_state) (s : resp_status) : header :=
  mkHeader da sa None None (FcResponse st s).
Definition phy_send (w : W) (rq : tx_request) : res (W * nat) :=
  let* (wire, _) := transmit tx_buffer_size rq in
  let* w := phy_transmit w wire in
  Ok (w, length wire).

(* ------------------------------------------------------------------------------------------ *)
(* Construction and connectivity API (active.rs:422-513)                                       *)

(* FdlActiveStation::new, :423-441; param.debug_assert_consistency() = parameters.rs *)
Definition fdl_new (p : params) : res fdl :=
  if negb (p_address p <=? 127) then Panic SiteAssert else
  if negb (p_hsa p <=? 126) then Panic SiteAssert else
  let* r := ring_new (p_address p) in
  Ok (mkFdl p r ConnOffline (GapDoPoll (p_address p)) Offline None 0 0 0 0).

(* set_state, :455-469.  Offline: the station is re-created; Passive: todo!() after the assignment. *)
Definition set_state (f : fdl) (c : conn_state) : res fdl :=
  match c with
  | ConnOffline => fdl_new (f_p f)
  | ConnOnline => Ok (set_conn f ConnOnline)
  | ConnPassive => Panic SiteUnreachable
  end.
Definition set_offline (f : fdl) : res fdl := set_state f ConnOffline.
Definition set_passive (f : fdl) : res fdl := set_state f ConnPassive.
Definition set_online (f : fdl) : res fdl := set_state f ConnOnline.

Definition connectivity_state (f : fdl) : conn_state := f_conn f.
Definition is_in_ring (f : fdl) : bool := is_in_ring_kind (kind_of (f_state f)).       (* :496-507 *)
Definition inspect_token_ring (f : fdl) : ring := f_ring f.
Definition have_token (s : state) : bool := have_token_kind (kind_of s).               (* :157-170 *)

(* ------------------------------------------------------------------------------------------ *)
(* Bus activity bookkeeping (active.rs:562-650)                                                *)

(* *self.last_bus_activity.get_or_insert(now) *)
Definition lba_get_or_insert (f : fdl) (now : Z) : Z * fdl :=
  match f_lba f with Some l => (l, f) | None => (now, set_lba f (Some now)) end.

(* mark_bus_activity, :567-570 *)
Definition mark_bus_activity (f : fdl) (now : Z) : fdl :=
  let (l, f) := lba_get_or_insert f now in set_lba f (Some (Z.max l now)).

(* check_for_ongoing_transmision, :578-590; returns done *)
Definition check_for_ongoing_transmision (f : fdl) (now : Z) (busy : bool) (w : W) : fdl * W * bool :=
  let predicted := ongoing_uses_predicted_end &&
                   match f_lba f with Some l => now <=? l | None => false end in
  if busy || predicted then
    (mark_bus_activity f now, note w (if busy then TOngoingPhy else TOngoingPredicted), true)
  else (f, w, false).

(* wait_synchronization_pause, :595-601; returns (f, must_wait) *)
Definition wait_synchronization_pause (f : fdl) (now : Z) : res (fdl * bool) :=
  let (l, f) := lba_get_or_insert f now in
  let* deadline := inst_add l (p_bits_to_time (f_p f) sync_pause_bits) in
  Ok (f, now <=? deadline).

(* mark_tx, :604-612: last_bus_activity = now + bits_to_time(11 * u32::try_from(bytes).unwrap()) *)
Definition mark_tx (f : fdl) (now : Z) (n : nat) : res fdl :=
  let nz := Z.of_nat n in
  if 4294967295 <? nz then Panic SiteUnwrap else
  if 4294967295 <? bits_per_byte * nz then Panic SiteArith else
  let* e := inst_add now (bits_to_time (p_baud (f_p f)) (bits_per_byte * nz)) in
  Ok (set_lba f (Some e)).

(* check_for_bus_activity, :614-620 *)
Definition check_for_bus_activity (f : fdl) (now : Z) (w : W) : fdl * W :=
  let pending := length (w_rx w) in
  if Nat.ltb (f_pending f) pending then
    (set_pending (mark_bus_activity f now) pending, note w TBusActivity)
  else (f, w).

(* mark_rx, :623-626 *)
Definition mark_rx (f : fdl) (now : Z) : fdl := mark_bus_activity (set_pending f 0) now.

(* sync_pending_bytes (fix F12): pending_bytes = min(pending_bytes, bytes still buffered), called after
   every receive attempt so that data the PHY helpers discarded does not leave the count stale *)
Definition sync_pending_bytes (f : fdl) (w : W) : fdl :=
  set_pending f (Nat.min (f_pending f) (length (w_rx w))).

(* check_slot_expired (both branches compare alike) *)
Definition check_slot_expired (f : fdl) (now : Z) : res (fdl * bool) :=
  let (l, f) := lba_get_or_insert f now in
  let* deadline := inst_add l (slot_time (f_p f)) in
  Ok (f, deadline <? now).

(* ------------------------------------------------------------------------------------------ *)
(* GAP polling (active.rs:697-795)                                                             *)

(* "a strictly between ts and ns, cyclically" (all addresses but ts when ns = ts) *)
Definition in_gapb (ts ns a : Z) : bool :=
  if ts <? ns then (ts <? a) && (a <? ns) else (ts <? a) || (a <? ns).

(* next_gap_poll, :698-723 (after fix F1: the end of the GAP is decided by in_gapb) *)
Definition next_gap_poll (f : fdl) (current_address : Z) : res gap_state :=
  let next_station := r_ns (f_ring f) in
  let* hm1 := u8_sub (p_hsa (f_p f)) 1 in
  let* next_address := (if current_address =? hm1 then Ok 0 else u8_add current_address 1) in
  if in_gapb (ts f) next_station next_address
  then Ok (GapDoPoll next_address)
  else Ok (GapWaiting 0).

Definition next_gap_poll_traced (f : fdl) (w : W) (cur : Z) : res (fdl * W) :=
  let* g := next_gap_poll f cur in
  Ok (set_gap f g, note w (match g with GapWaiting _ => TGapEnd | GapDoPoll _ => TGapNext end)).

(* transmit_gap_poll_if_pending, :725-743; returns the polled address *)
Definition transmit_gap_poll_if_pending (f : fdl) (now : Z) (w : W) : res (fdl * W * option Z) :=
  match f_gap f with
  | GapDoPoll current_address =>
      if current_address =? ts f then Panic SiteAssert else                 (* debug_assert_ne!, :731 *)
      let* (w, n) := phy_send w (TxData (status_request_header current_address (ts f)) []) in
      let* f := mark_tx f now n in
      Ok (f, w, Some current_address)
  | GapWaiting _ => Ok (f, w, None)
  end.

Inductive gap_poll_response : Set :=
| GprWaiting             (* Err(PollDone::waiting_for_bus()) *)
| GprNoResponse | GprStationResponded | GprUnexpectedTelegram.

Definition resp_status_eqb (a b : resp_status) : bool := resp_status_to_byte a =? resp_status_to_byte b.

(* await_gap_poll_response, :745-794 *)
Definition await_gap_poll_response (f : fdl) (now : Z) (w : W) (poll_address : Z)
  : res (fdl * W * gap_poll_response) :=
  if poll_address =? ts f then Panic SiteAssert else                          (* :751 *)
  if negb (match f_gap f with GapDoPoll c => c =? poll_address | _ => false end)
  then Panic SiteAssert else                                                  (* :752-754 *)
  let* (rest, received) := receive_telegram (fun t => t) (w_rx w) in          (* :759 *)
  let w := match received with
           | None => if Nat.ltb (length rest) (length (w_rx w)) then note w TGapRxDiscard else w
           | Some _ => w
           end in
  let w := set_rx w rest in
  match received with
  | Some t =>
      let f := mark_rx f now in
      match t with
      | TData (mkHeader da sa _ _ (FcResponse st status)) _ =>
          if (sa =? poll_address) && (da =? ts f) then
            if resp_status_eqb status gap_reply_status && gap_reply_state_is_master st then
              let* r := set_next_station (f_ring f) poll_address in           (* :769 *)
              Ok (set_ring f r, note w TGapReplyMaster, GprStationResponded)
            else Ok (f, note w TGapReplyOther, GprStationResponded)
          else Ok (f, note w TGapUnexpected, GprUnexpectedTelegram)
      | _ => Ok (f, note w TGapUnexpected, GprUnexpectedTelegram)
      end
  | None =>
      let f := sync_pending_bytes f w in                                     (* F12 *)
      let* (f, expired) := check_slot_expired f now in                        (* :788 *)
      if expired then Ok (f, note w TGapNoResponse, GprNoResponse)
      else Ok (f, note w TGapAwait, GprWaiting)
  end.

(* ------------------------------------------------------------------------------------------ *)
(* do_claim_token (active.rs:1022-1103) and handle_lost_token (:653-674)                       *)

Definition set_claim_step (f : fdl) (s : claim_step) : res fdl :=
  let* _ := get_claim_token_step (f_state f) in Ok (set_st f (ClaimToken s)).

(* the ClaimTokenStep::Scan arm, :1056-1080 *)
Definition do_claim_token_scan (f : fdl) (now : Z) (w : W) : res (fdl * W) :=
  let* (f, wait) := wait_synchronization_pause f now in
  if wait then Ok (f, note w TSyncWait) else
  match f_gap f with
  | GapWaiting _ =>
      let* (f, w) := trans f (note w TClaimScanDone) (fun s => transition_pass_token s false AttFirst) in
      Ok (f, w)
  | GapDoPoll current_address =>
      let* (f, w) := next_gap_poll_traced f w current_address in
      let* (f, w, polled) := transmit_gap_poll_if_pending f now w in
      match polled with
      | Some address =>
          let* f := set_claim_step f (StepScanAwaitResponse address) in
          Ok (f, note w TClaimScanPoll)
      | None => Ok (f, note w TClaimScanIdle)
      end
  end.

Definition do_claim_token (f : fdl) (now : Z) (w : W) : res (fdl * W) :=
  let* _ := assert_entry DoClaimToken f in
  let* step := get_claim_token_step (f_state f) in
  match step with
  | StepFirstToken | StepSecondToken =>                                      (* :1032-1055 *)
      let* (f, wait) := wait_synchronization_pause f now in
      if wait then Ok (f, note w TSyncWait) else
      let* (w, n) := phy_send w (TxToken (ts f) (ts f)) in
      let f := set_ring f (claim_token (f_ring f)) in
      let* f := set_claim_step f (match step with StepFirstToken => StepSecondToken | _ => StepScan end) in
      let f := set_gap f (GapDoPoll (ts f)) in
      let* f := mark_tx f now n in
      Ok (f, note w TClaimSendToken)
  | StepScan => do_claim_token_scan f now w
  | StepScanAwaitResponse address =>                                         (* :1081-1101 *)
      let* (f, w, r) := await_gap_poll_response f now w address in
      match r with
      | GprWaiting => Ok (f, w)
      | GprStationResponded => let* f := set_claim_step f StepScan in Ok (f, w)
      | GprNoResponse =>
          let* f := set_claim_step f StepScan in
          (* recursive do_claim_token: entry assertion holds, step = Scan *)
          do_claim_token_scan f now w
      | GprUnexpectedTelegram => trans f w transition_active_idle            (* F2: now admitted *)
      end
  end.

(* handle_lost_token, :653-674; returns done *)
Definition handle_lost_token (f : fdl) (now : Z) (w : W) : res (fdl * W * bool) :=
  let (l, f) := lba_get_or_insert f now in
  let* since := inst_diff now l in
  if token_lost_timeout (f_p f) <=? since then
    let* (f, w) := trans f (note w TLostTokenClaim) transition_claim_token in
    let* (f, w) := do_claim_token f now w in
    Ok (f, w, true)
  else Ok (f, w, false).

(* ------------------------------------------------------------------------------------------ *)
(* do_listen_token (active.rs:799-895)                                                         *)

Definition source_address (t : telegram) : option Z :=                       (* telegram.rs *)
  match t with TData h _ => Some (h_sa h) | TToken _ sa => Some sa | TShortConf => None end.

Definition is_fdl_status_request (h : header) : bool :=
  match h_fc h with FcRequest _ RqFdlStatus => true | _ => false end.

(* the closure passed to receive_all_telegrams, :843-894; closure state = (fdl, W) *)
Definition listen_token_telegram (now : Z) (s : fdl * W) (t : telegram) (is_last : bool)
  : res (fdl * W * unit) :=
  let (f, w) := s in
  let f := mark_rx f now in
  match f_conn f with
  | ConnOffline => Ok (f, note w TLtOfflineSkip, tt)                          (* :848 *)
  | _ =>
  if opt_eqb (source_address t) (Some (ts f)) then                           (* :853-871 *)
    let* (sr, cc) := get_listen_token (f_state f) in
    let* cc := u8_add cc 1 in
    let f := set_st f (ListenToken sr cc) in
    if cc =? listen_collision_tolerated then Ok (f, note w TLtCollisionFirst, tt)
    else let* f := set_offline f in Ok (f, note w TLtCollisionOffline, tt)
  else
    match t with
    | TToken da sa =>
        let* r := witness (f_ring f) sa da in Ok (set_ring f r, note w TLtWitness, tt)
    | TData h _ =>
        if is_fdl_status_request h && (h_da h =? ts f) then
          if is_last then
            let* (_, cc) := get_listen_token (f_state f) in
            Ok (set_st f (ListenToken (Some (h_sa h)) cc), note w TLtStatusReqLast, tt)
          else Ok (f, note w TLtStatusReqNotLast, tt)
        else Ok (f, note w TLtOther, tt)
    | TShortConf => Ok (f, note w TLtOther, tt)
    end
  end.

(* phy.receive_all_telegrams over the W's buffer with a closure over (fdl, W) *)
Definition receive_all_telegrams (cb : fdl * W -> telegram -> bool -> res (fdl * W * unit))
           (f : fdl) (w : W) : res (fdl * W) :=
  let buf := w_rx w in
  let* (s, rest, _) := receive_all cb (receive_all_fuel buf) (f, w) buf in
  let (f, w) := (s : fdl * W) in
  let w := set_rx w rest in
  Ok (sync_pending_bytes f w, w).                                            (* F12 *)

Definition do_listen_token (f : fdl) (now : Z) (w : W) : res (fdl * W) :=
  let* _ := assert_entry DoListenToken f in
  let* (f, w, done) := handle_lost_token f now w in                          (* :807 *)
  if done then Ok (f, w) else
  let* (sr, _) := get_listen_token (f_state f) in
  match sr with
  | Some status_request_source =>                                            (* :810-840 *)
      let* (f, wait) := wait_synchronization_pause f now in
      if wait then Ok (f, note w TSyncWait) else
      let ready := ready_for_ring (f_ring f) && (status_request_source =? r_ps (f_ring f)) in
      let st := if ready then listen_reply_ready else listen_reply_not_ready in
      let* (w, n) := phy_send w (TxData (status_response_header status_request_source (ts f) st status_reply_status) []) in
      let w := note w (if ready then TLtReplyReady else TLtReplyNotReady) in
      let* (f, w) :=
        (if ready_for_ring (f_ring f) then trans f w transition_active_idle
         else let* (_, cc) := get_listen_token (f_state f) in Ok (set_st f (ListenToken None cc), w)) in
      let* f := mark_tx f now n in
      Ok (f, w)
  | None => receive_all_telegrams (listen_token_telegram now) f w            (* :843-894 *)
  end.

(* ------------------------------------------------------------------------------------------ *)
(* handle_telegram (active.rs:897-983) and do_active_idle (:985-1020)                          *)

Definition handle_telegram (now : Z) (f : fdl) (w : W) (t : telegram) (is_last : bool) : res (fdl * W) :=
  match f_state f with
  | ListenToken _ _ => Ok (f, note w THtListenSkip)                           (* :905 *)
  | _ =>
  if negb (state_kind_eqb (kind_of (f_state f)) KActiveIdle) then Panic SiteAssert else   (* :909 *)
  match t with
  | TToken da sa =>
      let* (sr, nps, cc) := get_active_idle (f_state f) in
      if sa =? ts f then                                                     (* :915-930 *)
        let* cc := u8_add cc 1 in
        let f := set_st f (ActiveIdle sr nps cc) in
        if cc =? active_idle_collision_tolerated then Ok (f, note w THtCollisionFirst)
        else trans f (note w THtCollisionLeave) transition_listen_token
      else
        let f := set_st f (ActiveIdle sr nps 0) in                           (* :934 *)
        if negb (da =? ts f) || negb is_last then                            (* :939-943 *)
          let* r := witness (f_ring f) sa da in Ok (set_ring f r, note w THtWitness)
        else if sa =? r_ps (f_ring f) then                                   (* :946-949 *)
          trans f (note w THtAcceptPS) (fun s => transition_use_token s now None)
        else
          match nps with
          | Some address =>
              if address =? sa then                                          (* :952-960 *)
                let* r := witness (f_ring f) sa da in
                trans (set_ring f r) (note w THtAcceptSecondOffer) (fun s => transition_use_token s now None)
              else Ok (set_st f (ActiveIdle sr (Some sa) 0), note w THtPendStranger)
          | None => Ok (set_st f (ActiveIdle sr (Some sa) 0), note w THtPendStranger)   (* :961-966 *)
          end
  | TData h _ =>
      if is_fdl_status_request h && (h_da h =? ts f) && is_last then          (* :973-980 *)
        let* (_, nps, cc) := get_active_idle (f_state f) in
        Ok (set_st f (ActiveIdle (Some (h_sa h)) nps cc), note w THtStatusReq)
      else Ok (f, note w THtOther)
  | TShortConf => Ok (f, note w THtOther)
  end
  end.

Definition active_idle_telegram (now : Z) (s : fdl * W) (t : telegram) (is_last : bool)
  : res (fdl * W * unit) :=
  let (f, w) := s in
  let f := mark_rx f now in
  let* (f, w) := handle_telegram now f w t is_last in Ok (f, w, tt).

Definition do_active_idle (f : fdl) (now : Z) (w : W) : res (fdl * W) :=
  let* _ := assert_entry DoActiveIdle f in
  let* (f, w, done) := handle_lost_token f now w in                          (* :993 *)
  if done then Ok (f, w) else
  let* (sr, nps, cc) := get_active_idle (f_state f) in
  match sr with
  | Some status_request_source =>                                            (* :996-1012 *)
      let* (f, wait) := wait_synchronization_pause f now in
      if wait then Ok (f, note w TSyncWait) else
      let* (w, n) := phy_send w (TxData (status_response_header status_request_source (ts f) active_idle_reply status_reply_status) []) in
      let f := set_st f (ActiveIdle None nps cc) in
      let* f := mark_tx f now n in
      Ok (f, note w TAiReplyInRing)
  | None => receive_all_telegrams (active_idle_telegram now) f w             (* :1014-1019 *)
  end.

(* ------------------------------------------------------------------------------------------ *)
(* Applications and token use (active.rs:1105-1266)                                            *)

(* app_transmit_telegram, :1106-1124; `app` = apps[idx]; returns done *)
Definition app_transmit_telegram (f : fdl) (now : Z) (w : W) (idx : nat) (app : A) (high_prio_only : bool)
  : res (fdl * W * bool) :=
  let* (app', r) := a_tx ops app now (f_p f) high_prio_only in
  let w := log_call (set_app w idx app') (CallTransmit idx high_prio_only r) in
  match r with
  | Some (wire, expects_reply) =>
      let* w := phy_transmit w wire in
      let* (f, w) :=
        (match expects_reply with
         | Some addr =>
             let* (tt_, fa, _) := get_use_token (f_state f) in
             trans f (note w TAppTxExpectReply) (fun s => transition_await_data_response s addr tt_ fa)
         | None => Ok (f, note w TAppTxNoReply)
         end) in
      let* f := mark_tx f now (length wire) in
      Ok (f, w, true)
  | None => Ok (f, note w TAppDecline, false)
  end.

(* schedule_next_application, :1126-1135; returns cycle_completed *)
Definition schedule_next_application (f : fdl) (num_apps : nat) : res (fdl * bool) :=
  let* (tt_, fa, fcd) := get_use_token (f_state f) in
  let first := match fa with Some x => x | None => f_next_app f end in      (* get_or_insert *)
  let f := set_st f (UseToken tt_ (Some first) fcd) in
  if Nat.eqb num_apps 0 then Panic SiteArith else                            (* % 0 *)
  let next := Nat.modulo (f_next_app f + 1) num_apps in
  Ok (set_next_app f next, Nat.eqb next first).

(* apps_transmit_telegram, :1138-1161: `for _ in 0..apps.len()`; returns done *)
Fixpoint apps_transmit_loop (n : nat) (f : fdl) (now : Z) (w : W) (high_prio_only : bool)
  : res (fdl * W * bool) :=
  match n with
  | O => Ok (f, w, false)
  | S n' =>
      match nth_error (w_apps w) (f_next_app f) with
      | None => Panic SiteIndex                                              (* apps[self.next_application] *)
      | Some app =>
          let* (f, w, done) := app_transmit_telegram f now w (f_next_app f) app high_prio_only in
          if done then Ok (f, w, true) else
          let* (f, completed) := schedule_next_application f (length (w_apps w)) in
          if completed then Ok (f, note w TAppCycleCompleted, false)
          else apps_transmit_loop n' f now w high_prio_only
      end
  end.
Definition apps_transmit_telegram (f : fdl) (now : Z) (w : W) (high_prio_only : bool) :=
  apps_transmit_loop (length (w_apps w)) f now w high_prio_only.

Definition set_first_cycle_done (f : fdl) : res fdl :=
  let* (tt_, fa, _) := get_use_token (f_state f) in Ok (set_st f (UseToken tt_ fa true)).

(* do_pass_token, :1287-1339 (token passing; defined here because do_use_token ends in it since the F20 repair) *)
Definition do_pass_token (f : fdl) (now : Z) (w : W) : res (fdl * W) :=
  let* _ := assert_entry DoPassToken f in
  let* (f, wait) := wait_synchronization_pause f now in                      (* :1276 *)
  if wait then Ok (f, note w TSyncWait) else
  let* (do_gap, _) := get_pass_token (f_state f) in
  let* (f, w, polled) :=
    (if do_gap then                                                          (* :1278-1301 *)
       let* (f, w) :=
         (match f_gap f with
          | GapWaiting rotation_count =>
              if p_gap_wait (f_p f) <? rotation_count then
                next_gap_poll_traced f (note w TGapWaitDone) (ts f)
              else
                let* rc := u8_add rotation_count 1 in
                Ok (set_gap f (GapWaiting rc), note w TGapWaitCount)
          | GapDoPoll current_address => next_gap_poll_traced f w current_address
          end) in
       transmit_gap_poll_if_pending f now w
     else Ok (f, w, None)) in
  match polled with
  | Some poll_address =>
      trans f w (fun s => transition_await_status_response s poll_address)
  | None =>
      let ns := r_ns (f_ring f) in
      let* (w, n) := phy_send w (TxToken ns (ts f)) in                        (* :1303-1307 *)
      let* r := witness (f_ring f) (ts f) ns in                              (* :1309 *)
      let f := set_ring f r in
      let* (f, w) :=
        (if r_ns (f_ring f) =? ts f then                                     (* :1312-1318 *)
           trans f (note w TPassTokenToSelf) (fun s => transition_use_token s now None)
         else
           let* (_, attempt) := get_pass_token (f_state f) in
           trans f (note w TPassToken) (fun s => transition_check_token_pass s attempt)) in
      let* f := mark_tx f now n in
      Ok (f, w)
  end.

(* do_use_token, :1163-1199 *)
Definition do_use_token (f : fdl) (now : Z) (w : W) : res (fdl * W) :=
  let* _ := assert_entry DoUseToken f in
  let* (token_time, _, _) := get_use_token (f_state f) in
  let* (f, w) :=
    (if negb (f_last_token_time f =? token_time) then                        (* :1173-1182 *)
       let* e := inst_add (f_last_token_time f) (token_rotation_time (f_p f)) in
       match f_gap f with
       | GapDoPoll _ =>
           let* e := inst_sub_dur e (p_bits_to_time (f_p f) (p_slot_bits (f_p f) + gap_reserve_extra_bits)) in
           Ok (set_hold f token_time e, note w TUseNewVisitGapReserve)
       | GapWaiting _ => Ok (set_hold f token_time e, note w TUseNewVisit)
       end
     else Ok (f, w)) in
  let* (f, wait) := wait_synchronization_pause f now in                      (* :1184 *)
  if wait then Ok (f, note w TSyncWait) else
  let* (_, _, fcd) := get_use_token (f_state f) in
  let* (f, w, done) :=
    (if now <? f_end_tht f then                                              (* :1186-1188 *)
       let* f := set_first_cycle_done f in
       apps_transmit_telegram f now (note w TUseLowPrio) false
     else if negb fcd then                                                   (* :1189-1193 *)
       let* f := set_first_cycle_done f in
       apps_transmit_telegram f now (note w TUseHighPrioOnce) true
     else Ok (f, note w TUseHoldOver, false)) in
  if done then Ok (f, w) else
  let* (f, w) := trans f w (fun s => transition_pass_token s true first_attempt) in   (* :1210 *)
  do_pass_token f now w.                                                     (* :1215, F20 repair *)

(* the reply admission filter, :1223-1229 *)
Definition is_valid_response (f : fdl) (address : Z) (t : telegram) : bool :=
  match t with
  | TToken _ _ => false
  | TShortConf => true
  | TData h _ =>
      (h_sa h =? address) && (h_da h =? ts f) &&
      match h_fc h with FcResponse _ _ => true | FcRequest _ _ => false end
  end.

(* do_await_data_response, :1201-1266 *)
Definition do_await_data_response (f : fdl) (now : Z) (w : W) : res (fdl * W) :=
  let* _ := assert_entry DoAwaitDataResponse f in
  let* (address, token_time, first_app) := get_await_data_response (f_state f) in
  let idx := f_next_app f in
  match nth_error (w_apps w) idx with
  | None => Panic SiteIndex                                                  (* &mut apps[self.next_application], :1214 *)
  | Some app =>
  let* (rest, received) := receive_telegram (fun t => t) (w_rx w) in          (* :1219 *)
  let w := match received with
           | None => if Nat.ltb (length rest) (length (w_rx w)) then note w TReplyRxDiscard else w
           | Some _ => w
           end in
  let w := set_rx w rest in
  match received with
  | Some t =>
      let f := mark_rx f now in
      if is_valid_response f address t then
        let* app' := a_rx ops app now (f_p f) address t in                   (* :1232 *)
        let w := log_call (set_app w idx app') (CallReceiveReply idx address t) in
        let f := sync_pending_bytes f w in                                   (* F12 (no-op after mark_rx) *)
        let* (f, w) := trans f (note w TReplyDelivered) (fun s => transition_use_token s token_time first_app) in
        let* f := set_first_cycle_done f in                                  (* :1248-1250 *)
        Ok (f, w)
      else trans f (note w TReplyUnexpected) transition_active_idle          (* :1237 *)
  | None =>
      let f := sync_pending_bytes f w in                                     (* F12 *)
      let* (f, expired) := check_slot_expired f now in                       (* :1255 *)
      if expired then
        let* app' := a_to ops app now (f_p f) address in                     (* :1256 *)
        let w := log_call (set_app w idx app') (CallHandleTimeout idx address) in
        let* (f, w) := trans f (note w TReplyTimeout) (fun s => transition_use_token s token_time first_app) in
        let* f := set_first_cycle_done f in
        do_use_token f now w                                                 (* :1262 *)
      else Ok (f, note w TReplyAwait)
  end
  end.

(* ------------------------------------------------------------------------------------------ *)
(* Token passing (active.rs:1268-1422)                                                         *)

(* do_await_status_response, :1323-1355 *)
Definition do_await_status_response (f : fdl) (now : Z) (w : W) : res (fdl * W) :=
  let* _ := assert_entry DoAwaitStatusResponse f in
  let* address := get_await_status_response_address (f_state f) in
  let* (f, w, r) := await_gap_poll_response f now w address in
  match r with
  | GprWaiting => Ok (f, w)
  | GprStationResponded => trans f w (fun s => transition_pass_token s false AttFirst)
  | GprNoResponse =>
      let* (f, w) := trans f w (fun s => transition_pass_token s false AttFirst) in
      do_pass_token f now w                                                  (* :1345 *)
  | GprUnexpectedTelegram => trans f w transition_active_idle
  end.

(* the closure of do_check_token_pass, :1401-1420; closure state = (fdl, W, first_in) *)
Definition check_token_pass_telegram (now : Z) (s : fdl * W * bool) (t : telegram) (is_last : bool)
  : res (fdl * W * bool * unit) :=
  let '(f, w, first_in) := s in
  let f := mark_rx f now in
  let* (f, w) :=
    (if first_in then
       (* F3: the warning formats the Option, no unwrap *)
       let w := note w (if opt_eqb (source_address t) (Some (r_ns (f_ring f))) then TCheckHeardExpected else TCheckHeardOther) in
       trans f w transition_active_idle
     else Ok (f, w)) in
  let* (f, w) := handle_telegram now f w t is_last in
  Ok (f, w, false, tt).

(* do_check_token_pass, :1357-1422 *)
Definition do_check_token_pass (f : fdl) (now : Z) (w : W) : res (fdl * W) :=
  let* _ := assert_entry DoCheckTokenPass f in
  let* (f, expired) := check_slot_expired f now in                           (* :1365 *)
  if expired then
    let* attempt := get_check_token_pass_attempt (f_state f) in
    let* (f, w) :=
      (if check_pass_removes attempt then
         let* r := remove_station (f_ring f) (r_ns (f_ring f)) in            (* :1388 *)
         Ok (set_ring f r, note w TCheckRemove)
       else Ok (f, note w (TCheckRetry (check_pass_next attempt)))) in
    let* (f, w) := trans f w (fun s => transition_pass_token s false (check_pass_next attempt)) in
    do_pass_token f now w                                                    (* :1397 *)
  else
    let buf := w_rx w in
    let* (s, rest, _) := receive_all (check_token_pass_telegram now) (receive_all_fuel buf) (f, w, true) buf in
    let '(f, w, first_in) := (s : fdl * W * bool) in
    let w := set_rx (if first_in then note w TCheckAwait else w) rest in
    Ok (sync_pending_bytes f w, w).                                          (* F12 *)

(* ------------------------------------------------------------------------------------------ *)
(* poll / poll_multi / poll_inner (active.rs:1424-1514)                                        *)

Definition poll_inner (f : fdl) (now : Z) (busy : bool) (w : W) : res (fdl * W) :=
  (* connectivity prologue, :1468-1492 *)
  let* r :=
    (match f_conn f with
     | ConnOffline =>
         match f_state f with Offline => Ok (f, w, true) | _ => Panic SiteAssert end
     | ConnPassive =>
         if passive_entry_kind (kind_of (f_state f)) then
           let* (f, w) := trans f w transition_passive_idle in Ok (f, w, false)
         else Ok (f, w, false)
     | ConnOnline =>
         if online_entry_kind (kind_of (f_state f)) then
           let* (f, w) := trans f w transition_listen_token in Ok (f, w, false)
         else Ok (f, w, false)
     end) in
  let '(f, w, offline) := r in
  if offline then Ok (f, w) else
  let '(f, w, done) := check_for_ongoing_transmision f now busy w in          (* :1496 *)
  if done then Ok (f, w) else
  let (f, w) := check_for_bus_activity f now w in                            (* :1500 *)
  match poll_dispatch (kind_of (f_state f)) with                             (* :1502-1513 *)
  | TgUnreachable => Panic SiteUnreachable
  | TgTodo => Panic SiteUnreachable
  | TgDo DoListenToken => do_listen_token f now w
  | TgDo DoClaimToken => do_claim_token f now w
  | TgDo DoUseToken => do_use_token f now w
  | TgDo DoAwaitDataResponse => do_await_data_response f now w
  | TgDo DoPassToken => do_pass_token f now w
  | TgDo DoCheckTokenPass => do_check_token_pass f now w
  | TgDo DoActiveIdle => do_active_idle f now w
  | TgDo DoAwaitStatusResponse => do_await_status_response f now w
  end.

(* poll_multi with its observable effects; poll (single application) = poll_multi with [app] *)
Definition poll_traced (f : fdl) (now : Z) (pin : phy_in) (apps : list A)
  : res (fdl * phy_out * list A * list call * list tag) :=
  let* (f, w) := poll_inner f now (tx_busy pin) (mkWorld (rx pin) None apps [] []) in
  Ok (f, mkPhyOut (w_tx w) (w_rx w), w_apps w, w_calls w, w_trace w).

Definition poll (f : fdl) (now : Z) (pin : phy_in) (apps : list A)
  : res (fdl * phy_out * list A * list call) :=
  let* (f, o, a, c, _) := poll_traced f now pin apps in Ok (f, o, a, c).

End Poll.

Arguments poll {A}. Arguments poll_traced {A}. Arguments poll_inner {A}.

(* The unit application `impl FdlApplication for ()` (src/fdl/mod.rs:68-92) *)
Definition unit_app_ops : app_ops unit :=
  mkAppOps unit (fun a _ _ _ => Ok (a, None)) (fun a _ _ _ _ => Ok a) (fun a _ _ _ => Ok a).
