(* Executable monitors (oracles) of the DP properties C03 C04 C07 C08 C14 over a transcript:
   the list of steps (input, what the IMPLEMENTATION returned, the events it handed out, its public
   observables after the step).  Each monitor returns None when it accepts, or Some (step index, reason
   code) for the first step it rejects.  The monitors are written against the property texts and the
   PROFIBUS standard (literal SAP numbers, literal Set_Prm layout), not against the model: they never call
   the DP master model.  They require transcripts in which events are collected after every callback
   (cf_autotake) and which respect the FdlApplication contract (`contract_ok`).  No proofs here. *)
From PB Require Export DpRun.

Record tstep : Set := mkStep {
  ts_in : tr_in;
  ts_raw : bool;                       (* reply delivered although the FDL would not have admitted it *)
  ts_out : tr_out;                     (* what the implementation returned *)
  ts_taken : option dpevents;          (* take_last_events() after the step, if taken *)
  ts_obs : list (option pobs);         (* observables of configured peripheral k after the step *)
  ts_op : opstate }.

Definition verdict : Set := option (nat * Z).

(* ------------------------------------------------------------------ the wire, seen by a standard analyser *)

Inductive service : Set := SvDiag | SvPrm | SvCfg | SvDx | SvGc | SvOther.

Definition service_eqb (a b : service) : bool :=
  match a, b with
  | SvDiag, SvDiag | SvPrm, SvPrm | SvCfg, SvCfg | SvDx, SvDx | SvGc, SvGc | SvOther, SvOther => true
  | _, _ => false
  end.

(* service by the SAPs of the standard: Slave_Diag 60, Set_Prm 61, Chk_Cfg 62, Global_Control 58 from 62;
   Data_Exchange = default SAP (none) *)
Definition classify (h : header) : service :=
  match h_dsap h, h_ssap h with
  | None, None => SvDx
  | Some d, Some s =>
      if s =? 62 then
        if d =? 60 then SvDiag else if d =? 61 then SvPrm else if d =? 62 then SvCfg
        else if d =? 58 then SvGc else SvOther
      else SvOther
  | _, _ => SvOther
  end.

Inductive view : Set :=
| VReq (da : Z) (sv : service) (h : header) (pdu : bytes)    (* request that expects a reply from da *)
| VSdn (h : header) (pdu : bytes)                            (* unacknowledged request *)
| VNoTx                                                      (* transmit_telegram returned None *)
| VBadTx                                                     (* transmitted bytes are no request telegram *)
| VReply (addr : Z) (t : telegram)
| VTimeout (addr : Z)
| VAbandon
| VCrash                                                     (* a callback panicked or hung *)
| VOther.

Definition view_of (s : tstep) : view :=
  match ts_in s, ts_out s with
  | InTx _ _, OutTx None => VNoTx
  | InTx _ _, OutTx (Some (w, exp)) =>
      match decode w with
      | Ok (Accept (TData h pdu) n) =>
          if negb (Nat.eqb n (length w)) then VBadTx else
          match h_fc h, exp with
          | FcRequest _ _, Some da => if da =? h_da h then VReq da (classify h) h pdu else VBadTx
          | FcRequest _ _, None => VSdn h pdu
          | _, _ => VBadTx
          end
      | _ => VBadTx
      end
  | InTx _ _, _ => VCrash
  | InRx _ addr w, OutUnit =>
      match decode w with
      | Ok (Accept t _) => VReply addr t
      | _ => VOther
      end
  | InRx _ _ _, _ => VCrash
  | InTo _ addr, OutUnit => VTimeout addr
  | InTo _ _, _ => VCrash
  | InAbandon, _ => VAbandon
  | _, _ => VOther
  end.

(* a reply the FDL admits for a request to `da` sent by `own` *)
Definition admissible (own da : Z) (t : telegram) : bool :=
  match t with
  | TShortConf => true
  | TData h _ =>
      (h_sa h =? da) && (h_da h =? own) &&
      match h_fc h with FcResponse _ _ => true | _ => false end
  | TToken _ _ => false
  end.

(* the FdlApplication contract over the callback steps of a transcript *)
Fixpoint contract_from (own : Z) (pending : option Z) (l : list tstep) : bool :=
  match l with
  | [] => true
  | s :: r =>
      if ts_raw s then false else
      match view_of s with
      | VReq da _ _ _ => match pending with None => contract_from own (Some da) r | Some _ => false end
      | VSdn _ _ | VNoTx | VBadTx => match pending with None => contract_from own None r | Some _ => false end
      | VReply a t =>
          match pending with
          | Some da => (a =? da) && admissible own da t && contract_from own None r
          | None => false
          end
      | VTimeout a => match pending with Some da => (a =? da) && contract_from own None r | None => false end
      | VAbandon => match pending with Some _ => contract_from own None r | None => false end
      | VCrash => true
      | VOther => contract_from own pending r
      end
  end.
Definition contract_ok (c : conf) (l : list tstep) : bool := contract_from (p_address (cf_params c)) None l.

(* does the DP layer have to accept this reply to a request of service sv?  (the standard's view) *)
Definition reply_accepted (sv : service) (t : telegram) : bool :=
  match sv, t with
  | SvDiag, TData h pdu =>
      opt_eqb (h_dsap h) (Some 62) && opt_eqb (h_ssap h) (Some 60) && Nat.leb 6 (length pdu)
  | SvPrm, TShortConf => true
  | SvCfg, TShortConf => true
  | SvDx, TData _ _ => true
  | SvDx, TShortConf => true
  | _, _ => false
  end.

(* flags of a diagnostics reply PDU (station status 1 and 2) *)
Definition diag_flags (pdu : bytes) : Z := nth 0 pdu 0 + 256 * nth 1 pdu 0.
Definition has_flag (f m : Z) : bool := negb (Z.land f m =? 0).

(* peripheral events of this step as (address, event) *)
Definition step_event (s : tstep) : option (Z * pevent) :=
  match ts_taken s with
  | Some e => match ev_peripheral e with Some (h, ev) => Some (hd_addr h, ev) | None => None end
  | None => None
  end.
Definition step_cc (s : tstep) : bool :=
  match ts_taken s with Some e => ev_cycle_completed e | None => false end.

(* association lists keyed by station address *)
Fixpoint alist_get {A} (d : A) (l : list (Z * A)) (k : Z) : A :=
  match l with
  | [] => d
  | (k', v) :: r => if k =? k' then v else alist_get d r k
  end.
Fixpoint alist_set {A} (l : list (Z * A)) (k : Z) (v : A) : list (Z * A) :=
  match l with
  | [] => [(k, v)]
  | (k', v') :: r => if k =? k' then (k, v) :: r else (k', v') :: alist_set r k v
  end.

Fixpoint distinct (l : list Z) : bool :=
  match l with
  | [] => true
  | x :: r => negb (existsb (Z.eqb x) r) && distinct r
  end.

(* configurations the per-address monitors can interpret: distinct peripheral addresses, none equal to
   the master's own address or the broadcast address *)
Definition conf_sane (c : conf) : bool :=
  let addrs := map pc_addr (cf_periphs c) in
  distinct addrs && negb (existsb (Z.eqb (p_address (cf_params c))) addrs) && negb (existsb (Z.eqb 127) addrs).

Definition pconf_of_addr (c : conf) (a : Z) : option (nat * pconf) :=
  (fix go (l : list pconf) (k : nat) :=
     match l with
     | [] => None
     | p :: r => if pc_addr p =? a then Some (k, p) else go r (S k)
     end) (cf_periphs c) 0%nat.

(* generic driver: fold a monitor step over the transcript, stop at the first rejection *)
Fixpoint run_monitor {St : Type} (step : St -> nat -> tstep -> St + Z) (st : St) (i : nat) (l : list tstep) : verdict :=
  match l with
  | [] => None
  | s :: r =>
      match step st i s with
      | inl st' => run_monitor step st' (S i) r
      | inr code => Some (i, code)
      end
  end.

(* request function code: frame count bit and service class *)
Definition req_fcbit (h : header) : option fcbit := match h_fc h with FcRequest f _ => Some f | _ => None end.
Definition req_type_of (h : header) : option req_type := match h_fc h with FcRequest _ r => Some r | _ => None end.

(* ------------------------------------------------------------------ C08: frame count bit and retry discipline *)

Record c08st : Set := mkC08 {
  c8_probe : bool;                     (* peripheral is not live: only diagnostics probes are allowed *)
  c8_first : bool;                     (* next request must carry FCV=0/FCB=1 *)
  c8_last : option (service * Z);      (* service and function code byte of the last request *)
  c8_acc : bool;                       (* the last request got an accepted reply *)
  c8_lo : nat;                         (* transmissions since any reply arrived *)
  c8_hi : nat }.                       (* transmissions since an accepted reply *)
Definition c08_init : c08st := mkC08 true true None false 0 0.

Record c08g : Set := mkC08g { g8_per : list (Z * c08st); g8_pending : option (Z * service) }.

(* reason codes: 801 first request not FCV=0/FCB=1; 802 bit not toggled after accepted reply;
   803 same bit but not a retransmission; 804 non-diagnostics request to a peripheral that is not live;
   805 more than 1+max_retry transmissions; 806 Offline event while not live / before retries ran out;
   807 malformed request; 808 Inactive frame count bit on an acknowledged request *)
Definition c08_step (max_retry : nat) (g : c08g) (i : nat) (s : tstep) : c08g + Z :=
  (* 1. the wire *)
  let r1 : c08g + Z :=
    match view_of s with
    | VBadTx => inr 807
    | VReq da sv h _ =>
        let st := alist_get c08_init (g8_per g) da in
        match req_fcbit h with
        | None => inr 807
        | Some f =>
            let fc := fc_to_byte (h_fc h) in
            let ok_bits : option Z :=
              if c8_first st then
                (if fcbit_eqb f FcbFirst then None else Some 801)
              else
                match c8_last st with
                | None => Some 801
                | Some (sv0, fc0) =>
                    if c8_acc st then
                      (if fcbit_fcv f && negb (Bool.eqb (fcbit_fcb f) (negb (Z.land fc0 32 =? 0))) then None else Some 802)
                    else
                      (* a retransmission; a peripheral that is not live is probed without retries, so
                         each unanswered probe may be followed by a first request *)
                      (if service_eqb sv sv0 && ((fc =? fc0) || (c8_probe st && fcbit_eqb f FcbFirst))
                       then None else Some 803)
                end in
            match ok_bits with
            | Some code => inr code
            | None =>
                if fcbit_eqb f FcbInactive then inr 808 else
                if c8_probe st && negb (service_eqb sv SvDiag) then inr 804 else
                if negb (c8_probe st) && Nat.ltb max_retry (c8_lo st) then inr 805 else
                let st' := mkC08 (c8_probe st) false (Some (sv, fc)) false (S (c8_lo st)) (S (c8_hi st)) in
                inl (mkC08g (alist_set (g8_per g) da st') (Some (da, sv)))
            end
        end
    | VReply a t =>
        match g8_pending g with
        | Some (da, sv) =>
            let st := alist_get c08_init (g8_per g) da in
            let st' := if reply_accepted sv t
                       then mkC08 (c8_probe st) (c8_first st) (c8_last st) true 0 0
                       else mkC08 (c8_probe st) (c8_first st) (c8_last st) (c8_acc st) 0 (c8_hi st) in
            inl (mkC08g (alist_set (g8_per g) da st') None)
        | None => inl g
        end
    | VTimeout _ | VAbandon => inl (mkC08g (g8_per g) None)
    | _ => inl g
    end in
  (* 2. the events handed out after the step *)
  match r1 with
  | inr c => inr c
  | inl g1 =>
      match step_event s with
      | None => inl g1
      | Some (a, ev) =>
          let st := alist_get c08_init (g8_per g1) a in
          match ev with
          | EvOffline =>
              if c8_probe st || negb (Nat.ltb max_retry (c8_hi st)) then inr 806
              else inl (mkC08g (alist_set (g8_per g1) a (mkC08 true true None false 0 0)) (g8_pending g1))
          | EvParameterError | EvConfigError =>
              inl (mkC08g (alist_set (g8_per g1) a
                             (mkC08 true (c8_first st) (c8_last st) (c8_acc st) (c8_lo st) (c8_hi st)))
                          (g8_pending g1))
          | EvOnline =>
              inl (mkC08g (alist_set (g8_per g1) a
                             (mkC08 false (c8_first st) (c8_last st) (c8_acc st) (c8_lo st) (c8_hi st)))
                          (g8_pending g1))
          | _ => inl g1
          end
      end
  end.

Definition c08_monitor (c : conf) (l : list tstep) : verdict :=
  run_monitor (c08_step (Z.to_nat (p_max_retry (cf_params c)))) (mkC08g [] None) 0 l.

(* ------------------------------------------------------------------ C03: bring-up order and telegram contents *)

Inductive phase : Set := PhNeedDiag | PhDiagAnswered | PhPrmAcked | PhCfgAcked | PhReady.
Definition phase_eqb (a b : phase) : bool :=
  match a, b with
  | PhNeedDiag, PhNeedDiag | PhDiagAnswered, PhDiagAnswered | PhPrmAcked, PhPrmAcked
  | PhCfgAcked, PhCfgAcked | PhReady, PhReady => true
  | _, _ => false
  end.

Record c03g : Set := mkC03g { g3_per : list (Z * phase); g3_pending : option (Z * service) }.

(* the Set_Prm PDU the standard prescribes for these options: Lock_Req 0x80, Sync_Req 0x20, Freeze_Req 0x10,
   WD_On 0x08, WD factors, min Tsdr, ident high/low, group ident, user parameters *)
Definition std_set_prm (pa : params) (o : poptions) (user : bytes) : bytes :=
  [ 128 + (if o_sync o then 32 else 0) + (if o_freeze o then 16 else 0) +
      (match p_watchdog pa with Some _ => 8 | None => 0 end);
    (match p_watchdog pa with Some (f1, _) => f1 | None => 0 end);
    (match p_watchdog pa with Some (_, f2) => f2 | None => 0 end);
    p_min_tsdr_bits pa; o_ident o / 256; o_ident o mod 256; o_groups o ] ++ user.

Definition is_req (h : header) (r : req_type) : bool :=
  match h_fc h with FcRequest _ r' => req_to_byte r =? req_to_byte r' | _ => false end.

(* reason codes: 301 Data_Exchange request although bring-up not complete; 302 request with non-standard
   SAPs; 303 Set_Prm contents; 304 Chk_Cfg contents; 305 diagnostics request with payload; 306 request to an
   unconfigured address; 307 wrong source address / service class *)
Definition c03_step (c : conf) (g : c03g) (i : nat) (s : tstep) : c03g + Z :=
  let pa := cf_params c in
  let r1 : c03g + Z :=
    match view_of s with
    | VReq da sv h pdu =>
        match pconf_of_addr c da with
        | None => inr 306
        | Some (_, pc) =>
            if negb (h_sa h =? p_address pa) then inr 307 else
            let ph := alist_get PhNeedDiag (g3_per g) da in
            let g' := mkC03g (g3_per g) (Some (da, sv)) in
            match sv with
            | SvDx =>
                if negb (is_req h RqSrdHigh) then inr 307 else
                if phase_eqb ph PhReady then inl g' else inr 301
            | SvPrm =>
                if negb (is_req h RqSrdLow) then inr 307 else
                match o_user_prm (pc_opts pc) with
                | Some user => if bytes_eqb pdu (std_set_prm pa (pc_opts pc) user) then inl g' else inr 303
                | None => inr 303
                end
            | SvCfg =>
                if negb (is_req h RqSrdLow) then inr 307 else
                match o_config (pc_opts pc) with
                | Some cfg => if bytes_eqb pdu cfg then inl g' else inr 304
                | None => inr 304
                end
            | SvDiag =>
                if negb (is_req h RqSrdLow) then inr 307 else
                if bytes_eqb pdu [] then inl g' else inr 305
            | _ => inr 302
            end
        end
    | VReply a t =>
        match g3_pending g with
        | Some (da, sv) =>
            let ph := alist_get PhNeedDiag (g3_per g) da in
            let ph' :=
              if reply_accepted sv t then
                match sv, t with
                | SvDiag, TData _ pdu =>
                    let f := diag_flags pdu in
                    if has_flag f 256 then PhDiagAnswered           (* Prm_Req: asks to be parameterised *)
                    else match ph with
                         | PhNeedDiag => PhDiagAnswered
                         | PhCfgAcked =>
                             if has_flag f 64 || has_flag f 4 || has_flag f 2 then PhCfgAcked else PhReady
                         | _ => ph
                         end
                | SvPrm, _ => if phase_eqb ph PhDiagAnswered then PhPrmAcked else ph
                | SvCfg, _ => if phase_eqb ph PhPrmAcked then PhCfgAcked else ph
                | _, _ => ph
                end
              else ph in
            inl (mkC03g (alist_set (g3_per g) da ph') None)
        | None => inl g
        end
    | VTimeout _ | VAbandon => inl (mkC03g (g3_per g) None)
    | _ => inl g
    end in
  match r1 with
  | inr code => inr code
  | inl g1 =>
      match step_event s with
      | Some (a, EvOffline) | Some (a, EvParameterError) | Some (a, EvConfigError) =>
          inl (mkC03g (alist_set (g3_per g1) a PhNeedDiag) (g3_pending g1))
      | _ => inl g1
      end
  end.

Definition c03_monitor (c : conf) (l : list tstep) : verdict :=
  run_monitor (c03_step c) (mkC03g [] None) 0 l.

(* ------------------------------------------------------------------ C04: process images *)

Record c04g : Set := mkC04g {
  g4_obs : list (option pobs);          (* observables before the step *)
  g4_op : opstate;
  g4_pending : option (Z * service) }.

Definition resp_status_of (h : header) : option resp_status :=
  match h_fc h with FcResponse _ s => Some s | _ => None end.

(* a well-formed Data_Exchange reply for an input image of n bytes *)
Definition dx_reply_payload (n : nat) (t : telegram) : option bytes :=
  match t with
  | TData h pdu =>
      match resp_status_of h with
      | Some StOk | Some StDataLow | Some StDataHigh => if Nat.eqb (length pdu) n then Some pdu else None
      | _ => None
      end
  | _ => None
  end.

Definition obs_pi_i (o : option pobs) : bytes := match o with Some p => ob_pi_i p | None => [] end.
Definition obs_pi_q (o : option pobs) : bytes := match o with Some p => ob_pi_q p | None => [] end.
Definition obs_present (o : option pobs) : bool := match o with Some _ => true | None => false end.

(* reason codes: 401 Data_Exchange request does not carry the output image / zeros; 402 pi_i changed without a
   well-formed reply; 403 pi_i differs from the accepted reply; 404 pi_q changed by the master; 405
   DataExchanged event without update / update without event; 406 crash on a reply; 407 another peripheral's
   image touched *)
Definition c04_step (c : conf) (g : c04g) (i : nat) (s : tstep) : c04g + Z :=
  let v := view_of s in
  let before := g4_obs g in
  let after := ts_obs s in
  (* which peripheral may legitimately change its pi_i in this step, and to what *)
  let upd : option (nat * bytes) :=
    match v, g4_pending g with
    | VReply a t, Some (da, SvDx) =>
        match pconf_of_addr c da with
        | Some (k, pc) => match dx_reply_payload (pc_in pc) t with Some d => Some (k, d) | None => None end
        | None => None
        end
    | _, _ => None
    end in
  let sc_exchange : option nat :=          (* SC to a Data_Exchange request of an input-less peripheral *)
    match v, g4_pending g with
    | VReply a TShortConf, Some (da, SvDx) =>
        match pconf_of_addr c da with
        | Some (k, pc) => if Nat.eqb (pc_in pc) 0 then Some k else None
        | None => None
        end
    | _, _ => None
    end in
  let chk_images :=
    (fix go (k : nat) (b a : list (option pobs)) : option Z :=
       match b, a with
       | ob :: b', oa :: a' =>
           let r :=
             if obs_present ob && obs_present oa then
               (* input image *)
               let ri :=
                 match upd with
                 | Some (k', d) =>
                     if Nat.eqb k k' then (if bytes_eqb (obs_pi_i oa) d then None else Some 403)
                     else (if bytes_eqb (obs_pi_i ob) (obs_pi_i oa) then None else Some 407)
                 | None => if bytes_eqb (obs_pi_i ob) (obs_pi_i oa) then None else Some 402
                 end in
               match ri with
               | Some code => Some code
               | None =>
                   (* output image: only the user writes it *)
                   match ts_in s with
                   | InWriteQ k' q =>
                       if Nat.eqb k k' then (if bytes_eqb (obs_pi_q oa) q then None else Some 404)
                       else (if bytes_eqb (obs_pi_q ob) (obs_pi_q oa) then None else Some 404)
                   | _ => if bytes_eqb (obs_pi_q ob) (obs_pi_q oa) then None else Some 404
                   end
               end
             else None in
           match r with Some code => Some code | None => go (S k) b' a' end
       | _, _ => None
       end) 0%nat before after in
  match v with
  | VCrash => match ts_in s with InRx _ _ _ => inr 406 | _ => inl g end
  | _ =>
    match chk_images with
    | Some code => inr code
    | None =>
        (* Data_Exchange request carries the output image *)
        let r_req : option Z :=
          match v with
          | VReq da SvDx _ pdu =>
              match pconf_of_addr c da with
              | Some (k, pc) =>
                  let q := obs_pi_q (nth k before None) in
                  let want := match g4_op g with
                              | OpOperate => q
                              | _ => repeat 0 (length q)
                              end in
                  if bytes_eqb pdu want then None else Some 401
              | None => None
              end
          | _ => None
          end in
        match r_req with
        | Some code => inr code
        | None =>
            (* DataExchanged event iff update *)
            let expect_ev : option nat :=
              match upd with Some (k, _) => Some k | None => sc_exchange end in
            let got_ev : option Z :=
              match step_event s with Some (a, EvDataExchanged) => Some a | _ => None end in
            let ev_ok :=
              match ts_taken s with
              | None => true                                  (* events not collected at this step *)
              | Some _ =>
                  match expect_ev, got_ev with
                  | None, None => true
                  | Some k, Some a =>
                      match nth_error (cf_periphs c) k with Some pc => pc_addr pc =? a | None => false end
                  | _, _ => false
                  end
              end in
            if negb ev_ok then inr 405 else
            let pending' :=
              match v with
              | VReq da sv _ _ => Some (da, sv)
              | VReply _ _ | VTimeout _ | VAbandon => None
              | _ => g4_pending g
              end in
            inl (mkC04g after (ts_op s) pending')
        end
    end
  end.

Definition c04_monitor (c : conf) (obs0 : list (option pobs)) (l : list tstep) : verdict :=
  run_monitor (c04_step c) (mkC04g obs0 OpStop None) 0 l.

(* ------------------------------------------------------------------ C14: cycle and event accounting *)

Inductive lstate : Set := LOff | LOn | LCfg.
Definition lstate_eqb (a b : lstate) : bool :=
  match a, b with LOff, LOff | LOn, LOn | LCfg, LCfg => true | _, _ => false end.

(* configurations whose requests fit the frame format: the user respected the documented size limits *)
Definition conf_within_limits (c : conf) : bool :=
  Nat.leb 255 (cf_bufsize c) &&
  forallb (fun p =>
    (0 <=? pc_addr p) && (pc_addr p <=? 125) && Nat.leb (pc_in p) 244 && Nat.leb (pc_out p) 244 &&
    match o_user_prm (pc_opts p) with Some u => Nat.leb (length u) 237 | None => true end &&
    match o_config (pc_opts p) with Some u => Nat.leb (length u) 244 | None => true end) (cf_periphs c).

(* the life-cycle automaton L *)
Definition l_step (l : lstate) (ev : pevent) : option lstate :=
  match ev, l with
  | EvOnline, LOff => Some LOn
  | EvConfigured, LOn => Some LCfg
  | EvConfigured, LCfg => Some LCfg
  | EvDataExchanged, LCfg => Some LCfg
  | EvDiagnostics, LCfg => Some LCfg
  | EvConfigError, LOn | EvConfigError, LCfg => Some LOff
  | EvParameterError, LOn | EvParameterError, LCfg => Some LOff
  | EvOffline, LOn | EvOffline, LCfg => Some LOff
  | _, _ => None
  end.

Record c14g : Set := mkC14g {
  g14_life : list (Z * lstate);
  g14_handles : list (option handle);   (* handle of configured peripheral k *)
  g14_turns : list Z;                   (* addresses that had their turn in the current cycle, newest first *)
  g14_cur : option Z;                   (* address whose turn is in progress (unanswered request) *)
  g14_due : list Z;                     (* live peripherals at the start of the cycle that must get a turn *)
  g14_sends : nat;                      (* transmissions in the turn in progress *)
  g14_dirty : bool }.                   (* a peripheral was added during this cycle: its order is not judged *)

Definition index_of_addr (hs : list (option handle)) (a : Z) : option nat :=
  (fix go (l : list (option handle)) :=
     match l with
     | [] => None
     | Some h :: r => if hd_addr h =? a then Some (hd_index h) else go r
     | None :: r => go r
     end) hs.

(* live peripherals (with complete options) after a step: they must get a visible turn in the next cycle *)
Definition due_after (c : conf) (obs : list (option pobs)) : list Z :=
  (fix go (ps : list pconf) (os : list (option pobs)) : list Z :=
     match ps, os with
     | p :: ps', Some o :: os' =>
         let rest := go ps' os' in
         if ob_live o &&
            match o_user_prm (pc_opts p), o_config (pc_opts p) with Some _, Some _ => true | _, _ => false end
         then pc_addr p :: rest else rest
     | _ :: ps', None :: os' => go ps' os'
     | _, _ => []
     end) (cf_periphs c) obs.

(* reason codes: 1401 call did not return; 1402 second turn in one cycle; 1403 turn out of slot order;
   1404 live peripheral without a turn in a completed cycle; 1405 event not accepted by the life-cycle automaton;
   1406 is_live / is_running inconsistent with the events; 1407 event for an unknown handle; 1408 more than
   1+max_retry transmissions in one turn; 1409 request to an address that is not a configured peripheral;
   1410 a callback panicked *)
Definition c14_step (c : conf) (g : c14g) (i : nat) (s : tstep) : c14g + Z :=
  let max_retry := Z.to_nat (p_max_retry (cf_params c)) in
  match ts_out s with
  | OutHang => inr 1401
  | OutPanic =>
      (* a callback that panics does not end the turn either (only judged when the configuration
         respects the frame size limits, and never for replies the FDL would not deliver) *)
      if is_callback (ts_in s) && conf_within_limits c then inr 1410 else inl g
  | _ =>
    (* handles learnt from add() *)
    let hs := match ts_in s, ts_out s with
              | InAdd k, OutHandle h => set_nth (g14_handles g) k (Some h)
              | _, _ => g14_handles g
              end in
    let dirty := match ts_in s with InAdd _ => true | _ => g14_dirty g end in
    (* 1. turns *)
    let r1 : (list Z * option Z * nat) + Z :=
      if dirty then
        match view_of s with
        | VReq da _ _ _ => inl (g14_turns g, Some da, 1%nat)
        | VReply _ _ => inl (g14_turns g, None, 0%nat)
        | _ => inl (g14_turns g, g14_cur g, g14_sends g)
        end
      else
      match view_of s with
      | VReq da _ _ _ =>
          match index_of_addr hs da with
          | None => inr 1409
          | Some ix =>
              if match g14_cur g with Some a => a =? da | None => false end then
                (* retransmission inside the turn in progress *)
                (if Nat.ltb max_retry (g14_sends g) then inr 1408
                 else inl (g14_turns g, Some da, S (g14_sends g)))
              else
                (* a new turn (a previous unanswered turn has ended silently) *)
                if existsb (Z.eqb da) (g14_turns g) then inr 1402 else
                let in_order :=
                  match g14_turns g with
                  | [] => true
                  | prev :: _ =>
                      match index_of_addr hs prev with Some px => Nat.ltb px ix | None => true end
                  end in
                if in_order then inl (da :: g14_turns g, Some da, 1%nat) else inr 1403
          end
      | VReply _ _ => inl (g14_turns g, None, 0%nat)
      | VNoTx =>
          (* a stopped master sends nothing and leaves the turn in progress as it is *)
          match ts_op s with
          | OpStop => inl (g14_turns g, g14_cur g, g14_sends g)
          | _ => inl (g14_turns g, None, 0%nat)
          end
      | _ => inl (g14_turns g, g14_cur g, g14_sends g)
      end in
    match r1 with
    | inr code => inr code
    | inl (turns, cur, sends) =>
        (* 2. events *)
        let r2 : (list (Z * lstate) * list Z) + Z :=
          match step_event s with
          | None => inl (g14_life g, turns)
          | Some (a, ev) =>
              match ts_taken s with
              | Some {| ev_peripheral := Some (h, _) |} =>
                  if negb (match index_of_addr hs a with Some ix => Nat.eqb ix (hd_index h) | None => false end)
                  then inr 1407 else
                  match l_step (alist_get LOff (g14_life g) a) ev with
                  | None => inr 1405
                  | Some l' =>
                      (* an Offline event is that peripheral's turn *)
                      let turns' := match ev with
                                    | EvOffline => if existsb (Z.eqb a) turns then turns else a :: turns
                                    | _ => turns
                                    end in
                      inl (alist_set (g14_life g) a l', turns')
                  end
              | _ => inr 1407
              end
          end in
        match r2 with
        | inr code => inr code
        | inl (life, turns2) =>
            (* 3. is_live / is_running agree with the automaton *)
            let consistent :=
              (fix go (ps : list pconf) (os : list (option pobs)) : bool :=
                 match ps, os with
                 | p :: ps', Some o :: os' =>
                     let l := alist_get LOff life (pc_addr p) in
                     Bool.eqb (ob_live o) (negb (lstate_eqb l LOff)) &&
                     (negb (ob_running o) || lstate_eqb l LCfg) && go ps' os'
                 | _ :: ps', None :: os' => go ps' os'
                 | _, _ => true
                 end) (cf_periphs c) (ts_obs s) in
            if negb consistent then inr 1406 else
            (* 4. a completed cycle gave every due peripheral its turn *)
            if step_cc s then
              if dirty || forallb (fun a => existsb (Z.eqb a) turns2) (g14_due g)
              then inl (mkC14g life hs [] None (due_after c (ts_obs s)) 0 false)
              else inr 1404
            else inl (mkC14g life hs turns2 cur (g14_due g) sends dirty)
        end
    end
  end.

Definition c14_monitor (c : conf) (hs0 : list (option handle)) (l : list tstep) : verdict :=
  run_monitor (c14_step c) (mkC14g [] hs0 [] None [] 0 false) 0 l.

(* ------------------------------------------------------------------ C07: recovery in the fault-free tail *)

(* number of completed DP cycles within which a healthy peripheral must be back in data exchange *)
Definition c07_bound (max_retry : Z) : nat := Z.to_nat max_retry + 16.

(* scripted slave attributes at the end of the fault phase: (silent, force flags zero, ident) *)
Record c07slave : Set := mkC07s { s7_silent : bool; s7_clean : bool; s7_ident : Z }.

Definition c07_slaves0 (c : conf) : list c07slave :=
  map (fun s => mkC07s (sl_silent s) ((sl_force1 s =? 0) && (sl_force2 s =? 0)) (sl_ident s)) (cf_slaves c).

Definition c07_slave_step (l : list c07slave) (i : tr_in) : list c07slave :=
  match i with
  | InSlaveSet k silent _ _ _ f1 f2 _ ident => set_nth l k (mkC07s silent ((f1 =? 0) && (f2 =? 0)) ident)
  | _ => l
  end.

(* peripheral k and its device fit together and the device behaves *)
Definition healthy (c : conf) (sl : list c07slave) (k : nat) : bool :=
  match nth_error (cf_periphs c) k, nth_error (cf_slaves c) k, nth_error sl k with
  | Some p, Some s0, Some s =>
      negb (s7_silent s) && s7_clean s && (s7_ident s =? o_ident (pc_opts p)) && (sl_addr s0 =? pc_addr p) &&
      Nat.eqb (sl_in_len s0) (pc_in p) && Nat.eqb (sl_out_len s0) (pc_out p) &&
      match o_config (pc_opts p), o_user_prm (pc_opts p) with
      | Some cfg, Some _ => bytes_eqb cfg (sl_exp_cfg s0)
      | _, _ => false
      end
  | _, _, _ => false
  end.

Definition silent_dev (sl : list c07slave) (k : nat) : bool :=
  match nth_error sl k with Some s => s7_silent s | None => true end.

Record c07g : Set := mkC07g {
  g7_slaves : list c07slave;
  g7_clean : bool;                      (* the fault-free tail has begun *)
  g7_cycles : nat }.                    (* completed cycles since then *)

(* reason codes: 701 healthy peripheral not in data exchange after the bound; 702 silent peripheral still
   live after the bound *)
Definition c07_step (c : conf) (g : c07g) (i : nat) (s : tstep) : c07g + Z :=
  let sl := c07_slave_step (g7_slaves g) (ts_in s) in
  match ts_in s with
  | InClean => inl (mkC07g sl true 0)
  | _ =>
      if negb (g7_clean g) then inl (mkC07g sl false 0) else
      let cycles := if step_cc s then S (g7_cycles g) else g7_cycles g in
      if Nat.ltb (c07_bound (p_max_retry (cf_params c))) cycles then
        let bad :=
          (fix go (k : nat) (os : list (option pobs)) : option Z :=
             match os with
             | [] => None
             | Some o :: os' =>
                 if healthy c sl k && negb (ob_running o) then Some 701
                 else if silent_dev sl k && ob_live o then Some 702
                 else go (S k) os'
             | None :: os' => go (S k) os'
             end) 0%nat (ts_obs s) in
        match bad with
        | Some code => inr code
        | None => inl (mkC07g sl true cycles)
        end
      else inl (mkC07g sl true cycles)
  end.

Definition c07_monitor (c : conf) (l : list tstep) : verdict :=
  match ts_op (last l (mkStep InClean false OutUnit None [] OpStop)) with
  | OpStop => None                      (* a stopped master exchanges nothing *)
  | _ => run_monitor (c07_step c) (mkC07g (c07_slaves0 c) false 0) 0 l
  end.

(* statistics: completed cycles after CLEAN until every healthy peripheral is (and stays) running *)
Definition c07_cycles_needed (c : conf) (l : list tstep) : option nat :=
  let '(_, _, _, worst, seen) :=
    fold_left (fun (acc : list c07slave * bool * nat * nat * bool) (s : tstep) =>
      let '(sl, clean, cycles, worst, seen) := acc in
      let sl' := c07_slave_step sl (ts_in s) in
      match ts_in s with
      | InClean => (sl', true, 0%nat, 0%nat, true)
      | _ =>
          if negb clean then (sl', false, 0%nat, 0%nat, seen) else
          let cycles' := if step_cc s then S cycles else cycles in
          let all_ok :=
            (fix go (k : nat) (os : list (option pobs)) : bool :=
               match os with
               | [] => true
               | Some o :: os' => (negb (healthy c sl' k) || ob_running o) && go (S k) os'
               | None :: os' => go (S k) os'
               end) 0%nat (ts_obs s) in
          (sl', true, cycles', (if all_ok then worst else S cycles'), seen)
      end) l (c07_slaves0 c, false, 0%nat, 0%nat, false) in
  if seen then Some worst else None.

(* ------------------------------------------------------------------ known finding F15 (C07)
   The master sits in ValidateConfig as long as the peripheral reports "station not ready" without asking for
   parameters.  If the master took a short confirmation the slave never sent (a single byte without
   checksum) for the acknowledgement of Chk_Cfg, the slave is still in Wait_Cfg and says exactly that,
   forever.  KnownClass on a transcript: some healthy peripheral that is not running at the end last
   answered a diagnostics request with Station_Not_Ready set, Prm_Req clear and no fault bit. *)
Definition f15_diag_signature (pdu : bytes) : bool :=
  let f := diag_flags pdu in
  has_flag f 2 && negb (has_flag f 256) && negb (has_flag f 4) && negb (has_flag f 64).

(* last accepted diagnostics reply per address: true = carries the signature *)
Definition f15_last_diag (l : list tstep) : list (Z * bool) :=
  snd (fold_left (fun (acc : option (Z * service) * list (Z * bool)) (s : tstep) =>
         let (pending, m) := acc in
         match view_of s with
         | VReq da sv _ _ => (Some (da, sv), m)
         | VReply a t =>
             match pending, t with
             | Some (da, SvDiag), TData _ pdu =>
                 if reply_accepted SvDiag t then (None, alist_set m da (f15_diag_signature pdu)) else (None, m)
             | _, _ => (None, m)
             end
         | VTimeout _ | VAbandon => (None, m)
         | _ => acc
         end) l (None, [])).

Definition c07_known_f15 (c : conf) (l : list tstep) : bool :=
  let sl := fold_left (fun sl s => c07_slave_step sl (ts_in s)) l (c07_slaves0 c) in
  let final_obs := ts_obs (last l (mkStep InClean false OutUnit None [] OpStop)) in
  let lastd := f15_last_diag l in
  (fix go (k : nat) (ps : list pconf) (os : list (option pobs)) : bool :=
     match ps, os with
     | p :: ps', Some o :: os' =>
         (healthy c sl k && negb (ob_running o) && alist_get false lastd (pc_addr p)) || go (S k) ps' os'
     | _ :: ps', None :: os' => go (S k) ps' os'
     | _, _ => false
     end) 0%nat (cf_periphs c) final_obs.

(* ====================================================================================================
   reset_address (added after phase 1; nothing above this line was changed).
   `get_mut(h).reset_address(a)` is a user call that asks for a new bring-up of that peripheral, possibly
   at another address: the code puts the peripheral back to its initial state (not live, retry counter 0,
   frame count bit First) without raising an event.  The monitors below wrap the monitors above: they keep
   the CURRENT address of every configured peripheral (a conf whose pc_addr fields are updated) and at a
   reset_address step put their per-address state back to its initial value:
     C03  phase NeedDiag                    (it was "asked to be re-parameterised")
     C08  not live, next request FCV=0/FCB=1, no request counted; an outstanding reply no longer counts
     C14  life-cycle state Off without an event (Online comes first again); the handle carries the new address
     C04  an outstanding reply must not update the image any more
   For transcripts without reset_address steps they are the monitors above.
   ==================================================================================================== *)

Definition pconf_set_addr (p : pconf) (a : Z) : pconf :=
  mkPconf (pc_slot p) (pc_late p) a (pc_opts p) (pc_in p) (pc_out p) (pc_diag p).

Definition conf_set_addr (c : conf) (k : nat) (a : Z) : conf :=
  mkConf (cf_params c) (cf_bufsize c) (cf_nslots c) (cf_owned c) (cf_autotake c)
         (match nth_error (cf_periphs c) k with
          | Some p => set_nth (cf_periphs c) k (pconf_set_addr p a)
          | None => cf_periphs c
          end)
         (cf_slaves c).

Definition conf_addr (c : conf) (k : nat) : option Z :=
  match nth_error (cf_periphs c) k with Some p => Some (pc_addr p) | None => None end.

(* the reset_address call of this step, if it was carried out: (k, old address, new address) *)
Definition reset_of (c : conf) (s : tstep) : option (nat * Z * Z) :=
  match ts_in s, ts_out s with
  | InResetAddr k a, OutUnit =>
      match conf_addr c k with Some old => Some (k, old, a) | None => None end
  | _, _ => None
  end.

(* the configuration after the reset_address calls of a transcript *)
Definition conf_after (c : conf) (l : list tstep) : conf :=
  fold_left (fun c s => match reset_of c s with Some (k, _, a) => conf_set_addr c k a | None => c end) l c.

(* every intermediate configuration can be interpreted per address *)
Fixpoint ra_sane (c : conf) (l : list tstep) : bool :=
  match l with
  | [] => conf_sane c
  | s :: r =>
      conf_sane c &&
      ra_sane (match reset_of c s with Some (k, _, a) => conf_set_addr c k a | None => c end) r
  end.

(* does the transcript contain a reset_address step at all *)
Definition has_reset (l : list tstep) : bool :=
  existsb (fun s => match ts_in s with InResetAddr _ _ => true | _ => false end) l.

(* --- C03 *)
Definition c03_step_ra (st : conf * c03g) (i : nat) (s : tstep) : (conf * c03g) + Z :=
  let (c, g) := st in
  match reset_of c s with
  | Some (k, old, a) =>
      inl (conf_set_addr c k a,
           mkC03g (alist_set (alist_set (g3_per g) old PhNeedDiag) a PhNeedDiag) (g3_pending g))
  | None =>
      match c03_step c g i s with
      | inl g' => inl (c, g')
      | inr code => inr code
      end
  end.
Definition c03_monitor_ra (c : conf) (l : list tstep) : verdict :=
  run_monitor c03_step_ra (c, mkC03g [] None) 0 l.

(* --- C08 *)
Definition c08_step_ra (max_retry : nat) (st : conf * c08g) (i : nat) (s : tstep) : (conf * c08g) + Z :=
  let (c, g) := st in
  match reset_of c s with
  | Some (k, old, a) =>
      let pending' := match g8_pending g with
                      | Some (da, sv) => if da =? old then None else Some (da, sv)
                      | None => None
                      end in
      inl (conf_set_addr c k a,
           mkC08g (alist_set (alist_set (g8_per g) old c08_init) a c08_init) pending')
  | None =>
      match c08_step max_retry g i s with
      | inl g' => inl (c, g')
      | inr code => inr code
      end
  end.
Definition c08_monitor_ra (c : conf) (l : list tstep) : verdict :=
  run_monitor (c08_step_ra (Z.to_nat (p_max_retry (cf_params c)))) (c, mkC08g [] None) 0 l.

(* --- C04 *)
Definition c04_step_ra (st : conf * c04g) (i : nat) (s : tstep) : (conf * c04g) + Z :=
  let (c, g) := st in
  match reset_of c s with
  | Some (k, old, a) =>
      (* the images themselves must survive the call: judged by the wrapped step with no reply pending *)
      let pending' := match g4_pending g with
                      | Some (da, sv) => if da =? old then None else Some (da, sv)
                      | None => None
                      end in
      match c04_step c (mkC04g (g4_obs g) (g4_op g) pending') i s with
      | inl g' => inl (conf_set_addr c k a, g')
      | inr code => inr code
      end
  | None =>
      match c04_step c g i s with
      | inl g' => inl (c, g')
      | inr code => inr code
      end
  end.
Definition c04_monitor_ra (c : conf) (obs0 : list (option pobs)) (l : list tstep) : verdict :=
  run_monitor c04_step_ra (c, mkC04g obs0 OpStop None) 0 l.

(* --- C14 *)
Definition handles_set_addr (hs : list (option handle)) (k : nat) (a : Z) : list (option handle) :=
  match nth_error hs k with
  | Some (Some h) => set_nth hs k (Some (mkHandle (hd_index h) a))
  | _ => hs
  end.

Definition c14_step_ra (st : conf * c14g) (i : nat) (s : tstep) : (conf * c14g) + Z :=
  let (c, g) := st in
  match reset_of c s with
  | Some (k, old, a) =>
      let c' := conf_set_addr c k a in
      (* is_live / is_running must agree with the automaton right after the call, too *)
      let life := alist_set (alist_set (g14_life g) old LOff) a LOff in
      (* a turn of this peripheral that is in progress (or over) in this cycle stays its turn, under the
         new address; the retry counter starts again *)
      let ren := fun x => if x =? old then a else x in
      let in_turn := match g14_cur g with Some x => x =? old | None => false end in
      let g1 := mkC14g life (handles_set_addr (g14_handles g) k a)
                       (map ren (g14_turns g))
                       (match g14_cur g with Some x => Some (ren x) | None => None end)
                       (filter (fun x => negb (x =? old)) (g14_due g))
                       (if in_turn then 0%nat else g14_sends g) (g14_dirty g) in
      match c14_step c' g1 i s with
      | inl g' => inl (c', g')
      | inr code => inr code
      end
  | None =>
      match c14_step c g i s with
      | inl g' => inl (c, g')
      | inr code => inr code
      end
  end.
Definition c14_monitor_ra (c : conf) (hs0 : list (option handle)) (l : list tstep) : verdict :=
  run_monitor c14_step_ra (c, mkC14g [] hs0 [] None [] 0 false) 0 l.

(* --- C07: the fault-free tail is judged against the addresses in force *)
Definition c07_step_ra (st : conf * c07g) (i : nat) (s : tstep) : (conf * c07g) + Z :=
  let (c, g) := st in
  let c' := match reset_of c s with Some (k, _, a) => conf_set_addr c k a | None => c end in
  match c07_step c' g i s with
  | inl g' => inl (c', g')
  | inr code => inr code
  end.
Definition c07_monitor_ra (c : conf) (l : list tstep) : verdict :=
  match ts_op (last l (mkStep InClean false OutUnit None [] OpStop)) with
  | OpStop => None
  | _ => run_monitor c07_step_ra (c, mkC07g (c07_slaves0 c) false 0) 0 l
  end.

(* ------------------------------------------------------------------ known finding F22
   reset_address while a request to that peripheral is still outstanding: the code neither remembers that the
   reply belongs to the previous incarnation nor tolerates it.  With an unchanged address the late reply is
   handed to the freshly reset peripheral (a diagnostics reply makes it Online although its first request was
   never sent, and its next request then carries FCV=1 instead of FCV=0/FCB=1); with a changed address
   DpMaster::receive_reply runs into unreachable!().  KnownClass on a transcript: some reset_address step
   happens while a request to the peripheral's current address awaits its reply / time-out. *)
Definition known_reset_while_pending (c : conf) (l : list tstep) : bool :=
  snd (fold_left (fun (acc : (conf * option Z) * bool) (s : tstep) =>
         let '(c, pending, hit) := acc in
         match reset_of c s with
         | Some (k, old, a) =>
             (conf_set_addr c k a, pending,
              hit || match pending with Some da => da =? old | None => false end)
         | None =>
             match view_of s with
             | VReq da _ _ _ => (c, Some da, hit)
             | VReply _ _ | VTimeout _ | VAbandon => (c, None, hit)
             | _ => (c, pending, hit)
             end
         end) l (c, None, false)).

(* ====================================================================================================
   Round-4 additions (nothing above this line was changed; these monitors are not covered by
   Proofs/DpOracleSound.v).
   ==================================================================================================== *)

(* ------------------------------------------------------------------ C07 with slow slaves
   A healthy slave may report "station not ready" (without Prm_Req) for `ready_delay` diagnostics polls after
   Chk_Cfg; the master has to keep polling it (ValidateConfig) and must not declare it Offline, since it
   answers every request.  c07_monitor_slow is c07_monitor_ra with the recovery bound extended by twice the
   largest scripted ready delay (each bring-up needs `delay` more cycles, and the recovery may contain two
   bring-ups).  With delays <= 2 the theorem C07_recovery applies; longer delays are monitored only. *)
Definition max_ready_delay (l : list tstep) : nat :=
  fold_left (fun d s => match ts_in s with
                        | InSlaveSet _ _ rd _ _ _ _ _ _ => Nat.max d rd
                        | _ => d
                        end) l 0%nat.

Definition c07_step_slow (extra : nat) (st : conf * c07g) (i : nat) (s : tstep) : (conf * c07g) + Z :=
  let (c0, g) := st in
  let c := match reset_of c0 s with Some (k, _, a) => conf_set_addr c0 k a | None => c0 end in
  let sl := c07_slave_step (g7_slaves g) (ts_in s) in
  match ts_in s with
  | InClean => inl (c, mkC07g sl true 0)
  | _ =>
      if negb (g7_clean g) then inl (c, mkC07g sl false 0) else
      let cycles := if step_cc s then S (g7_cycles g) else g7_cycles g in
      if Nat.ltb (c07_bound (p_max_retry (cf_params c)) + extra) cycles then
        let bad :=
          (fix go (k : nat) (os : list (option pobs)) : option Z :=
             match os with
             | [] => None
             | Some o :: os' =>
                 if healthy c sl k && negb (ob_running o) then Some 701
                 else if silent_dev sl k && ob_live o then Some 702
                 else go (S k) os'
             | None :: os' => go (S k) os'
             end) 0%nat (ts_obs s) in
        match bad with
        | Some code => inr code
        | None => inl (c, mkC07g sl true cycles)
        end
      else inl (c, mkC07g sl true cycles)
  end.

Definition c07_monitor_slow (c : conf) (l : list tstep) : verdict :=
  match ts_op (last l (mkStep InClean false OutUnit None [] OpStop)) with
  | OpStop => None
  | _ => run_monitor (c07_step_slow (2 * max_ready_delay l)) (c, mkC07g (c07_slaves0 c) false 0) 0 l
  end.

(* C07, reporting half: in the fault-free tail a healthy peripheral (it answers every request) is never
   reported Offline.  Reason code 703. *)
Definition c07_step_no_offline (st : conf * (list c07slave * bool)) (i : nat) (s : tstep)
  : (conf * (list c07slave * bool)) + Z :=
  let '(c0, (sl0, clean)) := st in
  let c := match reset_of c0 s with Some (k, _, a) => conf_set_addr c0 k a | None => c0 end in
  let sl := c07_slave_step sl0 (ts_in s) in
  match ts_in s with
  | InClean => inl (c, (sl, true))
  | _ =>
      if clean then
        match step_event s with
        | Some (a, EvOffline) =>
            match pconf_of_addr c a with
            | Some (k, _) => if healthy c sl k then inr 703 else inl (c, (sl, clean))
            | None => inl (c, (sl, clean))
            end
        | _ => inl (c, (sl, clean))
        end
      else inl (c, (sl, clean))
  end.

(* an Offline event right at the start of the tail can still be the consequence of the fault phase (the
   retries ran out before): only Offline events after the first Online of the tail... are judged simply by
   skipping the first `grace` completed cycles *)
Definition c07_no_offline_monitor (c : conf) (l : list tstep) : verdict :=
  (* position of the step after which (max_retry + 4) cycles of the tail have been completed *)
  let grace := (Z.to_nat (p_max_retry (cf_params c)) + 4)%nat in
  let '(_, _, _, _, v) :=
    fold_left (fun (acc : (conf * (list c07slave * bool)) * nat * nat * bool * verdict) (s : tstep) =>
      let '(st, cycles, i, dead, v) := acc in
      if dead then acc else
      match c07_step_no_offline st i s with
      | inl st' =>
          let clean := snd (snd st') in
          let cycles' := match ts_in s with
                         | InClean => 0%nat
                         | _ => if clean && step_cc s then S cycles else cycles
                         end in
          (st', cycles', S i, false, v)
      | inr code =>
          if Nat.ltb grace cycles then (st, cycles, S i, true, Some (i, code))
          else (st, (if step_cc s then S cycles else cycles), S i, false, v)
      end) l ((c, (c07_slaves0 c, false)), 0%nat, 0%nat, false, None) in
  v.

(* ------------------------------------------------------------------ C14: a turn is never declined silently
   The code's rule (master.rs transmit_telegram): HighPrioOnly only decides whether a due Global_Control is
   sent (No) or skipped (Yes); in both cases a master that is not stopped carries on with its peripherals.  It
   returns None only (a) in Stop, (b) when the loop completed the cycle (cycle_completed reported), (c) after
   a peripheral event raised in this call (Offline), (d) as the call that closes a cycle which the preceding
   receive_reply completed (that reply reported cycle_completed; this call reports nothing).  So: a transmit
   call on a master that is not stopped which returns None and reports neither cycle_completed nor a
   peripheral event must directly follow (in callback order) a reply that reported cycle_completed.
   Reason code 1411 (turn_skipped_on_high_prio: the seeded variant declines the turn while a Global_Control
   is due and only high priority is allowed). *)
Definition c14_silent_step (closing : bool) (i : nat) (s : tstep) : bool + Z :=
  match view_of s with
  | VNoTx =>
      match ts_op s, ts_taken s with
      | OpStop, _ => inl closing
      | _, Some e =>
          if ev_cycle_completed e || match ev_peripheral e with Some _ => true | None => false end
          then inl false
          else if closing then inl false else inr 1411
      | _, None => inl false
      end
  | VReply _ _ => inl (step_cc s)
  | VReq _ _ _ _ | VSdn _ _ => inl closing
  | _ => inl closing
  end.

Definition c14_silent_none_monitor (l : list tstep) : verdict := run_monitor c14_silent_step false 0 l.
