(* The COMPOSED N-station model: N copies of the single-station FDL model (Model/Fdl.v: `poll`,
   `set_online`, `set_offline`, `fdl_new`) on one shared MEDIUM, driven by a SCHEDULE.

   * A station of the system is what harness/src/fdl.rs / ocaml/run_fdl.ml keep for one station: its
     parameters, its `fdl` state, its applications (`app_ops A`, any number, any state type - an
     application that answers from an oracle is one whose state is the list of answers still to give) and
     its PHY receive buffer (bytes are only appended between polls; a poll sees the whole buffer and drops
     what it consumed: `rx_left`).
   * The MEDIUM is a section variable: an ARBITRARY function that, from the history of all polls made so
     far (who, when, what was handed to the PHY for transmission - None when nothing), a station index
     and the time of the poll that station is about to make, yields the bytes that have newly arrived in
     that station's receive buffer since its previous poll and whether its transmitter is busy
     (`poll_transmission(now)`).  Nothing is assumed about it in this file: it may lose, corrupt, delay,
     duplicate or invent bytes, and report "busy" at will.
   * A SCHEDULE is a list of (station index, action); an action is set_online, set_offline or a poll at a
     given time.  Nothing is assumed about the times here (Proofs/MultiProofs.v states what the theorems need).
   * `multi_step` performs one action: a poll asks the medium for the station's input, runs `Fdl.poll`,
     stores the station, appends (who, now, transmission) to the history.  Every call is written to the
     station's LOG (`srec`: inputs, state before and after, outputs); a call that panics ends the run
     (`multi_run` returns the system reached and `Panic site`, the station's log ends with the panic
     record).  `transcript` turns a station's log into the event list of Model/FdlOracle.v, exactly as
     ocaml/run_fdl.ml does for one real station, so that the per-station monitors (`FdlOracle.monitor`) apply.
   * `ideal_medium rate`: one CONCRETE medium with the byte timing described at the top of harness/src/bus.rs.

   No proofs in this file (the two `Example`s at the end are closed computations, proved by vm_compute). *)
From PB Require Export Fdl FdlOracle.

(* ------------------------------------------------------------------------------------------ *)
(* schedule, history, medium                                                                   *)

Inductive action : Set := ActOnline | ActOffline | ActPoll (now : Z).
Definition sitem : Set := (nat * action)%type.
Definition schedule : Set := list sitem.

(* one poll as the medium sees it *)
Record hrec : Set := mkH { h_who : nat; h_now : Z; h_tx : option bytes }.
Definition history : Set := list hrec.          (* oldest first *)

(* history -> station -> time of its poll -> (bytes newly received, transmitter busy) *)
Definition medium : Set := history -> nat -> Z -> bytes * bool.

(* ------------------------------------------------------------------------------------------ *)
(* the view of a station state and the poll event (ocaml/run_fdl.ml: obs_of / view_of_obs; the same
   functions as Proofs/FdlOracleSound1.v: view_of, conv_call, poll_event)                       *)

Definition mview_of (f : fdl) : view :=
  mkView (f_conn f) (is_in_ring f) (kind_of (f_state f)) (r_ns (f_ring f)) (r_ps (f_ring f))
         (match r_state (f_ring f) with LasValid => true | _ => false end)
         (las_ones (r_las (f_ring f)))
         (match f_gap f with GapDoPoll _ => true | GapWaiting _ => false end)
         (match f_state f with ClaimToken (StepScanAwaitResponse _) => true | _ => false end).

Definition mconv_call (txo : option bytes) (c : call) : call :=
  match c with
  | CallTransmit i hp (Some (_, er)) => CallTransmit i hp (Some (match txo with Some b => b | None => [] end, er))
  | _ => c
  end.

Definition mpoll_event (now : Z) (busy : bool) (rxb : bytes) (f' : fdl) (o : phy_out) (calls : list call) : pstep :=
  mkPStep now busy rxb (tx o) (length rxb - length (rx_left o)) (map (mconv_call (tx o)) calls) (mview_of f').

(* ------------------------------------------------------------------------------------------ *)
(* station log                                                                                  *)

Inductive srec : Set :=
| SApi (a : api_call) (f f' : fdl)                     (* set_online / set_offline returned *)
| SPoll (now : Z) (busy : bool) (nb rxb : bytes)       (* input: new bytes, whole buffer = old buffer ++ nb *)
        (f f' : fdl) (o : phy_out) (calls : list call) (* state before / after, PHY output, callbacks *)
| SPanicApi (a : api_call) (f : fdl)                   (* the call panicked *)
| SPanicPoll (now : Z) (busy : bool) (nb : bytes).     (* the poll panicked (or a loop bound was exhausted) *)

Definition events_of_rec (r : srec) : list event :=
  match r with
  | SApi a _ f' => [EApi a (mview_of f')]
  | SPoll now busy _ rxb _ f' o calls => [EPoll (mpoll_event now busy rxb f' o calls)]
  | SPanicApi a f => [EApi a (mview_of f); EPanic]
  | SPanicPoll _ _ _ => [EPanic]
  end.

Section Multi.
Variable A : Type.
Variable ops : app_ops A.
Variable M : medium.

Record station : Type := mkStation {
  st_p : params;
  st_f0 : fdl;              (* the state FdlActiveStation::new gave *)
  st_apps0 : list A;        (* the applications at the start *)
  st_f : fdl;
  st_apps : list A;
  st_buf : bytes;           (* PHY receive buffer between polls *)
  st_log : list srec        (* every call made on this station, oldest first *)
}.

Record sys : Type := mkSys { sys_st : list station; sys_hist : history }.

(* the transcript the driver of the single-station check would build for this station *)
Definition transcript (st : station) : list event :=
  EApi ApiNew (mview_of (st_f0 st)) :: flat_map events_of_rec (st_log st).
Definition transcripts (s : sys) : list (list event) := map transcript (sys_st s).

(* N stations, created with FdlActiveStation::new; Panic when a parameter set is refused *)
Fixpoint multi_init_stations (cfg : list (params * list A)) : res (list station) :=
  match cfg with
  | [] => Ok []
  | (p, apps) :: tl =>
      let* f0 := fdl_new p in
      let* r := multi_init_stations tl in
      Ok (mkStation p f0 apps f0 apps [] [] :: r)
  end.
Definition multi_init (cfg : list (params * list A)) : res sys :=
  let* l := multi_init_stations cfg in Ok (mkSys l []).

Definition log (st : station) (r : srec) : station :=
  mkStation (st_p st) (st_f0 st) (st_apps0 st) (st_f st) (st_apps st) (st_buf st) (st_log st ++ [r]).

(* one action on one station: new station, what the medium gets to see, result of the call *)
Definition station_step (h : history) (i : nat) (st : station) (a : action) : station * option hrec * res unit :=
  match a with
  | ActOnline =>
      match set_online (st_f st) with
      | Ok f' => (mkStation (st_p st) (st_f0 st) (st_apps0 st) f' (st_apps st) (st_buf st)
                            (st_log st ++ [SApi ApiOnline (st_f st) f']), None, Ok tt)
      | Panic e => (log st (SPanicApi ApiOnline (st_f st)), None, Panic e)
      | OutOfFuel => (log st (SPanicApi ApiOnline (st_f st)), None, OutOfFuel)
      end
  | ActOffline =>
      match set_offline (st_f st) with
      | Ok f' => (mkStation (st_p st) (st_f0 st) (st_apps0 st) f' (st_apps st) (st_buf st)
                            (st_log st ++ [SApi ApiOffline (st_f st) f']), None, Ok tt)
      | Panic e => (log st (SPanicApi ApiOffline (st_f st)), None, Panic e)
      | OutOfFuel => (log st (SPanicApi ApiOffline (st_f st)), None, OutOfFuel)
      end
  | ActPoll now =>
      let (nb, busy) := M h i now in
      let rxb := st_buf st ++ nb in
      match poll ops (st_f st) now (mkPhyIn busy rxb) (st_apps st) with
      | Ok (f', o, apps', calls) =>
          (mkStation (st_p st) (st_f0 st) (st_apps0 st) f' apps' (rx_left o)
                     (st_log st ++ [SPoll now busy nb rxb (st_f st) f' o calls]),
           Some (mkH i now (tx o)), Ok tt)
      | Panic e => (log st (SPanicPoll now busy nb), None, Panic e)
      | OutOfFuel => (log st (SPanicPoll now busy nb), None, OutOfFuel)
      end
  end.

(* a schedule item for a station index that does not exist is skipped *)
Definition multi_step (s : sys) (it : sitem) : sys * res unit :=
  let (i, a) := it in
  match nth_error (sys_st s) i with
  | None => (s, Ok tt)
  | Some st =>
      let '(st', hr, r) := station_step (sys_hist s) i st a in
      (mkSys (replace_nth (sys_st s) i st')
             (match hr with Some x => sys_hist s ++ [x] | None => sys_hist s end), r)
  end.

(* the run stops at the first call that panics *)
Fixpoint multi_run (s : sys) (sc : schedule) : sys * res unit :=
  match sc with
  | [] => (s, Ok tt)
  | it :: tl =>
      let (s', r) := multi_step s it in
      match r with
      | Ok _ => multi_run s' tl
      | _ => (s', r)
      end
  end.

End Multi.

Arguments st_p {A}. Arguments st_f0 {A}. Arguments st_apps0 {A}. Arguments st_f {A}. Arguments st_apps {A}.
Arguments st_buf {A}. Arguments st_log {A}. Arguments sys_st {A}. Arguments sys_hist {A}.
Arguments transcript {A}. Arguments transcripts {A}.

(* ------------------------------------------------------------------------------------------ *)
(* A concrete medium: the byte timing of harness/src/bus.rs (that of SimulatorBus).  A transmission
   (sender, start, bytes) makes byte k (0-based) available to every OTHER station at the first instant t
   with (t - start) * rate >= 11 (k+1) * 10^6, i.e. floor((t - start) * rate / (11 * 10^6)) bytes at time
   t; the sender is busy until its last byte is complete and never hears itself.  Times in microseconds,
   rate in bit/s.  No faults, no collision handling: where transmissions overlap in time their bytes are
   delivered per transmission in history order (the harness bus interleaves them by completion time,
   optionally garbled, and makes a transmitting station deaf) - the two agree on collision-free histories.
   The wire carries octets (`& 0xff`; the identity on everything a `&[u8]` can hold).  Meaningful for
   schedules whose poll times do not decrease along the schedule. *)

Definition bytes_by (rate start : Z) (len : nat) (t : Z) : nat :=
  if t <? start then 0%nat else Nat.min len (Z.to_nat ((t - start) * rate / 11000000)).

(* completion of the last of n bytes *)
Definition tx_end (rate start : Z) (n : nat) : Z :=
  start + (11000000 * Z.of_nat n + rate - 1) / rate.

Definition last_poll (h : history) (i : nat) : option Z :=
  fold_left (fun acc x => if Nat.eqb (h_who x) i then Some (h_now x) else acc) h None.

Definition ideal_medium (rate : Z) : medium := fun h i now =>
  let prev := last_poll h i in
  let fresh (x : hrec) : bytes :=
    match h_tx x with
    | Some w =>
        if Nat.eqb (h_who x) i then [] else
        let n0 := match prev with Some t0 => bytes_by rate (h_now x) (length w) t0 | None => 0%nat end in
        skipn n0 (firstn (bytes_by rate (h_now x) (length w) now) w)
    | None => []
    end in
  (map (fun b => b mod 256) (flat_map fresh h),
   existsb (fun x => match h_tx x with
                     | Some w => Nat.eqb (h_who x) i && (now <? tx_end rate (h_now x) (length w))
                     | None => false
                     end) h).

(* ------------------------------------------------------------------------------------------ *)
(* non-vacuity: two stations (addresses 1 and 2, 500 kbit/s, Tslot 200 bit, HSA 4, no applications) on
   the ideal medium, both set online, polled alternately every 40 us.  Station 1 claims the token
   after its silence time-out, finds station 2 with a GAP request, and the token goes 1 -> 2 -> 1. *)

Definition ex2_params (a : Z) : params := mkParams a B500000 200 20000 1 4 1 11 None.
Definition ex2_cfg : list (params * list unit) := [(ex2_params 1, []); (ex2_params 2, [])].

Fixpoint alternate (n : nat) (t step : Z) (i : nat) : schedule :=
  match n with
  | O => []
  | S n' => (i, ActPoll t) :: alternate n' (t + step) step (Nat.modulo (i + 1) 2)
  end.
Definition ex2_schedule (n : nat) : schedule := [(0%nat, ActOnline); (1%nat, ActOnline)] ++ alternate n 40 40 0.

(* the transmissions of a run that are token telegrams, as (sender index, DA, SA) *)
Definition token_passes (h : history) : list (nat * Z * Z) :=
  flat_map (fun x => match h_tx x with
                     | Some w => match decode_one w with Some (TToken da sa) => [(h_who x, da, sa)] | _ => [] end
                     | None => []
                     end) h.

Definition ex2_run (n : nat) : sys unit * res unit :=
  match multi_init unit ex2_cfg with
  | Ok s0 => multi_run unit unit_app_ops (ideal_medium 500000) s0 (ex2_schedule n)
  | _ => (mkSys unit [] [], OutOfFuel)
  end.

(* 300 polls: no panic; the token telegrams on the bus begin with the two claim telegrams of station 1 and
   its passes to itself while it is alone in its ring, then 1 -> 2, 2 -> 1, 1 -> 2, 2 -> 1: the stations
   exchange the token; 22 token telegrams in all. *)
Example ex2_token_exchange :
  let (s, r) := ex2_run 300 in
  r = Ok tt /\
  firstn 9 (token_passes (sys_hist s)) =
    [(0%nat, 1, 1); (0%nat, 1, 1); (0%nat, 1, 1); (0%nat, 1, 1); (0%nat, 1, 1);
     (0%nat, 2, 1); (1%nat, 1, 2); (0%nat, 2, 1); (1%nat, 1, 2)] /\
  length (token_passes (sys_hist s)) = 22%nat.
Proof. vm_compute. repeat split; reflexivity. Qed.

(* ... and the executable per-station monitors of Model/FdlOracle.v report nothing on either station's
   transcript of that run (Proofs/MultiProofs.v proves this for every run of every composed system). *)
Example ex2_monitors_silent :
  let (s, _) := ex2_run 300 in
  map (fun st => monitor (st_p st) (length (st_apps0 st)) (transcript st)) (sys_st s) = [[]; []] /\
  map (fun st => length (transcript st)) (sys_st s) = [152%nat; 152%nat].
Proof. vm_compute. split; reflexivity. Qed.
