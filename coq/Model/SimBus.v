(* Model of src/phy/simulator.rs: SimulatorBus (one shared byte stream, telegrams captured with
   their transmission start time, byte availability derived from the bus time and the baudrate)
   and SimulatorPhy (a per-PHY read cursor into the stream).  As far as the receive path (C16)
   needs it: current_cursor, pending_bytes, is_active, enqueue_telegram (with its collision and
   minimum-delay panics), set_bus_time, transmit_data, receive_data.  No proofs here.

   Time: Instant = Z microseconds (i64), Duration = Z microseconds (u64).
   `Instant - Instant` is the ABSOLUTE difference (src/time.rs). *)
From PB Require Export Common Telegram Params Phy.

Record captured : Set := mkCap {
  c_sender : Z;          (* &'static str name of the PHY, compared by content; here a number *)
  c_ts : Z;              (* timestamp: bus time when the transmission started *)
  c_index : nat;         (* start offset in the stream *)
  c_len : nat }.

(* sb_telegrams is kept NEWEST FIRST (the code only ever looks at `telegrams.last()`). *)
Record simbus : Set := mkBus {
  sb_baud : baudrate;
  sb_telegrams : list captured;
  sb_stream : bytes;
  sb_time : Z;
  sb_token_master : option Z }.

Definition bus_new (b : baudrate) : simbus := mkBus b [] [] 0 None.

Definition i64_ok (x : Z) : bool := (-9223372036854775808 <=? x) && (x <=? 9223372036854775807).
Definition u64_ok (x : Z) : bool := (0 <=? x) && (x <=? 18446744073709551615).

(* Instant - Instant: (a - b).unsigned_abs(), the subtraction is a checked i64 operation *)
Definition instant_diff (a b : Z) : res Z :=
  if i64_ok (a - b) then Ok (Z.abs (a - b)) else Panic SiteArith.

(* Baudrate::time_to_bits: micros * rate / 1000000 in u64 *)
Definition time_to_bits_chk (b : baudrate) (micros : Z) : res Z :=
  if u64_ok (micros * baud_to_rate b) then Ok (time_to_bits b micros) else Panic SiteArith.

(* number of bytes of telegram c that are on the wire at the current bus time:
   usize::try_from(baudrate.time_to_bits(bus_time - timestamp) / 11).unwrap() *)
Definition tx_bytes (bus : simbus) (c : captured) : res Z :=
  let* d := instant_diff (sb_time bus) (c_ts c) in
  let* bits := time_to_bits_chk (sb_baud bus) d in
  Ok (bits / 11).

(* SimulatorBus::current_cursor *)
Definition current_cursor (bus : simbus) : res nat :=
  match sb_telegrams bus with
  | [] => Ok 0%nat
  | c :: _ =>
      let* n := tx_bytes bus c in
      if Nat.ltb (length (sb_stream bus)) (c_len c) then Panic SiteArith
      else Ok (length (sb_stream bus) - c_len c + Z.to_nat (Z.min n (Z.of_nat (c_len c))))%nat
  end.

(* &v[a..b] *)
Definition slice (l : bytes) (a b : nat) : res bytes :=
  if Nat.ltb b a then Panic SiteIndex
  else if Nat.ltb (length l) b then Panic SiteIndex
  else Ok (firstn (b - a) (skipn a l)).

(* SimulatorBus::pending_bytes(cursor) = &stream[cursor..current_cursor()] *)
Definition bus_pending (bus : simbus) (cursor : nat) : res bytes :=
  let* cur := current_cursor bus in
  slice (sb_stream bus) cursor cur.

(* SimulatorBus::is_active: Some(sender) while the last telegram is not completely on the wire *)
Definition is_active (bus : simbus) : res (option Z) :=
  match sb_telegrams bus with
  | [] => Ok None
  | c :: _ =>
      let* n := tx_bytes bus c in
      Ok (if n <? Z.of_nat (c_len c) then Some (c_sender c) else None)
  end.

Definition telegram_source (t : telegram) : option Z :=
  match t with
  | TData h _ => Some (h_sa h)
  | TToken _ sa => Some sa
  | TShortConf => None
  end.

(* get_telegram(t): deserialize(&stream[index..index+length]).and_then(Result::ok).map(|(t,_)| t) *)
Definition get_telegram (bus : simbus) (c : captured) : res (option telegram) :=
  let* data := slice (sb_stream bus) (c_index c) (c_index c + c_len c) in
  let* d := decode data in
  Ok (match d with Accept t _ => Some t | _ => None end).

(* SimulatorBus::enqueue_telegram(name, data) *)
Definition enqueue (bus : simbus) (name : Z) (data : bytes) : res simbus :=
  let* act := is_active bus in
  match act with
  | Some _ => Panic SiteUnreachable                 (* "... attempted transmission while ... is still sending!" *)
  | None =>
      match data with
      | [] => Ok bus                                 (* drop out early if nothing needs to be sent *)
      | _ :: _ =>
          let* d := decode data in
          let* (tm, sa) :=
            (match d with
             | Accept t n =>
                 if negb (Nat.eqb n (length data)) then Panic SiteUnreachable   (* "Enqueued more than one ..." *)
                 else match t with
                      | TToken da sa => Ok (Some da, Some sa)
                      | TData h _ => Ok (sb_token_master bus, Some (h_sa h))
                      | TShortConf => Ok (sb_token_master bus, None)
                      end
             | _ => Ok (sb_token_master bus, None)
             end) in
          let* _ :=
            (match sb_telegrams bus with
             | [] => Ok tt
             | c :: _ =>
                 let* prev := get_telegram bus c in
                 let min_delay :=
                   match prev with
                   | Some t => if opt_eqb sa tm then 33 else 11      (* Tid2 / Tid1: 33, Tsdr: 11 *)
                   | None => 11
                   end in
                 (* u32::try_from(t.length).unwrap() * 11 + min_delay *)
                 if negb (Z.of_nat (c_len c) * 11 + min_delay <=? 4294967295) then Panic SiteArith else
                 let deadline := c_ts c + bits_to_time (sb_baud bus) (Z.of_nat (c_len c) * 11 + min_delay) in
                 if negb (i64_ok deadline) then Panic SiteArith else
                 if sb_time bus <? deadline then Panic SiteUnreachable   (* "did not leave appropriate delay" *)
                 else Ok tt
             end) in
          Ok (mkBus (sb_baud bus)
                    (mkCap name (sb_time bus) (length (sb_stream bus)) (length data) :: sb_telegrams bus)
                    (sb_stream bus ++ data) (sb_time bus) tm)
      end
  end.

Definition set_bus_time (bus : simbus) (t : Z) : simbus :=
  mkBus (sb_baud bus) (sb_telegrams bus) (sb_stream bus) t (sb_token_master bus).

(* ------------------------------------------------------------------------- SimulatorPhy *)

Record simphy : Set := mkSimPhy { ph_cursor : nat; ph_name : Z }.

(* poll_transmission: bus.is_active() == Some(self.name) *)
Definition sim_poll_transmission (bus : simbus) (p : simphy) : res bool :=
  let* a := is_active bus in
  Ok (match a with Some n => n =? ph_name p | None => false end).

Definition sim_tx_buffer : nat := 256.

(* transmit_data(now, f) where f writes `data` and returns its length; the closure gets a
   256 byte buffer. *)
Definition sim_transmit (bus : simbus) (p : simphy) (data : bytes) : res (simbus * simphy) :=
  if Nat.ltb sim_tx_buffer (length data) then Panic SiteIndex else
  let* bus' := enqueue bus (ph_name p) data in
  Ok (bus', mkSimPhy (ph_cursor p + length data) (ph_name p)).

(* what receive_data shows to its closure *)
Definition sim_view (bus : simbus) (p : simphy) : res bytes :=
  let* tx := sim_poll_transmission bus p in
  if tx then Panic SiteUnreachable                  (* "attempted to receive while it was still transmitting!" *)
  else bus_pending bus (ph_cursor p).

Definition sim_drop (p : simphy) (n : nat) : simphy := mkSimPhy (ph_cursor p + n) (ph_name p).

Definition sim_phy (bus : simbus) : phy_ops simphy := mkPhyOps (sim_view bus) sim_drop.

(* ------------------------------------------------------------------------- availability
   bytes of the stream visible at bus time t (for a PHY with cursor 0) *)
Definition avail (bus : simbus) (t : Z) : res nat := current_cursor (set_bus_time bus t).

Definition last_ts (bus : simbus) : Z :=
  match sb_telegrams bus with c :: _ => c_ts c | [] => 0 end.

(* the bus invariant that enqueue maintains: the last telegram is the tail of the stream *)
Definition bus_wf (bus : simbus) : Prop :=
  match sb_telegrams bus with
  | [] => sb_stream bus = []
  | c :: _ => (c_index c + c_len c = length (sb_stream bus))%nat /\ (1 <= c_len c)%nat
  end.
