(* Model of src/dp/master.rs (DpMaster, DpMasterState, DpEvents, the FdlApplication impl) and
   src/dp/peripheral_set.rs (storage slots, handles, get_at_index_mut, get_next_index, add, get_mut).
   - dp_transmit        = <DpMaster as FdlApplication>::transmit_telegram (Stop / global control / slot loop
                          on explicit fuel `length slots + 2`)
   - dp_receive_reply   = ...::receive_reply        - dp_handle_timeout = ...::handle_timeout (no-op)
   - user API: dp_new dp_add dp_get_mut dp_update dp_take_last_events dp_enter_state dp_request_diagnostics
     dp_write_q.
   The model is of the code AFTER the fixes F4 (turn ends when no slot at or after the cycle index is
   occupied) and F11 (turn ends after the first peripheral event raised inside transmit_telegram).
   Panic sites: u8::try_from(index).unwrap(), assert!(peripheral_event.is_none()), unreachable!() in
   receive_reply, Instant subtraction overflow, the serializer's sites, `add` on full fixed storage,
   get_mut with a foreign handle, todo!() in enter_state.  No proofs here. *)
From PB Require Export Peripheral.

(* ------------------------------------------------------------------ data *)

Inductive cycle_state : Set :=
| CyDataExchange (i : nat)        (* internal slot index (u8), not an address *)
| CyCompleted.

(* PeripheralHandle *)
Record handle : Set := mkHandle { hd_index : nat; hd_addr : Z }.

Record dpevents : Set := mkEvents {
  ev_cycle_completed : bool;
  ev_peripheral : option (handle * pevent) }.
Definition events_default : dpevents := mkEvents false None.

Record dpm : Set := mkDpm {
  dm_slots : list (option periph);   (* PeripheralSet storage *)
  dm_owned : bool;                   (* ManagedSlice::Owned (growing Vec) vs Borrowed (fixed) *)
  dm_op : opstate;
  dm_last_gc : option Z;             (* last_global_control *)
  dm_cycle : cycle_state;
  dm_events : dpevents }.

Definition set_slots (m : dpm) (s : list (option periph)) : dpm :=
  mkDpm s (dm_owned m) (dm_op m) (dm_last_gc m) (dm_cycle m) (dm_events m).
Definition set_op (m : dpm) (o : opstate) : dpm :=
  mkDpm (dm_slots m) (dm_owned m) o (dm_last_gc m) (dm_cycle m) (dm_events m).
Definition set_last_gc (m : dpm) (t : option Z) : dpm :=
  mkDpm (dm_slots m) (dm_owned m) (dm_op m) t (dm_cycle m) (dm_events m).
Definition set_cycle (m : dpm) (c : cycle_state) : dpm :=
  mkDpm (dm_slots m) (dm_owned m) (dm_op m) (dm_last_gc m) c (dm_events m).
Definition set_events (m : dpm) (e : dpevents) : dpm :=
  mkDpm (dm_slots m) (dm_owned m) (dm_op m) (dm_last_gc m) (dm_cycle m) e.

(* DpMaster::new(storage): n empty slots, fixed (array/slice) or growing (Vec) *)
Definition dp_new (n : nat) (owned : bool) : dpm :=
  mkDpm (repeat None n) owned opstate_initial None (CyDataExchange cycle_initial_index) events_default.

(* ------------------------------------------------------------------ peripheral set *)

(* first occupied slot of l, positions counted from i *)
Fixpoint find_occupied (l : list (option periph)) (i : nat) : option (nat * periph) :=
  match l with
  | [] => None
  | Some p :: _ => Some (i, p)
  | None :: t => find_occupied t (S i)
  end.

(* positions (counted from i) of the occupied slots of l *)
Fixpoint occupied_from (l : list (option periph)) (i : nat) : list nat :=
  match l with
  | [] => []
  | Some _ :: t => i :: occupied_from t (S i)
  | None :: t => occupied_from t (S i)
  end.

(* u8::try_from(i).unwrap() *)
Definition u8_index (i : nat) : res nat := if Nat.ltb 255 i then Panic SiteTryFrom else Ok i.

(* PeripheralSet::get_at_index_mut: the first occupied slot at or after `index` *)
Definition get_at_index (slots : list (option periph)) (index : nat) : res (option (handle * periph)) :=
  match find_occupied (skipn index slots) index with
  | None => Ok None
  | Some (i, p) => let* i8 := u8_index i in Ok (Some (mkHandle i8 (pe_addr p), p))
  end.

(* PeripheralSet::get_next_index: the second occupied slot at or after `index` *)
Definition get_next_index (slots : list (option periph)) (index : nat) : res (option nat) :=
  match occupied_from (skipn index slots) index with
  | _ :: i :: _ => let* i8 := u8_index i in Ok (Some i8)
  | _ => Ok None
  end.

(* slots[i] = Some p *)
Fixpoint put_slot (l : list (option periph)) (i : nat) (p : periph) : list (option periph) :=
  match l, i with
  | [], _ => []
  | _ :: t, O => Some p :: t
  | x :: t, S i' => x :: put_slot t i' p
  end.

(* position of the first empty slot *)
Fixpoint first_free (l : list (option periph)) (i : nat) : option nat :=
  match l with
  | [] => None
  | None :: _ => Some i
  | Some _ :: t => first_free t (S i)
  end.

(* DpMaster::add / PeripheralSet::add *)
Definition dp_add (m : dpm) (p : periph) : res (dpm * handle) :=
  match first_free (dm_slots m) 0 with
  | Some i =>
      let* i8 := u8_index i in
      Ok (set_slots m (put_slot (dm_slots m) i p), mkHandle i8 (pe_addr p))
  | None =>
      if dm_owned m then
        let* i8 := u8_index (length (dm_slots m)) in       (* (len - 1).try_into().unwrap() after push *)
        Ok (set_slots m (dm_slots m ++ [Some p]), mkHandle i8 (pe_addr p))
      else Panic SiteUnreachable                           (* panic!("Adding peripheral to full PeripheralSet") *)
  end.

(* DpMaster::get_mut(handle) *)
Definition dp_get_mut (m : dpm) (h : handle) : res periph :=
  match nth_error (dm_slots m) (hd_index h) with
  | None => Panic SiteIndex
  | Some None => Panic SiteUnwrap                          (* expect("Handle does not refer ...") *)
  | Some (Some p) => Ok p
  end.

(* get_mut(handle) followed by a mutation of the peripheral *)
Definition dp_update (m : dpm) (h : handle) (f : periph -> periph) : res dpm :=
  let* p := dp_get_mut m h in
  Ok (set_slots m (put_slot (dm_slots m) (hd_index h) (f p))).

(* dp_master.get_mut(h).request_diagnostics() *)
Definition dp_request_diagnostics (m : dpm) (h : handle) : res dpm := dp_update m h p_request_diagnostics.

(* dp_master.get_mut(h).pi_q_mut().copy_from_slice(q): the user can change contents, never the length *)
Definition dp_write_q (m : dpm) (h : handle) (q : bytes) : res dpm :=
  let* p := dp_get_mut m h in
  let* d := copy_from_slice (pe_pi_q p) q in
  Ok (set_slots m (put_slot (dm_slots m) (hd_index h) (set_pi_q p d))).

(* DpMaster::take_last_events *)
Definition dp_take_last_events (m : dpm) : dpm * dpevents := (set_events m events_default, dm_events m).

(* DpMaster::enter_state: the assignments happen before the todo!(), so a caller that catches the
   unwinding continues with dp_enter_state_unwound *)
Definition dp_enter_state_unwound (m : dpm) (s : opstate) : dpm := set_last_gc (set_op m s) None.
Definition dp_enter_state (m : dpm) (s : opstate) : res dpm :=
  if opstate_eqb s opstate_supported then Ok (dp_enter_state_unwound m s) else Panic SiteUnreachable.
Definition dp_enter_operate (m : dpm) : res dpm := dp_enter_state m OpOperate.

(* ------------------------------------------------------------------ cycle *)

(* DpMaster::increment_cycle_state: true = cycle completed *)
Definition increment_cycle (m : dpm) (index : nat) : res (dpm * bool) :=
  let* n := get_next_index (dm_slots m) index in
  match n with
  | Some next => Ok (set_cycle m (CyDataExchange next), false)
  | None => Ok (set_cycle m CyCompleted, true)
  end.

(* Instant - Instant: i64 subtraction, then unsigned_abs *)
Definition instant_diff (a b : Z) : res Z :=
  let d := a - b in
  if (d <? -9223372036854775808) || (9223372036854775807 <? d) then Panic SiteArith else Ok (Z.abs d).

(* what transmit_telegram returns: Some(TelegramTxResponse) = bytes written + expects_reply *)
Definition txout : Set := option (bytes * option Z).

(* TelegramTx::send_data_telegram into a buffer of bufsize bytes *)
Definition send_data (bufsize : nat) (h : header) (pdu : bytes) : res (bytes * option Z) :=
  let* w := encode_data_in bufsize h pdu in Ok (w, tx_expects_reply h).

(* the `loop` of transmit_telegram; pev is the local `peripheral_event` *)
Fixpoint dp_tx_loop (fuel : nat) (pa : params) (bufsize : nat) (m : dpm) (pev : option (handle * pevent))
  : res (dpm * txout) :=
  match fuel with
  | O => OutOfFuel
  | S fuel' =>
      match dm_cycle m with
      | CyCompleted =>
          Ok (set_events (set_cycle m (CyDataExchange 0)) (mkEvents false pev), None)
      | CyDataExchange index =>
          let* g := get_at_index (dm_slots m) index in
          match g with
          | Some (hd, p) =>
              let* (p1, r) := p_transmit pa (dm_op m) p in
              let m1 := set_slots m (put_slot (dm_slots m) (hd_index hd) p1) in
              match r with
              | PtxSend h pdu =>
                  let* o := send_data bufsize h pdu in
                  Ok (set_events m1 (mkEvents false pev), Some o)
              | PtxSkip ev =>
                  let* pev1 :=
                    (match ev with
                     | Some e =>
                         match pev with
                         | Some _ => Panic SiteAssert        (* assert!(peripheral_event.is_none()) *)
                         | None => Ok (Some (hd, e))
                         end
                     | None => Ok pev
                     end) in
                  let* (m2, completed) := increment_cycle m1 index in
                  if completed then
                    Ok (set_events (set_cycle m2 (CyDataExchange 0)) (mkEvents true pev1), None)
                  else
                    match pev1 with
                    | Some _ =>
                        (* F11 fix: end the turn after the first event, the cycle continues at the
                           next token visit *)
                        Ok (set_events m2 (mkEvents false pev1), None)
                    | None => dp_tx_loop fuel' pa bufsize m2 pev1
                    end
              end
          | None =>
              (* F4 fix: nothing at or after this index: the cycle is over *)
              Ok (set_events (set_cycle m (CyDataExchange 0)) (mkEvents true pev), None)
          end
      end
  end.

Definition dp_tx_fuel (m : dpm) : nat := (length (dm_slots m) + 2)%nat.

Definition gc_header (pa : params) : header :=
  mkHeader dp_gc_da (p_address pa) dp_gc_dsap dp_gc_ssap (FcRequest FcbInactive RqSdnLow).

(* is a global control telegram due? (only evaluated for HighPrioOnly::No) *)
Definition gc_due (pa : params) (m : dpm) (now : Z) : res bool :=
  match dm_last_gc m with
  | None => Ok true
  | Some t => let* d := instant_diff now t in Ok (slot_time pa * dp_gc_interval_slots <=? d)
  end.

(* <DpMaster as FdlApplication>::transmit_telegram(now, fdl, tx, high_prio_only) *)
Definition dp_transmit (pa : params) (bufsize : nat) (m : dpm) (now : Z) (high_prio_only : bool)
  : res (dpm * txout) :=
  if opstate_eqb (dm_op m) OpStop then Ok (set_events m events_default, None) else
  let* due := (if high_prio_only then Ok false else gc_due pa m now) in
  if due then
    let m1 := set_events (set_last_gc m (Some now)) events_default in
    let* b := (match dm_op m with
               | OpClear => Ok dp_gc_clear
               | OpOperate => Ok dp_gc_operate
               | OpStop => Panic SiteUnreachable
               end) in
    let* o := send_data bufsize (gc_header pa) [b; dp_gc_groups] in
    Ok (m1, Some o)
  else dp_tx_loop (dp_tx_fuel m) pa bufsize m None.

(* <DpMaster as FdlApplication>::receive_reply(now, fdl, addr, telegram) *)
Definition dp_receive_reply (m : dpm) (addr : Z) (t : telegram) : res dpm :=
  match dm_cycle m with
  | CyCompleted => Panic SiteUnreachable
  | CyDataExchange index =>
      let* g := get_at_index (dm_slots m) index in
      match g with
      | Some (hd, p) =>
          if addr =? pe_addr p then
            let* (p1, ev) := p_receive_reply p t in
            let m1 := set_slots m (put_slot (dm_slots m) (hd_index hd) p1) in
            let* (m2, completed) := increment_cycle m1 index in
            Ok (set_events m2 (mkEvents completed
                                 (match ev with Some e => Some (hd, e) | None => None end)))
          else Panic SiteUnreachable
      | None => Panic SiteUnreachable
      end
  end.

(* <DpMaster as FdlApplication>::handle_timeout: nothing; timeouts are noticed in transmit_telegram.
   (When the FDL abandons a request because an inadmissible telegram arrived it calls neither
   receive_reply nor handle_timeout; for the DP master that is the same as a timeout.) *)
Definition dp_handle_timeout (m : dpm) (addr : Z) : res dpm := Ok m.

(* ------------------------------------------------------------------ views used by theorems/oracles *)

Definition occupied (m : dpm) : list nat := occupied_from (dm_slots m) 0.
Definition slot (m : dpm) (i : nat) : option periph :=
  match nth_error (dm_slots m) i with Some (Some p) => Some p | _ => None end.

(* dp_master.get_mut(h).reset_address(a) (added after phase 1).  The handle keeps its index; the address it
   carries is stale afterwards, handles in later events carry the new address.  The cycle state is not
   touched: a reply that is still outstanding is handed to the reset peripheral if the address is unchanged
   and trips the unreachable!() of receive_reply if it changed (known finding F22). *)
Definition dp_reset_address (m : dpm) (h : handle) (a : Z) : res dpm :=
  dp_update m h (fun p => p_reset_address p a).
