(* The DP correspondence set-up as a Coq function: a configured system (DP master model + reference slaves),
   the inputs of a transcript (FdlApplication callbacks, user API calls, environment events) and `run_in`,
   which applies one input to the model and returns the model's output for it; `observe` gives the public
   observables compared after every step.  ocaml/run_dp.ml only parses, calls these and prints.
   The space of inputs is the FdlApplication contract (C15): after a transmit that expects a reply from
   `da`, exactly one of receive_reply(da, t) / handle_timeout(da) (or nothing at all when the FDL abandons
   the request) happens before the next transmit.  No proofs here. *)
From PB Require Export DpMaster Slave.

(* ------------------------------------------------------------------ configuration of a case *)

Record pconf : Set := mkPconf {
  pc_slot : option nat;      (* Some i: placed in storage slot i before DpMaster::new (sparse storage);
                                None: handed to DpMaster::add *)
  pc_late : bool;            (* added by an `ADD k` step instead of at set-up *)
  pc_addr : Z;
  pc_opts : poptions;
  pc_in : nat;               (* length of pi_i *)
  pc_out : nat;              (* length of pi_q *)
  pc_diag : nat }.           (* size of the extended diagnostics buffer, 0 = none *)

Record conf : Set := mkConf {
  cf_params : params;
  cf_bufsize : nat;          (* size of the transmit buffer handed to TelegramTx::new *)
  cf_nslots : nat;           (* number of storage slots at construction *)
  cf_owned : bool;           (* Vec storage (grows) or fixed slice *)
  cf_autotake : bool;        (* take_last_events() after every callback *)
  cf_periphs : list pconf;
  cf_slaves : list slave }.

Definition periph_of_conf (c : pconf) : periph :=
  periph_new (pc_addr c) (pc_opts c) (repeat 0 (pc_in c)) (repeat 0 (pc_out c)) (pc_diag c).

Record sys : Set := mkSys {
  sy_conf : conf;
  sy_m : dpm;
  sy_handles : list (option handle);   (* handle of configured peripheral k, once it is in the master *)
  sy_slaves : list slave }.

Definition set_m (s : sys) (m : dpm) : sys := mkSys (sy_conf s) m (sy_handles s) (sy_slaves s).

Fixpoint set_nth {A} (l : list A) (i : nat) (x : A) : list A :=
  match l, i with
  | [], _ => []
  | _ :: t, O => x :: t
  | y :: t, S i' => y :: set_nth t i' x
  end.

(* set-up: pre-placed peripherals go into their slots, then the others are added in order *)
Fixpoint place_all (slots : list (option periph)) (ps : list pconf) : list (option periph) :=
  match ps with
  | [] => slots
  | c :: t =>
      match pc_slot c with
      | Some i => place_all (put_slot slots i (periph_of_conf c)) t
      | None => place_all slots t
      end
  end.

Fixpoint add_all (m : dpm) (ps : list pconf) : res (dpm * list (option handle)) :=
  match ps with
  | [] => Ok (m, [])
  | c :: t =>
      match pc_slot c with
      | Some i =>
          let* (m1, hs) := add_all m t in
          Ok (m1, Some (mkHandle i (pc_addr c)) :: hs)
      | None =>
          if pc_late c then
            let* (m1, hs) := add_all m t in Ok (m1, None :: hs)
          else
            let* (m0, h) := dp_add m (periph_of_conf c) in
            let* (m1, hs) := add_all m0 t in
            Ok (m1, Some h :: hs)
      end
  end.

Definition init_sys (c : conf) : res sys :=
  let m0 := dp_new (cf_nslots c) (cf_owned c) in
  let m1 := set_slots m0 (place_all (dm_slots m0) (cf_periphs c)) in
  let* (m2, hs) := add_all m1 (cf_periphs c) in
  Ok (mkSys c m2 hs (cf_slaves c)).

(* ------------------------------------------------------------------ inputs and outputs of a step *)

Inductive tr_in : Set :=
| InTx (now : Z) (hp : bool)                    (* transmit_telegram(now, .., HighPrioOnly) *)
| InRx (now addr : Z) (wire : bytes)            (* receive_reply(now, .., addr, deserialize(wire)) *)
| InTo (now addr : Z)                           (* handle_timeout(now, .., addr) *)
| InAbandon                                     (* the FDL dropped the request: no callback *)
| InReqDiag (k : nat)                           (* get_mut(h_k).request_diagnostics() *)
| InWriteQ (k : nat) (q : bytes)                (* get_mut(h_k).pi_q_mut().copy_from_slice(q) *)
| InEnter (s : opstate)                         (* enter_state(s), unwinding caught *)
| InTake                                        (* take_last_events() *)
| InAdd (k : nat)                               (* add(peripheral k) *)
| InSlave (k : nat) (wire : bytes)              (* slave k sees a request *)
| InPower (k : nat)                             (* slave k power cycles *)
| InSlaveSet (k : nat) (silent : bool) (ready_delay : nat) (stat_diag diag_pending : bool)
             (force1 force2 : Z) (ext : bytes) (ident : Z)
| InClean                                       (* marker: from here on the script injects no faults *)
| InResetAddr (k : nat) (a : Z).                (* get_mut(h_k).reset_address(a)  (appended after phase 1) *)

Inductive tr_out : Set :=
| OutTx (o : txout)                             (* what transmit_telegram returned *)
| OutUnit                                       (* returned normally, nothing to report *)
| OutPanicked                                   (* enter_state: unwound (todo!) but continued *)
| OutEvents (e : dpevents)                      (* take_last_events() result *)
| OutHandle (h : handle)                        (* add() result *)
| OutSlave (reply : option bytes)               (* what the slave answered *)
| OutBad                                        (* ill-formed input (driver error) *)
| OutPanic                                      (* only in implementation transcripts: the call panicked *)
| OutHang.                                      (* only in implementation transcripts: the call never returned *)

Definition handle_of (s : sys) (k : nat) : option handle :=
  match nth_error (sy_handles s) k with Some (Some h) => Some h | _ => None end.

(* one step of the model.  Panic / OutOfFuel end the run (the harness stops at a panic or hang). *)
Definition run_in (s : sys) (i : tr_in) : res (sys * tr_out) :=
  let c := sy_conf s in
  match i with
  | InTx now hp =>
      let* (m, o) := dp_transmit (cf_params c) (cf_bufsize c) (sy_m s) now hp in
      Ok (set_m s m, OutTx o)
  | InRx now addr wire =>
      match decode wire with
      | Ok (Accept t n) =>
          if Nat.eqb n (length wire) then
            let* m := dp_receive_reply (sy_m s) addr t in Ok (set_m s m, OutUnit)
          else Ok (s, OutBad)
      | _ => Ok (s, OutBad)
      end
  | InTo now addr => let* m := dp_handle_timeout (sy_m s) addr in Ok (set_m s m, OutUnit)
  | InAbandon => Ok (s, OutUnit)
  | InReqDiag k =>
      match handle_of s k with
      | Some h => let* m := dp_request_diagnostics (sy_m s) h in Ok (set_m s m, OutUnit)
      | None => Ok (s, OutBad)
      end
  | InWriteQ k q =>
      match handle_of s k with
      | Some h => let* m := dp_write_q (sy_m s) h q in Ok (set_m s m, OutUnit)
      | None => Ok (s, OutBad)
      end
  | InEnter st =>
      match dp_enter_state (sy_m s) st with
      | Ok m => Ok (set_m s m, OutUnit)
      | _ => Ok (set_m s (dp_enter_state_unwound (sy_m s) st), OutPanicked)
      end
  | InTake => let (m, e) := dp_take_last_events (sy_m s) in Ok (set_m s m, OutEvents e)
  | InAdd k =>
      match nth_error (cf_periphs c) k with
      | Some pc =>
          let* (m, h) := dp_add (sy_m s) (periph_of_conf pc) in
          Ok (mkSys c m (set_nth (sy_handles s) k (Some h)) (sy_slaves s), OutHandle h)
      | None => Ok (s, OutBad)
      end
  | InSlave k wire =>
      match nth_error (sy_slaves s) k with
      | Some sl =>
          let (sl1, r) := slave_step sl wire in
          Ok (mkSys c (sy_m s) (sy_handles s) (set_nth (sy_slaves s) k sl1), OutSlave r)
      | None => Ok (s, OutBad)
      end
  | InPower k =>
      match nth_error (sy_slaves s) k with
      | Some sl =>
          Ok (mkSys c (sy_m s) (sy_handles s) (set_nth (sy_slaves s) k (slave_power_cycle sl)), OutUnit)
      | None => Ok (s, OutBad)
      end
  | InClean => Ok (s, OutUnit)
  | InResetAddr k a =>
      match handle_of s k with
      | Some h => let* m := dp_reset_address (sy_m s) h a in Ok (set_m s m, OutUnit)
      | None => Ok (s, OutBad)
      end
  | InSlaveSet k silent rd sd dp f1 f2 ext ident =>
      match nth_error (sy_slaves s) k with
      | Some sl =>
          Ok (mkSys c (sy_m s) (sy_handles s)
                    (set_nth (sy_slaves s) k (slave_set sl silent rd sd dp f1 f2 ext ident)), OutUnit)
      | None => Ok (s, OutBad)
      end
  end.

(* with cf_autotake the harness calls take_last_events() after each of the three callbacks *)
Definition is_callback (i : tr_in) : bool :=
  match i with InTx _ _ | InRx _ _ _ | InTo _ _ => true | _ => false end.

Definition auto_take (s : sys) (i : tr_in) : sys * option dpevents :=
  if cf_autotake (sy_conf s) && is_callback i then
    let (m, e) := dp_take_last_events (sy_m s) in (set_m s m, Some e)
  else (s, None).

(* ------------------------------------------------------------------ observables *)

Record pobs : Set := mkPobs {
  ob_live : bool; ob_running : bool; ob_pi_i : bytes; ob_pi_q : bytes;
  ob_diag : option (diaginfo * option bytes) }.

Definition observe_periph (p : periph) : pobs :=
  mkPobs (is_live p) (is_running p) (pe_pi_i p) (pe_pi_q p) (last_diagnostics p).

(* per configured peripheral k: None until it is in the master *)
Definition observe (s : sys) : list (option pobs) :=
  map (fun oh => match oh with
                 | Some h => match dp_get_mut (sy_m s) h with
                             | Ok p => Some (observe_periph p)
                             | _ => None
                             end
                 | None => None
                 end) (sy_handles s).

Definition observe_op (s : sys) : opstate := dm_op (sy_m s).
