(* Proofs for C10: the decoder is total, prefix-consistent and never mis-accepts damaged frames.
   Everything is built on DecodeSpec.decode_is_spec (decode l = Ok (decode_spec l)). *)
From PB Require Import Common Telegram CodecOracle ByteFacts DecodeSpec C09Proofs.

(* ------------------------------------------------------------- small list facts *)

Lemma app_cons_assoc {A} (a : list A) x b c : (a ++ x :: b) ++ c = a ++ x :: b ++ c.
Proof. rewrite <- app_assoc. reflexivity. Qed.

Lemma subst_length l pos v : (pos < length l)%nat -> length (subst l pos v) = length l.
Proof.
  intros H. unfold subst. rewrite app_length, firstn_length. cbn [length]. rewrite skipn_length. lia.
Qed.

Lemma subst_app_l a b pos v : (pos < length a)%nat -> subst (a ++ b) pos v = subst a pos v ++ b.
Proof.
  intros H. unfold subst. rewrite firstn_app, skipn_app.
  replace (pos - length a)%nat with 0%nat by lia. replace (S pos - length a)%nat with 0%nat by lia.
  cbn [firstn skipn]. rewrite app_nil_r. rewrite app_cons_assoc. reflexivity.
Qed.

Lemma subst_app_r a b pos v : (length a <= pos)%nat -> subst (a ++ b) pos v = a ++ subst b (pos - length a) v.
Proof.
  intros H. unfold subst. rewrite firstn_app, skipn_app.
  rewrite firstn_all2 by lia. rewrite skipn_all2 by lia.
  replace (S pos - length a)%nat with (S (pos - length a)) by lia.
  cbn [app]. rewrite <- app_assoc. reflexivity.
Qed.

Lemma subst_cons_S x l pos v : subst (x :: l) (S pos) v = x :: subst l pos v.
Proof. reflexivity. Qed.

Lemma subst_cons_0 x l v : subst (x :: l) 0 v = v :: l.
Proof. reflexivity. Qed.

(* ------------------------------------------------------------- checksum: sum8 = sum mod 256 *)

Definition lsum (l : bytes) : Z := fold_right Z.add 0 l.

Lemma sum8_acc l : forall a, fold_left (fun acc b => (acc + b) mod 256) l (a mod 256) = (a + lsum l) mod 256.
Proof.
  induction l as [|x l IH]; intros a; cbn [fold_left lsum fold_right].
  - rewrite Z.add_0_r. reflexivity.
  - fold (lsum l). rewrite IH. rewrite <- Z.add_assoc, Zplus_mod_idemp_l. reflexivity.
Qed.

Lemma sum8_is_sum_mod l : sum8 l = lsum l mod 256.
Proof. unfold sum8. change 0 with (0 mod 256) at 1. rewrite sum8_acc. reflexivity. Qed.

Lemma lsum_subst l : forall pos v, (pos < length l)%nat -> lsum (subst l pos v) = lsum l - nth pos l 0 + v.
Proof.
  induction l as [|x l IH]; intros pos v H; [cbn in H; lia|].
  destruct pos as [|pos].
  - rewrite subst_cons_0. cbn [lsum fold_right nth]. lia.
  - rewrite subst_cons_S. cbn [lsum fold_right nth]. fold (lsum (subst l pos v)). fold (lsum l).
    rewrite IH by (cbn in H; lia). lia.
Qed.

(* the key fact: one changed byte changes the checksum *)
Lemma sum8_single_change l pos v :
  (pos < length l)%nat -> is_byte (nth pos l 0) -> is_byte v -> v <> nth pos l 0 ->
  sum8 (subst l pos v) <> sum8 l.
Proof.
  unfold is_byte. intros Hp Hx Hv Hne E. rewrite !sum8_is_sum_mod, lsum_subst in E by exact Hp.
  set (S := lsum l) in *. set (x := nth pos l 0) in *.
  assert (D : (S - x + v - S) mod 256 = 0).
  { rewrite Zminus_mod, E, Z.sub_diag. reflexivity. }
  apply Z.mod_divide in D; [|lia]. destruct D as [q Hq]. lia.
Qed.

(* ------------------------------------------------------------- the shape of decoder inputs *)

Definition is_data_delim (b : Z) : bool := (b =? SD1) || (b =? SD2) || (b =? SD3).

(* start of a data frame and the number of bytes between FC and FCS it announces *)
Inductive data_shape : bytes -> nat -> Prop :=
| DS1 : data_shape [SD1] 0
| DS3 : data_shape [SD3] 8
| DS2 n : data_shape [SD2; Z.of_nat (n + 3); Z.of_nat (n + 3); SD2] n.

(* a complete case analysis of byte strings, each with the decoder's verdict *)
Inductive view : bytes -> dres -> Prop :=
| V_nil : view [] NeedMore
| V_sc t : view (SC :: t) (Accept TShortConf 1)
| V_tok_short t : (length t < 2)%nat -> view (SD4 :: t) NeedMore
| V_tok da sa t : view (SD4 :: da :: sa :: t) (Accept (TToken da sa) 3)
| V_nodelim b0 t : is_delim b0 = false -> view (b0 :: t) Reject
| V_short6 b0 t : is_data_delim b0 = true -> (length (b0 :: t) < 6)%nat -> view (b0 :: t) NeedMore
| V_sd3_short t : (6 <= length (SD3 :: t) < 14)%nat -> view (SD3 :: t) NeedMore
| V_sd2_badhdr b1 b2 b3 t : (2 <= length t)%nat -> (b1 <> b2 \/ b3 <> SD2 \/ b1 < 3) ->
    view (SD2 :: b1 :: b2 :: b3 :: t) Reject
| V_sd2_short b1 t : 3 <= b1 -> (2 <= length t)%nat -> (length t + 4 < Z.to_nat b1 + 6)%nat ->
    view (SD2 :: b1 :: b1 :: SD2 :: t) NeedMore
| V_body pre n da' sa' fcb payload cks e rest : data_shape pre n -> length payload = n ->
    view (pre ++ da' :: sa' :: fcb :: payload ++ cks :: e :: rest)
         (body_spec da' sa' fcb payload cks e (length pre + n + 5)).

Lemma body_of_shape x da' sa' fcb payload cks e rest bl :
  body_of (x :: da' :: sa' :: fcb :: payload ++ cks :: e :: rest) (length payload) bl =
  body_spec da' sa' fcb payload cks e bl.
Proof.
  pose proof (decode_body_long (x :: da' :: sa' :: fcb :: payload ++ cks :: e :: rest) (length payload) bl) as L.
  rewrite decode_body_spec in L.
  assert (Hl : (length payload + 6 <= length (x :: da' :: sa' :: fcb :: payload ++ cks :: e :: rest))%nat).
  { cbn [length]. rewrite app_length. cbn [length]. lia. }
  specialize (L Hl). injection L as L. symmetry. exact L.
Qed.

Lemma is_delim_false b : is_delim b = false ->
  (b =? SD1) = false /\ (b =? SD2) = false /\ (b =? SD3) = false /\ (b =? SD4) = false /\ (b =? SC) = false.
Proof.
  unfold is_delim. intros H.
  destruct (b =? SD1), (b =? SD2), (b =? SD3), (b =? SD4), (b =? SC); cbn in H; try discriminate; auto.
Qed.

Lemma is_data_delim_cases b : is_data_delim b = true -> b = SD1 \/ b = SD2 \/ b = SD3.
Proof.
  unfold is_data_delim. intros H.
  destruct (Z.eqb_spec b SD1); [auto|]. destruct (Z.eqb_spec b SD2); [auto|]. destruct (Z.eqb_spec b SD3); [auto|].
  discriminate.
Qed.

(* soundness: the verdict attached to each shape is what the decoder computes *)
Lemma view_sound l r : view l r -> decode_spec l = r.
Proof.
  intros V. destruct V as [ |t|t Ht|da sa t|b0 t Hd|b0 t Hd Hl|t Hl|b1 b2 b3 t Hl Hbad|b1 t Hb Hl Hs
                           |pre n da' sa' fcb payload cks e rest Hsh Hn].
  - reflexivity.
  - unfold decode_spec. delim_eval. reflexivity.
  - unfold decode_spec. delim_eval. cbv iota.
    destruct (Nat.ltb_spec (length (SD4 :: t)) 3) as [_|H]; [reflexivity|cbn [length] in H; lia].
  - unfold decode_spec. delim_eval. cbv iota. reflexivity.
  - destruct (is_delim_false b0 Hd) as (E1 & E2 & E3 & E4 & E5).
    unfold decode_spec. rewrite E1, E2, E3, E4, E5. reflexivity.
  - destruct (is_data_delim_cases b0 Hd) as [->|[->| ->]]; unfold decode_spec; delim_eval; cbn [orb]; cbv iota;
      (match goal with |- context [Nat.ltb ?a 6] => destruct (Nat.ltb_spec a 6) as [_|H]; [reflexivity|lia] end).
  - unfold decode_spec. delim_eval. cbn [orb]. cbv iota.
    destruct (Nat.ltb_spec (length (SD3 :: t)) 6) as [H|_]; [lia|].
    destruct t as [|b1 [|b2 [|b3 t]]]; cbn [length] in Hl; try lia.
    unfold header_spec. delim_eval. cbv iota.
    destruct (Nat.ltb_spec (length (SD3 :: b1 :: b2 :: b3 :: t)) (8 + 6)) as [_|H]; [reflexivity|cbn [length] in *; lia].
  - unfold decode_spec. delim_eval. cbn [orb]. cbv iota.
    destruct (Nat.ltb_spec (length (SD2 :: b1 :: b2 :: b3 :: t)) 6) as [H|_]; [cbn [length] in H; lia|].
    unfold header_spec. delim_eval. cbv iota.
    destruct (Z.eqb_spec b1 b2) as [E12|E12]; cbn [negb]; [|reflexivity].
    destruct (Z.eqb_spec b3 SD2) as [E3|E3]; cbn [negb]; [|reflexivity].
    destruct (Z.ltb_spec b1 3) as [E1|E1]; [reflexivity|].
    exfalso. destruct Hbad as [Hbad|[Hbad|Hbad]]; [exact (Hbad E12)|exact (Hbad E3)|lia].
  - unfold decode_spec. delim_eval. cbn [orb]. cbv iota.
    destruct (Nat.ltb_spec (length (SD2 :: b1 :: b1 :: SD2 :: t)) 6) as [H|_]; [cbn [length] in H; lia|].
    unfold header_spec. delim_eval. cbv iota. rewrite Z.eqb_refl. cbn [negb].
    destruct (Z.ltb_spec b1 3) as [E1|_]; [lia|].
    cbn [skipn].
    destruct (Nat.ltb_spec (length (SD2 :: t)) (Z.to_nat (b1 - 3) + 6)) as [_|H]; [reflexivity|].
    cbn [length] in H. lia.
  - revert Hn. destruct Hsh as [ | |n]; intros Hn.
    + destruct payload as [|? ?]; [|discriminate]. cbn [app length Nat.add].
      unfold decode_spec. delim_eval. cbn [orb]. cbv iota.
      destruct (Nat.ltb_spec (length (SD1 :: da' :: sa' :: fcb :: cks :: e :: rest)) 6) as [H|_]; [cbn [length] in H; lia|].
      unfold header_spec. delim_eval. cbv iota.
      destruct (Nat.ltb_spec (length (SD1 :: da' :: sa' :: fcb :: cks :: e :: rest)) (0 + 6)) as [H|_]; [cbn [length] in H; lia|].
      apply (body_of_shape SD1 da' sa' fcb [] cks e rest 6).
    + cbn [app length Nat.add].
      unfold decode_spec. delim_eval. cbn [orb]. cbv iota.
      assert (HL : length (SD3 :: da' :: sa' :: fcb :: payload ++ cks :: e :: rest) = (length rest + 14)%nat).
      { cbn [length]. rewrite app_length. cbn [length]. lia. }
      destruct (Nat.ltb_spec (length (SD3 :: da' :: sa' :: fcb :: payload ++ cks :: e :: rest)) 6) as [H|_]; [lia|].
      unfold header_spec. delim_eval. cbv iota.
      destruct (Nat.ltb_spec (length (SD3 :: da' :: sa' :: fcb :: payload ++ cks :: e :: rest)) (8 + 6)) as [H|_]; [lia|].
      rewrite <- Hn. apply body_of_shape.
    + subst n. cbn [app length].
      unfold decode_spec. delim_eval. cbn [orb]. cbv iota.
      assert (HL : length (SD2 :: Z.of_nat (length payload + 3) :: Z.of_nat (length payload + 3) :: SD2
                          :: da' :: sa' :: fcb :: payload ++ cks :: e :: rest) = (length payload + length rest + 9)%nat).
      { cbn [length]. rewrite app_length. cbn [length]. lia. }
      destruct (Nat.ltb_spec (length (SD2 :: Z.of_nat (length payload + 3) :: Z.of_nat (length payload + 3) :: SD2
                          :: da' :: sa' :: fcb :: payload ++ cks :: e :: rest)) 6) as [H|_]; [lia|].
      unfold header_spec. delim_eval. cbv iota. rewrite Z.eqb_refl. cbn [negb].
      destruct (Z.ltb_spec (Z.of_nat (length payload + 3)) 3) as [E1|_]; [lia|].
      cbn [skipn].
      replace (Z.to_nat (Z.of_nat (length payload + 3) - 3)) with (length payload) by lia.
      replace (Z.to_nat (Z.of_nat (length payload + 3)) + 6)%nat with (4 + length payload + 5)%nat by lia.
      destruct (Nat.ltb_spec (length (SD2 :: da' :: sa' :: fcb :: payload ++ cks :: e :: rest)) (length payload + 6)) as [H|_].
      { cbn [length] in H. rewrite app_length in H. cbn [length] in H. lia. }
      apply body_of_shape.
Qed.

(* completeness: every byte string has one of the shapes *)
Lemma length_lt2 {A} (t : list A) : (length t < 2)%nat \/ exists a b t', t = a :: b :: t'.
Proof. destruct t as [|a [|b t']]; cbn [length]; [left; lia|left; lia|right; eauto]. Qed.

Lemma is_data_delim_is_delim b : is_data_delim b = false -> (b =? SD4) = false -> (b =? SC) = false -> is_delim b = false.
Proof.
  unfold is_data_delim, is_delim. intros H H4 HC. rewrite H4, HC.
  destruct (b =? SD1), (b =? SD2), (b =? SD3); cbn in *; congruence.
Qed.

Lemma view_complete l : exists r, view l r.
Proof.
  destruct l as [|b0 t]; [eexists; apply V_nil|].
  destruct (Z.eqb_spec b0 SC) as [->|HC]; [eexists; apply V_sc|].
  destruct (Z.eqb_spec b0 SD4) as [->|H4].
  { destruct (length_lt2 t) as [Hs|(da & sa & t' & ->)]; eexists; [apply V_tok_short, Hs|apply V_tok]. }
  destruct (is_data_delim b0) eqn:Hd.
  2:{ eexists. apply V_nodelim. apply is_data_delim_is_delim; [exact Hd|apply Z.eqb_neq, H4|apply Z.eqb_neq, HC]. }
  destruct (Nat.ltb_spec (length (b0 :: t)) 6) as [Hs|Hl]; [eexists; apply (V_short6 b0 t Hd Hs)|].
  destruct (is_data_delim_cases b0 Hd) as [->|[->| ->]].
  - (* SD1 *)
    destruct t as [|da' [|sa' [|fcb [|cks [|e rest]]]]]; cbn [length] in Hl; try lia.
    eexists. apply (V_body [SD1] 0 da' sa' fcb [] cks e rest DS1 eq_refl).
  - (* SD2 *)
    destruct t as [|b1 [|b2 [|b3 t]]]; cbn [length] in Hl; try lia.
    assert (Ht : (2 <= length t)%nat) by lia.
    destruct (Z.eq_dec b1 b2) as [<-|E12]; [|eexists; apply V_sd2_badhdr; [exact Ht|auto]].
    destruct (Z.eq_dec b3 SD2) as [->|E3]; [|eexists; apply V_sd2_badhdr; [exact Ht|auto]].
    destruct (Z_lt_le_dec b1 3) as [E1|E1]; [eexists; apply V_sd2_badhdr; [exact Ht|auto]|].
    destruct (Nat.ltb_spec (length t + 4) (Z.to_nat b1 + 6)) as [Hs|Hlong]; [eexists; apply (V_sd2_short b1 t E1 Ht Hs)|].
    destruct (split_buffer (SD2 :: t) (Z.to_nat (b1 - 3))) as (x & da' & sa' & fcb & payload & cks & e & rest & Eq & Hn).
    { cbn [length]. lia. }
    injection Eq as <- ->.
    replace b1 with (Z.of_nat (Z.to_nat (b1 - 3) + 3)) by lia.
    eexists. apply (V_body _ _ da' sa' fcb payload cks e rest (DS2 (Z.to_nat (b1 - 3))) Hn).
  - (* SD3 *)
    destruct (Nat.ltb_spec (length (SD3 :: t)) 14) as [Hs|Hlong]; [eexists; apply V_sd3_short; lia|].
    destruct (split_buffer (SD3 :: t) 8) as (x & da' & sa' & fcb & payload & cks & e & rest & Eq & Hn); [lia|].
    injection Eq as <- ->.
    eexists. apply (V_body [SD3] 8 da' sa' fcb payload cks e rest DS3 Hn).
Qed.

Theorem decode_view l : view l (decode_spec l).
Proof. destruct (view_complete l) as [r V]. rewrite (view_sound l r V). exact V. Qed.

Lemma decode_view' l r : decode l = Ok r -> view l r.
Proof. rewrite decode_is_spec. intros E. injection E as <-. apply decode_view. Qed.

Lemma view_decode l r : view l r -> decode l = Ok r.
Proof. intros V. rewrite decode_is_spec, (view_sound l r V). reflexivity. Qed.

(* ------------------------------------------------------------- what body_spec accepts *)

Definition sapl (o : option Z) : bytes := match o with Some s => [s] | None => [] end.
Definition is_some (o : option Z) : bool := match o with Some _ => true | None => false end.
Definition ext_of (o : option Z) : Z := match o with Some _ => 128 | None => 0 end.
Definition strip (b : Z) : Z := if negb (Z.land b 128 =? 0) then Z.land b 127 else b.

Lemma take_sap_inv has p o p' : take_sap has p = Some (o, p') -> p = sapl o ++ p' /\ has = is_some o.
Proof.
  unfold take_sap. destruct has.
  - destruct p as [|s p0]; [discriminate|]. intros E. injection E as <- <-. split; reflexivity.
  - intros E. injection E as <- <-. split; reflexivity.
Qed.

Lemma body_spec_accept da' sa' fcb payload cks e bl t n :
  body_spec da' sa' fcb payload cks e bl = Accept t n ->
  exists fc dsap ssap pdu,
    t = TData (mkHeader (strip da') (strip sa') dsap ssap fc) pdu /\ n = bl /\
    fc_from_byte fcb = Some fc /\ payload = sapl dsap ++ sapl ssap ++ pdu /\
    negb (Z.land da' 128 =? 0) = is_some dsap /\ negb (Z.land sa' 128 =? 0) = is_some ssap /\
    cks = sum8 (da' :: sa' :: fcb :: payload) /\ e = ED.
Proof.
  unfold body_spec. destruct (fc_from_byte fcb) as [fc|]; [|discriminate].
  destruct (take_sap _ payload) as [[dsap p1]|] eqn:T1; [|discriminate].
  destruct (take_sap _ p1) as [[ssap p2]|] eqn:T2; [|discriminate].
  destruct (Z.eqb_spec cks (sum8 (da' :: sa' :: fcb :: payload))) as [Ec|_]; cbn [negb]; [|discriminate].
  destruct (Z.eqb_spec e ED) as [Ee|_]; cbn [negb]; [|discriminate].
  intros E. injection E as <- <-.
  apply take_sap_inv in T1. destruct T1 as [-> T1]. apply take_sap_inv in T2. destruct T2 as [-> T2].
  exists fc, dsap, ssap, p2. unfold strip. repeat split; assumption.
Qed.

Lemma body_spec_bad_checksum da' sa' fcb payload cks e bl :
  cks <> sum8 (da' :: sa' :: fcb :: payload) -> body_spec da' sa' fcb payload cks e bl = Reject.
Proof.
  intros H. unfold body_spec. destruct (fc_from_byte fcb) as [fc|]; [|reflexivity].
  destruct (take_sap _ payload) as [[dsap p1]|]; [|reflexivity].
  destruct (take_sap _ p1) as [[ssap p2]|]; [|reflexivity].
  destruct (Z.eqb_spec cks (sum8 (da' :: sa' :: fcb :: payload))) as [Ec|_]; [contradiction|reflexivity].
Qed.

Lemma body_spec_bad_ed da' sa' fcb payload cks e bl :
  e <> ED -> body_spec da' sa' fcb payload cks e bl = Reject.
Proof.
  intros H. unfold body_spec. destruct (fc_from_byte fcb) as [fc|]; [|reflexivity].
  destruct (take_sap _ payload) as [[dsap p1]|]; [|reflexivity].
  destruct (take_sap _ p1) as [[ssap p2]|]; [|reflexivity].
  destruct (negb (cks =? _)); [reflexivity|].
  destruct (Z.eqb_spec e ED) as [Ee|_]; [contradiction|reflexivity].
Qed.

Lemma body_spec_cases da' sa' fcb payload cks e bl :
  body_spec da' sa' fcb payload cks e bl = Reject \/
  exists t, body_spec da' sa' fcb payload cks e bl = Accept t bl.
Proof.
  unfold body_spec. destruct (fc_from_byte fcb) as [fc|]; [|auto].
  destruct (take_sap _ payload) as [[dsap p1]|]; [|auto].
  destruct (take_sap _ p1) as [[ssap p2]|]; [|auto].
  destruct (negb (cks =? _)); [auto|]. destruct (negb (e =? ED)); [auto|]. right. eexists. reflexivity.
Qed.

(* inversion of the view for the three accepting shapes *)
Lemma view_accept_data l h pdu n : view l (Accept (TData h pdu) n) ->
  exists pre da' sa' fcb rest,
    let payload := sapl (h_dsap h) ++ sapl (h_ssap h) ++ pdu in
    data_shape pre (length payload) /\
    l = pre ++ da' :: sa' :: fcb :: payload ++ sum8 (da' :: sa' :: fcb :: payload) :: ED :: rest /\
    n = (length pre + length payload + 5)%nat /\
    fc_from_byte fcb = Some (h_fc h) /\
    h_da h = strip da' /\ h_sa h = strip sa' /\
    negb (Z.land da' 128 =? 0) = is_some (h_dsap h) /\ negb (Z.land sa' 128 =? 0) = is_some (h_ssap h).
Proof.
  intros V. inversion V as [ | | | | | | | | |pre n0 da' sa' fcb payload cks e rest Hsh Hn El Er]. subst n0.
  apply body_spec_accept in Er.
  destruct Er as (fc & dsap & ssap & pdu' & Et & -> & Hfc & Hp & Hd & Hs & -> & ->).
  injection Et as -> ->. cbn [h_da h_sa h_dsap h_ssap h_fc]. subst payload.
  exists pre, da', sa', fcb, rest. cbv zeta. repeat split; try assumption; reflexivity.
Qed.

Lemma view_accept_token l da sa n : view l (Accept (TToken da sa) n) -> n = 3%nat /\ exists t, l = SD4 :: da :: sa :: t.
Proof.
  intros V. inversion V as [ | | |da0 sa0 t| | | | | |pre n0 da' sa' fcb payload cks e rest Hsh Hn El Er].
  - split; [reflexivity|]. exists t. reflexivity.
  - apply body_spec_accept in Er. destruct Er as (fc & dsap & ssap & pdu' & Et & _). discriminate.
Qed.

Lemma view_accept_sc l n : view l (Accept TShortConf n) -> n = 1%nat /\ exists t, l = SC :: t.
Proof.
  intros V. inversion V as [ |t| | | | | | | |pre n0 da' sa' fcb payload cks e rest Hsh Hn El Er].
  - split; [reflexivity|]. exists t. reflexivity.
  - apply body_spec_accept in Er. destruct Er as (fc & dsap & ssap & pdu' & Et & _). discriminate.
Qed.

(* ------------------------------------------------------------- announced length *)

Lemma need_shape pre n da' sa' fcb payload cks e rest :
  data_shape pre n -> length payload = n ->
  need (pre ++ da' :: sa' :: fcb :: payload ++ cks :: e :: rest) = (length pre + n + 5)%nat.
Proof.
  intros Hsh Hn. revert Hn. destruct Hsh as [ | |n]; intros Hn; cbn [app]; unfold need; delim_eval; cbv iota.
  - reflexivity.
  - reflexivity.
  - destruct (Nat.ltb_spec (length (SD2 :: Z.of_nat (n + 3) :: Z.of_nat (n + 3) :: SD2 :: da' :: sa' :: fcb :: payload ++ cks :: e :: rest)) 6) as [H|_].
    { cbn [length] in H. lia. }
    cbn [nth length]. lia.
Qed.

Lemma shape_length (pre : bytes) n da' sa' fcb (payload : bytes) cks e (rest : bytes) :
  length payload = n ->
  length (pre ++ da' :: sa' :: fcb :: payload ++ cks :: e :: rest) = (length pre + n + 5 + length rest)%nat.
Proof. intros <-. rewrite app_length. cbn [length]. rewrite app_length. cbn [length]. lia. Qed.

(* NeedMore only when shorter than the announced length *)
Lemma needmore_short l : decode l = Ok NeedMore -> (length l < need l)%nat.
Proof.
  intros D. apply decode_view' in D.
  inversion D as [ | |t Ht| | |b0 t Hd Hl|t Hl| |b1 t Hb Hl Hs|pre n0 da' sa' fcb payload cks e rest Hsh Hn El Er].
  - cbn. lia.
  - unfold need. delim_eval. cbv iota. cbn [length]. lia.
  - destruct (is_data_delim_cases b0 Hd) as [->|[->| ->]]; unfold need; delim_eval; cbv iota; try lia.
    destruct (Nat.ltb_spec (length (SD2 :: t)) 6) as [_|Hq]; lia.
  - unfold need. delim_eval. cbv iota. lia.
  - unfold need. delim_eval. cbv iota.
    destruct (Nat.ltb_spec (length (SD2 :: b1 :: b1 :: SD2 :: t)) 6) as [Hq|_]; [cbn [length] in Hq; lia|].
    cbn [nth length]. lia.
  - exfalso. exact (body_spec_not_needmore _ _ _ _ _ _ _ Er).
Qed.

Lemma long_enough_decides l : (need l <= length l)%nat -> decode l <> Ok NeedMore.
Proof. intros H D. apply needmore_short in D. lia. Qed.

(* ------------------------------------------------------------- Accept lies inside the input *)

Definition pdu_offset (l : bytes) (h : header) : nat :=
  ((if (nth 0 l 0%Z =? SD2)%Z then 7 else 4) + has_sap (h_dsap h) + has_sap (h_ssap h))%nat.

Lemma sapl_length o : length (sapl o) = has_sap o.
Proof. destruct o; reflexivity. Qed.

Lemma accept_inside l t n : decode l = Ok (Accept t n) ->
  (n <= length l)%nat /\ n = need l /\
  match t with
  | TData h pdu =>
      (pdu_offset l h + length pdu + 2 = n)%nat /\ firstn (length pdu) (skipn (pdu_offset l h) l) = pdu
  | TToken da sa => n = 3%nat /\ firstn 3 l = [SD4; da; sa]
  | TShortConf => n = 1%nat /\ firstn 1 l = [SC]
  end.
Proof.
  intros D. apply decode_view' in D. destruct t as [h pdu|da sa| ].
  - apply view_accept_data in D.
    destruct D as (pre & da' & sa' & fcb & rest & Hsh & -> & -> & Hfc & _). cbv zeta in Hsh.
    set (payload := sapl (h_dsap h) ++ sapl (h_ssap h) ++ pdu) in *.
    rewrite (need_shape pre (length payload)) by (exact Hsh || reflexivity).
    rewrite (shape_length pre (length payload)) by reflexivity.
    split; [lia|]. split; [reflexivity|].
    assert (Hoff : pdu_offset (pre ++ da' :: sa' :: fcb :: payload ++ sum8 (da' :: sa' :: fcb :: payload) :: ED :: rest) h
                   = (length pre + 3 + has_sap (h_dsap h) + has_sap (h_ssap h))%nat).
    { unfold pdu_offset. destruct Hsh; cbn [app nth length]; delim_eval; cbv iota; lia. }
    rewrite Hoff. split.
    + subst payload. rewrite !app_length, !sapl_length. lia.
    + replace (pre ++ da' :: sa' :: fcb :: payload ++ sum8 (da' :: sa' :: fcb :: payload) :: ED :: rest)
        with ((pre ++ [da'; sa'; fcb] ++ sapl (h_dsap h) ++ sapl (h_ssap h)) ++ pdu ++ sum8 (da' :: sa' :: fcb :: payload) :: ED :: rest).
      2:{ subst payload. rewrite <- !app_assoc. cbn [app]. rewrite <- ?app_assoc. reflexivity. }
      rewrite skipn_app_exact by (rewrite !app_length, !sapl_length; cbn [length]; lia).
      apply firstn_app_exact. reflexivity.
  - apply view_accept_token in D. destruct D as (-> & t & ->). cbn [length firstn]. unfold need. delim_eval.
    repeat split; lia.
  - apply view_accept_sc in D. destruct D as (-> & t & ->). cbn [length firstn]. unfold need. delim_eval.
    repeat split; lia.
Qed.

(* ------------------------------------------------------------- prefix consistency *)

Lemma accept_stable l t n ext : decode l = Ok (Accept t n) -> decode (l ++ ext) = Ok (Accept t n).
Proof.
  intros D. apply decode_view' in D. apply view_decode.
  inversion D as [ |t0| |da sa t0| | | | | |pre n0 da' sa' fcb payload cks e rest Hsh Hn El Er].
  - cbn [app]. apply V_sc.
  - cbn [app]. apply V_tok.
  - rewrite <- app_assoc. cbn [app]. rewrite <- app_assoc. cbn [app]. rewrite Er.
    rewrite <- Er. apply V_body; assumption.
Qed.

Lemma reject_stable l ext : decode l = Ok Reject -> decode (l ++ ext) = Ok Reject.
Proof.
  intros D. apply decode_view' in D. apply view_decode.
  inversion D as [ | | | |b0 t Hd| | |b1 b2 b3 t Hl Hbad| |pre n0 da' sa' fcb payload cks e rest Hsh Hn El Er].
  - cbn [app]. apply V_nodelim, Hd.
  - cbn [app]. apply V_sd2_badhdr; [rewrite app_length; lia|exact Hbad].
  - rewrite <- app_assoc. cbn [app]. rewrite <- app_assoc. cbn [app]. rewrite Er.
    rewrite <- Er. apply V_body; assumption.
Qed.

(* every proper prefix of something the decoder accepts entirely is "need more" *)
Lemma proper_prefix_waits F t k :
  decode F = Ok (Accept t (length F)) -> (k < length F)%nat -> decode (firstn k F) = Ok NeedMore.
Proof.
  intros DF Hk. rewrite decode_is_spec. destruct (decode_spec (firstn k F)) as [ | |t' n'] eqn:E; [reflexivity| |].
  - assert (D : decode (firstn k F) = Ok Reject) by (rewrite decode_is_spec, E; reflexivity).
    apply (reject_stable _ (skipn k F)) in D. rewrite firstn_skipn in D. congruence.
  - assert (D : decode (firstn k F) = Ok (Accept t' n')) by (rewrite decode_is_spec, E; reflexivity).
    pose proof (accept_inside _ _ _ D) as (Hn & _). rewrite firstn_length in Hn.
    apply (accept_stable _ _ _ (skipn k F)) in D. rewrite firstn_skipn in D.
    rewrite DF in D. injection D as _ Hlen. lia.
Qed.

Lemma valid_prefix_waits_data h pdu k :
  wf_header h -> (length_byte h (length pdu) <= 249)%nat -> (k < length (frame_spec h pdu))%nat ->
  decode (firstn k (frame_spec h pdu)) = Ok NeedMore.
Proof.
  intros Hwf Hlb Hk. apply (proper_prefix_waits _ (TData h pdu)); [|exact Hk].
  pose proof (decode_data_frame h pdu [] Hwf Hlb) as D. rewrite app_nil_r in D.
  rewrite frame_spec_length. exact D.
Qed.

Lemma valid_prefix_waits_token da sa k : (k < 3)%nat -> decode (firstn k (encode_token da sa)) = Ok NeedMore.
Proof.
  intros Hk. apply (proper_prefix_waits _ (TToken da sa)); [|exact Hk].
  pose proof (decode_token_frame da sa []) as D. rewrite app_nil_r in D. exact D.
Qed.

Lemma valid_prefix_waits_sc k : (k < 1)%nat -> decode (firstn k encode_sc) = Ok NeedMore.
Proof.
  intros Hk. apply (proper_prefix_waits _ TShortConf); [|exact Hk].
  pose proof (decode_sc_frame []) as D. rewrite app_nil_r in D. exact D.
Qed.

(* ------------------------------------------------------------- the accept criterion *)

Lemma strip_split b : is_byte b ->
  0 <= strip b < 128 /\ b = strip b + (if negb (Z.land b 128 =? 0) then 128 else 0).
Proof.
  intros H.
  pose proof (sweep256 (fun b => (0 <=? strip b) && (strip b <? 128) &&
                                 (b =? strip b + (if negb (Z.land b 128 =? 0) then 128 else 0))) eq_refl b H) as S.
  cbv beta in S. apply andb_prop in S. destruct S as [S S3]. apply andb_prop in S. destruct S as [S1 S2].
  apply Z.leb_le in S1. apply Z.ltb_lt in S2. apply Z.eqb_eq in S3. split; [lia|exact S3].
Qed.

Definition raw_body (h : header) (fcbyte : Z) (pdu : bytes) : bytes :=
  [h_da h + ext_of (h_dsap h); h_sa h + ext_of (h_ssap h); fcbyte] ++ sapl (h_dsap h) ++ sapl (h_ssap h) ++ pdu.

Lemma frame_raw_unfold h fcbyte pdu :
  frame_raw h fcbyte pdu =
  (if Nat.eqb (length (raw_body h fcbyte pdu)) 3 then [SD1]
   else if Nat.eqb (length (raw_body h fcbyte pdu)) 11 then [SD3]
   else [SD2; Z.of_nat (length (raw_body h fcbyte pdu)); Z.of_nat (length (raw_body h fcbyte pdu)); SD2])
  ++ raw_body h fcbyte pdu ++ [sum8 (raw_body h fcbyte pdu); ED].
Proof. reflexivity. Qed.

Lemma frame_raw_sd2_unfold h fcbyte pdu :
  frame_raw_sd2 h fcbyte pdu =
  [SD2; Z.of_nat (length (raw_body h fcbyte pdu)); Z.of_nat (length (raw_body h fcbyte pdu)); SD2]
  ++ raw_body h fcbyte pdu ++ [sum8 (raw_body h fcbyte pdu); ED].
Proof. reflexivity. Qed.

Lemma raw_body_length h fcbyte pdu :
  length (raw_body h fcbyte pdu) = (length (sapl (h_dsap h) ++ sapl (h_ssap h) ++ pdu) + 3)%nat.
Proof. unfold raw_body. cbn [app length]. lia. Qed.

Lemma Forall_app_l {A} (P : A -> Prop) a b : Forall P (a ++ b) -> Forall P a.
Proof. intros H. apply Forall_app in H. tauto. Qed.
Lemma Forall_app_r {A} (P : A -> Prop) a b : Forall P (a ++ b) -> Forall P b.
Proof. intros H. apply Forall_app in H. tauto. Qed.

Lemma wf_sap_of_bytes o : all_bytes (sapl o) -> wf_sap o.
Proof. destruct o as [s|]; cbn; [|trivial]. intros H. inversion H. assumption. Qed.

Lemma accept_criterion l h pdu n :
  all_bytes l -> decode l = Ok (Accept (TData h pdu) n) ->
  wf_header h /\ all_bytes pdu /\
  exists fcbyte rest,
    fc_from_byte fcbyte = Some (h_fc h) /\ is_byte fcbyte /\
    ((nth 0 l 0 <> SD2 /\ l = frame_raw h fcbyte pdu ++ rest /\ n = length (frame_raw h fcbyte pdu)) \/
     (nth 0 l 0 = SD2 /\ l = frame_raw_sd2 h fcbyte pdu ++ rest /\ n = length (frame_raw_sd2 h fcbyte pdu))).
Proof.
  intros Hb D. apply decode_view' in D. apply view_accept_data in D.
  destruct D as (pre & da' & sa' & fcb & rest & Hsh & El & -> & Hfc & Hda & Hsa & Hd & Hs). cbv zeta in Hsh.
  set (payload := sapl (h_dsap h) ++ sapl (h_ssap h) ++ pdu) in *.
  assert (Hb2 : all_bytes (da' :: sa' :: fcb :: payload ++ sum8 (da' :: sa' :: fcb :: payload) :: ED :: rest)).
  { rewrite El in Hb. exact (Forall_app_r _ _ _ Hb). }
  pose proof (Forall_inv Hb2) as Bda. pose proof (Forall_inv (Forall_inv_tail Hb2)) as Bsa.
  pose proof (Forall_inv (Forall_inv_tail (Forall_inv_tail Hb2))) as Bfc.
  pose proof (Forall_inv_tail (Forall_inv_tail (Forall_inv_tail Hb2))) as Hb5.
  clear Hb2. apply Forall_app_l in Hb5.
  assert (Bd : all_bytes (sapl (h_dsap h))) by (exact (Forall_app_l _ _ _ Hb5)).
  assert (Bs : all_bytes (sapl (h_ssap h))) by (exact (Forall_app_l _ _ _ (Forall_app_r _ _ _ Hb5))).
  assert (Bp : all_bytes pdu) by (exact (Forall_app_r _ _ _ (Forall_app_r _ _ _ Hb5))).
  destruct (strip_split da' Bda) as (Rda & Eda). destruct (strip_split sa' Bsa) as (Rsa & Esa).
  rewrite <- Hda in *. rewrite <- Hsa in *. rewrite Hd in Eda. rewrite Hs in Esa.
  assert (Eda' : da' = h_da h + ext_of (h_dsap h)) by (rewrite Eda at 1; destruct (h_dsap h); reflexivity).
  assert (Esa' : sa' = h_sa h + ext_of (h_ssap h)) by (rewrite Esa at 1; destruct (h_ssap h); reflexivity).
  split; [|split; [exact Bp|]].
  { unfold wf_header, is_addr7. repeat split; try lia; apply wf_sap_of_bytes; assumption. }
  exists fcb, rest. split; [exact Hfc|]. split; [exact Bfc|].
  assert (Ebody : da' :: sa' :: fcb :: payload = raw_body h fcb pdu).
  { unfold raw_body. rewrite Eda', Esa'. reflexivity. }
  assert (Elen : length (raw_body h fcb pdu) = (length payload + 3)%nat) by apply raw_body_length.
  assert (El2 : l = pre ++ (raw_body h fcb pdu ++ [sum8 (raw_body h fcb pdu); ED]) ++ rest).
  { rewrite El. rewrite <- Ebody. cbn [app]. rewrite <- app_assoc. reflexivity. }
  clear El. revert El2. remember (length payload) as n0 eqn:En0.
  destruct Hsh as [ | |n1]; intros El2.
  - left. rewrite frame_raw_unfold, Elen. cbn [Nat.add Nat.eqb].
    split; [rewrite El2; cbn [app nth]; vm_compute; discriminate|].
    split; [rewrite El2, !app_assoc; reflexivity|].
    rewrite !app_length, Elen. cbn [length]. lia.
  - left. rewrite frame_raw_unfold, Elen. cbn [Nat.add Nat.eqb].
    split; [rewrite El2; cbn [app nth]; vm_compute; discriminate|].
    split; [rewrite El2, !app_assoc; reflexivity|].
    rewrite !app_length, Elen. cbn [length]. lia.
  - right. rewrite frame_raw_sd2_unfold, Elen.
    split; [rewrite El2; reflexivity|].
    split; [rewrite El2, !app_assoc; reflexivity|].
    rewrite !app_length, Elen. cbn [length]. lia.
Qed.

(* ------------------------------------------------------------- the extracted oracle agrees *)

Lemma bytes_eqb_refl a : bytes_eqb a a = true.
Proof. induction a as [|x a IH]; cbn [bytes_eqb]; [reflexivity|]. rewrite Z.eqb_refl, IH. reflexivity. Qed.

Lemma is_byteb_of b : is_byte b -> is_byteb b = true.
Proof. unfold is_byte, is_byteb. intros H. apply andb_true_intro. split; [apply Z.leb_le|apply Z.ltb_lt]; lia. Qed.

Lemma all_bytesb_of l : all_bytes l -> all_bytesb l = true.
Proof. intros H. apply forallb_forall. intros x Hx. apply is_byteb_of. exact (proj1 (Forall_forall _ _) H x Hx). Qed.

Lemma wf_headerb_of h : wf_header h -> wf_headerb h = true.
Proof.
  intros (Hda & Hsa & Hd & Hs). unfold is_addr7 in *. unfold wf_headerb.
  repeat (apply andb_true_intro; split); try (apply Z.leb_le; lia); try (apply Z.ltb_lt; lia).
  - destruct (h_dsap h); [apply is_byteb_of, Hd|reflexivity].
  - destruct (h_ssap h); [apply is_byteb_of, Hs|reflexivity].
Qed.

Lemma dec_oracle_ok l r : all_bytes l -> decode l = Ok r -> c10_dec_ok l (Some r) = true.
Proof.
  intros Hb D. destruct r as [ | |t n]; cbn [c10_dec_ok].
  - apply Nat.ltb_lt, needmore_short, D.
  - reflexivity.
  - pose proof (accept_inside l t n D) as (Hn & Hneed & Ht).
    apply andb_true_intro. split; [|apply Nat.eqb_eq, Hneed].
    unfold accept_ok. apply andb_true_intro. split; [apply Nat.leb_le, Hn|].
    destruct t as [h pdu|da sa| ].
    + destruct (accept_criterion l h pdu n Hb D) as (Hwf & Hp & fcbyte & rest & Hfc & _ & Hcase).
      rewrite (wf_headerb_of h Hwf), (all_bytesb_of pdu Hp). cbn [andb].
      destruct Hcase as [(Hsd & El & En)|(Hsd & El & En)].
      * destruct (Z.eqb_spec (nth 0 l 0) SD2) as [E|_]; [contradiction|].
        assert (Efc : nth 3 l 0 = fcbyte).
        { rewrite El, frame_raw_unfold. rewrite El, frame_raw_unfold in Hsd.
          destruct (Nat.eqb (length (raw_body h fcbyte pdu)) 3); [reflexivity|].
          destruct (Nat.eqb (length (raw_body h fcbyte pdu)) 11); [reflexivity|].
          exfalso. apply Hsd. reflexivity. }
        rewrite Efc, Hfc. unfold fcode_eqb. rewrite Z.eqb_refl. cbn [andb].
        rewrite El at 1. rewrite firstn_app_exact by exact En. apply bytes_eqb_refl.
      * rewrite Hsd, Z.eqb_refl.
        assert (Efc : nth 6 l 0 = fcbyte) by (rewrite El, frame_raw_sd2_unfold; reflexivity).
        rewrite Efc, Hfc. unfold fcode_eqb. rewrite Z.eqb_refl. cbn [andb].
        rewrite El at 1. rewrite firstn_app_exact by exact En. apply bytes_eqb_refl.
    + destruct Ht as (-> & ->). cbn [Nat.eqb andb]. apply bytes_eqb_refl.
    + destruct Ht as (-> & ->). cbn [Nat.eqb andb]. apply bytes_eqb_refl.
Qed.

(* ------------------------------------------------------------- single-byte corruption *)

Lemma frame_spec_shape h pdu :
  exists pre da' sa' fcb payload,
    data_shape pre (length payload) /\
    frame_spec h pdu = pre ++ (da' :: sa' :: fcb :: payload) ++ [sum8 (da' :: sa' :: fcb :: payload); ED].
Proof.
  unfold frame_spec.
  assert (B : exists da' sa' fcb payload, frame_body h pdu = da' :: sa' :: fcb :: payload).
  { unfold frame_body. cbn [app]. eauto. }
  destruct B as (da' & sa' & fcb & payload & ->). cbn [length].
  destruct (Nat.eqb_spec (S (S (S (length payload)))) 3) as [E3|E3];
    [|destruct (Nat.eqb_spec (S (S (S (length payload)))) 11) as [E11|E11]].
  - exists [SD1], da', sa', fcb, payload. split; [|reflexivity].
    replace (length payload) with 0%nat by lia. constructor.
  - exists [SD3], da', sa', fcb, payload. split; [|reflexivity].
    replace (length payload) with 8%nat by lia. constructor.
  - exists [SD2; Z.of_nat (length payload + 3); Z.of_nat (length payload + 3); SD2], da', sa', fcb, payload.
    split; [constructor|]. replace (S (S (S (length payload)))) with (length payload + 3)%nat by lia. reflexivity.
Qed.

Lemma subst_body3 a b c (p : bytes) i v : (i < length (a :: b :: c :: p))%nat ->
  exists a' b' c' p', subst (a :: b :: c :: p) i v = a' :: b' :: c' :: p' /\ length p' = length p.
Proof.
  intros H. destruct i as [|[|[|i]]].
  - exists v, b, c, p. split; reflexivity.
  - exists a, v, c, p. split; reflexivity.
  - exists a, b, v, p. split; reflexivity.
  - exists a, b, c, (subst p i v). rewrite !subst_cons_S. split; [reflexivity|].
    apply subst_length. cbn [length] in H. lia.
Qed.

Lemma shape_single_byte pre da' sa' fcb payload pos v :
  data_shape pre (length payload) ->
  let body := da' :: sa' :: fcb :: payload in
  let F := pre ++ body ++ [sum8 body; ED] in
  (pos < length F)%nat -> is_byte (nth pos F 0) -> is_byte v -> v <> nth pos F 0 ->
  (pos = 0%nat -> is_delim v = false) ->
  decode_spec (subst F pos v) = Reject.
Proof.
  intros Hsh body F Hpos Hx Hv Hne Hdel. subst F.
  rewrite !app_length in Hpos. cbn [length] in Hpos.
  destruct (Nat.ltb_spec pos (length pre)) as [Hp|Hp].
  - (* inside the start of the frame *)
    rewrite app_nth1 in Hne by exact Hp. rewrite subst_app_l by exact Hp.
    remember (length payload) as n eqn:En. revert En Hp Hne.
    destruct Hsh as [ | |n]; intros En Hp Hne; cbn [length] in Hp.
    + assert (pos = 0%nat) by lia. subst pos. rewrite subst_cons_0. cbn [app].
      apply view_sound, V_nodelim, Hdel. reflexivity.
    + assert (pos = 0%nat) by lia. subst pos. rewrite subst_cons_0. cbn [app].
      apply view_sound, V_nodelim, Hdel. reflexivity.
    + assert (L2 : (2 <= length (body ++ [sum8 body; ED]))%nat) by (rewrite app_length; cbn [length]; lia).
      destruct pos as [|[|[|[|pos]]]]; [| | | |lia].
      * rewrite subst_cons_0. cbn [app]. apply view_sound, V_nodelim, Hdel. reflexivity.
      * cbn [nth] in Hne. change (subst [SD2; Z.of_nat (n + 3); Z.of_nat (n + 3); SD2] 1 v)
          with [SD2; v; Z.of_nat (n + 3); SD2]. cbn [app].
        apply view_sound, V_sd2_badhdr; [exact L2|left; exact Hne].
      * cbn [nth] in Hne. change (subst [SD2; Z.of_nat (n + 3); Z.of_nat (n + 3); SD2] 2 v)
          with [SD2; Z.of_nat (n + 3); v; SD2]. cbn [app].
        apply view_sound, V_sd2_badhdr; [exact L2|left; congruence].
      * cbn [nth] in Hne. change (subst [SD2; Z.of_nat (n + 3); Z.of_nat (n + 3); SD2] 3 v)
          with [SD2; Z.of_nat (n + 3); Z.of_nat (n + 3); v]. cbn [app].
        apply view_sound, V_sd2_badhdr; [exact L2|right; left; exact Hne].
  - rewrite app_nth2 in Hne, Hx by exact Hp. rewrite subst_app_r by exact Hp.
    set (i := (pos - length pre)%nat) in *.
    destruct (Nat.ltb_spec i (length body)) as [Hi|Hi].
    + (* a checksummed byte *)
      rewrite app_nth1 in Hne, Hx by exact Hi. rewrite subst_app_l by exact Hi.
      pose proof (sum8_single_change body i v Hi Hx Hv Hne) as Hcs.
      destruct (subst_body3 da' sa' fcb payload i v Hi) as (a2 & b2 & c2 & p2 & Es & Hl2).
      fold body in Es. rewrite Es in *. cbn [app].
      rewrite (view_sound _ _ (V_body pre (length payload) a2 b2 c2 p2 (sum8 body) ED [] Hsh Hl2)).
      apply body_spec_bad_checksum. congruence.
    + rewrite app_nth2 in Hne by exact Hi. rewrite subst_app_r by exact Hi.
      assert (Hi2 : (i - length body = 0 \/ i - length body = 1)%nat) by (subst i; cbn [length] in *; lia).
      destruct Hi2 as [E|E]; rewrite E in *; cbn [nth] in Hne.
      * change (subst [sum8 body; ED] 0 v) with [v; ED]. subst body. cbn [app].
        rewrite (view_sound _ _ (V_body pre (length payload) da' sa' fcb payload v ED [] Hsh eq_refl)).
        apply body_spec_bad_checksum. exact Hne.
      * change (subst [sum8 body; ED] 1 v) with [sum8 body; v]. subst body. cbn [app].
        rewrite (view_sound _ _ (V_body pre (length payload) da' sa' fcb payload _ v [] Hsh eq_refl)).
        apply body_spec_bad_ed. exact Hne.
Qed.

Lemma delims_are_bytes : is_byte SD1 /\ is_byte SD2 /\ is_byte SD3 /\ is_byte SD4 /\ is_byte SC /\ is_byte ED.
Proof. unfold is_byte. vm_compute. repeat split; congruence. Qed.

Lemma frame_spec_all_bytes h pdu :
  wf_header h -> all_bytes pdu -> (length_byte h (length pdu) <= 249)%nat -> all_bytes (frame_spec h pdu).
Proof.
  intros (Hda & Hsa & Hd & Hs) Hp Hlb. unfold is_addr7 in *.
  destruct delims_are_bytes as (B1 & B2 & B3 & _ & _ & BE).
  assert (HB : all_bytes (frame_body h pdu)).
  { unfold frame_body. apply Forall_app. split; [|apply Forall_app; split; [|apply Forall_app; split; [|exact Hp]]].
    - constructor; [|constructor; [|constructor; [|constructor]]].
      + unfold is_byte. destruct (h_dsap h); lia.
      + unfold is_byte. destruct (h_ssap h); lia.
      + apply fc_to_byte_range.
    - destruct (h_dsap h); [constructor; [exact Hd|constructor]|constructor].
    - destruct (h_ssap h); [constructor; [exact Hs|constructor]|constructor]. }
  unfold frame_spec. rewrite frame_body_length.
  apply Forall_app. split; [|apply Forall_app; split; [exact HB|]].
  - destruct (Nat.eqb _ 3); [constructor; [exact B1|constructor]|].
    destruct (Nat.eqb _ 11); [constructor; [exact B3|constructor]|].
    constructor; [exact B2|constructor; [unfold is_byte; lia|constructor; [unfold is_byte; lia|constructor; [exact B2|constructor]]]].
  - constructor; [apply sum8_range|constructor; [exact BE|constructor]].
Qed.

Lemma all_bytes_nth l pos : all_bytes l -> (pos < length l)%nat -> is_byte (nth pos l 0).
Proof. intros H Hp. exact (proj1 (Forall_nth _ _) H pos 0 Hp). Qed.

Lemma single_byte_data h pdu pos v :
  wf_header h -> all_bytes pdu -> (length_byte h (length pdu) <= 249)%nat ->
  (pos < length (frame_spec h pdu))%nat -> is_byte v -> v <> nth pos (frame_spec h pdu) 0 ->
  ~ (pos = 0%nat /\ is_delim v = true) ->
  decode (subst (frame_spec h pdu) pos v) = Ok Reject.
Proof.
  intros Hwf Hp Hlb Hpos Hv Hne Hex.
  pose proof (all_bytes_nth _ pos (frame_spec_all_bytes h pdu Hwf Hp Hlb) Hpos) as Hx.
  destruct (frame_spec_shape h pdu) as (pre & da' & sa' & fcb & payload & Hsh & EF).
  rewrite EF in *. rewrite decode_is_spec. f_equal.
  apply shape_single_byte; try assumption.
  intros ->. destruct (is_delim v); [exfalso; apply Hex; auto|reflexivity].
Qed.

Lemma single_byte_sc pos v :
  (pos < length encode_sc)%nat -> v <> nth pos encode_sc 0 -> ~ (pos = 0%nat /\ is_delim v = true) ->
  decode (subst encode_sc pos v) = Ok Reject.
Proof.
  unfold encode_sc. cbn [length]. intros Hpos Hne Hex. assert (pos = 0%nat) by lia. subst pos.
  rewrite subst_cons_0. apply view_decode, V_nodelim.
  destruct (is_delim v); [exfalso; apply Hex; auto|reflexivity].
Qed.

(* ------------------------------------------------------------- single-bit errors *)

Lemma in_bit_positions k : 0 <= k < 8 -> In k bit_positions.
Proof. intros H. unfold bit_positions. cbn [In]. lia. Qed.

Lemma is_delim_in d : is_delim d = true -> In d delims.
Proof.
  unfold is_delim, delims. cbn [In]. intros H.
  destruct (Z.eqb_spec d SD1); [auto|]. destruct (Z.eqb_spec d SD2); [auto|]. destruct (Z.eqb_spec d SD3); [auto|].
  destruct (Z.eqb_spec d SD4); [auto|]. destruct (Z.eqb_spec d SC); [auto 6|]. discriminate.
Qed.

(* the regenerated start delimiters and SC are pairwise at Hamming distance >= 4 *)
Lemma delims_distance a b : In a delims -> In b delims -> a <> b -> (4 <= hamming a b)%nat.
Proof.
  assert (C : forallb (fun a => forallb (fun b => (a =? b) || Nat.leb 4 (hamming a b)) delims) delims = true)
    by (vm_compute; reflexivity).
  intros Ha Hb Hne. rewrite forallb_forall in C. specialize (C a Ha). rewrite forallb_forall in C. specialize (C b Hb).
  apply orb_prop in C. destruct C as [C|C]; [apply Z.eqb_eq in C; contradiction|apply Nat.leb_le, C].
Qed.

Lemma flip_byte x k : is_byte x -> 0 <= k < 8 -> is_byte (Z.lxor x (2 ^ k)) /\ Z.lxor x (2 ^ k) <> x.
Proof.
  intros Hx Hk.
  pose proof (sweep256 (fun x => forallb (fun k => is_byteb (Z.lxor x (2 ^ k)) && negb (Z.lxor x (2 ^ k) =? x)) bit_positions)
                       eq_refl x Hx) as S.
  cbv beta in S. rewrite forallb_forall in S. specialize (S k (in_bit_positions k Hk)).
  apply andb_prop in S. destruct S as [S1 S2]. unfold is_byteb in S1. apply andb_prop in S1. destruct S1 as [S1 S1'].
  apply Z.leb_le in S1. apply Z.ltb_lt in S1'. apply negb_true_iff, Z.eqb_neq in S2. unfold is_byte. split; [lia|exact S2].
Qed.

Lemma hamming_flip x k : 0 <= k < 8 -> hamming x (Z.lxor x (2 ^ k)) = 1%nat.
Proof.
  intros Hk. unfold hamming. rewrite <- Z.lxor_assoc, Z.lxor_nilpotent, Z.lxor_0_l.
  assert (K : k = 0 \/ k = 1 \/ k = 2 \/ k = 3 \/ k = 4 \/ k = 5 \/ k = 6 \/ k = 7) by lia.
  destruct K as [->|[->|[->|[->|[->|[->|[->| ->]]]]]]]; reflexivity.
Qed.

(* hence a single-bit error never turns one delimiter into another *)
Lemma delim_flip d k : is_delim d = true -> 0 <= k < 8 -> is_delim (Z.lxor d (2 ^ k)) = false.
Proof.
  intros Hd Hk. destruct (is_delim (Z.lxor d (2 ^ k))) eqn:E; [exfalso|reflexivity].
  apply is_delim_in in Hd. apply is_delim_in in E.
  assert (Bd : is_byte d).
  { destruct delims_are_bytes as (B1 & B2 & B3 & B4 & B5 & _). unfold delims in Hd. cbn [In] in Hd.
    destruct Hd as [<-|[<-|[<-|[<-|[<-|[]]]]]]; assumption. }
  destruct (flip_byte d k Bd Hk) as (_ & Hne).
  pose proof (delims_distance d _ Hd E (fun H => Hne (eq_sym H))) as D. rewrite hamming_flip in D by exact Hk. lia.
Qed.

Lemma frame_spec_first_delim h pdu : is_delim (nth 0 (frame_spec h pdu) 0) = true.
Proof.
  unfold frame_spec. destruct (Nat.eqb _ 3); [reflexivity|]. destruct (Nat.eqb _ 11); reflexivity.
Qed.

Lemma single_bit_data h pdu pos k :
  wf_header h -> all_bytes pdu -> (length_byte h (length pdu) <= 249)%nat ->
  (pos < length (frame_spec h pdu))%nat -> 0 <= k < 8 ->
  decode (subst (frame_spec h pdu) pos (Z.lxor (nth pos (frame_spec h pdu) 0) (2 ^ k))) = Ok Reject.
Proof.
  intros Hwf Hp Hlb Hpos Hk.
  pose proof (all_bytes_nth _ pos (frame_spec_all_bytes h pdu Hwf Hp Hlb) Hpos) as Hx.
  destruct (flip_byte _ k Hx Hk) as (Hv & Hne).
  apply single_byte_data; try assumption.
  intros (-> & Hd). rewrite delim_flip in Hd; [discriminate|apply frame_spec_first_delim|exact Hk].
Qed.

Lemma single_bit_sc pos k :
  (pos < length encode_sc)%nat -> 0 <= k < 8 ->
  decode (subst encode_sc pos (Z.lxor (nth pos encode_sc 0) (2 ^ k))) = Ok Reject.
Proof.
  intros Hpos Hk. assert (pos = 0%nat) by (cbn in Hpos; lia). subst pos.
  destruct delims_are_bytes as (_ & _ & _ & _ & B5 & _).
  destruct (flip_byte SC k B5 Hk) as (Hv & Hne).
  apply single_byte_sc; [exact Hpos|exact Hne|].
  intros (_ & Hd). cbn [encode_sc nth] in Hd. rewrite delim_flip in Hd; [discriminate|reflexivity|exact Hk].
Qed.

(* ------------------------------------------------------------- the excluded case is real, and the only one *)

Lemma accepted_mutation_is_delimiter_swap h pdu pos v t n :
  wf_header h -> all_bytes pdu -> (length_byte h (length pdu) <= 249)%nat ->
  (pos < length (frame_spec h pdu))%nat -> is_byte v -> v <> nth pos (frame_spec h pdu) 0 ->
  decode (subst (frame_spec h pdu) pos v) = Ok (Accept t n) -> pos = 0%nat /\ is_delim v = true.
Proof.
  intros Hwf Hp Hlb Hpos Hv Hne D.
  destruct (Nat.eq_dec pos 0) as [E|E]; [destruct (is_delim v) eqn:Ed; [auto|]|];
    rewrite single_byte_data in D; try assumption; try discriminate.
  - intros (_ & H). congruence.
  - intros (H & _). contradiction.
Qed.

Definition swap_witness_h : header := mkHeader 5 2 None None (FcRequest FcbHigh RqSrdLow).

Lemma delimiter_swap_witness :
  wf_header swap_witness_h /\ all_bytes [] /\ (length_byte swap_witness_h (length (@nil Z)) <= 249)%nat /\
  is_byte SD4 /\ SD4 <> nth 0 (frame_spec swap_witness_h []) 0 /\ is_delim SD4 = true /\
  decode (subst (frame_spec swap_witness_h []) 0 SD4) = Ok (Accept (TToken 5 2) 3).
Proof.
  split; [unfold wf_header, is_addr7, wf_sap; cbn; lia|]. split; [constructor|].
  split; [apply Nat.leb_le; vm_compute; reflexivity|].
  split; [apply delims_are_bytes|]. split; [vm_compute; discriminate|]. split; vm_compute; reflexivity.
Qed.

Lemma mut_oracle_ok h pdu pos v r :
  wf_header h -> all_bytes pdu -> (length_byte h (length pdu) <= 249)%nat ->
  (pos < length (frame_spec h pdu))%nat -> is_byte v -> v <> nth pos (frame_spec h pdu) 0 ->
  decode (subst (frame_spec h pdu) pos v) = Ok r -> c10_mut_ok (frame_spec h pdu) pos v (Some r) = true.
Proof.
  intros Hwf Hp Hlb Hpos Hv Hne D. destruct r as [ | |t n]; cbn [c10_mut_ok]; try reflexivity.
  destruct (accepted_mutation_is_delimiter_swap h pdu pos v t n Hwf Hp Hlb Hpos Hv Hne D) as (-> & ->). reflexivity.
Qed.
