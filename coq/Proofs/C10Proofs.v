(* Proofs for C10: the decoder is total, prefix-consistent and never mis-accepts damaged frames.
   Everything is built on DecodeSpec.decode_is_spec (decode l = Ok (decode_spec l)). *)
From PB Require Import Common Telegram CodecOracle ByteFacts DecodeSpec C09Proofs.

(* ------------------------------------------------------------- small list facts *)

Lemma app_cons_assoc {A} (a : list A) x b c : (a ++ x :: b) ++ c = a ++ x :: b ++ c.
Proof. rewrite <- app_assoc. reflexivity. Qed.

Lemma subst_length l pos v : (pos < length l)%nat -> length (subst l pos v) = length l.
Proof.
  intros H. unfold subst. rewrite app_length, firstn_length. cbn [length]. rewrite skipn_length. lia.
Qed.

Lemma subst_app_l a b pos v : (pos < length a)%nat -> subst (a ++ b) pos v = subst a pos v ++ b.
Proof.
  intros H. unfold subst. rewrite firstn_app, skipn_app.
  replace (pos - length a)%nat with 0%nat by lia. replace (S pos - length a)%nat with 0%nat by lia.
  cbn [firstn skipn]. rewrite app_nil_r. rewrite app_cons_assoc. reflexivity.
Qed.

Lemma subst_app_r a b pos v : (length a <= pos)%nat -> subst (a ++ b) pos v = a ++ subst b (pos - length a) v.
Proof.
  intros H. unfold subst. rewrite firstn_app, skipn_app.
  rewrite firstn_all2 by lia. rewrite skipn_all2 by lia.
  replace (S pos - length a)%nat with (S (pos - length a)) by lia.
  cbn [app]. rewrite <- app_assoc. reflexivity.
Qed.

Lemma subst_cons_S x l pos v : subst (x :: l) (S pos) v = x :: subst l pos v.
Proof. reflexivity. Qed.

Lemma subst_cons_0 x l v : subst (x :: l) 0 v = v :: l.
Proof. reflexivity. Qed.

(* ------------------------------------------------------------- checksum: sum8 = sum mod 256 *)

Definition lsum (l : bytes) : Z := fold_right Z.add 0 l.

Lemma sum8_acc l : forall a, fold_left (fun acc b => (acc + b) mod 256) l (a mod 256) = (a + lsum l) mod 256.
Proof.
  induction l as [|x l IH]; intros a; cbn [fold_left lsum fold_right].
  - rewrite Z.add_0_r. reflexivity.
  - fold (lsum l). rewrite IH. rewrite <- Z.add_assoc, Zplus_mod_idemp_l. reflexivity.
Qed.

Lemma sum8_is_sum_mod l : sum8 l = lsum l mod 256.
Proof. unfold sum8. change 0 with (0 mod 256) at 1. rewrite sum8_acc. reflexivity. Qed.

Lemma lsum_subst l : forall pos v, (pos < length l)%nat -> lsum (subst l pos v) = lsum l - nth pos l 0 + v.
Proof.
  induction l as [|x l IH]; intros pos v H; [cbn in H; lia|].
  destruct pos as [|pos].
  - rewrite subst_cons_0. cbn [lsum fold_right nth]. lia.
  - rewrite subst_cons_S. cbn [lsum fold_right nth]. fold (lsum (subst l pos v)). fold (lsum l).
    rewrite IH by (cbn in H; lia). lia.
Qed.

(* the key fact: one changed byte changes the checksum *)
Lemma sum8_single_change l pos v :
  (pos < length l)%nat -> is_byte (nth pos l 0) -> is_byte v -> v <> nth pos l 0 ->
  sum8 (subst l pos v) <> sum8 l.
Proof.
  unfold is_byte. intros Hp Hx Hv Hne E. rewrite !sum8_is_sum_mod, lsum_subst in E by exact Hp.
  set (S := lsum l) in *. set (x := nth pos l 0) in *.
  assert (D : (S - x + v - S) mod 256 = 0).
  { rewrite Zminus_mod, E, Z.sub_diag. reflexivity. }
  apply Z.mod_divide in D; [|lia]. destruct D as [q Hq]. lia.
Qed.

(* ------------------------------------------------------------- the shape of decoder inputs *)

Definition is_data_delim (b : Z) : bool := (b =? SD1) || (b =? SD2) || (b =? SD3).

(* start of a data frame and the number of bytes between FC and FCS it announces *)
Inductive data_shape : bytes -> nat -> Prop :=
| DS1 : data_shape [SD1] 0
| DS3 : data_shape [SD3] 8
| DS2 n : data_shape [SD2; Z.of_nat (n + 3); Z.of_nat (n + 3); SD2] n.

(* a complete case analysis of byte strings, each with the decoder's verdict *)
Inductive view : bytes -> dres -> Prop :=
| V_nil : view [] NeedMore
| V_sc t : view (SC :: t) (Accept TShortConf 1)
| V_tok_short t : (length t < 2)%nat -> view (SD4 :: t) NeedMore
| V_tok da sa t : view (SD4 :: da :: sa :: t) (Accept (TToken da sa) 3)
| V_nodelim b0 t : is_delim b0 = false -> view (b0 :: t) Reject
| V_short6 b0 t : is_data_delim b0 = true -> (length (b0 :: t) < 6)%nat -> view (b0 :: t) NeedMore
| V_sd3_short t : (6 <= length (SD3 :: t) < 14)%nat -> view (SD3 :: t) NeedMore
| V_sd2_badhdr b1 b2 b3 t : (2 <= length t)%nat -> (b1 <> b2 \/ b3 <> SD2 \/ b1 < 3) ->
    view (SD2 :: b1 :: b2 :: b3 :: t) Reject
| V_sd2_short b1 t : 3 <= b1 -> (2 <= length t)%nat -> (length t + 4 < Z.to_nat b1 + 6)%nat ->
    view (SD2 :: b1 :: b1 :: SD2 :: t) NeedMore
| V_body pre n da' sa' fcb payload cks e rest : data_shape pre n -> length payload = n ->
    view (pre ++ da' :: sa' :: fcb :: payload ++ cks :: e :: rest)
         (body_spec da' sa' fcb payload cks e (length pre + n + 5)).

Lemma body_of_shape x da' sa' fcb payload cks e rest bl :
  body_of (x :: da' :: sa' :: fcb :: payload ++ cks :: e :: rest) (length payload) bl =
  body_spec da' sa' fcb payload cks e bl.
Proof.
  pose proof (decode_body_long (x :: da' :: sa' :: fcb :: payload ++ cks :: e :: rest) (length payload) bl) as L.
  rewrite decode_body_spec in L.
  assert (Hl : (length payload + 6 <= length (x :: da' :: sa' :: fcb :: payload ++ cks :: e :: rest))%nat).
  { cbn [length]. rewrite app_length. cbn [length]. lia. }
  specialize (L Hl). injection L as L. symmetry. exact L.
Qed.

Lemma is_delim_false b : is_delim b = false ->
  (b =? SD1) = false /\ (b =? SD2) = false /\ (b =? SD3) = false /\ (b =? SD4) = false /\ (b =? SC) = false.
Proof.
  unfold is_delim. intros H.
  destruct (b =? SD1), (b =? SD2), (b =? SD3), (b =? SD4), (b =? SC); cbn in H; try discriminate; auto.
Qed.

Lemma is_data_delim_cases b : is_data_delim b = true -> b = SD1 \/ b = SD2 \/ b = SD3.
Proof.
  unfold is_data_delim. intros H.
  destruct (Z.eqb_spec b SD1); [auto|]. destruct (Z.eqb_spec b SD2); [auto|]. destruct (Z.eqb_spec b SD3); [auto|].
  discriminate.
Qed.

(* soundness: the verdict attached to each shape is what the decoder computes *)
Lemma view_sound l r : view l r -> decode_spec l = r.
Proof.
  intros V. destruct V as [ |t|t Ht|da sa t|b0 t Hd|b0 t Hd Hl|t Hl|b1 b2 b3 t Hl Hbad|b1 t Hb Hl Hs
                           |pre n da' sa' fcb payload cks e rest Hsh Hn].
  - reflexivity.
  - unfold decode_spec. delim_eval. reflexivity.
  - unfold decode_spec. delim_eval. cbv iota.
    destruct (Nat.ltb_spec (length (SD4 :: t)) 3) as [_|H]; [reflexivity|cbn [length] in H; lia].
  - unfold decode_spec. delim_eval. cbv iota. reflexivity.
  - destruct (is_delim_false b0 Hd) as (E1 & E2 & E3 & E4 & E5).
    unfold decode_spec. rewrite E1, E2, E3, E4, E5. reflexivity.
  - destruct (is_data_delim_cases b0 Hd) as [->|[->| ->]]; unfold decode_spec; delim_eval; cbn [orb]; cbv iota;
      (match goal with |- context [Nat.ltb ?a 6] => destruct (Nat.ltb_spec a 6) as [_|H]; [reflexivity|lia] end).
  - unfold decode_spec. delim_eval. cbn [orb]. cbv iota.
    destruct (Nat.ltb_spec (length (SD3 :: t)) 6) as [H|_]; [lia|].
    destruct t as [|b1 [|b2 [|b3 t]]]; cbn [length] in Hl; try lia.
    unfold header_spec. delim_eval. cbv iota.
    destruct (Nat.ltb_spec (length (SD3 :: b1 :: b2 :: b3 :: t)) (8 + 6)) as [_|H]; [reflexivity|cbn [length] in *; lia].
  - unfold decode_spec. delim_eval. cbn [orb]. cbv iota.
    destruct (Nat.ltb_spec (length (SD2 :: b1 :: b2 :: b3 :: t)) 6) as [H|_]; [cbn [length] in H; lia|].
    unfold header_spec. delim_eval. cbv iota.
    destruct (Z.eqb_spec b1 b2) as [E12|E12]; cbn [negb]; [|reflexivity].
    destruct (Z.eqb_spec b3 SD2) as [E3|E3]; cbn [negb]; [|reflexivity].
    destruct (Z.ltb_spec b1 3) as [E1|E1]; [reflexivity|].
    exfalso. destruct Hbad as [Hbad|[Hbad|Hbad]]; [exact (Hbad E12)|exact (Hbad E3)|lia].
  - unfold decode_spec. delim_eval. cbn [orb]. cbv iota.
    destruct (Nat.ltb_spec (length (SD2 :: b1 :: b1 :: SD2 :: t)) 6) as [H|_]; [cbn [length] in H; lia|].
    unfold header_spec. delim_eval. cbv iota. rewrite Z.eqb_refl. cbn [negb].
    destruct (Z.ltb_spec b1 3) as [E1|_]; [lia|].
    cbn [skipn].
    destruct (Nat.ltb_spec (length (SD2 :: t)) (Z.to_nat (b1 - 3) + 6)) as [_|H]; [reflexivity|].
    cbn [length] in H. lia.
  - revert Hn. destruct Hsh as [ | |n]; intros Hn.
    + destruct payload as [|? ?]; [|discriminate]. cbn [app length Nat.add].
      unfold decode_spec. delim_eval. cbn [orb]. cbv iota.
      destruct (Nat.ltb_spec (length (SD1 :: da' :: sa' :: fcb :: cks :: e :: rest)) 6) as [H|_]; [cbn [length] in H; lia|].
      unfold header_spec. delim_eval. cbv iota.
      destruct (Nat.ltb_spec (length (SD1 :: da' :: sa' :: fcb :: cks :: e :: rest)) (0 + 6)) as [H|_]; [cbn [length] in H; lia|].
      apply (body_of_shape SD1 da' sa' fcb [] cks e rest 6).
    + cbn [app length Nat.add].
      unfold decode_spec. delim_eval. cbn [orb]. cbv iota.
      assert (HL : length (SD3 :: da' :: sa' :: fcb :: payload ++ cks :: e :: rest) = (length rest + 14)%nat).
      { cbn [length]. rewrite app_length. cbn [length]. lia. }
      destruct (Nat.ltb_spec (length (SD3 :: da' :: sa' :: fcb :: payload ++ cks :: e :: rest)) 6) as [H|_]; [lia|].
      unfold header_spec. delim_eval. cbv iota.
      destruct (Nat.ltb_spec (length (SD3 :: da' :: sa' :: fcb :: payload ++ cks :: e :: rest)) (8 + 6)) as [H|_]; [lia|].
      rewrite <- Hn. apply body_of_shape.
    + subst n. cbn [app length].
      unfold decode_spec. delim_eval. cbn [orb]. cbv iota.
      assert (HL : length (SD2 :: Z.of_nat (length payload + 3) :: Z.of_nat (length payload + 3) :: SD2
                          :: da' :: sa' :: fcb :: payload ++ cks :: e :: rest) = (length payload + length rest + 9)%nat).
      { cbn [length]. rewrite app_length. cbn [length]. lia. }
      destruct (Nat.ltb_spec (length (SD2 :: Z.of_nat (length payload + 3) :: Z.of_nat (length payload + 3) :: SD2
                          :: da' :: sa' :: fcb :: payload ++ cks :: e :: rest)) 6) as [H|_]; [lia|].
      unfold header_spec. delim_eval. cbv iota. rewrite Z.eqb_refl. cbn [negb].
      destruct (Z.ltb_spec (Z.of_nat (length payload + 3)) 3) as [E1|_]; [lia|].
      cbn [skipn].
      replace (Z.to_nat (Z.of_nat (length payload + 3) - 3)) with (length payload) by lia.
      replace (Z.to_nat (Z.of_nat (length payload + 3)) + 6)%nat with (4 + length payload + 5)%nat by lia.
      destruct (Nat.ltb_spec (length (SD2 :: da' :: sa' :: fcb :: payload ++ cks :: e :: rest)) (length payload + 6)) as [H|_].
      { cbn [length] in H. rewrite app_length in H. cbn [length] in H. lia. }
      apply body_of_shape.
Qed.

(* completeness: every byte string has one of the shapes *)
Lemma length_lt2 {A} (t : list A) : (length t < 2)%nat \/ exists a b t', t = a :: b :: t'.
Proof. destruct t as [|a [|b t']]; cbn [length]; [left; lia|left; lia|right; eauto]. Qed.

Lemma is_data_delim_is_delim b : is_data_delim b = false -> (b =? SD4) = false -> (b =? SC) = false -> is_delim b = false.
Proof.
  unfold is_data_delim, is_delim. intros H H4 HC. rewrite H4, HC.
  destruct (b =? SD1), (b =? SD2), (b =? SD3); cbn in *; congruence.
Qed.

Lemma view_complete l : exists r, view l r.
Proof.
  destruct l as [|b0 t]; [eexists; apply V_nil|].
  destruct (Z.eqb_spec b0 SC) as [->|HC]; [eexists; apply V_sc|].
  destruct (Z.eqb_spec b0 SD4) as [->|H4].
  { destruct (length_lt2 t) as [Hs|(da & sa & t' & ->)]; eexists; [apply V_tok_short, Hs|apply V_tok]. }
  destruct (is_data_delim b0) eqn:Hd.
  2:{ eexists. apply V_nodelim. apply is_data_delim_is_delim; [exact Hd|apply Z.eqb_neq, H4|apply Z.eqb_neq, HC]. }
  destruct (Nat.ltb_spec (length (b0 :: t)) 6) as [Hs|Hl]; [eexists; apply (V_short6 b0 t Hd Hs)|].
  destruct (is_data_delim_cases b0 Hd) as [->|[->| ->]].
  - (* SD1 *)
    destruct t as [|da' [|sa' [|fcb [|cks [|e rest]]]]]; cbn [length] in Hl; try lia.
    eexists. apply (V_body [SD1] 0 da' sa' fcb [] cks e rest DS1 eq_refl).
  - (* SD2 *)
    destruct t as [|b1 [|b2 [|b3 t]]]; cbn [length] in Hl; try lia.
    assert (Ht : (2 <= length t)%nat) by lia.
    destruct (Z.eq_dec b1 b2) as [<-|E12]; [|eexists; apply V_sd2_badhdr; [exact Ht|auto]].
    destruct (Z.eq_dec b3 SD2) as [->|E3]; [|eexists; apply V_sd2_badhdr; [exact Ht|auto]].
    destruct (Z_lt_le_dec b1 3) as [E1|E1]; [eexists; apply V_sd2_badhdr; [exact Ht|auto]|].
    destruct (Nat.ltb_spec (length t + 4) (Z.to_nat b1 + 6)) as [Hs|Hlong]; [eexists; apply (V_sd2_short b1 t E1 Ht Hs)|].
    destruct (split_buffer (SD2 :: t) (Z.to_nat (b1 - 3))) as (x & da' & sa' & fcb & payload & cks & e & rest & Eq & Hn).
    { cbn [length]. lia. }
    injection Eq as <- ->.
    replace b1 with (Z.of_nat (Z.to_nat (b1 - 3) + 3)) by lia.
    eexists. apply (V_body _ _ da' sa' fcb payload cks e rest (DS2 (Z.to_nat (b1 - 3))) Hn).
  - (* SD3 *)
    destruct (Nat.ltb_spec (length (SD3 :: t)) 14) as [Hs|Hlong]; [eexists; apply V_sd3_short; lia|].
    destruct (split_buffer (SD3 :: t) 8) as (x & da' & sa' & fcb & payload & cks & e & rest & Eq & Hn); [lia|].
    injection Eq as <- ->.
    eexists. apply (V_body [SD3] 8 da' sa' fcb payload cks e rest DS3 Hn).
Qed.

Theorem decode_view l : view l (decode_spec l).
Proof. destruct (view_complete l) as [r V]. rewrite (view_sound l r V). exact V. Qed.

Lemma decode_view' l r : decode l = Ok r -> view l r.
Proof. rewrite decode_is_spec. intros E. injection E as <-. apply decode_view. Qed.

Lemma view_decode l r : view l r -> decode l = Ok r.
Proof. intros V. rewrite decode_is_spec, (view_sound l r V). reflexivity. Qed.
