(* The lenient life-cycle monitor accepts whatever the strict one accepts, so the soundness theorem of
   Proofs/DpOracleSound.v (c14_monitor_ra accepts every model transcript) carries over to the monitor the
   driver calls. *)
From PB Require Import DpOracle DpOracleSound.

Lemma c14_lenient_accepts : forall c hs0 l,
  c14_monitor_ra c hs0 l = None -> c14_monitor_lenient c hs0 l = None.
Proof. intros c hs0 l H. unfold c14_monitor_lenient. rewrite H. reflexivity. Qed.

(* a rejection by the lenient monitor is a rejection by the strict one (possibly at another step) *)
Lemma c14_lenient_rejects : forall c hs0 l v,
  c14_monitor_lenient c hs0 l = Some v -> exists v', c14_monitor_ra c hs0 l = Some v'.
Proof.
  intros c hs0 l v H. unfold c14_monitor_lenient in H.
  destruct (c14_monitor_ra c hs0 l) as [v'|]; [exists v'; reflexivity|discriminate H].
Qed.

Theorem c14_lenient_sound : forall c s0 ins s' tr, conf_ok c ->
  init_sys c = Ok s0 -> model_run s0 ins = Ok (s', tr) ->
  contract_ok c tr = true -> driver_ok (sy_handles s0) tr = true ->
  ra_sane c tr = true -> reset_guard c None tr = true ->
  c14_monitor_lenient c (sy_handles s0) tr = None.
Proof.
  intros. apply c14_lenient_accepts. eapply c14_oracle_sound_ra; eassumption.
Qed.
