(* STRETCH: a genuinely GLOBAL fact about the composed model (Model/Multi.v) on the concrete medium
   `ideal_medium rate` - token hand-over between two stations of an N-station system.

   ideal_delivers_rest: when everything transmitted earlier has already been delivered to station ib by
     its previous poll (at tp), nobody has transmitted since the last transmission (w, by another station,
     at t0) and all bytes of w are complete at t1, then what the ideal medium hands to ib's poll at t1 is
     exactly the bytes of w that had not arrived at tp, transmitter idle.
   handover_step_partial: station ia has just transmitted the token telegram TS_b <- TS_a and supervises
     its pass (CheckTokenPass: NOT a token holder in its own view); station ib idles in the ring with ia's
     address as its predecessor; its receive buffer holds what had arrived of the telegram at its previous
     poll (possibly nothing); other stations may have polled since, nobody has transmitted.  Then the poll
     of ib at a time t1 at which the telegram is completely delivered returns, transmits nothing, leaves ib in UseToken t1 (token holder in
     its own view) and does not touch ia: after the step EXACTLY ONE of the two is a token holder.
   _partial: this is one global step, not an invariant.  Missing towards token uniqueness ("at most one
   station has have_token in every reachable state of the composed system"): (1) an inductive invariant
   over all reachable states that ties every station's view to the history on the medium (token in
   flight / held by exactly one / lost), through claims, GAP polls and replies, retries of the pass and
   removals; (2) assumptions that make it true at all - a medium that does not lose or corrupt telegrams,
   a bound on the poll period relative to Tslot (otherwise ia retries / re-claims while ib holds: classes
   F20 / F21 of DESIGN.md), distinct addresses; (3) the timing argument that the claim time-outs
   (6 + 2 TS) Tslot elect one claimant. *)
From Coq Require Import Arith.
From PB Require Import Common Tables FdlTables Telegram Phy TokenRing Params Fdl FdlOracle FdlProofs FdlStepProofs.
From PB Require Import C05Proofs C01Proofs C11Proofs DecodeSpec.
From PB Require Import Multi MultiProofs.

Lemma last_poll_app h x i : last_poll (h ++ [x]) i = if Nat.eqb (h_who x) i then Some (h_now x) else last_poll h i.
Proof. unfold last_poll. rewrite fold_left_app. reflexivity. Qed.

Lemma map_mod_bytes (w : bytes) : all_bytes w -> map (fun b => b mod 256) w = w.
Proof.
  induction 1 as [|b l Hb _ IH]; [reflexivity|]. cbn [map]. rewrite IH. unfold is_byte in Hb. rewrite Z.mod_small by lia. reflexivity.
Qed.

Lemma skipn_firstn_nil {X} (l : list X) k : skipn (length l) (firstn k l) = [].
Proof. apply skipn_all2. rewrite firstn_length. lia. Qed.

Lemma last_poll_skip h i : Forall (fun x => h_who x <> i) h -> forall acc,
  fold_left (fun acc x => if Nat.eqb (h_who x) i then Some (h_now x) else acc) h acc = acc.
Proof.
  induction 1 as [|x l Hx _ IH]; intros acc; [reflexivity|]. cbn [fold_left].
  destruct (Nat.eqb_spec (h_who x) i) as [C|_]; [contradiction|]. apply IH.
Qed.

Lemma ideal_delivers_rest rate (h0 h1 : history) (ia ib : nat) (t0 tp t1 : Z) (w : bytes) :
  ia <> ib -> all_bytes w ->
  last_poll (h0 ++ mkH ia t0 (Some w) :: h1) ib = Some tp ->
  Forall (fun x => h_tx x = None) h1 ->
  bytes_by rate t0 (length w) t1 = length w ->
  (forall x w', In x h0 -> h_who x <> ib -> h_tx x = Some w' -> bytes_by rate (h_now x) (length w') tp = length w') ->
  (forall x w', In x h0 -> h_who x = ib -> h_tx x = Some w' -> tx_end rate (h_now x) (length w') <= t1) ->
  ideal_medium rate (h0 ++ mkH ia t0 (Some w) :: h1) ib t1 = (skipn (bytes_by rate t0 (length w) tp) w, false).
Proof.
  intros Hne Hw Hlp Hh1 H1 Hdel Hidle. unfold ideal_medium. rewrite Hlp.
  rewrite flat_map_app, existsb_app. cbn [flat_map existsb h_tx h_who h_now].
  destruct (Nat.eqb_spec ia ib) as [C|_]; [contradiction|]. rewrite H1, firstn_all. cbn [andb orb].
  match goal with |- context [flat_map ?f h0] => assert (Hnil : flat_map f h0 = []) end.
  { clear -Hdel. induction h0 as [|x tl IH]; [reflexivity|]. cbn [flat_map]. rewrite IH by (intros; eapply Hdel; eauto; right; assumption).
    rewrite app_nil_r. destruct (h_tx x) as [w0|] eqn:Ex; [|reflexivity]. destruct (Nat.eqb_spec (h_who x) ib) as [_|Hn]; [reflexivity|].
    rewrite (Hdel x w0 (or_introl eq_refl) Hn Ex). apply skipn_firstn_nil. }
  match goal with |- context [existsb ?f h0] => assert (Hbusy : existsb f h0 = false) end.
  { clear -Hidle. induction h0 as [|x tl IH]; [reflexivity|]. cbn [existsb]. rewrite IH by (intros; eapply Hidle; eauto; right; assumption).
    rewrite orb_false_r. destruct (h_tx x) as [w0|] eqn:Ex; [|reflexivity]. destruct (Nat.eqb_spec (h_who x) ib) as [He|_]; [|reflexivity].
    cbn [andb]. apply Z.ltb_ge. exact (Hidle x w0 (or_introl eq_refl) He Ex). }
  match goal with |- context [flat_map ?f h1] => assert (Hnil1 : flat_map f h1 = []) end.
  { clear -Hh1. induction Hh1 as [|x tl Hx _ IH]; [reflexivity|]. cbn [flat_map]. rewrite IH, Hx. reflexivity. }
  match goal with |- context [existsb ?f h1] => assert (Hbusy1 : existsb f h1 = false) end.
  { clear -Hh1. induction Hh1 as [|x tl Hx _ IH]; [reflexivity|]. cbn [existsb]. rewrite IH, Hx. reflexivity. }
  rewrite Hnil, Hbusy, Hnil1, Hbusy1. cbn [app orb]. rewrite app_nil_r.
  rewrite map_mod_bytes; [reflexivity|]. unfold all_bytes in *. rewrite <- (firstn_skipn (bytes_by rate t0 (length w) tp) w) in Hw.
  apply Forall_app in Hw. tauto.
Qed.

Section Handover.
Variable A : Type.
Variable ops : app_ops A.
Hypothesis Happs : apps_total A ops.
Variable rate : Z.

Theorem handover_step_partial (s : sys A) (ia ib : nat) (sta stb : station A) (h0 h1 : history) (t0 tp t1 : Z)
    (nps : option Z) (cc : Z) (s' : sys A) (r : res unit) :
  let fa := st_f sta in let fb := st_f stb in
  ia <> ib -> nth_error (sys_st s) ia = Some sta -> nth_error (sys_st s) ib = Some stb ->
  (* the last transmission on the medium: ia's token telegram to ib, handed to its PHY at t0; since then
     stations have polled (h1) but nobody has transmitted *)
  sys_hist s = h0 ++ mkH ia t0 (Some (encode_token (ts fb) (ts fa))) :: h1 -> Forall (fun x => h_tx x = None) h1 ->
  kind_of (f_state fa) = KCheckTokenPass -> Rep (length (st_apps sta)) fa ->
  (* ib idles in the ring, ia is its registered predecessor, its receive buffer holds the bytes of the token
     telegram that had arrived at its previous poll (at tp; none if that was before the first byte) *)
  Rep (length (st_apps stb)) fb -> f_conn fb = ConnOnline -> f_state fb = ActiveIdle None nps cc ->
  r_ps (f_ring fb) = ts fa -> ts fa <> ts fb ->
  st_buf stb = firstn (bytes_by rate t0 3 tp) (encode_token (ts fb) (ts fa)) -> (f_pending fb < 3)%nat -> (forall l, f_lba fb = Some l -> l < t1) -> time_ok t1 ->
  (* the medium: earlier transmissions were completely delivered to ib by its previous poll (at tp), all
     three bytes of the token have arrived at t1, ib's own transmitter is idle at t1 *)
  last_poll (sys_hist s) ib = Some tp -> bytes_by rate t0 3 t1 = 3%nat ->
  (forall x w', In x h0 -> h_who x <> ib -> h_tx x = Some w' -> bytes_by rate (h_now x) (length w') tp = length w') ->
  (forall x w', In x h0 -> h_who x = ib -> h_tx x = Some w' -> tx_end rate (h_now x) (length w') <= t1) ->
  multi_step A ops (ideal_medium rate) s (ib, ActPoll t1) = (s', r) ->
  r = Ok tt /\
  nth_error (sys_st s') ia = Some sta /\ have_token (f_state (st_f sta)) = false /\
  exists stb', nth_error (sys_st s') ib = Some stb' /\
    f_state (st_f stb') = UseToken t1 None false /\ have_token (f_state (st_f stb')) = true /\
    st_buf stb' = [] /\ sys_hist s' = sys_hist s ++ [mkH ib t1 None] /\
    exists f0, In (SPoll t1 false (skipn (bytes_by rate t0 3 tp) (encode_token (ts fb) (ts fa))) (encode_token (ts fb) (ts fa)) fb f0 (mkPhyOut None []) []) (st_log stb').
Proof.
  intros fa fb Hne Ha Hb Hh Hq1 Hka Ra Rb Hc Hst Hps Hts Hbuf Hpend Hlba Ht1 Hlp H1 Hdel Hidle E.
  assert (Hba : is_byte (ts fa)) by (destruct (bv_ranges _ (rep_p _ _ Ra)) as (X & _); unfold ts, is_byte; lia).
  assert (Hbb : is_byte (ts fb)) by (destruct (bv_ranges _ (rep_p _ _ Rb)) as (X & _); unfold ts, is_byte; lia).
  assert (Hw : all_bytes (encode_token (ts fb) (ts fa))).
  { unfold encode_token. constructor; [unfold is_byte, SD4; lia|]. constructor; [exact Hbb|]. constructor; [exact Hba|constructor]. }
  rewrite Hh in Hlp.
  pose proof (ideal_delivers_rest rate h0 h1 ia ib t0 tp t1 _ Hne Hw Hlp Hq1 H1 Hdel Hidle) as Hm.
  unfold multi_step in E. rewrite Hb in E. unfold station_step in E. rewrite Hh, Hm, Hbuf in E.
  change (length (encode_token (ts fb) (ts fa))) with 3%nat in E. rewrite firstn_skipn in E.
  destruct (poll_rep_step A ops Happs fb t1 (mkPhyIn false (encode_token (ts fb) (ts fa))) (st_apps stb) Rb Ht1 Hw)
    as (f' & o & apps' & c & Ep & _ & _).
  fold fb in E. rewrite Ep in E. injection E as <- <-.
  assert (Hto : 0 < token_lost_timeout (f_p fb)) by (destruct (bv_timeouts _ (rep_p _ _ Rb)) as (_ & X); exact X).
  pose proof Ep as Ep'.
  apply (ai_single_poll A ops) with (nps := nps) (cc := cc) (t := TToken (ts fb) (ts fa)) in Ep'; try assumption; try reflexivity.
  destruct Ep' as [fm [g1 [w0 [w1 [Hsm [Hrm [Hpm [Hcm [Hh1 [Hs1 [Hr1 [Hp1 [Hc1 [Hl1 [Hpe1 [-> [-> ->]]]]]]]]]]]]]]]]].
  assert (Htsm : ts fm = ts fb) by (unfold ts; rewrite Hpm; reflexivity).
  rewrite <- Htsm in Hh1.
  destruct (handle_telegram_accept_iff A fm w0 t1 None nps cc (ts fa) g1 w1) as [Hacc _];
    [rewrite Hsm; exact Hst|rewrite Htsm; exact Hts|exact Hh1|].
  specialize (Hacc (or_introl (eq_sym (eq_trans (f_equal r_ps Hrm) Hps)))).
  split; [reflexivity|]. cbn [sys_st sys_hist].
  split; [rewrite (nth_error_replace_nth_neq _ _ _ _ (not_eq_sym Hne)); exact Ha|].
  split; [unfold have_token; fold fa; rewrite Hka; reflexivity|].
  eexists. split; [exact (nth_error_replace_nth_eq _ _ _ _ Hb)|]. cbn [st_f st_buf tx rx_left].
  rewrite Hs1, Hacc. repeat split; try reflexivity.
  - rewrite Hh. reflexivity.
  - exists f'. cbn [st_log]. apply in_or_app. right. left. reflexivity.
Qed.

End Handover.

(* ------------------------------------------------------------------------------------------ *)
(* non-vacuity: the two-station example run of Model/Multi.v reaches, after 163 polls, a state that
   satisfies every hypothesis of handover_step_partial - station 1 (index 0) passed the token to station
   2 (index 1) at t0 = 6440; index 1 polled at tp = 6480 and found the first byte; index 0 polled at 6520;
   the poll of index 1 at t1 = 6560 finds the telegram complete.                                   *)

Definition delivered_b (rate : Z) (ib : nat) (tp : Z) (h0 : history) : bool :=
  forallb (fun x => match h_tx x with
                    | Some w' => Nat.eqb (h_who x) ib || Nat.eqb (bytes_by rate (h_now x) (length w') tp) (length w')
                    | None => true
                    end) h0.
Definition idle_b (rate : Z) (ib : nat) (t1 : Z) (h0 : history) : bool :=
  forallb (fun x => match h_tx x with
                    | Some w' => negb (Nat.eqb (h_who x) ib) || (tx_end rate (h_now x) (length w') <=? t1)
                    | None => true
                    end) h0.

Lemma delivered_b_sound rate ib tp h0 : delivered_b rate ib tp h0 = true ->
  forall x w', In x h0 -> h_who x <> ib -> h_tx x = Some w' -> bytes_by rate (h_now x) (length w') tp = length w'.
Proof.
  unfold delivered_b. rewrite forallb_forall. intros H x w' Hin Hne Ex. specialize (H x Hin). rewrite Ex in H.
  destruct (Nat.eqb_spec (h_who x) ib) as [C|_]; [contradiction|]. cbn [orb] in H. apply Nat.eqb_eq. exact H.
Qed.

Lemma idle_b_sound rate ib t1 h0 : idle_b rate ib t1 h0 = true ->
  forall x w', In x h0 -> h_who x = ib -> h_tx x = Some w' -> tx_end rate (h_now x) (length w') <= t1.
Proof.
  unfold idle_b. rewrite forallb_forall. intros H x w' Hin He Ex. specialize (H x Hin). rewrite Ex in H.
  destruct (Nat.eqb_spec (h_who x) ib) as [_|C]; [|contradiction]. cbn [negb orb] in H. apply Z.leb_le. exact H.
Qed.

Definition ex2_s163 : sys unit := fst (ex2_run 163).

Lemma ex2_handover_hypotheses :
  exists sta stb h0 h1,
    let fa := st_f sta in let fb := st_f stb in
    nth_error (sys_st ex2_s163) 0 = Some sta /\ nth_error (sys_st ex2_s163) 1 = Some stb /\
    sys_hist ex2_s163 = h0 ++ mkH 0 6440 (Some (encode_token (ts fb) (ts fa))) :: h1 /\
    Forall (fun x => h_tx x = None) h1 /\
    kind_of (f_state fa) = KCheckTokenPass /\ Rep (length (st_apps sta)) fa /\
    Rep (length (st_apps stb)) fb /\ f_conn fb = ConnOnline /\ f_state fb = ActiveIdle None None 0 /\
    r_ps (f_ring fb) = ts fa /\ ts fa <> ts fb /\
    st_buf stb = firstn (bytes_by 500000 6440 3 6480) (encode_token (ts fb) (ts fa)) /\ st_buf stb = [220] /\
    (f_pending fb < 3)%nat /\ (forall l, f_lba fb = Some l -> l < 6560) /\ time_ok 6560 /\
    last_poll (sys_hist ex2_s163) 1 = Some 6480 /\ bytes_by 500000 6440 3 6560 = 3%nat /\
    (forall x w', In x h0 -> h_who x <> 1%nat -> h_tx x = Some w' -> bytes_by 500000 (h_now x) (length w') 6480 = length w') /\
    (forall x w', In x h0 -> h_who x = 1%nat -> h_tx x = Some w' -> tx_end 500000 (h_now x) (length w') <= 6560).
Proof.
  destruct ex2_hypotheses as (Hv & _ & Ha & HM).
  assert (Hs : sched_time_ok (ex2_schedule 163)) by (apply (sched_ok_time_ok _ (fun _ => 0)), sched_okb_sound; vm_compute; reflexivity).
  destruct (multi_run_never_panics unit unit_app_ops (ideal_medium 500000) HM Ha ex2_cfg (ex2_schedule 163) Hv Hs)
    as (s0 & s' & E0 & E & HR).
  assert (Hs' : s' = ex2_s163) by (unfold ex2_s163, ex2_run; rewrite E0, E; reflexivity). subst s'.
  destruct (nth_error (sys_st ex2_s163) 0) as [sta|] eqn:Ea; [|vm_compute in Ea; discriminate Ea].
  destruct (nth_error (sys_st ex2_s163) 1) as [stb|] eqn:Eb; [|vm_compute in Eb; discriminate Eb].
  pose proof (HR _ _ Ea) as Ra. pose proof (HR _ _ Eb) as Rb.
  exists sta, stb, (firstn 160 (sys_hist ex2_s163)), (skipn 161 (sys_hist ex2_s163)). cbv zeta.
  split; [reflexivity|]. split; [reflexivity|].
  split; [|split; [|split; [|split; [exact Ra|split; [exact Rb|]]]]].
  - vm_compute in Ea, Eb. injection Ea as <-. injection Eb as <-. vm_compute. reflexivity.
  - vm_compute. repeat constructor.
  - vm_compute in Ea. injection Ea as <-. reflexivity.
  - clear Ra Rb HR. vm_compute in Ea, Eb. injection Ea as <-. injection Eb as <-.
    split; [reflexivity|]. split; [reflexivity|]. split; [reflexivity|]. split; [vm_compute; discriminate|].
    split; [reflexivity|]. split; [reflexivity|]. split; [vm_compute; lia|].
    split; [intros l Hl; vm_compute in Hl; injection Hl as <-; lia|]. split; [unfold time_ok; lia|].
    split; [vm_compute; reflexivity|]. split; [vm_compute; reflexivity|]. split.
    + apply delivered_b_sound. vm_compute. reflexivity.
    + apply idle_b_sound. vm_compute. reflexivity.
Qed.
