(* C19, fidelity half - closed forms per fragment for ANY well-formed file (statements in any order):
   what the returned description contains, read off the written statements. *)
From PB Require Import Common GsdGrammar GsdTables GsdInterp GsdShape GsdRender C19Shape C19Fidelity C19File.

(* ------------------------------------------------------------------------------------------ the code after the loop *)

Lemma post_final : forall s, exists w, post s = POk (final_desc s, w).
Proof.
  intros s. unfold post, final_desc. cbv zeta.
  destruct (s_maxspan s) eqn:Em.
  - destruct (d_flag _ _); [eexists; reflexivity |]. cbn [orb].
    destruct (negb _); cbn [pbind]; eexists; reflexivity.
  - destruct (d_flag _ _); [eexists; reflexivity |].
    assert (E : forall g, d_num (set_num NF_max_modules 1 g) NF_max_modules = 1) by (intros g; reflexivity).
    rewrite E. cbn [Z.eqb Pos.eqb negb pbind]. eexists; reflexivity.
Qed.

Lemma file_says_final : forall stmts, exists w,
  file_says stmts = POk (final_desc (fold_left apply_stmt stmts st_init), w).
Proof. intros stmts. unfold file_says. apply post_final. Qed.

(* ------------------------------------------------------------------------------------------ frame properties of statements *)

(* the parts of the state a statement can leave alone *)
Definition scal (s : st) := (d_num (s_gsd s), d_str (s_gsd s), d_flag (s_gsd s), d_speeds (s_gsd s), s_modspan s, s_maxspan s).

Lemma slots_scal : forall l s, scal (fold_left apply_slot l s) = scal s.
Proof.
  induction l as [| sl l IH]; intros s; [reflexivity |]. cbn [fold_left]. rewrite IH.
  unfold apply_slot. cbv zeta. destruct (find_module _ _); reflexivity.
Qed.

Ltac crush_matches :=
  repeat match goal with
         | |- context [match ?z with _ => _ end] => destruct z
         end.

(* a statement that is not a top-level setting leaves the scalars alone *)
Lemma nonset_scal : forall s x, (forall y, x <> WSetS y) -> scal (apply_stmt s x) = scal s.
Proof.
  intros s x H. destruct x as [y | id es | d | a b es | m | tx l | t]; try reflexivity.
  - exfalso. exact (H y eq_refl).
  - cbn [apply_stmt]. apply slots_scal.
Qed.

Lemma set_keep_num : forall s y f, ~ In (TNum f) (set_target y) ->
  d_num (s_gsd (apply_set s y)) f = d_num (s_gsd s) f.
Proof.
  intros s [key idx val] f H. unfold apply_set, set_target in *. cbn [se_key se_idx se_val] in *.
  destruct (set_action _) as [[f' | f' | f' | mask | sp] |]; [| | | | | reflexivity].
  - destruct idx; destruct val; try reflexivity. cbn [with_gsd s_gsd set_num d_num].
    rewrite nfield_eqb_false; [reflexivity |]. intros ->. apply H. left. reflexivity.
  - destruct idx; destruct val; reflexivity.
  - destruct idx; destruct val; reflexivity.
  - destruct idx; destruct val; try reflexivity. destruct (truth n); reflexivity.
  - destruct sp; destruct idx; destruct val; try reflexivity; crush_matches; try reflexivity.
    cbn [with_gsd with_maxspan s_gsd set_num d_num].
    rewrite nfield_eqb_false; [reflexivity |]. intros <-. apply H. left. reflexivity.
Qed.

Lemma set_keep_str : forall s y f, ~ In (TStr f) (set_target y) ->
  d_str (s_gsd (apply_set s y)) f = d_str (s_gsd s) f.
Proof.
  intros s [key idx val] f H. unfold apply_set, set_target in *. cbn [se_key se_idx se_val] in *.
  destruct (set_action _) as [[f' | f' | f' | mask | sp] |]; [| | | | | reflexivity].
  - destruct idx; destruct val; reflexivity.
  - destruct idx; destruct val; try reflexivity. cbn [with_gsd s_gsd set_str d_str].
    rewrite sfield_eqb_false; [reflexivity |]. intros ->. apply H. left. reflexivity.
  - destruct idx; destruct val; reflexivity.
  - destruct idx; destruct val; try reflexivity. destruct (truth n); reflexivity.
  - destruct sp; destruct idx; destruct val; try reflexivity; crush_matches; reflexivity.
Qed.

Lemma set_keep_flag : forall s y f, ~ In (TFlag f) (set_target y) ->
  d_flag (s_gsd (apply_set s y)) f = d_flag (s_gsd s) f.
Proof.
  intros s [key idx val] f H. unfold apply_set, set_target in *. cbn [se_key se_idx se_val] in *.
  destruct (set_action _) as [[f' | f' | f' | mask | sp] |]; [| | | | | reflexivity].
  - destruct idx; destruct val; reflexivity.
  - destruct idx; destruct val; reflexivity.
  - destruct idx; destruct val; try reflexivity. cbn [with_gsd s_gsd set_flag d_flag].
    rewrite bfield_eqb_false; [reflexivity |]. intros ->. apply H. left. reflexivity.
  - destruct idx; destruct val; try reflexivity. destruct (truth n); reflexivity.
  - destruct sp; destruct idx; destruct val; try reflexivity; crush_matches; try reflexivity.
    cbn [with_gsd with_modspan s_gsd set_flag d_flag].
    rewrite bfield_eqb_false; [reflexivity |]. intros <-. apply H. left. reflexivity.
Qed.

Definition speed_step_set (acc : Z) (x : wset) : Z :=
  match set_action x, se_val x with
  | Some (ASpeed m), VNum n => if truth n then Z.lor acc m else acc
  | _, _ => acc
  end.

(* under the well-formedness check, a speed setting has no index; otherwise the speeds are untouched *)
Lemma set_speeds_step : forall s y, set_okb s y = true ->
  d_speeds (s_gsd (apply_set s y)) = speed_step_set (d_speeds (s_gsd s)) y.
Proof.
  intros s [key idx val] H. unfold apply_set, set_okb, speed_step_set in *. cbn [se_key se_idx se_val] in *.
  destruct (set_action _) as [[f' | f' | f' | mask | sp] |]; [| | | | | reflexivity].
  - destruct idx; destruct val; reflexivity.
  - destruct idx; destruct val; reflexivity.
  - destruct idx; destruct val; reflexivity.
  - destruct idx; destruct val; try reflexivity; try discriminate H. destruct (truth n); reflexivity.
  - destruct sp; destruct idx; destruct val; try reflexivity; crush_matches; reflexivity.
Qed.

Lemma set_maxspan_mono : forall s y, s_maxspan s = true -> s_maxspan (apply_set s y) = true.
Proof.
  intros s [key idx val] H. unfold apply_set. cbn [se_key se_idx se_val].
  destruct (set_action _) as [[f' | f' | f' | mask | sp] |]; [| | | | | exact H];
    try destruct sp; destruct idx; destruct val; try exact H; crush_matches; try exact H; reflexivity.
Qed.

Lemma set_maxspan_new : forall s y, s_maxspan (apply_set s y) = true ->
  s_maxspan s = true \/ In (TNum NF_max_modules) (set_target y).
Proof.
  intros s [key idx val] H. unfold apply_set, set_target in *. cbn [se_key se_idx se_val] in *.
  destruct (set_action _) as [[f' | f' | f' | mask | sp] |]; [| | | | | left; exact H];
    try destruct sp; try (right; left; reflexivity);
    destruct idx; destruct val; try (left; exact H); revert H; crush_matches; intros H; left; exact H.
Qed.

Definition T (stmts : list wstmt) : list target := set_targets (sets_of stmts).

Lemma T_cons_set : forall y r, T (WSetS y :: r) = set_target y ++ T r.
Proof. reflexivity. Qed.
Lemma T_cons_other : forall x r, (forall y, x <> WSetS y) -> T (x :: r) = T r.
Proof. intros x r H. destruct x; try reflexivity. exfalso. exact (H x eq_refl). Qed.

Lemma is_set_dec : forall x : wstmt, (exists y, x = WSetS y) \/ (forall y, x <> WSetS y).
Proof. intros x. destruct x; try (right; intros y E; discriminate E). left. eexists. reflexivity. Qed.

Lemma scal_num : forall a b, scal a = scal b -> d_num (s_gsd a) = d_num (s_gsd b). Proof. intros a b H. unfold scal in H. congruence. Qed.
Lemma scal_str : forall a b, scal a = scal b -> d_str (s_gsd a) = d_str (s_gsd b). Proof. intros a b H. unfold scal in H. congruence. Qed.
Lemma scal_flag : forall a b, scal a = scal b -> d_flag (s_gsd a) = d_flag (s_gsd b). Proof. intros a b H. unfold scal in H. congruence. Qed.
Lemma scal_speeds : forall a b, scal a = scal b -> d_speeds (s_gsd a) = d_speeds (s_gsd b). Proof. intros a b H. unfold scal in H. congruence. Qed.
Lemma scal_maxspan : forall a b, scal a = scal b -> s_maxspan a = s_maxspan b. Proof. intros a b H. unfold scal in H. congruence. Qed.

Lemma fold_keep_num' : forall stmts s f, ~ In (TNum f) (T stmts) ->
  d_num (s_gsd (fold_left apply_stmt stmts s)) f = d_num (s_gsd s) f.
Proof.
  induction stmts as [| x r IH]; intros s f H; [reflexivity |]. cbn [fold_left].
  destruct (is_set_dec x) as [[y ->] | Hn].
  - rewrite T_cons_set in H. rewrite IH by (intros Hin; apply H; apply in_or_app; right; exact Hin).
    cbn [apply_stmt]. apply set_keep_num. intros Hin; apply H; apply in_or_app; left; exact Hin.
  - rewrite (T_cons_other x r Hn) in H. rewrite IH by exact H. rewrite (scal_num _ _ (nonset_scal s x Hn)). reflexivity.
Qed.
Lemma fold_keep_str' : forall stmts s f, ~ In (TStr f) (T stmts) ->
  d_str (s_gsd (fold_left apply_stmt stmts s)) f = d_str (s_gsd s) f.
Proof.
  induction stmts as [| x r IH]; intros s f H; [reflexivity |]. cbn [fold_left].
  destruct (is_set_dec x) as [[y ->] | Hn].
  - rewrite T_cons_set in H. rewrite IH by (intros Hin; apply H; apply in_or_app; right; exact Hin).
    cbn [apply_stmt]. apply set_keep_str. intros Hin; apply H; apply in_or_app; left; exact Hin.
  - rewrite (T_cons_other x r Hn) in H. rewrite IH by exact H. rewrite (scal_str _ _ (nonset_scal s x Hn)). reflexivity.
Qed.
Lemma fold_keep_flag' : forall stmts s f, ~ In (TFlag f) (T stmts) ->
  d_flag (s_gsd (fold_left apply_stmt stmts s)) f = d_flag (s_gsd s) f.
Proof.
  induction stmts as [| x r IH]; intros s f H; [reflexivity |]. cbn [fold_left].
  destruct (is_set_dec x) as [[y ->] | Hn].
  - rewrite T_cons_set in H. rewrite IH by (intros Hin; apply H; apply in_or_app; right; exact Hin).
    cbn [apply_stmt]. apply set_keep_flag. intros Hin; apply H; apply in_or_app; left; exact Hin.
  - rewrite (T_cons_other x r Hn) in H. rewrite IH by exact H. rewrite (scal_flag _ _ (nonset_scal s x Hn)). reflexivity.
Qed.

Lemma fold_maxspan_mono : forall stmts s, s_maxspan s = true -> s_maxspan (fold_left apply_stmt stmts s) = true.
Proof.
  induction stmts as [| x r IH]; intros s H; [exact H |]. cbn [fold_left]. apply IH.
  destruct (is_set_dec x) as [[y ->] | Hn].
  - apply set_maxspan_mono. exact H.
  - rewrite (scal_maxspan _ _ (nonset_scal s x Hn)). exact H.
Qed.
Lemma fold_maxspan_new : forall stmts s, s_maxspan (fold_left apply_stmt stmts s) = true ->
  s_maxspan s = true \/ In (TNum NF_max_modules) (T stmts).
Proof.
  induction stmts as [| x r IH]; intros s H; [left; exact H |]. cbn [fold_left] in H.
  destruct (IH _ H) as [H1 | H1].
  - destruct (is_set_dec x) as [[y ->] | Hn].
    + destruct (set_maxspan_new s y H1) as [H2 | H2]; [left; exact H2 | right]. rewrite T_cons_set. apply in_or_app. left. exact H2.
    + left. rewrite <- (scal_maxspan _ _ (nonset_scal s x Hn)). exact H1.
  - right. destruct (is_set_dec x) as [[y ->] | Hn].
    + rewrite T_cons_set. apply in_or_app. right. exact H1.
    + rewrite (T_cons_other x r Hn). exact H1.
Qed.

Lemma fold_speeds' : forall stmts s, stmts_okb s stmts = true ->
  d_speeds (s_gsd (fold_left apply_stmt stmts s)) = fold_left speed_step_set (sets_of stmts) (d_speeds (s_gsd s)).
Proof.
  induction stmts as [| x r IH]; intros s H; [reflexivity |].
  cbn [stmts_okb] in H. apply andb_true_iff in H. destruct H as [Hx Hr]. cbn [fold_left].
  rewrite IH by exact Hr. destruct (is_set_dec x) as [[y ->] | Hn].
  - cbn [apply_stmt stmt_okb] in *. change (sets_of (WSetS y :: r)) with (y :: sets_of r). cbn [fold_left].
    rewrite set_speeds_step by exact Hx. reflexivity.
  - rewrite (scal_speeds _ _ (nonset_scal s x Hn)).
    assert (E : sets_of (x :: r) = sets_of r) by (destruct x; try reflexivity; exfalso; exact (Hn x eq_refl)).
    rewrite E. reflexivity.
Qed.

(* what a scalar setting says about the state after the loop *)
Definition set_says_raw (s : st) (x : wset) : Prop :=
  match set_action x, se_val x with
  | Some (ANum f), VNum n => d_num (s_gsd s) f = wnum_value n
  | Some (AStr f), VStr w => d_str (s_gsd s) f = wstr_value w
  | Some (ABool f), VNum n => d_flag (s_gsd s) f = truth n
  | Some (ASpecial SP_modular_station), VNum n => d_flag (s_gsd s) BF_modular_station = truth n
  | Some (ASpecial SP_max_module), VNum n => d_num (s_gsd s) NF_max_modules = wnum_value n /\ s_maxspan s = true
  | _, _ => True
  end.

Lemma says_raw_fold : forall stmts s x,
  nodupb (T stmts) = true -> stmts_okb s stmts = true -> In (WSetS x) stmts ->
  set_says_raw (fold_left apply_stmt stmts s) x.
Proof.
  induction stmts as [| a r IH]; intros s x Hnd Hok Hin; [destruct Hin |].
  cbn [stmts_okb] in Hok. apply andb_true_iff in Hok. destruct Hok as [Ha Hr]. cbn [fold_left].
  destruct Hin as [-> | Hin].
  - rewrite T_cons_set in Hnd. apply nodupb_app in Hnd. destruct Hnd as [_ Hd].
    clear IH. cbn [apply_stmt stmt_okb] in *. destruct x as [key idx val].
    unfold set_says_raw, set_target, set_okb, apply_set in *. cbn [se_key se_idx se_val] in *.
    destruct (set_action (mkSet key idx val)) as [[f | f | f | mask | sp] |] eqn:Ea; try exact I.
    + destruct val as [n | | |]; try exact I. destruct idx; [discriminate Ha |].
      rewrite fold_keep_num' by (apply Hd; left; reflexivity).
      cbn [with_gsd s_gsd set_num d_num]. rewrite nfield_eqb_refl. reflexivity.
    + destruct val as [| w | |]; try exact I. destruct idx; [discriminate Ha |].
      rewrite fold_keep_str' by (apply Hd; left; reflexivity).
      cbn [with_gsd s_gsd set_str d_str]. rewrite sfield_eqb_refl. reflexivity.
    + destruct val as [n | | |]; try exact I. destruct idx; [discriminate Ha |].
      rewrite fold_keep_flag' by (apply Hd; left; reflexivity).
      cbn [with_gsd s_gsd set_flag d_flag]. rewrite bfield_eqb_refl. reflexivity.
    + destruct sp; try (destruct val; exact I).
      * destruct val as [n | | |]; try exact I. destruct idx; [discriminate Ha |].
        rewrite fold_keep_flag' by (apply Hd; left; reflexivity).
        cbn [with_gsd with_modspan s_gsd set_flag d_flag]. rewrite bfield_eqb_refl. reflexivity.
      * destruct val as [n | | |]; try exact I. destruct idx; [discriminate Ha |]. split.
        -- rewrite fold_keep_num' by (apply Hd; left; reflexivity).
           cbn [with_gsd with_maxspan s_gsd set_num d_num]. rewrite nfield_eqb_refl. reflexivity.
        -- apply fold_maxspan_mono. reflexivity.
  - apply IH; [| exact Hr | exact Hin].
    destruct (is_set_dec a) as [[y ->] | Hn].
    + rewrite T_cons_set in Hnd. apply nodupb_app in Hnd. tauto.
    + rewrite (T_cons_other a r Hn) in Hnd. exact Hnd.
Qed.

(* ------------------------------------------------------------------------------------------ (1) scalars, speeds, response times *)

Lemma final_str : forall s, d_str (final_desc s) = d_str (s_gsd s).
Proof. intros s. unfold final_desc. cbv zeta. destruct (s_legacy s); destruct (s_maxspan s); destruct (d_flag _ _); reflexivity. Qed.
Lemma final_flag : forall s, d_flag (final_desc s) = d_flag (s_gsd s).
Proof. intros s. unfold final_desc. cbv zeta. destruct (s_legacy s); destruct (s_maxspan s); destruct (d_flag _ _); reflexivity. Qed.
Lemma final_speeds : forall s, d_speeds (final_desc s) = d_speeds (s_gsd s).
Proof. intros s. unfold final_desc. cbv zeta. destruct (s_legacy s); destruct (s_maxspan s); destruct (d_flag _ _); reflexivity. Qed.
Lemma final_num : forall s f,
  d_num (final_desc s) f =
  if nfield_eqb NF_max_modules f
  then (if s_maxspan s && d_flag (s_gsd s) BF_modular_station then d_num (s_gsd s) NF_max_modules else 1)
  else d_num (s_gsd s) f.
Proof.
  intros s f. unfold final_desc. cbv zeta.
  destruct (s_legacy s); destruct (s_maxspan s);
    cbn [set_prm set_num d_flag d_num andb];
    match goal with |- context [d_flag (s_gsd s) BF_modular_station] => destruct (d_flag (s_gsd s) BF_modular_station) end;
    cbn [set_num d_num]; destruct (nfield_eqb NF_max_modules f) eqn:E; try reflexivity;
    apply Nat.eqb_eq in E; apply nfield_index_inj in E; subst f; reflexivity.
Qed.

Lemma action_not_max_modules : forall x, set_action x <> Some (ANum NF_max_modules).
Proof. intros x H. apply table_no_max_modules. eapply assoc_str_in. exact H. Qed.

Theorem roundtrip_scalars : forall stmts, file_okb stmts = true -> nodupb (T stmts) = true ->
  exists d w, file_says stmts = POk (d, w) /\
    (forall x, In (WSetS x) stmts -> set_says d x) /\
    d_speeds d = speeds_said (sets_of stmts) /\
    (forall f, ~ In (TNum f) (T stmts) -> d_num d f = if nfield_eqb f NF_max_modules then 1 else nfield_default f) /\
    (forall f, ~ In (TStr f) (T stmts) -> d_str d f = []) /\
    (forall f, ~ In (TFlag f) (T stmts) -> d_flag d f = false).
Proof.
  intros stmts Hok Hnd. destruct (file_says_final stmts) as [w Hw].
  set (F := fold_left apply_stmt stmts st_init) in *.
  exists (final_desc F), w. split; [exact Hw |]. split; [| split; [| split; [| split]]].
  - intros x Hin. pose proof (says_raw_fold stmts st_init x Hnd Hok Hin) as R. fold F in R.
    unfold set_says, set_says_raw in *.
    destruct (set_action x) as [[f | f | f | mask | sp] |] eqn:Ea; try exact I.
    + destruct (se_val x); try exact I. rewrite final_num.
      rewrite nfield_eqb_false; [exact R |]. intros <-. exact (action_not_max_modules x Ea).
    + destruct (se_val x); try exact I. rewrite final_str. exact R.
    + destruct (se_val x); try exact I. rewrite final_flag. exact R.
    + destruct sp; try exact I.
      * destruct (se_val x); try exact I. rewrite final_flag. exact R.
      * destruct (se_val x); try exact I. destruct R as [R1 R2]. rewrite final_num, final_flag, nfield_eqb_refl, R2, R1.
        cbn [andb]. reflexivity.
  - rewrite final_speeds. unfold F. rewrite fold_speeds' by exact Hok. reflexivity.
  - intros f Hf. rewrite final_num. destruct (nfield_eqb NF_max_modules f) eqn:E.
    + apply Nat.eqb_eq in E. apply nfield_index_inj in E. subst f. rewrite nfield_eqb_refl.
      destruct (s_maxspan F) eqn:Em; [| reflexivity].
      exfalso. destruct (fold_maxspan_new stmts st_init Em) as [H | H]; [discriminate H | exact (Hf H)].
    + assert (E' : nfield_eqb f NF_max_modules = false) by (unfold nfield_eqb in *; rewrite Nat.eqb_sym; exact E).
      rewrite E'. unfold F. rewrite fold_keep_num' by exact Hf. reflexivity.
  - intros f Hf. rewrite final_str. unfold F. rewrite fold_keep_str' by exact Hf. reflexivity.
  - intros f Hf. rewrite final_flag. unfold F. rewrite fold_keep_flag' by exact Hf. reflexivity.
Qed.

(* ------------------------------------------------------------------------------------------ environments: maps vs. file order *)

Lemma zmap_get_insert : forall {A} (l : list (Z * A)) k v k',
  zmap_get k' (zmap_insert k v l) = if k' =? k then Some v else zmap_get k' l.
Proof.
  intros A l k v k'. induction l as [| [k0 v0] l IH]; cbn [zmap_insert zmap_get].
  - destruct (k' =? k); reflexivity.
  - destruct (Z.ltb_spec k k0) as [Hlt | Hge].
    + cbn [zmap_get]. destruct (k' =? k); reflexivity.
    + destruct (Z.eqb_spec k k0) as [-> | Hne].
      * cbn [zmap_get]. destruct (k' =? k0); reflexivity.
      * cbn [zmap_get]. destruct (Z.eqb_spec k' k0) as [-> | Hne'].
        -- destruct (Z.eqb_spec k0 k); [congruence | reflexivity].
        -- exact IH.
Qed.

Lemma zmap_get_app : forall {A} (l1 l2 : list (Z * A)) k,
  zmap_get k (l1 ++ l2) = match zmap_get k l1 with Some v => Some v | None => zmap_get k l2 end.
Proof.
  intros A l1 l2 k. induction l1 as [| [k0 v0] l1 IH]; cbn [app zmap_get]; [reflexivity |].
  destruct (k =? k0); [reflexivity | exact IH].
Qed.

Lemma zmap_get_app_l : forall {A} (l1 l2 : list (Z * A)) k v, zmap_get k l1 = Some v -> zmap_get k (l1 ++ l2) = Some v.
Proof. intros A l1 l2 k v H. rewrite zmap_get_app, H. reflexivity. Qed.

Lemma zmap_get_notin : forall {A} (l : list (Z * A)) k, ~ In k (map fst l) -> zmap_get k l = None.
Proof.
  intros A l k H. induction l as [| [k0 v0] l IH]; cbn [zmap_get]; [reflexivity |].
  destruct (Z.eqb_spec k k0) as [-> | Hne]; [exfalso; apply H; left; reflexivity |].
  apply IH. intros Hin. apply H. right. exact Hin.
Qed.

Lemma nodupz_app_mid : forall l1 a l2, nodupz (l1 ++ a :: l2) = true -> ~ In a l1.
Proof.
  induction l1 as [| b l1 IH]; intros a l2 H; [intros [] |].
  cbn [app nodupz] in H. apply andb_true_iff in H. destruct H as [Hb Hr]. apply negb_true_iff in Hb.
  intros [-> | Hin]; [| exact (IH a l2 Hr Hin)].
  assert (E : existsb (Z.eqb a) (l1 ++ a :: l2) = true).
  { apply existsb_exists. exists a. split; [apply in_or_app; right; left; reflexivity | apply Z.eqb_refl]. }
  rewrite E in Hb. discriminate Hb.
Qed.

(* ------------------------------------------------------------------------------------------ what statements leave alone *)

Definition envpart (s : st) := (s_texts s, s_defs s).
Definition prmpart (s : st) := (d_prm (s_gsd s), s_legacy s).
Definition modpart (s : st) := d_modules (s_gsd s).

Lemma slots_parts : forall l s,
  envpart (fold_left apply_slot l s) = envpart s /\ prmpart (fold_left apply_slot l s) = prmpart s /\
  modpart (fold_left apply_slot l s) = modpart s.
Proof.
  induction l as [| sl l IH]; intros s; [repeat split |]. cbn [fold_left].
  destruct (IH (apply_slot s sl)) as [A [B C]]. rewrite A, B, C.
  unfold apply_slot. cbv zeta. destruct (find_module _ _); repeat split.
Qed.

Lemma set_parts : forall s y, envpart (apply_set s y) = envpart s /\ modpart (apply_set s y) = modpart s.
Proof.
  intros s [key idx val]. unfold apply_set. cbn [se_key se_idx se_val].
  destruct (set_action _) as [[f' | f' | f' | mask | sp] |]; [| | | | | split; reflexivity];
    try destruct sp; destruct idx; destruct val; try (split; reflexivity); crush_matches; split; reflexivity.
Qed.

(* ------------------------------------------------------------------------------------------ the invariant of the statement loop *)

Definition ext_step (defs : list (Z * prmdef)) (p : userprm) (x : prmline) : userprm :=
  match x with
  | PLRef off id => match zmap_get id defs with Some d => push_ref p off d | None => p end
  | PLConst off v => push_const p off v
  | _ => p
  end.
Definition legacy_step (p : userprm) (x : prmline) : userprm :=
  match x with
  | PLLen n => mkPrm n (up_const p) (up_ref p)
  | PLData v => push_const p 0 v
  | _ => p
  end.

Lemma ext_prm_snoc : forall defs l x, ext_prm defs (l ++ [x]) = ext_step defs (ext_prm defs l) x.
Proof. intros defs l x. unfold ext_prm. rewrite fold_left_app. reflexivity. Qed.
Lemma legacy_prm_snoc : forall l x, legacy_prm (l ++ [x]) = legacy_step (legacy_prm l) x.
Proof. intros l x. unfold legacy_prm. rewrite fold_left_app. reflexivity. Qed.

Lemma prmlines_app : forall p q, prmlines_of (p ++ q) = prmlines_of p ++ prmlines_of q.
Proof. intros p q. unfold prmlines_of, sets_of. rewrite !flat_map_app. reflexivity. Qed.
Lemma texts_app : forall p q, texts_of (p ++ q) = texts_of p ++ texts_of q.
Proof. intros p q. unfold texts_of. apply flat_map_app. Qed.
Lemma defs_app : forall T p q, defs_with T (p ++ q) = defs_with T p ++ defs_with T q.
Proof. intros T p q. unfold defs_with. apply flat_map_app. Qed.
Lemma modules_app : forall p q, modules_of (p ++ q) = modules_of p ++ modules_of q.
Proof. intros p q. unfold modules_of. apply flat_map_app. Qed.

(* module items resolve their references in any environment that contains the definitions they found *)
Lemma mitems_env : forall defs1 defs2 items a,
  (forall k v, zmap_get k defs1 = Some v -> zmap_get k defs2 = Some v) ->
  forallb (mitem_okb defs1) items = true ->
  fold_left (apply_mitem defs1) items a = fold_left (apply_mitem defs2) items a.
Proof.
  intros defs1 defs2 items. induction items as [| i items IH]; intros a Hsub H; [reflexivity |].
  cbn [forallb] in H. apply andb_true_iff in H. destruct H as [Hi Hr]. cbn [fold_left].
  assert (E : apply_mitem defs1 a i = apply_mitem defs2 a i).
  { destruct i as [[key idx val] | n | tx ks]; try reflexivity.
    unfold apply_mitem, mitem_okb in *. cbn [se_key se_idx se_val] in *.
    destruct (mset_key _); try reflexivity. destruct idx as [off |]; try reflexivity.
    destruct val as [id | | |]; try reflexivity.
    apply andb_true_iff in Hi. destruct Hi as [_ Hd].
    destruct (zmap_get (wnum_value id) defs1) as [d |] eqn:E1; [| discriminate Hd].
    rewrite (Hsub _ _ E1). reflexivity. }
  rewrite E. apply IH; assumption.
Qed.

Lemma set_prmline_short : forall y, set_prmline y = [] \/ exists l, set_prmline y = [l].
Proof.
  intros [key idx val]. unfold set_prmline. cbn [se_key se_idx se_val].
  destruct (set_action _) as [[f' | f' | f' | mask | sp] |]; try (left; reflexivity);
    destruct sp; destruct idx; destruct val; cbn [as_numlist]; try (left; reflexivity); right; eexists; reflexivity.
Qed.

Lemma set_legacy_step : forall s y, set_okb s y = true ->
  s_legacy (apply_set s y) =
  match set_prmline y with
  | [l] => if is_ext l then None else match s_legacy s with Some prm => Some (legacy_step prm l) | None => None end
  | _ => s_legacy s
  end.
Proof.
  intros s [key idx val] Hok. unfold apply_set, set_prmline, set_okb in *. cbn [se_key se_idx se_val] in *.
  destruct (set_action _) as [[f' | f' | f' | mask | sp] |]; [| | | | | reflexivity];
    try destruct sp; destruct idx; destruct val; try reflexivity; cbn [as_numlist is_ext legacy_step] in *;
    try discriminate Hok;
    try (apply andb_true_iff in Hok; destruct Hok as [_ Hok]);
    repeat match goal with
           | |- context [match ?z with _ => _ end] => destruct z eqn:?
           end; try reflexivity; try congruence; discriminate Hok.
Qed.

Section Loop.
  Variable stmts : list wstmt.
  Hypothesis Huniq : ids_unique stmts = true.

  Let TT := texts_of stmts.
  Let DD := defs_of stmts.

  Definition Inv (p : list wstmt) (s : st) : Prop :=
    (forall k, zmap_get k (s_texts s) = zmap_get k (texts_of p)) /\
    (forall k, zmap_get k (s_defs s) = zmap_get k (defs_with TT p)) /\
    d_prm (s_gsd s) = ext_prm DD (prmlines_of p) /\
    s_legacy s = (if existsb is_ext (prmlines_of p) then None else Some (legacy_prm (prmlines_of p))) /\
    d_modules (s_gsd s) = map (wmodule_den DD) (modules_of p).

  Lemma texts_prefix : forall p q k v, stmts = p ++ q -> zmap_get k (texts_of p) = Some v -> zmap_get k TT = Some v.
  Proof. intros p q k v E H. unfold TT. rewrite E, texts_app. apply zmap_get_app_l. exact H. Qed.

  Lemma defs_prefix : forall p q k v, stmts = p ++ q -> zmap_get k (defs_with TT p) = Some v -> zmap_get k DD = Some v.
  Proof.
    intros p q k v E H. unfold DD, defs_of. fold TT.
    replace (defs_with TT stmts) with (defs_with TT p ++ defs_with TT q) by (rewrite <- defs_app, <- E; reflexivity).
    apply zmap_get_app_l. exact H.
  Qed.

  Lemma inv_step : forall p x q s, stmts = p ++ x :: q -> stmt_okb s x = true -> Inv p s -> Inv (p ++ [x]) (apply_stmt s x).
  Proof.
    intros p x q s E Hok [I1 [I2 [I3 [I4 I5]]]].
    assert (E' : stmts = (p ++ [x]) ++ q) by (rewrite <- app_assoc; exact E).
    unfold ids_unique in Huniq. apply andb_true_iff in Huniq. destruct Huniq as [Ut Ud].
    unfold Inv. rewrite texts_app, defs_app, prmlines_app, modules_app.
    destruct x as [y | id es | d | a b es | m | tx l | t].
    - (* setting *)
      destruct (set_parts s y) as [Pe Pm]. unfold envpart, modpart in Pe, Pm. injection Pe as Pt Pd.
      cbn [apply_stmt]. rewrite Pt, Pd, Pm.
      change (texts_of [WSetS y]) with (@nil (Z * list (str * Z))). change (defs_with TT [WSetS y]) with (@nil (Z * prmdef)).
      change (modules_of [WSetS y]) with (@nil wmodule). rewrite !app_nil_r.
      split; [exact I1 |]. split; [exact I2 |]. split; [| split; [| exact I5]].
      + (* d_prm *)
        change (prmlines_of [WSetS y]) with (set_prmline y ++ []). rewrite app_nil_r.
        cbn [stmt_okb] in Hok. destruct y as [key idx val].
        unfold apply_set, set_prmline, set_okb in *. cbn [se_key se_idx se_val] in *.
        destruct (set_action _) as [[f' | f' | f' | mask | sp] |];
          try (rewrite app_nil_r; destruct idx; destruct val; try exact I3; crush_matches; exact I3).
        destruct sp; destruct idx as [off |]; destruct val as [n | w | l | t]; try (rewrite app_nil_r; exact I3);
          cbn [as_numlist] in *; try (rewrite app_nil_r; crush_matches; exact I3);
          rewrite ext_prm_snoc; cbn [ext_step];
          try (cbn [with_legacy with_gsd s_gsd set_prm d_prm]; rewrite I3; reflexivity);
          try (crush_matches; cbn [with_legacy with_gsd s_gsd set_prm d_prm]; exact I3).
        (* reference *)
        apply andb_true_iff in Hok. destruct Hok as [_ Hd].
        destruct (zmap_get (wnum_value n) (s_defs s)) as [df |] eqn:Ed; [| discriminate Hd].
        rewrite I2 in Ed. rewrite (defs_prefix p (WSetS (mkSet key (Some off) (VNum n)) :: q) _ _ E Ed).
        cbn [with_legacy with_gsd s_gsd set_prm d_prm]. rewrite I3. reflexivity.
      + (* legacy *)
        change (prmlines_of [WSetS y]) with (set_prmline y ++ []). rewrite app_nil_r.
        rewrite set_legacy_step by exact Hok.
        destruct (set_prmline_short y) as [-> | [l ->]]; [rewrite app_nil_r; exact I4 |].
        rewrite existsb_app, legacy_prm_snoc. cbn [existsb]. rewrite orb_false_r, I4.
        destruct (existsb is_ext (prmlines_of p)); destruct (is_ext l); reflexivity.
    - (* PrmText *)
      cbn [apply_stmt]. cbn [with_texts s_texts s_defs s_gsd s_legacy].
      change (defs_with TT [WText id es]) with (@nil (Z * prmdef)). change (prmlines_of [WText id es]) with (@nil prmline).
      change (modules_of [WText id es]) with (@nil wmodule). rewrite !app_nil_r.
      split; [| repeat split; assumption].
      intros k. rewrite zmap_get_insert, zmap_get_app, I1. cbn [texts_of flat_map app zmap_get].
      destruct (Z.eqb_spec k (wnum_value id)) as [-> | Hne]; [| destruct (zmap_get k (texts_of p)); reflexivity].
      rewrite zmap_get_notin; [reflexivity |].
      rewrite E, texts_app, map_app in Ut. cbn [texts_of flat_map app map fst] in Ut.
      exact (nodupz_app_mid _ _ _ Ut).
    - (* ExtUserPrmData *)
      cbn [apply_stmt]. cbn [with_defs s_texts s_defs s_gsd s_legacy].
      change (texts_of [WDef d]) with (@nil (Z * list (str * Z))). change (prmlines_of [WDef d]) with (@nil prmline).
      change (modules_of [WDef d]) with (@nil wmodule). rewrite !app_nil_r.
      split; [exact I1 |]. split; [| repeat split; assumption].
      assert (Ed : wdef_den (s_texts s) d = wdef_den TT d).
      { cbn [stmt_okb] in Hok. unfold wdef_okb in Hok. unfold wdef_den.
        destruct (wd_tref d) as [r |]; [| reflexivity].
        repeat (apply andb_true_iff in Hok; destruct Hok as [Hok ?]).
        match goal with H : _ && _ = true |- _ => apply andb_true_iff in H; destruct H as [_ Hz] end.
        destruct (zmap_get (wnum_value r) (s_texts s)) as [tb |] eqn:Et; [| discriminate Hz].
        rewrite I1 in Et. rewrite (texts_prefix p (WDef d :: q) _ _ E Et). reflexivity. }
      intros k. rewrite zmap_get_insert, zmap_get_app, I2, Ed. cbn [defs_with flat_map app zmap_get].
      destruct (Z.eqb_spec k (wnum_value (wd_id d))) as [-> | Hne]; [| destruct (zmap_get k (defs_with TT p)); reflexivity].
      rewrite zmap_get_notin; [reflexivity |].
      unfold defs_of in Ud. fold TT in Ud. rewrite E, defs_app, map_app in Ud. cbn [defs_with flat_map app map fst] in Ud.
      exact (nodupz_app_mid _ _ _ Ud).
    - (* Unit_Diag_Area *)
      cbn [apply_stmt]. rewrite !app_nil_r. repeat split; assumption.
    - (* Module *)
      cbn [apply_stmt]. cbn [with_gsd set_modules s_texts s_defs s_gsd s_legacy d_prm d_modules].
      change (texts_of [WModule m]) with (@nil (Z * list (str * Z))). change (defs_with TT [WModule m]) with (@nil (Z * prmdef)).
      change (prmlines_of [WModule m]) with (@nil prmline). rewrite !app_nil_r.
      split; [exact I1 |]. split; [exact I2 |]. split; [exact I3 |]. split; [exact I4 |].
      rewrite map_app, I5. cbn [modules_of flat_map app map]. f_equal. f_equal.
      unfold wmodule_den. cbv zeta. cbn [stmt_okb] in Hok. unfold wmodule_okb in Hok.
      apply andb_true_iff in Hok. destruct Hok as [_ Hi].
      rewrite (mitems_env (s_defs s) DD (wm_items m)); [reflexivity | | exact Hi].
      intros k v Hk. rewrite I2 in Hk. exact (defs_prefix p (WModule m :: q) _ _ E Hk).
    - (* SlotDefinition *)
      cbn [apply_stmt]. destruct (slots_parts l s) as [Pe [Pp Pm]]. unfold envpart, prmpart, modpart in *.
      injection Pe as Pt Pd. injection Pp as Pp Pl. rewrite Pt, Pd, Pp, Pl, Pm.
      change (texts_of [WSlots tx l]) with (@nil (Z * list (str * Z))). change (defs_with TT [WSlots tx l]) with (@nil (Z * prmdef)).
      change (prmlines_of [WSlots tx l]) with (@nil prmline). change (modules_of [WSlots tx l]) with (@nil wmodule).
      rewrite !app_nil_r. repeat split; assumption.
    - cbn [apply_stmt]. rewrite !app_nil_r. repeat split; assumption.
  Qed.

  Lemma inv_fold : forall q p s, stmts = p ++ q -> stmts_okb s q = true -> Inv p s -> Inv stmts (fold_left apply_stmt q s).
  Proof.
    induction q as [| x q IH]; intros p s E Hok HI.
    - rewrite app_nil_r in E. subst p. exact HI.
    - cbn [stmts_okb] in Hok. apply andb_true_iff in Hok. destruct Hok as [Hx Hq]. cbn [fold_left].
      apply (IH (p ++ [x])); [rewrite <- app_assoc; exact E | exact Hq |].
      exact (inv_step p x q s E Hx HI).
  Qed.

  Lemma inv_final : file_okb stmts = true -> Inv stmts (fold_left apply_stmt stmts st_init).
  Proof.
    intros Hok. apply (inv_fold stmts [] st_init); [reflexivity | exact Hok |].
    unfold Inv. repeat split; reflexivity.
  Qed.
End Loop.

(* ------------------------------------------------------------------------------------------ (2)(3)(4) definitions, parameter data, modules *)

Lemma final_prm : forall s, d_prm (final_desc s) = match s_legacy s with Some prm => prm | None => d_prm (s_gsd s) end.
Proof. intros s. unfold final_desc. cbv zeta. destruct (s_legacy s); destruct (s_maxspan s); destruct (d_flag _ _); reflexivity. Qed.
Lemma final_modules : forall s, d_modules (final_desc s) = d_modules (s_gsd s).
Proof. intros s. unfold final_desc. cbv zeta. destruct (s_legacy s); destruct (s_maxspan s); destruct (d_flag _ _); reflexivity. Qed.
Lemma final_slots : forall s, d_slots (final_desc s) = d_slots (s_gsd s).
Proof. intros s. unfold final_desc. cbv zeta. destruct (s_legacy s); destruct (s_maxspan s); destruct (d_flag _ _); reflexivity. Qed.

Lemma nodupz_lookup : forall {A} (l : list (Z * A)) k v, nodupz (map fst l) = true -> In (k, v) l -> zmap_get k l = Some v.
Proof.
  intros A l k v. induction l as [| [k0 v0] l IH]; intros Hn Hin; [destruct Hin |].
  cbn [map fst nodupz] in Hn. apply andb_true_iff in Hn. destruct Hn as [Hk Hr]. apply negb_true_iff in Hk.
  cbn [zmap_get]. destruct Hin as [Heq | Hin].
  - injection Heq as -> ->. rewrite Z.eqb_refl. reflexivity.
  - destruct (Z.eqb_spec k k0) as [-> | Hne]; [| apply IH; assumption].
    exfalso. assert (E : existsb (Z.eqb k0) (map fst l) = true).
    { apply existsb_exists. exists k0. split; [| apply Z.eqb_refl]. apply in_map_iff. exists (k0, v). split; [reflexivity | exact Hin]. }
    rewrite E in Hk. discriminate Hk.
Qed.

Theorem roundtrip_prm_modules : forall stmts, file_okb stmts = true -> ids_unique stmts = true ->
  exists d w, file_says stmts = POk (d, w) /\
    (* every PrmText table and every ExtUserPrmData definition is found under its id ... *)
    (forall id es, In (WText id es) stmts -> zmap_get (wnum_value id) (texts_of stmts) = Some (table_of es)) /\
    (forall x, In (WDef x) stmts ->
       zmap_get (wnum_value (wd_id x)) (defs_of stmts) = Some (wdef_den (texts_of stmts) x)) /\
    (* ... the station's user parameter data is what the Ext_ lines (or else the legacy lines) say ... *)
    d_prm d = prm_said (defs_of stmts) (prmlines_of stmts) /\
    (* ... and the modules are the Module blocks, in order *)
    d_modules d = map (wmodule_den (defs_of stmts)) (modules_of stmts).
Proof.
  intros stmts Hok Hu. destruct (file_says_final stmts) as [w Hw].
  exists (final_desc (fold_left apply_stmt stmts st_init)), w. split; [exact Hw |].
  destruct (inv_final stmts Hu Hok) as [I1 [I2 [I3 [I4 I5]]]].
  pose proof Hu as Hu'. unfold ids_unique in Hu'. apply andb_true_iff in Hu'. destruct Hu' as [Ut Ud].
  split; [| split; [| split]].
  - intros id es Hin. apply nodupz_lookup; [exact Ut |]. unfold texts_of. apply in_flat_map.
    exists (WText id es). split; [exact Hin | left; reflexivity].
  - intros x Hin. apply nodupz_lookup; [exact Ud |]. unfold defs_of, defs_with. apply in_flat_map.
    exists (WDef x). split; [exact Hin | left; reflexivity].
  - rewrite final_prm, I4, I3. unfold prm_said. destruct (existsb is_ext (prmlines_of stmts)); reflexivity.
  - rewrite final_modules. exact I5.
Qed.

(* ------------------------------------------------------------------------------------------ (4) slots *)

Lemma find_all_fst : forall ms refs w1 w2, fst (find_all ms refs w1) = fst (find_all ms refs w2).
Proof.
  intros ms. induction refs as [| x r IH]; intros w1 w2; [reflexivity |]. cbn [find_all].
  destruct (find_module ms x).
  - specialize (IH w1 w2). destruct (find_all ms r w1), (find_all ms r w2). cbn [fst] in *. congruence.
  - apply IH.
Qed.

Lemma nonmodule_modpart : forall s x, is_module x = false -> modpart (apply_stmt s x) = modpart s.
Proof.
  intros s x H. destruct x as [y | id es | d | a b es | m | tx l | t]; try reflexivity; try discriminate H.
  - apply set_parts.
  - apply slots_parts.
Qed.

Lemma nomodules_modpart : forall r s, existsb is_module r = false -> modpart (fold_left apply_stmt r s) = modpart s.
Proof.
  induction r as [| x r IH]; intros s H; [reflexivity |].
  cbn [existsb] in H. apply orb_false_iff in H. destruct H as [Hx Hr]. cbn [fold_left].
  rewrite IH by exact Hr. apply nonmodule_modpart. exact Hx.
Qed.

Lemma set_slots_part : forall s y, d_slots (s_gsd (apply_set s y)) = d_slots (s_gsd s).
Proof.
  intros s [key idx val]. unfold apply_set. cbn [se_key se_idx se_val].
  destruct (set_action _) as [[f' | f' | f' | mask | sp] |]; [| | | | | reflexivity];
    try destruct sp; destruct idx; destruct val; try reflexivity; crush_matches; reflexivity.
Qed.

Lemma slots_block : forall l s, slots_okb s l = true ->
  map Some (d_slots (s_gsd (fold_left apply_slot l s))) =
  map Some (d_slots (s_gsd s)) ++ map (slot_den (d_modules (s_gsd s))) l.
Proof.
  induction l as [| sl l IH]; intros s H; [rewrite app_nil_r; reflexivity |].
  cbn [slots_okb] in H. apply andb_true_iff in H. destruct H as [Hs Hl]. cbn [fold_left].
  rewrite IH by exact Hl.
  unfold wslot_okb in Hs. apply andb_true_iff in Hs. destruct Hs as [_ Hf].
  unfold apply_slot, slot_den. cbv zeta.
  destruct (find_module (d_modules (s_gsd s)) (wnum_value (wl_default sl))) as [dflt |] eqn:Ef; [| discriminate Hf].
  cbn [with_warn with_gsd s_gsd set_slots d_slots d_modules]. rewrite map_app, <- app_assoc. cbn [map app].
  rewrite Ef. rewrite (find_all_fst _ _ (s_warn s) 0). reflexivity.
Qed.

Lemma slots_fold : forall q s, modules_first q = true -> stmts_okb s q = true ->
  map Some (d_slots (s_gsd (fold_left apply_stmt q s))) =
  map Some (d_slots (s_gsd s)) ++ map (slot_den (d_modules (s_gsd (fold_left apply_stmt q s)))) (slots_of q).
Proof.
  induction q as [| x r IH]; intros s Hm Hok; [rewrite app_nil_r; reflexivity |].
  cbn [stmts_okb] in Hok. apply andb_true_iff in Hok. destruct Hok as [Hx Hr]. cbn [fold_left].
  destruct x as [y | id es | d | a b es | m | tx l | t]; cbn [modules_first] in Hm;
    try (rewrite (IH _ Hm Hr); reflexivity).
  - rewrite (IH _ Hm Hr). cbn [apply_stmt]. rewrite set_slots_part. reflexivity.
  - apply andb_true_iff in Hm. destruct Hm as [Hn Hm]. apply negb_true_iff in Hn.
    rewrite (IH _ Hm Hr). cbn [apply_stmt stmt_okb] in *.
    change (slots_of (WSlots tx l :: r)) with (l ++ slots_of r). rewrite map_app, app_assoc. f_equal.
    rewrite slots_block by exact Hx. f_equal.
    pose proof (nomodules_modpart r (fold_left apply_slot l s) Hn) as M. unfold modpart in M. rewrite M.
    destruct (slots_parts l s) as [_ [_ M2]]. unfold modpart in M2. rewrite M2. reflexivity.
Qed.

Theorem roundtrip_slots : forall stmts, file_okb stmts = true -> modules_first stmts = true ->
  exists d w, file_says stmts = POk (d, w) /\
    map Some (d_slots d) = map (slot_den (d_modules d)) (slots_of stmts).
Proof.
  intros stmts Hok Hm. destruct (file_says_final stmts) as [w Hw].
  exists (final_desc (fold_left apply_stmt stmts st_init)), w. split; [exact Hw |].
  rewrite final_slots, final_modules. exact (slots_fold stmts st_init Hm Hok).
Qed.
