From PB Require Import Common Telegram CodecOracle ByteFacts.

(* ------------------------------------------------------------- index-free spec of the body *)

Definition take_sap (has : bool) (p : bytes) : option (option Z * bytes) :=
  if has then match p with [] => None | s :: p' => Some (Some s, p') end else Some (None, p).

Definition body_spec (da' sa' fcb : Z) (payload : bytes) (cks e : Z) (bl : nat) : dres :=
  let has_dsap := negb (Z.land da' 128 =? 0) in
  let da := if has_dsap then Z.land da' 127 else da' in
  let has_ssap := negb (Z.land sa' 128 =? 0) in
  let sa := if has_ssap then Z.land sa' 127 else sa' in
  match fc_from_byte fcb with
  | None => Reject
  | Some fc =>
      match take_sap has_dsap payload with
      | None => Reject
      | Some (dsap, p1) =>
          match take_sap has_ssap p1 with
          | None => Reject
          | Some (ssap, p2) =>
              if negb (cks =? sum8 (da' :: sa' :: fcb :: payload)) then Reject
              else if negb (e =? ED) then Reject
              else Accept (TData (mkHeader da sa dsap ssap fc) p2) bl
          end
      end
  end.

Lemma decode_body_spec x da' sa' fcb payload cks e rest bl :
  decode_body (x :: da' :: sa' :: fcb :: payload ++ cks :: e :: rest) (length payload) bl =
  Ok (body_spec da' sa' fcb payload cks e bl).
Proof.
  unfold decode_body, body_spec.
  cbn [length]. rewrite app_length. cbn [length].
  destruct (Nat.ltb_spec (S (S (S (S (length payload + S (S (length rest))))))) (length payload + 6)) as [H|_]; [lia|].
  cbn [slice_from length Nat.leb bind get nth_error skipn].
  destruct (fc_from_byte fcb) as [fc|]; [|reflexivity].
  rewrite ?app_length; cbn [length Nat.leb bind].
  (* the checksum slice does not depend on the SAP branches *)
  assert (CS : slice_to (da' :: sa' :: fcb :: payload ++ cks :: e :: rest) (length payload + 3) =
               Ok (da' :: sa' :: fcb :: payload)).
  { change (da' :: sa' :: fcb :: payload ++ cks :: e :: rest) with ((da' :: sa' :: fcb :: payload) ++ cks :: e :: rest).
    apply slice_to_app_exact. cbn [length]. lia. }
  rewrite CS. clear CS.
  destruct (negb (Z.land da' 128 =? 0)); destruct (negb (Z.land sa' 128 =? 0)); cbn [take_sap bind].
  - destruct payload as [|d [|s p2]]; cbn [app get nth_error bind length Nat.ltb Nat.leb Nat.sub slice_from skipn take_sap]; try reflexivity.
    rewrite ?app_length; cbn [length Nat.leb bind].
    rewrite slice_to_app_exact by lia. cbn [bind].
    rewrite get_app_exact by lia. cbn [bind].
    cbn [bind].
    destruct (negb (cks =? _)); [reflexivity|].
    rewrite get_app_exact1 by lia. cbn [bind]. destruct (negb (e =? ED)); reflexivity.
  - destruct payload as [|d p2]; cbn [app get nth_error bind length Nat.ltb Nat.leb Nat.sub slice_from skipn take_sap]; try reflexivity.
    rewrite ?app_length; cbn [length Nat.leb bind].
    rewrite slice_to_app_exact by lia. cbn [bind].
    rewrite get_app_exact by lia. cbn [bind].
    cbn [bind].
    destruct (negb (cks =? _)); [reflexivity|].
    rewrite get_app_exact1 by lia. cbn [bind]. destruct (negb (e =? ED)); reflexivity.
  - destruct payload as [|s p2]; cbn [app get nth_error bind length Nat.ltb Nat.leb Nat.sub slice_from skipn take_sap]; try reflexivity.
    rewrite ?app_length; cbn [length Nat.leb bind].
    rewrite slice_to_app_exact by lia. cbn [bind].
    rewrite get_app_exact by lia. cbn [bind].
    cbn [bind].
    destruct (negb (cks =? _)); [reflexivity|].
    rewrite get_app_exact1 by lia. cbn [bind]. destruct (negb (e =? ED)); reflexivity.
  - rewrite slice_to_app_exact by lia. cbn [bind].
    rewrite get_app_exact by lia. cbn [bind].
    cbn [bind].
    destruct (negb (cks =? _)); [reflexivity|].
    rewrite get_app_exact1 by lia. cbn [bind]. destruct (negb (e =? ED)); reflexivity.
Qed.

(* ------------------------------------------------------------- header *)

Definition header_spec (l : bytes) : option (bytes * nat * nat) :=
  match l with
  | b0 :: b1 :: b2 :: b3 :: _ =>
      if b0 =? SD1 then Some (l, 0%nat, 6%nat)
      else if b0 =? SD2 then
        if negb (b1 =? b2) then None
        else if negb (b3 =? SD2) then None
        else if b1 <? 3 then None
        else Some (skipn 3 l, Z.to_nat (b1 - 3), (Z.to_nat b1 + 6)%nat)
      else if b0 =? SD3 then Some (l, 8%nat, 14%nat)
      else None
  | _ => None
  end.

Lemma decode_header_spec l : (4 <= length l)%nat -> decode_header l = Ok (header_spec l).
Proof.
  intros H. destruct l as [|b0 [|b1 [|b2 [|b3 t]]]]; cbn [length] in H; try lia.
  unfold decode_header, header_spec. cbn [get nth_error bind slice_from length Nat.leb skipn].
  destruct (b0 =? SD1); [reflexivity|]. destruct (b0 =? SD2); [|destruct (b0 =? SD3); reflexivity].
  destruct (negb (b1 =? b2)); [reflexivity|]. destruct (negb (b3 =? SD2)); [reflexivity|].
  destruct (b1 <? 3); reflexivity.
Qed.

Lemma decode_data_spec l : (6 <= length l)%nat ->
  decode_data l = match header_spec l with
                  | None => Ok Reject
                  | Some (b, n, bl) => decode_body b n bl
                  end.
Proof.
  intros H. unfold decode_data. destruct (Nat.ltb_spec (length l) 6) as [H'|_]; [lia|].
  rewrite decode_header_spec by lia. cbn [bind]. destruct (header_spec l) as [[[b n] bl]|]; reflexivity.
Qed.

(* ------------------------------------------------------------- body, for an arbitrary buffer *)

Definition body_of (buffer : bytes) (n bl : nat) : dres :=
  body_spec (nth 1 buffer 0) (nth 2 buffer 0) (nth 3 buffer 0) (firstn n (skipn 4 buffer))
            (nth (n + 4) buffer 0) (nth (n + 5) buffer 0) bl.

Lemma split_buffer (buffer : bytes) n : (n + 6 <= length buffer)%nat ->
  exists x da' sa' fcb payload cks e rest,
    buffer = x :: da' :: sa' :: fcb :: payload ++ cks :: e :: rest /\ length payload = n.
Proof.
  intros H. destruct buffer as [|x [|da' [|sa' [|fcb t]]]]; cbn [length] in H; try lia.
  assert (Ht : (n + 2 <= length t)%nat) by lia.
  destruct (skipn n t) as [|cks [|e rest]] eqn:E.
  - apply (f_equal (@length Z)) in E. rewrite skipn_length in E. cbn in E. lia.
  - apply (f_equal (@length Z)) in E. rewrite skipn_length in E. cbn in E. lia.
  - exists x, da', sa', fcb, (firstn n t), cks, e, rest. split.
    + rewrite <- E, firstn_skipn. reflexivity.
    + rewrite firstn_length. lia.
Qed.

Lemma decode_body_short buffer n bl : (length buffer < n + 6)%nat -> decode_body buffer n bl = Ok NeedMore.
Proof. intros H. unfold decode_body. destruct (Nat.ltb_spec (length buffer) (n + 6)); [reflexivity|lia]. Qed.

Lemma decode_body_long buffer n bl : (n + 6 <= length buffer)%nat -> decode_body buffer n bl = Ok (body_of buffer n bl).
Proof.
  intros H. destruct (split_buffer buffer n H) as (x & da' & sa' & fcb & payload & cks & e & rest & -> & <-).
  rewrite decode_body_spec. unfold body_of. f_equal.
  cbn [nth skipn]. rewrite firstn_app_exact by reflexivity.
  replace (length payload + 4)%nat with (S (S (S (S (length payload))))) by lia.
  replace (length payload + 5)%nat with (S (S (S (S (length payload + 1))))) by lia.
  cbn [nth].
  rewrite app_nth2 by lia. rewrite Nat.sub_diag. cbn [nth].
  rewrite app_nth2 by lia. replace (length payload + 1 - length payload)%nat with 1%nat by lia. reflexivity.
Qed.

Lemma body_spec_not_needmore da' sa' fcb payload cks e bl : body_spec da' sa' fcb payload cks e bl <> NeedMore.
Proof.
  unfold body_spec. destruct (fc_from_byte fcb); [|discriminate].
  destruct (take_sap _ payload) as [[dsap p1]|]; [|discriminate].
  destruct (take_sap _ p1) as [[ssap p2]|]; [|discriminate].
  destruct (negb (cks =? _)); [discriminate|]. destruct (negb (e =? ED)); discriminate.
Qed.

(* ------------------------------------------------------------- the whole decoder *)

Definition decode_spec (l : bytes) : dres :=
  match l with
  | [] => NeedMore
  | b0 :: _ =>
      if b0 =? SC then Accept TShortConf 1
      else if b0 =? SD4 then
        if Nat.ltb (length l) 3 then NeedMore else Accept (TToken (nth 1 l 0) (nth 2 l 0)) 3
      else if (b0 =? SD1) || (b0 =? SD2) || (b0 =? SD3) then
        if Nat.ltb (length l) 6 then NeedMore else
        match header_spec l with
        | None => Reject
        | Some (b, n, bl) => if Nat.ltb (length b) (n + 6) then NeedMore else body_of b n bl
        end
      else Reject
  end.

Theorem decode_is_spec l : decode l = Ok (decode_spec l).
Proof.
  unfold decode, decode_spec. destruct l as [|b0 t]; [reflexivity|].
  destruct (b0 =? SC); [reflexivity|]. destruct (b0 =? SD4).
  - destruct (Nat.ltb_spec (length (b0 :: t)) 3) as [H|H]; [reflexivity|].
    destruct t as [|b1 [|b2 t]]; cbn [length] in H; try lia. reflexivity.
  - destruct ((b0 =? SD1) || (b0 =? SD2) || (b0 =? SD3)); [|reflexivity].
    destruct (Nat.ltb_spec (length (b0 :: t)) 6) as [H|H].
    + unfold decode_data. destruct (Nat.ltb_spec (length (b0 :: t)) 6); [reflexivity|lia].
    + rewrite decode_data_spec by exact H. destruct (header_spec (b0 :: t)) as [[[b n] bl]|]; [|reflexivity].
      destruct (Nat.ltb_spec (length b) (n + 6)) as [Hs|Hl].
      * apply decode_body_short, Hs.
      * apply decode_body_long, Hl.
Qed.
