From PB Require Import Rotation.

Lemma t_mono r : trace_wf r -> forall a b, (a <= b)%nat -> rt_t r a <= rt_t r b.
Proof.
  intros [_ W] a b H. induction H as [|b H IH]; [lia|].
  destruct (W b) as (E & Hh & Ho). lia.
Qed.

(* within one rotation after visit v, m hops cost at most TTR + m (C + O) *)
Lemma rotation_prefix r TTR C O : trace_wf r -> obeys_hold_rule r TTR C O -> 0 <= TTR -> 0 <= C -> 0 <= O ->
  forall v, (rt_n r <= v)%nat -> forall m, (m <= rt_n r)%nat ->
  rt_t r (v + m) <= rt_t r v + TTR + Z.of_nat m * (C + O).
Proof.
  intros W Hr HT HC HO v Hv m. induction m as [|m IH]; intros Hm.
  - rewrite Nat.add_0_r. lia.
  - replace (v + S m)%nat with (S (v + m)) by lia.
    destruct W as [Wn W]. destruct (W (v + m)%nat) as (E & Hh & Ho).
    destruct (Hr (v + m)%nat ltac:(lia)) as [Hhold Hover].
    assert (Hprev : rt_t r (v + m - rt_n r) <= rt_t r v).
    { apply (t_mono r (conj Wn W)). lia. }
    specialize (IH ltac:(lia)). rewrite E. rewrite Nat2Z.inj_succ. lia.
Qed.

Theorem rotation_bound r TTR C O : trace_wf r -> obeys_hold_rule r TTR C O -> 0 <= TTR -> 0 <= C -> 0 <= O ->
  forall v, (rt_n r <= v)%nat ->
  rt_t r (v + rt_n r) - rt_t r v <= TTR + Z.of_nat (rt_n r) * (C + O).
Proof.
  intros W Hr HT HC HO v Hv.
  pose proof (rotation_prefix r TTR C O W Hr HT HC HO v Hv (rt_n r) ltac:(lia)). lia.
Qed.

(* non-vacuity: a 3-station ring in which everybody holds the token for 10 and passes in 1 *)
Definition example_trace : rotation_trace :=
  mkTrace 3 (fun v => Z.of_nat v * 11) (fun _ => 10) (fun _ => 1).

Lemma example_trace_ok : trace_wf example_trace /\ obeys_hold_rule example_trace 100 10 1.
Proof.
  split.
  - split; [cbn; lia|]. intros v. cbn [example_trace rt_t rt_h rt_o]. rewrite Nat2Z.inj_succ. lia.
  - intros v Hv. cbn [example_trace rt_t rt_h rt_o rt_n] in *. lia.
Qed.
