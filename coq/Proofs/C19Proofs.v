(* C19 - the interpretation step of the GSD parser cannot panic on a pair tree that has the shape the
   grammar prescribes (for ALL such trees), plus the pieces of the fidelity half that are proved. *)
From PB Require Import Common GsdGrammar GsdTables GsdInterp GsdShape C19Shape.

Notation np := no_panic.

Lemma np_bind : forall {A B} (a : pr A) (f : A -> pr B),
  np a -> (forall x, a = POk x -> np (f x)) -> np (pbind a f).
Proof. intros A B a f Ha Hf. destruct a; cbn; auto. Qed.

Definition is_num (r : rule) : Prop := r = R_hex_number \/ r = R_dec_number.

(* ------------------------------------------------------------------------------------------ helpers *)

Lemma parse_number_np : forall m p, np (parse_number m p).
Proof.
  intros m p. unfold parse_number. destruct (root p); cbv iota; try exact I;
    destruct (from_str_radix _ _ _ _ _); try exact I; destruct (_ <=? _); exact I.
Qed.

Lemma map_parse_number_np : forall m l, np (map_pr (parse_number m) l).
Proof.
  intros m l. induction l as [| a l IH]; cbn [map_pr]; [exact I |].
  apply np_bind; [apply parse_number_np | intros x _].
  apply np_bind; [exact IH | intros y _; exact I].
Qed.

Lemma parse_number_list_np : forall m p, np (parse_number_list m p).
Proof.
  intros m p. unfold parse_number_list. destruct (root p); cbv iota; try exact I.
  - apply np_bind; [apply parse_number_np | intros x _; exact I].
  - apply np_bind; [apply parse_number_np | intros x _; exact I].
  - apply map_parse_number_np.
Qed.

Lemma parse_bool_np : forall p, np (parse_bool p).
Proof. intros p. unfold parse_bool. apply np_bind; [apply parse_number_np | intros x _; exact I]. Qed.

Lemma parse_string_np : forall p, np (parse_string p).
Proof. intros p. unfold parse_string. destruct (root p); exact I. Qed.

Lemma parse_signed_np : forall p, is_num (root p) -> np (parse_signed p).
Proof.
  intros p [H | H]; unfold parse_signed; rewrite H; cbv iota;
    destruct (from_str_radix _ _ _ _ _); exact I.
Qed.

Lemma map_parse_signed_np : forall l, Forall (fun c => is_num (root c)) l -> np (map_pr parse_signed l).
Proof.
  intros l H. induction H as [| a l Ha Hl IH]; cbn [map_pr]; [exact I |].
  apply np_bind; [apply parse_signed_np; exact Ha | intros x _].
  apply np_bind; [exact IH | intros y _; exact I].
Qed.

Lemma next_indexed_np : forall l, np (next_indexed l).
Proof. intros [| a l]; exact I. Qed.

(* ------------------------------------------------------------------------------------------ inversion tactics *)

Definition NUM : rx := RAlt (RSym R_hex_number) (RSym R_dec_number).

Lemma kids_num_inv : forall l, Kids NUM l -> exists c, l = [c] /\ is_num (root c) /\ Shape c.
Proof.
  intros l H. apply kids_alt_inv in H. destruct H as [H | H];
    apply kids_sym_inv in H; destruct H as [c [-> [Hr Hs]]]; exists c; (split; [reflexivity |]); (split; [| exact Hs]).
  - left; exact Hr.
  - right; exact Hr.
Qed.

(* reduce `child_rx <rule>` to the expression computed from the grammar *)
Ltac crx H :=
  match type of H with
  | Kids (child_rx ?r) ?l =>
      let e := eval vm_compute in (child_rx r) in change (Kids e l) in H
  end.

(* full inversion of a star-free expression *)
Ltac kinv H :=
  lazymatch type of H with
  | Kids REps _ => apply kids_eps_inv in H; subst
  | Kids (RAlt (RSym R_hex_number) (RSym R_dec_number)) _ =>
      let c := fresh "n" in let Hr := fresh "Hn" in let Hs := fresh "Hs" in
      apply kids_num_inv in H; destruct H as [c [-> [Hr Hs]]]
  | Kids (RSym _) _ =>
      let c := fresh "c" in let Hr := fresh "Hr" in let Hs := fresh "Hs" in
      apply kids_sym_inv in H; destruct H as [c [-> [Hr Hs]]]
  | Kids (RSeq _ _) _ =>
      let l1 := fresh "la" in let l2 := fresh "lb" in let H1 := fresh "Ka" in let H2 := fresh "Kb" in
      apply kids_seq_inv in H; destruct H as [l1 [l2 [-> [H1 H2]]]]; kinv H1; kinv H2
  | Kids (RAlt _ _) _ =>
      let H1 := fresh "K" in apply kids_alt_inv in H; destruct H as [H1 | H1]; kinv H1
  | _ => idtac
  end.

(* inversion of the head of a sequence only; the tail stays as hypothesis T *)
Ltac khead H T :=
  lazymatch type of H with
  | Kids (RSeq _ _) _ =>
      let l1 := fresh "la" in let l2 := fresh "lb" in let H1 := fresh "Ka" in
      apply kids_seq_inv in H; destruct H as [l1 [l2 [-> [H1 T]]]]; kinv H1
  end.

(* a pair whose rule is known: expose the constructor *)
Ltac known c Hr :=
  let rc := fresh "r" in let tc := fresh "t" in let kc := fresh "k" in
  destruct c as [rc tc kc]; cbn [root] in Hr; subst rc.

Ltac step :=
  cbn [next_unwrap next_indexed pbind fst snd root kids text app];
  lazymatch goal with
  | |- no_panic (POk _) => exact I
  | |- no_panic PErr => exact I
  | |- no_panic (pbind (parse_number _ _) _) => apply np_bind; [apply parse_number_np | intros ? _]
  | |- no_panic (pbind (parse_string _) _) => apply np_bind; [apply parse_string_np | intros ? _]
  | |- no_panic (pbind (parse_bool _) _) => apply np_bind; [apply parse_bool_np | intros ? _]
  | |- no_panic (pbind (parse_number_list _ _) _) => apply np_bind; [apply parse_number_list_np | intros ? _]
  | |- no_panic (pbind (next_indexed _) _) => apply np_bind; [apply next_indexed_np | intros [? ?] _]
  | |- no_panic (pbind (parse_signed _) _) => apply np_bind; [apply parse_signed_np; assumption | intros ? _]
  end.

(* ------------------------------------------------------------------------------------------ prm_text *)

Lemma prm_text_values_np : forall l acc,
  Forall (fun c => root c = R_prm_text_value /\ Shape c) l -> np (prm_text_values acc l).
Proof.
  induction l as [| vp l IH]; intros acc HF; cbn [prm_text_values]; [exact I |].
  inversion HF as [| ? ? [Hr Hs] HF']; subst.
  known vp Hr. cbn [root kids]. cbv iota.
  apply shape_kids in Hs. cbn [root kids] in Hs. crx Hs. kinv Hs. known c Hr.
  repeat step. apply IH. exact HF'.
Qed.

Lemma do_prm_text_np : forall s cs, Kids (child_rx R_prm_text) cs -> np (do_prm_text s cs).
Proof.
  intros s cs H. crx H. khead H T. unfold do_prm_text. repeat step.
  apply np_bind; [| intros ? _; exact I].
  apply prm_text_values_np. apply kids_syms in T. cbn [syms app] in T.
  eapply Forall_impl; [| exact T]. intros c' [[<- | [<- | []]] HS']; split; auto.
Qed.

(* ------------------------------------------------------------------------------------------ ext_user_prm_data *)

Lemma data_type_of_np : forall p, root p = R_prm_data_type_name -> Shape p -> np (data_type_of p).
Proof.
  intros p Hr Hs. known p Hr. unfold data_type_of. cbn [root kids]. cbv iota.
  apply shape_kids in Hs. cbn [root kids] in Hs. crx Hs. kinv Hs.
  - (* bit *)
    known c Hr. apply shape_kids in Hs. cbn [root kids] in Hs. crx Hs. kinv Hs. repeat step.
  - (* bit_area *)
    known c Hr. apply shape_kids in Hs. cbn [root kids] in Hs. crx Hs. kinv Hs. repeat step.
  - (* identifier *)
    known c Hr. repeat step. cbn [next_unwrap pbind root text]. destruct (assoc_str (to_lower t0) dtype_table); exact I.
Qed.

Definition def_option_rules : list rule :=
  [R_prm_data_value_range; R_prm_data_value_set; R_prm_text_ref; R_prm_data_changeable; R_prm_data_visible].

Lemma kids_star_num : forall l, Kids (RStar NUM) l -> Forall (fun c => is_num (root c)) l.
Proof.
  intros l H. apply kids_syms in H. cbn [syms NUM app] in H.
  eapply Forall_impl; [| exact H]. intros c [[<- | [<- | []]] _]; [left | right]; reflexivity.
Qed.

Lemma def_options_np : forall l texts a,
  Forall (fun c => In (root c) def_option_rules /\ Shape c) l -> np (def_options texts a l).
Proof.
  induction l as [| p l IH]; intros texts a HF; cbn [def_options]; [exact I |].
  inversion HF as [| ? ? [Hi HS] HF']; subst.
  apply shape_kids in HS.
  destruct p as [r t k]. cbn [root kids] in *.
  destruct Hi as [<- | [<- | [<- | [<- | [<- | []]]]]]; cbv iota; crx HS.
  - kinv HS. repeat step. apply IH; exact HF'.
  - khead HS T. apply np_bind; [| intros ? _; apply IH; exact HF'].
    apply map_parse_signed_np. constructor; [assumption | apply kids_star_num; exact T].
  - kinv HS. repeat step. destruct (zmap_get _ _); [apply IH; exact HF' | exact I].
  - kinv HS. repeat step. apply IH; exact HF'.
  - kinv HS. repeat step. apply IH; exact HF'.
Qed.

Lemma do_ext_user_prm_data_np : forall s cs, Kids (child_rx R_ext_user_prm_data) cs -> np (do_ext_user_prm_data s cs).
Proof.
  intros s cs H. crx H.
  khead H T1. khead T1 T2. khead T2 T3. khead T3 T4.
  unfold do_ext_user_prm_data. repeat step.
  apply np_bind; [apply data_type_of_np; assumption | intros ? _].
  repeat step.
  apply np_bind; [| intros ? _; exact I].
  apply def_options_np. apply kids_syms in T4. cbn [syms app] in T4.
  eapply Forall_impl; [| exact T4]. unfold def_option_rules. intros c' [Hi HS']; split; [| exact HS'].
  cbn [In] in *. tauto.
Qed.

(* ------------------------------------------------------------------------------------------ unit_diag_area *)

Lemma area_values_np : forall l acc,
  Forall (fun c => root c = R_unit_diag_area_value /\ Shape c) l -> np (area_values acc l).
Proof.
  induction l as [| vp l IH]; intros acc HF; cbn [area_values]; [exact I |].
  inversion HF as [| ? ? [Hr HS] HF']; subst.
  known vp Hr. cbn [root kids]. cbv iota.
  apply shape_kids in HS. cbn [root kids] in HS. crx HS. kinv HS. known c Hr.
  repeat step. apply IH. exact HF'.
Qed.

Lemma do_unit_diag_area_np : forall s cs, Kids (child_rx R_unit_diag_area) cs -> np (do_unit_diag_area s cs).
Proof.
  intros s cs H. crx H. khead H T1. khead T1 T2. unfold do_unit_diag_area. repeat step.
  apply np_bind; [| intros ? _; exact I].
  apply area_values_np. apply kids_syms in T2. cbn [syms app] in T2.
  eapply Forall_impl; [| exact T2]. intros c' [[<- | [<- | []]] HS']; split; auto.
Qed.

(* ------------------------------------------------------------------------------------------ module *)

Lemma setting_two_kids : forall cs, Kids (child_rx R_setting) cs -> exists a b r, cs = a :: b :: r.
Proof.
  intros cs H. crx H. kinv H; cbn [app]; eexists; eexists; eexists; reflexivity.
Qed.

Lemma module_setting_np : forall defs a cs, Kids (child_rx R_setting) cs -> np (module_setting defs a cs).
Proof.
  intros defs a cs H. apply setting_two_kids in H. destruct H as [kp [vp [r ->]]].
  unfold module_setting. cbn [next_unwrap pbind].
  repeat (match goal with |- no_panic (if ?b then _ else _) => destruct b end); repeat step.
  destruct (zmap_get _ _); exact I.
Qed.

Definition module_item_rules : list rule := [R_setting; R_module_reference; R_data_area].

Lemma module_items_np : forall l defs a,
  Forall (fun c => In (root c) module_item_rules /\ Shape c) l -> np (module_items defs a l).
Proof.
  induction l as [| p l IH]; intros defs a HF; cbn [module_items]; [exact I |].
  inversion HF as [| ? ? [Hi HS] HF']; subst.
  apply shape_kids in HS.
  destruct p as [r t k]. cbn [root kids] in *.
  destruct Hi as [<- | [<- | [<- | []]]]; cbv iota.
  - apply np_bind; [apply module_setting_np; exact HS | intros ? _; apply IH; exact HF'].
  - crx HS. kinv HS. repeat step. apply IH; exact HF'.
  - apply IH; exact HF'.
Qed.

Lemma do_module_np : forall s cs, Kids (child_rx R_module) cs -> np (do_module s cs).
Proof.
  intros s cs H. crx H. khead H T1. khead T1 T2. unfold do_module. repeat step.
  apply np_bind; [| intros ? _; exact I].
  apply module_items_np. apply kids_syms in T2. cbn [syms app] in T2.
  eapply Forall_impl; [| exact T2]. unfold module_item_rules. intros c' [Hi HS']; split; [| exact HS'].
  cbn [In] in *. tauto.
Qed.

(* ------------------------------------------------------------------------------------------ slot_definition *)

Lemma slot_set_np : forall l ms w, np (slot_set ms l w).
Proof.
  induction l as [| p l IH]; intros ms w; cbn [slot_set]; [exact I |].
  step. destruct (find_module ms _).
  - apply np_bind; [apply IH | intros ? _; exact I].
  - apply IH.
Qed.

Lemma do_slot_np : forall s cs, Kids (child_rx R_slot) cs -> np (do_slot s cs).
Proof.
  intros s cs H. crx H. khead H T1. khead T1 T2. khead T2 T3. unfold do_slot. cbv zeta. repeat step.
  kinv T3; known c0 Hr0; cbn [next_unwrap pbind root kids]; cbv iota.
  - (* range *)
    apply shape_kids in Hs2. cbn [root kids] in Hs2. crx Hs2. kinv Hs2.
    apply np_bind; [repeat step | intros ? _]. destruct (find_module _ _); exact I.
  - (* set *)
    apply np_bind; [apply slot_set_np | intros ? _]. destruct (find_module _ _); exact I.
Qed.

Lemma do_slots_np : forall l s, Forall (fun c => root c = R_slot /\ Shape c) l -> np (do_slots s l).
Proof.
  induction l as [| p l IH]; intros s HF; cbn [do_slots]; [exact I |].
  inversion HF as [| ? ? [Hr HS] HF']; subst.
  known p Hr. cbn [root kids]. cbv iota. apply shape_kids in HS. cbn [root kids] in HS.
  apply np_bind; [apply do_slot_np; exact HS | intros ? _; apply IH; exact HF'].
Qed.

(* ------------------------------------------------------------------------------------------ settings *)

Lemma do_special_np : forall sp s vp pairs, np (do_special sp s vp pairs).
Proof.
  intros sp s vp pairs. destruct sp; unfold do_special; cbv zeta; repeat step;
    try (destruct (s_legacy s); repeat step);
    try (match goal with |- no_panic (if ?b then _ else _) => destruct b end; exact I);
    try (destruct (zmap_get _ _); exact I).
Qed.

Lemma do_action_np : forall a s vp pairs, np (do_action a s vp pairs).
Proof.
  intros a s vp pairs. destruct a; unfold do_action; cbv zeta; repeat step. apply do_special_np.
Qed.

Lemma do_setting_np : forall s cs, Kids (child_rx R_setting) cs -> np (do_setting s cs).
Proof.
  intros s cs H. apply setting_two_kids in H. destruct H as [kp [vp [r ->]]].
  unfold do_setting. cbn [next_unwrap pbind]. destruct (assoc_str _ _); [apply do_action_np | exact I].
Qed.

(* ------------------------------------------------------------------------------------------ the statement loop *)

Lemma do_statement_np : forall s p, Shape p -> np (do_statement s p).
Proof.
  intros s p HS. apply shape_kids in HS. destruct p as [r t k]. cbn [root kids] in HS.
  unfold do_statement. cbn [root kids]. destruct r; cbv iota; try exact I.
  - apply do_prm_text_np; exact HS.
  - apply do_ext_user_prm_data_np; exact HS.
  - apply do_module_np; exact HS.
  - apply do_slots_np. crx HS. apply kids_syms in HS. cbn [syms] in HS.
    eapply Forall_impl; [| exact HS]. intros c' [[<- | []] HS']; split; auto.
  - apply do_unit_diag_area_np; exact HS.
  - apply do_setting_np; exact HS.
Qed.

Lemma do_statements_np : forall l s, Forall Shape l -> np (do_statements s l).
Proof.
  induction l as [| p l IH]; intros s HF; cbn [do_statements]; [exact I |].
  inversion HF as [| ? ? Hp HF']; subst.
  apply np_bind; [apply do_statement_np; exact Hp | intros ? _; apply IH; exact HF'].
Qed.

(* the unwrap at parser.rs `max_modules_span.or(modular_station_span).unwrap()` is dead code:
   without a Max_Module key the value has just been set to 1 *)
Lemma post_np : forall s, np (post s).
Proof.
  intros s. unfold post. cbv zeta.
  destruct (s_maxspan s) eqn:Em.
  - destruct (d_flag _ _); [exact I |]. cbn [orb].
    destruct (negb _); cbn [pbind]; exact I.
  - destruct (d_flag _ _); [exact I |].
    assert (E : forall g, d_num (set_num NF_max_modules 1 g) NF_max_modules = 1) by (intros g; reflexivity).
    rewrite E. cbn [Z.eqb Pos.eqb negb pbind]. exact I.
Qed.

Theorem interp_no_panic : forall t, Shape t -> np (interp t).
Proof.
  intros t HS. unfold interp.
  apply np_bind; [| intros ? _; apply post_np].
  apply do_statements_np. apply shape_kids in HS. eapply kids_shape. exact HS.
Qed.

Corollary interp_total : forall t, Shape t ->
  (exists d w, interp t = POk (d, w)) \/ interp t = PErr.
Proof.
  intros t HS. pose proof (interp_no_panic t HS) as H.
  destruct (interp t) as [[d w] | | s]; [left; eauto | right; reflexivity | destruct H].
Qed.

Corollary interp_checked_no_panic : forall t, shapeb t = true -> np (interp t).
Proof. intros t H. apply interp_no_panic. apply shapeb_sound. exact H. Qed.

(* the implicit skipping rules of this grammar are silent: they cannot contribute pairs *)
Lemma implicit_rules_silent : implicit_silent grammar = true.
Proof. vm_compute. reflexivity. Qed.

Lemma shape_children : forall t : tree, Shape t ->
  Kids (child_rx (root t)) (kids t) /\
  Forall (fun c => In (root c) (syms (child_rx (root t))) /\ Shape c) (kids t).
Proof. intros t H. split; [exact (shape_kids t H) | exact (kids_syms _ _ (shape_kids t H))]. Qed.

Lemma interp_never_panics : forall t : tree, Shape t ->
  (forall s, to_res (interp t) <> Panic s) /\ to_res (interp t) <> OutOfFuel.
Proof.
  intros t H. pose proof (interp_no_panic t H) as N.
  destruct (interp t); cbn [to_res no_panic] in *; split; try intros s0; try discriminate; contradiction.
Qed.
