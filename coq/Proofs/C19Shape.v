(* C19 - generic facts about the grammar-derived shape predicate:
   the derivative based checker `shapeb` is sound for `Shape`; every inner pair of a word of `re` has a rule in
   `syms re` and is itself well shaped; inversion of the star. *)
From PB Require Import Common GsdGrammar GsdTables GsdInterp GsdShape.

Lemma rule_index_inj : forall a b : rule, rule_index a = rule_index b -> a = b.
Proof. intros a b; destruct a; destruct b; intros H; try reflexivity; discriminate H. Qed.

Lemma rule_eqb_eq : forall a b : rule, rule_eqb a b = true -> a = b.
Proof. intros a b H. apply rule_index_inj. apply Nat.eqb_eq. exact H. Qed.

Lemma rule_eqb_refl : forall a : rule, rule_eqb a a = true.
Proof. intros a. apply Nat.eqb_refl. Qed.

(* induction over trees with the hypothesis for all children *)
Fixpoint tree_ind2 (P : tree -> Prop)
  (H : forall r s cs, Forall P cs -> P (Node r s cs)) (t : tree) : P t :=
  match t with
  | Node r s cs =>
      H r s cs ((fix go (l : list tree) : Forall P l :=
                   match l with
                   | [] => Forall_nil P
                   | c :: l' => Forall_cons c (tree_ind2 P H c) (go l')
                   end) cs)
  end.

Lemma kids_none : forall l, ~ Kids RNone l.
Proof. intros l H. inversion H. Qed.

Lemma ralt_kids : forall x y l, Kids (ralt x y) l -> Kids x l \/ Kids y l.
Proof.
  intros x y l H.
  destruct x; destruct y; cbn in H;
    try (right; exact H); try (left; exact H);
    try (inversion H; subst; [left | right]; assumption).
Qed.

Lemma rseq_kids : forall x y l, Kids (rseq x y) l -> exists l1 l2, l = l1 ++ l2 /\ Kids x l1 /\ Kids y l2.
Proof.
  intros x y l H.
  destruct x; destruct y; cbn in H;
    try (exfalso; exact (kids_none _ H));
    try (inversion H; subst; eexists; eexists; split; [reflexivity | split; assumption]; fail);
    try (exists [], l; split; [reflexivity | split; [constructor | exact H]]; fail);
    try (exists l, []; split; [symmetry; apply app_nil_r | split; [exact H | constructor]]; fail).
Qed.

Lemma nullable_kids : forall re, nullable re = true -> Kids re [].
Proof.
  induction re as [| | r | a IHa b IHb | a IHa b IHb | a IHa]; cbn; intros H; try discriminate.
  - constructor.
  - apply andb_true_iff in H. destruct H as [Ha Hb].
    change (@nil tree) with (@nil tree ++ @nil tree). constructor; auto.
  - apply orb_true_iff in H. destruct H as [Ha | Hb]; [apply K_altl | apply K_altr]; auto.
  - constructor.
Qed.

Lemma deriv_kids : forall c, Shape c -> forall re l, Kids (deriv (root c) re) l -> Kids re (c :: l).
Proof.
  intros c Hc.
  induction re as [| | r | a IHa b IHb | a IHa b IHb | a IHa]; cbn [deriv]; intros l H.
  - exfalso; exact (kids_none _ H).
  - exfalso; exact (kids_none _ H).
  - destruct (rule_eqb (root c) r) eqn:E.
    + apply rule_eqb_eq in E. inversion H; subst. constructor; [reflexivity | exact Hc].
    + exfalso; exact (kids_none _ H).
  - destruct (nullable a) eqn:Na.
    + apply ralt_kids in H. destruct H as [H | H].
      * apply rseq_kids in H. destruct H as [l1 [l2 [-> [H1 H2]]]].
        change (c :: l1 ++ l2) with ((c :: l1) ++ l2). constructor; auto.
      * change (c :: l) with ([] ++ c :: l). constructor; [apply nullable_kids; exact Na | auto].
    + apply rseq_kids in H. destruct H as [l1 [l2 [-> [H1 H2]]]].
      change (c :: l1 ++ l2) with ((c :: l1) ++ l2). constructor; auto.
  - apply ralt_kids in H. destruct H as [H | H]; [apply K_altl | apply K_altr]; auto.
  - apply rseq_kids in H. destruct H as [l1 [l2 [-> [H1 H2]]]].
    change (c :: l1 ++ l2) with ((c :: l1) ++ l2). constructor; auto.
Qed.

Lemma rmatch_kids : forall cs re, Forall Shape cs -> rmatch re (map root cs) = true -> Kids re cs.
Proof.
  induction cs as [| c cs IH]; cbn [map rmatch]; intros re HF H.
  - apply nullable_kids; exact H.
  - inversion HF as [| ? ? Hc HF']; subst. apply deriv_kids; [exact Hc |]. apply IH; assumption.
Qed.

Lemma shapeb_all : forall cs,
  (fix all (l : list tree) : bool := match l with [] => true | c :: l' => shapeb c && all l' end) cs = true ->
  Forall (fun c => shapeb c = true) cs.
Proof.
  induction cs as [| c cs IH]; intros H; constructor.
  - apply andb_true_iff in H. tauto.
  - apply IH. apply andb_true_iff in H. tauto.
Qed.

Theorem shapeb_sound : forall t, shapeb t = true -> Shape t.
Proof.
  induction t as [r s cs IH] using tree_ind2. intros H.
  cbn [shapeb] in H. apply andb_true_iff in H. destruct H as [Hm Ha].
  apply shapeb_all in Ha.
  assert (HF : Forall Shape cs).
  { rewrite Forall_forall in *. intros c Hin. apply IH; [exact Hin | apply Ha; exact Hin]. }
  constructor. apply rmatch_kids; assumption.
Qed.

(* every inner pair has one of the rules that occur in the expression, and is well shaped *)
Lemma kids_syms : forall re l, Kids re l -> Forall (fun c => In (root c) (syms re) /\ Shape c) l.
Proof.
  intros re l H. induction H; cbn [syms].
  - constructor.
  - constructor; [| constructor]. split; [left; symmetry; assumption | assumption].
  - apply Forall_app. split.
    + eapply Forall_impl; [| exact IHKids1]. intros c [Hi Hs]. split; [apply in_or_app; left; exact Hi | exact Hs].
    + eapply Forall_impl; [| exact IHKids2]. intros c [Hi Hs]. split; [apply in_or_app; right; exact Hi | exact Hs].
  - eapply Forall_impl; [| exact IHKids]. intros c [Hi Hs]. split; [apply in_or_app; left; exact Hi | exact Hs].
  - eapply Forall_impl; [| exact IHKids]. intros c [Hi Hs]. split; [apply in_or_app; right; exact Hi | exact Hs].
  - constructor.
  - apply Forall_app. split; [exact IHKids1 | exact IHKids2].
Qed.

Lemma kids_shape : forall re l, Kids re l -> Forall Shape l.
Proof.
  intros re l H. eapply Forall_impl; [| apply (kids_syms _ _ H)]. intros c [_ Hs]; exact Hs.
Qed.

Lemma shape_kids : forall t, Shape t -> Kids (child_rx (root t)) (kids t).
Proof. intros t H. inversion H; subst. exact H0. Qed.

(* inversion lemmas in the form the interpreter proofs use *)
Lemma kids_eps_inv : forall l, Kids REps l -> l = [].
Proof. intros l H; inversion H; reflexivity. Qed.

Lemma kids_sym_inv : forall r l, Kids (RSym r) l -> exists c, l = [c] /\ root c = r /\ Shape c.
Proof. intros r l H; inversion H; subst. eexists; repeat split; assumption. Qed.

Lemma kids_seq_inv : forall a b l, Kids (RSeq a b) l -> exists l1 l2, l = l1 ++ l2 /\ Kids a l1 /\ Kids b l2.
Proof. intros a b l H; inversion H; subst. eexists; eexists; repeat split; assumption. Qed.

Lemma kids_alt_inv : forall a b l, Kids (RAlt a b) l -> Kids a l \/ Kids b l.
Proof. intros a b l H; inversion H; subst; [left | right]; assumption. Qed.
