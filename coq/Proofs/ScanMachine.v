(* The sweep machine: what LiveList and DpScanner have in common, seen through the abstract
   transcript (cursor, done flag, station bits; events as Up / Re / Down).  All C18 oracle
   theorems are proved once about this machine; Proofs/C18Proofs.v shows that both models
   are simulated by it. *)
From PB Require Import Common ScanBase ScanOracle.

(* ---------------------------------------------------------------- bits *)

Lemma setbit_negative a n : n < 0 -> Z.setbit a n = a.
Proof.
  intros H. rewrite Z.setbit_spec'. rewrite Z.pow_neg_r by lia. apply Z.lor_0_r.
Qed.

Lemma clearbit_negative a n : n < 0 -> Z.clearbit a n = a.
Proof.
  intros H. rewrite Z.clearbit_spec'. rewrite Z.pow_neg_r by lia. apply Z.ldiff_0_r.
Qed.

Lemma testbit_setbit k b a : 0 <= a -> Z.testbit (Z.setbit k b) a = (b =? a) || Z.testbit k a.
Proof.
  intros Ha. destruct (Z.ltb_spec b 0) as [Hb|Hb].
  - rewrite setbit_negative by lia. destruct (Z.eqb_spec b a) as [E|E]; [lia|reflexivity].
  - apply Z.setbit_eqb. lia.
Qed.

Lemma testbit_clearbit k b a : Z.testbit (Z.clearbit k b) a = Z.testbit k a && negb (b =? a).
Proof. apply Z.clearbit_eqb. Qed.

(* ---------------------------------------------------------------- the address sweep *)

Lemma next_addr_range c : 0 <= c <= 125 -> 0 <= next_addr c <= 125.
Proof. intros H. unfold next_addr. destruct (Z.ltb_spec c 125) as [L|L]; lia. Qed.

Lemma next_addr_mod c : 0 <= c <= 125 -> next_addr c = (c + 1) mod 126.
Proof.
  intros H. unfold next_addr. destruct (Z.ltb_spec c 125) as [L|L].
  - rewrite Z.mod_small by lia. reflexivity.
  - assert (c = 125) by lia. subst c. reflexivity.
Qed.

Lemma addr_list_in n a : In a (addr_list n) <-> 0 <= a < Z.of_nat n.
Proof.
  unfold addr_list. rewrite in_map_iff. split.
  - intros [i [E I]]. apply in_seq in I. lia.
  - intros H. exists (Z.to_nat a). split; [lia|]. apply in_seq. lia.
Qed.

Lemma track_app (P : Type) (k : Z -> option P) (w1 w2 : list (apoll P)) :
  track k (w1 ++ w2) = track (track k w1) w2.
Proof. unfold track. apply fold_left_app. Qed.

(* ---------------------------------------------------------------- what the oracles mean *)

Section OracleFacts.
  Variable P : Type.

  Lemma sweep_from_cons c n : 0 <= c <= 125 -> sweep_from c (S n) = c :: sweep_from (next_addr c) n.
  Proof.
    intros H. unfold sweep_from. cbn [seq map]. rewrite Z.add_0_r, Z.mod_small by lia. f_equal.
    rewrite <- seq_shift, map_map. apply map_ext. intros i.
    rewrite (next_addr_mod c H), Zplus_mod_idemp_l. f_equal. lia.
  Qed.

  (* closed form of the cursor oracle: the probed addresses are consecutive modulo 126 *)
  Lemma cursor_walk_closed_form (tr : list (apoll P)) : forall c dn,
    0 <= c <= 125 -> cursor_walk c dn tr = true ->
    probed tr = sweep_from (if dn then next_addr c else c) (length (probed tr)).
  Proof.
    induction tr as [|p r IH]; intros c dn Hc W; [reflexivity|].
    cbn [cursor_walk] in W. cbn [probed flat_map]. fold (probed r).
    destruct (ap_da p) as [a|] eqn:Dp; destruct dn; try discriminate W; cbn [opt_list app length].
    - apply andb_prop in W. destruct W as [W1 W]. apply andb_prop in W1. destruct W1 as [W1 _].
      apply Z.eqb_eq in W1. subst a. rewrite sweep_from_cons by exact Hc. f_equal.
      exact (IH c true Hc W).
    - exact (IH (next_addr c) false (next_addr_range c Hc) W).
  Qed.

  Lemma sweep_from_range c n : Forall (fun a => 0 <= a <= 125) (sweep_from c n).
  Proof.
    unfold sweep_from. apply Forall_forall. intros a I. apply in_map_iff in I.
    destruct I as [i [E _]]. subst a. pose proof (Z.mod_pos_bound (c + Z.of_nat i) 126 ltac:(lia)). lia.
  Qed.

  Lemma fold_alt_none (evs : list (aev P)) : fold_left (alt_ev P) evs None = None.
  Proof. induction evs as [|e evs IH]; [reflexivity|exact IH]. Qed.

  Lemma alt_events_from a (evs : list (aev P)) : 0 <= a -> forall k k' rest,
    fold_left (alt_ev P) evs (Some k) = Some k' ->
    alt_from (Z.testbit k a) (flat_map (ev_kinds a) evs ++ rest) = alt_from (Z.testbit k' a) rest.
  Proof.
    intros Ha. induction evs as [|e evs IH]; intros k k' rest F; cbn [fold_left flat_map app] in *.
    - injection F as F. subst k'. reflexivity.
    - rewrite <- app_assoc. destruct e as [b q|b q|b]; cbn [alt_ev ev_kinds] in *;
        destruct (Z.testbit k b) eqn:B; try (rewrite fold_alt_none in F; discriminate F).
      + destruct (Z.eqb_spec b a) as [E|E]; cbn [app].
        * subst b. rewrite B. cbn [alt_from]. rewrite <- (IH _ _ rest F).
          rewrite Z.setbit_eq by lia. reflexivity.
        * rewrite <- (IH _ _ rest F). rewrite testbit_setbit by exact Ha.
          destruct (Z.eqb_spec b a); [contradiction|reflexivity].
      + destruct (Z.eqb_spec b a) as [E|E]; cbn [app].
        * subst b. rewrite B. cbn [alt_from]. rewrite <- (IH _ _ rest F). rewrite B. reflexivity.
        * exact (IH _ _ rest F).
      + destruct (Z.eqb_spec b a) as [E|E]; cbn [app].
        * subst b. rewrite B. cbn [alt_from]. rewrite <- (IH _ _ rest F).
          rewrite Z.clearbit_eq. reflexivity.
        * rewrite <- (IH _ _ rest F). rewrite Z.clearbit_neq by exact E. reflexivity.
  Qed.

  (* the per address reading of the alternation oracle: the events about address a strictly
     alternate (Up only when unknown, Down and Re only when known) and account for its
     membership from the first to the last state *)
  Lemma alt_walk_per_address a (tr : list (apoll P)) : 0 <= a -> forall k k',
    alt_walk false k tr = Some k' ->
    alt_from (Z.testbit k a) (kinds_of a tr) = Some (Z.testbit k' a).
  Proof.
    intros Ha. induction tr as [|p r IH]; intros k k' W; cbn [alt_walk kinds_of flat_map] in *.
    - injection W as W. subst k'. reflexivity.
    - match type of W with context [fold_left _ _ (Some ?x)] => replace x with k in W end.
      2:{ destruct (ap_da p); [|reflexivity]. destruct (ap_cls p); reflexivity. }
      destruct (fold_left (alt_ev P) (ap_evs p) (Some k)) as [k1|] eqn:F; [|discriminate W].
      destruct (Z.eqb_spec k1 (ap_bits p)) as [E|E]; [|discriminate W].
      fold (kinds_of a r). rewrite (alt_events_from a (ap_evs p) Ha k k1 (kinds_of a r) F).
      exact (IH k1 k' W).
  Qed.
End OracleFacts.

Section Machine.
  Variable P : Type.
  Variable peqb : P -> P -> bool.
  Hypothesis peqb_refl : forall p, peqb p p = true.
  Variable other_sets : bool.   (* an unexpected reply marks an unknown address (live list, O1) *)
  Variable requery : bool.      (* a valid reply of a known address is reported (scanner) *)

  Record ast : Type := mkA { a_cur : Z; a_dn : bool; a_bits : Z }.

  Definition spec_bits (m a : Z) (c : cls P) : Z :=
    match c with
    | CTimeout => if Z.testbit m a then Z.clearbit m a else m
    | CValid _ => if Z.testbit m a then m else Z.setbit m a
    | COther => if other_sets && negb (Z.testbit m a) then Z.setbit m a else m
    | CNone => m
    end.

  Definition spec_evs (m a : Z) (c : cls P) : list (aev P) :=
    match c with
    | CTimeout => if Z.testbit m a then [ADown a] else []
    | CValid p => if Z.testbit m a then (if requery then [ARe a p] else []) else [AUp a p]
    | _ => []
    end.

  Definition a_next (st : ast) (ce : Z -> cls P) : ast :=
    if a_dn st then mkA (next_addr (a_cur st)) false (a_bits st)
    else mkA (a_cur st) true (spec_bits (a_bits st) (a_cur st) (ce (a_cur st))).

  Definition a_obs (st : ast) (ce : Z -> cls P) : apoll P :=
    if a_dn st then mkAp None CNone [] (a_bits st)
    else mkAp (Some (a_cur st)) (ce (a_cur st)) (spec_evs (a_bits st) (a_cur st) (ce (a_cur st)))
              (spec_bits (a_bits st) (a_cur st) (ce (a_cur st))).

  Fixpoint a_final (st : ast) (h : list (Z -> cls P)) : ast :=
    match h with [] => st | ce :: h' => a_final (a_next st ce) h' end.
  Fixpoint a_trace (st : ast) (h : list (Z -> cls P)) : list (apoll P) :=
    match h with [] => [] | ce :: h' => a_obs st ce :: a_trace (a_next st ce) h' end.

  Definition cur_ok (st : ast) : Prop := 0 <= a_cur st <= 125.

  Lemma a_next_cur_ok st ce : cur_ok st -> cur_ok (a_next st ce).
  Proof.
    unfold cur_ok, a_next. intros H. destruct (a_dn st); cbn [a_cur].
    - apply next_addr_range. exact H.
    - exact H.
  Qed.

  Lemma a_final_cur_ok h : forall st, cur_ok st -> cur_ok (a_final st h).
  Proof.
    induction h as [|ce h IH]; intros st H; cbn [a_final]; [exact H|].
    apply IH. apply a_next_cur_ok. exact H.
  Qed.

  Lemma a_trace_length h : forall st, length (a_trace st h) = length h.
  Proof. induction h as [|ce h IH]; intros st; cbn [a_trace length]; [reflexivity|]. rewrite IH. reflexivity. Qed.

  Lemma a_trace_app h1 : forall st h2,
    a_trace st (h1 ++ h2) = a_trace st h1 ++ a_trace (a_final st h1) h2.
  Proof.
    induction h1 as [|ce h1 IH]; intros st h2; cbn [a_trace a_final app]; [reflexivity|].
    rewrite IH. reflexivity.
  Qed.

  Lemma a_final_app h1 : forall st h2, a_final st (h1 ++ h2) = a_final (a_final st h1) h2.
  Proof. induction h1 as [|ce h1 IH]; intros st h2; cbn [a_final app]; [reflexivity|]. apply IH. Qed.

  (* ---------------------------------------------------------------- C18_cursor *)

  Lemma a_cursor h : forall st, cur_ok st ->
    cursor_walk (a_cur st) (a_dn st) (a_trace st h) = true.
  Proof.
    induction h as [|ce h IH]; intros st H; cbn [a_trace cursor_walk]; [reflexivity|].
    pose proof (IH (a_next st ce) (a_next_cur_ok st ce H)) as IH'.
    unfold a_obs, a_next in *. destruct (a_dn st); cbn [ap_da a_cur a_dn] in *.
    - exact IH'.
    - rewrite Z.eqb_refl. unfold addr_okb. unfold cur_ok in H.
      destruct (Z.leb_spec 0 (a_cur st)) as [A|A]; [|lia].
      destruct (Z.leb_spec (a_cur st) 125) as [B|B]; [|lia].
      cbn [andb]. exact IH'.
  Qed.

  (* ---------------------------------------------------------------- C18_alternate *)

  Lemma a_alt_step st ce : cur_ok st ->
    let p := a_obs st ce in
    fold_left (alt_ev P) (ap_evs p)
      (Some (match ap_da p, ap_cls p with
             | Some da, COther =>
                 if other_sets && negb (Z.testbit (a_bits st) da) && negb (has_up da (ap_evs p))
                 then Z.setbit (a_bits st) da else a_bits st
             | _, _ => a_bits st
             end)) = Some (ap_bits p).
  Proof.
    intros H. unfold a_obs. destruct (a_dn st); cbn [ap_da ap_cls ap_evs ap_bits fold_left]; [reflexivity|].
    destruct (ce (a_cur st)) as [| |p|]; cbn [spec_evs spec_bits fold_left alt_ev].
    - reflexivity.
    - destruct (Z.testbit (a_bits st) (a_cur st)) eqn:B; cbn [fold_left alt_ev]; [rewrite B|]; reflexivity.
    - destruct (Z.testbit (a_bits st) (a_cur st)) eqn:B.
      + destruct requery; cbn [fold_left alt_ev]; [rewrite B|]; reflexivity.
      + cbn [fold_left alt_ev]. rewrite B. reflexivity.
    - cbn [has_up existsb negb]. rewrite andb_true_r. reflexivity.
  Qed.

  Lemma a_obs_bits st ce : ap_bits (a_obs st ce) = a_bits (a_next st ce).
  Proof. unfold a_obs, a_next. destruct (a_dn st); reflexivity. Qed.

  (* observation O1 built in: always holds *)
  Lemma a_alt_silent h : forall st, cur_ok st ->
    alt_walk other_sets (a_bits st) (a_trace st h) = Some (a_bits (a_final st h)).
  Proof.
    induction h as [|ce h IH]; intros st H; cbn [a_trace a_final alt_walk]; [reflexivity|].
    rewrite (a_alt_step st ce H). rewrite a_obs_bits, Z.eqb_refl. apply IH. apply a_next_cur_ok. exact H.
  Qed.

  (* strict alternation: no unexpected replies, or an application that ignores them *)
  Lemma a_alt_strict h : forall st, cur_ok st ->
    other_sets = false \/ no_other (a_trace st h) = true ->
    alt_walk false (a_bits st) (a_trace st h) = Some (a_bits (a_final st h)).
  Proof.
    induction h as [|ce h IH]; intros st H Hyp; cbn [a_trace a_final alt_walk]; [reflexivity|].
    assert (Hyp' : other_sets = false \/ no_other (a_trace (a_next st ce) h) = true).
    { destruct Hyp as [E|N]; [left; exact E|right].
      cbn [a_trace no_other forallb] in N. apply andb_prop in N. exact (proj2 N). }
    pose proof (a_alt_step st ce H) as S. cbv zeta in S.
    assert (E : (match ap_da (a_obs st ce), ap_cls (a_obs st ce) with
                 | Some da, COther =>
                     if other_sets && negb (Z.testbit (a_bits st) da) && negb (has_up da (ap_evs (a_obs st ce)))
                     then Z.setbit (a_bits st) da else a_bits st
                 | _, _ => a_bits st end) = a_bits st).
    { destruct (ap_da (a_obs st ce)) as [da|]; [|reflexivity].
      destruct (ap_cls (a_obs st ce)) eqn:C; try reflexivity.
      destruct Hyp as [E|N]; [rewrite E; reflexivity|].
      cbn [a_trace no_other forallb] in N. rewrite C in N. discriminate N. }
    rewrite E in S.
    match goal with |- context [fold_left _ _ (Some ?k)] => replace k with (a_bits st) end.
    2:{ destruct (ap_da (a_obs st ce)); [|reflexivity]. destruct (ap_cls (a_obs st ce)); reflexivity. }
    rewrite S. rewrite a_obs_bits, Z.eqb_refl.
    apply IH; [apply a_next_cur_ok; exact H|exact Hyp'].
  Qed.

  (* strict alternation is due whenever no marking went unannounced *)
  Lemma a_alt_strict_ns h : forall st, cur_ok st ->
    no_silent (a_bits st) (a_trace st h) = true ->
    alt_walk false (a_bits st) (a_trace st h) = Some (a_bits (a_final st h)).
  Proof.
    induction h as [|ce h IH]; intros st H N; cbn [a_trace a_final alt_walk]; [reflexivity|].
    cbn [a_trace no_silent] in N. apply andb_prop in N. destruct N as [N1 N2].
    rewrite a_obs_bits in N2.
    pose proof (a_alt_step st ce H) as S. cbv zeta in S.
    assert (E : (match ap_da (a_obs st ce), ap_cls (a_obs st ce) with
                 | Some da, COther =>
                     if other_sets && negb (Z.testbit (a_bits st) da) && negb (has_up da (ap_evs (a_obs st ce)))
                     then Z.setbit (a_bits st) da else a_bits st
                 | _, _ => a_bits st end) = a_bits st).
    { clear S. unfold a_obs in *. destruct (a_dn st); cbn [ap_da ap_cls ap_evs ap_bits] in *; [reflexivity|].
      destruct (ce (a_cur st)) as [| |p|]; try reflexivity.
      cbn [spec_evs spec_bits has_up existsb orb negb] in *. rewrite orb_false_r in N1. rewrite andb_true_r.
      destruct (Z.testbit (a_bits st) (a_cur st)) eqn:B; cbn [negb orb] in *; [rewrite andb_false_r; reflexivity|].
      destruct other_sets; cbn [andb] in *; [|reflexivity].
      rewrite Z.setbit_eq in N1 by (unfold cur_ok in H; lia). discriminate N1. }
    rewrite E in S.
    match goal with |- context [fold_left _ _ (Some ?k)] => replace k with (a_bits st) end.
    2:{ destruct (ap_da (a_obs st ce)); [|reflexivity]. destruct (ap_cls (a_obs st ce)); reflexivity. }
    rewrite S. rewrite a_obs_bits, Z.eqb_refl.
    apply IH; [apply a_next_cur_ok; exact H|exact N2].
  Qed.

  (* every event is justified by what was observed at the probed address *)
  Lemma a_evs_match lenient h : forall st, evs_matchb peqb lenient (a_trace st h) = true.
  Proof.
    induction h as [|ce h IH]; intros st; cbn [a_trace evs_matchb forallb]; [reflexivity|].
    fold (evs_matchb peqb lenient (a_trace (a_next st ce) h)). rewrite IH, andb_true_r.
    unfold a_obs. destruct (a_dn st); cbn [ap_evs forallb]; [reflexivity|].
    unfold ev_matchb; cbn [ap_da ap_cls].
    destruct (ce (a_cur st)) as [| |p|]; cbn [spec_evs forallb]; try reflexivity.
    - destruct (Z.testbit (a_bits st) (a_cur st)); cbn [forallb]; [|reflexivity].
      rewrite Z.eqb_refl. reflexivity.
    - destruct (Z.testbit (a_bits st) (a_cur st)); [destruct requery|]; cbn [forallb];
        rewrite ?Z.eqb_refl, ?peqb_refl; reflexivity.
  Qed.

  (* ---------------------------------------------------------------- C18_converges *)

  Section Window.
    Variable m : Z -> bool.

    Definition good (st : ast) (a : Z) : Prop := Z.testbit (a_bits st) a = m a.

    (* one poll of a window explained by m *)
    Definition step_consistent (st : ast) (ce : Z -> cls P) : Prop :=
      consistent m [a_obs st ce] = true.

    Lemma step_good_new st ce : cur_ok st -> a_dn st = false -> step_consistent st ce ->
      good (a_next st ce) (a_cur st).
    Proof.
      unfold cur_ok, step_consistent, good, a_next, a_obs, consistent. intros H D C.
      rewrite D in *. cbn [forallb ap_da ap_cls a_bits] in *. rewrite andb_true_r in C.
      destruct (ce (a_cur st)) as [| |p|]; cbn [spec_bits]; try discriminate C.
      - apply negb_true_iff in C. rewrite C.
        destruct (Z.testbit (a_bits st) (a_cur st)) eqn:B; [apply Z.clearbit_eq|exact B].
      - rewrite C. destruct (Z.testbit (a_bits st) (a_cur st)) eqn:B; [exact B|].
        apply Z.setbit_eq. lia.
    Qed.

    Lemma step_good_pres st ce a : cur_ok st -> 0 <= a -> step_consistent st ce ->
      good st a -> good (a_next st ce) a.
    Proof.
      intros H Ha C G. destruct (a_dn st) eqn:D.
      - unfold good, a_next in *. rewrite D. exact G.
      - destruct (Z.eq_dec a (a_cur st)) as [E|E].
        + subst a. apply step_good_new; assumption.
        + unfold good, a_next in *. rewrite D. cbn [a_bits].
          destruct (ce (a_cur st)) as [| |p|]; cbn [spec_bits]; try exact G.
          * destruct (Z.testbit (a_bits st) (a_cur st)); [|exact G].
            rewrite Z.clearbit_neq by lia. exact G.
          * destruct (Z.testbit (a_bits st) (a_cur st)); [exact G|].
            rewrite Z.setbit_neq by (unfold cur_ok in H; lia). exact G.
          * destruct (other_sets && negb (Z.testbit (a_bits st) (a_cur st))); [|exact G].
            rewrite Z.setbit_neq by (unfold cur_ok in H; lia). exact G.
    Qed.

    Lemma consistent_cons (p : apoll P) (w : list (apoll P)) : consistent m (p :: w) = true ->
      consistent m [p] = true /\ consistent m w = true.
    Proof.
      unfold consistent. cbn [forallb]. intros H. apply andb_prop in H. destruct H as [A B].
      rewrite A, B. split; reflexivity.
    Qed.

    Lemma a_good_pres h : forall st a, cur_ok st -> 0 <= a ->
      consistent m (a_trace st h) = true -> good st a -> good (a_final st h) a.
    Proof.
      induction h as [|ce h IH]; intros st a H Ha C G; cbn [a_final a_trace] in *; [exact G|].
      apply consistent_cons in C. destruct C as [C1 C2].
      apply IH; [apply a_next_cur_ok; exact H|exact Ha|exact C2|].
      apply step_good_pres; assumption.
    Qed.

    Lemma a_good_probed h : forall st a, cur_ok st ->
      consistent m (a_trace st h) = true -> In a (probed (a_trace st h)) -> good (a_final st h) a.
    Proof.
      induction h as [|ce h IH]; intros st a H C I; cbn [a_final a_trace probed flat_map] in *; [contradiction|].
      apply consistent_cons in C. destruct C as [C1 C2].
      apply in_app_or in I. destruct I as [I|I].
      - unfold a_obs in I. destruct (a_dn st) eqn:D; cbn [ap_da opt_list] in I; [contradiction|].
        destruct I as [I|[]]. subst a.
        apply a_good_pres; [apply a_next_cur_ok; exact H|unfold cur_ok in H; lia|exact C2|].
        apply step_good_new; assumption.
      - apply IH; [apply a_next_cur_ok; exact H|exact C2|exact I].
    Qed.
  End Window.

  (* a window of one sweep probes every address *)
  Lemma walk_cover_false (n : nat) : forall c (tr : list (apoll P)),
    0 <= c <= 125 -> cursor_walk c false tr = true -> (2 * n + 1 <= length tr)%nat ->
    forall i, (i <= n)%nat -> In ((c + Z.of_nat i) mod 126) (probed tr).
  Proof.
    induction n as [|n IH]; intros c tr Hc W L i Hi.
    - assert (i = 0%nat) by lia. subst i. rewrite Z.add_0_r.
      destruct tr as [|p r]; cbn [length] in L; try lia.
      cbn [cursor_walk] in W. destruct (ap_da p) as [a|] eqn:Dp; [|discriminate W].
      apply andb_prop in W. destruct W as [W _]. apply andb_prop in W. destruct W as [W _].
      apply Z.eqb_eq in W. subst a. rewrite Z.mod_small by lia.
      cbn [probed flat_map]. rewrite Dp. cbn [opt_list app]. left. reflexivity.
    - destruct tr as [|p [|q r]]; cbn [length] in L; try lia.
      cbn [cursor_walk] in W. destruct (ap_da p) as [a|] eqn:Dp; [|discriminate W].
      apply andb_prop in W. destruct W as [W1 W]. apply andb_prop in W1. destruct W1 as [W1 _].
      apply Z.eqb_eq in W1. subst a.
      destruct (ap_da q) eqn:Dq; [discriminate W|].
      cbn [probed flat_map]. rewrite Dp, Dq. cbn [opt_list app].
      destruct i as [|j].
      + left. rewrite Z.add_0_r, Z.mod_small by lia. reflexivity.
      + right. pose proof (next_addr_range c Hc) as R.
        pose proof (IH (next_addr c) r R W ltac:(lia) j ltac:(lia)) as I.
        rewrite (next_addr_mod c Hc) in I. rewrite Zplus_mod_idemp_l in I.
        replace (c + Z.of_nat (S j)) with (c + 1 + Z.of_nat j) by lia. exact I.
  Qed.

  Lemma walk_cover c dn (tr : list (apoll P)) :
    0 <= c <= 125 -> cursor_walk c dn tr = true -> (sweep_polls <= length tr)%nat ->
    forall a, 0 <= a <= 125 -> In a (probed tr).
  Proof.
    intros Hc W L a Ha. unfold sweep_polls in L.
    assert (K : forall c' (tr' : list (apoll P)), 0 <= c' <= 125 -> cursor_walk c' false tr' = true ->
                (251 <= length tr')%nat -> In a (probed tr')).
    { intros c' tr' Hc' W' L'.
      pose proof (Z.mod_pos_bound (a - c') 126 ltac:(lia)) as B.
      pose proof (walk_cover_false 125 c' tr' Hc' W' ltac:(lia) (Z.to_nat ((a - c') mod 126)) ltac:(lia)) as I.
      rewrite Z2Nat.id in I by lia. rewrite Zplus_mod_idemp_r in I.
      replace (c' + (a - c')) with a in I by lia. rewrite Z.mod_small in I by lia. exact I. }
    destruct dn.
    - destruct tr as [|q r]; cbn [length] in L; try lia.
      cbn [cursor_walk] in W. destruct (ap_da q) eqn:Dq; [discriminate W|].
      cbn [probed flat_map]. rewrite Dq. cbn [opt_list app].
      apply (K (next_addr c) r (next_addr_range c Hc) W). lia.
    - apply (K c tr Hc W). lia.
  Qed.

  (* C18_converges on the machine: after a window of at least one sweep that is explained
     by the fixed population m, the station bits of 0..125 are exactly m *)
  Lemma a_converges m h st : cur_ok st -> (sweep_polls <= length h)%nat ->
    consistent m (a_trace st h) = true ->
    forall a, 0 <= a <= 125 -> Z.testbit (a_bits (a_final st h)) a = m a.
  Proof.
    intros H L C a Ha. apply (a_good_probed m h st a H C).
    apply (walk_cover (a_cur st) (a_dn st)); [exact H|apply a_cursor; exact H| |exact Ha].
    rewrite a_trace_length. exact L.
  Qed.

  (* bits outside the sweep never change *)
  Lemma a_bits_outside h : forall st a, cur_ok st -> 125 < a ->
    Z.testbit (a_bits (a_final st h)) a = Z.testbit (a_bits st) a.
  Proof.
    induction h as [|ce h IH]; intros st a H Ha; cbn [a_final]; [reflexivity|].
    rewrite IH by (try apply a_next_cur_ok; assumption).
    unfold a_next, cur_ok in *. destruct (a_dn st); cbn [a_bits]; [reflexivity|].
    destruct (ce (a_cur st)) as [| |p|]; cbn [spec_bits]; try reflexivity.
    - destruct (Z.testbit (a_bits st) (a_cur st)); [|reflexivity]. apply Z.clearbit_neq. lia.
    - destruct (Z.testbit (a_bits st) (a_cur st)); [reflexivity|]. apply Z.setbit_neq; lia.
    - destruct (other_sets && negb (Z.testbit (a_bits st) (a_cur st))); [|reflexivity]. apply Z.setbit_neq; lia.
  Qed.

  (* ---------------------------------------------------------------- payloads told by events *)

  Section Track.
    Variable m : Z -> bool.
    Variable pay : Z -> option P.
    Hypothesis requery_on : requery = true.

    Definition tinv (k : Z -> option P) (st : ast) : Prop :=
      forall a, Z.testbit (a_bits st) a = false -> k a = None.
    Definition tgoal (k : Z -> option P) (a : Z) : Prop :=
      k a = if m a then pay a else None.

    Definition step_track (k : Z -> option P) (st : ast) (ce : Z -> cls P) : Z -> option P :=
      fold_left (track_ev P) (ap_evs (a_obs st ce)) k.

    Lemma step_tinv k st ce : cur_ok st -> tinv k st -> tinv (step_track k st ce) (a_next st ce).
    Proof.
      unfold tinv, step_track, a_obs, a_next, cur_ok. intros H I a.
      destruct (a_dn st); cbn [ap_evs fold_left a_bits]; [apply I|].
      destruct (ce (a_cur st)) as [| |p|]; cbn [spec_evs spec_bits fold_left].
      - apply I.
      - destruct (Z.testbit (a_bits st) (a_cur st)) eqn:B; cbn [fold_left track_ev]; [|apply I].
        unfold upd. destruct (Z.eqb_spec a (a_cur st)) as [E|E]; [reflexivity|].
        rewrite Z.clearbit_neq by lia. apply I.
      - destruct (Z.testbit (a_bits st) (a_cur st)) eqn:B.
        + rewrite requery_on. cbn [fold_left track_ev]. unfold upd.
          destruct (Z.eqb_spec a (a_cur st)) as [E|E]; [subst a; rewrite B; discriminate|apply I].
        + cbn [fold_left track_ev]. unfold upd.
          destruct (Z.eqb_spec a (a_cur st)) as [E|E].
          * subst a. rewrite Z.setbit_eq by lia. discriminate.
          * rewrite Z.setbit_neq by lia. apply I.
      - destruct (other_sets && negb (Z.testbit (a_bits st) (a_cur st))); [|apply I].
        destruct (Z.eq_dec a (a_cur st)) as [E|E].
        + subst a. rewrite Z.setbit_eq by lia. discriminate.
        + rewrite Z.setbit_neq by lia. apply I.
    Qed.

    Definition step_ok (st : ast) (ce : Z -> cls P) : Prop :=
      consistent m [a_obs st ce] = true /\ pay_consistent peqb pay [a_obs st ce] = true.

    Hypothesis peqb_eq : forall p q, peqb p q = true -> p = q.

    Lemma step_tgoal_new k st ce : cur_ok st -> a_dn st = false -> tinv k st -> step_ok st ce ->
      tgoal (step_track k st ce) (a_cur st).
    Proof.
      unfold step_ok, tgoal, step_track, a_obs, consistent, pay_consistent, tinv. intros H D I [C1 C2].
      rewrite D in *. cbn [forallb ap_da ap_cls ap_evs] in *. rewrite andb_true_r in C1, C2.
      destruct (ce (a_cur st)) as [| |p|]; cbn [spec_evs]; try discriminate C1.
      - apply negb_true_iff in C1. rewrite C1.
        destruct (Z.testbit (a_bits st) (a_cur st)) eqn:B; cbn [fold_left track_ev].
        + unfold upd. rewrite Z.eqb_refl. reflexivity.
        + apply I. exact B.
      - rewrite C1. destruct (pay (a_cur st)) as [q|] eqn:Pq; [|discriminate C2].
        apply peqb_eq in C2. subst q.
        destruct (Z.testbit (a_bits st) (a_cur st)); [rewrite requery_on|]; cbn [fold_left track_ev];
          unfold upd; rewrite Z.eqb_refl; reflexivity.
    Qed.

    Lemma step_tgoal_pres k st ce a : cur_ok st -> tinv k st -> step_ok st ce ->
      tgoal k a -> tgoal (step_track k st ce) a.
    Proof.
      intros H I S G. destruct (a_dn st) eqn:D.
      - unfold tgoal, step_track, a_obs in *. rewrite D. exact G.
      - destruct (Z.eq_dec a (a_cur st)) as [E|E].
        + subst a. apply step_tgoal_new; assumption.
        + unfold tgoal, step_track, a_obs in *. rewrite D. cbn [ap_evs].
          destruct (ce (a_cur st)) as [| |p|]; cbn [spec_evs fold_left]; try exact G.
          * destruct (Z.testbit (a_bits st) (a_cur st)); cbn [fold_left track_ev]; [|exact G].
            unfold upd. destruct (Z.eqb_spec a (a_cur st)); [contradiction|exact G].
          * destruct (Z.testbit (a_bits st) (a_cur st)); [destruct requery|]; cbn [fold_left track_ev];
              try exact G; unfold upd; destruct (Z.eqb_spec a (a_cur st)); try contradiction; exact G.
    Qed.

    Lemma track_cons (k : Z -> option P) (p : apoll P) (w : list (apoll P)) :
      track k (p :: w) = track (fold_left (track_ev P) (ap_evs p) k) w.
    Proof. reflexivity. Qed.

    Lemma pay_consistent_cons (p : apoll P) (w : list (apoll P)) : pay_consistent peqb pay (p :: w) = true ->
      pay_consistent peqb pay [p] = true /\ pay_consistent peqb pay w = true.
    Proof.
      unfold pay_consistent. cbn [forallb]. intros H. apply andb_prop in H. destruct H as [A B].
      rewrite A, B. split; reflexivity.
    Qed.

    Lemma a_tinv h : forall k st, cur_ok st -> tinv k st -> tinv (track k (a_trace st h)) (a_final st h).
    Proof.
      induction h as [|ce h IH]; intros k st H I; cbn [a_trace a_final]; [exact I|].
      rewrite track_cons. apply IH; [apply a_next_cur_ok; exact H|]. apply step_tinv; assumption.
    Qed.

    Lemma a_tgoal_pres h : forall k st a, cur_ok st -> tinv k st ->
      consistent m (a_trace st h) = true -> pay_consistent peqb pay (a_trace st h) = true ->
      tgoal k a -> tgoal (track k (a_trace st h)) a.
    Proof.
      induction h as [|ce h IH]; intros k st a H I C1 C2 G; cbn [a_trace] in *; [exact G|].
      rewrite track_cons. apply consistent_cons in C1. apply pay_consistent_cons in C2.
      destruct C1 as [C1 C1']. destruct C2 as [C2 C2'].
      apply IH; [apply a_next_cur_ok; exact H|apply step_tinv; assumption|exact C1'|exact C2'|].
      apply step_tgoal_pres; [exact H|exact I|split; assumption|exact G].
    Qed.

    Lemma a_tgoal_probed h : forall k st a, cur_ok st -> tinv k st ->
      consistent m (a_trace st h) = true -> pay_consistent peqb pay (a_trace st h) = true ->
      In a (probed (a_trace st h)) -> tgoal (track k (a_trace st h)) a.
    Proof.
      induction h as [|ce h IH]; intros k st a H I C1 C2 In_; cbn [a_trace probed flat_map] in *; [contradiction|].
      rewrite track_cons. apply consistent_cons in C1. apply pay_consistent_cons in C2.
      destruct C1 as [C1 C1']. destruct C2 as [C2 C2'].
      apply in_app_or in In_. destruct In_ as [J|J].
      - unfold a_obs in J. destruct (a_dn st) eqn:D; cbn [ap_da opt_list] in J; [contradiction|].
        destruct J as [J|[]]. subst a.
        apply a_tgoal_pres; [apply a_next_cur_ok; exact H|apply step_tinv; assumption|exact C1'|exact C2'|].
        apply step_tgoal_new; [exact H|exact D|exact I|split; assumption].
      - apply IH; [apply a_next_cur_ok; exact H|apply step_tinv; assumption|exact C1'|exact C2'|exact J].
    Qed.

    (* after a stable window of one sweep the last payload reported for every address is the
       population's (and nothing is reported for absent addresses) *)
    Lemma a_track_converges h k st : cur_ok st -> tinv k st -> (sweep_polls <= length h)%nat ->
      consistent m (a_trace st h) = true -> pay_consistent peqb pay (a_trace st h) = true ->
      forall a, 0 <= a <= 125 -> track k (a_trace st h) a = if m a then pay a else None.
    Proof.
      intros H I L C1 C2 a Ha. apply (a_tgoal_probed h k st a H I C1 C2).
      apply (walk_cover (a_cur st) (a_dn st)); [exact H|apply a_cursor; exact H| |exact Ha].
      rewrite a_trace_length. exact L.
    Qed.
  End Track.
  (* ---------------------------------------------------------------- the convergence oracle never
     raises a false alarm on a machine trace that starts with bits 126.. clear *)

  Definition hi_clear (st : ast) : Prop := forall a, 125 < a -> Z.testbit (a_bits st) a = false.

  Lemma a_hi_clear h st : cur_ok st -> hi_clear st -> hi_clear (a_final st h).
  Proof. intros H C a Ha. rewrite a_bits_outside by assumption. apply C. exact Ha. Qed.

  Lemma a_trace_snoc st h ce : a_trace st (h ++ [ce]) = a_trace st h ++ [a_obs (a_final st h) ce].
  Proof. rewrite a_trace_app. reflexivity. Qed.

  Lemma a_final_snoc st h ce : a_final st (h ++ [ce]) = a_next (a_final st h) ce.
  Proof. rewrite a_final_app. reflexivity. Qed.

  Lemma last_bits_trace d h st : h <> [] -> last_bits d (a_trace st h) = a_bits (a_final st h).
  Proof.
    destruct h as [|ce h] using rev_ind; [intros C; contradiction|]. intros _.
    rewrite a_trace_snoc, a_final_snoc. unfold last_bits. rewrite rev_app_distr. cbn [rev app].
    apply a_obs_bits.
  Qed.

  Lemma window_set_other (w : list (apoll P)) : forall m0 n, 0 <= n -> ~ In n (probed w) ->
    Z.testbit (window_set m0 w) n = Z.testbit m0 n.
  Proof.
    induction w as [|p w IH]; intros m0 n Hn NI; [reflexivity|].
    cbn [window_set]. cbn [probed flat_map] in NI. fold (probed w) in NI.
    destruct (ap_da p) as [z|]; cbn [opt_list app] in NI.
    - assert (z <> n) by (intros E; apply NI; left; exact E).
      assert (~ In n (probed w)) by (intros I; apply NI; right; exact I).
      rewrite IH by assumption.
      destruct (ap_cls p); rewrite ?testbit_clearbit, ?testbit_setbit by exact Hn;
        destruct (Z.eqb_spec z n); try contradiction; cbn [negb orb]; rewrite ?andb_true_r; reflexivity.
    - apply IH; assumption.
  Qed.

  Lemma probed_in_range st h a : cur_ok st -> In a (probed (a_trace st h)) -> 0 <= a <= 125.
  Proof.
    intros H I.
    pose proof (cursor_walk_closed_form P (a_trace st h) (a_cur st) (a_dn st) H (a_cursor h st H)) as E.
    rewrite E in I. pose proof (sweep_from_range (if a_dn st then next_addr (a_cur st) else a_cur st)
                                  (length (probed (a_trace st h)))) as F.
    rewrite Forall_forall in F. exact (F a I).
  Qed.

  Lemma opt_peqb_refl (o : option P) : opt_peqb peqb o o = true.
  Proof. destruct o; [apply peqb_refl|reflexivity]. Qed.

  Lemma a_converge_check_ok payloads st0 h0 hw :
    cur_ok st0 -> hi_clear st0 ->
    (payloads = true -> requery = true /\ forall p q, peqb p q = true -> p = q) ->
    converge_check peqb payloads (a_trace st0 h0) (a_trace (a_final st0 h0) hw) <> Some false.
  Proof.
    intros H0 C0 Hp. set (st := a_final st0 h0).
    assert (H : cur_ok st) by (apply a_final_cur_ok; exact H0).
    assert (C : hi_clear st) by (apply a_hi_clear; assumption).
    unfold converge_check.
    set (w := a_trace st hw). set (m := window_set 0 w). set (pay := window_pay (fun _ => None) w).
    destruct (Nat.leb sweep_polls (length w) && consistent (Z.testbit m) w && pay_consistent peqb pay w) eqn:Cond;
      [|discriminate].
    apply andb_prop in Cond. destruct Cond as [Cond C2]. apply andb_prop in Cond. destruct Cond as [L C1].
    apply Nat.leb_le in L. unfold w in L. rewrite a_trace_length in L.
    assert (E1 : (last_bits 0 w =? m) = true).
    { apply Z.eqb_eq. unfold w. rewrite last_bits_trace.
      2:{ intros E. rewrite E in L. unfold sweep_polls in L. cbn [length] in L. lia. }
      apply Z.bits_inj'. intros n Hn. destruct (Z.le_gt_cases n 125) as [Le|Gt].
      - exact (a_converges (Z.testbit m) hw st H L C1 n (conj Hn Le)).
      - rewrite (a_hi_clear hw st H C n ltac:(lia)). symmetry. unfold m.
        rewrite window_set_other; [apply Z.testbit_0_l|exact Hn|].
        intros I. apply (probed_in_range st hw n H) in I. lia. }
    rewrite E1. cbn [andb]. destruct payloads; [|discriminate].
    destruct (Hp eq_refl) as [Rq Pe].
    assert (E2 : forallb (fun a => opt_peqb peqb (track (fun _ => None) (a_trace st0 h0 ++ w) a)
                                     (if Z.testbit m a then pay a else None)) (addr_list sweep_len) = true).
    { apply forallb_forall. intros a Ia. apply addr_list_in in Ia. unfold sweep_len in Ia.
      rewrite track_app. unfold w.
      rewrite (a_track_converges (Z.testbit m) pay Rq Pe hw _ st H); try assumption.
      - apply opt_peqb_refl.
      - apply (a_tinv Rq h0 (fun _ => None) st0 H0). intros x _. reflexivity.
      - lia. }
    rewrite E2. discriminate.
  Qed.

  Lemma a_trace_firstn n : forall st h, firstn n (a_trace st h) = a_trace st (firstn n h).
  Proof.
    induction n as [|n IH]; intros st h; [reflexivity|].
    destruct h as [|ce h]; [reflexivity|]. cbn [a_trace firstn]. rewrite IH. reflexivity.
  Qed.

  Lemma a_trace_skipn n : forall st h,
    skipn n (a_trace st h) = a_trace (a_final st (firstn n h)) (skipn n h).
  Proof.
    induction n as [|n IH]; intros st h; [reflexivity|].
    destruct h as [|ce h]; [reflexivity|]. cbn [a_trace skipn firstn a_final]. apply IH.
  Qed.

  Lemma a_converge_scan_ok payloads n st0 :
    cur_ok st0 -> hi_clear st0 ->
    (payloads = true -> requery = true /\ forall p q, peqb p q = true -> p = q) ->
    forall fuel h0 h1 acc, snd acc = 0%nat ->
    snd (converge_scan peqb payloads n fuel (a_trace st0 h0) (a_trace (a_final st0 h0) h1) acc) = 0%nat.
  Proof.
    intros H0 C0 Hp. induction fuel as [|fuel IH]; intros h0 h1 acc A; cbn [converge_scan]; [exact A|].
    destruct (Nat.ltb (length (a_trace (a_final st0 h0) h1)) n); [exact A|].
    rewrite (a_trace_firstn n), (a_trace_firstn sweep_polls), (a_trace_skipn sweep_polls).
    rewrite <- a_trace_app, <- a_final_app.
    apply IH.
    pose proof (a_converge_check_ok payloads st0 h0 (firstn n h1) H0 C0 Hp) as Ok_.
    destruct (converge_check peqb payloads (a_trace st0 h0) (a_trace (a_final st0 h0) (firstn n h1))) as [[|]|];
      [exact A|exfalso; apply Ok_; reflexivity|exact A].
  Qed.
End Machine.

