(* The composed N-station model (Model/Multi.v): the single-station guarantees carry over to every
   station of the composed system - for EVERY medium (section variable M, an arbitrary function), every
   number of stations, every schedule.

   multi_run_never_panics      (a) C05 for the composed system
   multi_run_station_transcripts, multi_run_station_inputs_ok
                               (b) every station's transcript IS a single-station model transcript
                                   (FdlOracleSound1.model_transcript) of admissible inputs (ins_ok)
   multi_monitors_silent       (c) all executable per-station monitors are silent on every station
   multi_c01_* multi_c13_* multi_c06_*   (d) the station-local halves of C01 / C13 / C06, per poll record and
                                   per station history of the composed system
   Hypotheses are stated where they are needed; see the comment before each theorem. *)
From Coq Require Import Arith.
From PB Require Import Common Tables FdlTables Telegram Phy TokenRing Params Fdl FdlOracle FdlProofs FdlStepProofs.
From PB Require Import C05Proofs C01Proofs C06Proofs C13Proofs C15Proofs C13Visits.
From PB Require Import FdlOracleSound1 FdlOracleSound2 FdlOracleSound3 FdlOracleSound5 FdlOracleSound11 FdlOracleSoundAll.
From PB Require Import C11Liveness C12OracleSound C15Liveness.
From PB Require Import Multi.

(* ------------------------------------------------------------------------------------------ *)
(* lists                                                                                        *)

Lemma nth_error_replace_nth_eq {X} (l : list X) : forall i x y,
  nth_error l i = Some y -> nth_error (replace_nth l i x) i = Some x.
Proof. induction l as [|h t IH]; intros [|i] x y H; cbn in *; try discriminate; [reflexivity|]. eapply IH; eassumption. Qed.

Lemma nth_error_replace_nth_neq {X} (l : list X) : forall i j x,
  i <> j -> nth_error (replace_nth l i x) j = nth_error l j.
Proof.
  induction l as [|h t IH]; intros [|i] [|j] x H; cbn; try reflexivity; try congruence.
  apply IH. congruence.
Qed.

(* the model's own copies of view_of / poll_event are the ones of the soundness proofs *)
Lemma mview_of_eq f : mview_of f = view_of f. Proof. reflexivity. Qed.
Lemma mpoll_event_eq now busy rxb f' o calls : mpoll_event now busy rxb f' o calls = poll_event now busy rxb f' o calls.
Proof. reflexivity. Qed.

(* the inputs a station has been given, as inputs of the single-station model *)
Definition ins_of_rec (r : srec) : minput :=
  match r with
  | SApi a _ _ => InApi a
  | SPoll now busy nb _ _ _ _ _ => InPoll now busy nb
  | SPanicApi a _ => InApi a
  | SPanicPoll now busy nb => InPoll now busy nb
  end.
Definition station_inputs {A : Type} (st : station A) : list minput := map ins_of_rec (st_log st).

(* hypotheses on medium and schedule *)
Definition medium_bytes (M : medium) : Prop := forall h i now, all_bytes (fst (M h i now)).

Definition poll_time_ok (it : sitem) : Prop := match snd it with ActPoll now => time_ok now | _ => True end.
Definition sched_time_ok (sc : schedule) : Prop := Forall poll_time_ok sc.

Definition set_last (last : nat -> Z) (i : nat) (now : Z) : nat -> Z := fun j => if Nat.eqb j i then now else last j.

(* per station: poll times in [0, 2^62), positive and strictly increasing.  No relation between the
   clocks of different stations is asked for. *)
Fixpoint sched_ok (last : nat -> Z) (sc : schedule) : Prop :=
  match sc with
  | [] => True
  | (i, ActPoll now) :: tl => last i < now /\ time_ok now /\ sched_ok (set_last last i now) tl
  | _ :: tl => sched_ok last tl
  end.

Lemma sched_ok_time_ok sc : forall last, sched_ok last sc -> sched_time_ok sc.
Proof.
  induction sc as [|[i a] tl IH]; intros last H; [constructor|]. destruct a as [| |now]; cbn [sched_ok] in H.
  - constructor; [exact I|eapply IH; eassumption].
  - constructor; [exact I|eapply IH; eassumption].
  - destruct H as (_ & Ht & H). constructor; [exact Ht|eapply IH; eassumption].
Qed.

(* ------------------------------------------------------------------------------------------ *)
(* the generic induction over a schedule: stations only interact through the medium's answers,
   so an invariant of single stations that every step preserves is an invariant of the system   *)

Section Generic.
Variable A : Type.
Variable ops : app_ops A.
Variable M : medium.
Variable X : Type.                                   (* what the invariant knows about the schedule so far *)
Variable upd : X -> sitem -> X.
Variable G : X -> sitem -> Prop.                      (* guard on the next item *)
Variable I : X -> nat -> station A -> Prop.           (* invariant while no call has panicked *)
Variable F : nat -> station A -> Prop.                (* what holds of every station at the end, panic or not *)

Fixpoint guards (x : X) (sc : schedule) : Prop :=
  match sc with [] => True | it :: tl => G x it /\ guards (upd x it) tl end.

Definition all_st (P : nat -> station A -> Prop) (s : sys A) : Prop :=
  forall i st, nth_error (sys_st s) i = Some st -> P i st.

Hypothesis HIF : forall x i st, I x i st -> F i st.
Hypothesis Hstep : forall x i a h st st' hr r, G x (i, a) -> I x i st ->
  station_step A ops M h i st a = (st', hr, r) -> F i st' /\ (r = Ok tt -> I (upd x (i, a)) i st').
Hypothesis Hframe : forall x i a j st, j <> i -> I x j st -> I (upd x (i, a)) j st.

Lemma multi_step_inv x s it s' r : G x it -> all_st (I x) s -> multi_step A ops M s it = (s', r) ->
  all_st F s' /\ (r = Ok tt -> all_st (I (upd x it)) s').
Proof.
  intros Hg Hi E. destruct it as [i a]. unfold multi_step in E.
  destruct (nth_error (sys_st s) i) as [st|] eqn:En.
  - destruct (station_step A ops M (sys_hist s) i st a) as [[st' hr] r0] eqn:Es. injection E as <- <-.
    destruct (Hstep _ _ _ _ _ _ _ _ Hg (Hi _ _ En) Es) as (Hf & Hok). split.
    + intros j stj Hj. cbn [sys_st] in Hj. destruct (Nat.eq_dec i j) as [<-|Hne].
      * rewrite (nth_error_replace_nth_eq _ _ _ _ En) in Hj. injection Hj as <-. exact Hf.
      * rewrite (nth_error_replace_nth_neq _ _ _ _ Hne) in Hj. eapply HIF. apply Hi. exact Hj.
    + intros Hr j stj Hj. cbn [sys_st] in Hj. destruct (Nat.eq_dec i j) as [<-|Hne].
      * rewrite (nth_error_replace_nth_eq _ _ _ _ En) in Hj. injection Hj as <-. exact (Hok Hr).
      * rewrite (nth_error_replace_nth_neq _ _ _ _ Hne) in Hj. apply Hframe; [congruence|]. apply Hi. exact Hj.
  - injection E as <- <-. split.
    + intros j stj Hj. eapply HIF. apply Hi. exact Hj.
    + intros _ j stj Hj. apply Hframe; [|apply Hi; exact Hj]. intros ->. rewrite En in Hj. discriminate Hj.
Qed.

Lemma multi_run_inv sc : forall x s s' r, guards x sc -> all_st (I x) s -> multi_run A ops M s sc = (s', r) ->
  all_st F s' /\ (r = Ok tt -> all_st (I (fold_left upd sc x)) s').
Proof.
  induction sc as [|it tl IH]; intros x s s' r Hg Hi E; cbn [multi_run guards fold_left] in *.
  - injection E as <- <-. split; [intros j stj Hj; eapply HIF; apply Hi; exact Hj|intros _; exact Hi].
  - destruct Hg as (Hg & Hgt). destruct (multi_step A ops M s it) as [s1 r1] eqn:E1.
    destruct (multi_step_inv _ _ _ _ _ Hg Hi E1) as (Hf1 & Hi1).
    destruct r1 as [[]| |].
    + eapply IH; [exact Hgt|exact (Hi1 eq_refl)|exact E].
    + injection E as <- <-. split; [exact Hf1|discriminate].
    + injection E as <- <-. split; [exact Hf1|discriminate].
Qed.

(* progress: if moreover every guarded step from the invariant returns, the run returns *)
Hypothesis Hprog : forall x i a h st st' hr r, G x (i, a) -> I x i st ->
  station_step A ops M h i st a = (st', hr, r) -> r = Ok tt.

Lemma multi_run_progress sc : forall x s s' r, guards x sc -> all_st (I x) s -> multi_run A ops M s sc = (s', r) ->
  r = Ok tt.
Proof.
  induction sc as [|it tl IH]; intros x s s' r Hg Hi E; cbn [multi_run guards] in *.
  - injection E as _ <-. reflexivity.
  - destruct Hg as (Hg & Hgt). destruct (multi_step A ops M s it) as [s1 r1] eqn:E1.
    destruct (multi_step_inv _ _ _ _ _ Hg Hi E1) as (_ & Hi1).
    assert (Hr1 : r1 = Ok tt).
    { destruct it as [i a]. unfold multi_step in E1. destruct (nth_error (sys_st s) i) as [st|] eqn:En.
      - destruct (station_step A ops M (sys_hist s) i st a) as [[st' hr] r0] eqn:Es. injection E1 as _ <-.
        eapply Hprog; [exact Hg|apply Hi; exact En|exact Es].
      - injection E1 as _ <-. reflexivity. }
    subst r1. eapply IH; [exact Hgt|exact (Hi1 eq_refl)|exact E].
Qed.

End Generic.

(* ------------------------------------------------------------------------------------------ *)

Section Composed.
Variable A : Type.
Variable ops : app_ops A.
Variable M : medium.
Notation station := (station A).
Notation sys := (sys A).
Notation station_step := (station_step A ops M).
Notation multi_run := (multi_run A ops M).

(* ---- the single-station model run along a list of inputs (the state model_events threads) ---- *)

Fixpoint run_ins (p : params) (f : fdl) (apps : list A) (buf : bytes) (ins : list minput) : res (fdl * list A * bytes) :=
  match ins with
  | [] => Ok (f, apps, buf)
  | InApi a :: tl => let* f' := api_result p a f in run_ins p f' apps buf tl
  | InPoll now busy nb :: tl =>
      let* (f', o, apps', _) := poll ops f now (mkPhyIn busy (buf ++ nb)) apps in
      run_ins p f' apps' (rx_left o) tl
  end.

Lemma run_ins_app p i1 i2 : forall f apps buf f' apps' buf',
  run_ins p f apps buf i1 = Ok (f', apps', buf') ->
  run_ins p f apps buf (i1 ++ i2) = run_ins p f' apps' buf' i2.
Proof.
  induction i1 as [|x tl IH]; intros f apps buf f' apps' buf' H; cbn [run_ins app] in *.
  - injection H as <- <- <-. reflexivity.
  - destruct x as [a|now busy nb].
    + destruct (api_result p a f) as [f1| |]; cbn [bind] in *; try discriminate H. eapply IH; exact H.
    + destruct (poll ops f now _ apps) as [[[[f1 o1] apps1] c1]| |]; cbn [bind] in *; try discriminate H. eapply IH; exact H.
Qed.

Lemma model_events_app p i1 i2 : forall f apps buf f' apps' buf',
  run_ins p f apps buf i1 = Ok (f', apps', buf') ->
  model_events A ops p f apps buf (i1 ++ i2) = model_events A ops p f apps buf i1 ++ model_events A ops p f' apps' buf' i2.
Proof.
  induction i1 as [|x tl IH]; intros f apps buf f' apps' buf' H; cbn [run_ins app model_events] in *.
  - injection H as <- <- <-. reflexivity.
  - destruct x as [a|now busy nb].
    + destruct (api_result p a f) as [f1| |]; cbn [bind] in *; try discriminate H.
      cbn [app]. f_equal. eapply IH; exact H.
    + destruct (poll ops f now _ apps) as [[[[f1 o1] apps1] c1]| |]; cbn [bind] in *; try discriminate H.
      cbn [app]. f_equal. eapply IH; exact H.
Qed.

(* ---- (b) the transcript of a station is a model transcript ---- *)

Definition StOk (st : station) : Prop :=
  fdl_new (st_p st) = Ok (st_f0 st) /\
  flat_map events_of_rec (st_log st) =
    model_events A ops (st_p st) (st_f0 st) (st_apps0 st) [] (station_inputs st).

Definition StLive (st : station) : Prop :=
  run_ins (st_p st) (st_f0 st) (st_apps0 st) [] (station_inputs st) = Ok (st_f st, st_apps st, st_buf st).

(* every poll record of a log is a poll of the single-station model *)
Definition rec_poll (r : srec) : Prop :=
  match r with
  | SPoll now busy _ rxb f f' o calls =>
      exists apps apps', poll ops f now (mkPhyIn busy rxb) apps = Ok (f', o, apps', calls)
  | _ => True
  end.

Definition same_id (st st' : station) : Prop :=
  st_p st' = st_p st /\ st_f0 st' = st_f0 st /\ st_apps0 st' = st_apps0 st.

Lemma station_step_id h i st a st' hr r : station_step h i st a = (st', hr, r) -> same_id st st'.
Proof.
  unfold Multi.station_step, log. destruct a as [| |now].
  - destruct (set_online (st_f st)); intros H; injection H as <- _ _; repeat split.
  - destruct (set_offline (st_f st)); intros H; injection H as <- _ _; repeat split.
  - destruct (M h i now) as [nb busy].
    destruct (poll ops (st_f st) now _ (st_apps st)) as [[[[f' o] apps'] calls]| |]; intros H; injection H as <- _ _; repeat split.
Qed.

Lemma station_step_log h i st a st' hr r : station_step h i st a = (st', hr, r) ->
  exists rec, st_log st' = st_log st ++ [rec] /\
    match r with
    | Ok _ =>
        match a, rec with
        | ActOnline, SApi ApiOnline f f' => f = st_f st /\ set_online f = Ok f' /\ st_f st' = f' /\ st_apps st' = st_apps st /\ st_buf st' = st_buf st
        | ActOffline, SApi ApiOffline f f' => f = st_f st /\ set_offline f = Ok f' /\ st_f st' = f' /\ st_apps st' = st_apps st /\ st_buf st' = st_buf st
        | ActPoll now, SPoll now' busy nb rxb f f' o calls =>
            now' = now /\ (nb, busy) = M h i now /\ rxb = st_buf st ++ nb /\ f = st_f st /\
            poll ops f now (mkPhyIn busy rxb) (st_apps st) = Ok (f', o, st_apps st', calls) /\
            st_f st' = f' /\ st_buf st' = rx_left o /\ hr = Some (mkH i now (tx o))
        | _, _ => False
        end
    | _ =>
        match a, rec with
        | ActOnline, SPanicApi ApiOnline f => f = st_f st /\ set_online f = (match r with Ok _ => OutOfFuel | Panic e => Panic e | OutOfFuel => OutOfFuel end)
        | ActOffline, SPanicApi ApiOffline f => f = st_f st /\ set_offline f = (match r with Ok _ => OutOfFuel | Panic e => Panic e | OutOfFuel => OutOfFuel end)
        | ActPoll now, SPanicPoll now' busy nb =>
            now' = now /\ (nb, busy) = M h i now /\
            (let* x := poll ops (st_f st) now (mkPhyIn busy (st_buf st ++ nb)) (st_apps st) in Ok tt) = r
        | _, _ => False
        end
    end.
Proof.
  unfold Multi.station_step, log. destruct a as [| |now].
  - destruct (set_online (st_f st)) as [f'| |] eqn:E; intros H; injection H as <- <- <-; cbn [st_log st_f st_apps st_buf];
      eexists; (split; [reflexivity|]); cbn; tauto.
  - destruct (set_offline (st_f st)) as [f'| |] eqn:E; intros H; injection H as <- <- <-; cbn [st_log st_f st_apps st_buf];
      eexists; (split; [reflexivity|]); cbn; tauto.
  - destruct (M h i now) as [nb busy] eqn:Em.
    destruct (poll ops (st_f st) now _ (st_apps st)) as [[[[f' o] apps'] calls]| |] eqn:E; intros H; injection H as <- <- <-;
      cbn [st_log st_f st_apps st_buf]; eexists; (split; [reflexivity|]); cbn [bind]; try rewrite E; cbn [bind]; tauto.
Qed.

Lemma station_step_transcript h i st a st' hr r :
  StOk st -> StLive st -> station_step h i st a = (st', hr, r) ->
  StOk st' /\ (r = Ok tt -> StLive st').
Proof.
  intros (Hn & He) Hl E. destruct (station_step_id _ _ _ _ _ _ _ E) as (Ip & If0 & Ia0).
  destruct (station_step_log _ _ _ _ _ _ _ E) as (rec & Elog & Hrec).
  unfold StOk, StLive, station_inputs in *. rewrite Ip, If0, Ia0, Elog, map_app, flat_map_app.
  rewrite (model_events_app _ _ _ _ _ _ _ _ _ Hl), (run_ins_app _ _ _ _ _ _ _ _ _ Hl), <- He. cbn [map flat_map app].
  split; [split; [exact Hn|f_equal]|].
  - destruct r as [[]| |]; destruct a as [| |now]; destruct rec as [[] f f'|now' busy nb rxb f f' o calls|[] f|now' busy nb];
      try contradiction; cbn [ins_of_rec events_of_rec model_events api_result].
    + destruct Hrec as (-> & Ea & _). rewrite Ea. reflexivity.
    + destruct Hrec as (-> & Ea & _). rewrite Ea. reflexivity.
    + destruct Hrec as (-> & _ & -> & -> & Ea & _). rewrite Ea. reflexivity.
    + destruct Hrec as (-> & Ea). rewrite Ea. reflexivity.
    + destruct Hrec as (-> & Ea). rewrite Ea. reflexivity.
    + destruct Hrec as (-> & _ & Ea). destruct (poll ops (st_f st) now _ (st_apps st)) as [[[[f1 o1] a1] c1]| |]; cbn [bind] in Ea; try discriminate Ea. reflexivity.
    + destruct Hrec as (-> & Ea). rewrite Ea. reflexivity.
    + destruct Hrec as (-> & Ea). rewrite Ea. reflexivity.
    + destruct Hrec as (-> & _ & Ea). destruct (poll ops (st_f st) now _ (st_apps st)) as [[[[f1 o1] a1] c1]| |]; cbn [bind] in Ea; try discriminate Ea. reflexivity.
  - intros ->. destruct a as [| |now]; destruct rec as [[] f f'|now' busy nb rxb f f' o calls|[] f|now' busy nb];
      try contradiction; cbn [ins_of_rec run_ins api_result].
    + destruct Hrec as (-> & Ea & <- & -> & ->). rewrite Ea. reflexivity.
    + destruct Hrec as (-> & Ea & <- & -> & ->). rewrite Ea. reflexivity.
    + destruct Hrec as (-> & _ & -> & -> & Ea & <- & -> & _). rewrite Ea. reflexivity.
Qed.

(* the initial system *)
Lemma multi_init_stations_spec cfg : forall l, multi_init_stations A cfg = Ok l ->
  forall i st, nth_error l i = Some st ->
  exists p apps, nth_error cfg i = Some (p, apps) /\ fdl_new p = Ok (st_f0 st) /\
    st = mkStation A p (st_f0 st) apps (st_f0 st) apps [] [].
Proof.
  induction cfg as [|[p apps] tl IH]; intros l H i st Hi; cbn [multi_init_stations] in H.
  - injection H as <-. destruct i; discriminate Hi.
  - destruct (fdl_new p) as [f0| |] eqn:En; cbn [bind] in H; try discriminate H.
    destruct (multi_init_stations A tl) as [r| |]; cbn [bind] in H; try discriminate H. injection H as <-.
    destruct i as [|i]; cbn [nth_error] in *.
    + injection Hi as <-. exists p, apps. cbn [st_f0]. repeat split. exact En.
    + exact (IH r eq_refl i st Hi).
Qed.

Definition from_cfg (cfg : list (params * list A)) (i : nat) (st : station) : Prop :=
  nth_error cfg i = Some (st_p st, st_apps0 st).

Definition I_b (cfg : list (params * list A)) (_ : unit) (i : nat) (st : station) : Prop :=
  StOk st /\ StLive st /\ from_cfg cfg i st /\ Forall rec_poll (st_log st).
Definition F_b (cfg : list (params * list A)) (i : nat) (st : station) : Prop :=
  StOk st /\ from_cfg cfg i st /\ Forall rec_poll (st_log st).

Lemma I_b_init cfg s0 : multi_init A cfg = Ok s0 -> all_st A (I_b cfg tt) s0.
Proof.
  unfold multi_init. destruct (multi_init_stations A cfg) as [l| |] eqn:E; cbn [bind]; try discriminate. intros H. injection H as <-.
  intros i st Hi. cbn [sys_st] in Hi. destruct (multi_init_stations_spec _ _ E _ _ Hi) as (p & apps & Hc & Hn & ->).
  unfold I_b, StOk, StLive, from_cfg, station_inputs. cbn. repeat split; try assumption. constructor.
Qed.

Lemma I_b_step cfg x i a h st st' hr r : True -> I_b cfg x i st -> station_step h i st a = (st', hr, r) ->
  F_b cfg i st' /\ (r = Ok tt -> I_b cfg tt i st').
Proof.
  intros _ (Ho & Hl & Hc & Hp) E. destruct (station_step_transcript _ _ _ _ _ _ _ Ho Hl E) as (Ho' & Hl').
  destruct (station_step_id _ _ _ _ _ _ _ E) as (Ip & If0 & Ia0).
  assert (Hc' : from_cfg cfg i st') by (unfold from_cfg in *; rewrite Ip, Ia0; exact Hc).
  assert (Hp' : Forall rec_poll (st_log st')).
  { destruct (station_step_log _ _ _ _ _ _ _ E) as (rec & -> & Hrec). apply Forall_app. split; [exact Hp|]. constructor; [|constructor].
    destruct r as [[]| |]; destruct a; destruct rec; try exact I; try contradiction.
    destruct Hrec as (-> & _ & _ & _ & Ea & _). unfold rec_poll. exists (st_apps st), (st_apps st'). exact Ea. }
  split; [exact (conj Ho' (conj Hc' Hp'))|]. intros Hr. exact (conj Ho' (conj (Hl' Hr) (conj Hc' Hp'))).
Qed.

Theorem multi_run_station_transcripts cfg s0 sc s' r :
  multi_init A cfg = Ok s0 -> multi_run s0 sc = (s', r) ->
  forall i st, nth_error (sys_st s') i = Some st ->
  nth_error cfg i = Some (st_p st, st_apps0 st) /\
  transcript st = model_transcript A ops (st_p st) (st_apps0 st) (station_inputs st) /\
  Forall rec_poll (st_log st) /\
  fdl_new (st_p st) = Ok (st_f0 st).
Proof.
  intros H0 E i st Hi.
  destruct (multi_run_inv A ops M unit (fun _ _ => tt) (fun _ _ => True) (I_b cfg) (F_b cfg)
              ltac:(intros x j stj (Ho & _ & Hc & Hp); exact (conj Ho (conj Hc Hp)))
              ltac:(intros [] ii aa hh stt stt' hrr rr; apply I_b_step)
              ltac:(intros [] ii aa jj stt _ HH; exact HH) sc tt s0 s' r) as (Hf & _).
  - clear. induction sc; cbn; auto.
  - apply I_b_init. exact H0.
  - exact E.
  - destruct (Hf _ _ Hi) as ((Hn & He) & Hc & Hp). split; [exact Hc|]. split; [|split; [exact Hp|exact Hn]].
    unfold transcript, model_transcript. rewrite Hn, He. reflexivity.
Qed.

(* ---- (b), second half: the inputs are admissible (ins_ok) ---- *)

Fixpoint last_now (tl : Z) (ins : list minput) : Z :=
  match ins with
  | [] => tl
  | InApi _ :: r => last_now tl r
  | InPoll now _ _ :: r => last_now now r
  end.

Lemma ins_ok_app i1 i2 : forall tl, ins_ok tl i1 -> ins_ok (last_now tl i1) i2 -> ins_ok tl (i1 ++ i2).
Proof.
  induction i1 as [|x r IH]; intros tl H1 H2; cbn [app ins_ok last_now] in *; [exact H2|].
  destruct x as [a|now busy nb]; [apply IH; assumption|].
  destruct H1 as (Ha & Hb & Hc & Hd). split; [exact Ha|split; [exact Hb|split; [exact Hc|apply IH; assumption]]].
Qed.

Lemma last_now_app i1 i2 : forall tl, last_now tl (i1 ++ i2) = last_now (last_now tl i1) i2.
Proof. induction i1 as [|x r IH]; intros tl; cbn [app last_now]; [reflexivity|]. destruct x; apply IH. Qed.

Definition upd_last (last : nat -> Z) (it : sitem) : nat -> Z :=
  match snd it with ActPoll now => set_last last (fst it) now | _ => last end.
Definition G_t (last : nat -> Z) (it : sitem) : Prop :=
  match snd it with ActPoll now => last (fst it) < now /\ time_ok now | _ => True end.
Definition I_t (last : nat -> Z) (i : nat) (st : station) : Prop :=
  ins_ok 0 (station_inputs st) /\ last_now 0 (station_inputs st) = last i.
Definition F_t (_ : nat) (st : station) : Prop := ins_ok 0 (station_inputs st).

Lemma sched_ok_guards sc : forall last, sched_ok last sc -> guards (nat -> Z) upd_last G_t last sc.
Proof.
  induction sc as [|[i a] tl IH]; intros last H; [exact I|]. cbn [guards]. destruct a as [| |now]; cbn [sched_ok] in H.
  - split; [exact I|apply IH; exact H].
  - split; [exact I|apply IH; exact H].
  - destruct H as (H1 & H2 & H3). split; [split; assumption|apply IH; exact H3].
Qed.

Hypothesis HM : medium_bytes M.

Lemma I_t_step last i a h st st' hr r : G_t last (i, a) -> I_t last i st -> station_step h i st a = (st', hr, r) ->
  F_t i st' /\ (r = Ok tt -> I_t (upd_last last (i, a)) i st').
Proof.
  intros Hg (Hok & Hl) E. destruct (station_step_log _ _ _ _ _ _ _ E) as (rec & Elog & Hrec).
  unfold I_t, F_t, station_inputs in *. rewrite Elog, map_app, last_now_app, Hl. cbn [map].
  assert (Hone : ins_ok (last i) [ins_of_rec rec] /\ last_now (last i) [ins_of_rec rec] = upd_last last (i, a) i).
  { unfold upd_last, G_t, set_last in *. cbn [fst snd] in *.
    destruct r as [[]| |]; destruct a as [| |now]; destruct rec as [[] f f'|now' busy nb rxb f f' o calls|[] f|now' busy nb];
      try contradiction; cbn [ins_of_rec ins_ok last_now]; try (split; [exact I|reflexivity]).
    all: rewrite Nat.eqb_refl.
    - destruct Hrec as (-> & Em & _). destruct Hg as (H1 & H2). pose proof (HM h i now) as Hb. rewrite <- Em in Hb. cbn [fst] in Hb. split; [split; [exact H1|split; [exact H2|split; [exact Hb|exact I]]]|reflexivity].
    - destruct Hrec as (-> & Em & _). destruct Hg as (H1 & H2). pose proof (HM h i now) as Hb. rewrite <- Em in Hb. cbn [fst] in Hb. split; [split; [exact H1|split; [exact H2|split; [exact Hb|exact I]]]|reflexivity].
    - destruct Hrec as (-> & Em & _). destruct Hg as (H1 & H2). pose proof (HM h i now) as Hb. rewrite <- Em in Hb. cbn [fst] in Hb. split; [split; [exact H1|split; [exact H2|split; [exact Hb|exact I]]]|reflexivity]. }
  destruct Hone as (H1 & H2). split.
  - apply ins_ok_app; [exact Hok|rewrite Hl; exact H1].
  - intros _. split; [apply ins_ok_app; [exact Hok|rewrite Hl; exact H1]|exact H2].
Qed.

Theorem multi_run_station_inputs_ok cfg s0 sc s' r :
  multi_init A cfg = Ok s0 -> sched_ok (fun _ => 0) sc -> multi_run s0 sc = (s', r) ->
  forall i st, nth_error (sys_st s') i = Some st -> ins_ok 0 (station_inputs st).
Proof.
  intros H0 Hs E i st Hi.
  destruct (multi_run_inv A ops M (nat -> Z) upd_last G_t I_t F_t
              ltac:(intros x j stj (Ho & _); exact Ho)
              ltac:(intros xx ii aa hh stt stt' hrr rr; apply I_t_step)
              ltac:(intros x j a k stk Hne (H1 & H2); split; [exact H1|];
                    unfold upd_last, set_last; cbn [fst snd]; destruct a; try exact H2;
                    destruct (Nat.eqb_spec k j); [contradiction|exact H2])
              sc (fun _ => 0) s0 s' r) as (Hf & _).
  - apply sched_ok_guards. exact Hs.
  - intros j stj Hj. pose proof (I_b_init _ _ H0 _ _ Hj) as (_ & _ & _ & _).
    unfold multi_init in H0. destruct (multi_init_stations A cfg) as [l| |] eqn:El; cbn [bind] in H0; try discriminate H0.
    injection H0 as <-. cbn [sys_st] in Hj. destruct (multi_init_stations_spec _ _ El _ _ Hj) as (p & apps & _ & _ & ->).
    split; cbn; [exact I|reflexivity].
  - exact E.
  - exact (Hf _ _ Hi).
Qed.

(* ---- (a) the composed run never panics ---- *)

Hypothesis Happs : apps_total A ops.

Definition I_a (_ : unit) (_ : nat) (st : station) : Prop :=
  Rep (length (st_apps0 st)) (st_f st) /\ length (st_apps st) = length (st_apps0 st) /\
  all_bytes (st_buf st) /\ f_p (st_f st) = st_p st /\
  Forall (fun r => match r with
                   | SPoll _ _ _ _ f _ _ _ => Rep (length (st_apps0 st)) f /\ f_p f = st_p st
                   | SPanicApi _ _ | SPanicPoll _ _ _ => False
                   | _ => True
                   end) (st_log st).

Lemma I_a_step x i a h st st' hr r : poll_time_ok (i, a) -> I_a x i st -> station_step h i st a = (st', hr, r) ->
  r = Ok tt /\ I_a tt i st'.
Proof.
  intros Hg (HR & Hlen & Hb & Hp & Hlog) E. destruct (station_step_id _ _ _ _ _ _ _ E) as (Ip & If0 & Ia0).
  unfold I_a. rewrite Ip, Ia0. revert E. unfold Multi.station_step, log. destruct a as [| |now].
  - destruct (Rep_set_online _ _ HR) as (f' & Ea & HR'). rewrite Ea. intros E. injection E as <- _ <-. cbn [st_f st_apps st_buf st_log].
    split; [reflexivity|]. split; [exact HR'|split; [exact Hlen|split; [exact Hb|split]]].
    + unfold set_online, set_state in Ea. injection Ea as <-. exact Hp.
    + apply Forall_app. split; [exact Hlog|]. constructor; [exact I|constructor].
  - destruct (Rep_set_offline _ _ HR) as (f' & Ea & HR'). rewrite Ea. intros E. injection E as <- _ <-. cbn [st_f st_apps st_buf st_log].
    split; [reflexivity|]. split; [exact HR'|split; [exact Hlen|split; [exact Hb|split]]].
    + unfold set_offline, set_state in Ea. destruct (fdl_new_fields _ _ Ea) as (_ & _ & _ & _ & Hp'). rewrite Hp'. exact Hp.
    + apply Forall_app. split; [exact Hlog|]. constructor; [exact I|constructor].
  - destruct (M h i now) as [nb busy] eqn:Em.
    assert (Hnb : all_bytes nb) by (pose proof (HM h i now) as Hx; rewrite Em in Hx; exact Hx).
    assert (Hrx : all_bytes (st_buf st ++ nb)) by (apply Forall_app; split; assumption).
    rewrite <- Hlen in HR.
    destruct (poll_rep_step A ops Happs (st_f st) now (mkPhyIn busy (st_buf st ++ nb)) (st_apps st) HR Hg Hrx) as (f' & o & apps' & c & Ea & HR' & Hlen').
    rewrite Ea. intros E. injection E as <- _ <-. cbn [st_f st_apps st_buf st_log].
    destruct (poll_bk A ops now _ _ _ _ _ _ _ Ea) as ((k & Ek) & _ & Hp' & _). cbn [rx] in Ek.
    split; [reflexivity|]. split; [|split; [|split; [|split]]].
    + rewrite <- Hlen. exact HR'.
    + congruence.
    + rewrite Ek. apply all_bytes_skipn. exact Hrx.
    + congruence.
    + apply Forall_app. split; [exact Hlog|]. constructor; [|constructor]. rewrite <- Hlen. split; assumption.
Qed.

Definition cfg_valid (cfg : list (params * list A)) : Prop := Forall (fun pa => builder_valid (fst pa)) cfg.

Lemma multi_init_total cfg : cfg_valid cfg -> exists s0, multi_init A cfg = Ok s0 /\ all_st A (I_a tt) s0.
Proof.
  intros Hv. assert (H : exists l, multi_init_stations A cfg = Ok l /\ forall i st, nth_error l i = Some st -> I_a tt i st).
  { induction Hv as [|[p apps] tl Hp _ IH]; [exists []; split; [reflexivity|intros [|i] st Hi; discriminate Hi]|].
    destruct IH as (l & El & Hl). cbn [fst] in Hp. destruct (fdl_new_rep (length apps) p Hp) as (f0 & En & HR & _ & _ & Hp0).
    cbn [multi_init_stations]. rewrite En, El. cbn [bind]. eexists. split; [reflexivity|].
    intros [|i] st Hi; cbn [nth_error] in Hi; [|exact (Hl _ _ Hi)]. injection Hi as <-.
    unfold I_a. cbn [st_f st_apps st_apps0 st_buf st_p st_log]. split; [exact HR|split; [reflexivity|split; [constructor|split; [exact Hp0|constructor]]]]. }
  destruct H as (l & El & Hl). exists (mkSys A l []). unfold multi_init. rewrite El. split; [reflexivity|exact Hl].
Qed.

(* (a) For every medium that delivers octets, every number of stations with parameters the builder can
   produce and any number of total applications each, every schedule whose poll times are in [0, 2^62)
   (not even monotone, as in C05_no_panic): the system can be created and the composed run returns -
   no station reaches a panic site or exhausts a loop bound - and every station satisfies the
   representation invariant Rep of C05 afterwards. *)
Theorem multi_run_never_panics cfg sc : cfg_valid cfg -> sched_time_ok sc ->
  exists s0 s', multi_init A cfg = Ok s0 /\ multi_run s0 sc = (s', Ok tt) /\
    forall i st, nth_error (sys_st s') i = Some st -> Rep (length (st_apps st)) (st_f st).
Proof.
  intros Hv Hs. destruct (multi_init_total _ Hv) as (s0 & E0 & H0). exists s0.
  destruct (multi_run s0 sc) as [s' r] eqn:E. exists s'.
  assert (Hg : guards unit (fun _ _ => tt) (fun _ => poll_time_ok) tt sc).
  { clear -Hs. induction Hs as [|it tl Hit _ IH]; [exact I|]. split; assumption. }
  assert (Hr : r = Ok tt).
  { eapply (multi_run_progress A ops M unit (fun _ _ => tt) (fun _ => poll_time_ok) I_a (fun _ _ => True)); try eassumption.
    - intros; exact I.
    - intros [] ii aa hh stt stt' hrr rr Hgi Hi Es. destruct (I_a_step _ _ _ _ _ _ _ _ Hgi Hi Es) as (_ & Hi'). split; [exact I|intros _; exact Hi'].
    - intros [] ii aa jj stt _ HH; exact HH.
    - intros [] ii aa hh stt stt' hrr rr Hgi Hi Es. exact (proj1 (I_a_step _ _ _ _ _ _ _ _ Hgi Hi Es)). }
  subst r. split; [exact E0|]. split; [reflexivity|].
  destruct (multi_run_inv A ops M unit (fun _ _ => tt) (fun _ => poll_time_ok) I_a (fun _ _ => True)
              ltac:(intros; exact I)
              ltac:(intros [] ii aa hh stt stt' hrr rr Hgi Hi Es; destruct (I_a_step _ _ _ _ _ _ _ _ Hgi Hi Es) as (_ & Hi'); split; [exact I|intros _; exact Hi'])
              ltac:(intros [] ii aa jj stt _ HH; exact HH) sc tt s0 s' (Ok tt) Hg H0 E) as (_ & Hi).
  intros i st Hst. assert (Hx : fold_left (fun (_ : unit) (_ : sitem) => tt) sc tt = tt) by (destruct (fold_left _ sc tt); reflexivity).
  specialize (Hi eq_refl i st Hst). rewrite Hx in Hi. destruct Hi as (HR & Hlen & _). rewrite Hlen. exact HR.
Qed.

(* the same invariant, for use below: in a run that returned, every poll record starts from a state
   satisfying Rep with the station's parameters *)
Lemma multi_run_records_rep cfg s0 sc s' r : cfg_valid cfg -> sched_time_ok sc ->
  multi_init A cfg = Ok s0 -> multi_run s0 sc = (s', r) ->
  forall i st, nth_error (sys_st s') i = Some st ->
  forall now busy nb rxb f f' o calls, In (SPoll now busy nb rxb f f' o calls) (st_log st) ->
  Rep (length (st_apps0 st)) f /\ f_p f = st_p st.
Proof.
  intros Hv Hs E0 E i st Hst. destruct (multi_init_total _ Hv) as (s0' & E0' & H0). rewrite E0 in E0'. injection E0' as <-.
  assert (Hg : guards unit (fun _ _ => tt) (fun _ => poll_time_ok) tt sc).
  { clear -Hs. induction Hs as [|it tl Hit _ IH]; [exact I|]. split; assumption. }
  destruct (multi_run_inv A ops M unit (fun _ _ => tt) (fun _ => poll_time_ok) I_a (fun i st => I_a tt i st)
              ltac:(intros [] ii stt HH; exact HH)
              ltac:(intros [] ii aa hh stt stt' hrr rr Hgi Hi Es; destruct (I_a_step _ _ _ _ _ _ _ _ Hgi Hi Es) as (_ & Hi'); split; [exact Hi'|intros _; exact Hi'])
              ltac:(intros [] ii aa jj stt _ HH; exact HH) sc tt s0 s' r Hg H0 E) as (Hf & _).
  destruct (Hf _ _ Hst) as (_ & _ & _ & _ & Hlog). intros now busy nb rxb f f' o calls Hin.
  rewrite Forall_forall in Hlog. exact (Hlog _ Hin).
Qed.

(* ---- (c) the per-station monitors are silent ---- *)

Lemma cfg_valid_nth cfg i p apps : cfg_valid cfg -> nth_error cfg i = Some (p, apps) -> builder_valid p.
Proof. intros Hv Hn. unfold cfg_valid in Hv. rewrite Forall_forall in Hv. exact (Hv _ (nth_error_In _ _ Hn)). Qed.

(* C01 and C05 need nothing of the applications beyond totality *)
Theorem multi_monitors_c01_c05 cfg s0 sc s' r :
  cfg_valid cfg -> sched_ok (fun _ => 0) sc ->
  multi_init A cfg = Ok s0 -> multi_run s0 sc = (s', r) ->
  forall i st, nth_error (sys_st s') i = Some st ->
  forall k rl, In (k, rl) (monitor (st_p st) (length (st_apps0 st)) (transcript st)) ->
  rule_prop rl <> PC01 /\ rule_prop rl <> PC05.
Proof.
  intros Hv Hs E0 E i st Hst k rl Hin.
  destruct (multi_run_station_transcripts _ _ _ _ _ E0 E _ _ Hst) as (Hc & Ht & _).
  pose proof (multi_run_station_inputs_ok _ _ _ _ _ E0 Hs E _ _ Hst) as Hok.
  pose proof (cfg_valid_nth _ _ _ _ Hv Hc) as Hbv. rewrite Ht in Hin. split.
  - exact (c01_oracle_sound A ops (st_p st) Happs Hbv _ _ Hok _ _ Hin).
  - exact (c05_oracle_sound A ops (st_p st) Happs Hbv _ _ Hok _ _ Hin).
Qed.

Hypothesis Hdata : app_sends_data A ops.

(* every rule except those of C12 (which need app_sends_requests for the status-reply rules) *)
Theorem multi_monitors_but_c12 cfg s0 sc s' r :
  cfg_valid cfg -> sched_ok (fun _ => 0) sc ->
  multi_init A cfg = Ok s0 -> multi_run s0 sc = (s', r) ->
  forall i st, nth_error (sys_st s') i = Some st ->
  forall k rl, In (k, rl) (monitor (st_p st) (length (st_apps0 st)) (transcript st)) -> rule_prop rl = PC12.
Proof.
  intros Hv Hs E0 E i st Hst k rl Hin.
  destruct (multi_run_station_transcripts _ _ _ _ _ E0 E _ _ Hst) as (Hc & Ht & _).
  pose proof (multi_run_station_inputs_ok _ _ _ _ _ E0 Hs E _ _ Hst) as Hok.
  pose proof (cfg_valid_nth _ _ _ _ Hv Hc) as Hbv. rewrite Ht in Hin.
  pose proof (c01_oracle_sound A ops (st_p st) Happs Hbv _ _ Hok _ _ Hin) as H01.
  pose proof (c05_oracle_sound A ops (st_p st) Happs Hbv _ _ Hok _ _ Hin) as H05.
  pose proof (c06_oracle_sound A ops (st_p st) Happs Hbv Hdata _ _ Hok _ _ Hin) as H06.
  pose proof (c11_oracle_sound A ops (st_p st) Happs Hbv Hdata _ _ Hok _ _ Hin) as H11.
  pose proof (c13_oracle_sound A ops (st_p st) Happs Hbv Hdata _ _ Hok _ _ Hin) as H13.
  pose proof (c15_oracle_sound A ops (st_p st) Happs Hbv Hdata _ _ Hok _ _ Hin) as H15.
  destruct (rule_prop rl); try reflexivity; contradiction.
Qed.

(* (c) ALL monitors silent: C01 C05 C06 C11 C12 C13 C15, every rule of Model/FdlOracle.v *)
Theorem multi_monitors_silent cfg s0 sc s' r :
  app_sends_requests A ops ->
  cfg_valid cfg -> sched_ok (fun _ => 0) sc ->
  multi_init A cfg = Ok s0 -> multi_run s0 sc = (s', r) ->
  forall i st, nth_error (sys_st s') i = Some st ->
  monitor (st_p st) (length (st_apps0 st)) (transcript st) = [].
Proof.
  intros Hreq Hv Hs E0 E i st Hst.
  destruct (monitor (st_p st) (length (st_apps0 st)) (transcript st)) as [|[k rl] l] eqn:Em; [reflexivity|]. exfalso.
  assert (Hin : In (k, rl) (monitor (st_p st) (length (st_apps0 st)) (transcript st))) by (rewrite Em; left; reflexivity).
  pose proof (multi_monitors_but_c12 _ _ _ _ _ Hv Hs E0 E _ _ Hst _ _ Hin) as H12.
  destruct (multi_run_station_transcripts _ _ _ _ _ E0 E _ _ Hst) as (Hc & Ht & _).
  pose proof (multi_run_station_inputs_ok _ _ _ _ _ E0 Hs E _ _ Hst) as Hok.
  pose proof (cfg_valid_nth _ _ _ _ Hv Hc) as Hbv. rewrite Ht in Hin.
  exact (c12_oracle_sound A ops (st_p st) Happs Hbv Hdata _ _ Hreq Hok _ _ Hin H12).
Qed.

End Composed.

(* ------------------------------------------------------------------------------------------ *)
(* (d) the station-local halves of C01 / C13 / C06 in the composed system.
   The one-step theorems of Properties/C01.v, C06.v, C13.v quantify over ALL station states; every poll
   record of every station of a composed run is such a step (rec_poll), so they hold of every poll of the
   composed system without any hypothesis; where a theorem needs parameters the builder can produce
   the hypotheses of (a) give them.  The history theorems of C13 (visits) hold of every station's history. *)

Section ComposedD.
Variable A : Type.
Variable ops : app_ops A.
Variable M : medium.
Notation station := (station A).
Notation multi_run := (multi_run A ops M).

(* ---- C01: idle time before each transmission, who may transmit ---- *)

(* No hypotheses (any medium, any parameters, any applications, any schedule, panicking or not): in every
   poll in which a station hands something to its PHY, its PHY had reported "not busy", and the station's
   last_bus_activity - the latest RX growth / received telegram / predicted end of its own transmission it
   has recorded - was known and more than the synchronisation pause of 33 bit times old. *)
Theorem multi_c01_sync_pause cfg s0 sc s' r :
  multi_init A cfg = Ok s0 -> multi_run s0 sc = (s', r) ->
  forall i st, nth_error (sys_st s') i = Some st ->
  forall now busy nb rxb f f' o calls wire,
  In (SPoll now busy nb rxb f f' o calls) (st_log st) -> tx o = Some wire ->
  busy = false /\ exists l, f_lba f = Some l /\ l + p_bits_to_time (f_p f) sync_pause_bits < now.
Proof.
  intros E0 E i st Hst now busy nb rxb f f' o calls wire Hin Htx.
  destruct (multi_run_station_transcripts A ops M _ _ _ _ _ E0 E _ _ Hst) as (_ & _ & Hp & _).
  rewrite Forall_forall in Hp. destruct (Hp _ Hin) as (apps & apps' & Ep).
  split.
  - destruct (poll_bk A ops now _ _ _ _ _ _ _ Ep) as (_ & _ & _ & L & _). rewrite Htx in L. cbn [tx_busy] in L. tauto.
  - exact (poll_tx_sync_pause A ops _ _ _ _ _ _ _ _ _ Ep Htx).
Qed.

(* With the hypotheses of (a): the state before a transmitting poll is one of those of C01_who_may_transmit
   (`may_transmit`: token-holding state, PassToken, CheckTokenPass after a silent slot time, a pending status
   request addressed to the station, or the claim after the station's own silence time-out), with the
   station's configured parameters. *)
Theorem multi_c01_who_may_transmit cfg s0 sc s' r :
  medium_bytes M -> apps_total A ops -> cfg_valid A cfg -> sched_time_ok sc ->
  multi_init A cfg = Ok s0 -> multi_run s0 sc = (s', r) ->
  forall i st, nth_error (sys_st s') i = Some st ->
  forall now busy nb rxb f f' o calls wire,
  In (SPoll now busy nb rxb f f' o calls) (st_log st) -> tx o = Some wire ->
  f_p f = st_p st /\ may_transmit f now.
Proof.
  intros HM Ha Hv Hs E0 E i st Hst now busy nb rxb f f' o calls wire Hin Htx.
  destruct (multi_run_station_transcripts A ops M _ _ _ _ _ E0 E _ _ Hst) as (_ & _ & Hp & _).
  rewrite Forall_forall in Hp. destruct (Hp _ Hin) as (apps & apps' & Ep).
  destruct (multi_run_records_rep A ops M HM Ha _ _ _ _ _ Hv Hs E0 E _ _ Hst _ _ _ _ _ _ _ _ Hin) as (HR & Hfp).
  split; [exact Hfp|]. destruct (bv_timeouts _ (rep_p _ _ HR)) as (H1 & H2).
  exact (poll_who A ops _ _ _ _ _ _ _ _ _ Ep Htx H1 H2).
Qed.

(* ---- C13: the hold-time rule ---- *)

(* No hypotheses: the transmit callbacks of every poll of every station are of one priority class; if there
   are any, either now < end_token_hold_time (normal round) or the hold time is over, only high-priority
   telegrams are asked for and the visit had not had a round yet (C13_hold_rule_poll). *)
Theorem multi_c13_hold_rule cfg s0 sc s' r :
  multi_init A cfg = Ok s0 -> multi_run s0 sc = (s', r) ->
  forall i st, nth_error (sys_st s') i = Some st ->
  forall now busy nb rxb f f' o calls,
  In (SPoll now busy nb rxb f f' o calls) (st_log st) ->
  exists hp, Forall (prio_of hp) calls /\
    (asks calls ->
     if hp then (exists tk fa, f_state f = UseToken tk fa false) /\ f_end_tht f' <= now
     else now < f_end_tht f').
Proof.
  intros E0 E i st Hst now busy nb rxb f f' o calls Hin.
  destruct (multi_run_station_transcripts A ops M _ _ _ _ _ E0 E _ _ Hst) as (_ & _ & Hp & _).
  rewrite Forall_forall in Hp. destruct (Hp _ Hin) as (apps & apps' & Ep).
  exact (poll_hold_rule A ops _ _ _ _ _ _ _ _ Ep).
Qed.

(* the history of a station in the sense of Proofs/C15Proofs.v / C13Visits.v, read off its log *)
Definition ev_of_rec (r : srec) : C15Proofs.event A :=
  match r with
  | SApi ApiOffline _ _ => C15Proofs.EvOffline A
  | SPoll now busy _ rxb _ _ _ _ => C15Proofs.EvPoll A now (mkPhyIn busy rxb)
  | _ => C15Proofs.EvOnline A
  end.
Definition hitems_of_rec (r : srec) : list hitem :=
  match r with
  | SApi ApiOffline _ _ => [HReset]
  | SPoll now _ _ _ _ f' _ calls => map HCall calls ++ [HEnd now f']
  | _ => []
  end.
Definition station_events (st : station) : list (C15Proofs.event A) := map ev_of_rec (st_log st).
Definition station_hitems (st : station) : list hitem := flat_map hitems_of_rec (st_log st).

Lemma run_snoc evs e : forall f apps f1 apps1 h1 f2 apps2 h2,
  C15Proofs.run A ops f apps evs = Ok (f1, apps1, h1) -> C15Proofs.step A ops f1 apps1 e = Ok (f2, apps2, h2) ->
  C15Proofs.run A ops f apps (evs ++ [e]) = Ok (f2, apps2, h1 ++ h2).
Proof.
  induction evs as [|x tl IH]; intros f apps f1 apps1 h1 f2 apps2 h2 H1 H2; cbn [C15Proofs.run app] in *.
  - injection H1 as <- <- <-. rewrite H2. cbn [bind]. rewrite app_nil_r. reflexivity.
  - destruct (C15Proofs.step A ops f apps x) as [[[fa appsa] ha]| |]; cbn [bind] in *; try discriminate H1.
    destruct (C15Proofs.run A ops fa appsa tl) as [[[fb appsb] hb]| |] eqn:Eb; cbn [bind] in *; try discriminate H1.
    injection H1 as <- <- <-. rewrite (IH _ _ _ _ _ _ _ _ Eb H2). cbn [bind]. rewrite app_assoc. reflexivity.
Qed.

Definition I_h (_ : unit) (_ : nat) (st : station) : Prop :=
  C15Proofs.run A ops (st_f0 st) (st_apps0 st) (station_events st) = Ok (st_f st, st_apps st, station_hitems st).

Lemma I_h_step x i a h st st' hr r : True -> I_h x i st -> station_step A ops M h i st a = (st', hr, r) ->
  True /\ (r = Ok tt -> I_h tt i st').
Proof.
  intros _ Hi E. split; [exact I|]. intros ->.
  destruct (station_step_id A ops M _ _ _ _ _ _ _ E) as (Ip & If0 & Ia0).
  destruct (station_step_log A ops M _ _ _ _ _ _ _ E) as (rec & Elog & Hrec).
  unfold I_h, station_events, station_hitems in *. rewrite If0, Ia0, Elog, map_app, flat_map_app. cbn [map flat_map]. rewrite app_nil_r.
  eapply run_snoc; [exact Hi|].
  destruct a as [| |now]; destruct rec as [[] f f'|now' busy nb rxb f f' o calls|[] f|now' busy nb];
    try contradiction; cbn [ev_of_rec hitems_of_rec C15Proofs.step].
  - destruct Hrec as (-> & Ea & <- & -> & _). rewrite Ea. reflexivity.
  - destruct Hrec as (-> & Ea & <- & -> & _). rewrite Ea. reflexivity.
  - destruct Hrec as (-> & _ & -> & -> & Ea & <- & _). rewrite Ea. reflexivity.
Qed.

Lemma mono_weaken (evs : list (C15Proofs.event A)) : forall tl tl', tl' <= tl -> mono tl evs -> mono tl' evs.
Proof.
  induction evs as [|e r IH]; intros tl tl' Hle H; [exact I|].
  destruct e as [now pin| | |g]; cbn [mono] in *; try (eapply IH; eassumption).
  destruct H as (H1 & H2). split; [lia|exact H2].
Qed.

Lemma ins_ok_mono lg : forall tl, ins_ok tl (map ins_of_rec lg) -> mono tl (map ev_of_rec lg).
Proof.
  induction lg as [|x r IH]; intros tl H; [exact I|]. cbn [map].
  destruct x as [[] f f'|now busy nb rxb f f' o calls|[] f|now busy nb]; cbn [ins_of_rec ev_of_rec ins_ok mono] in *;
    try (apply IH; exact H).
  - destruct H as (H1 & _ & _ & H2). split; [exact H1|apply IH; exact H2].
  - destruct H as (H1 & _ & _ & H2). apply (mono_weaken _ now tl); [lia|]. apply IH. exact H2.
Qed.

(* With per-station increasing poll times and a medium that delivers octets: in a run that returned, the
   history of every station (callbacks, state after each poll, re-creations) is a `station_history` of
   Proofs/C13Visits.v - the hypothesis of C13_rotation_bound_stations about each station. *)
Theorem multi_c13_station_history cfg s0 sc s' :
  medium_bytes M -> sched_ok (fun _ => 0) sc ->
  multi_init A cfg = Ok s0 -> multi_run s0 sc = (s', Ok tt) ->
  forall i st, nth_error (sys_st s') i = Some st ->
  C15Proofs.run A ops (st_f0 st) (st_apps0 st) (station_events st) = Ok (st_f st, st_apps st, station_hitems st) /\
  station_history (st_p st) (station_hitems st).
Proof.
  intros HM Hs E0 E i st Hst.
  destruct (multi_run_station_transcripts A ops M _ _ _ _ _ E0 E _ _ Hst) as (_ & _ & _ & Hn).
  pose proof (multi_run_station_inputs_ok A ops M HM _ _ _ _ _ E0 Hs E _ _ Hst) as Hok.
  destruct (multi_run_inv A ops M unit (fun _ _ => tt) (fun _ _ => True) I_h (fun _ _ => True)
              ltac:(intros; exact I)
              ltac:(intros [] ii aa hh stt stt' hrr rr; apply I_h_step)
              ltac:(intros [] ii aa jj stt _ HH; exact HH) sc tt s0 s' (Ok tt)) as (_ & Hi).
  - clear. induction sc; cbn; auto.
  - intros j stj Hj. unfold multi_init in E0. destruct (multi_init_stations A cfg) as [l| |] eqn:El; cbn [bind] in E0; try discriminate E0.
    injection E0 as <-. cbn [sys_st] in Hj. destruct (multi_init_stations_spec A _ _ El _ _ Hj) as (p & apps & _ & _ & ->). reflexivity.
  - exact E.
  - assert (Hx : fold_left (fun (_ : unit) (_ : sitem) => tt) sc tt = tt) by (destruct (fold_left _ sc tt); reflexivity).
    specialize (Hi eq_refl i st Hst). rewrite Hx in Hi. split; [exact Hi|].
    exists A, ops, (st_f0 st), (st_apps0 st), (station_events st), (st_f st), (st_apps st).
    split; [exact Hn|]. split; [apply ins_ok_mono; exact Hok|exact Hi].
Qed.

(* ... hence (C13_station_visits_ok, C13_visits_linked) every token visit of every station of the composed
   system obeys the hold rule: previous token time < token time; every round of application calls lies
   after the arrival and is either a normal round before the deadline or the single high-priority-only round
   after it; the deadline is one number per visit and <= previous token time + TTR; consecutive visits are
   linked (the next visit's previous token time is this visit's token time, or 0 after a re-creation). *)
Theorem multi_c13_visits_ok cfg s0 sc s' :
  medium_bytes M -> cfg_valid A cfg -> sched_ok (fun _ => 0) sc ->
  multi_init A cfg = Ok s0 -> multi_run s0 sc = (s', Ok tt) ->
  forall i st, nth_error (sys_st s') i = Some st ->
  Forall (sv_ok (token_rotation_time (st_p st))) (visits_of (station_hitems st)) /\
  linked (visits_of (station_hitems st)).
Proof.
  intros HM Hv Hs E0 E i st Hst.
  destruct (multi_c13_station_history _ _ _ _ HM Hs E0 E _ _ Hst) as (Hrun & _).
  destruct (multi_run_station_transcripts A ops M _ _ _ _ _ E0 E _ _ Hst) as (Hc & _ & _ & Hn).
  pose proof (multi_run_station_inputs_ok A ops M HM _ _ _ _ _ E0 Hs E _ _ Hst) as Hok.
  pose proof (cfg_valid_nth A _ _ _ _ Hv Hc) as Hbv. destruct (bv_ranges _ Hbv) as (_ & _ & (Hsl & _) & _).
  pose proof (ins_ok_mono _ _ Hok) as Hm. split.
  - exact (station_visits_ok A ops _ _ _ _ _ _ _ Hsl Hn Hm Hrun).
  - exact (visits_linked A ops _ _ _ _ _ _ _ Hsl Hn Hm Hrun).
Qed.

(* ---- C06: the claim needs silence, back-off ---- *)

(* With the hypotheses of (a): a poll takes a station into ClaimToken only if no new receive bytes arrived
   in that poll and the station's last recorded bus activity is at least its own time-out
   (6 + 2 * TS) * Tslot old (C06_claim_needs_silence). *)
Theorem multi_c06_claim_needs_silence cfg s0 sc s' r :
  medium_bytes M -> apps_total A ops -> cfg_valid A cfg -> sched_time_ok sc ->
  multi_init A cfg = Ok s0 -> multi_run s0 sc = (s', r) ->
  forall i st, nth_error (sys_st s') i = Some st ->
  forall now busy nb rxb f f' o calls,
  In (SPoll now busy nb rxb f f' o calls) (st_log st) ->
  kind_of (f_state f) <> KClaimToken -> kind_of (f_state f') = KClaimToken ->
  (length rxb <= f_pending f)%nat /\
  exists l, f_lba f = Some l /\ l < now /\ token_lost_timeout (st_p st) <= now - l.
Proof.
  intros HM Ha Hv Hs E0 E i st Hst now busy nb rxb f f' o calls Hin Hk Hk'.
  destruct (multi_run_station_transcripts A ops M _ _ _ _ _ E0 E _ _ Hst) as (_ & _ & Hp & _).
  rewrite Forall_forall in Hp. destruct (Hp _ Hin) as (apps & apps' & Ep).
  destruct (multi_run_records_rep A ops M HM Ha _ _ _ _ _ Hv Hs E0 E _ _ Hst _ _ _ _ _ _ _ _ Hin) as (HR & Hfp).
  destruct (bv_timeouts _ (rep_p _ _ HR)) as (_ & H2). rewrite <- Hfp.
  exact (claim_needs_silence A ops _ _ _ _ _ _ _ _ H2 Hk Ep Hk').
Qed.

(* No hypotheses: a station that holds the token and waits for an answer and finds a complete telegram that
   is not this answer - e.g. ANY token telegram of another station - gives the token up in that poll:
   ActiveIdle, nothing transmitted, no application called, ring view unchanged (C06_backoff). *)
Theorem multi_c06_backoff cfg s0 sc s' r :
  multi_init A cfg = Ok s0 -> multi_run s0 sc = (s', r) ->
  forall i st, nth_error (sys_st s') i = Some st ->
  forall now busy nb rxb f f' o calls t n,
  In (SPoll now busy nb rxb f f' o calls) (st_log st) ->
  unexpected_for f t -> busy = false -> C11Proofs.predicted f now = false ->
  DecodeSpec.decode_spec rxb = Accept t n ->
  f_state f' = ActiveIdle None None 0 /\ o = mkPhyOut None (skipn n rxb) /\ calls = [] /\ f_ring f' = f_ring f.
Proof.
  intros E0 E i st Hst now busy nb rxb f f' o calls t n Hin Hu Hb Hpr Hd.
  destruct (multi_run_station_transcripts A ops M _ _ _ _ _ E0 E _ _ Hst) as (_ & _ & Hp & _).
  rewrite Forall_forall in Hp. destruct (Hp _ Hin) as (apps & apps' & Ep).
  destruct (backoff A ops f now (mkPhyIn busy rxb) apps t n f' o apps' calls Hu Hb Hpr Hd Ep) as (H1 & H2 & H3 & _ & H5 & _). tauto.
Qed.

End ComposedD.

(* ------------------------------------------------------------------------------------------ *)
(* the hypotheses are satisfiable: the concrete medium delivers octets; the example schedule of
   Model/Multi.v is admissible                                                                  *)

Lemma ideal_medium_bytes rate : medium_bytes (ideal_medium rate).
Proof.
  intros h i now. unfold ideal_medium. cbn [fst]. unfold all_bytes. rewrite Forall_forall. intros b Hb.
  apply in_map_iff in Hb. destruct Hb as (x & <- & _). unfold is_byte. apply Z.mod_pos_bound. lia.
Qed.

Fixpoint sched_okb (last : nat -> Z) (sc : schedule) : bool :=
  match sc with
  | [] => true
  | (i, ActPoll now) :: tl =>
      (last i <? now) && (0 <=? now) && (now <? 4611686018427387904) && sched_okb (set_last last i now) tl
  | _ :: tl => sched_okb last tl
  end.

Lemma sched_okb_sound sc : forall last, sched_okb last sc = true -> sched_ok last sc.
Proof.
  induction sc as [|[i a] tl IH]; intros last H; [exact I|]. destruct a as [| |now]; cbn [sched_okb sched_ok] in *.
  - apply IH; exact H.
  - apply IH; exact H.
  - apply andb_prop in H. destruct H as (H & H4). apply andb_prop in H. destruct H as (H & H3).
    apply andb_prop in H. destruct H as (H1 & H2). unfold time_ok.
    split; [lia|]. split; [lia|]. apply IH; exact H4.
Qed.

Lemma ex2_hypotheses :
  cfg_valid unit ex2_cfg /\ sched_ok (fun _ => 0) (ex2_schedule 300) /\ apps_total unit unit_app_ops /\
  medium_bytes (ideal_medium 500000).
Proof.
  split; [|split; [|split]].
  - unfold cfg_valid, ex2_cfg. constructor; [|constructor; [|constructor]]; cbn [fst]; unfold builder_valid, builder_max_address, builder_min_ttr, builder_max_ttr, builder_min_gap, builder_max_gap, builder_max_hsa, builder_min_retry, builder_max_retry, builder_min_tsdr; cbn; lia.
  - apply sched_okb_sound. vm_compute. reflexivity.
  - exact unit_apps_total.
  - apply ideal_medium_bytes.
Qed.
