(* C01, single-station half: who may transmit, the claim after the station's own time-out and its
   stagger by address, replies after min Tsdr, at most one transmission per poll.
   All statements are one-step facts about `poll` for ALL station states (not only reachable ones),
   all inputs and all applications, except C01_at_most_one_tx_per_poll which uses the representation
   invariant of C05Proofs.v. *)
From PB Require Import Common Tables FdlTables Telegram Phy TokenRing Params Fdl FdlProofs FdlStepProofs C05Proofs.

(* ------------------------------------------------------------------------------------------ *)
(* time arithmetic                                                                              *)

Lemma rate_pos b : 1 <= baud_to_rate b.
Proof. destruct b; cbn; lia. Qed.

Lemma btt_mono b x y : x <= y -> bits_to_time b x <= bits_to_time b y.
Proof.
  intros H. unfold bits_to_time. pose proof (rate_pos b). apply Z.div_le_mono; lia.
Qed.

Lemma btt_nonneg b x : 0 <= x -> 0 <= bits_to_time b x.
Proof. intros H. unfold bits_to_time. pose proof (rate_pos b). apply Z.div_pos; lia. Qed.

(* floor((x + y) / r) is floor(x / r) + floor(y / r) or one more *)
Lemma div_add_bounds x y r : 0 < r -> x / r + y / r <= (x + y) / r <= x / r + y / r + 1.
Proof.
  intros Hr.
  pose proof (Z.div_mod x r ltac:(lia)). pose proof (Z.mod_pos_bound x r Hr).
  pose proof (Z.div_mod y r ltac:(lia)). pose proof (Z.mod_pos_bound y r Hr).
  split.
  - apply Z.div_le_lower_bound; [lia|]. nia.
  - apply Z.lt_succ_r. apply Z.div_lt_upper_bound; [lia|]. nia.
Qed.

(* the token-lost time-out as a function of baud rate, slot bits and address *)
Definition tlt (b : baudrate) (slot_bits a : Z) : Z :=
  bits_to_time b (slot_bits * (token_lost_base + token_lost_per_addr * a)).

Lemma token_lost_timeout_is_tlt p : token_lost_timeout p = tlt (p_baud p) (p_slot_bits p) (p_address p).
Proof. reflexivity. Qed.

(* stagger: one address more = 2 slot times more (up to the 1 us rounding of bits_to_time) *)
Lemma tlt_stagger b s a :
  bits_to_time b (2 * s) <= tlt b s (a + 1) - tlt b s a <= bits_to_time b (2 * s) + 1.
Proof.
  unfold tlt, bits_to_time, token_lost_base, token_lost_per_addr.
  pose proof (rate_pos b) as Hr.
  replace (s * (6 + 2 * (a + 1)) * 1000000) with (s * (6 + 2 * a) * 1000000 + 2 * s * 1000000) by ring.
  pose proof (div_add_bounds (s * (6 + 2 * a) * 1000000) (2 * s * 1000000) (baud_to_rate b) ltac:(lia)). lia.
Qed.

Lemma two_slots_pos b s : min_slot_bits b <= s -> 1 <= bits_to_time b (2 * s).
Proof.
  intros H. unfold bits_to_time. apply Z.div_le_lower_bound; [pose proof (rate_pos b); lia|].
  destruct b; cbn [baud_to_rate min_slot_bits] in *; lia.
Qed.

Lemma tlt_strictly_increasing b s a : min_slot_bits b <= s -> tlt b s a < tlt b s (a + 1).
Proof. intros H. pose proof (tlt_stagger b s a). pose proof (two_slots_pos b s H). lia. Qed.

Lemma bv_timeouts p : builder_valid p -> 0 <= slot_time p /\ 0 < token_lost_timeout p.
Proof.
  intros B. pose proof (bv_ranges _ B) as R. destruct B as (_ & (Hs & _) & _).
  split; [apply btt_nonneg; lia|].
  unfold token_lost_timeout, p_bits_to_time, bits_to_time, token_lost_base, token_lost_per_addr.
  apply Z.lt_le_trans with 1; [lia|].
  apply Z.div_le_lower_bound; [pose proof (rate_pos (p_baud p)); lia|].
  assert (6 * p_slot_bits p <= p_slot_bits p * (6 + 2 * p_address p)) by nia.
  destruct (p_baud p); cbn [baud_to_rate min_slot_bits] in *; lia.
Qed.

Section WithApps.
Variable A : Type.
Variable ops : app_ops A.
Notation W := (world A).

(* ------------------------------------------------------------------------------------------ *)
(* the instant `last_bus_activity.get_or_insert(now)` yields                                    *)

Definition goi_val (f : fdl) (now : Z) : Z := match f_lba f with Some l => l | None => now end.

Lemma goi_val_spec f now l f1 : lba_get_or_insert f now = (l, f1) -> l = goi_val f now /\ same_but_lba f f1.
Proof.
  intros E. apply lba_get_or_insert_same in E. destruct E as (S & _ & M). split; [|exact S].
  unfold goi_val. destruct (f_lba f); exact M.
Qed.

Lemma handle_lost_token_who f now (w : W) f' w' d :
  handle_lost_token A f now w = Ok (f', w', d) ->
  if d then token_lost_timeout (f_p f) <= Z.abs (now - goi_val f now)
  else w_tx w' = w_tx w /\ same_but_lba f f' /\ Z.abs (now - goi_val f now) < token_lost_timeout (f_p f).
Proof.
  unfold handle_lost_token. intros H.
  destruct (lba_get_or_insert f now) as [l f0] eqn:El. apply goi_val_spec in El. destruct El as (-> & S0).
  unfold inst_diff in H. destruct (i64_ok _); cbn [bind] in H; [|discriminate H].
  assert (Hp : f_p f0 = f_p f) by (destruct S0 as (Hp & _); exact Hp). rewrite Hp in H.
  destruct (Z.leb_spec (token_lost_timeout (f_p f)) (Z.abs (now - goi_val f now))) as [Hto|Hto].
  - match type of H with bind ?x _ = _ => destruct x as [[f1 w1]| |] end; cbn [bind] in H; try discriminate H.
    match type of H with bind ?x _ = _ => destruct x as [[f2 w2]| |] end; cbn [bind] in H; try discriminate H.
    injection H as _ _ <-. exact Hto.
  - injection H as <- <- <-. split; [reflexivity|]. split; [exact S0|exact Hto].
Qed.

(* ------------------------------------------------------------------------------------------ *)
(* do_listen_token / do_active_idle: a transmission is a status reply or the claim               *)

Lemma do_listen_token_who f now (w : W) f' w' :
  do_listen_token A f now w = Ok (f', w') -> sends A w w' ->
  (exists src cc, f_state f = ListenToken (Some src) cc) \/
  token_lost_timeout (f_p f) <= Z.abs (now - goi_val f now).
Proof.
  unfold do_listen_token. intros H [Hn Hs].
  destruct (assert_entry DoListenToken f); cbn [bind] in H; try discriminate H.
  destruct (handle_lost_token A f now w) as [[[f0 w0] d]| |] eqn:Eh; cbn [bind] in H; try discriminate H.
  apply handle_lost_token_who in Eh. destruct d; [right; exact Eh|].
  destruct Eh as (Htx0 & S0 & _).
  assert (Hst : f_state f0 = f_state f) by (destruct S0 as (_ & _ & _ & _ & Hst & _); exact Hst).
  rewrite Hst in H.
  destruct (f_state f) as [| |sr cc| | | | | | |]; cbn [get_listen_token bind] in H; try discriminate H.
  destruct sr as [src|]; [left; exists src, cc; reflexivity|].
  apply receive_all_telegrams_keeps in H; [|exact (listen_token_telegram_keeps A now)].
  rewrite H, Htx0 in Hs. contradiction.
Qed.

Lemma mark_tx_state f now k f1 : mark_tx f now k = Ok f1 -> f_state f1 = f_state f.
Proof. intros E. apply mark_tx_same in E. destruct E as (_ & _ & _ & _ & Hs & _). exact Hs. Qed.

(* handle_telegram never leads to ClaimToken *)
Lemma handle_telegram_no_claim now f (w : W) t il f' w' :
  handle_telegram A now f w t il = Ok (f', w') -> kind_of (f_state f') <> KClaimToken.
Proof.
  unfold handle_telegram. intros H.
  destruct (f_state f) eqn:Es; cbn [negb kind_of state_kind_eqb] in H; try discriminate H.
  - injection H as <- _. rewrite Es. discriminate.
  - assert (Tr : forall f1 (w1 : W) t1 f2 w2, trans A f1 w1 t1 = Ok (f2, w2) ->
               (forall s s', t1 s = Ok s' -> kind_of s' <> KClaimToken) -> kind_of (f_state f2) <> KClaimToken).
    { intros f1 w1 t1 f2 w2 E K. apply trans_spec in E. destruct E as (s' & E & -> & _). cbn. exact (K _ _ E). }
    assert (TU : forall s s', transition_use_token s now None = Ok s' -> kind_of s' <> KClaimToken).
    { intros s s' E. unfold transition_use_token in E. destruct (assert_kind _ _); cbn [bind] in E; try discriminate E.
      injection E as <-. discriminate. }
    assert (TL : forall s s', transition_listen_token s = Ok s' -> kind_of s' <> KClaimToken).
    { intros s s' E. unfold transition_listen_token in E. destruct (assert_kind _ _); cbn [bind] in E; try discriminate E.
      injection E as <-. discriminate. }
    destruct t as [h pdu|da sa|].
    + destruct (is_fdl_status_request h && (h_da h =? ts f) && il).
      * cbn [get_active_idle bind] in H. injection H as <- _. discriminate.
      * injection H as <- _. rewrite Es. discriminate.
    + cbn [get_active_idle bind] in H.
      destruct (sa =? ts f).
      * destruct (u8_add collision_count 1); cbn [bind] in H; try discriminate H.
        destruct (_ =? active_idle_collision_tolerated).
        -- injection H as <- _. discriminate.
        -- exact (Tr _ _ _ _ _ H TL).
      * cbv zeta in H.
        destruct (negb (da =? ts (set_st f (ActiveIdle status_request new_previous_station 0))) || negb il).
        -- destruct (witness _ _ _); cbn [bind] in H; try discriminate H. injection H as <- _. discriminate.
        -- destruct (sa =? r_ps _).
           ++ exact (Tr _ _ _ _ _ H TU).
           ++ destruct new_previous_station as [address|].
              ** destruct (address =? sa).
                 --- destruct (witness _ _ _); cbn [bind] in H; try discriminate H. exact (Tr _ _ _ _ _ H TU).
                 --- injection H as <- _. discriminate.
              ** injection H as <- _. discriminate.
    + injection H as <- _. rewrite Es. discriminate.
Qed.

Lemma do_active_idle_who f now (w : W) f' w' :
  do_active_idle A f now w = Ok (f', w') ->
  (sends A w w' ->
     (exists src nps cc, f_state f = ActiveIdle (Some src) nps cc) \/
     token_lost_timeout (f_p f) <= Z.abs (now - goi_val f now)) /\
  (kind_of (f_state f') = KClaimToken -> token_lost_timeout (f_p f) <= Z.abs (now - goi_val f now)).
Proof.
  unfold do_active_idle. intros H.
  destruct (assert_entry DoActiveIdle f); cbn [bind] in H; try discriminate H.
  destruct (handle_lost_token A f now w) as [[[f0 w0] d]| |] eqn:Eh; cbn [bind] in H; try discriminate H.
  apply handle_lost_token_who in Eh. destruct d; [split; [right; exact Eh|intros _; exact Eh]|].
  destruct Eh as (Htx0 & S0 & _).
  assert (Hst : f_state f0 = f_state f) by (destruct S0 as (_ & _ & _ & _ & Hst & _); exact Hst).
  rewrite Hst in H.
  destruct (f_state f) as [| | |sr nps cc| | | | | |]; cbn [get_active_idle bind] in H; try discriminate H.
  destruct sr as [src|].
  - split; [intros _; left; exists src, nps, cc; reflexivity|].
    intros K. exfalso.
    destruct (wait_synchronization_pause f0 now) as [[f1 wait]| |] eqn:Ew; cbn [bind] in H; try discriminate H.
    apply wait_sync_same in Ew. destruct Ew as ((_ & _ & _ & _ & Hs1 & _) & _).
    destruct wait; [injection H as <- _; rewrite Hs1, Hst in K; discriminate K|].
    destruct (phy_send A w0 _) as [[w1 k]| |]; cbn [bind] in H; try discriminate H.
    destruct (mark_tx _ now k) as [f2| |] eqn:Em; cbn [bind] in H; try discriminate H.
    injection H as <- _. apply mark_tx_state in Em. rewrite Em in K. discriminate K.
  - split.
    + intros [Hn Hs]. exfalso.
      apply receive_all_telegrams_keeps in H; [|exact (active_idle_telegram_keeps A now)].
      rewrite H, Htx0 in Hs. contradiction.
    + intros K. exfalso. unfold receive_all_telegrams in H.
      destruct (receive_all _ _ _ _) as [[[s1 rest] r]| |] eqn:Er; cbn [bind] in H; try discriminate H.
      destruct s1 as [f1 w1]. injection H as <- _.
      assert (Hk : kind_of (f_state f1) <> KClaimToken).
      { refine (receive_all_inv (fun s : fdl * W => kind_of (f_state (fst s)) <> KClaimToken)
                  (active_idle_telegram A now) _ _ (f0, w0) _ (f1, w1) rest r _ Er).
        - intros [fa wa] t il [fb wb] u _ Hc. cbn [fst]. unfold active_idle_telegram in Hc.
          destruct (handle_telegram A now (mark_rx fa now) wa t il) as [[fc wc]| |] eqn:Et; cbn [bind] in Hc; try discriminate Hc.
          injection Hc as <- _ _. exact (handle_telegram_no_claim _ _ _ _ _ _ _ Et).
        - cbn [fst]. rewrite Hst. discriminate. }
      apply Hk. exact K.
Qed.

(* do_check_token_pass transmits only after the slot time has expired *)
Lemma do_check_token_pass_who f now (w : W) f' w' :
  do_check_token_pass A f now w = Ok (f', w') -> sends A w w' ->
  goi_val f now + slot_time (f_p f) < now.
Proof.
  unfold do_check_token_pass. intros H [Hn Hs].
  destruct (assert_entry DoCheckTokenPass f); cbn [bind] in H; try discriminate H.
  unfold check_slot_expired in H.
  destruct (lba_get_or_insert f now) as [l f0] eqn:El. apply goi_val_spec in El. destruct El as (-> & S0).
  assert (Hp : f_p f0 = f_p f) by (destruct S0 as (Hp & _); exact Hp). rewrite Hp in H.
  unfold inst_add in H. destruct (i64_ok _); cbn [bind] in H; [|discriminate H].
  destruct (Z.ltb_spec (goi_val f now + slot_time (f_p f)) now) as [Hexp|Hexp]; [exact Hexp|].
  exfalso.
  destruct (receive_all _ _ (f0, w, true) (w_rx w)) as [[[s1 rest] r]| |] eqn:Er; cbn [bind] in H; try discriminate H.
  destruct s1 as [[f2 w2] fi]. injection H as _ <-.
  assert (Hk : w_tx w2 = w_tx w).
  { refine (receive_all_inv (fun s : fdl * W * bool => w_tx (snd (fst s)) = w_tx w) (check_token_pass_telegram A now) _ _ (f0, w, true) _ (f2, w2, fi) rest r eq_refl Er).
    intros s t il s' u Hp' Hc. rewrite (check_token_pass_telegram_keeps A _ _ _ _ _ _ Hc). exact Hp'. }
  cbn in Hs. destruct fi; cbn in Hs; rewrite Hk in Hs; contradiction.
Qed.

(* ------------------------------------------------------------------------------------------ *)
(* the dispatch of poll_inner                                                                   *)

Definition dispatch (f : fdl) (now : Z) (w : W) : res (fdl * W) :=
  match poll_dispatch (kind_of (f_state f)) with
  | TgUnreachable => Panic SiteUnreachable
  | TgTodo => Panic SiteUnreachable
  | TgDo DoListenToken => do_listen_token A f now w
  | TgDo DoClaimToken => do_claim_token A f now w
  | TgDo DoUseToken => do_use_token A ops f now w
  | TgDo DoAwaitDataResponse => do_await_data_response A ops f now w
  | TgDo DoPassToken => do_pass_token A f now w
  | TgDo DoCheckTokenPass => do_check_token_pass A f now w
  | TgDo DoActiveIdle => do_active_idle A f now w
  | TgDo DoAwaitStatusResponse => do_await_status_response A f now w
  end.

Lemma dispatch_sync f now (w : W) f' w' : dispatch f now w = Ok (f', w') -> sends A w w' -> lba_ok f now.
Proof.
  unfold dispatch. intros E Hs.
  destruct (poll_dispatch (kind_of (f_state f))) as [ | |[ | | | | | | | ]]; try discriminate E;
    [eapply do_listen_token_sync|eapply do_active_idle_sync|eapply do_claim_token_sync|eapply do_use_token_sync
    |eapply do_await_data_response_sync|eapply do_pass_token_sync|eapply do_await_status_response_sync
    |eapply do_check_token_pass_sync]; try exact E; exact Hs.
Qed.

(* who may transmit, in terms of the state the dispatch sees *)
Definition may_transmit_at (f : fdl) (now : Z) : Prop :=
  have_token_kind (kind_of (f_state f)) = true \/
  kind_of (f_state f) = KPassToken \/
  (kind_of (f_state f) = KCheckTokenPass /\ goi_val f now + slot_time (f_p f) < now) \/
  (exists src cc, f_state f = ListenToken (Some src) cc) \/
  (exists src nps cc, f_state f = ActiveIdle (Some src) nps cc) \/
  ((kind_of (f_state f) = KListenToken \/ kind_of (f_state f) = KActiveIdle) /\
   token_lost_timeout (f_p f) <= Z.abs (now - goi_val f now)).

Lemma dispatch_who f now (w : W) f' w' : dispatch f now w = Ok (f', w') -> sends A w w' -> may_transmit_at f now.
Proof.
  unfold dispatch, may_transmit_at. intros E Hs.
  destruct (kind_of (f_state f)) eqn:K; cbn [poll_dispatch] in E; try discriminate E.
  - destruct (do_listen_token_who _ _ _ _ _ E Hs) as [H|H]; [right; right; right; left; exact H|].
    right. right. right. right. right. split; [left; reflexivity|exact H].
  - destruct (proj1 (do_active_idle_who _ _ _ _ _ E) Hs) as [H|H]; [right; right; right; right; left; exact H|].
    right. right. right. right. right. split; [right; reflexivity|exact H].
  - left. reflexivity.
  - left. reflexivity.
  - left. reflexivity.
  - right. left. reflexivity.
  - right. right. left. split; [reflexivity|]. exact (do_check_token_pass_who _ _ _ _ _ E Hs).
  - left. reflexivity.
Qed.

(* the claim: entering ClaimToken from ListenToken / ActiveIdle needs the time-out *)
Lemma dispatch_claim f now (w : W) f' w' : dispatch f now w = Ok (f', w') ->
  kind_of (f_state f) = KListenToken \/ kind_of (f_state f) = KActiveIdle ->
  kind_of (f_state f') = KClaimToken ->
  token_lost_timeout (f_p f) <= Z.abs (now - goi_val f now).
Proof.
  unfold dispatch. intros E [K|K] K'; rewrite K in E; cbn [poll_dispatch] in E.
  - destruct (do_listen_token_never_accepts A _ _ _ _ _ E) as [H|[H|[H|(_ & l & Hl & Ht)]]];
      try (rewrite H in K'; discriminate K').
    unfold goi_val. destruct Hl as [-> | (-> & ->)]; exact Ht.
  - exact (proj2 (do_active_idle_who _ _ _ _ _ E) K').
Qed.

(* ------------------------------------------------------------------------------------------ *)
(* poll_inner: prologue, ongoing transmission, bus activity, dispatch                           *)

(* what the connectivity prologue does to the station *)
Definition after_prologue (f f2 : fdl) : Prop :=
  f2 = f \/
  (online_entry_kind (kind_of (f_state f)) = true /\ f2 = set_st f (ListenToken None 0)) \/
  f2 = set_st f PassiveIdle.

Lemma poll_inner_inv f now busy (w : W) f' w' :
  poll_inner ops f now busy w = Ok (f', w') -> w_tx w = None ->
  exists f2, after_prologue f f2 /\
   ((w_tx w' = None /\ f_state f' = f_state f2) \/
    exists f3 w3, w_tx w3 = None /\
     busy = false /\ (forall l, f_lba f2 = Some l -> l < now) /\
     (f3 = f2 \/ f3 = set_pending (mark_bus_activity f2 now) (length (w_rx w3))) /\
     dispatch f3 now (if Nat.ltb (f_pending f2) (length (w_rx w3)) then note A w3 TBusActivity else w3) = Ok (f', w')).
Proof.
  unfold poll_inner. intros E Hw.
  match type of E with bind ?r _ = _ => destruct r as [[[f2 w2] off]| |] eqn:Ep end; cbn [bind] in E; try discriminate E.
  assert (Hp : after_prologue f f2 /\ w_tx w2 = None).
  { destruct (f_conn f).
    - destruct (f_state f); try discriminate Ep. injection Ep as <- <- _. split; [left; reflexivity|exact Hw].
    - destruct (passive_entry_kind _).
      + match type of Ep with context [trans A ?a ?b ?c] => destruct (trans A a b c) as [[fx wx]| |] eqn:Et end; cbn [bind] in Ep; try discriminate Ep.
        injection Ep as <- <- <-. apply trans_spec in Et. destruct Et as (s' & Et & -> & ->).
        unfold transition_passive_idle in Et. destruct (assert_kind _ _); cbn [bind] in Et; try discriminate Et. injection Et as <-.
        split; [right; right; reflexivity|exact Hw].
      + injection Ep as <- <- <-. split; [left; reflexivity|exact Hw].
    - destruct (online_entry_kind _) eqn:Eo.
      + match type of Ep with context [trans A ?a ?b ?c] => destruct (trans A a b c) as [[fx wx]| |] eqn:Et end; cbn [bind] in Ep; try discriminate Ep.
        injection Ep as <- <- <-. apply trans_spec in Et. destruct Et as (s' & Et & -> & ->).
        unfold transition_listen_token in Et. destruct (assert_kind _ _); cbn [bind] in Et; try discriminate Et. injection Et as <-.
        split; [right; left; split; [exact Eo|reflexivity]|exact Hw].
      + injection Ep as <- <- <-. split; [left; reflexivity|exact Hw]. }
  destruct Hp as (Hap & Hw2). exists f2. split; [exact Hap|].
  destruct off; [injection E as <- <-; left; split; [exact Hw2|reflexivity]|].
  unfold check_for_ongoing_transmision in E.
  assert (Hmb : f_state (mark_bus_activity f2 now) = f_state f2).
  { unfold mark_bus_activity, lba_get_or_insert. destruct (f_lba f2); reflexivity. }
  destruct busy; [cbn [orb] in E; injection E as <- <-; left; split; [exact Hw2|exact Hmb]|].
  cbn [orb] in E.
  destruct (ongoing_uses_predicted_end && match f_lba f2 with Some l => now <=? l | None => false end) eqn:Epred.
  { injection E as <- <-. left. split; [exact Hw2|exact Hmb]. }
  assert (Hl : forall l, f_lba f2 = Some l -> l < now).
  { intros l El. rewrite El in Epred. cbn in Epred. apply Z.leb_gt in Epred. exact Epred. }
  unfold check_for_bus_activity in E. right.
  destruct (Nat.ltb (f_pending f2) (length (w_rx w2))) eqn:Eact.
  - exists (set_pending (mark_bus_activity f2 now) (length (w_rx w2))), w2.
    split; [exact Hw2|]. split; [reflexivity|]. split; [exact Hl|]. split; [right; reflexivity|].
    rewrite Eact. exact E.
  - exists f2, w2.
    split; [exact Hw2|]. split; [reflexivity|]. split; [exact Hl|]. split; [left; reflexivity|].
    rewrite Eact. exact E.
Qed.

(* C01_who_may_transmit, in terms of the station before the poll *)
Definition may_transmit (f : fdl) (now : Z) : Prop :=
  have_token_kind (kind_of (f_state f)) = true \/
  kind_of (f_state f) = KPassToken \/
  (kind_of (f_state f) = KCheckTokenPass /\ exists l, f_lba f = Some l /\ l + slot_time (f_p f) < now) \/
  (exists src cc, f_state f = ListenToken (Some src) cc) \/
  (exists src nps cc, f_state f = ActiveIdle (Some src) nps cc) \/
  ((kind_of (f_state f) = KListenToken \/ kind_of (f_state f) = KActiveIdle \/
    online_entry_kind (kind_of (f_state f)) = true) /\
   exists l, f_lba f = Some l /\ l < now /\ token_lost_timeout (f_p f) <= now - l).

Lemma mark_bus_activity_goi f now k : (forall l, f_lba f = Some l -> l < now) ->
  goi_val (set_pending (mark_bus_activity f now) k) now = now.
Proof.
  intros Hl. unfold goi_val, mark_bus_activity, lba_get_or_insert. destruct (f_lba f) as [l|] eqn:E; cbn.
  - specialize (Hl l eq_refl). lia.
  - lia.
Qed.

Lemma poll_who f now pin (apps : list A) f' o a c wire :
  poll ops f now pin apps = Ok (f', o, a, c) -> tx o = Some wire ->
  0 <= slot_time (f_p f) -> 0 < token_lost_timeout (f_p f) ->
  may_transmit f now.
Proof.
  intros H Htx Hslot Hto.
  pose proof (poll_tx_sync_pause A ops f now pin apps f' o a c wire H Htx) as (l & El & Hlt).
  pose proof (sync_nonneg f) as Hsn.
  unfold poll, poll_traced in H.
  destruct (poll_inner ops f now (tx_busy pin) (mkWorld (rx pin) None apps [] [])) as [[f1 w1]| |] eqn:E; cbn [bind] in H; try discriminate H.
  injection H as _ <- _ _. cbn [tx] in Htx.
  destruct (poll_inner_inv _ _ _ _ _ _ E eq_refl) as (f2 & Hap & [(C & _)|(f3 & w3 & Hw3 & _ & Hl & Hf3 & Ed)]);
    [rewrite Htx in C; discriminate C|].
  assert (Hsend : forall wx : W, w_tx wx = None -> sends A wx w1) by (intros wx Hx; split; [exact Hx|rewrite Htx; discriminate]).
  assert (Hs : sends A (if Nat.ltb (f_pending f2) (length (w_rx w3)) then note A w3 TBusActivity else w3) w1)
    by (apply Hsend; destruct (Nat.ltb _ _); exact Hw3).
  pose proof (dispatch_sync _ _ _ _ _ Ed Hs) as (l3 & El3 & Hlt3).
  pose proof (dispatch_who _ _ _ _ _ Ed Hs) as Hwho.
  assert (Hlba2 : f_lba f2 = f_lba f) by (destruct Hap as [-> |[(_ & ->)| ->]]; reflexivity).
  assert (Hp2 : f_p f2 = f_p f) by (destruct Hap as [-> |[(_ & ->)| ->]]; reflexivity).
  (* bus activity marked in this poll: nothing is transmitted *)
  destruct Hf3 as [-> | ->].
  2:{ exfalso. pose proof (sync_nonneg (set_pending (mark_bus_activity f2 now) (length (w_rx w3)))) as Hn3.
      pose proof (mark_bus_activity_goi f2 now (length (w_rx w3)) Hl) as G. unfold goi_val in G. rewrite El3 in G. lia. }
  assert (G2 : goi_val f2 now = l) by (unfold goi_val; rewrite Hlba2, El; reflexivity).
  unfold may_transmit_at in Hwho. rewrite G2, Hp2 in Hwho.
  assert (Hl' : l < now) by lia.
  unfold may_transmit.
  destruct Hap as [-> |[(Eo & ->)| ->]]; cbn [f_state set_st kind_of] in Hwho.
  - destruct Hwho as [H|[H|[(H1 & H2)|[H|[H|(H1 & H2)]]]]].
    + left. exact H.
    + right. left. exact H.
    + right. right. left. split; [exact H1|]. exists l. split; [exact El|exact H2].
    + right. right. right. left. exact H.
    + right. right. right. right. left. exact H.
    + right. right. right. right. right. split; [tauto|]. exists l. split; [exact El|]. split; [exact Hl'|].
      rewrite Z.abs_eq in H2 by lia. exact H2.
  - destruct Hwho as [H|[H|[(H1 & H2)|[H|[H|(H1 & H2)]]]]]; try discriminate;
      try (destruct H as (? & ? & H); discriminate H); try (destruct H as (? & ? & ? & H); discriminate H).
    right. right. right. right. right. split; [tauto|]. exists l. split; [exact El|]. split; [exact Hl'|].
    rewrite Z.abs_eq in H2 by lia. exact H2.
  - destruct Hwho as [H|[H|[(H1 & H2)|[H|[H|(H1 & H2)]]]]]; try discriminate;
      try (destruct H as (? & ? & H); discriminate H); try (destruct H as (? & ? & ? & H); discriminate H).
Qed.

(* C01_claim_stagger, first half: the station enters ClaimToken from ListenToken / ActiveIdle (or in the
   poll in which it goes online) only when its last_bus_activity is at least its token-lost time-out old *)
Lemma poll_claim_needs_timeout f now pin (apps : list A) f' o a c :
  poll ops f now pin apps = Ok (f', o, a, c) ->
  kind_of (f_state f) = KListenToken \/ kind_of (f_state f) = KActiveIdle \/
    online_entry_kind (kind_of (f_state f)) = true ->
  kind_of (f_state f') = KClaimToken ->
  0 < token_lost_timeout (f_p f) ->
  exists l, f_lba f = Some l /\ l < now /\ token_lost_timeout (f_p f) <= now - l.
Proof.
  intros H Hk Hk' Hto. unfold poll, poll_traced in H.
  destruct (poll_inner ops f now (tx_busy pin) (mkWorld (rx pin) None apps [] [])) as [[f1 w1]| |] eqn:E; cbn [bind] in H; try discriminate H.
  injection H as <- _ _ _.
  destruct (poll_inner_inv _ _ _ _ _ _ E eq_refl) as (f2 & Hap & [(_ & C)|(f3 & w3 & Hw3 & _ & Hl & Hf3 & Ed)]).
  - exfalso. rewrite C in Hk'.
    destruct Hap as [-> |[(_ & ->)| ->]]; cbn in Hk'; try discriminate Hk'.
    destruct Hk as [Hk|[Hk|Hk]]; rewrite ?Hk in Hk'; try discriminate Hk'.
    rewrite Hk' in Hk. discriminate Hk.
  - assert (Hlba2 : f_lba f2 = f_lba f) by (destruct Hap as [-> |[(_ & ->)| ->]]; reflexivity).
    assert (Hp2 : f_p f2 = f_p f) by (destruct Hap as [-> |[(_ & ->)| ->]]; reflexivity).
    assert (Hk2 : kind_of (f_state f2) = KListenToken \/ kind_of (f_state f2) = KActiveIdle).
    { destruct Hap as [-> |[(_ & ->)| ->]].
      - destruct Hk as [Hk|[Hk|Hk]]; [left; exact Hk|right; exact Hk|].
        exfalso. unfold dispatch in Ed.
        assert (Hk3 : kind_of (f_state f3) = kind_of (f_state f)).
        { destruct Hf3 as [-> | ->]; [reflexivity|]. cbn. unfold mark_bus_activity, lba_get_or_insert. destruct (f_lba f); reflexivity. }
        rewrite Hk3 in Ed. destruct (kind_of (f_state f)); try discriminate Hk; discriminate Ed.
      - left. reflexivity.
      - exfalso. unfold dispatch in Ed.
        assert (Hk3 : kind_of (f_state f3) = KPassiveIdle).
        { destruct Hf3 as [-> | ->]; [reflexivity|]. cbn. unfold mark_bus_activity, lba_get_or_insert. cbn. destruct (f_lba f); reflexivity. }
        rewrite Hk3 in Ed. discriminate Ed. }
    destruct Hf3 as [-> | ->].
    + pose proof (dispatch_claim _ _ _ _ _ Ed Hk2 Hk') as Hc. rewrite Hp2 in Hc.
      unfold goi_val in Hc. rewrite Hlba2 in Hc. destruct (f_lba f) as [l|] eqn:El.
      * specialize (Hl l Hlba2). exists l. split; [reflexivity|]. split; [exact Hl|]. rewrite Z.abs_eq in Hc by lia. exact Hc.
      * exfalso. rewrite Z.sub_diag in Hc. cbn in Hc. lia.
    + exfalso.
      assert (Hk3 : kind_of (f_state (set_pending (mark_bus_activity f2 now) (length (w_rx w3)))) = kind_of (f_state f2)).
      { cbn. unfold mark_bus_activity, lba_get_or_insert. destruct (f_lba f2); reflexivity. }
      assert (Hp3 : f_p (set_pending (mark_bus_activity f2 now) (length (w_rx w3))) = f_p f2).
      { cbn. unfold mark_bus_activity, lba_get_or_insert. destruct (f_lba f2); reflexivity. }
      rewrite <- Hk3 in Hk2.
      pose proof (dispatch_claim _ _ _ _ _ Ed Hk2 Hk') as Hc.
      rewrite (mark_bus_activity_goi f2 now _ Hl), Hp3, Hp2, Z.sub_diag in Hc. cbn in Hc. lia.
Qed.

(* C01_reply_after_min_tsdr: every transmission - status replies included - happens later than
   last_bus_activity + 33 bit times, hence later than last_bus_activity + min Tsdr (11 bit times) *)
Lemma poll_tx_after_min_tsdr f now pin (apps : list A) f' o a c wire :
  poll ops f now pin apps = Ok (f', o, a, c) -> tx o = Some wire ->
  exists l, f_lba f = Some l /\
    l + p_bits_to_time (f_p f) sync_pause_bits < now /\
    l + p_bits_to_time (f_p f) builder_min_tsdr < now /\
    (p_min_tsdr_bits (f_p f) <= sync_pause_bits -> l + min_tsdr_time (f_p f) < now).
Proof.
  intros H Htx. destruct (poll_tx_sync_pause A ops f now pin apps f' o a c wire H Htx) as (l & El & Hlt).
  exists l. split; [exact El|]. split; [exact Hlt|]. unfold p_bits_to_time, min_tsdr_time in *. split.
  - pose proof (btt_mono (p_baud (f_p f)) builder_min_tsdr sync_pause_bits ltac:(unfold builder_min_tsdr, sync_pause_bits; lia)). lia.
  - intros Hm. pose proof (btt_mono (p_baud (f_p f)) _ _ Hm). unfold p_bits_to_time. lia.
Qed.

(* C01_at_most_one_tx_per_poll: the PHY of the model accepts one transmission per poll, every
   transmission of the station and of the applications goes through phy_transmit, a second one is a
   panic - and poll does not panic (C05) *)
Lemma phy_transmit_second_panics (w : W) wire x : w_tx w = Some x -> phy_transmit A w wire = Panic SiteAssert.
Proof. unfold phy_transmit. intros ->. reflexivity. Qed.

Lemma phy_transmit_first (w : W) wire : w_tx w = None -> exists w', phy_transmit A w wire = Ok w' /\ w_tx w' = Some wire.
Proof. unfold phy_transmit. intros ->. eexists. split; reflexivity. Qed.

Lemma at_most_one_tx (Happs : apps_total A ops) f now pin (apps : list A) :
  Rep (length apps) f -> time_ok now -> all_bytes (rx pin) ->
  (forall (w : W) wire x, w_tx w = Some x -> phy_transmit A w wire = Panic SiteAssert) /\
  exists f' o apps' c, poll ops f now pin apps = Ok (f', o, apps', c).
Proof.
  intros R Tn Hb. split; [exact phy_transmit_second_panics|].
  destruct (poll_rep_step A ops Happs f now pin apps R Tn Hb) as (f' & o & apps' & c & E & _).
  exists f', o, apps', c. exact E.
Qed.

(* "a pending status request addressed to this station": the status_request field of ListenToken /
   ActiveIdle is only ever set from an FDL status request whose destination is TS, received as the last
   telegram of the buffer; its value is the requester *)
Definition pending_sr (s : state) : option Z :=
  match s with ListenToken sr _ => sr | ActiveIdle sr _ _ => sr | _ => None end.

Definition is_request_to (tsa src : Z) (t : telegram) : Prop :=
  exists h pdu, t = TData h pdu /\ is_fdl_status_request h = true /\ h_da h = tsa /\ h_sa h = src.

Lemma listen_token_telegram_sr now f (w : W) t il f' w' u src :
  listen_token_telegram A now (f, w) t il = Ok (f', w', u) -> pending_sr (f_state f') = Some src ->
  pending_sr (f_state f) = Some src \/ (is_request_to (ts f) src t /\ il = true).
Proof.
  unfold listen_token_telegram. intros H Hsr.
  destruct (mark_rx_frame f now) as (Mp & _ & _ & Ms & _).
  assert (Hts : ts (mark_rx f now) = ts f) by (unfold ts; rewrite Mp; reflexivity).
  destruct (f_conn (mark_rx f now)); [injection H as <- _ _; rewrite Ms in Hsr; left; exact Hsr| |].
  all: destruct (opt_eqb (source_address t) (Some (ts (mark_rx f now)))).
  all: try (destruct (get_listen_token (f_state (mark_rx f now))) as [[sr cc]| |] eqn:Eg; cbn [bind] in H; try discriminate H;
       destruct (u8_add cc 1) as [cc'| |]; cbn [bind] in H; try discriminate H;
       destruct (cc' =? listen_collision_tolerated);
       [injection H as <- _ _; cbn in Hsr; rewrite Ms in Eg; destruct (f_state f); try discriminate Eg;
        injection Eg as -> _; left; exact Hsr|
        unfold set_offline, set_state, fdl_new in H;
        destruct (negb _); [discriminate H|]; destruct (negb _); [discriminate H|];
        destruct (ring_new _) as [r0| |]; cbn [bind] in H; try discriminate H;
        injection H as <- _ _; discriminate Hsr]).
  all: destruct t as [h pdu|da sa|].
  all: try (destruct (witness _ _ _) as [r0| |]; cbn [bind] in H; try discriminate H;
            injection H as <- _ _; cbn in Hsr; rewrite Ms in Hsr; left; exact Hsr).
  all: try (injection H as <- _ _; rewrite Ms in Hsr; left; exact Hsr).
  all: destruct (is_fdl_status_request h) eqn:Er; cbn [andb] in H;
       try (injection H as <- _ _; rewrite Ms in Hsr; left; exact Hsr).
  all: destruct (Z.eqb_spec (h_da h) (ts (mark_rx f now))) as [Ed|Ed];
       try (injection H as <- _ _; rewrite Ms in Hsr; left; exact Hsr).
  all: destruct il; try (injection H as <- _ _; rewrite Ms in Hsr; left; exact Hsr).
  all: destruct (get_listen_token (f_state (mark_rx f now))) as [[sr cc]| |]; cbn [bind] in H; try discriminate H;
       injection H as <- _ _; cbn in Hsr; injection Hsr as <-; right; split; [|reflexivity];
       exists h, pdu; rewrite <- Hts; repeat split; assumption.
Qed.

Lemma handle_telegram_sr now f (w : W) t il f' w' src :
  handle_telegram A now f w t il = Ok (f', w') -> pending_sr (f_state f') = Some src ->
  pending_sr (f_state f) = Some src \/ (is_request_to (ts f) src t /\ il = true).
Proof.
  unfold handle_telegram. intros H Hsr.
  destruct (f_state f) as [| |lsr lcc|sr nps cc| | | | | |] eqn:Es; cbn [negb kind_of state_kind_eqb] in H; try discriminate H.
  - injection H as <- _. rewrite Es in Hsr. left. exact Hsr.
  - assert (Tr : forall f1 (w1 : W) t1 f2 w2 s0, trans A f1 w1 t1 = Ok (f2, w2) ->
               (forall s s', t1 s = Ok s' -> pending_sr s' = None) -> pending_sr (f_state f2) = Some s0 -> False).
    { intros f1 w1 t1 f2 w2 s0 E K C. apply trans_spec in E. destruct E as (s' & E & -> & _). cbn in C.
      rewrite (K _ _ E) in C. discriminate C. }
    assert (TU : forall s s', transition_use_token s now None = Ok s' -> pending_sr s' = None).
    { intros s s' E. unfold transition_use_token in E. destruct (assert_kind _ _); cbn [bind] in E; try discriminate E.
      injection E as <-. reflexivity. }
    assert (TL : forall s s', transition_listen_token s = Ok s' -> pending_sr s' = None).
    { intros s s' E. unfold transition_listen_token in E. destruct (assert_kind _ _); cbn [bind] in E; try discriminate E.
      injection E as <-. reflexivity. }
    destruct t as [h pdu|da sa|].
    + destruct (is_fdl_status_request h) eqn:Er; cbn [andb] in H; [|injection H as <- _; rewrite Es in Hsr; left; exact Hsr].
      destruct (Z.eqb_spec (h_da h) (ts f)) as [Ed|Ed]; cbn [andb] in H; [|injection H as <- _; rewrite Es in Hsr; left; exact Hsr].
      destruct il; [|injection H as <- _; rewrite Es in Hsr; left; exact Hsr].
      cbn [get_active_idle bind] in H. injection H as <- _. cbn in Hsr. injection Hsr as <-.
      right. split; [|reflexivity]. exists h, pdu. repeat split; assumption.
    + cbn [get_active_idle bind] in H.
      destruct (sa =? ts f).
      * destruct (u8_add cc 1); cbn [bind] in H; try discriminate H.
        destruct (_ =? active_idle_collision_tolerated).
        -- injection H as <- _. left. exact Hsr.
        -- exfalso. exact (Tr _ _ _ _ _ _ H TL Hsr).
      * cbv zeta in H.
        destruct (negb (da =? ts (set_st f (ActiveIdle sr nps 0))) || negb il).
        -- destruct (witness _ _ _); cbn [bind] in H; try discriminate H. injection H as <- _. left. exact Hsr.
        -- destruct (sa =? r_ps _).
           ++ exfalso. exact (Tr _ _ _ _ _ _ H TU Hsr).
           ++ destruct nps as [address|].
              ** destruct (address =? sa).
                 --- destruct (witness _ _ _); cbn [bind] in H; try discriminate H. exfalso. exact (Tr _ _ _ _ _ _ H TU Hsr).
                 --- injection H as <- _. left. exact Hsr.
              ** injection H as <- _. left. exact Hsr.
    + injection H as <- _. rewrite Es in Hsr. left. exact Hsr.
Qed.

End WithApps.

Lemma status_request_is_addressed (A : Type) now f (w : world A) t il f' w' src :
  (forall u, listen_token_telegram A now (f, w) t il = Ok (f', w', u) -> pending_sr (f_state f') = Some src ->
     pending_sr (f_state f) = Some src \/ (is_request_to (ts f) src t /\ il = true)) /\
  (handle_telegram A now f w t il = Ok (f', w') -> pending_sr (f_state f') = Some src ->
     pending_sr (f_state f) = Some src \/ (is_request_to (ts f) src t /\ il = true)).
Proof.
  split.
  - intros u. apply listen_token_telegram_sr.
  - apply handle_telegram_sr.
Qed.

Lemma claim_stagger_by_address (p : params) (b : baudrate) (s a : Z) :
  token_lost_timeout p = bits_to_time (p_baud p) (p_slot_bits p * (token_lost_base + token_lost_per_addr * p_address p)) /\
  (bits_to_time b (2 * s) <= tlt b s (a + 1) - tlt b s a <= bits_to_time b (2 * s) + 1) /\
  (min_slot_bits b <= s -> tlt b s a < tlt b s (a + 1)).
Proof. split; [reflexivity|]. split; [apply tlt_stagger|apply tlt_strictly_increasing]. Qed.
