From PB Require Import Common TokenRing LasOracle.
