(* Proofs of the C02 data-structure theorems about Model/TokenRing.v. *)
From PB Require Import Common TokenRing LasOracle LasRep.
From Coq Require Import Sorted.

Definition wf (r : ring) : Prop := length (r_las r) = 128%nat.

(* the LAS bit array after update_las_from_token_pass(sa, da) *)
Definition las_after (las : list bool) (sa da : Z) : list bool :=
  set_nth
    (if sa <? da then fill_from las (Z.to_nat sa) (Z.to_nat (da - sa)) false
     else fill_from (fill_from las (Z.to_nat sa) (Z.to_nat (128 - sa)) false)
                    (Z.to_nat 0) (Z.to_nat (da - 0)) false)
    (Z.to_nat sa) true.

Definition upd (r : ring) (sa da : Z) : ring :=
  update_next_previous (mkRing (las_after (r_las r) sa da) (r_state r) (r_ts r) (r_ns r) (r_ps r)).

Lemma las_after_length : forall las sa da, length (las_after las sa da) = length las.
Proof.
  intros. unfold las_after. rewrite set_nth_length.
  destruct (sa <? da); rewrite ?fill_from_length; reflexivity.
Qed.

Lemma activeb_las_after : forall las sa da a,
  length las = 128%nat -> 0 <= sa < 128 -> 0 <= da <= 128 ->
  activeb (las_after las sa da) a = (a =? sa) || (activeb las a && negb (in_gapb sa da a)).
Proof.
  intros las sa da a HL Hs Hd. unfold las_after, in_gapb.
  destruct (Z.ltb_spec sa da) as [L|L].
  - rewrite activeb_set by (rewrite fill_from_length; lia).
    rewrite activeb_fill by lia.
    destruct (Z.eqb_spec a sa); simpl; auto.
    destruct ((sa <=? a) && (a <? da)); simpl; [rewrite andb_false_r|rewrite andb_true_r]; reflexivity.
  - rewrite activeb_set by (rewrite !fill_from_length; lia).
    change (Z.to_nat 0) with (Z.to_nat 0).
    rewrite (activeb_fill _ 0 da) by (rewrite ?fill_from_length; lia).
    replace (Z.to_nat (128 - sa)) with (Z.to_nat (128 - sa)) by reflexivity.
    rewrite (activeb_fill _ sa 128) by lia.
    destruct (Z.eqb_spec a sa); simpl; auto.
    destruct (Z.leb_spec 0 a); destruct (Z.ltb_spec a da); destruct (Z.leb_spec sa a);
      destruct (Z.ltb_spec a 128); simpl; rewrite ?andb_false_r, ?andb_true_r; try reflexivity; try lia.
    all: unfold activeb; destruct (Z.leb_spec 0 a); simpl; auto; apply nth_overflow; lia.
Qed.

Lemma update_las_ok : forall r sa da, wf r -> 0 <= sa < 128 -> 0 <= da <= 128 ->
  update_las r sa da = Ok (upd r sa da).
Proof.
  intros r sa da W Hs Hd. unfold update_las, upd, las_after, las_fill, las_set.
  destruct (Z.ltb_spec sa da) as [L|L].
  - destruct (Z.leb_spec 0 sa); destruct (Z.leb_spec sa da); destruct (Z.leb_spec da 128); try lia.
    destruct (Z.ltb_spec sa 128); try lia. reflexivity.
  - destruct (Z.leb_spec 0 sa); destruct (Z.leb_spec sa 128); destruct (Z.leb_spec 128 128); try lia.
    destruct (Z.leb_spec 0 0); destruct (Z.leb_spec 0 da); destruct (Z.leb_spec da 128); try lia.
    destruct (Z.ltb_spec sa 128); try lia. reflexivity.
Qed.

Lemma upd_wf : forall r sa da, wf r -> wf (upd r sa da).
Proof. intros. unfold wf, upd. simpl. rewrite las_after_length. exact H. Qed.

Lemma upd_fields : forall r sa da,
  r_las (upd r sa da) = las_after (r_las r) sa da /\ r_state (upd r sa da) = r_state r /\
  r_ts (upd r sa da) = r_ts r /\
  r_ns (upd r sa da) = next_of (las_ones (las_after (r_las r) sa da)) (r_ts r) /\
  r_ps (upd r sa da) = prev_of (las_ones (las_after (r_las r) sa da)) (r_ts r).
Proof. intros. unfold upd, update_next_previous. simpl. auto. Qed.

(* ------------------------------------------------------------------ verify_las *)

Lemma las_get_ok : forall las i, 0 <= i < 128 -> las_get las i = Ok (activeb las i).
Proof.
  intros las i H. unfold las_get, activeb.
  destruct (Z.leb_spec 0 i); destruct (Z.ltb_spec i 128); try lia. reflexivity.
Qed.

Lemma verify_las_spec : forall r sa da, wf r -> 0 <= sa < 128 -> 0 <= da < 128 ->
  exists b, verify_las r sa da = Ok b /\ (b = true <-> verifies (r_las r) sa da).
Proof.
  intros r sa da W Hs Hd. unfold verify_las, verifies, strictly_between.
  rewrite !las_get_ok by lia. simpl bind.
  destruct (activeb (r_las r) sa) eqn:A; simpl.
  2:{ exists false. split; auto. split; [discriminate|]. unfold active. rewrite A. intros [Q _]. discriminate. }
  destruct (activeb (r_las r) da) eqn:B; simpl.
  2:{ exists false. split; auto. split; [discriminate|]. unfold active. rewrite B. intros [_ [Q _]]. discriminate. }
  destruct (Z.ltb_spec sa da) as [L|L].
  - destruct (las_any_spec (r_las r) (sa + 1) da) as [x [E X]]; try lia; auto.
    rewrite E. simpl. exists (negb x). split; auto. split.
    + intros N. apply negb_true_iff in N. split; auto. split; auto.
      intros y Hy Q. assert (x = true) by (apply X; exists y; split; [lia|auto]). congruence.
    + intros [_ [_ H]]. apply negb_true_iff. destruct x; auto.
      destruct (proj1 X eq_refl) as [y [Hy1 Hy2]]. exfalso. apply (H y Hy2). lia.
  - destruct (las_any_spec (r_las r) (sa + 1) 128) as [x [E X]]; try lia; auto.
    rewrite E. simpl. destruct x.
    + exists false. split; auto. split; [discriminate|]. intros [_ [_ H]].
      destruct (proj1 X eq_refl) as [y [Hy1 Hy2]]. exfalso. apply (H y Hy2). lia.
    + destruct (las_any_spec (r_las r) 0 da) as [z [E2 Z2]]; try lia; auto.
      rewrite E2. simpl. exists (negb z). split; auto. split.
      * intros N. apply negb_true_iff in N. split; auto. split; auto.
        intros y Hy Q. pose proof (active_range _ _ Hy) as Ry. rewrite W in Ry.
        destruct Q as [Q|Q].
        -- assert (false = true) by (apply X; exists y; split; [lia|auto]). discriminate.
        -- assert (z = true) by (apply Z2; exists y; split; [lia|auto]). congruence.
      * intros [_ [_ H]]. apply negb_true_iff. destruct z; auto.
        destruct (proj1 Z2 eq_refl) as [y [Hy1 Hy2]]. exfalso. apply (H y Hy2). lia.
Qed.

Lemma verify_las_true : forall r sa da, wf r -> 0 <= sa < 128 -> 0 <= da < 128 ->
  verifies (r_las r) sa da -> verify_las r sa da = Ok true.
Proof.
  intros r sa da W Hs Hd V. destruct (verify_las_spec r sa da W Hs Hd) as [b [E B]].
  rewrite E. f_equal. apply B. exact V.
Qed.

Lemma verify_las_false : forall r sa da, wf r -> 0 <= sa < 128 -> 0 <= da < 128 ->
  ~ verifies (r_las r) sa da -> verify_las r sa da = Ok false.
Proof.
  intros r sa da W Hs Hd V. destruct (verify_las_spec r sa da W Hs Hd) as [b [E B]].
  rewrite E. f_equal. destruct b; auto. exfalso. apply V. apply B. reflexivity.
Qed.

(* ------------------------------------------------------------------ witness, state by state *)

Lemma witness_bad : forall r sa da, 125 < sa \/ 125 < da -> witness r sa da = Ok r.
Proof.
  intros r sa da H. unfold witness.
  destruct (Z.ltb_spec 125 sa); auto. destruct (Z.ltb_spec 125 da); auto. lia.
Qed.

Lemma witness_good : forall r sa da, wf r -> 0 <= sa <= 125 -> 0 <= da <= 125 ->
  witness r sa da =
  match r_state r with
  | LasUninitialized => if da <=? sa then Ok (with_state r LasDiscovery) else Ok r
  | LasDiscovery => Ok (if da <=? sa then with_state (upd r sa da) LasVerification else upd r sa da)
  | LasVerification =>
      match verify_las r sa da with
      | Ok true => if da <=? sa then Ok (with_state r LasValid) else Ok r
      | Ok false => Ok (with_state (upd r sa da) LasDiscovery)
      | Panic s => Panic s
      | OutOfFuel => OutOfFuel
      end
  | LasValid => Ok (upd r sa da)
  end.
Proof.
  intros r sa da W Hs Hd. unfold witness.
  destruct (Z.ltb_spec 125 sa); try lia. destruct (Z.ltb_spec 125 da); try lia.
  destruct (r_state r); auto.
  - rewrite update_las_ok by (auto; lia). simpl. destruct (da <=? sa); reflexivity.
  - destruct (verify_las r sa da) as [[|]| |]; simpl; auto.
    rewrite update_las_ok by (auto; lia). reflexivity.
  - apply update_las_ok; auto; lia.
Qed.

Lemma with_state_wf : forall r s, wf r -> wf (with_state r s).
Proof. intros. exact H. Qed.

Lemma witness_total : forall r sa da, wf r -> 0 <= sa -> 0 <= da ->
  exists r', witness r sa da = Ok r' /\ wf r' /\ r_ts r' = r_ts r.
Proof.
  intros r sa da W Hs Hd.
  destruct (Z.ltb_spec 125 sa) as [A|A]; [rewrite witness_bad by lia; eauto|].
  destruct (Z.ltb_spec 125 da) as [B|B]; [rewrite witness_bad by lia; eauto|].
  rewrite witness_good by (auto; lia).
  destruct (r_state r).
  - destruct (da <=? sa); eexists; split; eauto.
  - destruct (da <=? sa); eexists; split; eauto; split; try apply with_state_wf; try apply upd_wf; auto.
  - destruct (verify_las_spec r sa da W) as [b [E _]]; try lia. rewrite E.
    destruct b; [destruct (da <=? sa)|]; eexists; split; eauto.
    split; [apply with_state_wf, upd_wf; auto|reflexivity].
  - eexists; split; eauto. split; [apply upd_wf; auto|reflexivity].
Qed.

(* ------------------------------------------------------------------ no panic *)

Lemma las_set_ok : forall las i v, 0 <= i < 128 -> las_set las i v = Ok (set_nth las (Z.to_nat i) v).
Proof.
  intros. unfold las_set. destruct (Z.leb_spec 0 i); destruct (Z.ltb_spec i 128); try lia. reflexivity.
Qed.

Lemma las_set_panic : forall las i v, ~ 0 <= i < 128 -> las_set las i v = Panic SiteIndex.
Proof.
  intros. unfold las_set. destruct (Z.leb_spec 0 i); destruct (Z.ltb_spec i 128); try lia; reflexivity.
Qed.

Lemma ring_new_ok : forall a, 0 <= a < 128 ->
  exists r, ring_new a = Ok r /\ wf r /\ r_ts r = a /\ r_state r = LasUninitialized /\
            r_ns r = a /\ r_ps r = a /\ las_ones (r_las r) = [a].
Proof.
  intros a H. unfold ring_new. rewrite las_set_ok by lia. cbn [bind].
  eexists. split; [reflexivity|]. unfold wf. cbn [r_las r_ts r_state r_ns r_ps].
  split; [rewrite set_nth_length, repeat_length; reflexivity|].
  repeat split; auto.
  apply sorted_ext; [apply las_ones_sorted|constructor; constructor|].
  intros x. rewrite In_las_ones. unfold active.
  rewrite activeb_set by (rewrite repeat_length; unfold las_size; lia).
  destruct (Z.eqb_spec x a); [subst; simpl; tauto|].
  unfold activeb. split; [|intros [Q|[]]; congruence].
  intros Q. apply andb_true_iff in Q. destruct Q as [_ Q].
  exfalso. revert Q. generalize (Z.to_nat x). unfold las_size.
  intros k. destruct (Nat.lt_ge_cases k 128) as [L|L].
  - rewrite nth_repeat. discriminate.
  - rewrite nth_overflow by (rewrite repeat_length; lia). discriminate.
Qed.

Lemma set_next_station_ok : forall r a, wf r -> 0 <= r_ts r < 128 -> 0 <= a < 128 ->
  set_next_station r a =
  Ok (upd (mkRing (set_nth (r_las r) (Z.to_nat a) true) (r_state r) (r_ts r) (r_ns r) (r_ps r)) (r_ts r) a).
Proof.
  intros r a W Ht Ha. unfold set_next_station. rewrite las_set_ok by lia. simpl.
  rewrite update_las_ok; auto; try (simpl; lia).
  unfold wf. simpl. rewrite set_nth_length. exact W.
Qed.

Lemma remove_station_ok : forall r a, 0 <= a < 128 ->
  remove_station r a =
  Ok (update_next_previous (mkRing (set_nth (r_las r) (Z.to_nat a) false) (r_state r) (r_ts r) (r_ns r) (r_ps r))).
Proof. intros r a Ha. unfold remove_station. rewrite las_set_ok by lia. reflexivity. Qed.

Lemma step_total : forall r o, wf r -> 0 <= r_ts r < 128 ->
  match o with
  | OpW sa da => 0 <= sa /\ 0 <= da
  | OpC => True
  | OpN a | OpR a => 0 <= a < 128
  end ->
  exists r', step r o = Ok r' /\ wf r' /\ r_ts r' = r_ts r.
Proof.
  intros r o W Ht Ho. destruct o as [sa da| |a|a]; simpl.
  - apply witness_total; tauto.
  - eexists; split; eauto.
  - rewrite set_next_station_ok by auto. eexists; split; eauto. split; [|reflexivity].
    apply upd_wf. unfold wf. simpl. rewrite set_nth_length. exact W.
  - rewrite remove_station_ok by auto. eexists; split; eauto. split; [|reflexivity].
    unfold wf. simpl. rewrite set_nth_length. exact W.
Qed.

Lemma run_total : forall ops r, wf r -> 0 <= r_ts r < 128 ->
  Forall (fun o => match o with
                   | OpW sa da => 0 <= sa /\ 0 <= da
                   | OpC => True
                   | OpN a | OpR a => 0 <= a < 128
                   end) ops ->
  exists r', run r ops = Ok r' /\ wf r' /\ r_ts r' = r_ts r.
Proof.
  induction ops as [|o t IH]; intros r W Ht F; simpl.
  - eauto.
  - inversion F as [|? ? Fo Ft]; subst.
    destruct (step_total r o W Ht Fo) as [r1 [E [W1 T1]]]. rewrite E. simpl.
    destruct (IH r1 W1) as [r' [E' [W' T']]]; auto; try lia.
    exists r'. split; auto. split; auto. lia.
Qed.

Lemma no_panic_run : forall ts ops, c02_nopanic_dom ts ops = true ->
  exists r0 r, ring_new ts = Ok r0 /\ run r0 ops = Ok r /\ r_ts r = ts /\ length (r_las r) = 128%nat.
Proof.
  intros ts ops H. unfold c02_nopanic_dom in H.
  apply andb_true_iff in H. destruct H as [H F]. apply andb_true_iff in H. destruct H as [H1 H2].
  apply Z.leb_le in H1. apply Z.ltb_lt in H2.
  destruct (ring_new_ok ts) as [r0 [E [W [T _]]]]; [lia|].
  destruct (run_total ops r0 W) as [r [E' [W' T']]]; [lia| |].
  - rewrite forallb_forall in F. apply Forall_forall. intros o Ho. specialize (F o Ho).
    destruct o; auto.
    + repeat (apply andb_true_iff in F; destruct F as [F ?]). apply Z.leb_le in F. zb; try discriminate. lia.
    + apply andb_true_iff in F. destruct F as [F1 F2]. apply Z.leb_le in F1. apply Z.ltb_lt in F2. lia.
    + apply andb_true_iff in F. destruct F as [F1 F2]. apply Z.leb_le in F1. apply Z.ltb_lt in F2. lia.
  - exists r0, r. repeat split; auto. lia.
Qed.

Lemma set_next_station_panics : forall r a, ~ 0 <= a < 128 -> set_next_station r a = Panic SiteIndex.
Proof. intros. unfold set_next_station. rewrite las_set_panic by auto. reflexivity. Qed.

Lemma remove_station_panics : forall r a, ~ 0 <= a < 128 -> remove_station r a = Panic SiteIndex.
Proof. intros. unfold remove_station. rewrite las_set_panic by auto. reflexivity. Qed.

Lemma ring_new_panics : forall a, ~ 0 <= a < 128 -> ring_new a = Panic SiteIndex.
Proof. intros. unfold ring_new. rewrite las_set_panic by auto. reflexivity. Qed.

(* ------------------------------------------------------------------ rings, rotations *)

Definition nsps_ok (r : ring) : Prop :=
  r_ns r = next_of (las_ones (r_las r)) (r_ts r) /\ r_ps r = prev_of (las_ones (r_las r)) (r_ts r).

Lemma upd_nsps : forall r sa da, nsps_ok (upd r sa da).
Proof. intros. unfold nsps_ok, upd, update_next_previous. simpl. auto. Qed.

Lemma with_state_nsps : forall r s, nsps_ok r -> nsps_ok (with_state r s).
Proof. intros r s H. exact H. Qed.

Lemma is_ring_inv : forall R, is_ring R ->
  exists r0 t, R = r0 :: t /\ StronglySorted Z.lt R /\ Forall (fun a => 0 <= a <= 125) R.
Proof.
  intros R H. unfold is_ring, ringb in H.
  apply andb_true_iff in H. destruct H as [H H3]. apply andb_true_iff in H. destruct H as [H1 H2].
  destruct R as [|r0 t]; [discriminate|]. exists r0, t. split; auto. split; [apply sortedb_sorted; auto|].
  apply Forall_forall. intros a Ha. rewrite forallb_forall in H3. specialize (H3 a Ha).
  apply andb_true_iff in H3. destruct H3 as [A B]. apply Z.leb_le in A. apply Z.leb_le in B. lia.
Qed.

Lemma sorted_head_lt : forall a l x, StronglySorted Z.lt (a :: l) -> In x l -> a < x.
Proof.
  intros a l x S H. inversion S as [|? ? _ F]; subst. rewrite Forall_forall in F. auto.
Qed.

Lemma sorted_tail : forall a l, StronglySorted Z.lt (a :: l) -> StronglySorted Z.lt l.
Proof. intros a l S. inversion S; auto. Qed.

(* the discovery rotation: witnessing a -> l1 -> ... -> ln -> r0 in state Discovery *)
Lemma chain_discovery : forall l a r0 r,
  wf r -> r_state r = LasDiscovery -> StronglySorted Z.lt (a :: l) -> 0 <= r0 <= a ->
  Forall (fun x => x <= 125) (a :: l) ->
  exists r', run_w r (chain a l r0) = Ok r' /\ wf r' /\ r_state r' = LasVerification /\
             r_ts r' = r_ts r /\ nsps_ok r' /\
             forall x, activeb (r_las r') x =
                       existsb (Z.eqb x) (a :: l) || (activeb (r_las r) x && (r0 <=? x) && (x <? a)).
Proof.
  induction l as [|b l IH]; intros a r0 r W St S H0 F.
  - assert (Ha : a <= 125) by (inversion F; auto).
    cbn [chain run_w]. rewrite witness_good by (auto; lia). rewrite St.
    destruct (Z.leb_spec r0 a); try lia. cbn [bind].
    eexists. split; [reflexivity|].
    split; [apply with_state_wf, upd_wf; auto|]. split; [reflexivity|]. split; [reflexivity|].
    split; [apply with_state_nsps, upd_nsps|].
    intros x. cbn [with_state r_las]. destruct (upd_fields r a r0) as [E _]. rewrite E.
    rewrite activeb_las_after by (auto; lia). unfold in_gapb. cbn [existsb].
    destruct (Z.ltb_spec a r0); try lia.
    destruct (activeb (r_las r) x); zb; simpl; try reflexivity; try lia.
  - assert (Ha : a <= 125) by (inversion F; auto).
    assert (Hab : a < b) by (apply (sorted_head_lt a (b :: l)); auto; left; auto).
    assert (Hb : b <= 125) by (inversion F as [|? ? _ F2]; inversion F2; auto).
    cbn [chain run_w]. rewrite witness_good by (auto; lia). rewrite St.
    destruct (Z.leb_spec b a); try lia. cbn [bind].
    destruct (IH b r0 (upd r a b)) as [r' [E [W' [S' [T' [N' A']]]]]].
    + apply upd_wf; auto.
    + destruct (upd_fields r a b) as [_ [Q _]]. rewrite Q. exact St.
    + apply sorted_tail in S. exact S.
    + lia.
    + inversion F; auto.
    + exists r'. split; auto. split; auto. split; auto.
      split; [rewrite T'; apply upd_fields|]. split; auto.
      intros x. rewrite A'. destruct (upd_fields r a b) as [Q _]. rewrite Q.
      rewrite activeb_las_after by (auto; lia). unfold in_gapb.
      destruct (Z.ltb_spec a b); try lia.
      cbn [existsb]. destruct (existsb (Z.eqb x) l); [rewrite !orb_true_r; reflexivity|].
      rewrite !orb_false_r.
      destruct (activeb (r_las r) x); zb; simpl; try reflexivity; try lia.
Qed.

(* every pass of a rotation of R is consistent with R: both ends are members, nobody in between *)
Lemma chain_between : forall (R : list Z) (r0 : Z) l a,
  StronglySorted Z.lt (a :: l) -> r0 <= a ->
  (forall x, In x R -> x <= a \/ In x l) -> (forall x, In x R -> r0 <= x) ->
  forall sa da, In (sa, da) (chain a l r0) -> forall x, In x R -> ~ strictly_between sa da x.
Proof.
  induction l as [|b l IH]; intros a S H0 HA HR sa da HI x Hx; unfold strictly_between.
  - destruct HI as [E|[]]. injection E as E1 E2; subst sa da.
    destruct (Z.ltb_spec a r0); try lia.
    destruct (HA x Hx) as [Q|[]]. specialize (HR x Hx). lia.
  - assert (Hab : a < b) by (apply (sorted_head_lt a (b :: l)); auto; left; auto).
    destruct HI as [E|HI].
    + injection E as E1 E2; subst sa da. destruct (Z.ltb_spec a b); try lia.
      destruct (HA x Hx) as [Q|[Q|Q]]; try lia.
      pose proof (sorted_head_lt b l x (sorted_tail _ _ S) Q). lia.
    + apply (IH b (sorted_tail _ _ S)) with (sa := sa) (da := da) (x := x) in HI; auto; try lia.
      intros y Hy. destruct (HA y Hy) as [Q|[Q|Q]]; [left; lia|left; lia|right; auto].
Qed.

Lemma chain_ends : forall l a r0 sa da, In (sa, da) (chain a l r0) ->
  In sa (a :: l) /\ (In da l \/ da = r0).
Proof.
  induction l as [|b l IH]; intros a r0 sa da H.
  - destruct H as [E|[]]. inversion E; subst. split; [left|right]; auto.
  - destruct H as [E|H].
    + inversion E; subst. split; [left; auto|left; left; auto].
    + apply IH in H. destruct H as [H1 H2]. split; [right; auto|].
      destruct H2; [left; right; auto|right; auto].
Qed.

Lemma rotation_pass : forall R sa da, is_ring R -> In (sa, da) (rotation R) ->
  In sa R /\ In da R /\ forall x, In x R -> ~ strictly_between sa da x.
Proof.
  intros R sa da HR HI. destruct (is_ring_inv R HR) as [r0 [t [E [S F]]]]. subst R.
  cbn [rotation] in HI. pose proof (chain_ends _ _ _ _ _ HI) as [E1 E2].
  split; auto. split; [destruct E2; [right; auto|left; auto]|].
  apply (chain_between (r0 :: t) r0 t r0) with (sa := sa) (da := da); auto; try lia.
  - intros x [Q|Q]; [left; lia|right; auto].
  - intros x [Q|Q]; [lia|]. pose proof (sorted_head_lt r0 t x S Q). lia.
Qed.

Lemma rotation_in_range : forall R sa da, is_ring R -> In (sa, da) (rotation R) ->
  0 <= sa <= 125 /\ 0 <= da <= 125.
Proof.
  intros R sa da HR HI. destruct (rotation_pass R sa da HR HI) as [A [B _]].
  destruct (is_ring_inv R HR) as [r0 [t [E [S F]]]]. rewrite Forall_forall in F. split; apply F; auto.
Qed.

Lemma verifies_of_ring : forall las R sa da, is_ring R ->
  (forall x, active las x <-> In x R) -> In (sa, da) (rotation R) -> verifies las sa da.
Proof.
  intros las R sa da HR HA HI. destruct (rotation_pass R sa da HR HI) as [A [B C]].
  split; [apply HA; auto|]. split; [apply HA; auto|]. intros x Hx. apply C. apply HA. exact Hx.
Qed.

(* the verification rotation: every pass verifies, the wrap-around declares the LAS valid *)
Lemma chain_verification : forall l a r0 r,
  wf r -> r_state r = LasVerification -> StronglySorted Z.lt (a :: l) -> 0 <= r0 <= a ->
  Forall (fun x => x <= 125) (a :: l) ->
  (forall sa da, In (sa, da) (chain a l r0) -> verifies (r_las r) sa da) ->
  run_w r (chain a l r0) = Ok (with_state r LasValid).
Proof.
  induction l as [|b l IH]; intros a r0 r W St S H0 F V.
  - assert (Ha : a <= 125) by (inversion F; auto).
    cbn [chain run_w]. rewrite witness_good by (auto; lia). rewrite St.
    rewrite verify_las_true by (auto; try lia; apply V; left; auto).
    destruct (Z.leb_spec r0 a); try lia. reflexivity.
  - assert (Ha : a <= 125) by (inversion F; auto).
    assert (Hab : a < b) by (apply (sorted_head_lt a (b :: l)); auto; left; auto).
    assert (Hb : b <= 125) by (inversion F as [|? ? _ F2]; inversion F2; auto).
    cbn [chain run_w]. rewrite witness_good by (auto; lia). rewrite St.
    rewrite verify_las_true by (auto; try lia; apply V; left; auto).
    destruct (Z.leb_spec b a); try lia. cbn [bind].
    apply IH; auto; try lia.
    + apply sorted_tail in S; auto.
    + inversion F; auto.
    + intros sa da HI. apply V. right. exact HI.
Qed.

Lemma run_w_app : forall p1 p2 r, run_w r (p1 ++ p2) = (let* r' := run_w r p1 in run_w r' p2).
Proof.
  induction p1 as [|[sa da] t IH]; intros p2 r; simpl; auto.
  destruct (witness r sa da); simpl; auto.
Qed.

Lemma run_w_uninit_ignored : forall pre r, r_state r = LasUninitialized ->
  Forall (fun p => is_wrapb p = false) pre -> run_w r pre = Ok r.
Proof.
  induction pre as [|[sa da] t IH]; intros r St F; simpl; auto.
  inversion F as [|? ? F1 F2]; subst. unfold is_wrapb in F1.
  assert (E : witness r sa da = Ok r).
  { unfold witness. rewrite St. destruct (Z.ltb_spec 125 sa); auto. destruct (Z.ltb_spec 125 da); auto.
    destruct (Z.leb_spec da sa); auto. exfalso. zb; try discriminate; lia. }
  rewrite E. simpl. apply IH; auto.
Qed.

Lemma witness_uninit_wrap : forall r sa da, r_state r = LasUninitialized -> is_wrapb (sa, da) = true ->
  witness r sa da = Ok (with_state r LasDiscovery).
Proof.
  intros r sa da St H. unfold is_wrapb in H. unfold witness. rewrite St.
  zb; try discriminate; try lia; reflexivity.
Qed.

(* from Discovery: two rotations of R *)
Lemma two_rotations : forall R r, is_ring R -> wf r -> r_state r = LasDiscovery ->
  exists r', run_w r (rotation R ++ rotation R) = Ok r' /\ wf r' /\ r_state r' = LasValid /\
             r_ts r' = r_ts r /\ nsps_ok r' /\ las_ones (r_las r') = R.
Proof.
  intros R r HR W St. destruct (is_ring_inv R HR) as [r0 [t [E [S F]]]].
  assert (F' : Forall (fun x => x <= 125) R) by (eapply Forall_impl; [|exact F]; simpl; intros; lia).
  assert (H0 : 0 <= r0) by (subst R; inversion F; lia).
  rewrite run_w_app. subst R. cbn [rotation].
  destruct (chain_discovery t r0 r0 r W St S) as [r1 [E1 [W1 [S1 [T1 [N1 A1]]]]]]; auto; try lia.
  rewrite E1. cbn [bind].
  assert (M : forall x, active (r_las r1) x <-> In x (r0 :: t)).
  { intros x. unfold active. rewrite A1. rewrite <- existsb_eqb_In.
    destruct (existsb (Z.eqb x) (r0 :: t)); simpl; [tauto|].
    destruct (activeb (r_las r) x); zb; simpl; try tauto; try lia. }
  rewrite chain_verification; auto; try lia.
  - eexists. split; [reflexivity|]. split; [exact W1|]. split; [reflexivity|].
    split; [exact T1|]. split; [exact N1|].
    cbn [with_state r_las]. apply sorted_ext; auto; [apply las_ones_sorted|].
    intros x. rewrite In_las_ones. apply M.
  - intros sa da HI. apply (verifies_of_ring _ (r0 :: t)); auto.
Qed.

Lemma las_discovery : forall (R : list Z) (r : ring) (pre : list (Z * Z)) (d : Z * Z),
  is_ring R -> length (r_las r) = 128%nat -> r_state r = LasUninitialized ->
  Forall (fun p => is_wrapb p = false) pre -> is_wrapb d = true ->
  exists r', run_w r (pre ++ d :: rotation R ++ rotation R) = Ok r' /\
             r_state r' = LasValid /\ ready_for_ring r' = true /\
             las_ones (r_las r') = R /\ r_ts r' = r_ts r /\
             cyc_next R (r_ts r) (r_ns r') /\ cyc_prev R (r_ts r) (r_ps r') /\
             length (r_las r') = 128%nat.
Proof.
  intros R r pre [sa da] HR W St F D.
  rewrite run_w_app, run_w_uninit_ignored by auto. cbn [bind run_w].
  rewrite witness_uninit_wrap by auto. cbn [bind].
  destruct (two_rotations R (with_state r LasDiscovery) HR) as [r' [E [W' [S' [T' [[N1 N2] L']]]]]]; auto.
  exists r'. split; auto. split; auto. split; [unfold ready_for_ring; rewrite S'; reflexivity|].
  split; auto. split; auto.
  cbn [with_state r_ts] in T'. rewrite N1, N2, L', T'.
  destruct (is_ring_inv R HR) as [_ [_ [_ [S _]]]].
  split; [apply next_of_spec; auto|]. split; [apply prev_of_spec; auto|]. exact W'.
Qed.

(* ------------------------------------------------------------------ next / previous *)

Lemma next_previous_spec : forall r,
  let r' := update_next_previous r in
  r_las r' = r_las r /\ r_state r' = r_state r /\ r_ts r' = r_ts r /\
  cyc_next (las_ones (r_las r)) (r_ts r) (r_ns r') /\
  cyc_prev (las_ones (r_las r)) (r_ts r) (r_ps r').
Proof.
  intros r. cbv zeta. unfold update_next_previous. cbn [r_las r_state r_ts r_ns r_ps].
  repeat split; auto; [apply next_of_spec|apply prev_of_spec]; apply las_ones_sorted.
Qed.

Definition neighbours (r : ring) : Prop :=
  cyc_next (las_ones (r_las r)) (r_ts r) (r_ns r) /\ cyc_prev (las_ones (r_las r)) (r_ts r) (r_ps r).

Lemma nsps_neighbours : forall r, nsps_ok r <-> neighbours r.
Proof.
  intros r. unfold nsps_ok, neighbours. split.
  - intros [A B]. rewrite A, B. split; [apply next_of_spec|apply prev_of_spec]; apply las_ones_sorted.
  - intros [A B]. split.
    + eapply cyc_next_unique; [exact A|]. apply next_of_spec, las_ones_sorted.
    + eapply cyc_prev_unique; [exact B|]. apply prev_of_spec, las_ones_sorted.
Qed.

Lemma step_nsps : forall r o r', nsps_ok r -> step r o = Ok r' -> nsps_ok r'.
Proof.
  intros r o r' N E. destruct o as [sa da| |a|a]; simpl in E.
  - unfold witness in E.
    destruct (125 <? sa); [inversion E; subst; auto|]. destruct (125 <? da); [inversion E; subst; auto|].
    assert (U : forall q, update_las r sa da = Ok q -> nsps_ok q).
    { intros q Q. unfold update_las in Q.
      destruct (if sa <? da then las_fill (r_las r) sa da false
                else (let* l1 := las_fill (r_las r) sa 128 false in las_fill l1 0 da false)); try discriminate.
      cbn [bind] in Q. destruct (las_set a sa true); try discriminate. cbn [bind] in Q.
      inversion Q; subst. unfold nsps_ok, update_next_previous. simpl. auto. }
    destruct (r_state r).
    + destruct (da <=? sa); inversion E; subst; auto.
    + destruct (update_las r sa da) as [q| |] eqn:Q; try discriminate. cbn [bind] in E.
      specialize (U q eq_refl). destruct (da <=? sa); inversion E; subst; auto.
    + destruct (verify_las r sa da) as [[|]| |]; try discriminate; cbn [bind negb] in E.
      * destruct (da <=? sa); inversion E; subst; auto.
      * destruct (update_las r sa da) as [q| |] eqn:Q; try discriminate. cbn [bind] in E.
        specialize (U q eq_refl). inversion E; subst; auto.
    + apply U; auto.
  - inversion E; subst. exact N.
  - unfold set_next_station in E. destruct (las_set (r_las r) a true); try discriminate. cbn [bind] in E.
    unfold update_las in E. cbn [r_las r_state r_ts r_ns r_ps] in E.
    match type of E with (let* las := ?X in _) = _ => destruct X; try discriminate end.
    cbn [bind] in E. match type of E with (let* las := ?X in _) = _ => destruct X; try discriminate end.
    cbn [bind] in E. inversion E; subst. unfold nsps_ok, update_next_previous. simpl. auto.
  - unfold remove_station in E. destruct (las_set (r_las r) a false); try discriminate. cbn [bind] in E.
    inversion E; subst. unfold nsps_ok, update_next_previous. simpl. auto.
Qed.

Lemma step_ts : forall r o r', step r o = Ok r' -> r_ts r' = r_ts r.
Proof.
  intros r o r' E. destruct o as [sa da| |a|a]; simpl in E.
  - unfold witness in E.
    destruct (125 <? sa); [inversion E; subst; auto|]. destruct (125 <? da); [inversion E; subst; auto|].
    assert (U : forall q, update_las r sa da = Ok q -> r_ts q = r_ts r).
    { intros q Q. unfold update_las in Q.
      destruct (if sa <? da then las_fill (r_las r) sa da false
                else (let* l1 := las_fill (r_las r) sa 128 false in las_fill l1 0 da false)); try discriminate.
      cbn [bind] in Q. destruct (las_set a sa true); try discriminate. cbn [bind] in Q.
      inversion Q; subst. reflexivity. }
    destruct (r_state r).
    + destruct (da <=? sa); inversion E; subst; auto.
    + destruct (update_las r sa da) as [q| |] eqn:Q; try discriminate. cbn [bind] in E.
      specialize (U q eq_refl). destruct (da <=? sa); inversion E; subst; auto.
    + destruct (verify_las r sa da) as [[|]| |]; try discriminate; cbn [bind negb] in E.
      * destruct (da <=? sa); inversion E; subst; auto.
      * destruct (update_las r sa da) as [q| |] eqn:Q; try discriminate. cbn [bind] in E.
        specialize (U q eq_refl). inversion E; subst; auto.
    + apply U; auto.
  - inversion E; subst. reflexivity.
  - unfold set_next_station in E. destruct (las_set (r_las r) a true); try discriminate. cbn [bind] in E.
    unfold update_las in E. cbn [r_las r_state r_ts r_ns r_ps] in E.
    match type of E with (let* las := ?X in _) = _ => destruct X; try discriminate end.
    cbn [bind] in E. match type of E with (let* las := ?X in _) = _ => destruct X; try discriminate end.
    cbn [bind] in E. inversion E; subst. reflexivity.
  - unfold remove_station in E. destruct (las_set (r_las r) a false); try discriminate. cbn [bind] in E.
    inversion E; subst. reflexivity.
Qed.

Lemma run_nsps : forall ops r r', nsps_ok r -> run r ops = Ok r' -> nsps_ok r' /\ r_ts r' = r_ts r.
Proof.
  induction ops as [|o t IH]; intros r r' N E; simpl in E.
  - inversion E; subst. auto.
  - destruct (step r o) as [r1| |] eqn:S; try discriminate. cbn [bind] in E.
    destruct (IH r1 r' (step_nsps _ _ _ N S) E) as [A B]. split; auto.
    rewrite B. eapply step_ts; eauto.
Qed.

Lemma ns_ps_invariant : forall ts ops r0 r, ring_new ts = Ok r0 -> run r0 ops = Ok r ->
  r_ts r = ts /\ cyc_next (las_ones (r_las r)) ts (r_ns r) /\ cyc_prev (las_ones (r_las r)) ts (r_ps r).
Proof.
  intros ts ops r0 r E0 E.
  destruct (Z_lt_le_dec ts 0) as [L|L]; [rewrite ring_new_panics in E0 by lia; discriminate|].
  destruct (Z_lt_le_dec ts 128) as [L2|L2]; [|rewrite ring_new_panics in E0 by lia; discriminate].
  destruct (ring_new_ok ts) as [q [Eq [W [T [S [N [P O]]]]]]]; [lia|].
  rewrite Eq in E0. inversion E0; subst q.
  assert (N0 : nsps_ok r0).
  { unfold nsps_ok. rewrite O, N, P, T. unfold next_of, prev_of. simpl.
    destruct (Z.ltb_spec ts ts); [lia|auto]. }
  destruct (run_nsps ops r0 r N0 E) as [A B]. rewrite T in B. split; auto.
  apply nsps_neighbours in A. unfold neighbours in A. rewrite B in A. exact A.
Qed.

(* ------------------------------------------------------------------ live update in state Valid *)

Lemma in_gapb_spec : forall sa da x, in_gapb sa da x = true <-> in_gap sa da x.
Proof.
  intros. unfold in_gapb, in_gap. destruct (sa <? da).
  - rewrite andb_true_iff, Z.leb_le, Z.ltb_lt. tauto.
  - rewrite orb_true_iff, Z.leb_le, Z.ltb_lt. tauto.
Qed.

Lemma strictly_betweenb_spec : forall sa da x, strictly_betweenb sa da x = true <-> strictly_between sa da x.
Proof.
  intros. unfold strictly_betweenb, strictly_between. destruct (sa <? da).
  - rewrite andb_true_iff, !Z.ltb_lt. tauto.
  - rewrite orb_true_iff, !Z.ltb_lt. tauto.
Qed.

Lemma gap_strict : forall sa da x, x <> sa -> (in_gap sa da x <-> strictly_between sa da x).
Proof. intros. unfold in_gap, strictly_between. destruct (sa <? da); lia. Qed.

Lemma not_strict_self : forall sa da, ~ strictly_between sa da sa \/ da <= sa.
Proof. intros. unfold strictly_between. destruct (Z.ltb_spec sa da); [left; lia|right; lia]. Qed.

Lemma active_las_after : forall las sa da x,
  length las = 128%nat -> 0 <= sa < 128 -> 0 <= da <= 128 ->
  (active (las_after las sa da) x <-> x = sa \/ (active las x /\ ~ in_gap sa da x)).
Proof.
  intros las sa da x HL Hs Hd. unfold active. rewrite activeb_las_after by auto.
  rewrite orb_true_iff, andb_true_iff, negb_true_iff, Z.eqb_eq, <- in_gapb_spec.
  destruct (in_gapb sa da x); intuition congruence.
Qed.

Lemma ones_las_after : forall las sa da,
  length las = 128%nat -> 0 <= sa < 128 -> 0 <= da <= 128 ->
  las_ones (las_after las sa da) = las_after_pass (las_ones las) sa da.
Proof.
  intros las sa da HL Hs Hd. unfold las_after_pass.
  apply sorted_ext; [apply las_ones_sorted|apply sorted_insert, sorted_filter, las_ones_sorted|].
  intros x. rewrite In_las_ones, active_las_after by auto.
  rewrite In_insert_sorted, filter_In, In_las_ones, negb_true_iff, <- in_gapb_spec.
  destruct (in_gapb sa da x); intuition congruence.
Qed.

Lemma nth_activeb : forall l n, nth n l false = activeb l (Z.of_nat n).
Proof.
  intros. unfold activeb. rewrite Nat2Z.id. destruct (Z.leb_spec 0 (Z.of_nat n)); [reflexivity|lia].
Qed.

Lemma las_ext : forall l l', length l = length l' -> (forall x, activeb l x = activeb l' x) -> l = l'.
Proof.
  intros l l' HL H. apply (nth_ext l l' false false HL). intros n _. rewrite !nth_activeb. apply H.
Qed.

Lemma las_after_verified : forall las sa da,
  length las = 128%nat -> 0 <= sa < 128 -> 0 <= da < 128 -> verifies las sa da ->
  las_after las sa da = las.
Proof.
  intros las sa da HL Hs Hd [A [B C]]. apply las_ext; [apply las_after_length|].
  intros x. rewrite activeb_las_after by (auto; lia).
  destruct (Z.eqb_spec x sa) as [E|E]; [subst; simpl; symmetry; exact A|]. simpl.
  destruct (activeb las x) eqn:X; auto. simpl.
  apply negb_true_iff. destruct (in_gapb sa da x) eqn:G; auto.
  exfalso. apply (C x X). apply gap_strict; auto. apply in_gapb_spec. exact G.
Qed.

Lemma ring_eta : forall r, mkRing (r_las r) (r_state r) (r_ts r) (r_ns r) (r_ps r) = r.
Proof. intros []. reflexivity. Qed.

Lemma unp_fix : forall r, nsps_ok r -> update_next_previous r = r.
Proof. intros [l s t n p] [A B]. unfold update_next_previous. simpl in *. congruence. Qed.

Lemma las_stable_step : forall R r sa da,
  is_ring R -> length (r_las r) = 128%nat -> r_state r = LasValid -> las_ones (r_las r) = R ->
  In (sa, da) (rotation R) -> witness r sa da = Ok (update_next_previous r).
Proof.
  intros R r sa da HR W St L HI.
  destruct (rotation_in_range R sa da HR HI) as [Hs Hd].
  assert (V : verifies (r_las r) sa da).
  { apply (verifies_of_ring _ R); auto. intros x. rewrite <- In_las_ones, L. tauto. }
  rewrite witness_good by auto. rewrite St. unfold upd.
  rewrite las_after_verified by (auto; lia). rewrite ring_eta. reflexivity.
Qed.

Lemma las_stable : forall R r passes,
  is_ring R -> length (r_las r) = 128%nat -> r_state r = LasValid -> las_ones (r_las r) = R ->
  cyc_next R (r_ts r) (r_ns r) -> cyc_prev R (r_ts r) (r_ps r) ->
  Forall (fun p => In p (rotation R)) passes -> run_w r passes = Ok r.
Proof.
  intros R r passes HR W St L N P F.
  assert (NS : nsps_ok r) by (apply nsps_neighbours; unfold neighbours; rewrite L; auto).
  induction passes as [|[sa da] t IH]; simpl; auto.
  inversion F as [|? ? F1 F2]; subst.
  rewrite (las_stable_step (las_ones (r_las r))) by auto. rewrite unp_fix by auto. simpl. apply IH. exact F2.
Qed.

Lemma valid_pass_spec : forall r sa da,
  length (r_las r) = 128%nat -> r_state r = LasValid -> 0 <= sa <= 125 -> 0 <= da <= 125 ->
  exists r', witness r sa da = Ok r' /\ r_state r' = LasValid /\ length (r_las r') = 128%nat /\
             r_ts r' = r_ts r /\
             cyc_next (las_ones (r_las r')) (r_ts r) (r_ns r') /\
             cyc_prev (las_ones (r_las r')) (r_ts r) (r_ps r') /\
             las_ones (r_las r') = las_after_pass (las_ones (r_las r)) sa da /\
             forall x, active (r_las r') x <-> x = sa \/ (active (r_las r) x /\ ~ in_gap sa da x).
Proof.
  intros r sa da W St Hs Hd. rewrite witness_good by auto. rewrite St.
  exists (upd r sa da). split; auto. destruct (upd_fields r sa da) as [L [S [T _]]].
  split; [congruence|]. split; [apply upd_wf; auto|]. split; auto.
  pose proof (proj1 (nsps_neighbours _) (upd_nsps r sa da)) as [N P]. rewrite T in N, P.
  split; auto. split; auto. rewrite L.
  split; [apply ones_las_after; auto; lia|]. intros x. apply active_las_after; auto; lia.
Qed.

Lemma las_leave : forall r a c,
  length (r_las r) = 128%nat -> r_state r = LasValid -> 0 <= a <= 125 -> 0 <= c <= 125 ->
  active (r_las r) a -> active (r_las r) c ->
  exists r', witness r a c = Ok r' /\ r_state r' = LasValid /\
             las_ones (r_las r') = filter (fun x => negb (strictly_betweenb a c x)) (las_ones (r_las r)) /\
             (forall b, active (r_las r) b -> strictly_between a c b ->
                        (forall x, active (r_las r) x -> strictly_between a c x -> x = b) ->
                        las_ones (r_las r') = filter (fun x => negb (x =? b)) (las_ones (r_las r))) /\
             cyc_next (las_ones (r_las r')) (r_ts r) (r_ns r') /\
             cyc_prev (las_ones (r_las r')) (r_ts r) (r_ps r').
Proof.
  intros r a c W St Ha Hc Aa Ac.
  destruct (valid_pass_spec r a c W St Ha Hc) as [r' [E [S' [W' [T' [N [P [L M]]]]]]]].
  exists r'. split; auto. split; auto.
  assert (Q : las_ones (r_las r') = filter (fun x => negb (strictly_betweenb a c x)) (las_ones (r_las r))).
  { apply sorted_ext; [apply las_ones_sorted|apply sorted_filter, las_ones_sorted|].
    intros x. rewrite In_las_ones, M, filter_In, In_las_ones, negb_true_iff.
    destruct (Z.eq_dec x a) as [E1|E1].
    - subst x. split; [|tauto]. intros _. split; auto.
      destruct (strictly_betweenb a c a) eqn:G; auto. apply strictly_betweenb_spec in G.
      unfold strictly_between in G. destruct (Z.ltb_spec a c); lia.
    - rewrite (gap_strict a c x E1), <- strictly_betweenb_spec.
      destruct (strictly_betweenb a c x); intuition congruence. }
  split; auto. split; auto.
  intros b Ab Sb U. rewrite Q. apply filter_ext_in. intros x Hx. apply In_las_ones in Hx. f_equal.
  destruct (Z.eqb_spec x b) as [E1|E1].
  - subst x. apply strictly_betweenb_spec. exact Sb.
  - destruct (strictly_betweenb a c x) eqn:G; auto. apply strictly_betweenb_spec in G.
    exfalso. apply E1. apply U; auto.
Qed.

Lemma las_join : forall r a b c,
  length (r_las r) = 128%nat -> r_state r = LasValid ->
  0 <= a <= 125 -> 0 <= b <= 125 -> 0 <= c <= 125 ->
  active (r_las r) a -> ~ active (r_las r) b ->
  (forall x, active (r_las r) x -> ~ strictly_between a b x) ->
  (forall x, active (r_las r) x -> ~ strictly_between b c x) ->
  exists r1 r2, witness r a b = Ok r1 /\ r_state r1 = LasValid /\
                las_ones (r_las r1) = las_ones (r_las r) /\
                witness r1 b c = Ok r2 /\ r_state r2 = LasValid /\
                las_ones (r_las r2) = insert_sorted b (las_ones (r_las r)) /\
                cyc_next (las_ones (r_las r2)) (r_ts r) (r_ns r2) /\
                cyc_prev (las_ones (r_las r2)) (r_ts r) (r_ps r2).
Proof.
  intros r a b c W St Ha Hb Hc Aa Nb G1 G2.
  destruct (valid_pass_spec r a b W St Ha Hb) as [r1 [E1 [S1 [W1 [T1 [_ [_ [_ M1]]]]]]]].
  assert (Q1 : las_ones (r_las r1) = las_ones (r_las r)).
  { apply sorted_ext; try apply las_ones_sorted. intros x. rewrite !In_las_ones, M1.
    destruct (Z.eq_dec x a) as [E|E]; [subst; tauto|].
    rewrite (gap_strict a b x E). split; [tauto|]. intros Hx. right. split; auto. }
  assert (A1 : forall x, active (r_las r1) x <-> active (r_las r) x).
  { intros x. rewrite <- !In_las_ones, Q1. tauto. }
  destruct (valid_pass_spec r1 b c W1 S1 Hb Hc) as [r2 [E2 [S2 [W2 [T2 [N2 [P2 [_ M2]]]]]]]].
  exists r1, r2. split; auto. split; auto. split; auto. split; auto. split; auto.
  rewrite T1 in N2, P2. split; auto.
  apply sorted_ext; [apply las_ones_sorted|apply sorted_insert, las_ones_sorted|].
  intros x. rewrite In_las_ones, M2, In_insert_sorted, In_las_ones, A1.
  destruct (Z.eq_dec x b) as [E|E]; [subst; tauto|].
  rewrite (gap_strict b c x E). split; [tauto|]. intros [Q|Hx]; [tauto|]. right. split; auto.
Qed.

(* ------------------------------------------------------------------ two identical rotations *)

Definition nonneg (p : Z * Z) : Prop := 0 <= fst p /\ 0 <= snd p.
Definition ver_ok (las : list bool) (p : Z * Z) : Prop :=
  bad_addrb p = true \/ (is_wrapb p = false /\ verifies las (fst p) (snd p)).

Lemma witness_cases : forall r sa da r', wf r -> 0 <= sa -> 0 <= da -> witness r sa da = Ok r' ->
  (bad_addrb (sa, da) = true /\ r' = r) \/
  (bad_addrb (sa, da) = false /\
   match r_state r with
   | LasUninitialized => r' = if is_wrapb (sa, da) then with_state r LasDiscovery else r
   | LasDiscovery => r' = if is_wrapb (sa, da) then with_state (upd r sa da) LasVerification else upd r sa da
   | LasVerification =>
       (verifies (r_las r) sa da /\ r' = if is_wrapb (sa, da) then with_state r LasValid else r) \/
       (~ verifies (r_las r) sa da /\ r' = with_state (upd r sa da) LasDiscovery)
   | LasValid => r' = upd r sa da
   end).
Proof.
  intros r sa da r' W Hs Hd E. unfold bad_addrb, is_wrapb.
  destruct (Z.ltb_spec 125 sa) as [A|A]; [left; rewrite witness_bad in E by lia; inversion E; auto|].
  destruct (Z.ltb_spec 125 da) as [B|B]; [left; rewrite witness_bad in E by lia; inversion E; auto|].
  right. split; auto. rewrite witness_good in E by (auto; lia).
  destruct (Z.leb_spec sa 125); try lia. destruct (Z.leb_spec da 125); try lia. cbn [andb].
  destruct (r_state r).
  - destruct (da <=? sa); inversion E; auto.
  - inversion E; auto.
  - destruct (verify_las_spec r sa da W) as [b [Eb Vb]]; try lia. rewrite Eb in E. destruct b.
    + left. split; [apply Vb; auto|]. destruct (da <=? sa); inversion E; auto.
    + right. split; [intro Q; apply Vb in Q; discriminate|]. inversion E; auto.
  - inversion E; auto.
Qed.

Lemma witness_wf : forall r sa da r', wf r -> 0 <= sa -> 0 <= da -> witness r sa da = Ok r' -> wf r'.
Proof.
  intros r sa da r' W Hs Hd E. destruct (witness_total r sa da W Hs Hd) as [q [Eq [Wq _]]]. congruence.
Qed.

Lemma run_w_wf : forall passes r r', wf r -> Forall nonneg passes -> run_w r passes = Ok r' -> wf r'.
Proof.
  induction passes as [|[sa da] t IH]; intros r r' W F E; simpl in E.
  - inversion E; subst; auto.
  - inversion F as [|? ? [F1 F2] Ft]; subst. simpl in F1, F2.
    destruct (witness r sa da) as [r1| |] eqn:E1; try discriminate. cbn [bind] in E.
    apply (IH r1 r'); auto. apply (witness_wf r sa da r1); auto.
Qed.

Lemma las_state_eq_dec : forall a b : las_state, {a = b} + {a <> b}.
Proof. decide equality. Qed.

Lemma run_w_snoc : forall ps p r r', run_w r (ps ++ [p]) = Ok r' ->
  exists r1, run_w r ps = Ok r1 /\ witness r1 (fst p) (snd p) = Ok r'.
Proof.
  intros ps [sa da] r r' E. rewrite run_w_app in E.
  destruct (run_w r ps) as [r1| |]; try discriminate. cbn [bind run_w] in E.
  exists r1. split; auto. simpl. destruct (witness r1 sa da); try discriminate. exact E.
Qed.

Lemma ver_history : forall passes r r',
  wf r -> (r_state r = LasUninitialized \/ r_state r = LasDiscovery) -> Forall nonneg passes ->
  run_w r passes = Ok r' -> r_state r' = LasVerification ->
  exists pre d ver rD,
    passes = pre ++ d :: ver /\ run_w r pre = Ok rD /\ r_state rD = LasDiscovery /\
    is_wrapb d = true /\ witness rD (fst d) (snd d) = Ok r' /\
    Forall (ver_ok (r_las r')) ver /\ run_w r' ver = Ok r'.
Proof.
  induction passes as [|p ps IH] using rev_ind; intros r r' W St F E S'.
  - simpl in E. inversion E; subst. destruct St; congruence.
  - apply Forall_app in F. destruct F as [Fps Fp]. inversion Fp as [|? ? [P1 P2] _]; subst.
    destruct (run_w_snoc _ _ _ _ E) as [r1 [E1 E2]].
    assert (W1 : wf r1) by (apply (run_w_wf ps r r1); auto).
    destruct p as [sa da]. simpl in P1, P2, E2.
    destruct (witness_cases r1 sa da r' W1 P1 P2 E2) as [[B Q]|[B Q]].
    + subst r'. destruct (IH r r1 W St Fps E1 S') as [pre [d [ver [rD [A1 [A2 [A3 [A4 [A5 [A6 A7]]]]]]]]]].
      exists pre, d, (ver ++ [(sa, da)]), rD. split; [rewrite A1, <- app_assoc; reflexivity|].
      split; auto. split; auto. split; auto. split; auto.
      split; [apply Forall_app; split; auto; constructor; auto; left; exact B|].
      rewrite run_w_app, A7. cbn [bind run_w]. rewrite E2. reflexivity.
    + destruct (r_state r1) eqn:S1.
      * exfalso. subst r'. destruct (is_wrapb (sa, da)); simpl in S'; congruence.
      * destruct (is_wrapb (sa, da)) eqn:Wr.
        -- exists ps, (sa, da), [], r1. rewrite Q. repeat split; auto. rewrite <- Q. exact E2.
        -- exfalso. subst r'. destruct (upd_fields r1 sa da) as [_ [X _]]. congruence.
      * destruct Q as [[V Q]|[V Q]].
        -- destruct (is_wrapb (sa, da)) eqn:Wr; [exfalso; subst r'; simpl in S'; discriminate|].
           subst r'.
           destruct (IH r r1 W St Fps E1 S') as [pre [d [ver [rD [A1 [A2 [A3 [A4 [A5 [A6 A7]]]]]]]]]].
           exists pre, d, (ver ++ [(sa, da)]), rD. split; [rewrite A1, <- app_assoc; reflexivity|].
           split; auto. split; auto. split; auto. split; auto.
           split; [apply Forall_app; split; auto; constructor; auto; right; auto|].
           rewrite run_w_app, A7. cbn [bind run_w]. rewrite E2. reflexivity.
        -- exfalso. subst r'. simpl in S'. discriminate.
      * exfalso. subst r'. destruct (upd_fields r1 sa da) as [_ [X _]]. congruence.
Qed.

Lemma first_valid : forall passes r r',
  r_state r <> LasValid -> run_w r passes = Ok r' -> r_state r' = LasValid ->
  exists ps p post r1 r2,
    passes = ps ++ p :: post /\ run_w r ps = Ok r1 /\ r_state r1 <> LasValid /\
    witness r1 (fst p) (snd p) = Ok r2 /\ r_state r2 = LasValid.
Proof.
  induction passes as [|[sa da] t IH]; intros r r' St E S'; simpl in E.
  - inversion E; subst. congruence.
  - destruct (witness r sa da) as [r1| |] eqn:E1; try discriminate. cbn [bind] in E.
    destruct (las_state_eq_dec (r_state r1) LasValid) as [V|V].
    + exists [], (sa, da), t, r, r1. repeat split; auto.
    + destruct (IH r1 r' V E S') as [ps [p [post [q1 [q2 [A1 [A2 [A3 [A4 A5]]]]]]]]].
      exists ((sa, da) :: ps), p, post, q1, q2. split; [rewrite A1; reflexivity|].
      split; [simpl; rewrite E1; exact A2|]. auto.
Qed.

Lemma las_two_identical : forall (r : ring) (passes : list (Z * Z)) (r' : ring),
  length (r_las r) = 128%nat -> (r_state r = LasUninitialized \/ r_state r = LasDiscovery) ->
  Forall (fun p => 0 <= fst p /\ 0 <= snd p) passes ->
  run_w r passes = Ok r' -> r_state r' = LasValid ->
  exists pre d ver v post rD rV,
    passes = pre ++ d :: ver ++ v :: post /\
    run_w r pre = Ok rD /\ r_state rD = LasDiscovery /\
    is_wrapb d = true /\ witness rD (fst d) (snd d) = Ok rV /\ r_state rV = LasVerification /\
    Forall (fun p => bad_addrb p = true \/ (is_wrapb p = false /\ verifies (r_las rV) (fst p) (snd p))) ver /\
    is_wrapb v = true /\ verifies (r_las rV) (fst v) (snd v) /\
    run_w r (pre ++ d :: ver ++ [v]) = Ok (with_state rV LasValid).
Proof.
  intros r passes r' W St F E S'.
  assert (NV : r_state r <> LasValid) by (destruct St; congruence).
  destruct (first_valid passes r r' NV E S') as [ps [v [post [r1 [r2 [A1 [A2 [A3 [A4 A5]]]]]]]]].
  subst passes. apply Forall_app in F. destruct F as [Fps Fv].
  inversion Fv as [|? ? [P1 P2] _]; subst.
  assert (W1 : wf r1) by (apply (run_w_wf ps r r1); auto).
  destruct v as [sa da]. simpl in P1, P2, A4.
  destruct (witness_cases r1 sa da r2 W1 P1 P2 A4) as [[B Q]|[B Q]]; [subst; congruence|].
  destruct (r_state r1) eqn:S1.
  - exfalso. subst r2. destruct (is_wrapb (sa, da)); simpl in A5; congruence.
  - exfalso. subst r2. destruct (is_wrapb (sa, da)); simpl in A5; try discriminate.
    destruct (upd_fields r1 sa da) as [_ [X _]]. congruence.
  - destruct Q as [[V Q]|[V Q]]; [|exfalso; subst r2; simpl in A5; discriminate].
    destruct (is_wrapb (sa, da)) eqn:Wr; [|subst r2; congruence].
    destruct (ver_history ps r r1 W St Fps A2 S1) as [pre [d [ver [rD [C1 [C2 [C3 [C4 [C5 [C6 C7]]]]]]]]]].
    exists pre, d, ver, (sa, da), post, rD, r1.
    split; [rewrite C1, <- app_assoc; reflexivity|].
    split; auto. split; auto. split; auto. split; auto. split; auto. split; [exact C6|].
    split; auto. split; auto.
    rewrite run_w_app, C2. cbn [bind run_w]. destruct d as [sd dd]. simpl in C5. rewrite C5. cbn [bind].
    rewrite run_w_app, C7. cbn [bind run_w]. rewrite A4, Q. reflexivity.
  - congruence.
Qed.

(* ------------------------------------------------------------------ Debug formatting *)

Lemma sorted_length_bound : forall l lo hi, StronglySorted Z.lt l -> lo <= hi + 1 ->
  (forall x, In x l -> lo <= x <= hi) -> Z.of_nat (length l) <= hi - lo + 1.
Proof.
  induction l as [|a t IH]; intros lo hi S H B; simpl length; [lia|].
  assert (Ba : lo <= a <= hi) by (apply B; left; auto).
  assert (Q : Z.of_nat (length t) <= hi - (a + 1) + 1).
  { apply IH; [apply sorted_tail in S; auto|lia|].
    intros x Hx. pose proof (sorted_head_lt a t x S Hx). pose proof (B x (or_intror Hx)). lia. }
  lia.
Qed.

Definition low (r : ring) : Prop := forall x, active (r_las r) x -> x <= 125.

Lemma upd_low : forall r sa da, wf r -> 0 <= sa <= 125 -> 0 <= da <= 128 -> low r -> low (upd r sa da).
Proof.
  intros r sa da W Hs Hd L x Hx. destruct (upd_fields r sa da) as [E _]. rewrite E in Hx.
  apply active_las_after in Hx; auto; try lia. destruct Hx as [Q|[Q _]]; [lia|apply L; auto].
Qed.

Definition op_dbg_dom (o : op) : Prop :=
  match o with
  | OpW sa da => 0 <= sa /\ 0 <= da
  | OpC => True
  | OpN a => 0 <= a <= 125
  | OpR a => True
  end.

Lemma step_low : forall r o r', wf r -> 0 <= r_ts r <= 125 -> low r -> op_dbg_dom o -> step r o = Ok r' ->
  wf r' /\ r_ts r' = r_ts r /\ low r'.
Proof.
  intros r o r' W Ht L D E. destruct o as [sa da| |a|a]; simpl in E, D.
  - destruct D as [D1 D2]. destruct (witness_total r sa da W D1 D2) as [q [Eq [Wq Tq]]].
    rewrite Eq in E. inversion E; subst q. split; auto. split; auto.
    destruct (witness_cases r sa da r' W D1 D2 Eq) as [[B Q]|[B Q]]; [subst; auto|].
    unfold bad_addrb in B. apply orb_false_iff in B. destruct B as [B1 B2].
    apply Z.ltb_ge in B1. apply Z.ltb_ge in B2.
    assert (U : low (upd r sa da)) by (apply upd_low; auto; lia).
    destruct (r_state r).
    + subst r'. destruct (is_wrapb (sa, da)); auto.
    + subst r'. destruct (is_wrapb (sa, da)); auto.
    + destruct Q as [[_ Q]|[_ Q]]; subst r'; auto. destruct (is_wrapb (sa, da)); auto.
    + subst r'. auto.
  - inversion E; subst. auto.
  - rewrite set_next_station_ok in E by (auto; lia). inversion E; subst r'. clear E.
    set (r1 := mkRing (set_nth (r_las r) (Z.to_nat a) true) (r_state r) (r_ts r) (r_ns r) (r_ps r)).
    assert (W1 : wf r1) by (unfold wf, r1; simpl; rewrite set_nth_length; exact W).
    split; [apply upd_wf; auto|]. split; [reflexivity|].
    apply upd_low; auto; try (simpl; lia).
    intros x Hx. unfold r1, active in Hx. simpl in Hx. rewrite activeb_set in Hx by (rewrite W; lia).
    destruct (Z.eqb_spec x a); [lia|apply L; auto].
  - destruct (Z_le_dec 0 a) as [A1|A1]; [|rewrite remove_station_panics in E by lia; discriminate].
    destruct (Z_lt_dec a 128) as [A2|A2]; [|rewrite remove_station_panics in E by lia; discriminate].
    rewrite remove_station_ok in E by lia. inversion E; subst r'. clear E.
    split; [unfold wf; simpl; rewrite set_nth_length; exact W|]. split; [reflexivity|].
    intros x Hx. unfold active in Hx. simpl in Hx. rewrite activeb_set in Hx by (rewrite W; lia).
    destruct (Z.eqb_spec x a); [discriminate|apply L; auto].
Qed.

Lemma debug_no_panic : forall ts ops r0 r, 0 <= ts <= 125 -> ring_new ts = Ok r0 ->
  Forall op_dbg_dom ops -> run r0 ops = Ok r ->
  debug_active r = Ok (las_ones (r_las r)).
Proof.
  intros ts ops r0 r Ht E0 F E.
  destruct (ring_new_ok ts) as [q [Eq [W [T [_ [_ [_ O]]]]]]]; [lia|].
  rewrite Eq in E0. inversion E0; subst q. clear E0.
  assert (L0 : low r0).
  { intros x Hx. apply In_las_ones in Hx. rewrite O in Hx. destruct Hx as [Q|[]]. lia. }
  assert (G : wf r /\ r_ts r = r_ts r0 /\ low r).
  { clear Eq O. revert r0 W T L0 E. induction ops as [|o t IH]; intros r0 W T L0 E; simpl in E.
    - inversion E; subst. auto.
    - inversion F as [|? ? Fo Ft]; subst.
      destruct (step r0 o) as [r1| |] eqn:S1; try discriminate. cbn [bind] in E.
      destruct (step_low r0 o r1 W) as [W1 [T1 L1]]; auto; try lia.
      destruct (IH Ft r1 W1) as [A [B C]]; auto; try lia. split; auto. split; auto. lia. }
  destruct G as [Wr [_ Lr]]. unfold debug_active.
  assert (B : Z.of_nat (length (las_ones (r_las r))) <= 125 - 0 + 1).
  { apply sorted_length_bound; [apply las_ones_sorted|lia|].
    intros x Hx. apply In_las_ones in Hx. pose proof (active_range _ _ Hx). specialize (Lr x Hx). lia. }
  destruct (Nat.leb_spec (length (las_ones (r_las r))) 127); [reflexivity|lia].
Qed.

(* the 128-station witness: Debug does panic when set_next_station is given 126 / 127 *)
Lemma debug_panic_witness :
  exists ops r0 r, ring_new 125 = Ok r0 /\ run r0 ops = Ok r /\ debug_active r = Panic SiteIndex.
Proof.
  exists ([OpN 127; OpN 126; OpC] ++ map (fun i => OpW (Z.of_nat i) (Z.of_nat i + 1)) (seq 0 125)).
  destruct (ring_new 125) as [r0| |] eqn:E0; try (vm_compute in E0; discriminate).
  destruct (run r0 ([OpN 127; OpN 126; OpC] ++ map (fun i => OpW (Z.of_nat i) (Z.of_nat i + 1)) (seq 0 125)))
    as [r| |] eqn:E.
  - exists r0, r. split; auto. split; auto. vm_compute in E0. inversion E0; subst r0.
    vm_compute in E. inversion E; subst r. vm_compute. reflexivity.
  - exfalso. vm_compute in E0. inversion E0; subst r0. vm_compute in E. discriminate.
  - exfalso. vm_compute in E0. inversion E0; subst r0. vm_compute in E. discriminate.
Qed.

(* ------------------------------------------------------------------ no panic, collected *)

Lemma no_panic_all : forall r, length (r_las r) = 128%nat ->
  (forall sa da, 0 <= sa < 256 -> 0 <= da < 256 ->
     exists r', witness r sa da = Ok r' /\ length (r_las r') = 128%nat /\ r_ts r' = r_ts r) /\
  (0 <= r_ts r < 128 -> forall a, 0 <= a < 128 ->
     (exists r', set_next_station r a = Ok r' /\ length (r_las r') = 128%nat /\ r_ts r' = r_ts r) /\
     (exists r', remove_station r a = Ok r' /\ length (r_las r') = 128%nat /\ r_ts r' = r_ts r)) /\
  (exists r', step r OpC = Ok r' /\ length (r_las r') = 128%nat /\ r_ts r' = r_ts r).
Proof.
  intros r W. split; [|split].
  - intros sa da Hs Hd. apply witness_total; auto; lia.
  - intros Ht a Ha. split.
    + exact (step_total r (OpN a) W Ht Ha).
    + exact (step_total r (OpR a) W Ht Ha).
  - simpl. eexists. split; [reflexivity|]. split; [exact W|reflexivity].
Qed.

Lemma panics_outside : forall r a, ~ 0 <= a < 128 ->
  ring_new a = Panic SiteIndex /\ set_next_station r a = Panic SiteIndex /\ remove_station r a = Panic SiteIndex.
Proof.
  intros r a H. split; [apply ring_new_panics; auto|].
  split; [apply set_next_station_panics; auto|apply remove_station_panics; auto].
Qed.

(* ------------------------------------------------------------------ soundness of the executable oracles
   (Model/LasOracle.v: c02_step_ok, c02_nsps_ok) with respect to the model: every step of the model
   passes them, so an ORACLE-FAIL on the crate's output is a deviation from the proved behaviour. *)

Lemma ready_state : forall r, ready_for_ring r = state_eqb (r_state r) LasValid.
Proof. intros r. unfold ready_for_ring. destruct (r_state r); reflexivity. Qed.

Lemma list_eqb_refl : forall l, list_eqb l l = true.
Proof. intros. apply list_eqb_eq. reflexivity. Qed.

Lemma state_eqb_refl : forall s, state_eqb s s = true.
Proof. destruct s; reflexivity. Qed.

Lemma obs_eqb_refl : forall o, obs_eqb o o = true.
Proof.
  intros [s rd n p l]. unfold obs_eqb. simpl.
  rewrite !Z.eqb_refl, list_eqb_refl, Bool.eqb_reflx. destruct s as [s|]; simpl; [rewrite state_eqb_refl|]; reflexivity.
Qed.

Lemma verifiesb_spec : forall las sa da, verifiesb (las_ones las) sa da = true <-> verifies las sa da.
Proof.
  intros las sa da. unfold verifiesb, verifies.
  rewrite !andb_true_iff, !existsb_eqb_In, !In_las_ones, forallb_forall. split.
  - intros [[A B] C]. split; auto. split; auto. intros x Hx Q.
    apply In_las_ones in Hx. specialize (C x Hx). apply negb_true_iff in C.
    apply strictly_betweenb_spec in Q. congruence.
  - intros [A [B C]]. split; auto. intros x Hx. apply In_las_ones in Hx. apply negb_true_iff.
    destruct (strictly_betweenb sa da x) eqn:G; auto. apply strictly_betweenb_spec in G. exfalso. apply (C x); auto.
Qed.

Lemma ones_set_true : forall las a, 0 <= a < Z.of_nat (length las) ->
  las_ones (set_nth las (Z.to_nat a) true) = insert_sorted a (las_ones las).
Proof.
  intros las a Ha. apply sorted_ext; [apply las_ones_sorted|apply sorted_insert, las_ones_sorted|].
  intros x. rewrite In_las_ones, In_insert_sorted, In_las_ones. unfold active.
  rewrite activeb_set by auto. destruct (Z.eqb_spec x a); intuition congruence.
Qed.

Lemma ones_set_false : forall las a, 0 <= a < Z.of_nat (length las) ->
  las_ones (set_nth las (Z.to_nat a) false) = filter (fun x => negb (x =? a)) (las_ones las).
Proof.
  intros las a Ha. apply sorted_ext; [apply las_ones_sorted|apply sorted_filter, las_ones_sorted|].
  intros x. rewrite In_las_ones, filter_In, In_las_ones, negb_true_iff. unfold active.
  rewrite activeb_set by auto. destruct (Z.eqb_spec x a); intuition congruence.
Qed.

Definition op_dom (o : op) : Prop :=
  match o with OpW sa da => 0 <= sa /\ 0 <= da | _ => True end.

Lemma step_oracle_sound : forall r o r',
  length (r_las r) = 128%nat -> 0 <= r_ts r < 128 -> op_dom o -> step r o = Ok r' ->
  c02_step_ok (r_ts r) (observe r) o (observe r') = true.
Proof.
  intros r o r' W Ht D E. unfold c02_step_ok, observe. cbn [o_state o_ready o_las o_ns o_ps].
  destruct (debug_active r) as [l1| |]; auto. destruct (debug_active r') as [l2| |]; auto.
  rewrite !ready_state, Bool.eqb_reflx. cbn [andb].
  destruct o as [sa da| |a|a]; simpl in E, D.
  - destruct D as [D1 D2].
    destruct (witness_cases r sa da r' W D1 D2 E) as [[B Q]|[B Q]].
    + subst r'. rewrite B. destruct (r_state r); try apply obs_eqb_refl; reflexivity.
    + rewrite B. unfold bad_addrb in B. apply orb_false_iff in B. destruct B as [B1 B2].
      apply Z.ltb_ge in B1. apply Z.ltb_ge in B2.
      assert (Wr : is_wrapb (sa, da) = (da <=? sa)).
      { unfold is_wrapb. destruct (Z.leb_spec sa 125); destruct (Z.leb_spec da 125); try lia; reflexivity. }
      rewrite Wr in Q.
      assert (LA : las_ones (r_las (upd r sa da)) = las_after_pass (las_ones (r_las r)) sa da).
      { destruct (upd_fields r sa da) as [L _]. rewrite L. apply ones_las_after; auto; lia. }
      assert (SU : r_state (upd r sa da) = r_state r) by apply upd_fields.
      destruct (r_state r) eqn:St.
      * subst r'. destruct (da <=? sa); simpl; rewrite ?St; reflexivity.
      * subst r'. destruct (da <=? sa); cbn [with_state r_las r_state]; rewrite LA, list_eqb_refl, ?SU; reflexivity.
      * destruct Q as [[V Q]|[V Q]].
        -- rewrite (proj2 (verifiesb_spec _ _ _) V). subst r'.
           destruct (da <=? sa); cbn [with_state r_las r_state]; rewrite list_eqb_refl, ?St; reflexivity.
        -- destruct (verifiesb (las_ones (r_las r)) sa da) eqn:VB;
             [exfalso; apply V; apply verifiesb_spec; exact VB|].
           subst r'. cbn [with_state r_las r_state]. rewrite LA, list_eqb_refl. reflexivity.
      * subst r'. rewrite SU, LA, list_eqb_refl. cbn [state_eqb andb].
        destruct (verifiesb (las_ones (r_las r)) sa da) eqn:VB; auto. cbn [negb orb].
        apply verifiesb_spec in VB. rewrite <- LA. destruct (upd_fields r sa da) as [L _]. rewrite L.
        rewrite las_after_verified by (auto; lia). apply list_eqb_refl.
  - inversion E; subst r'. cbn [claim_token with_state r_state r_las].
    destruct (r_state r); cbn [state_eqb andb]; try reflexivity; apply list_eqb_refl.
  - destruct (Z_le_dec 0 a) as [A1|A1]; [|rewrite set_next_station_panics in E by lia; discriminate].
    destruct (Z_lt_dec a 128) as [A2|A2]; [|rewrite set_next_station_panics in E by lia; discriminate].
    rewrite set_next_station_ok in E by (auto; lia). inversion E; subst r'. clear E.
    set (r1 := mkRing (set_nth (r_las r) (Z.to_nat a) true) (r_state r) (r_ts r) (r_ns r) (r_ps r)).
    destruct (upd_fields r1 (r_ts r) a) as [L [S _]]. rewrite S, L. unfold r1. cbn [r_state r_las].
    rewrite ones_las_after by (rewrite ?set_nth_length; auto; lia).
    rewrite ones_set_true by (rewrite W; lia).
    destruct (r_state r); cbn [state_eqb andb]; try reflexivity; apply list_eqb_refl.
  - destruct (Z_le_dec 0 a) as [A1|A1]; [|rewrite remove_station_panics in E by lia; discriminate].
    destruct (Z_lt_dec a 128) as [A2|A2]; [|rewrite remove_station_panics in E by lia; discriminate].
    rewrite remove_station_ok in E by lia. inversion E; subst r'. clear E.
    unfold update_next_previous. cbn [r_state r_las].
    rewrite ones_set_false by (rewrite W; lia).
    destruct (r_state r); cbn [state_eqb andb]; try reflexivity; apply list_eqb_refl.
Qed.

Lemma nsps_oracle_sound : forall ts ops r0 r, ring_new ts = Ok r0 -> run r0 ops = Ok r ->
  c02_nsps_ok ts (observe r) = true.
Proof.
  intros ts ops r0 r E0 E. destruct (ns_ps_invariant ts ops r0 r E0 E) as [_ [N P]].
  unfold c02_nsps_ok, observe. cbn [o_state o_las o_ns o_ps].
  assert (Q : cyc_nextb (las_ones (r_las r)) ts (r_ns r) && cyc_prevb (las_ones (r_las r)) ts (r_ps r) = true).
  { apply andb_true_iff. split; [apply cyc_nextb_spec|apply cyc_prevb_spec]; auto. }
  destruct (debug_active r); auto. destruct (r_state r); auto.
Qed.
