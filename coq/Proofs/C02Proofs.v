(* Proofs of the C02 data-structure theorems about Model/TokenRing.v. *)
From PB Require Import Common TokenRing LasOracle LasRep.
From Coq Require Import Sorted.

Definition wf (r : ring) : Prop := length (r_las r) = 128%nat.

(* the LAS bit array after update_las_from_token_pass(sa, da) *)
Definition las_after (las : list bool) (sa da : Z) : list bool :=
  set_nth
    (if sa <? da then fill_from las (Z.to_nat sa) (Z.to_nat (da - sa)) false
     else fill_from (fill_from las (Z.to_nat sa) (Z.to_nat (128 - sa)) false)
                    (Z.to_nat 0) (Z.to_nat (da - 0)) false)
    (Z.to_nat sa) true.

Definition upd (r : ring) (sa da : Z) : ring :=
  update_next_previous (mkRing (las_after (r_las r) sa da) (r_state r) (r_ts r) (r_ns r) (r_ps r)).

Lemma las_after_length : forall las sa da, length (las_after las sa da) = length las.
Proof.
  intros. unfold las_after. rewrite set_nth_length.
  destruct (sa <? da); rewrite ?fill_from_length; reflexivity.
Qed.

Lemma activeb_las_after : forall las sa da a,
  length las = 128%nat -> 0 <= sa < 128 -> 0 <= da <= 128 ->
  activeb (las_after las sa da) a = (a =? sa) || (activeb las a && negb (in_gapb sa da a)).
Proof.
  intros las sa da a HL Hs Hd. unfold las_after, in_gapb.
  destruct (Z.ltb_spec sa da) as [L|L].
  - rewrite activeb_set by (rewrite fill_from_length; lia).
    rewrite activeb_fill by lia.
    destruct (Z.eqb_spec a sa); simpl; auto.
    destruct ((sa <=? a) && (a <? da)); simpl; [rewrite andb_false_r|rewrite andb_true_r]; reflexivity.
  - rewrite activeb_set by (rewrite !fill_from_length; lia).
    change (Z.to_nat 0) with (Z.to_nat 0).
    rewrite (activeb_fill _ 0 da) by (rewrite ?fill_from_length; lia).
    replace (Z.to_nat (128 - sa)) with (Z.to_nat (128 - sa)) by reflexivity.
    rewrite (activeb_fill _ sa 128) by lia.
    destruct (Z.eqb_spec a sa); simpl; auto.
    destruct (Z.leb_spec 0 a); destruct (Z.ltb_spec a da); destruct (Z.leb_spec sa a);
      destruct (Z.ltb_spec a 128); simpl; rewrite ?andb_false_r, ?andb_true_r; try reflexivity; try lia.
    all: unfold activeb; destruct (Z.leb_spec 0 a); simpl; auto; apply nth_overflow; lia.
Qed.

Lemma update_las_ok : forall r sa da, wf r -> 0 <= sa < 128 -> 0 <= da <= 128 ->
  update_las r sa da = Ok (upd r sa da).
Proof.
  intros r sa da W Hs Hd. unfold update_las, upd, las_after, las_fill, las_set.
  destruct (Z.ltb_spec sa da) as [L|L].
  - destruct (Z.leb_spec 0 sa); destruct (Z.leb_spec sa da); destruct (Z.leb_spec da 128); try lia.
    destruct (Z.ltb_spec sa 128); try lia. reflexivity.
  - destruct (Z.leb_spec 0 sa); destruct (Z.leb_spec sa 128); destruct (Z.leb_spec 128 128); try lia.
    destruct (Z.leb_spec 0 0); destruct (Z.leb_spec 0 da); destruct (Z.leb_spec da 128); try lia.
    destruct (Z.ltb_spec sa 128); try lia. reflexivity.
Qed.

Lemma upd_wf : forall r sa da, wf r -> wf (upd r sa da).
Proof. intros. unfold wf, upd. simpl. rewrite las_after_length. exact H. Qed.

Lemma upd_fields : forall r sa da,
  r_las (upd r sa da) = las_after (r_las r) sa da /\ r_state (upd r sa da) = r_state r /\
  r_ts (upd r sa da) = r_ts r /\
  r_ns (upd r sa da) = next_of (las_ones (las_after (r_las r) sa da)) (r_ts r) /\
  r_ps (upd r sa da) = prev_of (las_ones (las_after (r_las r) sa da)) (r_ts r).
Proof. intros. unfold upd, update_next_previous. simpl. auto. Qed.

(* ------------------------------------------------------------------ verify_las *)

Lemma las_get_ok : forall las i, 0 <= i < 128 -> las_get las i = Ok (activeb las i).
Proof.
  intros las i H. unfold las_get, activeb.
  destruct (Z.leb_spec 0 i); destruct (Z.ltb_spec i 128); try lia. reflexivity.
Qed.

Lemma verify_las_spec : forall r sa da, wf r -> 0 <= sa < 128 -> 0 <= da < 128 ->
  exists b, verify_las r sa da = Ok b /\ (b = true <-> verifies (r_las r) sa da).
Proof.
  intros r sa da W Hs Hd. unfold verify_las, verifies, strictly_between.
  rewrite !las_get_ok by lia. simpl bind.
  destruct (activeb (r_las r) sa) eqn:A; simpl.
  2:{ exists false. split; auto. split; [discriminate|]. unfold active. rewrite A. intros [Q _]. discriminate. }
  destruct (activeb (r_las r) da) eqn:B; simpl.
  2:{ exists false. split; auto. split; [discriminate|]. unfold active. rewrite B. intros [_ [Q _]]. discriminate. }
  destruct (Z.ltb_spec sa da) as [L|L].
  - destruct (las_any_spec (r_las r) (sa + 1) da) as [x [E X]]; try lia; auto.
    rewrite E. simpl. exists (negb x). split; auto. split.
    + intros N. apply negb_true_iff in N. split; auto. split; auto.
      intros y Hy Q. assert (x = true) by (apply X; exists y; split; [lia|auto]). congruence.
    + intros [_ [_ H]]. apply negb_true_iff. destruct x; auto.
      destruct (proj1 X eq_refl) as [y [Hy1 Hy2]]. exfalso. apply (H y Hy2). lia.
  - destruct (las_any_spec (r_las r) (sa + 1) 128) as [x [E X]]; try lia; auto.
    rewrite E. simpl. destruct x.
    + exists false. split; auto. split; [discriminate|]. intros [_ [_ H]].
      destruct (proj1 X eq_refl) as [y [Hy1 Hy2]]. exfalso. apply (H y Hy2). lia.
    + destruct (las_any_spec (r_las r) 0 da) as [z [E2 Z2]]; try lia; auto.
      rewrite E2. simpl. exists (negb z). split; auto. split.
      * intros N. apply negb_true_iff in N. split; auto. split; auto.
        intros y Hy Q. pose proof (active_range _ _ Hy) as Ry. rewrite W in Ry.
        destruct Q as [Q|Q].
        -- assert (false = true) by (apply X; exists y; split; [lia|auto]). discriminate.
        -- assert (z = true) by (apply Z2; exists y; split; [lia|auto]). congruence.
      * intros [_ [_ H]]. apply negb_true_iff. destruct z; auto.
        destruct (proj1 Z2 eq_refl) as [y [Hy1 Hy2]]. exfalso. apply (H y Hy2). lia.
Qed.

Lemma verify_las_true : forall r sa da, wf r -> 0 <= sa < 128 -> 0 <= da < 128 ->
  verifies (r_las r) sa da -> verify_las r sa da = Ok true.
Proof.
  intros r sa da W Hs Hd V. destruct (verify_las_spec r sa da W Hs Hd) as [b [E B]].
  rewrite E. f_equal. apply B. exact V.
Qed.

Lemma verify_las_false : forall r sa da, wf r -> 0 <= sa < 128 -> 0 <= da < 128 ->
  ~ verifies (r_las r) sa da -> verify_las r sa da = Ok false.
Proof.
  intros r sa da W Hs Hd V. destruct (verify_las_spec r sa da W Hs Hd) as [b [E B]].
  rewrite E. f_equal. destruct b; auto. exfalso. apply V. apply B. reflexivity.
Qed.

(* ------------------------------------------------------------------ witness, state by state *)

Lemma witness_bad : forall r sa da, 125 < sa \/ 125 < da -> witness r sa da = Ok r.
Proof.
  intros r sa da H. unfold witness.
  destruct (Z.ltb_spec 125 sa); auto. destruct (Z.ltb_spec 125 da); auto. lia.
Qed.

Lemma witness_good : forall r sa da, wf r -> 0 <= sa <= 125 -> 0 <= da <= 125 ->
  witness r sa da =
  match r_state r with
  | LasUninitialized => if da <=? sa then Ok (with_state r LasDiscovery) else Ok r
  | LasDiscovery => Ok (if da <=? sa then with_state (upd r sa da) LasVerification else upd r sa da)
  | LasVerification =>
      match verify_las r sa da with
      | Ok true => if da <=? sa then Ok (with_state r LasValid) else Ok r
      | Ok false => Ok (with_state (upd r sa da) LasDiscovery)
      | Panic s => Panic s
      | OutOfFuel => OutOfFuel
      end
  | LasValid => Ok (upd r sa da)
  end.
Proof.
  intros r sa da W Hs Hd. unfold witness.
  destruct (Z.ltb_spec 125 sa); try lia. destruct (Z.ltb_spec 125 da); try lia.
  destruct (r_state r); auto.
  - rewrite update_las_ok by (auto; lia). simpl. destruct (da <=? sa); reflexivity.
  - destruct (verify_las r sa da) as [[|]| |]; simpl; auto.
    rewrite update_las_ok by (auto; lia). reflexivity.
  - apply update_las_ok; auto; lia.
Qed.

Lemma with_state_wf : forall r s, wf r -> wf (with_state r s).
Proof. intros. exact H. Qed.

Lemma witness_total : forall r sa da, wf r -> 0 <= sa -> 0 <= da ->
  exists r', witness r sa da = Ok r' /\ wf r' /\ r_ts r' = r_ts r.
Proof.
  intros r sa da W Hs Hd.
  destruct (Z.ltb_spec 125 sa) as [A|A]; [rewrite witness_bad by lia; eauto|].
  destruct (Z.ltb_spec 125 da) as [B|B]; [rewrite witness_bad by lia; eauto|].
  rewrite witness_good by (auto; lia).
  destruct (r_state r).
  - destruct (da <=? sa); eexists; split; eauto.
  - destruct (da <=? sa); eexists; split; eauto; split; try apply with_state_wf; try apply upd_wf; auto.
  - destruct (verify_las_spec r sa da W) as [b [E _]]; try lia. rewrite E.
    destruct b; [destruct (da <=? sa)|]; eexists; split; eauto.
    split; [apply with_state_wf, upd_wf; auto|reflexivity].
  - eexists; split; eauto. split; [apply upd_wf; auto|reflexivity].
Qed.

(* ------------------------------------------------------------------ no panic *)

Lemma las_set_ok : forall las i v, 0 <= i < 128 -> las_set las i v = Ok (set_nth las (Z.to_nat i) v).
Proof.
  intros. unfold las_set. destruct (Z.leb_spec 0 i); destruct (Z.ltb_spec i 128); try lia. reflexivity.
Qed.

Lemma las_set_panic : forall las i v, ~ 0 <= i < 128 -> las_set las i v = Panic SiteIndex.
Proof.
  intros. unfold las_set. destruct (Z.leb_spec 0 i); destruct (Z.ltb_spec i 128); try lia; reflexivity.
Qed.

Lemma ring_new_ok : forall a, 0 <= a < 128 ->
  exists r, ring_new a = Ok r /\ wf r /\ r_ts r = a /\ r_state r = LasUninitialized /\
            r_ns r = a /\ r_ps r = a /\ las_ones (r_las r) = [a].
Proof.
  intros a H. unfold ring_new. rewrite las_set_ok by lia. cbn [bind].
  eexists. split; [reflexivity|]. unfold wf. cbn [r_las r_ts r_state r_ns r_ps].
  split; [rewrite set_nth_length, repeat_length; reflexivity|].
  repeat split; auto.
  apply sorted_ext; [apply las_ones_sorted|constructor; constructor|].
  intros x. rewrite In_las_ones. unfold active.
  rewrite activeb_set by (rewrite repeat_length; unfold las_size; lia).
  destruct (Z.eqb_spec x a); [subst; simpl; tauto|].
  unfold activeb. split; [|intros [Q|[]]; congruence].
  intros Q. apply andb_true_iff in Q. destruct Q as [_ Q].
  exfalso. revert Q. generalize (Z.to_nat x). unfold las_size.
  intros k. destruct (Nat.lt_ge_cases k 128) as [L|L].
  - rewrite nth_repeat. discriminate.
  - rewrite nth_overflow by (rewrite repeat_length; lia). discriminate.
Qed.

Lemma set_next_station_ok : forall r a, wf r -> 0 <= r_ts r < 128 -> 0 <= a < 128 ->
  set_next_station r a =
  Ok (upd (mkRing (set_nth (r_las r) (Z.to_nat a) true) (r_state r) (r_ts r) (r_ns r) (r_ps r)) (r_ts r) a).
Proof.
  intros r a W Ht Ha. unfold set_next_station. rewrite las_set_ok by lia. simpl.
  rewrite update_las_ok; auto; try (simpl; lia).
  unfold wf. simpl. rewrite set_nth_length. exact W.
Qed.

Lemma remove_station_ok : forall r a, 0 <= a < 128 ->
  remove_station r a =
  Ok (update_next_previous (mkRing (set_nth (r_las r) (Z.to_nat a) false) (r_state r) (r_ts r) (r_ns r) (r_ps r))).
Proof. intros r a Ha. unfold remove_station. rewrite las_set_ok by lia. reflexivity. Qed.

Lemma step_total : forall r o, wf r -> 0 <= r_ts r < 128 ->
  match o with
  | OpW sa da => 0 <= sa /\ 0 <= da
  | OpC => True
  | OpN a | OpR a => 0 <= a < 128
  end ->
  exists r', step r o = Ok r' /\ wf r' /\ r_ts r' = r_ts r.
Proof.
  intros r o W Ht Ho. destruct o as [sa da| |a|a]; simpl.
  - apply witness_total; tauto.
  - eexists; split; eauto.
  - rewrite set_next_station_ok by auto. eexists; split; eauto. split; [|reflexivity].
    apply upd_wf. unfold wf. simpl. rewrite set_nth_length. exact W.
  - rewrite remove_station_ok by auto. eexists; split; eauto. split; [|reflexivity].
    unfold wf. simpl. rewrite set_nth_length. exact W.
Qed.

Lemma run_total : forall ops r, wf r -> 0 <= r_ts r < 128 ->
  Forall (fun o => match o with
                   | OpW sa da => 0 <= sa /\ 0 <= da
                   | OpC => True
                   | OpN a | OpR a => 0 <= a < 128
                   end) ops ->
  exists r', run r ops = Ok r' /\ wf r' /\ r_ts r' = r_ts r.
Proof.
  induction ops as [|o t IH]; intros r W Ht F; simpl.
  - eauto.
  - inversion F as [|? ? Fo Ft]; subst.
    destruct (step_total r o W Ht Fo) as [r1 [E [W1 T1]]]. rewrite E. simpl.
    destruct (IH r1 W1) as [r' [E' [W' T']]]; auto; try lia.
    exists r'. split; auto. split; auto. lia.
Qed.

Lemma no_panic_run : forall ts ops, c02_nopanic_dom ts ops = true ->
  exists r0 r, ring_new ts = Ok r0 /\ run r0 ops = Ok r /\ r_ts r = ts /\ length (r_las r) = 128%nat.
Proof.
  intros ts ops H. unfold c02_nopanic_dom in H.
  apply andb_true_iff in H. destruct H as [H F]. apply andb_true_iff in H. destruct H as [H1 H2].
  apply Z.leb_le in H1. apply Z.ltb_lt in H2.
  destruct (ring_new_ok ts) as [r0 [E [W [T _]]]]; [lia|].
  destruct (run_total ops r0 W) as [r [E' [W' T']]]; [lia| |].
  - rewrite forallb_forall in F. apply Forall_forall. intros o Ho. specialize (F o Ho).
    destruct o; auto.
    + repeat (apply andb_true_iff in F; destruct F as [F ?]). apply Z.leb_le in F. zb; try discriminate. lia.
    + apply andb_true_iff in F. destruct F as [F1 F2]. apply Z.leb_le in F1. apply Z.ltb_lt in F2. lia.
    + apply andb_true_iff in F. destruct F as [F1 F2]. apply Z.leb_le in F1. apply Z.ltb_lt in F2. lia.
  - exists r0, r. repeat split; auto. lia.
Qed.

Lemma set_next_station_panics : forall r a, ~ 0 <= a < 128 -> set_next_station r a = Panic SiteIndex.
Proof. intros. unfold set_next_station. rewrite las_set_panic by auto. reflexivity. Qed.

Lemma remove_station_panics : forall r a, ~ 0 <= a < 128 -> remove_station r a = Panic SiteIndex.
Proof. intros. unfold remove_station. rewrite las_set_panic by auto. reflexivity. Qed.

Lemma ring_new_panics : forall a, ~ 0 <= a < 128 -> ring_new a = Panic SiteIndex.
Proof. intros. unfold ring_new. rewrite las_set_panic by auto. reflexivity. Qed.
