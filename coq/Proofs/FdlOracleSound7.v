(* FDL oracle soundness, part 7: the successor rules of C12.  A state that awaits a GAP reply is entered only with
   the request (await_entry); what a poll in such a state does with the head of the receive buffer (PO), against
   the verdict of the second monitor (RC); the invariant GX between the station and g_wait / g_expect; theorem
   c12_oracle_sound_partial for R12_gap_poll_outside_gap, R12_two_gap_polls_per_visit, R12_found_not_successor,
   R12_found_not_next_token, R12_successor_changed_without_ready_reply. *)
From Coq Require Import Arith.
From PB Require Import Common Tables FdlTables Telegram Phy TokenRing Params Fdl FdlOracle FdlProofs FdlStepProofs.
From PB Require Import C05Proofs C01Proofs C11Proofs C15Proofs C13Proofs C12Proofs.
From PB Require Import FdlOracleSound1 FdlOracleSound2 FdlOracleSound3 FdlOracleSound4 FdlOracleSound5.
From PB Require Import FdlOracleSound6.

Section AwaitEntry2.
Variable A : Type.
Variable ops : app_ops A.
Notation W := (world A).

Lemma heard_not_awaiting s a : heard_kind s -> ~ awaiting_state s a.
Proof. intros H [E|E]; rewrite E in H; exact H. Qed.

Lemma do_active_idle_not_awaiting f now (w : W) f' w' a :
  do_active_idle A f now w = Ok (f', w') -> ~ awaiting_state (f_state f') a.
Proof.
  intros H. unfold do_active_idle, assert_entry in H.
  destruct (f_state f) as [ | | |sr nps cc| | | | | | ] eqn:Es; cbn [kind_of do_fn_entry state_kind_eqb bind] in H; try discriminate H.
  destruct (handle_lost_token A f now w) as [[[f0 w0] d]| |] eqn:Eh; cbn [bind] in H; try discriminate H.
  destruct d.
  - injection H as <- <-. apply early_claim_not_awaiting. exact (handle_lost_token_claims _ _ _ _ _ _ Eh).
  - assert (Hs0 : f_state f0 = f_state f).
    { unfold handle_lost_token in Eh.
      destruct (lba_get_or_insert f now) as [l fx] eqn:El. destruct (inst_diff now l); cbn [bind] in Eh; try discriminate Eh.
      match type of Eh with (if ?c then _ else _) = _ => destruct c end.
      - match type of Eh with context [trans A ?a ?b ?c] => destruct (trans A a b c) as [[fy wy]| |] end; cbn [bind] in Eh; try discriminate Eh.
        destruct (do_claim_token A fy now wy) as [[fz wz]| |]; cbn [bind] in Eh; discriminate Eh.
      - injection Eh as <- _. apply lba_get_or_insert_same in El. destruct El as ((_ & _ & _ & _ & Hsx & _) & _). exact Hsx. }
    rewrite Hs0, Es in H. cbn [get_active_idle bind] in H.
    destruct sr as [src|].
    + destruct (wait_synchronization_pause f0 now) as [[f1 wait]| |] eqn:Ew; cbn [bind] in H; try discriminate H.
      apply wait_sync_same in Ew. destruct Ew as [[_ [_ [_ [_ [Hs1 _]]]]] _].
      destruct wait; [injection H as <- <-; rewrite Hs1, Hs0, Es; intros [C|C]; discriminate C|].
      destruct (phy_send A w0 _) as [[w1 k]| |]; cbn [bind] in H; try discriminate H.
      destruct (mark_tx _ now k) as [f2| |] eqn:Em; cbn [bind] in H; try discriminate H.
      injection H as <- <-. apply mark_tx_same in Em. destruct Em as [_ [_ [_ [_ [Hs2 _]]]]].
      rewrite Hs2. cbn. intros [C|C]; discriminate C.
    + unfold receive_all_telegrams in H.
      destruct (receive_all _ _ _ _) as [[[s1 rest] r]| |] eqn:Er; cbn [bind] in H; try discriminate H.
      destruct s1 as [f1 w1]. injection H as <- _.
      assert (Hk : heard_kind (f_state (fst (f1, w1)))).
      { refine (receive_all_inv (fun s : fdl * W => heard_kind (f_state (fst s))) (active_idle_telegram A now) _ _ (f0, w0) _ (f1, w1) rest r _ Er).
        - intros s t il s' u Hp Hc. exact (active_idle_telegram_heard A now s t il s' u Hp Hc).
        - cbn [fst]. rewrite Hs0, Es. exact I. }
      cbn [fst] in Hk. apply heard_not_awaiting. cbn. exact Hk.
Qed.

(* a poll that begins without the token does not end in a state that awaits a GAP reply *)
Lemma idle_poll_not_awaiting f now pin (apps : list A) f' o apps' calls a :
  poll ops f now pin apps = Ok (f', o, apps', calls) -> have_token (f_state f) = false -> in_pass (f_state f) = false ->
  ~ awaiting_state (f_state f') a.
Proof.
  intros H Hht Hip. apply (C11Proofs.poll_inv A ops) in H. destruct H as (w' & H & _).
  apply (C11Proofs.poll_inner_cases A ops) in H.
  destruct H as [(_ & Hs & -> & _)|(_ & f0 & w0 & Hpro & Hb)]; [rewrite Hs; intros [C|C]; discriminate C|].
  assert (Hk0 : have_token (f_state f0) = false /\ in_pass (f_state f0) = false).
  { destruct Hpro as [f1 w1|f1 w1 s' _ _ [(-> & _)| ->]]; [split; assumption|split; reflexivity|split; reflexivity]. }
  unfold C11Proofs.body in Hb.
  destruct (tx_busy pin || predicted f0 now).
  - injection Hb as <- _. destruct (mark_bus_activity_sblp f0 now) as (_ & _ & _ & _ & Hs & _). rewrite Hs.
    intros [C|C]; rewrite C in Hk0; destruct Hk0 as (Hk0 & _); discriminate Hk0.
  - destruct (check_for_bus_activity A f0 now w0) as [f1 w1] eqn:Ec.
    apply cfba_spec in Ec. destruct Ec as ((_ & _ & _ & _ & Hs1 & _) & _).
    unfold C11Proofs.dispatch in Hb.
    rewrite <- Hs1 in Hk0.
    destruct Hk0 as (Hk0 & Hk1).
    destruct (f_state f1) eqn:Es1; cbn in Hk0, Hk1; try discriminate Hk0; try discriminate Hk1; cbn [kind_of poll_dispatch] in Hb; try discriminate Hb.
    + eapply do_listen_token_not_awaiting; exact Hb.
    + eapply do_active_idle_not_awaiting; exact Hb.
Qed.

(* do_use_token: a state that awaits a GAP reply is entered with the request *)
Lemma do_use_token_await_entry f now (w : W) f' w' a :
  do_use_token A ops f now w = Ok (f', w') -> awaiting_state (f_state f') a -> w_tx w' <> None.
Proof.
  intros H Haw. pose proof H as H0. rewrite do_use_token_split in H.
  destruct (do_use_token_head A ops f now w) as [[f2 w2]| |] eqn:Eh; cbn [bind] in H; try discriminate H.
  assert (Hst : exists tk fa fcd, f_state f = UseToken tk fa fcd).
  { unfold do_use_token, assert_entry in H0. destruct (f_state f); cbn in H0; try discriminate H0. eauto. }
  destruct Hst as (tk & fa & fcd & Es).
  destruct (do_use_token_head_state A ops _ _ _ _ _ _ _ _ Eh Es) as (_ & _ & Hst2).
  destruct (is_pass_token (f_state f2)) eqn:Ep.
  - destruct (C12Proofs.do_pass_token_spec A _ _ _ _ _ H) as (dg & att & Es2 & _ & _ & _ & _ & _ & [(_ & Hs & _)|[(_ & a1 & _ & _ & _ & _ & _ & Htx)|(_ & _ & _ & _ & [(_ & Hs)|(_ & Hs)])]]).
    + rewrite Hs, Es2 in Haw. destruct Haw as [C|C]; discriminate C.
    + rewrite Htx. discriminate.
    + rewrite Hs in Haw. destruct Haw as [C|C]; discriminate C.
    + rewrite Hs in Haw. destruct Haw as [C|C]; discriminate C.
  - injection H as <- <-. exfalso.
    destruct Hst2 as [(E & _)|[(fa' & E)|[(a1 & fa' & E)|E]]]; try (rewrite E in Haw; try rewrite Es in Haw; destruct Haw as [C|C]; discriminate C).
Qed.

Lemma visit_poll_await_entry f now pin (apps : list A) f' o apps' calls a tk :
  poll ops f now pin apps = Ok (f', o, apps', calls) -> visit_tk (f_state f) = Some tk ->
  awaiting_state (f_state f') a -> tx o <> None.
Proof.
  intros H Htk Haw.
  assert (Hht : have_token (f_state f) = true) by (destruct (f_state f); cbn in Htk; try discriminate Htk; reflexivity).
  destruct (token_poll_split A ops _ _ _ _ _ _ _ _ H Hht) as [(-> & _)|(f1 & w1 & w' & Hs & _ & _ & _ & _ & -> & _ & _ & _ & _ & Hd)].
  - exfalso. destruct (mark_bus_activity_sblp f now) as (_ & _ & _ & _ & Hs & _). rewrite Hs in Haw.
    destruct Haw as [C|C]; rewrite C in Htk; discriminate Htk.
  - cbn [tx]. destruct Hs as (_ & _ & _ & _ & Hs1 & _). unfold C11Proofs.dispatch in Hd.
    destruct (f_state f) eqn:Es; cbn in Htk; try discriminate Htk; rewrite Hs1 in Hd; cbn [kind_of poll_dispatch] in Hd.
    + eapply do_use_token_await_entry; eassumption.
    + apply (do_await_data_response_split A ops) in Hd.
      destruct Hd as (a1 & tk1 & fa1 & ap & _ & _ & [(t & ap' & _ & _ & _ & _ & _ & E)|[(_ & _ & E)|[(_ & _ & E)|(ap' & f3 & w3 & _ & _ & _ & _ & _ & Hdo)]]]).
      * exfalso. rewrite E in Haw. destruct Haw as [C|C]; discriminate C.
      * exfalso. rewrite E in Haw. destruct Haw as [C|C]; discriminate C.
      * exfalso. rewrite E, Hs1 in Haw. destruct Haw as [C|C]; discriminate C.
      * eapply do_use_token_await_entry; eassumption.
Qed.

End AwaitEntry2.

(* ------------------------------------------------------------------------------------------ *)
(* whole polls in the states that await a GAP reply / scan after a claim                          *)

Section PollFacts.
Variable A : Type.
Variable ops : app_ops A.
Variable n : nat.
Notation W := (world A).

Definition scan_like (s : state) : Prop :=
  s = ClaimToken StepScan \/ (exists a, s = ClaimToken (StepScanAwaitResponse a)) \/
  s = PassToken false AttFirst \/ s = ActiveIdle None None 0.

(* outcome of a poll in a state that awaits the GAP reply of a0, in terms of the PHY buffer; `fs`: the state
   after a reply of the polled station *)
Definition PO (f : fdl) (rxb : bytes) (a0 : Z) (f' : fdl) (rxl : bytes) (fs : state) : Prop :=
  (rxl = rxb /\ r_ns (f_ring f') = r_ns (f_ring f)) \/
  ((forall t k, decode rxb = Ok (Accept t k) ->
      rxl = skipn k rxb /\
      (is_master_ready_reply (ts f) a0 t -> r_ns (f_ring f') = a0 /\ f_state f' = fs) /\
      (~ is_master_ready_reply (ts f) a0 t -> r_ns (f_ring f') = r_ns (f_ring f))) /\
   ((forall t k, decode rxb <> Ok (Accept t k)) -> r_ns (f_ring f') = r_ns (f_ring f))).

Lemma sblp_ring_ok f f1 : same_but_lba_pending f f1 -> ring_ok (f_ring f) (ts f) -> ring_ok (f_ring f1) (ts f1).
Proof. intros (Hp & Hr & _) H. unfold ts. rewrite Hp, Hr. exact H. Qed.

Lemma sblp_ts f f1 : same_but_lba_pending f f1 -> ts f1 = ts f.
Proof. intros (Hp & _). unfold ts. rewrite Hp. reflexivity. Qed.

Lemma claim_poll_facts f now pin (apps : list A) f' o apps' calls st :
  poll ops f now pin apps = Ok (f', o, apps', calls) -> f_state f = ClaimToken st -> Rep n f ->
  (forall a, awaiting_state (f_state f') a -> tx o = None -> f_state f' = f_state f) /\
  match st with
  | StepScanAwaitResponse a0 => PO f (rx pin) a0 f' (rx_left o) (ClaimToken StepScan) /\ scan_like (f_state f')
  | StepScan => r_ns (f_ring f') = r_ns (f_ring f) /\ rx_left o = rx pin /\ scan_like (f_state f')
  | _ => r_ns (f_ring f') = r_ns (f_ring f) /\ rx_left o = rx pin
  end.
Proof.
  intros H Es R.
  assert (Hht : have_token (f_state f) = true) by (rewrite Es; reflexivity).
  destruct (token_poll_split A ops _ _ _ _ _ _ _ _ H Hht) as [(-> & Htx & _ & _ & Hrx)|(f1 & w1 & w' & Hs & Htx1 & _ & _ & Hrx1 & -> & _ & _ & _ & _ & Hd)].
  - destruct (mark_bus_activity_sblp f now) as (_ & Hr & _ & _ & Hs & _). split; [intros a _ _; exact Hs|].
    unfold PO. rewrite Hr, Hrx, Hs, Es. destruct st as [ | | |a0].
    + split; reflexivity.
    + split; reflexivity.
    + split; [reflexivity|]. split; [reflexivity|]. left. reflexivity.
    + split; [left; split; reflexivity|]. right. left. exists a0. reflexivity.
  - cbn [tx rx_left]. pose proof (sblp_ring_ok _ _ Hs (rep_ring _ _ R)) as Hring1. pose proof (sblp_ts _ _ Hs) as Hts1.
    pose proof (Rep_ts _ _ R) as (Hts & _).
    destruct Hs as (Hp1 & Hr1 & _ & _ & Hs1 & _).
    unfold C11Proofs.dispatch in Hd. rewrite Hs1, Es in Hd. cbn [kind_of poll_dispatch] in Hd.
    assert (Es1 : f_state f1 = ClaimToken st) by congruence.
    pose proof (do_claim_token_outcome A _ _ _ _ _ _ Hd Es1 Htx1 Hring1 ltac:(rewrite Hts1; lia)) as Hout.
    destruct (C12Proofs.do_claim_token_spec A _ _ _ _ _ Hd) as (st0 & Es0 & _ & _ & _ & _ & Hspec).
    rewrite Es1 in Es0. injection Es0 as <-. rewrite Hs1 in Hspec. unfold PO. rewrite <- Hr1, <- Hrx1, Es.
    destruct st as [ | | |a0].
    + split; [|exact Hout]. intros a Haw _. exfalso.
      destruct Hspec as (_ & [(_ & E & _)|(_ & _ & E & _)]); rewrite E in Haw; try rewrite Es in Haw; destruct Haw as [C|C]; discriminate C.
    + split; [|exact Hout]. intros a Haw _. exfalso.
      destruct Hspec as (_ & [(_ & E & _)|(_ & _ & E & _)]); rewrite E in Haw; try rewrite Es in Haw; destruct Haw as [C|C]; discriminate C.
    + destruct Hout as (Hns & Hrx). split; [|split; [exact Hns|split; [exact Hrx|]]].
      * intros a Haw Hn. destruct Hspec as (_ & _ & [(_ & E & _)|[(_ & _ & _ & E)|[(_ & cur & _ & _ & _ & E)|(cur & a1 & _ & _ & _ & _ & _ & Htx)]]]); try (rewrite E; try rewrite Es; reflexivity).
        -- exfalso. rewrite E in Haw. destruct Haw as [C|C]; discriminate C.
        -- rewrite Htx in Hn. discriminate Hn.
      * destruct Hspec as (_ & _ & [(_ & E & _)|[(_ & _ & _ & E)|[(_ & cur & _ & _ & _ & E)|(cur & a1 & _ & _ & _ & E & _)]]]).
        -- left. rewrite E, Es. reflexivity.
        -- right. right. left. exact E.
        -- left. rewrite E, Es. reflexivity.
        -- right. left. exists a1. exact E.
    + destruct Hspec as (_ & _ & rest & received & Hrecv & Hrest & Hcases).
      split; [|split].
      * intros a Haw Hn.
        destruct Hcases as [(_ & _ & E & _)|[(t & _ & _ & _ & E & _)|[(t & _ & _ & _ & E & _)|(_ & _ & [(_ & E & _)|[(_ & _ & _ & E)|(a1 & _ & _ & _ & _ & Htx)]])]]];
          try (rewrite E in Haw; try rewrite Es in Haw; destruct Haw as [C|C]; try discriminate C).
        -- rewrite E, Es. reflexivity.
        -- rewrite Htx in Hn. discriminate Hn.
      * right. destruct Hout as (Ho1 & Ho2). split; [|exact Ho2].
        intros t k Hdec. destruct (Ho1 t k Hdec) as (X1 & X2 & X3). rewrite Hts1 in X2, X3.
        split; [exact X1|]. split; [|exact X3].
        intros Hm. split; [exact (X2 Hm)|].
        rewrite (receive_accept _ _ _ Hdec) in Hrecv. injection Hrecv as <- <-.
        rewrite Hts1 in Hcases.
        destruct Hcases as [(C & _)|[(t0 & Et & _ & _ & E & _)|[(t0 & Et & Hnf & _)|(C & _)]]]; try discriminate C.
        -- exact E.
        -- injection Et as <-. exfalso. apply Hnf. apply master_ready_is_reply. exact Hm.
      * destruct Hcases as [(_ & _ & E & _)|[(t & _ & _ & _ & E & _)|[(t & _ & _ & _ & E & _)|(_ & _ & [(_ & E & _)|[(_ & _ & _ & E)|(a1 & _ & _ & E & _)]])]]].
        -- right. left. exists a0. rewrite E, Es. reflexivity.
        -- left. exact E.
        -- right. right. right. exact E.
        -- left. exact E.
        -- left. exact E.
        -- right. left. exists a1. exact E.
Qed.

Lemma await_poll_facts f now pin (apps : list A) f' o apps' calls a0 :
  poll ops f now pin apps = Ok (f', o, apps', calls) -> f_state f = AwaitStatusResponse a0 -> Rep n f ->
  (forall a, awaiting_state (f_state f') a -> tx o = None -> f_state f' = f_state f) /\
  PO f (rx pin) a0 f' (rx_left o) (PassToken false AttFirst).
Proof.
  intros H Es R.
  assert (Hht : have_token (f_state f) = true) by (rewrite Es; reflexivity).
  destruct (token_poll_split A ops _ _ _ _ _ _ _ _ H Hht) as [(-> & Htx & _ & _ & Hrx)|(f1 & w1 & w' & Hs & Htx1 & _ & _ & Hrx1 & -> & _ & _ & _ & _ & Hd)].
  - destruct (mark_bus_activity_sblp f now) as (_ & Hr & _ & _ & Hs & _). split; [intros a _ _; exact Hs|].
    left. rewrite Hr, Hrx. split; reflexivity.
  - cbn [tx rx_left]. pose proof (sblp_ring_ok _ _ Hs (rep_ring _ _ R)) as Hring1. pose proof (sblp_ts _ _ Hs) as Hts1.
    pose proof (Rep_ts _ _ R) as (Hts & _).
    destruct Hs as (Hp1 & Hr1 & _ & _ & Hs1 & _).
    unfold C11Proofs.dispatch in Hd. rewrite Hs1, Es in Hd. cbn [kind_of poll_dispatch] in Hd.
    assert (Es1 : f_state f1 = AwaitStatusResponse a0) by congruence.
    pose proof (do_await_status_outcome A _ _ _ _ _ _ Hd Es1 Htx1 Hring1 ltac:(rewrite Hts1; lia)) as (Ho1 & Ho2).
    destruct (do_await_status_response_spec A _ _ _ _ _ Hd) as (a1 & Ea1 & _ & _ & _ & _ & _ & _ & _ & rest & received & Hrecv & Hrest & Hcases).
    rewrite Es1 in Ea1. injection Ea1 as <-. rewrite Hs1, Hts1 in Hcases.
    unfold PO. rewrite <- Hr1, <- Hrx1. split.
    + intros a Haw Hn.
      destruct Hcases as [(_ & _ & E & _)|[(t & _ & _ & _ & E & _)|[(t & _ & _ & _ & E & _)|(_ & [(_ & E & _)|(_ & _ & _ & [(_ & E)|(_ & E)])])]]];
        try (rewrite E in Haw; destruct Haw as [C|C]; discriminate C).
      exact E.
    + right. split; [|exact Ho2].
      intros t k Hdec. destruct (Ho1 t k Hdec) as (X1 & X2 & X3). rewrite Hts1 in X2, X3.
      split; [exact X1|]. split; [|exact X3].
      intros Hm. split; [exact (X2 Hm)|].
      rewrite (receive_accept _ _ _ Hdec) in Hrecv. injection Hrecv as <- <-.
      destruct Hcases as [(C & _)|[(t0 & Et & _ & _ & E & _)|[(t0 & Et & Hnf & _)|(C & _)]]]; try discriminate C.
      * exact E.
      * injection Et as <-. exfalso. apply Hnf. apply master_ready_is_reply. exact Hm.
Qed.

(* a state that awaits a GAP reply is entered only with the request *)
Lemma await_entry f now pin (apps : list A) f' o apps' calls a :
  poll ops f now pin apps = Ok (f', o, apps', calls) -> Rep n f ->
  awaiting_state (f_state f') a -> tx o = None -> f_state f' = f_state f.
Proof.
  intros H R Haw Hn.
  destruct (f_state f) as [ | |sr cc|sr nps cc|tk fa fcd|st|a1 tk fa|dg att|att|a0] eqn:Es.
  - exfalso. eapply idle_poll_not_awaiting; [exact H|rewrite Es; reflexivity|rewrite Es; reflexivity|exact Haw].
  - exfalso. eapply idle_poll_not_awaiting; [exact H|rewrite Es; reflexivity|rewrite Es; reflexivity|exact Haw].
  - exfalso. eapply idle_poll_not_awaiting; [exact H|rewrite Es; reflexivity|rewrite Es; reflexivity|exact Haw].
  - exfalso. eapply idle_poll_not_awaiting; [exact H|rewrite Es; reflexivity|rewrite Es; reflexivity|exact Haw].
  - exfalso. eapply (visit_poll_await_entry A ops); [exact H|rewrite Es; reflexivity|exact Haw|exact Hn].
  - destruct (claim_poll_facts _ _ _ _ _ _ _ _ _ H Es R) as (He & _). rewrite <- Es. exact (He a Haw Hn).
  - exfalso. eapply (visit_poll_await_entry A ops); [exact H|rewrite Es; reflexivity|exact Haw|exact Hn].
  - destruct (pass_token_poll A ops _ _ _ _ _ _ _ _ _ _ Es H) as (_ & _ & _ & _ & [(_ & E & _)|[(addr & _ & Htx & _)|(r' & _ & _ & Htx & _)]]).
    + exact E.
    + contradiction.
    + rewrite Htx in Hn. discriminate Hn.
  - exfalso. destruct (check_pass_poll A ops _ _ _ _ _ _ _ _ _ Es H) as (_ & _ & _ & Hc).
    destruct (slot_expired f now pin).
    + destruct Hc as (_ & r1 & _ & [(_ & E & _)|(r' & _ & _ & _ & E)]); rewrite E in Haw.
      * destruct Haw as [C|C]; discriminate C.
      * destruct (r_ns r' =? ts f); destruct Haw as [C|C]; discriminate C.
    + destruct Hc as (_ & _ & Hc). destruct (tx_busy pin || predicted f now).
      * destruct Hc as (E & _). rewrite E in Haw. destruct Haw as [C|C]; discriminate C.
      * destruct (DecodeSpec.decode_spec (rx pin)).
        -- destruct Hc as (E & _). rewrite E in Haw. destruct Haw as [C|C]; discriminate C.
        -- destruct Hc as (E & _). rewrite E in Haw. destruct Haw as [C|C]; discriminate C.
        -- exact (heard_not_awaiting _ _ Hc Haw).
  - destruct (await_poll_facts _ _ _ _ _ _ _ _ _ H Es R) as (He & _). rewrite <- Es. exact (He a Haw Hn).
Qed.

End PollFacts.

(* ------------------------------------------------------------------------------------------ *)
(* C12: the found successor (R12_found_not_successor, R12_successor_changed_without_ready_reply,   *)
(* R12_found_not_next_token)                                                                      *)

Definition readyb (tsa a : Z) (t : telegram) : bool :=
  match t with
  | TData h _ =>
      match h_fc h with
      | FcResponse st status =>
          (h_sa h =? a) && (h_da h =? tsa) && (resp_status_to_byte status =? resp_status_to_byte StOk) && is_ready_master st
      | _ => false
      end
  | _ => false
  end.

Lemma readyb_spec tsa a t : readyb tsa a t = true <-> is_master_ready_reply tsa a t.
Proof.
  unfold readyb, is_master_ready_reply. split.
  - destruct t as [h pdu|da sa| ]; try discriminate. destruct (h_fc h) as [fcb rq|st status] eqn:Efc; try discriminate.
    intros H. apply andb_true_iff in H. destruct H as (H & H4). apply andb_true_iff in H. destruct H as (H & H3).
    apply andb_true_iff in H. destruct H as (H1 & H2). apply Z.eqb_eq in H1, H2.
    exists h, pdu, st. split; [reflexivity|].
    assert (status = StOk) by (destruct status; cbn in H3; try discriminate H3; reflexivity). subst status.
    split; [exact Efc|]. split; [|split; assumption].
    destruct st; cbn in H4; try discriminate H4; auto.
  - intros (h & pdu & st & -> & Hfc & Hst & Hsa & Hda). rewrite Hfc, Hsa, Hda, !Z.eqb_refl. cbn [andb].
    destruct Hst as [-> | ->]; reflexivity.
Qed.

Lemma y_ready_reply_eq p m g s :
  y_ready_reply p m g s =
  y_awaiting m && match g_wait g, y_first s with Some a, Some t => readyb (p_address p) a t | _, _ => false end.
Proof.
  unfold y_ready_reply, readyb, y_ts. destruct (y_awaiting m); [|reflexivity]. cbn [andb].
  destruct (g_wait g) as [a|]; [|reflexivity]. destruct (y_first s) as [[h pdu|da sa| ]|]; reflexivity.
Qed.

Section FirstTel.
Variables (now : Z) (busy : bool) (rxb : bytes) (f' : fdl) (o : phy_out) (calls : list call).
Let s := poll_event now busy rxb f' o calls.

Lemma y_first_untouched : rx_left o = rxb -> y_first s = None.
Proof.
  intros H. unfold y_first. cbn [s poll_event s_rx s_consumed]. rewrite H, Nat.sub_diag.
  destruct (decode rxb) as [[ | |t k]| |] eqn:Ed; try reflexivity.
  apply C16Proofs.decode_accept_bounds in Ed. destruct k; [lia|reflexivity].
Qed.

Lemma y_first_consumed t k : decode rxb = Ok (Accept t k) -> rx_left o = skipn k rxb -> y_first s = Some t.
Proof.
  intros Ed H. unfold y_first. cbn [s poll_event s_rx s_consumed]. rewrite Ed, H, skipn_length.
  apply C16Proofs.decode_accept_bounds in Ed.
  replace (length rxb - (length rxb - k))%nat with k by lia. rewrite Nat.eqb_refl. reflexivity.
Qed.

Lemma y_first_none : (forall t k, decode rxb <> Ok (Accept t k)) -> y_first s = None.
Proof.
  intros H. unfold y_first. cbn [s poll_event s_rx]. destruct (decode rxb) as [[ | |t k]| |] eqn:Ed; try reflexivity.
  exfalso. exact (H t k eq_refl).
Qed.

End FirstTel.

Section GX.
Variable A : Type.
Variable ops : app_ops A.
Variable p : params.
Variable n : nat.
Hypothesis Hdata : app_sends_data A ops.

Definition expect_state (s : state) : Prop :=
  (exists att, s = PassToken false att) \/ s = ClaimToken StepScan \/ exists a1, s = ClaimToken (StepScanAwaitResponse a1).

Record GX (f : fdl) (g : mon2) : Prop := mkGX {
  gx_wait : forall a, awaiting_state (f_state f) a -> g_wait g = Some a;
  gx_expect : forall a, g_expect g = Some a -> r_ns (f_ring f) = a /\ expect_state (f_state f)
}.

(* the verdict of the monitor on the reply, against what the station did with it *)
Definition RC (f f' : fdl) (m : mon) (g : mon2) (s : pstep) : Prop :=
  (y_ready_reply p m g s = true /\ exists a0, g_wait g = Some a0 /\ r_ns (f_ring f') = a0 /\
     (f_state f' = PassToken false AttFirst \/ f_state f' = ClaimToken StepScan)) \/
  (y_ready_reply p m g s = false /\ (y_awaiting m = true -> r_ns (f_ring f') = r_ns (f_ring f))).

Lemma po_rc f rxb a0 f' o fs m g now busy calls :
  PO f rxb a0 f' (rx_left o) fs -> g_wait g = Some a0 -> p_address p = ts f ->
  (fs = PassToken false AttFirst \/ fs = ClaimToken StepScan) ->
  RC f f' m g (poll_event now busy rxb f' o calls).
Proof.
  intros HPO Hw Hts Hfs. unfold RC. rewrite y_ready_reply_eq, Hw.
  destruct HPO as [(Hrx & Hns)|(H1 & H2)].
  - right. rewrite (y_first_untouched _ _ _ _ _ _ Hrx). rewrite andb_false_r. split; [reflexivity|intros _; exact Hns].
  - destruct (decode rxb) as [[ | |t k]| |] eqn:Ed.
    + right. rewrite y_first_none by (intros t k C; rewrite Ed in C; discriminate C). rewrite andb_false_r. split; [reflexivity|].
      intros _. apply H2. intros t k C. discriminate C.
    + right. rewrite y_first_none by (intros t k C; rewrite Ed in C; discriminate C). rewrite andb_false_r. split; [reflexivity|].
      intros _. apply H2. intros t k C. discriminate C.
    + destruct (H1 t k eq_refl) as (X1 & X2 & X3).
      rewrite (y_first_consumed _ _ _ _ _ _ t k Ed X1), Hts.
      destruct (readyb (ts f) a0 t) eqn:Er.
      * apply readyb_spec in Er. destruct (X2 Er) as (Y1 & Y2).
        destruct (y_awaiting m); [left|right].
        -- split; [reflexivity|]. exists a0. split; [reflexivity|]. split; [exact Y1|]. rewrite Y2. exact Hfs.
        -- split; [reflexivity|]. intros C. discriminate C.
      * right. rewrite andb_false_r. split; [reflexivity|]. intros _. apply X3. intros C. apply readyb_spec in C. congruence.
    + right. rewrite y_first_none by (intros t k C; rewrite Ed in C; discriminate C). rewrite andb_false_r. split; [reflexivity|].
      intros _. apply H2. intros t k C. discriminate C.
    + right. rewrite y_first_none by (intros t k C; rewrite Ed in C; discriminate C). rewrite andb_false_r. split; [reflexivity|].
      intros _. apply H2. intros t k C. discriminate C.
Qed.

Lemma rc_poll f apps buf tl m g now busy nb f' o apps' calls :
  Base A p n f apps buf tl m -> GX f g ->
  poll ops f now (mkPhyIn busy (buf ++ nb)) apps = Ok (f', o, apps', calls) ->
  RC f f' m g (poll_event now busy (buf ++ nb) f' o calls).
Proof.
  intros HB [GW GE] E. pose proof (x_k0_base A p n _ _ _ _ _ HB) as Hk0.
  destruct HB as [R Hp Hn Hv Hl Hpd Hb Htl].
  assert (Hts : p_address p = ts f) by (unfold ts; rewrite Hp; reflexivity).
  change (x_k0 m) with (y_k0 m) in Hk0.
  destruct (f_state f) as [ | |sr cc|sr nps cc|tk fa fcd|st|a1 tk fa|dg att|att|a0] eqn:Es;
    try (right; rewrite y_ready_reply_eq; unfold y_awaiting; rewrite Hk0; cbn; split; [reflexivity|intros C; discriminate C]).
  - (* ClaimToken *)
    pose proof (claim_poll_facts A ops _ _ _ _ _ _ _ _ _ _ E Es R) as (_ & Hc). cbn [rx] in Hc.
    assert (Hquiet : r_ns (f_ring f') = r_ns (f_ring f) /\ rx_left o = buf ++ nb -> RC f f' m g (poll_event now busy (buf ++ nb) f' o calls)).
    { intros (Hns & Hrx). right. rewrite y_ready_reply_eq, (y_first_untouched _ _ _ _ _ _ Hrx).
      destruct (g_wait g); rewrite andb_false_r; (split; [reflexivity|intros _; exact Hns]). }
    destruct st as [ | | |a0].
    + exact (Hquiet Hc).
    + exact (Hquiet Hc).
    + apply Hquiet. tauto.
    + destruct Hc as (HPO & _). eapply po_rc; [exact HPO| |exact Hts|right; reflexivity].
      apply GW. right. reflexivity.
  - (* AwaitStatusResponse *)
    pose proof (await_poll_facts A ops _ _ _ _ _ _ _ _ _ _ E Es R) as (_ & HPO). cbn [rx] in HPO.
    eapply po_rc; [exact HPO| |exact Hts|left; reflexivity]. apply GW. left. reflexivity.
Qed.

(* the transmission of the poll as the second monitor reads it *)
Lemma y_tx_none now busy rxb f' o calls :
  tx o = None -> y_token_tx p (poll_event now busy rxb f' o calls) = None /\ y_gap_poll p (poll_event now busy rxb f' o calls) = None.
Proof. intros H. unfold y_token_tx, y_gap_poll, y_txt. cbn [poll_event s_tx]. rewrite H. split; reflexivity. Qed.

Lemma y_token_of_wire now busy rxb f' o calls da :
  tx o = Some (encode_token da (p_address p)) -> y_token_tx p (poll_event now busy rxb f' o calls) = Some da.
Proof.
  intros H. unfold y_token_tx. rewrite (y_txt_tx _ (encode_token da (p_address p))) by (cbn; exact H).
  rewrite decode_one_token. unfold y_ts. rewrite Z.eqb_refl. reflexivity.
Qed.

Lemma y_token_x s da : y_token_tx p s = Some da -> x_token_tx s = Some (da, p_address p).
Proof.
  unfold y_token_tx, x_token_tx. change (y_txt s) with (x_txt s). destruct (x_txt s) as [[h pdu|da' sa| ]|]; try discriminate.
  unfold y_ts. destruct (Z.eqb_spec sa (p_address p)) as [->|]; [|discriminate]. intros H. injection H as <-. reflexivity.
Qed.

Lemma gap_flag f now busy rxb (apps : list A) f' o apps' calls a :
  poll ops f now (mkPhyIn busy rxb) apps = Ok (f', o, apps', calls) -> Rep (length apps) f -> f_p f = p ->
  awaiting_state (f_state f') a -> tx o <> None ->
  y_gap_poll p (poll_event now busy rxb f' o calls) = Some a.
Proof.
  intros E R Hp Haw Htx. pose proof (Rep_ts _ _ R) as Hts.
  destruct (poll_gap_request_in_gap A ops _ _ _ _ _ _ _ _ a E (conj Htx Haw)) as (_ & Hne & _ & Hrng & Hw & (Hns & Hu) & _).
  assert (Hco : gap_cursor_ok f).
  { split; [lia|]. intros c Ec. pose proof (rep_gap _ _ R) as G. rewrite Ec in G. exact G. }
  specialize (Hrng Hco).
  assert (Hwf : wf_header (status_request_header a (ts f))) by (unfold wf_header, is_addr7; cbn; lia).
  unfold y_gap_poll. rewrite (y_txt_tx _ (sr_wire a (ts f))) by (cbn; exact Hw).
  unfold sr_wire. rewrite (decode_one_data _ [] Hwf) by (cbn; lia).
  cbn [poll_event s_calls status_request_header h_fc h_sa h_da is_fdl_status_request].
  rewrite app_sent_conv. rewrite (app_sent_quiet f calls) by (exists calls; split; [reflexivity|split; assumption]).
  unfold y_ts, ts. rewrite Hp, Z.eqb_refl. reflexivity.
Qed.

Definition idle_kinds : list state_kind := [KActiveIdle; KListenToken; KOffline].

Lemma expect_poll f apps buf tl m g now busy nb f' o apps' calls a :
  Base A p n f apps buf tl m -> GX f g ->
  poll ops f now (mkPhyIn busy (buf ++ nb)) apps = Ok (f', o, apps', calls) -> g_expect g = Some a ->
  (forall da, y_token_tx p (poll_event now busy (buf ++ nb) f' o calls) = Some da -> da = a) /\
  (y_token_tx p (poll_event now busy (buf ++ nb) f' o calls) = None ->
   kind_in (kind_of (f_state f')) idle_kinds = false ->
   expect_state (f_state f') /\ (y_awaiting m = false -> r_ns (f_ring f') = r_ns (f_ring f))).
Proof.
  intros HB [GW GE] E He. pose proof (x_k0_base A p n _ _ _ _ _ HB) as Hk0.
  destruct HB as [R Hp Hn Hv Hl Hpd Hb Htl].
  assert (Hts : p_address p = ts f) by (unfold ts; rewrite Hp; reflexivity).
  change (x_k0 m) with (y_k0 m) in Hk0.
  destruct (GE a He) as (Hns & Hes).
  set (s := poll_event now busy (buf ++ nb) f' o calls).
  assert (Hclaim : kind_of (f_state f) = KClaimToken -> scan_like (f_state f') ->
            (f_state f = ClaimToken StepScan \/ exists a1, f_state f = ClaimToken (StepScanAwaitResponse a1)) ->
            (forall da, y_token_tx p s = Some da -> da = a) /\
            (y_token_tx p s = None -> kind_in (kind_of (f_state f')) idle_kinds = false ->
             expect_state (f_state f') /\ (y_awaiting m = false -> r_ns (f_ring f') = r_ns (f_ring f)))).
  { intros Hk Hsl Hst. split.
    - intros da Hda. exfalso. apply y_token_x in Hda.
      pose proof (poll_txflags A ops p Hdata _ _ _ _ _ _ _ _ _ R Hp E) as [Htok _ _].
      destruct (Htok _ _ Hda) as (_ & (da' & _ & Hcases) & _).
      destruct Hcases as [(_ & [(_ & [Hi|C])|(_ & C)])|(_ & [C|[C|[C|[C|C]]]])]; try (rewrite Hk in C; discriminate C).
      + destruct Hi as [C|[C|C]]; rewrite Hk in C; discriminate C.
      + destruct Hst as [C'|(a1 & C')]; rewrite C' in C; discriminate C.
      + destruct Hst as [C'|(a1 & C')]; rewrite C' in C; discriminate C.
    - intros _ Hni. split.
      + destruct Hsl as [E1|[(a1 & E1)|[E1|E1]]].
        * right. left. exact E1.
        * right. right. exists a1. exact E1.
        * left. exists AttFirst. exact E1.
        * rewrite E1 in Hni. discriminate Hni.
      + unfold y_awaiting. rewrite Hk0, Hk. intros C. discriminate C. }
  destruct Hes as [(att & Es)|[Es|(a1 & Es)]].
  - destruct (pass_token_poll A ops _ _ _ _ _ _ _ _ _ _ Es E) as (_ & _ & _ & _ & [(Htx & Es' & Hr)|[(addr & C & _)|(r' & _ & _ & Htx & _)]]).
    + destruct (y_tx_none now busy (buf ++ nb) f' o calls Htx) as (Ht & _). fold s in Ht. split.
      * intros da Hda. rewrite Ht in Hda. discriminate Hda.
      * intros _ _. split; [left; exists att; exact Es'|intros _; rewrite Hr; reflexivity].
    + discriminate C.
    + rewrite <- Hts in Htx. pose proof (y_token_of_wire now busy (buf ++ nb) f' o calls _ Htx) as Ht. fold s in Ht. split.
      * intros da Hda. rewrite Ht in Hda. injection Hda as <-. exact Hns.
      * intros C. rewrite Ht in C. discriminate C.
  - destruct (claim_poll_facts A ops _ _ _ _ _ _ _ _ _ _ E Es R) as (_ & _ & _ & Hsl).
    apply Hclaim; [rewrite Es; reflexivity|exact Hsl|left; exact Es].
  - destruct (claim_poll_facts A ops _ _ _ _ _ _ _ _ _ _ E Es R) as (_ & _ & Hsl).
    apply Hclaim; [rewrite Es; reflexivity|exact Hsl|right; exists a1; exact Es].
Qed.

Lemma gx_poll f apps buf tl m g now busy nb f' o apps' calls :
  Base A p n f apps buf tl m -> GX f g ->
  poll ops f now (mkPhyIn busy (buf ++ nb)) apps = Ok (f', o, apps', calls) ->
  y_e_found p m g (poll_event now busy (buf ++ nb) f' o calls) = [] /\
  y_e_tok p g (poll_event now busy (buf ++ nb) f' o calls) = [] /\
  GX f' (y_g' p n m g (poll_event now busy (buf ++ nb) f' o calls)).
Proof.
  intros HB HG E.
  pose proof (rc_poll _ _ _ _ _ _ _ _ _ _ _ _ _ HB HG E) as Hrc.
  pose proof (fun a => expect_poll _ _ _ _ _ _ _ _ _ _ _ _ _ a HB HG E) as Hex.
  destruct HG as [GW GE].
  destruct HB as [R Hp Hn Hv Hl Hpd Hb Htl].
  set (s := poll_event now busy (buf ++ nb) f' o calls) in *.
  assert (Hpre : v_ns (y_pre m) = r_ns (f_ring f)) by (unfold y_pre; rewrite Hv; reflexivity).
  assert (Hpost : v_ns (y_post s) = r_ns (f_ring f')) by reflexivity.
  assert (Hk1 : y_k1 s = kind_of (f_state f')) by reflexivity.
  split; [|split].
  - unfold y_e_found. rewrite Hpre, Hpost.
    destruct Hrc as [(-> & a0 & -> & -> & _)|(-> & Hns)].
    + rewrite Z.eqb_refl. reflexivity.
    + destruct (y_awaiting m); [|reflexivity]. rewrite (Hns eq_refl), Z.eqb_refl. reflexivity.
  - unfold y_e_tok. destruct (y_token_tx p s) as [da|] eqn:Et; [|reflexivity].
    destruct (g_expect g) as [a|] eqn:Ee; [|reflexivity].
    destruct (Hex a eq_refl) as (H1 & _). rewrite (H1 da eq_refl), Z.eqb_refl. reflexivity.
  - split.
    + intros a Haw. change (g_wait (y_g' p n m g s)) with (y_wait p g s). unfold y_wait.
      destruct (tx o) as [wire|] eqn:Etx.
      * assert (Hg : y_gap_poll p s = Some a) by (apply (gap_flag _ _ _ _ _ _ _ _ _ a E R Hp Haw); rewrite Etx; discriminate).
        rewrite Hg. reflexivity.
      * destruct (y_tx_none now busy (buf ++ nb) f' o calls Etx) as (_ & Hg). fold s in Hg. rewrite Hg, Hk1.
        pose proof (await_entry A ops _ _ _ _ _ _ _ _ _ _ E R Haw Etx) as Hsame.
        replace (kind_in (kind_of (f_state f')) [KAwaitStatusResponse; KClaimToken]) with true
          by (destruct Haw as [-> | ->]; reflexivity).
        apply GW. rewrite <- Hsame. exact Haw.
    + intros a. change (g_expect (y_g' p n m g s)) with (y_expect p m g s). unfold y_expect. rewrite Hk1.
      destruct (y_token_tx p s) as [da|] eqn:Et; [discriminate|].
      change [KActiveIdle; KListenToken; KOffline] with idle_kinds.
      destruct (kind_in (kind_of (f_state f')) idle_kinds) eqn:Ei; [discriminate|].
      destruct Hrc as [(-> & a0 & Hw & Hns & Hst)|(-> & Hns)].
      * rewrite Hw. intros H. injection H as <-. split; [exact Hns|].
        destruct Hst as [-> | ->]; [left; exists AttFirst; reflexivity|right; left; reflexivity].
      * intros He. destruct (Hex a He) as (_ & H2). destruct (H2 eq_refl eq_refl) as (Hes & Hns').
        split; [|exact Hes]. destruct (GE a He) as (Ha & _).
        destruct (y_awaiting m) eqn:Eaw; [rewrite (Hns eq_refl)|rewrite (Hns' eq_refl)]; exact Ha.
Qed.

Lemma gx_api a f f' m g v :
  api_result p a f = Ok f' -> GX f g -> GX f' (snd (mon_after_api a v m g)).
Proof.
  intros E [GW GE].
  assert (Hnew : forall p0 f1, fdl_new p0 = Ok f1 -> GX f1 mon2_reset).
  { intros p0 f1 E1. destruct (fdl_new_spec _ _ E1) as ((S1 & _) & _).
    split; [|intros a0 C; discriminate C]. intros a0 Haw. rewrite S1 in Haw. destruct Haw as [C|C]; discriminate C. }
  destruct a; cbn [api_result mon_after_api snd] in *.
  - eapply Hnew. exact E.
  - unfold set_online, set_state in E. injection E as <-. split; [exact GW|exact GE].
  - unfold set_offline, set_state in E. eapply Hnew. exact E.
  - discriminate E.
Qed.

End GX.

(* ------------------------------------------------------------------------------------------ *)
(* the theorem for the GAP request and successor rules of C12                                    *)

Definition nin (l : list rule) (r : rule) : Prop := ~ In r l.
Ltac nin_leaf := unfold nin; cbn; intuition discriminate.

Lemma nin_other (l : list rule) (P : pid) : Forall (fun r => rule_prop r <> P) l -> forall r, rule_prop r = P -> nin l r.
Proof. intros HF r E Hin. rewrite Forall_forall in HF. exact (HF r Hin E). Qed.

Section Theorems7.
Variable A : Type.
Variable ops : app_ops A.
Variable p : params.
Hypothesis Happs : apps_total A ops.
Hypothesis Hbv : builder_valid p.
Hypothesis Hdata : app_sends_data A ops.

Definition J7 (n : nat) (f : fdl) (apps : list A) (buf : bytes) (tl : Z) (m : mon) (g : mon2) : Prop :=
  J6 A p n f apps buf tl m g /\ GX f g.

Definition c12_covered : list rule :=
  [R12_gap_poll_outside_gap; R12_two_gap_polls_per_visit;
   R12_found_not_successor; R12_found_not_next_token; R12_successor_changed_without_ready_reply].

Lemma c12_covered_other (P : pid) : P <> PC12 -> forall r, rule_prop r = P -> nin c12_covered r.
Proof. intros H. apply nin_other. unfold c12_covered. repeat constructor; cbn; congruence. Qed.

Lemma x_e12b_q7 m s : onlyr (nin c12_covered) (x_e12b p m s).
Proof. unfold x_e12b. cbv zeta. solve_onlyr nin_leaf. Qed.
Lemma y_e_sweep_q7 m g s : onlyr (nin c12_covered) (y_e_sweep p m g s).
Proof. unfold y_e_sweep. cbv zeta. solve_onlyr nin_leaf. Qed.
Lemma y_e_scan_q7 m g s : onlyr (nin c12_covered) (y_e_scan p m g s).
Proof. unfold y_e_scan. cbv zeta. solve_onlyr nin_leaf. Qed.
Lemma y_e_live_q7 m g s : onlyr (nin c12_covered) (y_e_live p m g s).
Proof. unfold y_e_live. solve_onlyr nin_leaf. Qed.

(* C12, PARTIAL: the rules of c12_covered never fire on a transcript of the model *)
Theorem c12_oracle_sound_partial (apps : list A) (ins : list minput) :
  ins_ok 0 ins ->
  forall k r, In (k, r) (monitor p (length apps) (model_transcript A ops p apps ins)) -> ~ In r c12_covered.
Proof.
  intros Hok.
  apply (generic_sound_transcript A ops p (length apps) (nin c12_covered) (J7 (length apps)) (fun _ => True)); try assumption; try reflexivity.
  - nin_leaf.
  - intros a f apps0 buf tl m g f' (((HB & c & HV) & HG) & HX) E _. split; [split|].
    + split; [eapply base_api; eassumption|]. eapply vi_api; eassumption.
    + intros Hor. destruct a; cbn [mon_after_api fst]; try reflexivity.
      * unfold api_result, set_online, set_state in E. cbn in E. injection E as <-. exact (HG Hor).
      * discriminate E.
    + eapply gx_api; eassumption.
  - intros f apps0 buf tl m g now busy nb f' o apps' calls ((HJ & HG) & HX) Hlt Hnow Hnb E _.
    pose proof HJ as (HB & _).
    destruct (J5_poll A ops p (length apps) Happs Hbv Hdata _ _ _ _ _ _ _ _ _ _ _ _ _ HJ Hlt Hnow Hnb E)
      as ((c' & Hf & H15 & H13 & Hrr & Hend & HV') & HB').
    destruct (gx_poll A ops p (length apps) Hdata _ _ _ _ _ _ _ _ _ _ _ _ _ HB HX E) as (Hfound & Htok & HX').
    split; [|split].
    + rewrite mon_poll_eq. cbn [snd].
      assert (H12a : x_e12a p m (poll_event now busy (buf ++ nb) f' o calls) = []) by (eapply e12a_ok; eassumption).
      rewrite H12a, Hf. cbn [app].
      apply onlyr_app; [exact (onlyr_of_onlyp _ PC01 _ (c12_covered_other PC01 ltac:(discriminate)) (x_e01_only _ _ _))|].
      apply onlyr_app; [exact (onlyr_of_onlyp _ PC06 _ (c12_covered_other PC06 ltac:(discriminate)) (x_e06_only _ _ _))|].
      apply onlyr_app; [exact (onlyr_of_onlyp _ PC11 _ (c12_covered_other PC11 ltac:(discriminate)) (x_e11a_only _ _ _))|].
      apply onlyr_app; [exact (onlyr_of_onlyp _ PC11 _ (c12_covered_other PC11 ltac:(discriminate)) (x_e11c_only _ _ _))|].
      apply onlyr_app; [exact (onlyr_of_onlyp _ PC11 _ (c12_covered_other PC11 ltac:(discriminate)) (x_e11b_only _ _ _))|].
      apply onlyr_app; [apply x_e12b_q7|].
      exact (onlyr_of_onlyp _ PC15 _ (c12_covered_other PC15 ltac:(discriminate)) (x_e15_only _ _ _ _)).
    + rewrite mon_poll2_eq. cbn [snd]. rewrite Hfound, Htok, H13, Hrr, Hend. cbn [app].
      apply onlyr_app; [apply y_e_sweep_q7|].
      apply onlyr_app; [apply y_e_scan_q7|].
      apply onlyr_app; [apply y_e_live_q7|].
      exact (onlyr_of_onlyp _ PC06 _ (c12_covered_other PC06 ltac:(discriminate)) (y_e_backoff_only _ _ _ _)).
    + split; [split|].
      * split; [exact HB'|exists c'; rewrite fst_mon_poll, mon_poll2_eq; exact HV'].
      * rewrite fst_mon_poll. eapply gp_poll; eassumption.
      * rewrite mon_poll2_eq. cbn [fst]. exact HX'.
  - intros f0 apps0 E Hn _. split; [split; [apply J5_init; assumption|intros _; reflexivity]|].
    split; [|intros a C; discriminate C].
    intros a Haw. exfalso. destruct (fdl_new_spec _ _ E) as ((S1 & _) & _). rewrite S1 in Haw. destruct Haw as [C|C]; discriminate C.
  - unfold transcript_ok. destruct (fdl_new p); [split; [exact I|apply run_ok_true]|exact I|exact I].
Qed.

End Theorems7.
