(* C18: soundness of the ground-truth rule Model/ScanTruth.v (truth_ok) for the models of LiveList
   and DpScanner.  Proved once on the sweep machine of Proofs/ScanMachine.v:
     - the station bit of address a changes only in polls that probe a; after a probe of a with
       class CValid it is set, after CTimeout it is cleared (linv_run, along last_probe);
     - a window of one sweep (252 polls) probes every address 0..125 (walk_cover);
     - bits 126.. are never touched (a_bits_outside).
   EXACT CONDITION found: truth_ok also demands that bits 126 and 127 of the 128 bit station array
   are not listed.  The sweep never touches them, so from a state that has them set they stay set:
   the theorems carry the hypothesis that they are clear in the start state (true of new()). *)
From PB Require Import Common Telegram ScanBase LiveList Scan ScanOracle ScanTruth ScanMachine C18Proofs.

(* ---------------------------------------------------------------- last_probe *)

Section ListFacts.
  Variable P : Type.

  Lemma last_probe_not_probed a (w : list (apoll P)) : forall acc,
    ~ In a (probed w) -> last_probe a acc w = acc.
  Proof.
    induction w as [|p r IH]; intros acc NI; [reflexivity|].
    cbn [last_probe]. cbn [probed flat_map] in NI. fold (probed r) in NI.
    destruct (ap_da p) as [b|]; cbn [opt_list app] in NI.
    - destruct (Z.eqb_spec b a) as [E|E]; [exfalso; apply NI; left; exact E|].
      apply IH. intros I. apply NI. right. exact I.
    - apply IH. exact NI.
  Qed.

  (* the class of the last probe of a is the class of a poll of w that probed a *)
  Lemma last_probe_probed a (w : list (apoll P)) : forall acc,
    In a (probed w) ->
    exists p, In p w /\ ap_da p = Some a /\ last_probe a acc w = Some (ap_cls p).
  Proof.
    induction w as [|p r IH]; intros acc I; [contradiction|].
    cbn [last_probe]. cbn [probed flat_map] in I. fold (probed r) in I.
    destruct (in_dec Z.eq_dec a (probed r)) as [J|J].
    - destruct (IH (match ap_da p with
                    | Some b => if b =? a then Some (ap_cls p) else acc
                    | None => acc end) J) as [q [Q1 [Q2 Q3]]].
      exists q. split; [right; exact Q1|split; [exact Q2|exact Q3]].
    - apply in_app_or in I. destruct I as [I|I]; [|contradiction].
      destruct (ap_da p) as [b|] eqn:Dp; cbn [opt_list] in I; [|contradiction].
      destruct I as [I|[]]. subst b. rewrite Z.eqb_refl.
      exists p. split; [left; reflexivity|split; [exact Dp|]].
      apply last_probe_not_probed. exact J.
  Qed.

  Lemma flat_map_nil {A B} (f : A -> list B) (l : list A) :
    (forall x, In x l -> f x = []) -> flat_map f l = [].
  Proof.
    induction l as [|x l IH]; intros H; [reflexivity|]. cbn [flat_map].
    rewrite (H x (or_introl eq_refl)). cbn [app]. apply IH. intros y I. apply H. right. exact I.
  Qed.
End ListFacts.

(* ---------------------------------------------------------------- the machine *)

Section MachineTruth.
  Variable P : Type.
  Variables other_sets requery : bool.

  Local Notation a_next := (a_next P other_sets).
  Local Notation a_obs := (a_obs P other_sets requery).
  Local Notation a_final := (a_final P other_sets).
  Local Notation a_trace := (a_trace P other_sets requery).

  Lemma spec_bits_other m c a (k : cls P) : 0 <= c -> c <> a ->
    Z.testbit (spec_bits P other_sets m c k) a = Z.testbit m a.
  Proof.
    intros Hc Ne. destruct k as [| |q|]; cbn [spec_bits]; try reflexivity.
    - destruct (Z.testbit m c); [|reflexivity]. apply Z.clearbit_neq. exact Ne.
    - destruct (Z.testbit m c); [reflexivity|]. apply Z.setbit_neq; assumption.
    - destruct (other_sets && negb (Z.testbit m c)); [|reflexivity]. apply Z.setbit_neq; assumption.
  Qed.

  (* what the last probe of a seen so far tells about the bit of a *)
  Definition linv (a : Z) (acc : option (cls P)) (st : ast) : Prop :=
    match acc with
    | Some (CValid _) => Z.testbit (a_bits st) a = true
    | Some CTimeout => Z.testbit (a_bits st) a = false
    | _ => True
    end.

  Lemma linv_step a st ce acc : cur_ok st -> 0 <= a -> linv a acc st ->
    linv a (match ap_da (a_obs st ce) with
            | Some b => if b =? a then Some (ap_cls (a_obs st ce)) else acc
            | None => acc
            end) (a_next st ce).
  Proof.
    unfold cur_ok. intros H Ha I. unfold ScanMachine.a_obs, ScanMachine.a_next.
    destruct (a_dn st); cbn [ap_da ap_cls]; [exact I|].
    destruct (Z.eqb_spec (a_cur st) a) as [E|E].
    - subst a. destruct (ce (a_cur st)) as [| |q|]; cbn [linv spec_bits a_bits]; try exact Logic.I.
      + destruct (Z.testbit (a_bits st) (a_cur st)) eqn:B; [apply Z.clearbit_eq|exact B].
      + destruct (Z.testbit (a_bits st) (a_cur st)) eqn:B; [exact B|apply Z.setbit_eq; lia].
    - unfold linv in *. cbn [a_bits]. rewrite spec_bits_other by (try lia; exact E). exact I.
  Qed.

  Lemma linv_run a h : forall st acc, cur_ok st -> 0 <= a -> linv a acc st ->
    linv a (last_probe a acc (a_trace st h)) (a_final st h).
  Proof.
    induction h as [|ce h IH]; intros st acc H Ha I; [exact I|].
    cbn [ScanMachine.a_trace ScanMachine.a_final last_probe].
    apply IH; [apply a_next_cur_ok; exact H|exact Ha|].
    apply linv_step; assumption.
  Qed.

  (* soundness of the ground-truth rule on the machine *)
  Lemma a_truth ts pop window st0 h :
    cur_ok st0 -> (window + sweep_polls <= length h)%nat ->
    Z.testbit (a_bits st0) 126 = false -> Z.testbit (a_bits st0) 127 = false ->
    explained ts pop (skipn window (a_trace st0 h)) = true ->
    truth_ok ts pop window (a_bits (a_final st0 h)) (a_trace st0 h) = true.
  Proof.
    intros H0 L B126 B127 X.
    assert (EF : a_final st0 h = a_final (a_final st0 (firstn window h)) (skipn window h)).
    { rewrite <- a_final_app, firstn_skipn. reflexivity. }
    unfold truth_ok, truth_bad. rewrite a_trace_skipn in *.
    set (st := a_final st0 (firstn window h)) in *. set (hw := skipn window h) in *.
    assert (H : cur_ok st) by (apply a_final_cur_ok; exact H0).
    assert (Lw : (sweep_polls <= length hw)%nat) by (unfold hw; rewrite skipn_length; lia).
    assert (Cov : forall a, 0 <= a <= 125 -> In a (probed (a_trace st hw))).
    { intros a Ha. apply (walk_cover P (a_cur st) (a_dn st)); [exact H|apply a_cursor; exact H| |exact Ha].
      rewrite a_trace_length. exact Lw. }
    rewrite EF.
    assert (Run : forall a, 0 <= a -> linv a (last_probe a None (a_trace st hw)) (a_final st hw)).
    { intros a Ha. apply linv_run; [exact H|exact Ha|exact Logic.I]. }
    rewrite flat_map_nil, flat_map_nil; [reflexivity| |].
    - (* nothing outside the population is listed *)
      intros a Ia. apply addr_list_in in Ia. unfold truth_bits in Ia. unfold listed_check.
      destruct (Z.testbit (a_bits (a_final st hw)) a) eqn:B; [|reflexivity].
      destruct (expected ts pop a) eqn:E; [reflexivity|]. exfalso.
      destruct (Z.le_gt_cases a 125) as [Le|Gt].
      + destruct (last_probe_probed P a (a_trace st hw) None (Cov a ltac:(lia))) as [p [Ip [Dp Lp]]].
        unfold explained in X. rewrite forallb_forall in X. specialize (X p Ip).
        rewrite Dp, E in X. cbn [orb] in X.
        specialize (Run a ltac:(lia)). rewrite Lp in Run.
        destruct (ap_cls p); try discriminate X. cbn [linv] in Run. rewrite Run in B. discriminate B.
      + rewrite <- EF in B. rewrite (a_bits_outside P other_sets h st0 a H0 ltac:(lia)) in B.
        assert (a = 126 \/ a = 127) as [A|A] by lia; subst a; congruence.
    - (* every expected address was probed, and is listed if its last probe was answered validly *)
      intros a Ia. apply addr_list_in in Ia. unfold sweep_len in Ia. unfold member_check.
      destruct (expected ts pop a); [|reflexivity].
      destruct (last_probe_probed P a (a_trace st hw) None (Cov a ltac:(lia))) as [p [_ [_ Lp]]].
      specialize (Run a ltac:(lia)). rewrite Lp in *.
      destruct (ap_cls p); try reflexivity. cbn [linv] in Run. rewrite Run. reflexivity.
  Qed.

  (* environment form: in the window every address that is not expected is silent *)
  Lemma a_explained ts pop h : forall st,
    Forall (fun ce : Z -> cls P => forall a, expected ts pop a = false -> ce a = CTimeout) h ->
    explained ts pop (a_trace st h) = true.
  Proof.
    induction h as [|ce h IH]; intros st F; [reflexivity|].
    inversion F as [|? ? F1 F2]; subst.
    cbn [ScanMachine.a_trace]. unfold explained. cbn [forallb].
    fold (explained ts pop (a_trace (a_next st ce) h)). rewrite (IH _ F2), andb_true_r.
    unfold ScanMachine.a_obs. destruct (a_dn st); cbn [ap_da ap_cls]; [reflexivity|].
    destruct (expected ts pop (a_cur st)) eqn:E; [reflexivity|]. rewrite (F1 _ E). reflexivity.
  Qed.
End MachineTruth.

(* ---------------------------------------------------------------- live list *)

Lemma ll_truth_sound ts pop window s h s' tr : addr_ok ts -> ll_rep s ->
  ll_run ts s h = Ok (s', tr) -> (window + sweep_polls <= length h)%nat ->
  Z.testbit (ll_stations s) 126 = false -> Z.testbit (ll_stations s) 127 = false ->
  explained ts pop (skipn window (map ll_abs tr)) = true ->
  last_bits 0 (map ll_abs tr) = ll_stations s' /\
  truth_ok ts pop window (ll_stations s') (map ll_abs tr) = true.
Proof.
  intros Hts R E L B6 B7 X. destruct (ll_sim ts s h s' tr Hts R E) as [_ [T [V _]]].
  rewrite T in *. change (ll_stations s') with (a_bits (ll_view s')). rewrite V.
  assert (Lh : (window + sweep_polls <= length (ll_h h))%nat) by (unfold ll_h; rewrite map_length; exact L).
  split.
  - apply last_bits_trace. intros N. rewrite N in Lh. unfold sweep_polls in Lh. cbn [length] in Lh. lia.
  - exact (a_truth resp_state true false ts pop window (ll_view s) (ll_h h) (ll_rep_cur s R) Lh B6 B7 X).
Qed.

(* the environment of the window as the case line of the check describes it: whoever is not in
   the population - and the own address - is silent; members may do anything *)
Definition silent_outside (ts : Z) (pop : list Z) (e : Z -> reaction) : Prop :=
  forall a, expected ts pop a = false -> e a = RTimeout.

Lemma ll_truth_sound_env ts pop s h1 h2 s' tr : addr_ok ts -> ll_rep s ->
  ll_run ts s (h1 ++ h2) = Ok (s', tr) -> (sweep_polls <= length h2)%nat ->
  Z.testbit (ll_stations s) 126 = false -> Z.testbit (ll_stations s) 127 = false ->
  Forall (silent_outside ts pop) h2 ->
  truth_ok ts pop (length h1) (last_bits 0 (map ll_abs tr)) (map ll_abs tr) = true.
Proof.
  intros Hts R E L B6 B7 F.
  assert (L' : (length h1 + sweep_polls <= length (h1 ++ h2))%nat) by (rewrite app_length; lia).
  assert (X : explained ts pop (skipn (length h1) (map ll_abs tr)) = true).
  { destruct (ll_sim ts s (h1 ++ h2) s' tr Hts R E) as [_ [T _]]. rewrite T.
    rewrite a_trace_skipn. apply a_explained.
    unfold ll_h. rewrite map_app.
    replace (length h1) with (length (map (cf resp_state ll_classify) h1)) by apply map_length.
    rewrite skipn_app, skipn_all, Nat.sub_diag. cbn [app skipn].
    apply Forall_forall. intros ce I. apply in_map_iff in I. destruct I as [e [Ee Ie]]. subst ce.
    rewrite Forall_forall in F. intros a Ea. unfold cf. rewrite (F e Ie a Ea). reflexivity. }
  destruct (ll_truth_sound ts pop (length h1) s (h1 ++ h2) s' tr Hts R E L' B6 B7 X) as [Lb Tr].
  rewrite Lb. exact Tr.
Qed.

(* ---------------------------------------------------------------- DP scanner *)

Lemma sc_truth_sound ts pop window s h s' tr : addr_ok ts -> sc_rep s ->
  sc_run ts s h = Ok (s', tr) -> (window + sweep_polls <= length h)%nat ->
  Z.testbit (sc_stations s) 126 = false -> Z.testbit (sc_stations s) 127 = false ->
  explained ts pop (skipn window (map sc_abs tr)) = true ->
  last_bits 0 (map sc_abs tr) = sc_stations s' /\
  truth_ok ts pop window (sc_stations s') (map sc_abs tr) = true.
Proof.
  intros Hts R E L B6 B7 X. destruct (sc_sim ts s h s' tr Hts R E) as [_ [T [V _]]].
  rewrite T in *. change (sc_stations s') with (a_bits (sc_view s')). rewrite V.
  assert (Lh : (window + sweep_polls <= length (sc_h h))%nat) by (unfold sc_h; rewrite map_length; exact L).
  split.
  - apply last_bits_trace. intros N. rewrite N in Lh. unfold sweep_polls in Lh. cbn [length] in Lh. lia.
  - exact (a_truth sc_pay false true ts pop window (sc_view s) (sc_h h) (sc_rep_cur s R) Lh B6 B7 X).
Qed.

Lemma sc_truth_sound_env ts pop s h1 h2 s' tr : addr_ok ts -> sc_rep s ->
  sc_run ts s (h1 ++ h2) = Ok (s', tr) -> (sweep_polls <= length h2)%nat ->
  Z.testbit (sc_stations s) 126 = false -> Z.testbit (sc_stations s) 127 = false ->
  Forall (silent_outside ts pop) h2 ->
  truth_ok ts pop (length h1) (last_bits 0 (map sc_abs tr)) (map sc_abs tr) = true.
Proof.
  intros Hts R E L B6 B7 F.
  assert (L' : (length h1 + sweep_polls <= length (h1 ++ h2))%nat) by (rewrite app_length; lia).
  assert (X : explained ts pop (skipn (length h1) (map sc_abs tr)) = true).
  { destruct (sc_sim ts s (h1 ++ h2) s' tr Hts R E) as [_ [T _]]. rewrite T.
    rewrite a_trace_skipn. apply a_explained.
    unfold sc_h. rewrite map_app.
    replace (length h1) with (length (map (cf sc_pay sc_classify) h1)) by apply map_length.
    rewrite skipn_app, skipn_all, Nat.sub_diag. cbn [app skipn].
    apply Forall_forall. intros ce I. apply in_map_iff in I. destruct I as [e [Ee Ie]]. subst ce.
    rewrite Forall_forall in F. intros a Ea. unfold cf. rewrite (F e Ie a Ea). reflexivity. }
  destruct (sc_truth_sound ts pop (length h1) s (h1 ++ h2) s' tr Hts R E L' B6 B7 X) as [Lb Tr].
  rewrite Lb. exact Tr.
Qed.

(* ---------------------------------------------------------------- the condition on bits 126/127 is needed *)

(* a state with bit 126 set keeps it through two silent sweeps: the rule reports it *)
Lemma ll_truth_hi_bit_needed :
  match ll_run 1 (mkLl (2 ^ 126) 0 None false) (repeat (fun _ => RTimeout) 504) with
  | Ok (s', tr) => truth_ok 1 [] 0 (ll_stations s') (map ll_abs tr) = false
  | _ => False
  end.
Proof. vm_compute. reflexivity. Qed.

(* ---------------------------------------------------------------- non-vacuity *)

(* station 1 scans; 3 answers validly, 5 answers with a bare SC (not a valid answer), 9 is on the
   bus but its answer never arrives, everything else is silent; one sweep.  The window is
   explained by the population {3, 5, 9}, the rule accepts the run (3 listed; 5 listed by the
   live list, which the rule leaves open; 9 not listed) - and rejects the same transcript when
   station 3 is missing from the final station set or the silent address 7 is listed. *)
Definition tr_env : Z -> reaction := fun da =>
  if da =? 3 then RReply (TData (mkHeader 1 3 None None (FcResponse RsSlave StOk)) [])
  else if da =? 5 then RReply TShortConf else RTimeout.

Lemma ll_truth_example :
  match ll_run 1 ll_new (repeat tr_env 252) with
  | Ok (s', tr) =>
      explained 1 [3; 5; 9] (map ll_abs tr) = true /\
      ll_stations s' = 40 /\
      truth_ok 1 [3; 5; 9] 0 (ll_stations s') (map ll_abs tr) = true /\
      truth_bad 1 [3; 5; 9] 0 (Z.clearbit (ll_stations s') 3) (map ll_abs tr) = [(3, TValidNotListed)] /\
      truth_ok 1 [3; 5; 9] 0 (Z.clearbit (ll_stations s') 3) (map ll_abs tr) = false /\
      truth_bad 1 [3; 5; 9] 0 (Z.setbit (ll_stations s') 7) (map ll_abs tr) = [(7, TListedNotOnBus)] /\
      truth_bad 1 [3; 5; 9] 0 (ll_stations s') (firstn 5 (map ll_abs tr)) = [(3, TNeverProbed); (5, TNeverProbed); (9, TNeverProbed)]
  | _ => False
  end.
Proof. vm_compute. repeat split; reflexivity. Qed.
