(* C07: proofs.  Definitions of the joint system and of the control abstraction are in C07Abs.v, the
   complete check of the finite control space (vm_compute) in C07Check0/1/2.v. *)
From PB Require Import C07Abs C07Check0 C07Check1 C07Check2 C09Proofs DpStepProofs.

(* ================================================================== A. the abstract system *)

Lemma ps_eqb_eq a b : ps_eqb a b = true -> a = b.
Proof. destruct a, b; simpl; intro H; try reflexivity; discriminate. Qed.
Lemma fcb_eqb_eq a b : fcb_eqb a b = true -> a = b.
Proof. destruct a, b; simpl; intro H; try reflexivity; discriminate. Qed.
Lemma sl_eqb_eq a b : sl_state_eqb a b = true -> a = b.
Proof. destruct a, b; simpl; intro H; try reflexivity; discriminate. Qed.
Lemma ob_eqb_eq a b : ob_eqb a b = true -> a = b.
Proof. destruct a as [[|]|], b as [[|]|]; simpl; intro H; try reflexivity; discriminate. Qed.
Lemma areply_eqb_eq a b : areply_eqb a b = true -> a = b.
Proof.
  destruct a as [| |d x], b as [| |e y]; simpl; intro H; try reflexivity; try discriminate.
  apply andb_prop in H. destruct H as [H1 H2].
  destruct d, e; try discriminate; destruct x, y; try discriminate; reflexivity.
Qed.
Lemma ust_eqb_eq a b : ust_eqb a b = true -> a = b.
Proof.
  unfold ust_eqb. intro H.
  repeat (apply andb_prop in H; let H2 := fresh "E" in destruct H as [H H2]).
  destruct a as [a1 a2 a3 a4 a5 a6 a7 a8 a9 a10 a11], b as [b1 b2 b3 b4 b5 b6 b7 b8 b9 b10 b11];
  cbn [u_ps u_fcb u_needed u_inflight u_sl u_sfcb u_resp u_prmf u_cfgf u_pend u_nr] in *.
  repeat match goal with
  | X : ps_eqb _ _ = true |- _ => apply ps_eqb_eq in X
  | X : fcb_eqb _ _ = true |- _ => apply fcb_eqb_eq in X
  | X : sl_state_eqb _ _ = true |- _ => apply sl_eqb_eq in X
  | X : ob_eqb _ _ = true |- _ => apply ob_eqb_eq in X
  | X : areply_eqb _ _ = true |- _ => apply areply_eqb_eq in X
  | X : Bool.eqb _ _ = true |- _ => apply eqb_prop in X
  | X : Nat.eqb _ _ = true |- _ => apply Nat.eqb_eq in X
  end.
  subst. reflexivity.
Qed.

Lemma aiter_S fx M n x : aiter fx M (S n) x = aiter fx M n (astep fx M x).
Proof. reflexivity. Qed.
Lemma aiter_add fx M a b x : aiter fx M (a + b) x = aiter fx M b (aiter fx M a x).
Proof. revert x. induction a; intro x; simpl; [reflexivity|apply IHa]. Qed.

(* a request that is neither accepted nor changes anything is repeated until the retries run out *)
Lemma stutter fx M u r j :
  (1 <= r)%nat -> body fx false u = (u, false) -> (r + j <= M + 1)%nat ->
  aiter fx M j (u, r) = (u, (r + j)%nat).
Proof.
  intros Hr Hb. revert r Hr. induction j; intros r Hr Hj.
  - simpl. f_equal. lia.
  - rewrite aiter_S. unfold astep at 1.
    destruct (Nat.ltb_spec M r) as [H|H]; [lia|].
    destruct (Nat.eqb_spec r 0) as [H0|H0]; [lia|].
    rewrite Hb. rewrite IHj by lia. f_equal. lia.
Qed.

Lemma chk_sound fx M : (1 <= M)%nat -> forall fuel u a r n tok stuck,
  chk fx fuel u a = Some (n, tok, stuck) -> absr M r a ->
  exists k, (k <= n + (if tok then M else 0))%nat /\
            (Goodx (aiter fx M k (u, r)) \/ (stuck = true /\ Corex M (aiter fx M k (u, r)))).
Proof.
  intros HM. induction fuel as [|f IH]; intros u a r n tok stuck Hc Ha.
  - simpl in Hc.
    destruct (match a with RZ => goodb u | _ => false end) eqn:Hg.
    + inversion Hc; subst. exists 0%nat. split; [lia|]. left. destruct a; try discriminate.
      simpl in Ha. subst. split; [exact Hg|reflexivity].
    + destruct (match a with RExh => false | _ => coreb u end) eqn:Hk; [|discriminate].
      inversion Hc; subst. exists 0%nat. split; [lia|]. right. split; [reflexivity|].
      destruct a; try discriminate; simpl in Ha; (split; [exact Hk|simpl; lia]).
  - cbn [chk] in Hc.
    destruct (match a with RZ => goodb u | _ => false end) eqn:Hg.
    { inversion Hc; subst. exists 0%nat. split; [lia|]. left. destruct a; try discriminate.
      simpl in Ha. subst. split; [exact Hg|reflexivity]. }
    destruct (match a with RExh => false | _ => coreb u end) eqn:Hk.
    { inversion Hc; subst. exists 0%nat. split; [lia|]. right. split; [reflexivity|].
      destruct a; try discriminate; simpl in Ha; (split; [exact Hk|simpl; lia]). }
    clear Hg Hk.
    destruct a; simpl in Ha.
    + (* RZ *) subst r.
      destruct (body fx true u) as [u' reset] eqn:Hb.
      destruct (chk fx f u' (if reset then RZ else RMid)) as [[[n' t'] s']|] eqn:Hc'; [|discriminate].
      simpl in Hc. inversion Hc; subst.
      destruct (IH u' _ (if reset then 0%nat else 1%nat) _ _ _ Hc') as (k & Hk & Hr).
      { destruct reset; simpl; lia. }
      exists (S k). split; [lia|]. rewrite aiter_S. unfold astep.
      replace (Nat.ltb M 0) with false by (symmetry; apply Nat.ltb_ge; lia).
      simpl Nat.eqb. rewrite Hb. exact Hr.
    + (* RMid *)
      destruct (body fx false u) as [u' reset] eqn:Hb.
      assert (Hstep : astep fx M (u, r) = (u', if reset then 0%nat else S r)).
      { unfold astep. destruct (Nat.ltb_spec M r) as [H|H]; [lia|].
        destruct (Nat.eqb_spec r 0) as [H0|H0]; [lia|]. rewrite Hb. reflexivity. }
      destruct reset.
      * destruct (chk fx f u' RZ) as [[[n' t'] s']|] eqn:Hc'; [|discriminate].
        simpl in Hc. inversion Hc; subst.
        destruct (IH u' _ 0%nat _ _ _ Hc') as (k & Hk & Hr); [reflexivity|].
        exists (S k). split; [lia|]. rewrite aiter_S, Hstep. exact Hr.
      * destruct (ust_eqb u' u) eqn:He.
        { apply ust_eqb_eq in He. subst u'.
          destruct (chk fx f (go_offline u) RZ) as [[[n' t'] s']|] eqn:Hc'; [|discriminate].
          destruct t'; [discriminate|]. inversion Hc; subst.
          destruct (IH (go_offline u) _ 0%nat _ _ _ Hc') as (k & Hk & Hr); [reflexivity|].
          exists ((M + 1 - r) + S k)%nat. split; [lia|].
          rewrite aiter_add. rewrite (stutter fx M u r (M + 1 - r)) by (try assumption; lia).
          rewrite aiter_S.
          assert (Hex : astep fx M (u, (r + (M + 1 - r))%nat) = (go_offline u, 0%nat)).
          { unfold astep. replace (Nat.ltb M (r + (M + 1 - r))) with true by (symmetry; apply Nat.ltb_lt; lia).
            reflexivity. }
          rewrite Hex. exact Hr. }
        destruct (chk fx f u' RMid) as [[[n1 t1] s1]|] eqn:Hc1; [|discriminate].
        destruct (chk fx f u' RExh) as [[[n2 t2] s2]|] eqn:Hc2; [|discriminate].
        simpl in Hc. inversion Hc; subst.
        destruct (Nat.le_gt_cases (S r) M) as [Hle|Hgt].
        { destruct (IH u' _ (S r) _ _ _ Hc1) as (k & Hk & Hr); [simpl; lia|].
          exists (S k). split; [destruct t1, t2; simpl; lia|]. rewrite aiter_S, Hstep.
          destruct Hr as [Hr|[Hs Hr]]; [left; exact Hr|right; split; [subst; reflexivity|exact Hr]]. }
        { destruct (IH u' _ (S r) _ _ _ Hc2) as (k & Hk & Hr); [simpl; lia|].
          exists (S k). split; [destruct t1, t2; simpl; lia|]. rewrite aiter_S, Hstep.
          destruct Hr as [Hr|[Hs Hr]]; [left; exact Hr|right; split; [subst; apply orb_true_r|exact Hr]]. }
    + (* RExh *)
      destruct (chk fx f (go_offline u) RZ) as [[[n' t'] s']|] eqn:Hc'; [|discriminate].
      simpl in Hc. inversion Hc; subst.
      destruct (IH (go_offline u) _ 0%nat _ _ _ Hc') as (k & Hk & Hr); [reflexivity|].
      exists (S k). split; [lia|]. rewrite aiter_S. unfold astep.
      replace (Nat.ltb M r) with true by (symmetry; apply Nat.ltb_lt; lia). exact Hr.
Qed.

(* ------------------------------------------------------------------ the stored response is irrelevant while the
   next request is not a retransmission *)

Definition simr (u v : ust) : Prop :=
  u = v \/ (fresh (u_fcb u) (u_sfcb u) = true /\ exists a, v = set_resp u a).

Lemma asend_fresh fx k u a : fresh (u_fcb u) (u_sfcb u) = true -> asend fx k (set_resp u a) = asend fx k u.
Proof.
  intro H. unfold asend. cbn [set_resp u_ps u_fcb u_needed u_inflight u_sl u_sfcb u_resp u_prmf u_cfgf u_pend u_nr].
  rewrite H. reflexivity.
Qed.

Lemma body_sim fx z u v : simr u v ->
  snd (body fx z u) = snd (body fx z v) /\ simr (fst (body fx z u)) (fst (body fx z v)).
Proof.
  intros [->|[Hf [a ->]]]; [split; [reflexivity|left; reflexivity]|].
  unfold body. cbn [set_resp u_ps u_needed].
  destruct (u_ps u) eqn:Hps.
  - destruct z.
    + rewrite asend_fresh by exact Hf. split; [reflexivity|left; reflexivity].
    + split; [reflexivity|]. right. split; [reflexivity|]. exists a. reflexivity.
  - rewrite asend_fresh by exact Hf. split; [reflexivity|left; reflexivity].
  - rewrite asend_fresh by exact Hf. split; [reflexivity|left; reflexivity].
  - rewrite asend_fresh by exact Hf. split; [reflexivity|left; reflexivity].
  - destruct z.
    + change (set_inflight (set_resp u a) (u_needed u)) with (set_resp (set_inflight u (u_needed u)) a).
      cbn [set_inflight set_resp u_inflight].
      rewrite asend_fresh by exact Hf. split; [reflexivity|left; reflexivity].
    + cbn [set_resp u_inflight]. rewrite asend_fresh by exact Hf. split; [reflexivity|left; reflexivity].
  - destruct z.
    + change (set_inflight (set_resp u a) (u_needed u)) with (set_resp (set_inflight u (u_needed u)) a).
      cbn [set_inflight set_resp u_inflight].
      rewrite asend_fresh by exact Hf. split; [reflexivity|left; reflexivity].
    + cbn [set_resp u_inflight]. rewrite asend_fresh by exact Hf. split; [reflexivity|left; reflexivity].
Qed.

Definition simx (x y : ust * nat) : Prop := simr (fst x) (fst y) /\ snd x = snd y.

Lemma go_offline_sim u v : simr u v -> simr (go_offline u) (go_offline v).
Proof.
  intros [->|[Hf [a ->]]]; [left; reflexivity|]. right. split; [reflexivity|]. exists a. reflexivity.
Qed.

Lemma astep_sim fx M x y : simx x y -> simx (astep fx M x) (astep fx M y).
Proof.
  destruct x as [u r], y as [v r']. intros [Hs Hr]. simpl in Hs, Hr. subst r'.
  unfold astep. destruct (Nat.ltb M r).
  - split; [apply go_offline_sim; exact Hs|reflexivity].
  - destruct (body_sim fx (Nat.eqb r 0) u v Hs) as [H1 H2].
    destruct (body fx (Nat.eqb r 0) u) as [u' b], (body fx (Nat.eqb r 0) v) as [v' b']. simpl in H1, H2. subst b'.
    split; [exact H2|reflexivity].
Qed.

Lemma aiter_sim fx M n : forall x y, simx x y -> simx (aiter fx M n x) (aiter fx M n y).
Proof. induction n; intros x y H; simpl; [exact H|]. apply IHn. apply astep_sim. exact H. Qed.

Lemma simr_sym_obs u v : simr u v ->
  goodb v = goodb u /\ coreb v = coreb u /\ suspectb v = suspectb u /\ u_ps v = u_ps u /\ u_sl v = u_sl u.
Proof. intros [->|[Hf [a ->]]]; repeat split; reflexivity. Qed.

Lemma canon_sim u : simr u (canon u).
Proof.
  unfold canon. destruct (fresh (u_fcb u) (u_sfcb u)) eqn:Hf; [|left; reflexivity].
  right. split; [exact Hf|]. exists ANone. reflexivity.
Qed.

(* ------------------------------------------------------------------ the two target sets are closed *)

Lemma good_closed fx M x : Goodx x -> Goodx (astep fx M x).
Proof.
  destruct x as [u r]. intros [Hg Hr]. simpl in Hg, Hr. subst r.
  unfold astep. replace (Nat.ltb M 0) with false by (symmetry; apply Nat.ltb_ge; lia). simpl Nat.eqb.
  unfold goodb in Hg.
  repeat (apply andb_prop in Hg; let E := fresh "E" in destruct Hg as [Hg E]).
  apply ps_eqb_eq in Hg. apply sl_eqb_eq in E1. apply Nat.eqb_eq in E0.
  destruct u as [ps fcb nd inf sl sf rs pf cf pd nr].
  cbn [u_ps u_fcb u_sl u_sfcb u_nr] in *. subst ps sl nr.
  unfold body, asend. cbn [u_ps u_fcb u_needed u_inflight u_sl u_sfcb u_resp u_prmf u_cfgf u_pend u_nr set_inflight].
  rewrite E.
  destruct fx as [st i0 dl dly].
  destruct nd, pf, cf, pd, st, i0, dl; destruct fcb; try discriminate E; destruct sf as [[|]|]; try discriminate E;
    split; reflexivity.
Qed.

Lemma core_closed fx M x : Corex M x -> Corex M (astep fx M x).
Proof.
  destruct x as [u r]. intros [Hg Hr]. simpl in Hg, Hr.
  unfold astep. replace (Nat.ltb M r) with false by (symmetry; apply Nat.ltb_ge; lia).
  unfold coreb in Hg.
  repeat (apply andb_prop in Hg; let E := fresh "E" in destruct Hg as [Hg E]).
  apply ps_eqb_eq in Hg. apply sl_eqb_eq in E2. apply negb_true_iff in E1. apply negb_true_iff in E0.
  destruct u as [ps fcb nd inf sl sf rs pf cf pd nr].
  cbn [u_ps u_fcb u_sl u_sfcb u_prmf u_cfgf] in *. subst ps sl pf cf.
  unfold body, asend. cbn [u_ps u_fcb u_needed u_inflight u_sl u_sfcb u_resp u_prmf u_cfgf u_pend u_nr].
  rewrite E.
  destruct fx as [st i0 dl dly].
  destruct dl; destruct fcb; try discriminate E; destruct sf as [[|]|]; try discriminate E;
    (split; [reflexivity|simpl; lia]).
Qed.

Lemma good_stays fx M n x : Goodx x -> Goodx (aiter fx M n x).
Proof. revert x. induction n; intros x H; simpl; [exact H|]. apply IHn. apply good_closed. exact H. Qed.
Lemma core_stays fx M n x : Corex M x -> Corex M (aiter fx M n x).
Proof. revert x. induction n; intros x H; simpl; [exact H|]. apply IHn. apply core_closed. exact H. Qed.

Lemma good_not_core M x : Goodx x -> Corex M x -> False.
Proof.
  destruct x as [u r]. intros [Hg _] [Hc _]. simpl in *. unfold goodb, coreb in *.
  destruct (u_ps u); simpl in *; discriminate.
Qed.

(* ------------------------------------------------------------------ lifting the complete check *)

Lemma in_all_pstates ps : In ps all_pstates.
Proof. destruct ps; simpl; tauto. Qed.
Lemma in_all_b (b : bool) : In b all_b.
Proof. destruct b; simpl; tauto. Qed.
Lemma in_all_sl s : In s all_sl.
Proof. destruct s; simpl; tauto. Qed.
Lemma in_all_sfcb s : In s all_sfcb.
Proof. destruct s as [[|]|]; simpl; tauto. Qed.
Lemma in_all_resp a : In a all_resp.
Proof. destruct a as [| |d x]; [| |destruct d, x]; vm_compute; tauto. Qed.
Lemma in_all_fcb f : f <> FcbInactive -> In f all_fcb.
Proof. destruct f; simpl; intro H; tauto. Qed.
Lemma in_all_nr n : (n <= 2)%nat -> In n all_nr.
Proof. intro H. destruct n as [|[|[|n]]]; simpl; try tauto. lia. Qed.

Lemma forall_u_spec P : forall_u P = true -> forall u, in_range u -> canonical u -> P u = true.
Proof.
  intros H u [Hf Hn] Hc. unfold forall_u in H.
  destruct u as [ps fcb nd inf sl sf rs pf cf pd nr].
  cbn [u_fcb u_nr] in Hf, Hn. unfold canonical in Hc. cbn [u_fcb u_sfcb u_resp] in Hc.
  rewrite forallb_forall in H. specialize (H ps (in_all_pstates ps)).
  rewrite forallb_forall in H. specialize (H fcb (in_all_fcb fcb Hf)).
  rewrite forallb_forall in H. specialize (H nd (in_all_b nd)).
  rewrite forallb_forall in H. specialize (H inf (in_all_b inf)).
  rewrite forallb_forall in H. specialize (H sl (in_all_sl sl)).
  rewrite forallb_forall in H. specialize (H sf (in_all_sfcb sf)).
  rewrite forallb_forall in H.
  assert (Hin : In rs (resp_list fcb sf)).
  { unfold resp_list. destruct (fresh fcb sf); [left; symmetry; apply Hc; reflexivity|apply in_all_resp]. }
  specialize (H rs Hin).
  rewrite forallb_forall in H. specialize (H pf (in_all_b pf)).
  rewrite forallb_forall in H. specialize (H cf (in_all_b cf)).
  rewrite forallb_forall in H. specialize (H pd (in_all_b pd)).
  rewrite forallb_forall in H. exact (H nr (in_all_nr nr Hn)).
Qed.

Lemma in_all_fix fx : fx_ok fx -> In fx all_fix.
Proof.
  destruct fx as [st i0 dl d]. intros [Hd Hi]. simpl in Hd, Hi.
  destruct d as [|[|[|d]]]; [| | |lia]; destruct st, i0, dl; try (specialize (Hi eq_refl); discriminate);
    vm_compute; tauto.
Qed.

Lemma chk_fixes_app l1 l2 : chk_fixes l1 = true -> chk_fixes l2 = true -> chk_fixes (l1 ++ l2) = true.
Proof. unfold chk_fixes. intros H1 H2. rewrite forallb_app, H1, H2. reflexivity. Qed.

Lemma chk_all : chk_fixes all_fix = true.
Proof.
  unfold all_fix. apply chk_fixes_app; [exact chk_fixes_0|].
  apply chk_fixes_app; [exact chk_fixes_1|exact chk_fixes_2].
Qed.

(* stated for a variable list so that no conversion ever meets the closed term `chk_fixes all_fix` *)
Lemma chk_fixes_spec l fx u : chk_fixes l = true -> In fx l -> in_range u -> canonical u ->
  okres u (chk fx 12 u RZ) = true /\ okres u (chk fx 12 u RMid) = true.
Proof.
  intros H Hin Hr Hc. unfold chk_fixes in H.
  rewrite forallb_forall in H. specialize (H fx Hin).
  pose proof (forall_u_spec _ H u Hr Hc) as H2. cbv beta in H2.
  apply andb_prop in H2. exact H2.
Qed.

Lemma chk_state fx u : fx_ok fx -> in_range u -> canonical u ->
  okres u (chk fx 12 u RZ) = true /\ okres u (chk fx 12 u RMid) = true.
Proof. intros Hfx Hr Hc. exact (chk_fixes_spec all_fix fx u chk_all (in_all_fix fx Hfx) Hr Hc). Qed.

Lemma canon_range u : in_range u -> in_range (canon u) /\ canonical (canon u).
Proof.
  intros [H1 H2]. unfold canon, canonical. destruct (fresh (u_fcb u) (u_sfcb u)) eqn:Hf.
  - split; [split; assumption|]. intros _. reflexivity.
  - split; [split; assumption|]. intro H. rewrite Hf in H. discriminate.
Qed.

(* The abstract recovery theorem: from every control state in range, within max_retry + 11 cycles the run is
   in the closed set Good or in the closed set Core (the F15 configuration); Core is only possible from the
   explicit class `suspectb`. *)
Theorem abs_recovery fx M u r : fx_ok fx -> (1 <= M)%nat -> in_range u ->
  exists k, (k <= M + c07_units)%nat /\
    (Goodx (aiter fx M k (u, r)) \/ (suspectb u = true /\ Corex M (aiter fx M k (u, r)))).
Proof.
  intros Hfx HM Hr.
  assert (Gen : forall u a r, in_range u -> absr M r a -> a <> RExh ->
            exists n tok stuck, chk fx 12 (canon u) a = Some (n, tok, stuck) /\
              (n + (if off1 u then 1 else 0) <= c07_units)%nat /\ (stuck = true -> suspectb u = true)).
  { intros u0 a r0 Hr0 Ha Hne. destruct (canon_range u0 Hr0) as [Hcr Hcc].
    destruct (chk_state fx (canon u0) Hfx Hcr Hcc) as [HZ HMid].
    assert (Hobs : off1 (canon u0) = off1 u0 /\ suspectb (canon u0) = suspectb u0).
    { unfold canon. destruct (fresh (u_fcb u0) (u_sfcb u0)); split; reflexivity. }
    destruct Hobs as [Ho Hs].
    destruct a; [| |now elim Hne].
    - unfold okres in HZ. destruct (chk fx 12 (canon u0) RZ) as [[[n tok] stuck]|]; [|discriminate].
      apply andb_prop in HZ. destruct HZ as [H1 H2]. apply Nat.leb_le in H1. rewrite Ho in H1. rewrite Hs in H2.
      exists n, tok, stuck. split; [reflexivity|]. split; [exact H1|]. intro; subst. exact H2.
    - unfold okres in HMid. destruct (chk fx 12 (canon u0) RMid) as [[[n tok] stuck]|]; [|discriminate].
      apply andb_prop in HMid. destruct HMid as [H1 H2]. apply Nat.leb_le in H1. rewrite Ho in H1. rewrite Hs in H2.
      exists n, tok, stuck. split; [reflexivity|]. split; [exact H1|]. intro; subst. exact H2. }
  assert (Lift : forall u a r n tok stuck, in_range u -> absr M r a ->
            chk fx 12 (canon u) a = Some (n, tok, stuck) ->
            exists k, (k <= n + M)%nat /\
              (Goodx (aiter fx M k (u, r)) \/ (stuck = true /\ Corex M (aiter fx M k (u, r))))).
  { intros u0 a r0 n tok stuck Hr0 Ha Hc.
    destruct (chk_sound fx M HM 12 (canon u0) a r0 n tok stuck Hc Ha) as (k & Hk & Hres).
    exists k. split; [destruct tok; lia|].
    assert (Hsim : simx (u0, r0) (canon u0, r0)) by (split; [apply canon_sim|reflexivity]).
    apply (aiter_sim fx M k) in Hsim. destruct Hsim as [Hs1 Hs2].
    destruct (simr_sym_obs _ _ Hs1) as (Hg & Hc' & _).
    destruct Hres as [[G1 G2]|[S [C1 C2]]].
    - left. split; [rewrite <- Hg; exact G1|rewrite Hs2; exact G2].
    - right. split; [exact S|]. split; [rewrite <- Hc'; exact C1|rewrite Hs2; exact C2]. }
  destruct (Nat.eq_dec r 0) as [Hz|Hnz].
  - subst r. destruct (Gen u RZ 0%nat Hr eq_refl) as (n & tok & stuck & Hc & Hn & Hs); [discriminate|].
    destruct (Lift u RZ 0%nat n tok stuck Hr eq_refl Hc) as (k & Hk & Hres).
    exists k. split; [lia|]. destruct Hres as [G|[S C]]; [left; exact G|right; split; [apply Hs; exact S|exact C]].
  - destruct (Nat.le_gt_cases r M) as [Hle|Hgt].
    + assert (Ha : absr M r RMid) by (simpl; lia).
      destruct (Gen u RMid r Hr Ha) as (n & tok & stuck & Hc & Hn & Hs); [discriminate|].
      destruct (Lift u RMid r n tok stuck Hr Ha Hc) as (k & Hk & Hres).
      exists k. split; [lia|]. destruct Hres as [G|[S C]]; [left; exact G|right; split; [apply Hs; exact S|exact C]].
    + (* exhausted: one cycle to Offline, then the RZ result for that state *)
      assert (Hr' : in_range (go_offline u)).
      { destruct Hr as [H1 H2]. split; [simpl; discriminate|exact H2]. }
      destruct (Gen (go_offline u) RZ 0%nat Hr' eq_refl) as (n & tok & stuck & Hc & Hn & Hs); [discriminate|].
      destruct (Lift (go_offline u) RZ 0%nat n tok stuck Hr' eq_refl Hc) as (k & Hk & Hres).
      exists (S k). split; [simpl in Hn; lia|].
      rewrite aiter_S.
      assert (Hex : astep fx M (u, r) = (go_offline u, 0%nat)).
      { unfold astep. replace (Nat.ltb M r) with true by (symmetry; apply Nat.ltb_lt; lia). reflexivity. }
      rewrite Hex.
      destruct Hres as [G|[S C]]; [left; exact G|].
      specialize (Hs S). unfold suspectb in Hs. simpl in Hs. rewrite andb_false_r in Hs. discriminate.
Qed.
