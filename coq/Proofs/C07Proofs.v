(* C07: proofs.  Definitions of the joint system and of the control abstraction are in C07Abs.v, the
   complete check of the finite control space (vm_compute) in C07Check0/1/2.v. *)
From PB Require Import C07Abs C07Joint C07Check0 C07Check1 C07Check2 C09Proofs DpStepProofs.

(* ================================================================== A. the abstract system *)

Lemma ps_eqb_eq a b : ps_eqb a b = true -> a = b.
Proof. destruct a, b; simpl; intro H; try reflexivity; discriminate. Qed.
Lemma fcb_eqb_eq a b : fcb_eqb a b = true -> a = b.
Proof. destruct a, b; simpl; intro H; try reflexivity; discriminate. Qed.
Lemma sl_eqb_eq a b : sl_state_eqb a b = true -> a = b.
Proof. destruct a, b; simpl; intro H; try reflexivity; discriminate. Qed.
Lemma ob_eqb_eq a b : ob_eqb a b = true -> a = b.
Proof. destruct a as [[|]|], b as [[|]|]; simpl; intro H; try reflexivity; discriminate. Qed.
Lemma areply_eqb_eq a b : areply_eqb a b = true -> a = b.
Proof.
  destruct a as [| |d x], b as [| |e y]; simpl; intro H; try reflexivity; try discriminate.
  apply andb_prop in H. destruct H as [H1 H2].
  destruct d, e; try discriminate; destruct x, y; try discriminate; reflexivity.
Qed.
Lemma ust_eqb_eq a b : ust_eqb a b = true -> a = b.
Proof.
  unfold ust_eqb. intro H.
  repeat (apply andb_prop in H; let H2 := fresh "E" in destruct H as [H H2]).
  destruct a as [a1 a2 a3 a4 a5 a6 a7 a8 a9 a10 a11], b as [b1 b2 b3 b4 b5 b6 b7 b8 b9 b10 b11];
  cbn [u_ps u_fcb u_needed u_inflight u_sl u_sfcb u_resp u_prmf u_cfgf u_pend u_nr] in *.
  repeat match goal with
  | X : ps_eqb _ _ = true |- _ => apply ps_eqb_eq in X
  | X : fcb_eqb _ _ = true |- _ => apply fcb_eqb_eq in X
  | X : sl_state_eqb _ _ = true |- _ => apply sl_eqb_eq in X
  | X : ob_eqb _ _ = true |- _ => apply ob_eqb_eq in X
  | X : areply_eqb _ _ = true |- _ => apply areply_eqb_eq in X
  | X : Bool.eqb _ _ = true |- _ => apply eqb_prop in X
  | X : Nat.eqb _ _ = true |- _ => apply Nat.eqb_eq in X
  end.
  subst. reflexivity.
Qed.

Lemma aiter_S fx M n x : aiter fx M (S n) x = aiter fx M n (astep fx M x).
Proof. reflexivity. Qed.
Lemma aiter_add fx M a b x : aiter fx M (a + b) x = aiter fx M b (aiter fx M a x).
Proof. revert x. induction a; intro x; simpl; [reflexivity|apply IHa]. Qed.

(* a request that is neither accepted nor changes anything is repeated until the retries run out *)
Lemma stutter fx M u r j :
  (1 <= r)%nat -> body fx false u = (u, false) -> (r + j <= M + 1)%nat ->
  aiter fx M j (u, r) = (u, (r + j)%nat).
Proof.
  intros Hr Hb. revert r Hr. induction j; intros r Hr Hj.
  - simpl. f_equal. lia.
  - rewrite aiter_S. unfold astep at 1.
    destruct (Nat.ltb_spec M r) as [H|H]; [lia|].
    destruct (Nat.eqb_spec r 0) as [H0|H0]; [lia|].
    rewrite Hb. rewrite IHj by lia. f_equal. lia.
Qed.

Lemma chk_sound fx M : (1 <= M)%nat -> forall fuel u a r n tok stuck,
  chk fx fuel u a = Some (n, tok, stuck) -> absr M r a ->
  exists k, (k <= n + (if tok then M else 0))%nat /\
            (Goodx (aiter fx M k (u, r)) \/ (stuck = true /\ Corex M (aiter fx M k (u, r)))).
Proof.
  intros HM. induction fuel as [|f IH]; intros u a r n tok stuck Hc Ha.
  - simpl in Hc.
    destruct (match a with RZ => goodb u | _ => false end) eqn:Hg.
    + inversion Hc; subst. exists 0%nat. split; [lia|]. left. destruct a; try discriminate.
      simpl in Ha. subst. split; [exact Hg|reflexivity].
    + destruct (match a with RExh => false | _ => coreb u end) eqn:Hk; [|discriminate].
      inversion Hc; subst. exists 0%nat. split; [lia|]. right. split; [reflexivity|].
      destruct a; try discriminate; simpl in Ha; (split; [exact Hk|simpl; lia]).
  - cbn [chk] in Hc.
    destruct (match a with RZ => goodb u | _ => false end) eqn:Hg.
    { inversion Hc; subst. exists 0%nat. split; [lia|]. left. destruct a; try discriminate.
      simpl in Ha. subst. split; [exact Hg|reflexivity]. }
    destruct (match a with RExh => false | _ => coreb u end) eqn:Hk.
    { inversion Hc; subst. exists 0%nat. split; [lia|]. right. split; [reflexivity|].
      destruct a; try discriminate; simpl in Ha; (split; [exact Hk|simpl; lia]). }
    clear Hg Hk.
    destruct a; simpl in Ha.
    + (* RZ *) subst r.
      destruct (body fx true u) as [u' reset] eqn:Hb.
      destruct (chk fx f u' (if reset then RZ else RMid)) as [[[n' t'] s']|] eqn:Hc'; [|discriminate].
      simpl in Hc. inversion Hc; subst.
      destruct (IH u' _ (if reset then 0%nat else 1%nat) _ _ _ Hc') as (k & Hk & Hr).
      { destruct reset; simpl; lia. }
      exists (S k). split; [lia|]. rewrite aiter_S. unfold astep.
      replace (Nat.ltb M 0) with false by (symmetry; apply Nat.ltb_ge; lia).
      simpl Nat.eqb. rewrite Hb. exact Hr.
    + (* RMid *)
      destruct (body fx false u) as [u' reset] eqn:Hb.
      assert (Hstep : astep fx M (u, r) = (u', if reset then 0%nat else S r)).
      { unfold astep. destruct (Nat.ltb_spec M r) as [H|H]; [lia|].
        destruct (Nat.eqb_spec r 0) as [H0|H0]; [lia|]. rewrite Hb. reflexivity. }
      destruct reset.
      * destruct (chk fx f u' RZ) as [[[n' t'] s']|] eqn:Hc'; [|discriminate].
        simpl in Hc. inversion Hc; subst.
        destruct (IH u' _ 0%nat _ _ _ Hc') as (k & Hk & Hr); [reflexivity|].
        exists (S k). split; [lia|]. rewrite aiter_S, Hstep. exact Hr.
      * destruct (ust_eqb u' u) eqn:He.
        { apply ust_eqb_eq in He. subst u'.
          destruct (chk fx f (go_offline u) RZ) as [[[n' t'] s']|] eqn:Hc'; [|discriminate].
          destruct t'; [discriminate|]. inversion Hc; subst.
          destruct (IH (go_offline u) _ 0%nat _ _ _ Hc') as (k & Hk & Hr); [reflexivity|].
          exists ((M + 1 - r) + S k)%nat. split; [lia|].
          rewrite aiter_add. rewrite (stutter fx M u r (M + 1 - r)) by (try assumption; lia).
          rewrite aiter_S.
          assert (Hex : astep fx M (u, (r + (M + 1 - r))%nat) = (go_offline u, 0%nat)).
          { unfold astep. replace (Nat.ltb M (r + (M + 1 - r))) with true by (symmetry; apply Nat.ltb_lt; lia).
            reflexivity. }
          rewrite Hex. exact Hr. }
        destruct (chk fx f u' RMid) as [[[n1 t1] s1]|] eqn:Hc1; [|discriminate].
        destruct (chk fx f u' RExh) as [[[n2 t2] s2]|] eqn:Hc2; [|discriminate].
        simpl in Hc. inversion Hc; subst.
        destruct (Nat.le_gt_cases (S r) M) as [Hle|Hgt].
        { destruct (IH u' _ (S r) _ _ _ Hc1) as (k & Hk & Hr); [simpl; lia|].
          exists (S k). split; [destruct t1, t2; simpl; lia|]. rewrite aiter_S, Hstep.
          destruct Hr as [Hr|[Hs Hr]]; [left; exact Hr|right; split; [subst; reflexivity|exact Hr]]. }
        { destruct (IH u' _ (S r) _ _ _ Hc2) as (k & Hk & Hr); [simpl; lia|].
          exists (S k). split; [destruct t1, t2; simpl; lia|]. rewrite aiter_S, Hstep.
          destruct Hr as [Hr|[Hs Hr]]; [left; exact Hr|right; split; [subst; apply orb_true_r|exact Hr]]. }
    + (* RExh *)
      destruct (chk fx f (go_offline u) RZ) as [[[n' t'] s']|] eqn:Hc'; [|discriminate].
      simpl in Hc. inversion Hc; subst.
      destruct (IH (go_offline u) _ 0%nat _ _ _ Hc') as (k & Hk & Hr); [reflexivity|].
      exists (S k). split; [lia|]. rewrite aiter_S. unfold astep.
      replace (Nat.ltb M r) with true by (symmetry; apply Nat.ltb_lt; lia). exact Hr.
Qed.

(* ------------------------------------------------------------------ the stored response is irrelevant while the
   next request is not a retransmission *)

Definition simr (u v : ust) : Prop :=
  u = v \/ (fresh (u_fcb u) (u_sfcb u) = true /\ exists a, v = set_resp u a).

Lemma asend_fresh fx k u a : fresh (u_fcb u) (u_sfcb u) = true -> asend fx k (set_resp u a) = asend fx k u.
Proof.
  intro H. unfold asend. cbn [set_resp u_ps u_fcb u_needed u_inflight u_sl u_sfcb u_resp u_prmf u_cfgf u_pend u_nr].
  rewrite H. reflexivity.
Qed.

Lemma body_sim fx z u v : simr u v ->
  snd (body fx z u) = snd (body fx z v) /\ simr (fst (body fx z u)) (fst (body fx z v)).
Proof.
  intros [->|[Hf [a ->]]]; [split; [reflexivity|left; reflexivity]|].
  unfold body. cbn [set_resp u_ps u_needed].
  destruct (u_ps u) eqn:Hps.
  - destruct z.
    + rewrite asend_fresh by exact Hf. split; [reflexivity|left; reflexivity].
    + split; [reflexivity|]. right. split; [reflexivity|]. exists a. reflexivity.
  - rewrite asend_fresh by exact Hf. split; [reflexivity|left; reflexivity].
  - rewrite asend_fresh by exact Hf. split; [reflexivity|left; reflexivity].
  - rewrite asend_fresh by exact Hf. split; [reflexivity|left; reflexivity].
  - destruct z.
    + change (set_inflight (set_resp u a) (u_needed u)) with (set_resp (set_inflight u (u_needed u)) a).
      cbn [set_inflight set_resp u_inflight].
      rewrite asend_fresh by exact Hf. split; [reflexivity|left; reflexivity].
    + cbn [set_resp u_inflight]. rewrite asend_fresh by exact Hf. split; [reflexivity|left; reflexivity].
  - destruct z.
    + change (set_inflight (set_resp u a) (u_needed u)) with (set_resp (set_inflight u (u_needed u)) a).
      cbn [set_inflight set_resp u_inflight].
      rewrite asend_fresh by exact Hf. split; [reflexivity|left; reflexivity].
    + cbn [set_resp u_inflight]. rewrite asend_fresh by exact Hf. split; [reflexivity|left; reflexivity].
Qed.

Definition simx (x y : ust * nat) : Prop := simr (fst x) (fst y) /\ snd x = snd y.

Lemma go_offline_sim u v : simr u v -> simr (go_offline u) (go_offline v).
Proof.
  intros [->|[Hf [a ->]]]; [left; reflexivity|]. right. split; [reflexivity|]. exists a. reflexivity.
Qed.

Lemma astep_sim fx M x y : simx x y -> simx (astep fx M x) (astep fx M y).
Proof.
  destruct x as [u r], y as [v r']. intros [Hs Hr]. simpl in Hs, Hr. subst r'.
  unfold astep. destruct (Nat.ltb M r).
  - split; [apply go_offline_sim; exact Hs|reflexivity].
  - destruct (body_sim fx (Nat.eqb r 0) u v Hs) as [H1 H2].
    destruct (body fx (Nat.eqb r 0) u) as [u' b], (body fx (Nat.eqb r 0) v) as [v' b']. simpl in H1, H2. subst b'.
    split; [exact H2|reflexivity].
Qed.

Lemma aiter_sim fx M n : forall x y, simx x y -> simx (aiter fx M n x) (aiter fx M n y).
Proof. induction n; intros x y H; simpl; [exact H|]. apply IHn. apply astep_sim. exact H. Qed.

Lemma simr_sym_obs u v : simr u v ->
  goodb v = goodb u /\ coreb v = coreb u /\ suspectb v = suspectb u /\ u_ps v = u_ps u /\ u_sl v = u_sl u.
Proof. intros [->|[Hf [a ->]]]; repeat split; reflexivity. Qed.

Lemma canon_sim u : simr u (canon u).
Proof.
  unfold canon. destruct (fresh (u_fcb u) (u_sfcb u)) eqn:Hf; [|left; reflexivity].
  right. split; [exact Hf|]. exists ANone. reflexivity.
Qed.

(* ------------------------------------------------------------------ the two target sets are closed *)

Lemma good_closed fx M x : Goodx x -> Goodx (astep fx M x).
Proof.
  destruct x as [u r]. intros [Hg Hr]. simpl in Hg, Hr. subst r.
  unfold astep. replace (Nat.ltb M 0) with false by (symmetry; apply Nat.ltb_ge; lia). simpl Nat.eqb.
  unfold goodb in Hg.
  repeat (apply andb_prop in Hg; let E := fresh "E" in destruct Hg as [Hg E]).
  apply ps_eqb_eq in Hg. apply sl_eqb_eq in E1. apply Nat.eqb_eq in E0.
  destruct u as [ps fcb nd inf sl sf rs pf cf pd nr].
  cbn [u_ps u_fcb u_sl u_sfcb u_nr] in *. subst ps sl nr.
  unfold body, asend. cbn [u_ps u_fcb u_needed u_inflight u_sl u_sfcb u_resp u_prmf u_cfgf u_pend u_nr set_inflight].
  rewrite E.
  destruct fx as [st i0 dl dly].
  destruct nd, pf, cf, pd, st, i0, dl; destruct fcb; try discriminate E; destruct sf as [[|]|]; try discriminate E;
    split; reflexivity.
Qed.

Lemma core_closed fx M x : Corex M x -> Corex M (astep fx M x).
Proof.
  destruct x as [u r]. intros [Hg Hr]. simpl in Hg, Hr.
  unfold astep. replace (Nat.ltb M r) with false by (symmetry; apply Nat.ltb_ge; lia).
  unfold coreb in Hg.
  repeat (apply andb_prop in Hg; let E := fresh "E" in destruct Hg as [Hg E]).
  apply ps_eqb_eq in Hg. apply sl_eqb_eq in E2. apply negb_true_iff in E1. apply negb_true_iff in E0.
  destruct u as [ps fcb nd inf sl sf rs pf cf pd nr].
  cbn [u_ps u_fcb u_sl u_sfcb u_prmf u_cfgf] in *. subst ps sl pf cf.
  unfold body, asend. cbn [u_ps u_fcb u_needed u_inflight u_sl u_sfcb u_resp u_prmf u_cfgf u_pend u_nr].
  rewrite E.
  destruct fx as [st i0 dl dly].
  destruct dl; destruct fcb; try discriminate E; destruct sf as [[|]|]; try discriminate E;
    (split; [reflexivity|simpl; lia]).
Qed.

Lemma good_stays fx M n x : Goodx x -> Goodx (aiter fx M n x).
Proof. revert x. induction n; intros x H; simpl; [exact H|]. apply IHn. apply good_closed. exact H. Qed.
Lemma core_stays fx M n x : Corex M x -> Corex M (aiter fx M n x).
Proof. revert x. induction n; intros x H; simpl; [exact H|]. apply IHn. apply core_closed. exact H. Qed.

Lemma good_not_core M x : Goodx x -> Corex M x -> False.
Proof.
  destruct x as [u r]. intros [Hg _] [Hc _]. simpl in *. unfold goodb, coreb in *.
  destruct (u_ps u); simpl in *; discriminate.
Qed.

(* ------------------------------------------------------------------ lifting the complete check *)

Lemma in_all_pstates ps : In ps all_pstates.
Proof. destruct ps; simpl; tauto. Qed.
Lemma in_all_b (b : bool) : In b all_b.
Proof. destruct b; simpl; tauto. Qed.
Lemma in_all_sl s : In s all_sl.
Proof. destruct s; simpl; tauto. Qed.
Lemma in_all_sfcb s : In s all_sfcb.
Proof. destruct s as [[|]|]; simpl; tauto. Qed.
Lemma in_all_resp a : In a all_resp.
Proof. destruct a as [| |d x]; [| |destruct d, x]; vm_compute; tauto. Qed.
Lemma in_all_fcb f : f <> FcbInactive -> In f all_fcb.
Proof. destruct f; simpl; intro H; tauto. Qed.
Lemma in_all_nr n : (n <= 2)%nat -> In n all_nr.
Proof. intro H. destruct n as [|[|[|n]]]; simpl; try tauto. lia. Qed.

Lemma forall_u_spec P : forall_u P = true -> forall u, in_range u -> canonical u -> P u = true.
Proof.
  intros H u [Hf Hn] Hc. unfold forall_u in H.
  destruct u as [ps fcb nd inf sl sf rs pf cf pd nr].
  cbn [u_fcb u_nr] in Hf, Hn. unfold canonical in Hc. cbn [u_fcb u_sfcb u_resp] in Hc.
  rewrite forallb_forall in H. specialize (H ps (in_all_pstates ps)).
  rewrite forallb_forall in H. specialize (H fcb (in_all_fcb fcb Hf)).
  rewrite forallb_forall in H. specialize (H nd (in_all_b nd)).
  rewrite forallb_forall in H. specialize (H inf (in_all_b inf)).
  rewrite forallb_forall in H. specialize (H sl (in_all_sl sl)).
  rewrite forallb_forall in H. specialize (H sf (in_all_sfcb sf)).
  rewrite forallb_forall in H.
  assert (Hin : In rs (resp_list fcb sf)).
  { unfold resp_list. destruct (fresh fcb sf); [left; symmetry; apply Hc; reflexivity|apply in_all_resp]. }
  specialize (H rs Hin).
  rewrite forallb_forall in H. specialize (H pf (in_all_b pf)).
  rewrite forallb_forall in H. specialize (H cf (in_all_b cf)).
  rewrite forallb_forall in H. specialize (H pd (in_all_b pd)).
  rewrite forallb_forall in H. exact (H nr (in_all_nr nr Hn)).
Qed.

Lemma in_all_fix fx : fx_ok fx -> In fx all_fix.
Proof.
  destruct fx as [st i0 dl d]. intros [Hd Hi]. simpl in Hd, Hi.
  destruct d as [|[|[|d]]]; [| | |lia]; destruct st, i0, dl; try (specialize (Hi eq_refl); discriminate);
    vm_compute; tauto.
Qed.

Lemma chk_fixes_app l1 l2 : chk_fixes l1 = true -> chk_fixes l2 = true -> chk_fixes (l1 ++ l2) = true.
Proof. unfold chk_fixes. intros H1 H2. rewrite forallb_app, H1, H2. reflexivity. Qed.

Lemma chk_all : chk_fixes all_fix = true.
Proof.
  unfold all_fix. apply chk_fixes_app; [exact chk_fixes_0|].
  apply chk_fixes_app; [exact chk_fixes_1|exact chk_fixes_2].
Qed.

(* stated for a variable list so that no conversion ever meets the closed term `chk_fixes all_fix` *)
Lemma chk_fixes_spec l fx u : chk_fixes l = true -> In fx l -> in_range u -> canonical u ->
  okres u (chk fx 12 u RZ) = true /\ okres u (chk fx 12 u RMid) = true.
Proof.
  intros H Hin Hr Hc. unfold chk_fixes in H.
  rewrite forallb_forall in H. specialize (H fx Hin).
  pose proof (forall_u_spec _ H u Hr Hc) as H2. cbv beta in H2.
  apply andb_prop in H2. exact H2.
Qed.

Lemma chk_state fx u : fx_ok fx -> in_range u -> canonical u ->
  okres u (chk fx 12 u RZ) = true /\ okres u (chk fx 12 u RMid) = true.
Proof. intros Hfx Hr Hc. exact (chk_fixes_spec all_fix fx u chk_all (in_all_fix fx Hfx) Hr Hc). Qed.

Lemma canon_range u : in_range u -> in_range (canon u) /\ canonical (canon u).
Proof.
  intros [H1 H2]. unfold canon, canonical. destruct (fresh (u_fcb u) (u_sfcb u)) eqn:Hf.
  - split; [split; assumption|]. intros _. reflexivity.
  - split; [split; assumption|]. intro H. rewrite Hf in H. discriminate.
Qed.

(* The abstract recovery theorem: from every control state in range, within max_retry + 11 cycles the run is
   in the closed set Good or in the closed set Core (the F15 configuration); Core is only possible from the
   explicit class `suspectb`. *)
Theorem abs_recovery fx M u r : fx_ok fx -> (1 <= M)%nat -> in_range u ->
  exists k, (k <= M + c07_units)%nat /\
    (Goodx (aiter fx M k (u, r)) \/ (suspectb u = true /\ Corex M (aiter fx M k (u, r)))).
Proof.
  intros Hfx HM Hr.
  assert (Gen : forall u a r, in_range u -> absr M r a -> a <> RExh ->
            exists n tok stuck, chk fx 12 (canon u) a = Some (n, tok, stuck) /\
              (n + (if off1 u then 1 else 0) <= c07_units)%nat /\ (stuck = true -> suspectb u = true)).
  { intros u0 a r0 Hr0 Ha Hne. destruct (canon_range u0 Hr0) as [Hcr Hcc].
    destruct (chk_state fx (canon u0) Hfx Hcr Hcc) as [HZ HMid].
    assert (Hobs : off1 (canon u0) = off1 u0 /\ suspectb (canon u0) = suspectb u0).
    { unfold canon. destruct (fresh (u_fcb u0) (u_sfcb u0)); split; reflexivity. }
    destruct Hobs as [Ho Hs].
    destruct a; [| |now elim Hne].
    - unfold okres in HZ. destruct (chk fx 12 (canon u0) RZ) as [[[n tok] stuck]|]; [|discriminate].
      apply andb_prop in HZ. destruct HZ as [H1 H2]. apply Nat.leb_le in H1. rewrite Ho in H1. rewrite Hs in H2.
      exists n, tok, stuck. split; [reflexivity|]. split; [exact H1|]. intro; subst. exact H2.
    - unfold okres in HMid. destruct (chk fx 12 (canon u0) RMid) as [[[n tok] stuck]|]; [|discriminate].
      apply andb_prop in HMid. destruct HMid as [H1 H2]. apply Nat.leb_le in H1. rewrite Ho in H1. rewrite Hs in H2.
      exists n, tok, stuck. split; [reflexivity|]. split; [exact H1|]. intro; subst. exact H2. }
  assert (Lift : forall u a r n tok stuck, in_range u -> absr M r a ->
            chk fx 12 (canon u) a = Some (n, tok, stuck) ->
            exists k, (k <= n + M)%nat /\
              (Goodx (aiter fx M k (u, r)) \/ (stuck = true /\ Corex M (aiter fx M k (u, r))))).
  { intros u0 a r0 n tok stuck Hr0 Ha Hc.
    destruct (chk_sound fx M HM 12 (canon u0) a r0 n tok stuck Hc Ha) as (k & Hk & Hres).
    exists k. split; [destruct tok; lia|].
    assert (Hsim : simx (u0, r0) (canon u0, r0)) by (split; [apply canon_sim|reflexivity]).
    apply (aiter_sim fx M k) in Hsim. destruct Hsim as [Hs1 Hs2].
    destruct (simr_sym_obs _ _ Hs1) as (Hg & Hc' & _).
    destruct Hres as [[G1 G2]|[S [C1 C2]]].
    - left. split; [rewrite <- Hg; exact G1|rewrite Hs2; exact G2].
    - right. split; [exact S|]. split; [rewrite <- Hc'; exact C1|rewrite Hs2; exact C2]. }
  destruct (Nat.eq_dec r 0) as [Hz|Hnz].
  - subst r. destruct (Gen u RZ 0%nat Hr eq_refl) as (n & tok & stuck & Hc & Hn & Hs); [discriminate|].
    destruct (Lift u RZ 0%nat n tok stuck Hr eq_refl Hc) as (k & Hk & Hres).
    exists k. split; [lia|]. destruct Hres as [G|[S C]]; [left; exact G|right; split; [apply Hs; exact S|exact C]].
  - destruct (Nat.le_gt_cases r M) as [Hle|Hgt].
    + assert (Ha : absr M r RMid) by (simpl; lia).
      destruct (Gen u RMid r Hr Ha) as (n & tok & stuck & Hc & Hn & Hs); [discriminate|].
      destruct (Lift u RMid r n tok stuck Hr Ha Hc) as (k & Hk & Hres).
      exists k. split; [lia|]. destruct Hres as [G|[S C]]; [left; exact G|right; split; [apply Hs; exact S|exact C]].
    + (* exhausted: one cycle to Offline, then the RZ result for that state *)
      assert (Hr' : in_range (go_offline u)).
      { destruct Hr as [H1 H2]. split; [simpl; discriminate|exact H2]. }
      destruct (Gen (go_offline u) RZ 0%nat Hr' eq_refl) as (n & tok & stuck & Hc & Hn & Hs); [discriminate|].
      destruct (Lift (go_offline u) RZ 0%nat n tok stuck Hr' eq_refl Hc) as (k & Hk & Hres).
      exists (S k). split; [simpl in Hn; lia|].
      rewrite aiter_S.
      assert (Hex : astep fx M (u, r) = (go_offline u, 0%nat)).
      { unfold astep. replace (Nat.ltb M r) with true by (symmetry; apply Nat.ltb_lt; lia). reflexivity. }
      rewrite Hex.
      destruct Hres as [G|[S C]]; [left; exact G|].
      specialize (Hs S). unfold suspectb in Hs. simpl in Hs. rewrite andb_false_r in Hs. discriminate.
Qed.

(* ================================================================== B. the reference slave *)

(* C07_slave_retry_detection: a request with FCV=1 and the stored bit is answered with the stored response and
   changes nothing; every other request (FCV=0/FCB=1 in particular) is processed and its response and bit stored *)
Lemma slave_step_request s h pdu f rq :
  sl_silent s = false -> wf_header h -> (length_byte h (length pdu) <= 249)%nat ->
  h_fc h = FcRequest f rq -> (rq = RqSrdLow \/ rq = RqSrdHigh) -> h_da h = sl_addr s ->
  slave_step s (frame_spec h pdu) =
    if fresh f (sl_fcb s)
    then let (s1, resp) := slave_process s h pdu in (slave_store s1 (stored f) resp, resp)
    else (s, sl_resp s).
Proof.
  intros Hs Hwf Hlen Hfc Hrq Hda. unfold slave_step. rewrite Hs.
  rewrite <- (app_nil_r (frame_spec h pdu)) at 1. rewrite (decode_data_frame h pdu [] Hwf Hlen).
  rewrite frame_spec_length, Nat.eqb_refl. cbn [negb]. rewrite Hfc, Hda, Z.eqb_refl, orb_true_r. cbn [negb].
  unfold fresh, stored.
  destruct Hrq as [-> | ->]; destruct f; cbn [fcbit_fcv fcbit_fcb negb orb];
    destruct (sl_fcb s) as [[|]|]; cbn [Bool.eqb negb]; try reflexivity;
    destruct (slave_process s h pdu); reflexivity.
Qed.

Lemma deliver_data own da h pdu rl st :
  wf_header h -> (length_byte h (length pdu) <= 249)%nat ->
  h_sa h = da -> h_da h = own -> h_fc h = FcResponse rl st ->
  deliver own da (Some (frame_spec h pdu)) = Some (TData h pdu).
Proof.
  intros Hwf Hlen Hsa Hda Hfc. unfold deliver.
  rewrite <- (app_nil_r (frame_spec h pdu)) at 1. rewrite (decode_data_frame h pdu [] Hwf Hlen).
  rewrite frame_spec_length, Nat.eqb_refl. unfold admissible. rewrite Hsa, Hda, Hfc, !Z.eqb_refl. reflexivity.
Qed.

Lemma deliver_sc own da : deliver own da (Some encode_sc) = Some TShortConf.
Proof.
  unfold deliver. rewrite <- (app_nil_r encode_sc). rewrite decode_sc_frame. reflexivity.
Qed.

(* whatever is delivered is admissible *)
Lemma deliver_admissible own da r t : deliver own da r = Some t -> admissible own da t = true.
Proof.
  unfold deliver. destruct r as [w|]; [|discriminate].
  destruct (decode w) as [[| |t' n]| |]; try discriminate.
  destruct (Nat.eqb n (length w)); [|discriminate]. cbn [andb].
  destruct (admissible own da t') eqn:Ha; [|discriminate]. intro H. inversion H. subst. exact Ha.
Qed.

(* the diagnostics flags of a slave that is not forced to lie *)
Definition sdiag_flags (nr cf e pf wp sd wd fr sy : bool) : Z :=
  flags_remove (Z.lor (bit nr 2 + bit cf 4 + bit e 8 + bit pf 64) 0 +
                256 * Z.lor (bit wp 1 + bit sd 2 + 4 + bit wd 8 + bit fr 16 + bit sy 32) 0) DF_PERMANENT_BIT.

Lemma sdiag_flags_spec nr cf e pf wp sd wd fr sy :
  flags_contains (sdiag_flags nr cf e pf wp sd wd fr sy) DF_PARAMETER_FAULT = pf /\
  flags_contains (sdiag_flags nr cf e pf wp sd wd fr sy) DF_CONFIGURATION_FAULT = cf /\
  flags_contains (sdiag_flags nr cf e pf wp sd wd fr sy) DF_PARAMETER_REQUIRED = wp /\
  flags_contains (sdiag_flags nr cf e pf wp sd wd fr sy) DF_STATION_NOT_READY = nr.
Proof. destruct nr, cf, e, pf, wp, sd, wd, fr, sy; vm_compute; repeat split; reflexivity. Qed.

(* ================================================================== C. the peripheral's reply handler *)

Definition pflags (pdu : bytes) : Z := flags_remove (nth 0 pdu 0 + 256 * nth 1 pdu 0) DF_PERMANENT_BIT.

Lemma cyc_ok f : f <> FcbInactive -> fcb_cycle f = Ok (cyc f).
Proof. destruct f; intro H; try reflexivity. now elim H. Qed.

Lemma handle_diag_spec p h pdu : pe_fcb p <> FcbInactive ->
  (dg_class h pdu = DgNone -> p_handle_diag p (TData h pdu) = Ok (p, None)) /\
  (dg_class h pdu <> DgNone ->
     exists d x, p_handle_diag p (TData h pdu) = Ok (set_diag (set_fcb p (cyc (pe_fcb p))) (Some d) x, Some d) /\
                 d_flags d = pflags pdu).
Proof.
  intro Hf. unfold dg_class, p_handle_diag.
  destruct (opt_eqb (h_dsap h) dp_diag_reply_dsap); cbn [negb andb]; [|split; [reflexivity|intro H; now elim H]].
  destruct (opt_eqb (h_ssap h) dp_diag_reply_ssap); cbn [negb andb]; [|split; [reflexivity|intro H; now elim H]].
  destruct (Nat.leb_spec dp_diag_min_len (length pdu)) as [Hl|Hl].
  - replace (Nat.ltb (length pdu) dp_diag_min_len) with false by (symmetry; apply Nat.ltb_ge; exact Hl).
    split.
    + intro H. exfalso.
      destruct (flags_contains _ DF_PARAMETER_FAULT || flags_contains _ DF_CONFIGURATION_FAULT);
      destruct (flags_contains _ DF_PARAMETER_REQUIRED); try discriminate;
      destruct (flags_contains _ DF_STATION_NOT_READY); discriminate.
    + intros _.
      destruct pdu as [|b0 [|b1 [|b2 [|b3 [|b4 [|b5 tl]]]]]]; try (unfold dp_diag_min_len in Hl; simpl in Hl; lia).
      unfold get, dp_diag_master_pos. cbn [nth_error bind nth].
      destruct (flags_contains _ DF_EXT_DIAG).
      * unfold slice_from. cbn [length Nat.leb bind skipn]. rewrite (cyc_ok _ Hf). cbn [bind].
        eexists; eexists; split; [reflexivity|]. reflexivity.
      * cbn [bind]. rewrite (cyc_ok _ Hf). cbn [bind].
        eexists; eexists; split; [reflexivity|]. reflexivity.
  - replace (Nat.ltb (length pdu) dp_diag_min_len) with true by (symmetry; apply Nat.ltb_lt; exact Hl).
    split; [reflexivity|intro H; now elim H].
Qed.

Lemma class_flags h pdu : dg_class h pdu <> DgNone ->
  fst (validate_outcome (pflags pdu)) =
    match dg_class h pdu with
    | DgFaultPrm | DgFault => PsOffline
    | DgPrm => PsWaitForParam
    | DgNotReady => PsValidateConfig
    | _ => PsPreDataExchange
    end /\
  flags_contains (pflags pdu) DF_PARAMETER_REQUIRED = dg_prmreq (dg_class h pdu).
Proof.
  unfold dg_class, validate_outcome. fold (pflags pdu).
  destruct (opt_eqb (h_dsap h) dp_diag_reply_dsap && opt_eqb (h_ssap h) dp_diag_reply_ssap &&
            Nat.leb dp_diag_min_len (length pdu)); [|intro H; now elim H].
  intros _.
  destruct (flags_contains (pflags pdu) DF_PARAMETER_FAULT), (flags_contains (pflags pdu) DF_CONFIGURATION_FAULT),
           (flags_contains (pflags pdu) DF_PARAMETER_REQUIRED), (flags_contains (pflags pdu) DF_STATION_NOT_READY);
    split; reflexivity.
Qed.

Definition resp_ok (t : telegram) : Prop :=
  match t with
  | TToken _ _ => False
  | TShortConf => True
  | TData h _ => exists r st, h_fc h = FcResponse r st
  end.

Lemma admissible_resp_ok own da t : admissible own da t = true -> resp_ok t.
Proof.
  destruct t as [h pdu|d s|]; simpl; intro H; [|discriminate|exact I].
  apply andb_prop in H. destruct H as [_ H]. destruct (h_fc h) as [|r st]; [discriminate|]. eauto.
Qed.

Ltac psimp := cbn [pe_addr pe_state pe_retry pe_fcb pe_pi_i pe_pi_q pe_diag pe_ext pe_diag_needed pe_diag_in_flight pe_opts
                   set_state set_retry set_fcb set_pi_i set_pi_q set_diag set_diag_needed set_diag_in_flight].

Lemma recv_sound fx p t : pe_fcb p <> FcbInactive -> f_in0 fx = Nat.eqb (length (pe_pi_i p)) 0 -> resp_ok t ->
  exists p' ev acc, p_receive_reply p t = Ok (p', ev) /\
    mrecv fx (pe_state p) (pe_fcb p) (pe_diag_needed p) (pe_diag_in_flight p)
          (class_of (length (pe_pi_i p)) (Some t)) = (pe_state p', pe_fcb p', pe_diag_needed p', acc) /\
    pe_retry p' = (if acc then 0 else pe_retry p) /\
    pe_diag_in_flight p' = pe_diag_in_flight p /\ pe_addr p' = pe_addr p /\ pe_opts p' = pe_opts p /\
    pe_pi_q p' = pe_pi_q p /\ length (pe_pi_i p') = length (pe_pi_i p).
Proof.
  intros Hf Hin Hok. unfold p_receive_reply.
  destruct (pe_state p) eqn:Hst.
  - (* Offline *)
    destruct t as [h pdu|d s|]; [|now elim Hok|].
    + destruct (handle_diag_spec p h pdu Hf) as [H1 H2]. cbn [class_of mrecv].
      destruct (dg_class h pdu) eqn:Hd.
      { rewrite (H1 eq_refl). cbn [bind]. do 3 eexists. split; [reflexivity|]. cbn [dg_is_diag]. rewrite Hst.
        repeat split; reflexivity. }
      all: destruct H2 as (d & x & He & _); [discriminate|]; rewrite He; cbn [bind];
        do 3 eexists; (split; [reflexivity|]); cbn [dg_is_diag]; psimp; repeat split; reflexivity.
    + cbn [p_handle_diag bind class_of mrecv]. do 3 eexists. split; [reflexivity|]. rewrite Hst. repeat split; reflexivity.
  - (* WaitForParam *)
    destruct t as [h pdu|d s|]; [|now elim Hok|]; cbn [is_sc class_of mrecv].
    + do 3 eexists. split; [reflexivity|]. rewrite Hst. repeat split; reflexivity.
    + rewrite (cyc_ok _ Hf). cbn [bind]. do 3 eexists. split; [reflexivity|]. psimp. repeat split; reflexivity.
  - (* WaitForConfig *)
    destruct t as [h pdu|d s|]; [|now elim Hok|]; cbn [is_sc class_of mrecv].
    + do 3 eexists. split; [reflexivity|]. rewrite Hst. repeat split; reflexivity.
    + rewrite (cyc_ok _ Hf). cbn [bind]. do 3 eexists. split; [reflexivity|]. psimp. repeat split; reflexivity.
  - (* ValidateConfig *)
    destruct t as [h pdu|d s|]; [|now elim Hok|].
    + assert (Hf0 : pe_fcb (set_retry p 0) <> FcbInactive) by exact Hf.
      destruct (handle_diag_spec (set_retry p 0) h pdu Hf0) as [H1 H2]. cbn [class_of mrecv].
      destruct (dg_class h pdu) eqn:Hd.
      { rewrite (H1 eq_refl). cbn [bind]. do 3 eexists. split; [reflexivity|]. psimp.
        repeat split; reflexivity. }
      all: destruct H2 as (d & x & He & Hfl); [discriminate|]; rewrite He; cbn [bind];
        assert (Hc : dg_class h pdu <> DgNone) by (rewrite Hd; discriminate);
        destruct (class_flags h pdu Hc) as [Hv _]; rewrite Hd in Hv; rewrite Hfl;
        destruct (validate_outcome (pflags pdu)) as [s' ev']; cbn [fst] in Hv; subst s';
        do 3 eexists; (split; [reflexivity|]); psimp; repeat split; reflexivity.
    + cbn [p_handle_diag bind class_of mrecv]. do 3 eexists. split; [reflexivity|]. psimp. repeat split; reflexivity.
  - (* PreDataExchange *)
    destruct (pe_diag_in_flight p) eqn:Hfl.
    + destruct t as [h pdu|d s|]; [|now elim Hok|].
      * destruct (handle_diag_spec p h pdu Hf) as [H1 H2]. cbn [class_of mrecv].
        destruct (dg_class h pdu) eqn:Hd.
        { rewrite (H1 eq_refl). cbn [bind]. do 3 eexists. split; [reflexivity|]. cbn [dg_is_diag]. rewrite Hst, Hfl.
          repeat split; reflexivity. }
        all: destruct H2 as (d & x & He & Hfg); [discriminate|]; rewrite He; cbn [bind];
          assert (Hc : dg_class h pdu <> DgNone) by (rewrite Hd; discriminate);
          destruct (class_flags h pdu Hc) as [_ Hp]; rewrite Hd in Hp; rewrite Hfg, Hp;
          do 3 eexists; (split; [reflexivity|]); cbn [dg_is_diag dg_prmreq]; psimp; rewrite ?Hst, ?Hfl;
          repeat split; reflexivity.
      * cbn [p_handle_diag bind class_of mrecv]. do 3 eexists. split; [reflexivity|]. rewrite Hst, Hfl.
        repeat split; reflexivity.
    + destruct t as [h pdu|d s|]; [|now elim Hok|].
      * destruct Hok as (rl & st & Hfc). unfold p_receive_dx. rewrite Hfc. cbn [class_of mrecv].
        unfold dx_class. rewrite Hfc.
        destruct st; cbn [bind];
          try (destruct (Nat.eqb (length pdu) (length (pe_pi_i p))) eqn:Hlen; psimp; rewrite ?Hlen;
               unfold copy_from_slice; psimp; rewrite ?(Nat.eqb_sym (length (pe_pi_i p)) (length pdu)), ?Hlen);
          cbn [bind]; psimp; rewrite (cyc_ok _ Hf); cbn [bind];
          do 3 eexists; (split; [reflexivity|]); psimp; rewrite ?Hst;
          repeat split; try reflexivity; try exact Hfl; try (apply Nat.eqb_eq; exact Hlen).
      * cbn [p_receive_dx class_of mrecv]. rewrite <- Hin.
        destruct (f_in0 fx); cbn [negb bind]; psimp; rewrite (cyc_ok _ Hf); cbn [bind];
          do 3 eexists; (split; [reflexivity|]); psimp; rewrite ?Hst; repeat split; try reflexivity; try exact Hfl.
  - (* DataExchange *)
    destruct (pe_diag_in_flight p) eqn:Hfl.
    + destruct t as [h pdu|d s|]; [|now elim Hok|].
      * destruct (handle_diag_spec p h pdu Hf) as [H1 H2]. cbn [class_of mrecv].
        destruct (dg_class h pdu) eqn:Hd.
        { rewrite (H1 eq_refl). cbn [bind]. do 3 eexists. split; [reflexivity|]. cbn [dg_is_diag]. rewrite Hst, Hfl.
          repeat split; reflexivity. }
        all: destruct H2 as (d & x & He & Hfg); [discriminate|]; rewrite He; cbn [bind];
          assert (Hc : dg_class h pdu <> DgNone) by (rewrite Hd; discriminate);
          destruct (class_flags h pdu Hc) as [_ Hp]; rewrite Hd in Hp; rewrite Hfg, Hp;
          do 3 eexists; (split; [reflexivity|]); cbn [dg_is_diag dg_prmreq]; psimp; rewrite ?Hst, ?Hfl;
          repeat split; reflexivity.
      * cbn [p_handle_diag bind class_of mrecv]. do 3 eexists. split; [reflexivity|]. rewrite Hst, Hfl.
        repeat split; reflexivity.
    + destruct t as [h pdu|d s|]; [|now elim Hok|].
      * destruct Hok as (rl & st & Hfc). unfold p_receive_dx. rewrite Hfc. cbn [class_of mrecv].
        unfold dx_class. rewrite Hfc.
        destruct st; cbn [bind];
          try (destruct (Nat.eqb (length pdu) (length (pe_pi_i p))) eqn:Hlen; psimp; rewrite ?Hlen;
               unfold copy_from_slice; psimp; rewrite ?(Nat.eqb_sym (length (pe_pi_i p)) (length pdu)), ?Hlen);
          cbn [bind]; psimp; rewrite (cyc_ok _ Hf); cbn [bind];
          do 3 eexists; (split; [reflexivity|]); psimp; rewrite ?Hst;
          repeat split; try reflexivity; try exact Hfl; try (apply Nat.eqb_eq; exact Hlen).
      * cbn [p_receive_dx class_of mrecv]. rewrite <- Hin.
        destruct (f_in0 fx); cbn [negb bind]; psimp; rewrite (cyc_ok _ Hf); cbn [bind];
          do 3 eexists; (split; [reflexivity|]); psimp; rewrite ?Hst; repeat split; try reflexivity; try exact Hfl.
Qed.

(* ================================================================== D. the slave's processing of a new request *)

Ltac ssimp := cbn [sl_addr sl_ident sl_exp_cfg sl_in_len sl_out_len sl_silent sl_ready_delay sl_stat_diag sl_force1
                   sl_force2 sl_ext sl_st sl_master sl_fcb sl_resp sl_prm_fault sl_cfg_fault sl_wd_on sl_freeze sl_sync
                   sl_not_ready sl_diag_pending sl_outputs sl_counter sl_gc slave_dyn slave_store].

Definition slave_setup_eq (s s' : slave) : Prop :=
  sl_addr s' = sl_addr s /\ sl_ident s' = sl_ident s /\ sl_exp_cfg s' = sl_exp_cfg s /\
  sl_in_len s' = sl_in_len s /\ sl_out_len s' = sl_out_len s /\ sl_silent s' = sl_silent s /\
  sl_ready_delay s' = sl_ready_delay s /\ sl_stat_diag s' = sl_stat_diag s /\
  sl_force1 s' = sl_force1 s /\ sl_force2 s' = sl_force2 s /\ sl_ext s' = sl_ext s.

(* what the proofs need to know about the outcome of slave_process for a request of kind k *)
Definition sproc_ok (own : Z) (s : slave) (k : akind) (r : slave * option bytes) : Prop :=
  let (s', resp) := r in
  sproc (fix_of s) k (sl_st s) (sl_prm_fault s) (sl_cfg_fault s) (sl_diag_pending s) (sl_not_ready s) =
    (sl_st s', sl_prm_fault s', sl_cfg_fault s', sl_diag_pending s', sl_not_ready s',
     class_of (sl_in_len s) (deliver own (sl_addr s) resp)) /\
  slave_setup_eq s s' /\ (sl_not_ready s' <= 2)%nat.

Lemma pattern_length n : forall c, length (pattern n c) = n.
Proof. induction n; intro c; simpl; [reflexivity|]. rewrite IHn. reflexivity. Qed.

Lemma setup_refl s : slave_setup_eq s s.
Proof. repeat split; reflexivity. Qed.

Section SlaveProcess.
Variables (own : Z) (s : slave) (f : fcbit).
Hypothesis Hown : 0 <= own <= 125.
Hypothesis Haddr : 0 <= sl_addr s <= 125.
Hypothesis Hf1 : sl_force1 s = 0.
Hypothesis Hf2 : sl_force2 s = 0.
Hypothesis Hdel : (sl_ready_delay s <= 2)%nat.
Hypothesis Hnr : (sl_not_ready s <= 2)%nat.
Hypothesis Hext : (length (sl_ext s) <= 238)%nat.
Hypothesis Hin : (sl_in_len s <= 244)%nat.

Lemma wf_resp h st : h_sa h = own -> wf_sap (h_ssap h) -> wf_sap (h_dsap h) -> wf_header (resp_header s h st).
Proof.
  intros Hsa H1 H2. unfold wf_header, resp_header, is_addr7. cbn [h_da h_sa h_dsap h_ssap]. rewrite Hsa.
  repeat split; try lia; assumption.
Qed.

Lemma diag_pdu_flags : pflags (slave_diag_pdu s) =
  sdiag_flags (negb (sl_state_eqb (sl_st s) SlDataExch) || negb (Nat.eqb (sl_not_ready s) 0)) (sl_cfg_fault s)
              (negb (Nat.eqb (length (sl_ext s)) 0)) (sl_prm_fault s) (sl_state_eqb (sl_st s) SlWaitPrm)
              (sl_stat_diag s) (sl_wd_on s) (sl_freeze s) (sl_sync s).
Proof. unfold pflags, slave_diag_pdu, sdiag_flags. rewrite Hf1, Hf2. reflexivity. Qed.

Lemma process_diag rq :
  let h := mkHeader (sl_addr s) own (Some 60) (Some 62) (FcRequest f rq) in
  sproc_ok own s KDiag (slave_process s h []).
Proof.
  intro h. unfold slave_process.
  change (opt_eqb (h_dsap h) (Some STD_SAP_DIAG) && opt_eqb (h_ssap h) (Some STD_SAP_MS0)) with true.
  cbv iota. unfold sproc_ok. ssimp.
  assert (Hlen : length (slave_diag_pdu s) = (6 + length (sl_ext s))%nat).
  { unfold slave_diag_pdu. rewrite app_length. reflexivity. }
  rewrite (deliver_data own (sl_addr s) (resp_header s h StDataLow) (slave_diag_pdu s) RsSlave StDataLow).
  2:{ apply wf_resp; [reflexivity|simpl; unfold is_byte; lia|simpl; unfold is_byte; lia]. }
  2:{ unfold length_byte. rewrite Hlen. simpl. lia. }
  2-4: reflexivity.
  split; [|split; [(repeat split; reflexivity)|lia]].
  assert (Hdg : dg_class (resp_header s h StDataLow) (slave_diag_pdu s) =
                (let fault := sl_prm_fault s || sl_cfg_fault s in
                 let prm := sl_state_eqb (sl_st s) SlWaitPrm in
                 let notready := negb (sl_state_eqb (sl_st s) SlDataExch) || negb (Nat.eqb (sl_not_ready s) 0) in
                 if fault then (if prm then DgFaultPrm else DgFault)
                 else if prm then DgPrm else if notready then DgNotReady else DgReady)).
  { unfold dg_class. fold (pflags (slave_diag_pdu s)).
    change (opt_eqb (h_dsap (resp_header s h StDataLow)) dp_diag_reply_dsap) with true.
    change (opt_eqb (h_ssap (resp_header s h StDataLow)) dp_diag_reply_ssap) with true.
    replace (Nat.leb dp_diag_min_len (length (slave_diag_pdu s))) with true
      by (symmetry; apply Nat.leb_le; rewrite Hlen; unfold dp_diag_min_len; lia).
    cbn [andb]. rewrite diag_pdu_flags.
    match goal with |- context [sdiag_flags ?a ?b ?c ?d ?e ?g ?i ?j ?k] =>
      destruct (sdiag_flags_spec a b c d e g i j k) as (E1 & E2 & E3 & E4) end.
    cbv zeta. rewrite E1, E2, E3, E4. reflexivity. }
  assert (Hdx : dx_class (sl_in_len s) (resp_header s h StDataLow) (slave_diag_pdu s) =
                if f_dgl (fix_of s) then XOk else XIgnore).
  { unfold dx_class, fix_of. cbn [h_fc resp_header f_dgl]. rewrite Hlen. reflexivity. }
  unfold sproc, class_of. rewrite Hdg, Hdx. reflexivity.
Qed.

Lemma process_prm rq (pa : params) (o : poptions) (user : bytes) :
  sl_ident s = o_ident o ->
  let h := mkHeader (sl_addr s) own (Some 61) (Some 62) (FcRequest f rq) in
  sproc_ok own s KPrm (slave_process s h (set_prm_pdu pa o user)).
Proof.
  intros Hid h. unfold slave_process.
  change (opt_eqb (h_dsap h) (Some STD_SAP_DIAG) && opt_eqb (h_ssap h) (Some STD_SAP_MS0)) with false.
  change (opt_eqb (h_dsap h) (Some STD_SAP_SET_PRM) && opt_eqb (h_ssap h) (Some STD_SAP_MS0)) with true.
  cbv iota.
  assert (Hl : Nat.leb 7 (length (set_prm_pdu pa o user)) = true).
  { unfold set_prm_pdu. rewrite app_length. apply Nat.leb_le. simpl. lia. }
  assert (Hi : (256 * nth 4 (set_prm_pdu pa o user) 0 + nth 5 (set_prm_pdu pa o user) 0 =? sl_ident s) = true).
  { unfold set_prm_pdu. cbn [nth app]. rewrite Hid. apply Z.eqb_eq.
    pose proof (Z.div_mod (o_ident o) 256). lia. }
  rewrite Hl, Hi. cbn [andb]. unfold sproc_ok. ssimp. rewrite deliver_sc.
  split; [reflexivity|]. split; [(repeat split; reflexivity)|lia].
Qed.

Lemma process_cfg rq (cfg : bytes) :
  bytes_eqb cfg (sl_exp_cfg s) = true ->
  let h := mkHeader (sl_addr s) own (Some 62) (Some 62) (FcRequest f rq) in
  sproc_ok own s KCfg (slave_process s h cfg).
Proof.
  intros Hc h. unfold slave_process.
  change (opt_eqb (h_dsap h) (Some STD_SAP_DIAG) && opt_eqb (h_ssap h) (Some STD_SAP_MS0)) with false.
  change (opt_eqb (h_dsap h) (Some STD_SAP_SET_PRM) && opt_eqb (h_ssap h) (Some STD_SAP_MS0)) with false.
  change (opt_eqb (h_dsap h) (Some STD_SAP_CHK_CFG) && opt_eqb (h_ssap h) (Some STD_SAP_MS0)) with true.
  cbv iota. unfold sproc_ok, sproc.
  destruct (sl_state_eqb (sl_st s) SlWaitPrm) eqn:Hst.
  - unfold resp_rs.
    rewrite (deliver_data own (sl_addr s) (resp_header s h StSapNotEnabled) [] RsSlave StSapNotEnabled).
    2:{ apply wf_resp; [reflexivity|simpl; unfold is_byte; lia|simpl; unfold is_byte; lia]. }
    2:{ unfold length_byte. simpl. lia. }
    2-4: reflexivity.
    split; [reflexivity|]. split; [(repeat split; reflexivity)|exact Hnr].
  - rewrite Hc. ssimp. rewrite deliver_sc. split; [reflexivity|]. split; [(repeat split; reflexivity)|exact Hdel].
Qed.

Lemma process_dx rq (pdu : bytes) :
  length pdu = sl_out_len s ->
  let h := mkHeader (sl_addr s) own None None (FcRequest f rq) in
  sproc_ok own s KDx (slave_process s h pdu).
Proof.
  intros Hl h. unfold slave_process.
  change (opt_eqb (h_dsap h) (Some STD_SAP_DIAG) && opt_eqb (h_ssap h) (Some STD_SAP_MS0)) with false.
  change (opt_eqb (h_dsap h) (Some STD_SAP_SET_PRM) && opt_eqb (h_ssap h) (Some STD_SAP_MS0)) with false.
  change (opt_eqb (h_dsap h) (Some STD_SAP_CHK_CFG) && opt_eqb (h_ssap h) (Some STD_SAP_MS0)) with false.
  change (opt_eqb (h_dsap h) None && opt_eqb (h_ssap h) None) with true.
  cbv iota. rewrite Hl, Nat.eqb_refl, andb_true_r. unfold sproc_ok, sproc.
  destruct (sl_state_eqb (sl_st s) SlDataExch && Nat.eqb (sl_not_ready s) 0) eqn:Hc.
  - apply andb_prop in Hc. destruct Hc as [Hs Hn]. apply sl_eqb_eq in Hs. apply Nat.eqb_eq in Hn.
    unfold fix_of. cbn [f_in0 f_stat].
    destruct (Nat.eqb (sl_in_len s) 0) eqn:Hi0.
    + ssimp. rewrite deliver_sc. split; [rewrite ?Hs; reflexivity|]. split; [(repeat split; reflexivity)|lia].
    + ssimp.
      match goal with |- context [frame_spec (resp_header s h ?st) ?pd] =>
        rewrite (deliver_data own (sl_addr s) (resp_header s h st) pd RsSlave st) end.
      2:{ apply wf_resp; [reflexivity|exact I|exact I]. }
      2:{ unfold length_byte. rewrite pattern_length. simpl. lia. }
      2-4: reflexivity.
      split; [|split; [(repeat split; reflexivity)|lia]].
      rewrite ?Hs. unfold class_of, dg_class, dx_class.
      change (opt_eqb (h_dsap (resp_header s h _)) dp_diag_reply_dsap) with false. cbn [andb].
      cbn [h_fc resp_header]. rewrite pattern_length, Nat.eqb_refl.
      destruct (sl_diag_pending s || sl_stat_diag s); reflexivity.
  - unfold resp_rs.
    rewrite (deliver_data own (sl_addr s) (resp_header s h StSapNotEnabled) [] RsSlave StSapNotEnabled).
    2:{ apply wf_resp; [reflexivity|exact I|exact I]. }
    2:{ unfold length_byte. simpl. lia. }
    2-4: reflexivity.
    split; [reflexivity|]. split; [(repeat split; reflexivity)|exact Hnr].
Qed.

End SlaveProcess.

(* ================================================================== E. one exchange request -> reply *)

Definition req_of (pa : params) (op : opstate) (p : periph) (k : akind) (user cfg : bytes) : header * bytes :=
  match k with
  | KDiag => (mkHeader (pe_addr p) (p_address pa) (Some 60) (Some 62) (FcRequest (pe_fcb p) RqSrdLow), [])
  | KPrm => (mkHeader (pe_addr p) (p_address pa) (Some 61) (Some 62) (FcRequest (pe_fcb p) RqSrdLow),
             set_prm_pdu pa (pe_opts p) user)
  | KCfg => (mkHeader (pe_addr p) (p_address pa) (Some 62) (Some 62) (FcRequest (pe_fcb p) RqSrdLow), cfg)
  | KDx => (mkHeader (pe_addr p) (p_address pa) None None (FcRequest (pe_fcb p) RqSrdHigh), dx_pdu op p)
  end.

Definition evl (ev : option pevent) : list pevent := match ev with Some e => [e] | None => [] end.

(* the part of joint_cycle after the request has been written *)
Definition exchange (pa : params) (p1 : periph) (s : slave) (h : header) (pdu : bytes) : res (jstate * list pevent) :=
  let (s1, reply) := slave_step s (frame_spec h pdu) in
  match deliver (p_address pa) (pe_addr p1) reply with
  | Some t => let* (p2, ev) := p_receive_reply p1 t in Ok ((p2, s1), evl ev)
  | None => Ok ((p1, s1), [])
  end.

Lemma mrecv_none fx ps fcb nd inf : mrecv fx ps fcb nd inf ANone = (ps, fcb, nd, false).
Proof. destruct ps, inf; reflexivity. Qed.

Lemma deliver_recv own fx p1 (s1 : slave) reply :
  pe_fcb p1 <> FcbInactive -> f_in0 fx = Nat.eqb (length (pe_pi_i p1)) 0 ->
  exists p2 evs acc,
    match deliver own (pe_addr p1) reply with
    | Some t => let* (p2, ev) := p_receive_reply p1 t in Ok ((p2, s1), evl ev)
    | None => Ok ((p1, s1), [])
    end = Ok ((p2, s1), evs) /\
    mrecv fx (pe_state p1) (pe_fcb p1) (pe_diag_needed p1) (pe_diag_in_flight p1)
          (class_of (length (pe_pi_i p1)) (deliver own (pe_addr p1) reply))
      = (pe_state p2, pe_fcb p2, pe_diag_needed p2, acc) /\
    pe_retry p2 = (if acc then 0 else pe_retry p1) /\
    pe_diag_in_flight p2 = pe_diag_in_flight p1 /\ pe_addr p2 = pe_addr p1 /\ pe_opts p2 = pe_opts p1 /\
    pe_pi_q p2 = pe_pi_q p1 /\ length (pe_pi_i p2) = length (pe_pi_i p1).
Proof.
  intros Hf Hin. destruct (deliver own (pe_addr p1) reply) as [t|] eqn:Hd.
  - pose proof (admissible_resp_ok _ _ _ (deliver_admissible _ _ _ _ Hd)) as Hok.
    destruct (recv_sound fx p1 t Hf Hin Hok) as (p2 & ev & acc & He & Hm & Hr & Hrest).
    rewrite He. cbn [bind]. exists p2, (evl ev), acc. split; [reflexivity|]. split; [exact Hm|]. split; [exact Hr|exact Hrest].
  - exists p1, [], false. split; [reflexivity|]. rewrite mrecv_none. repeat split; reflexivity.
Qed.

Lemma fcb_cyc_ne f : f <> FcbInactive -> cyc f <> FcbInactive.
Proof. destruct f; simpl; intro H; try discriminate. now elim H. Qed.

Lemma mrecv_fcb_ne fx ps fcb nd inf r ps' fcb' nd' acc :
  fcb <> FcbInactive -> mrecv fx ps fcb nd inf r = (ps', fcb', nd', acc) -> fcb' <> FcbInactive.
Proof.
  intros Hf H. assert (Hc := fcb_cyc_ne fcb Hf).
  assert (E : fcb' = fcb \/ fcb' = cyc fcb).
  { unfold mrecv in H.
    destruct ps; destruct r as [| |d x]; try destruct inf; try destruct d; try destruct x;
      cbn [dg_is_diag dg_prmreq] in H; inversion H; auto. }
  destruct E as [-> | ->]; assumption.
Qed.

Lemma exchange_sound pa op p1 s k user cfg :
  jinv pa p1 s -> o_user_prm (pe_opts p1) = Some user -> o_config (pe_opts p1) = Some cfg ->
  exists p2 s1 evs acc,
    exchange pa p1 s (fst (req_of pa op p1 k user cfg)) (snd (req_of pa op p1 k user cfg)) = Ok ((p2, s1), evs) /\
    jinv pa p2 s1 /\ fix_of s1 = fix_of s /\
    asend (fix_of s) k (fst (proj pa (p1, s))) = (fst (proj pa (p2, s1)), acc) /\
    pe_retry p2 = (if acc then 0 else pe_retry p1).
Proof.
  intros J Hu Hc.
  destruct J as [Jown Jaddr Jsl Jid (user' & Ju & Jul) (cfg' & Jc & Jce & Jcl) [Jin Jinl] [Jout Joutl] Jf Jr JM
                 (Jsil & Jf1 & Jf2) [Jd Jn] Jext].
  rewrite Hu in Ju. inversion Ju; subst user'. rewrite Hc in Jc. inversion Jc; subst cfg'. clear Ju Jc.
  set (h := fst (req_of pa op p1 k user cfg)). set (pdu := snd (req_of pa op p1 k user cfg)).
  assert (Hh : h_da h = sl_addr s /\ h_sa h = p_address pa /\ wf_header h /\
               (exists rq, h_fc h = FcRequest (pe_fcb p1) rq /\ (rq = RqSrdLow \/ rq = RqSrdHigh)) /\
               (length_byte h (length pdu) <= 249)%nat).
  { unfold h, pdu, req_of, wf_header, is_addr7, length_byte. rewrite Jsl.
    destruct k; cbn [fst snd h_da h_sa h_dsap h_ssap h_fc wf_sap has_sap]; unfold is_byte;
      (split; [reflexivity|]); (split; [reflexivity|]); (split; [repeat split; lia|]);
      (split; [eexists; split; [reflexivity|auto]|]).
    - simpl. lia.
    - unfold set_prm_pdu. rewrite app_length. simpl. lia.
    - lia.
    - unfold dx_pdu. destruct (opstate_eqb op OpOperate); rewrite ?repeat_length; lia. }
  destruct Hh as (Hda & Hsa & Hwf & (rq & Hfc & Hrq) & Hlen).
  (* the slave's side *)
  assert (Hsl : exists s1 reply,
            slave_step s (frame_spec h pdu) = (s1, reply) /\
            (if fresh (pe_fcb p1) (sl_fcb s)
             then let '(sl, prmf, cfgf, pend, nr, r) :=
                        sproc (fix_of s) k (sl_st s) (sl_prm_fault s) (sl_cfg_fault s) (sl_diag_pending s) (sl_not_ready s) in
                  (sl, prmf, cfgf, pend, nr, stored (pe_fcb p1), r, r)
             else (sl_st s, sl_prm_fault s, sl_cfg_fault s, sl_diag_pending s, sl_not_ready s, sl_fcb s,
                   class_of (sl_in_len s) (deliver (p_address pa) (sl_addr s) (sl_resp s)),
                   class_of (sl_in_len s) (deliver (p_address pa) (sl_addr s) (sl_resp s)))) =
            (sl_st s1, sl_prm_fault s1, sl_cfg_fault s1, sl_diag_pending s1, sl_not_ready s1, sl_fcb s1,
             class_of (sl_in_len s) (deliver (p_address pa) (sl_addr s) (sl_resp s1)),
             class_of (sl_in_len s) (deliver (p_address pa) (sl_addr s) reply)) /\
            slave_setup_eq s s1 /\ (sl_not_ready s1 <= 2)%nat).
  { rewrite (slave_step_request s h pdu (pe_fcb p1) rq Jsil Hwf Hlen Hfc Hrq Hda).
    destruct (fresh (pe_fcb p1) (sl_fcb s)).
    - assert (Hp : sproc_ok (p_address pa) s k (slave_process s h pdu)).
      { assert (Ha : 0 <= sl_addr s <= 125) by (rewrite Jsl; exact Jaddr).
        unfold h, pdu, req_of. rewrite <- Jsl.
        destruct k; cbn [fst snd].
        - apply process_diag; assumption.
        - apply process_prm; assumption.
        - apply process_cfg; assumption.
        - apply process_dx; try assumption.
          unfold dx_pdu. destruct (opstate_eqb op OpOperate); rewrite ?repeat_length; exact Jout. }
      destruct (slave_process s h pdu) as [s' resp]. unfold sproc_ok in Hp. destruct Hp as (Hp & Hset & Hn').
      exists (slave_store s' (stored (pe_fcb p1)) resp), resp. split; [reflexivity|].
      rewrite Hp. ssimp. split; [reflexivity|]. split; [exact Hset|exact Hn'].
    - exists s, (sl_resp s). split; [reflexivity|]. split; [reflexivity|]. split; [repeat split; reflexivity|exact Jn]. }
  destruct Hsl as (s1 & reply & Hstep & Habs & Hset & Hn1).
  (* the master's side *)
  assert (Hin0 : f_in0 (fix_of s) = Nat.eqb (length (pe_pi_i p1)) 0) by (unfold fix_of; cbn [f_in0]; rewrite Jin; reflexivity).
  destruct (deliver_recv (p_address pa) (fix_of s) p1 s1 reply Jf Hin0)
    as (p2 & evs & acc & Hex & Hm & Hretry & Hfl & Ha & Ho & Hq & Hi).
  exists p2, s1, evs, acc.
  destruct Hset as (S1 & S2 & S3 & S4 & S5 & S6 & S7 & S8 & S9 & S10 & S11).
  split; [unfold exchange; rewrite Hstep; exact Hex|].
  split.
  { constructor; try assumption.
    - rewrite Ha; exact Jaddr.
    - rewrite S1, Ha; exact Jsl.
    - rewrite S2, Ho; exact Jid.
    - rewrite Ho. exists user. split; assumption.
    - rewrite Ho, S3. exists cfg. repeat split; assumption.
    - rewrite Hi, S4. split; assumption.
    - rewrite Hq, S5. split; assumption.
    - eapply mrecv_fcb_ne; [exact Jf|exact Hm].
    - rewrite Hretry. destruct acc; [lia|exact Jr].
    - rewrite S6, S9, S10. repeat split; assumption.
    - rewrite S7. split; assumption.
    - rewrite S11. exact Jext. }
  split; [unfold fix_of; rewrite S8, S4, S11, S7; reflexivity|].
  split; [|exact Hretry].
  unfold asend, proj.
  cbn [fst u_ps u_fcb u_needed u_inflight u_sl u_sfcb u_resp u_prmf u_cfgf u_pend u_nr].
  rewrite Habs. cbv beta iota.
  rewrite Jin, <- Jsl in Hm. rewrite Hm. rewrite S1, S4, Hfl. reflexivity.
Qed.

(* ================================================================== F. data independence: the projection is a simulation *)

Ltac psimp_in H := cbn [pe_addr pe_state pe_retry pe_fcb pe_pi_i pe_pi_q pe_diag pe_ext pe_diag_needed pe_diag_in_flight pe_opts
                   set_state set_retry set_fcb set_pi_i set_pi_q set_diag set_diag_needed set_diag_in_flight] in H.

Lemma jinv_master pa p s pl : jinv pa p s ->
  pe_addr pl = pe_addr p -> pe_opts pl = pe_opts p -> pe_pi_i pl = pe_pi_i p -> pe_pi_q pl = pe_pi_q p ->
  pe_fcb pl <> FcbInactive -> 0 <= pe_retry pl -> jinv pa pl s.
Proof.
  intros [] Ha Ho Hi Hq Hf Hr. constructor; rewrite ?Ha, ?Ho, ?Hi, ?Hq; assumption.
Qed.

Lemma send_case pa op pl s k user cfg :
  jinv pa pl s -> o_user_prm (pe_opts pl) = Some user -> o_config (pe_opts pl) = Some cfg ->
  let p1 := set_retry pl (pe_retry pl + 1) in
  exists p' s' evs,
    exchange pa p1 s (fst (req_of pa op pl k user cfg)) (snd (req_of pa op pl k user cfg)) = Ok ((p', s'), evs) /\
    jinv pa p' s' /\ fix_of s' = fix_of s /\
    proj pa (p', s') =
      (let (u', reset) := asend (fix_of s) k (fst (proj pa (pl, s))) in
       (u', if reset then 0%nat else S (Z.to_nat (pe_retry pl)))).
Proof.
  intros J Hu Hc p1.
  assert (J1 : jinv pa p1 s).
  { apply (jinv_master pa pl s p1 J); try reflexivity; [exact (ji_fcb _ _ _ J)|].
    unfold p1. psimp. pose proof (ji_retry _ _ _ J). lia. }
  destruct (exchange_sound pa op p1 s k user cfg J1 Hu Hc) as (p2 & s1 & evs & acc & Hex & J2 & Hfx & Has & Hr).
  exists p2, s1, evs. split; [exact Hex|]. split; [exact J2|]. split; [exact Hfx|].
  change (fst (proj pa (pl, s))) with (fst (proj pa (p1, s))). rewrite Has.
  unfold proj at 1. unfold proj at 1. cbn [fst]. f_equal. rewrite Hr.
  destruct acc; [reflexivity|]. unfold p1. psimp. pose proof (ji_retry _ _ _ J).
  rewrite Z2Nat.inj_add by lia. simpl. lia.
Qed.

Theorem sim_step pa op p s : jinv pa p s -> op <> OpStop ->
  exists p' s' evs, joint_cycle pa op (p, s) = Ok ((p', s'), evs) /\ jinv pa p' s' /\ fix_of s' = fix_of s /\
    proj pa (p', s') = astep (fix_of s) (Z.to_nat (p_max_retry pa)) (proj pa (p, s)).
Proof.
  intros J Hop.
  pose proof (ji_retry _ _ _ J) as Jr. pose proof (ji_M _ _ _ J) as JM. pose proof (ji_fcb _ _ _ J) as Jf.
  destruct (ji_prm _ _ _ J) as (user & Hu & _). destruct (ji_cfg _ _ _ J) as (cfg & Hc & _).
  unfold joint_cycle, p_transmit. rewrite (opstate_eqb_stop op Hop). unfold p_transmit_select.
  unfold astep. unfold proj at 2.
  assert (Hex : Nat.ltb (Z.to_nat (p_max_retry pa)) (Z.to_nat (pe_retry p)) =
                dp_retry_exhausted (pe_retry p) (p_max_retry pa)).
  { unfold dp_retry_exhausted. destruct (Z.ltb_spec (p_max_retry pa) (pe_retry p)) as [H|H].
    - apply Nat.ltb_lt. lia.
    - apply Nat.ltb_ge. lia. }
  rewrite Hex. destruct (dp_retry_exhausted (pe_retry p) (p_max_retry pa)) eqn:Hx.
  { (* retries exhausted: Offline *)
    cbn [bind]. do 3 eexists. split; [reflexivity|]. split; [|split; reflexivity].
    apply (jinv_master pa p s _ J); try reflexivity; try discriminate; try (psimp; lia). }
  unfold dp_retry_exhausted in Hx. apply Z.ltb_ge in Hx.
  assert (Hz : Nat.eqb (Z.to_nat (pe_retry p)) 0 = (pe_retry p =? 0)).
  { destruct (Z.eqb_spec (pe_retry p) 0) as [H|H]; [rewrite H; reflexivity|]. apply Nat.eqb_neq. lia. }
  rewrite Hz.
  assert (H255 : (255 <=? pe_retry p) = false) by (apply Z.leb_gt; lia).
  unfold body. cbn [u_ps u_needed u_inflight].
  destruct (pe_state p) eqn:Hst.
  - (* Offline *)
    unfold dp_offline_probe_retry. destruct (pe_retry p =? 0) eqn:H0.
    + unfold diag_request. cbn [bind pe_retry]. rewrite H255. cbn [bind].
      destruct (send_case pa op p s KDiag user cfg J Hu Hc) as (p' & s' & evs & He & J' & Hfx & Hp).
      exists p', s', evs. split; [|split; [exact J'|split; [exact Hfx|]]].
      * unfold exchange in He. cbn [req_of fst snd] in He. psimp_in He. exact He.
      * rewrite Hp. unfold proj. cbn [fst]. rewrite Hst. reflexivity.
    + cbn [bind]. do 3 eexists. split; [reflexivity|]. split; [|split; [reflexivity|]].
      * apply (jinv_master pa p s _ J); try reflexivity; try discriminate; try (psimp; lia).
      * unfold proj. psimp. rewrite Hst. reflexivity.
  - (* WaitForParam *)
    rewrite Hu. unfold prm_request. cbn [bind pe_retry]. rewrite H255. cbn [bind].
    destruct (send_case pa op p s KPrm user cfg J Hu Hc) as (p' & s' & evs & He & J' & Hfx & Hp).
    exists p', s', evs. split; [|split; [exact J'|split; [exact Hfx|]]].
    * unfold exchange in He. cbn [req_of fst snd] in He. psimp_in He. exact He.
    * rewrite Hp. unfold proj. cbn [fst]. rewrite Hst. reflexivity.
  - (* WaitForConfig *)
    rewrite Hc. unfold cfg_request. cbn [bind pe_retry]. rewrite H255. cbn [bind].
    destruct (send_case pa op p s KCfg user cfg J Hu Hc) as (p' & s' & evs & He & J' & Hfx & Hp).
    exists p', s', evs. split; [|split; [exact J'|split; [exact Hfx|]]].
    * unfold exchange in He. cbn [req_of fst snd] in He. psimp_in He. exact He.
    * rewrite Hp. unfold proj. cbn [fst]. rewrite Hst. reflexivity.
  - (* ValidateConfig *)
    unfold diag_request. cbn [bind pe_retry]. rewrite H255. cbn [bind].
    destruct (send_case pa op p s KDiag user cfg J Hu Hc) as (p' & s' & evs & He & J' & Hfx & Hp).
    exists p', s', evs. split; [|split; [exact J'|split; [exact Hfx|]]].
    * unfold exchange in He. cbn [req_of fst snd] in He. psimp_in He. exact He.
    * rewrite Hp. unfold proj. cbn [fst]. rewrite Hst. reflexivity.
  - (* PreDataExchange *)
    set (pl := if pe_retry p =? 0 then set_diag_in_flight p (pe_diag_needed p) else p).
    assert (Jl : jinv pa pl s).
    { apply (jinv_master pa p s pl J); unfold pl; destruct (pe_retry p =? 0); try reflexivity; assumption. }
    assert (Hul : o_user_prm (pe_opts pl) = Some user) by (unfold pl; destruct (pe_retry p =? 0); exact Hu).
    assert (Hcl : o_config (pe_opts pl) = Some cfg) by (unfold pl; destruct (pe_retry p =? 0); exact Hc).
    assert (Hrl : pe_retry pl = pe_retry p) by (unfold pl; destruct (pe_retry p =? 0); reflexivity).
    assert (Hpl : fst (proj pa (pl, s)) =
                  (if pe_retry p =? 0 then set_inflight (fst (proj pa (p, s))) (pe_diag_needed p) else fst (proj pa (p, s)))).
    { unfold pl. destruct (pe_retry p =? 0); reflexivity. }
    destruct (pe_diag_in_flight pl) eqn:Hifl.
    + unfold diag_request. cbn [bind]. rewrite Hrl, H255. cbn [bind].
      destruct (send_case pa op pl s KDiag user cfg Jl Hul Hcl) as (p' & s' & evs & He & J' & Hfx & Hp).
      exists p', s', evs. split; [|split; [exact J'|split; [exact Hfx|]]].
      * unfold exchange in He. cbn [req_of fst snd] in He. psimp_in He. rewrite Hrl in He.
        replace (pe_addr p) with (pe_addr pl) by (unfold pl; destruct (pe_retry p =? 0); reflexivity).
        exact He.
      * rewrite Hp, Hpl, Hrl. unfold proj. cbn [fst]. rewrite ?Hst.
        replace (u_inflight (if pe_retry p =? 0 then _ else _)) with true
          by (rewrite <- Hifl; unfold pl; destruct (pe_retry p =? 0); reflexivity).
        reflexivity.
    + unfold dx_request. cbn [bind]. rewrite Hrl, H255. cbn [bind].
      destruct (send_case pa op pl s KDx user cfg Jl Hul Hcl) as (p' & s' & evs & He & J' & Hfx & Hp).
      exists p', s', evs. split; [|split; [exact J'|split; [exact Hfx|]]].
      * unfold exchange in He. cbn [req_of fst snd] in He. psimp_in He. rewrite Hrl in He.
        replace (pe_addr p) with (pe_addr pl) by (unfold pl; destruct (pe_retry p =? 0); reflexivity).
        exact He.
      * rewrite Hp, Hpl, Hrl. unfold proj. cbn [fst]. rewrite ?Hst.
        replace (u_inflight (if pe_retry p =? 0 then _ else _)) with false
          by (rewrite <- Hifl; unfold pl; destruct (pe_retry p =? 0); reflexivity).
        reflexivity.
  - (* DataExchange *)
    set (pl := if pe_retry p =? 0 then set_diag_in_flight p (pe_diag_needed p) else p).
    assert (Jl : jinv pa pl s).
    { apply (jinv_master pa p s pl J); unfold pl; destruct (pe_retry p =? 0); try reflexivity; assumption. }
    assert (Hul : o_user_prm (pe_opts pl) = Some user) by (unfold pl; destruct (pe_retry p =? 0); exact Hu).
    assert (Hcl : o_config (pe_opts pl) = Some cfg) by (unfold pl; destruct (pe_retry p =? 0); exact Hc).
    assert (Hrl : pe_retry pl = pe_retry p) by (unfold pl; destruct (pe_retry p =? 0); reflexivity).
    assert (Hpl : fst (proj pa (pl, s)) =
                  (if pe_retry p =? 0 then set_inflight (fst (proj pa (p, s))) (pe_diag_needed p) else fst (proj pa (p, s)))).
    { unfold pl. destruct (pe_retry p =? 0); reflexivity. }
    destruct (pe_diag_in_flight pl) eqn:Hifl.
    + unfold diag_request. cbn [bind]. rewrite Hrl, H255. cbn [bind].
      destruct (send_case pa op pl s KDiag user cfg Jl Hul Hcl) as (p' & s' & evs & He & J' & Hfx & Hp).
      exists p', s', evs. split; [|split; [exact J'|split; [exact Hfx|]]].
      * unfold exchange in He. cbn [req_of fst snd] in He. psimp_in He. rewrite Hrl in He.
        replace (pe_addr p) with (pe_addr pl) by (unfold pl; destruct (pe_retry p =? 0); reflexivity).
        exact He.
      * rewrite Hp, Hpl, Hrl. unfold proj. cbn [fst]. rewrite ?Hst.
        replace (u_inflight (if pe_retry p =? 0 then _ else _)) with true
          by (rewrite <- Hifl; unfold pl; destruct (pe_retry p =? 0); reflexivity).
        reflexivity.
    + unfold dx_request. cbn [bind]. rewrite Hrl, H255. cbn [bind].
      destruct (send_case pa op pl s KDx user cfg Jl Hul Hcl) as (p' & s' & evs & He & J' & Hfx & Hp).
      exists p', s', evs. split; [|split; [exact J'|split; [exact Hfx|]]].
      * unfold exchange in He. cbn [req_of fst snd] in He. psimp_in He. rewrite Hrl in He.
        replace (pe_addr p) with (pe_addr pl) by (unfold pl; destruct (pe_retry p =? 0); reflexivity).
        exact He.
      * rewrite Hp, Hpl, Hrl. unfold proj. cbn [fst]. rewrite ?Hst.
        replace (u_inflight (if pe_retry p =? 0 then _ else _)) with false
          by (rewrite <- Hifl; unfold pl; destruct (pe_retry p =? 0); reflexivity).
        reflexivity.
Qed.

(* ================================================================== G. runs *)

Lemma sim_run pa op : op <> OpStop -> forall n p s, jinv pa p s ->
  exists p' s' evs, joint_run pa op n (p, s) = Ok ((p', s'), evs) /\ jinv pa p' s' /\ fix_of s' = fix_of s /\
    proj pa (p', s') = aiter (fix_of s) (Z.to_nat (p_max_retry pa)) n (proj pa (p, s)).
Proof.
  intros Hop. induction n as [|n IH]; intros p s J.
  - exists p, s, []. split; [reflexivity|]. split; [exact J|]. split; reflexivity.
  - destruct (sim_step pa op p s J Hop) as (p1 & s1 & e1 & H1 & J1 & F1 & P1).
    destruct (IH p1 s1 J1) as (p2 & s2 & e2 & H2 & J2 & F2 & P2).
    exists p2, s2, (e1 ++ e2). cbn [joint_run]. rewrite H1. cbn [bind]. rewrite H2. cbn [bind].
    split; [reflexivity|]. split; [exact J2|]. split; [congruence|].
    rewrite P2, F1, P1. reflexivity.
Qed.

Lemma jinv_fx pa p s : jinv pa p s -> fx_ok (fix_of s).
Proof.
  intros J. destruct (ji_delay _ _ _ J) as [Hd _]. split; [exact Hd|].
  unfold fix_of. cbn [f_in0 f_dgl]. intro H. apply Nat.eqb_eq in H. apply Nat.eqb_neq. lia.
Qed.

Lemma jinv_range pa p s : jinv pa p s -> in_range (fst (proj pa (p, s))).
Proof.
  intros J. split; cbn; [exact (ji_fcb _ _ _ J)|]. destruct (ji_delay _ _ _ J) as [_ H]. exact H.
Qed.

Lemma good_in_dx pa p s : Goodx (proj pa (p, s)) -> in_dx (p, s).
Proof.
  intros [H _]. cbn [proj fst] in H. unfold goodb in H. cbn [u_ps u_sl] in H.
  repeat (apply andb_prop in H; let E := fresh "E" in destruct H as [H E]).
  split; [apply ps_eqb_eq; exact H|apply sl_eqb_eq; assumption].
Qed.

Lemma core_f15 pa p s : jinv pa p s ->
  (Corex (Z.to_nat (p_max_retry pa)) (proj pa (p, s)) <-> f15_core pa (p, s)).
Proof.
  intros J. pose proof (ji_retry _ _ _ J). pose proof (ji_M _ _ _ J).
  unfold Corex, f15_core, coreb. cbn [proj fst snd u_ps u_sl u_prmf u_cfgf u_fcb u_sfcb]. split.
  - intros [Hc Hr]. repeat (apply andb_prop in Hc; let E := fresh "E" in destruct Hc as [Hc E]).
    apply ps_eqb_eq in Hc. apply sl_eqb_eq in E2. apply negb_true_iff in E1. apply negb_true_iff in E0.
    repeat split; try assumption. lia.
  - intros (H1 & H2 & H3 & H4 & H5 & H6). rewrite H1, H2, H3, H4, H5. split; [reflexivity|lia].
Qed.

Lemma suspect_f15 pa p s : suspectb (fst (proj pa (p, s))) = true -> f15_suspect (p, s).
Proof.
  unfold suspectb, f15_suspect. cbn [proj fst u_ps u_sl u_fcb u_sfcb]. intro H.
  apply andb_prop in H. destruct H as [H1 H2]. apply sl_eqb_eq in H1. split; [exact H1|].
  destruct (pe_state p); try discriminate; auto.
  right; right; right. split; [reflexivity|]. apply negb_true_iff. exact H2.
Qed.

(* the common core of the recovery theorems *)
Lemma recovery_core pa op p s : jinv pa p s -> op <> OpStop ->
  exists k, (k <= c07_cycles (p_max_retry pa))%nat /\
    ((forall m, (k <= m)%nat -> exists st' evs, joint_run pa op m (p, s) = Ok (st', evs) /\ in_dx st') \/
     (f15_suspect (p, s) /\ exists st' evs, joint_run pa op k (p, s) = Ok (st', evs) /\ f15_core pa st')).
Proof.
  intros J Hop. pose proof (ji_M _ _ _ J) as JM.
  set (M := Z.to_nat (p_max_retry pa)). set (fx := fix_of s).
  destruct (abs_recovery fx M (fst (proj pa (p, s))) (snd (proj pa (p, s))) (jinv_fx _ _ _ J)) as (k & Hk & Hres);
    [unfold M; lia|exact (jinv_range _ _ _ J)|].
  rewrite <- surjective_pairing in Hres.
  exists k. split; [exact Hk|].
  destruct Hres as [G|[S C]].
  - left. intros m Hm.
    destruct (sim_run pa op Hop m p s J) as (p' & s' & evs & Hr & J' & _ & P).
    exists (p', s'), evs. split; [exact Hr|]. apply (good_in_dx pa). rewrite P.
    replace m with (k + (m - k))%nat by lia. rewrite aiter_add. apply good_stays. exact G.
  - right. split; [apply (suspect_f15 pa); exact S|].
    destruct (sim_run pa op Hop k p s J) as (p' & s' & evs & Hr & J' & _ & P).
    exists (p', s'), evs. split; [exact Hr|]. apply (core_f15 pa p' s' J'). rewrite P. exact C.
Qed.

(* C07_recovery *)
Theorem recovery pa op p s : jinv pa p s -> op <> OpStop -> ~ f15_class pa op (p, s) ->
  exists k, (k <= c07_cycles (p_max_retry pa))%nat /\
    forall m, (k <= m)%nat -> exists st' evs, joint_run pa op m (p, s) = Ok (st', evs) /\ in_dx st'.
Proof.
  intros J Hop Hn. destruct (recovery_core pa op p s J Hop) as (k & Hk & [G|[_ (st' & evs & Hr & Hc)]]).
  - exists k. split; assumption.
  - exfalso. apply Hn. exists k, st', evs. repeat split; assumption.
Qed.

Theorem recovery_explicit pa op p s : jinv pa p s -> op <> OpStop -> ~ f15_suspect (p, s) ->
  exists k, (k <= c07_cycles (p_max_retry pa))%nat /\
    forall m, (k <= m)%nat -> exists st' evs, joint_run pa op m (p, s) = Ok (st', evs) /\ in_dx st'.
Proof.
  intros J Hop Hn. destruct (recovery_core pa op p s J Hop) as (k & Hk & [G|[S _]]).
  - exists k. split; assumption.
  - exfalso. exact (Hn S).
Qed.

Lemma cycles_le_bound M : 0 <= M -> (c07_cycles M <= c07_bound M)%nat.
Proof. intros _. unfold c07_cycles, c07_bound, c07_units. lia. Qed.

(* C07_f15_refuted: the core is closed under the fault-free cycle, so a state of the class never recovers *)
Theorem f15_refuted pa op p s : jinv pa p s -> op <> OpStop -> f15_core pa (p, s) ->
  forall n, exists st' evs, joint_run pa op n (p, s) = Ok (st', evs) /\ f15_core pa st' /\ ~ in_dx st'.
Proof.
  intros J Hop Hc n.
  destruct (sim_run pa op Hop n p s J) as (p' & s' & evs & Hr & J' & _ & P).
  exists (p', s'), evs. split; [exact Hr|].
  assert (C : f15_core pa (p', s')).
  { apply (core_f15 pa p' s' J'). rewrite P. apply core_stays. apply (core_f15 pa p s J). exact Hc. }
  split; [exact C|]. intros [D _]. destruct C as [V _]. cbn [fst] in D. rewrite V in D. discriminate.
Qed.

(* the two outcomes exclude each other: a state of the F15 class never reaches data exchange for good *)
Theorem f15_class_never pa op p s : jinv pa p s -> op <> OpStop -> f15_class pa op (p, s) ->
  forall k, exists m st' evs, (k <= m)%nat /\ joint_run pa op m (p, s) = Ok (st', evs) /\ ~ in_dx st'.
Proof.
  intros J Hop (n & st' & evs & Hn & Hr & Hc) k.
  destruct (sim_run pa op Hop n p s J) as (p1 & s1 & e1 & Hr1 & J1 & _ & P1).
  rewrite Hr in Hr1. inversion Hr1; subst st' evs.
  destruct (sim_run pa op Hop (n + k) p s J) as (p2 & s2 & e2 & Hr2 & J2 & _ & P2).
  exists (n + k)%nat, (p2, s2), e2. split; [lia|]. split; [exact Hr2|].
  assert (C : f15_core pa (p2, s2)).
  { apply (core_f15 pa p2 s2 J2). rewrite P2, aiter_add. apply core_stays. rewrite <- P1.
    apply (core_f15 pa p1 s1 J1). exact Hc. }
  intros [D _]. destruct C as [V _]. cbn [fst] in D. rewrite V in D. discriminate.
Qed.

(* ================================================================== H. retry detection of the slave *)

Theorem slave_retry_detection s h pdu f rq :
  sl_silent s = false -> wf_header h -> (length_byte h (length pdu) <= 249)%nat ->
  h_fc h = FcRequest f rq -> (rq = RqSrdLow \/ rq = RqSrdHigh) -> h_da h = sl_addr s ->
  (* a retransmission (FCV=1, stored bit) is answered with the stored response, nothing changes *)
  (fcbit_fcv f = true -> sl_fcb s = Some (fcbit_fcb f) -> slave_step s (frame_spec h pdu) = (s, sl_resp s)) /\
  (* FCV=1 with the other bit (or nothing stored): processed, bit and response stored *)
  (fcbit_fcv f = true -> sl_fcb s <> Some (fcbit_fcb f) ->
   slave_step s (frame_spec h pdu) =
     (slave_store (fst (slave_process s h pdu)) (Some (fcbit_fcb f)) (snd (slave_process s h pdu)),
      snd (slave_process s h pdu))) /\
  (* FCV=0/FCB=1 (first request): always processed, the stored bit is reset to 1 *)
  (f = FcbFirst ->
   slave_step s (frame_spec h pdu) =
     (slave_store (fst (slave_process s h pdu)) (Some true) (snd (slave_process s h pdu)),
      snd (slave_process s h pdu))).
Proof.
  intros Hs Hwf Hl Hfc Hrq Hda.
  pose proof (slave_step_request s h pdu f rq Hs Hwf Hl Hfc Hrq Hda) as H.
  split; [|split].
  - intros Hv Hb. rewrite H. unfold fresh. rewrite Hv, Hb, eqb_reflx. reflexivity.
  - intros Hv Hb. rewrite H. unfold fresh, stored. rewrite Hv.
    destruct (sl_fcb s) as [b|] eqn:Hsf.
    + destruct (Bool.eqb b (fcbit_fcb f)) eqn:He.
      * apply eqb_prop in He. subst b. now elim Hb.
      * cbn [negb orb]. destruct (slave_process s h pdu). reflexivity.
    + cbn [negb orb]. destruct (slave_process s h pdu). reflexivity.
  - intros ->. rewrite H. unfold fresh, stored. cbn [fcbit_fcv fcbit_fcb negb orb].
    destruct (slave_process s h pdu). reflexivity.
Qed.

(* ================================================================== I. a peripheral that stops answering *)

Lemma live_req_retry pa op p r : live_req pa op (set_retry p r) = live_req pa op p.
Proof. reflexivity. Qed.

Lemma is_send_live_req pa op p :
  pe_state p <> PsOffline ->
  (pe_state p = PsWaitForParam -> o_user_prm (pe_opts p) <> None) ->
  (pe_state p = PsWaitForConfig -> o_config (pe_opts p) <> None) ->
  exists h pdu, live_req pa op p = PtxSend h pdu /\ h_da h = pe_addr p /\
                exists rq, h_fc h = FcRequest (pe_fcb p) rq.
Proof.
  intros Hl Hu Hc. unfold live_req.
  destruct (pe_state p); try (now elim Hl).
  - destruct (o_user_prm (pe_opts p)); [|now elim (Hu eq_refl)]. do 2 eexists. split; [reflexivity|]. split; [reflexivity|eexists; reflexivity].
  - destruct (o_config (pe_opts p)); [|now elim (Hc eq_refl)]. do 2 eexists. split; [reflexivity|]. split; [reflexivity|eexists; reflexivity].
  - do 2 eexists. split; [reflexivity|]. split; [reflexivity|eexists; reflexivity].
  - destruct (pe_diag_in_flight p); do 2 eexists; (split; [reflexivity|]); (split; [reflexivity|eexists; reflexivity]).
  - destruct (pe_diag_in_flight p); do 2 eexists; (split; [reflexivity|]); (split; [reflexivity|eexists; reflexivity]).
Qed.

(* one unanswered turn of a live peripheral that has retries left *)
Lemma tx_live_step pa op p :
  op <> OpStop -> pe_state p <> PsOffline ->
  (pe_state p = PsWaitForParam -> o_user_prm (pe_opts p) <> None) ->
  (pe_state p = PsWaitForConfig -> o_config (pe_opts p) <> None) ->
  pe_retry p <= p_max_retry pa -> p_max_retry pa < 255 ->
  p_transmit pa op p = Ok (set_retry (latch p) (pe_retry p + 1), live_req pa op (latch p)).
Proof.
  intros Hop Hl Hu Hc Hr HM. unfold p_transmit. rewrite (opstate_eqb_stop op Hop). unfold p_transmit_select.
  replace (dp_retry_exhausted (pe_retry p) (p_max_retry pa)) with false
    by (symmetry; unfold dp_retry_exhausted; apply Z.ltb_ge; exact Hr).
  assert (H255 : (255 <=? pe_retry p) = false) by (apply Z.leb_gt; lia).
  unfold latch, live_req.
  destruct (pe_state p) eqn:Hst; try (now elim Hl).
  - rewrite Hst. destruct (o_user_prm (pe_opts p)); [|now elim (Hu eq_refl)].
    unfold prm_request. rewrite H255. reflexivity.
  - rewrite Hst. destruct (o_config (pe_opts p)); [|now elim (Hc eq_refl)].
    unfold cfg_request. rewrite H255. reflexivity.
  - rewrite Hst. unfold diag_request. rewrite H255. reflexivity.
  - destruct (pe_retry p =? 0); cbn [pe_state set_diag_in_flight]; rewrite Hst;
      match goal with |- context [if pe_diag_in_flight ?q then _ else _] => destruct (pe_diag_in_flight q) end;
      unfold diag_request, dx_request; cbn [pe_retry set_diag_in_flight]; rewrite H255; reflexivity.
  - destruct (pe_retry p =? 0); cbn [pe_state set_diag_in_flight]; rewrite Hst;
      match goal with |- context [if pe_diag_in_flight ?q then _ else _] => destruct (pe_diag_in_flight q) end;
      unfold diag_request, dx_request; cbn [pe_retry set_diag_in_flight]; rewrite H255; reflexivity.
Qed.

Lemma latch_idem_pos p : pe_retry p <> 0 -> latch p = p.
Proof.
  intro H. unfold latch. destruct (pe_state p); try reflexivity;
    (destruct (Z.eqb_spec (pe_retry p) 0); [now elim H|reflexivity]).
Qed.

Lemma tx_silent_pos pa op : op <> OpStop -> p_max_retry pa < 255 -> forall n p,
  pe_state p <> PsOffline ->
  (pe_state p = PsWaitForParam -> o_user_prm (pe_opts p) <> None) ->
  (pe_state p = PsWaitForConfig -> o_config (pe_opts p) <> None) ->
  1 <= pe_retry p -> pe_retry p + Z.of_nat n = p_max_retry pa + 1 ->
  tx_silent pa op n p = Ok (set_retry p (p_max_retry pa + 1), repeat (live_req pa op p) n).
Proof.
  intros Hop HM. induction n as [|n IH]; intros p Hl Hu Hc Hr Hn.
  - cbn [tx_silent repeat]. replace (p_max_retry pa + 1) with (pe_retry p) by lia. destruct p; reflexivity.
  - cbn [tx_silent]. rewrite (tx_live_step pa op p Hop Hl Hu Hc) by lia.
    rewrite (latch_idem_pos p) by lia. cbn [bind].
    rewrite (IH (set_retry p (pe_retry p + 1))); try assumption.
    + cbn [bind repeat]. rewrite live_req_retry. destruct p; reflexivity.
    + cbn [pe_retry set_retry]. lia.
    + cbn [pe_retry set_retry]. lia.
Qed.

(* C07_silent_goes_offline *)
Theorem silent_goes_offline pa op p :
  op <> OpStop -> 0 <= p_max_retry pa < 255 -> pe_state p <> PsOffline ->
  (pe_state p = PsWaitForParam -> o_user_prm (pe_opts p) <> None) ->
  (pe_state p = PsWaitForConfig -> o_config (pe_opts p) <> None) ->
  0 <= pe_retry p <= p_max_retry pa ->
  let n := Z.to_nat (p_max_retry pa + 1 - pe_retry p) in
  exists p' h pdu,
    tx_silent pa op n p = Ok (p', repeat (PtxSend h pdu) n) /\
    h_da h = pe_addr p /\ (exists rq, h_fc h = FcRequest (pe_fcb p) rq) /\
    pe_state p' = pe_state p /\ pe_retry p' = p_max_retry pa + 1 /\
    exists p'', p_transmit pa op p' = Ok (p'', PtxSkip (Some EvOffline)) /\ is_live p'' = false /\
                pe_fcb p'' = FcbFirst.
Proof.
  intros Hop HM Hl Hu Hc Hr n.
  assert (Hlatch : pe_state (latch p) = pe_state p /\ pe_opts (latch p) = pe_opts p /\ pe_addr (latch p) = pe_addr p /\
                   pe_fcb (latch p) = pe_fcb p).
  { unfold latch. destruct (pe_state p) eqn:Hst; try (rewrite Hst; repeat split; reflexivity);
      destruct (pe_retry p =? 0); cbn; rewrite ?Hst; repeat split; reflexivity. }
  destruct Hlatch as (L1 & L2 & L3 & L4).
  assert (Hl' : pe_state (latch p) <> PsOffline) by (rewrite L1; exact Hl).
  assert (Hu' : pe_state (latch p) = PsWaitForParam -> o_user_prm (pe_opts (latch p)) <> None) by (rewrite L1, L2; exact Hu).
  assert (Hc' : pe_state (latch p) = PsWaitForConfig -> o_config (pe_opts (latch p)) <> None) by (rewrite L1, L2; exact Hc).
  destruct (is_send_live_req pa op (latch p) Hl' Hu' Hc') as (h & pdu & Hreq & Hda & Hfc).
  assert (Hfin : forall q, pe_retry q = p_max_retry pa + 1 ->
            exists p'', p_transmit pa op q = Ok (p'', PtxSkip (Some EvOffline)) /\ is_live p'' = false /\ pe_fcb p'' = FcbFirst).
  { intros q Hq. destruct (offline_declared pa op q Hop) as (p'' & H1 & H2 & H3 & _).
    - unfold dp_retry_exhausted. apply Z.ltb_lt. lia.
    - exists p''. repeat split; assumption. }
  destruct (Z.eq_dec (pe_retry p) 0) as [H0|H0].
  - (* first transmission latches the kind of request *)
    assert (En : n = S (Z.to_nat (p_max_retry pa))) by (unfold n; rewrite H0; rewrite <- Z2Nat.inj_succ by lia; f_equal; lia).
    rewrite En. cbn [tx_silent]. rewrite (tx_live_step pa op p Hop Hl Hu Hc) by lia. cbn [bind].
    rewrite (tx_silent_pos pa op Hop (proj2 HM) (Z.to_nat (p_max_retry pa)) (set_retry (latch p) (pe_retry p + 1)));
      try assumption; cbn [pe_retry set_retry]; try lia.
    cbn [bind repeat]. rewrite live_req_retry, Hreq.
    exists (set_retry (set_retry (latch p) (pe_retry p + 1)) (p_max_retry pa + 1)), h, pdu.
    split; [reflexivity|]. split; [rewrite Hda; exact L3|]. split; [rewrite <- L4; exact Hfc|].
    split; [exact L1|]. split; [reflexivity|]. apply Hfin. reflexivity.
  - rewrite (tx_silent_pos pa op Hop (proj2 HM) n p Hl Hu Hc) by (unfold n; lia).
    rewrite (latch_idem_pos p H0) in Hreq, Hda, Hfc. rewrite Hreq.
    exists (set_retry p (p_max_retry pa + 1)), h, pdu.
    split; [reflexivity|]. split; [exact Hda|]. split; [exact Hfc|].
    split; [reflexivity|]. split; [reflexivity|]. apply Hfin. reflexivity.
Qed.

(* ================================================================== J. the life cycle reported to the user *)

Lemma fits_off l p : life_fits l p -> pe_state p = PsOffline -> l = LOff.
Proof. intros [[_ H] _] Hs. exact (H Hs). Qed.
Lemma fits_live l p : life_fits l p -> pe_state p <> PsOffline -> l <> LOff.
Proof. intros [[H _] _] Hs E. exact (Hs (H E)). Qed.

(* the peripheral's turn: the only event is Offline, and only from a live state *)
Lemma tx_life pa op p p1 r l :
  1 <= p_max_retry pa -> p_transmit pa op p = Ok (p1, r) -> off_inv pa p -> life_fits l p ->
  exists l', life_run l (tx_events r) = Some l' /\ life_fits l' p1 /\ off_inv pa p1.
Proof.
  intros HM H Hoff Hfit. pose proof (transmit_spec pa op p p1 r H) as Hs.
  destruct r as [h pdu|[ev|]].
  - destruct Hs as (Hex & _ & _ & _ & _ & Hr & Hst). exists l. split; [reflexivity|].
    split; [destruct Hfit as [F1 F2]; split; rewrite Hst; assumption|].
    intro Ho. rewrite Hst in Ho.
    (* an Offline peripheral only sends when its counter is 0 *)
    unfold p_transmit in H. destruct (opstate_eqb op OpStop); [discriminate|].
    unfold p_transmit_select in H. rewrite Hex, Ho in H. unfold dp_offline_probe_retry in H.
    destruct (Z.eqb_spec (pe_retry p) 0) as [E|E]; [|discriminate]. rewrite Hr, E. lia.
  - destruct Hs as (-> & Hex & _ & Hst & Hr). cbn [tx_events life_run].
    assert (Hlive : pe_state p <> PsOffline).
    { intro Ho. specialize (Hoff Ho). unfold dp_retry_exhausted in Hex. apply Z.ltb_lt in Hex. lia. }
    pose proof (fits_live l p Hfit Hlive) as Hl.
    exists LOff. split; [destruct l; [now elim Hl|reflexivity|reflexivity]|].
    split; [split; [split; [intros _; exact Hst|reflexivity]|rewrite Hst; intros [D|D]; discriminate]|].
    intros _. rewrite Hr. lia.
  - destruct Hs as (_ & Hr & Hst & _). exists l. split; [reflexivity|].
    split; [destruct Hfit as [F1 F2]; split; rewrite Hst; assumption|]. intros _. rewrite Hr. lia.
Qed.

Lemma fits_mk l s (p : periph) :
  pe_state p = s ->
  (l = LOff <-> s = PsOffline) -> (s = PsPreDataExchange \/ s = PsDataExchange -> l = LCfg) -> life_fits l p.
Proof. intros <- H1 H2. split; assumption. Qed.

(* a reply: Online from Offline; Configured / errors / nothing from the bring-up states; DataExchanged and
   Diagnostics only in (Pre)DataExchange *)
Lemma rx_life pa p t p1 ev l :
  0 <= p_max_retry pa -> p_receive_reply p t = Ok (p1, ev) -> off_inv pa p -> life_fits l p ->
  exists l', life_run l (match ev with Some e => [e] | None => [] end) = Some l' /\ life_fits l' p1 /\ off_inv pa p1.
Proof.
  intros HM H Hoff Hfit. unfold p_receive_reply in H.
  destruct (pe_state p) eqn:Hst.
  - (* Offline *)
    pose proof (fits_off l p Hfit Hst) as ->.
    unfold bind in H. destruct (p_handle_diag p t) as [[p0 d]| |] eqn:Hd; try discriminate.
    apply handle_diag_frame in Hd. destruct Hd as (_ & Hs0 & Hr0 & _ & _ & _ & _ & _ & Hn & _).
    destruct d; inversion H; subst.
    + exists LOn. split; [reflexivity|]. split.
      * apply (fits_mk _ PsWaitForParam); [reflexivity|split; discriminate|intros [D|D]; discriminate].
      * intro D. discriminate.
    + exists LOff. split; [reflexivity|]. rewrite (Hn eq_refl). split; [exact Hfit|exact Hoff].
  - (* WaitForParam *)
    assert (Hl : l <> LOff) by (apply (fits_live l p Hfit); rewrite Hst; discriminate).
    destruct (is_sc t); unfold bind in H.
    + destruct (fcb_cycle (pe_fcb p)); try discriminate. inversion H; subst. exists l. split; [reflexivity|].
      split; [|intro D; discriminate].
      apply (fits_mk _ PsWaitForConfig); [reflexivity|split; [intro E; now elim Hl|discriminate]|intros [D|D]; discriminate].
    + inversion H; subst. exists l. split; [reflexivity|]. split; [exact Hfit|exact Hoff].
  - (* WaitForConfig *)
    assert (Hl : l <> LOff) by (apply (fits_live l p Hfit); rewrite Hst; discriminate).
    destruct (is_sc t); unfold bind in H.
    + destruct (fcb_cycle (pe_fcb p)); try discriminate. inversion H; subst. exists l. split; [reflexivity|].
      split; [|intro D; discriminate].
      apply (fits_mk _ PsValidateConfig); [reflexivity|split; [intro E; now elim Hl|discriminate]|intros [D|D]; discriminate].
    + inversion H; subst. exists l. split; [reflexivity|]. split; [exact Hfit|exact Hoff].
  - (* ValidateConfig *)
    assert (Hl : l <> LOff) by (apply (fits_live l p Hfit); rewrite Hst; discriminate).
    unfold bind in H. destruct (p_handle_diag (set_retry p 0) t) as [[p0 d]| |] eqn:Hd; try discriminate.
    apply handle_diag_frame in Hd. destruct Hd as (_ & Hs0 & Hr0 & _ & _ & _ & _ & _ & Hn & _).
    cbn [pe_retry pe_state set_retry] in Hr0, Hs0.
    destruct d as [di|].
    + unfold validate_outcome in H.
      destruct (flags_contains (d_flags di) DF_PARAMETER_FAULT).
      { inversion H; subst. exists LOff. split; [destruct l; [now elim Hl|reflexivity|reflexivity]|].
        split; [apply (fits_mk _ PsOffline); [reflexivity|split; reflexivity|intros [D|D]; discriminate]|].
        intros _. cbn [pe_retry set_state]. rewrite Hr0. exact HM. }
      destruct (flags_contains (d_flags di) DF_CONFIGURATION_FAULT).
      { inversion H; subst. exists LOff. split; [destruct l; [now elim Hl|reflexivity|reflexivity]|].
        split; [apply (fits_mk _ PsOffline); [reflexivity|split; reflexivity|intros [D|D]; discriminate]|].
        intros _. cbn [pe_retry set_state]. rewrite Hr0. exact HM. }
      destruct (flags_contains (d_flags di) DF_PARAMETER_REQUIRED).
      { inversion H; subst. exists l. split; [reflexivity|]. split; [|intro D; discriminate].
        apply (fits_mk _ PsWaitForParam); [reflexivity|split; [intro E; now elim Hl|discriminate]|intros [D|D]; discriminate]. }
      destruct (negb (flags_contains (d_flags di) DF_STATION_NOT_READY)).
      { inversion H; subst. exists LCfg. split; [destruct l; [now elim Hl|reflexivity|reflexivity]|].
        split; [|intro D; discriminate].
        apply (fits_mk _ PsPreDataExchange); [reflexivity|split; discriminate|reflexivity]. }
      inversion H; subst. exists l. split; [reflexivity|]. split; [|intro D; discriminate].
      apply (fits_mk _ PsValidateConfig); [reflexivity|split; [intro E; now elim Hl|discriminate]|intros [D|D]; discriminate].
    + inversion H; subst. exists l. split; [reflexivity|]. split; [|intro D; discriminate].
      apply (fits_mk _ PsValidateConfig); [reflexivity|split; [intro E; now elim Hl|discriminate]|intros [D|D]; discriminate].
  - (* PreDataExchange *)
    assert (Hl : l = LCfg) by (destruct Hfit as [_ F]; apply F; left; exact Hst). subst l.
    destruct (pe_diag_in_flight p); unfold bind in H.
    + destruct (p_handle_diag p t) as [[p0 d]| |] eqn:Hd; try discriminate.
      apply handle_diag_frame in Hd. destruct Hd as (_ & Hs0 & _ & _ & _ & _ & _ & _ & Hn & _).
      destruct d as [di|].
      * exists LCfg. split; [inversion H; reflexivity|]. split; [|inversion H; subst; intro D;
          destruct (flags_contains (d_flags di) DF_PARAMETER_REQUIRED); cbn in D; try discriminate; rewrite Hs0, Hst in D; discriminate].
        inversion H; subst. destruct (flags_contains (d_flags di) DF_PARAMETER_REQUIRED).
        -- apply (fits_mk _ PsWaitForParam); [reflexivity|split; discriminate|reflexivity].
        -- apply (fits_mk _ PsPreDataExchange); [cbn; rewrite Hs0; exact Hst|split; discriminate|reflexivity].
      * inversion H; subst. exists LCfg. split; [reflexivity|]. rewrite (Hn eq_refl). split; [exact Hfit|exact Hoff].
    + destruct (p_receive_dx p t) as [[p0 e0]| |] eqn:Hdx; try discriminate.
      destruct (fcb_cycle (pe_fcb (set_retry p0 0))); try discriminate. inversion H; subst.
      assert (Hs0 : pe_state p0 = PsValidateConfig \/ pe_state p0 = PsPreDataExchange \/ pe_state p0 = PsDataExchange).
      { unfold p_receive_dx in Hdx. destruct t as [h pdu|d s|]; [|discriminate|].
        - destruct (h_fc h) as [|rl st]; [discriminate|].
          destruct st; cbn [fst snd] in Hdx;
            repeat match type of Hdx with context [if ?c then _ else _] => destruct c end;
            unfold copy_from_slice, bind in Hdx;
            repeat match type of Hdx with context [if ?c then _ else _] => destruct c end;
            try discriminate; inversion Hdx; subst; cbn; rewrite ?Hst; auto.
        - destruct (negb (Nat.eqb (length (pe_pi_i p)) 0)); inversion Hdx; subst; cbn; rewrite ?Hst; auto. }
      assert (He : ev = None \/ ev = Some EvDataExchanged).
      { unfold p_receive_dx in Hdx. destruct t as [h pdu|d s|]; [|discriminate|].
        - destruct (h_fc h) as [|rl st]; [discriminate|].
          destruct st; cbn [fst snd] in Hdx;
            repeat match type of Hdx with context [if ?c then _ else _] => destruct c end;
            unfold copy_from_slice, bind in Hdx;
            repeat match type of Hdx with context [if ?c then _ else _] => destruct c end;
            try discriminate; inversion Hdx; subst; auto.
        - destruct (negb (Nat.eqb (length (pe_pi_i p)) 0)); inversion Hdx; subst; auto. }
      exists LCfg. split; [destruct He as [-> | ->]; reflexivity|].
      split; [|intro D; cbn in D; destruct Hs0 as [E|[E|E]]; rewrite E in D; discriminate].
      split; [split; [discriminate|cbn; intro D; destruct Hs0 as [E|[E|E]]; rewrite E in D; discriminate]|reflexivity].
  - (* DataExchange *)
    assert (Hl : l = LCfg) by (destruct Hfit as [_ F]; apply F; right; exact Hst). subst l.
    destruct (pe_diag_in_flight p); unfold bind in H.
    + destruct (p_handle_diag p t) as [[p0 d]| |] eqn:Hd; try discriminate.
      apply handle_diag_frame in Hd. destruct Hd as (_ & Hs0 & _ & _ & _ & _ & _ & _ & Hn & _).
      destruct d as [di|].
      * exists LCfg. split; [inversion H; reflexivity|]. split; [|inversion H; subst; intro D;
          destruct (flags_contains (d_flags di) DF_PARAMETER_REQUIRED); cbn in D; try discriminate; rewrite Hs0, Hst in D; discriminate].
        inversion H; subst. destruct (flags_contains (d_flags di) DF_PARAMETER_REQUIRED).
        -- apply (fits_mk _ PsWaitForParam); [reflexivity|split; discriminate|reflexivity].
        -- apply (fits_mk _ PsDataExchange); [cbn; rewrite Hs0; exact Hst|split; discriminate|reflexivity].
      * inversion H; subst. exists LCfg. split; [reflexivity|]. rewrite (Hn eq_refl). split; [exact Hfit|exact Hoff].
    + destruct (p_receive_dx p t) as [[p0 e0]| |] eqn:Hdx; try discriminate.
      destruct (fcb_cycle (pe_fcb (set_retry p0 0))); try discriminate. inversion H; subst.
      assert (Hs0 : pe_state p0 = PsValidateConfig \/ pe_state p0 = PsPreDataExchange \/ pe_state p0 = PsDataExchange).
      { unfold p_receive_dx in Hdx. destruct t as [h pdu|d s|]; [|discriminate|].
        - destruct (h_fc h) as [|rl st]; [discriminate|].
          destruct st; cbn [fst snd] in Hdx;
            repeat match type of Hdx with context [if ?c then _ else _] => destruct c end;
            unfold copy_from_slice, bind in Hdx;
            repeat match type of Hdx with context [if ?c then _ else _] => destruct c end;
            try discriminate; inversion Hdx; subst; cbn; rewrite ?Hst; auto.
        - destruct (negb (Nat.eqb (length (pe_pi_i p)) 0)); inversion Hdx; subst; cbn; rewrite ?Hst; auto. }
      assert (He : ev = None \/ ev = Some EvDataExchanged).
      { unfold p_receive_dx in Hdx. destruct t as [h pdu|d s|]; [|discriminate|].
        - destruct (h_fc h) as [|rl st]; [discriminate|].
          destruct st; cbn [fst snd] in Hdx;
            repeat match type of Hdx with context [if ?c then _ else _] => destruct c end;
            unfold copy_from_slice, bind in Hdx;
            repeat match type of Hdx with context [if ?c then _ else _] => destruct c end;
            try discriminate; inversion Hdx; subst; auto.
        - destruct (negb (Nat.eqb (length (pe_pi_i p)) 0)); inversion Hdx; subst; auto. }
      exists LCfg. split; [destruct He as [-> | ->]; reflexivity|].
      split; [|intro D; cbn in D; destruct Hs0 as [E|[E|E]]; rewrite E in D; discriminate].
      split; [split; [discriminate|cbn; intro D; destruct Hs0 as [E|[E|E]]; rewrite E in D; discriminate]|reflexivity].
Qed.

Lemma life_run_app l a b :
  life_run l (a ++ b) = match life_run l a with Some l1 => life_run l1 b | None => None end.
Proof.
  revert l. induction a as [|e a IH]; intro l; [reflexivity|].
  cbn [app life_run]. destruct (l_step l e); [apply IH|reflexivity].
Qed.

Lemma pop_life pa op p o p1 evs l :
  1 <= p_max_retry pa -> pop_step pa op p o = Ok (p1, evs) -> off_inv pa p -> life_fits l p ->
  exists l', life_run l evs = Some l' /\ life_fits l' p1 /\ off_inv pa p1.
Proof.
  intros HM H Hoff Hfit. destruct o as [|t| |q]; cbn [pop_step] in H.
  - unfold bind in H. destruct (p_transmit pa op p) as [[p0 r]| |] eqn:Ht; try discriminate.
    inversion H; subst. exact (tx_life pa op p p1 r l HM Ht Hoff Hfit).
  - unfold bind in H. destruct (p_receive_reply p t) as [[p0 ev]| |] eqn:Hr; try discriminate.
    inversion H; subst. apply (rx_life pa p t p1 ev l); try assumption. lia.
  - inversion H; subst. exists l. split; [reflexivity|]. split; [exact Hfit|exact Hoff].
  - inversion H; subst. exists l. split; [reflexivity|]. split; [exact Hfit|exact Hoff].
Qed.

(* C07_online_again, history form: over EVERY history of turns, replies (any telegram), timeouts and user calls
   the events handed out follow the life-cycle automaton *)
Theorem life_history pa op : 1 <= p_max_retry pa -> forall ops p l p' evs,
  run_pops pa op p ops = Ok (p', evs) -> off_inv pa p -> life_fits l p ->
  exists l', life_run l evs = Some l' /\ life_fits l' p' /\ off_inv pa p'.
Proof.
  intros HM. induction ops as [|o ops IH]; intros p l p' evs H Hoff Hfit.
  - inversion H; subst. exists l. split; [reflexivity|]. split; assumption.
  - cbn [run_pops] in H. unfold bind in H.
    destruct (pop_step pa op p o) as [[p1 e1]| |] eqn:H1; try discriminate.
    destruct (run_pops pa op p1 ops) as [[p2 e2]| |] eqn:H2; try discriminate.
    inversion H; subst.
    destruct (pop_life pa op p o p1 e1 l HM H1 Hoff Hfit) as (l1 & R1 & F1 & O1).
    destruct (IH p1 l1 p' e2 H2 O1 F1) as (l2 & R2 & F2 & O2).
    exists l2. split; [rewrite life_run_app, R1; exact R2|]. split; assumption.
Qed.

(* what the automaton accepts on the way from Off to Cfg *)
Lemma life_reaches_cfg : forall evs l, life_run l evs = Some LCfg ->
  match l with
  | LCfg => True
  | LOn => exists b c, evs = b ++ EvConfigured :: c
  | LOff => exists a b c, evs = a ++ EvOnline :: b ++ EvConfigured :: c
  end.
Proof.
  induction evs as [|e r IH]; intros l H.
  - cbn in H. inversion H; subst. exact I.
  - cbn [life_run] in H. destruct (l_step l e) as [l1|] eqn:Hs; [|discriminate].
    specialize (IH l1 H).
    destruct l; [| |exact I].
    + destruct e; try discriminate. inversion Hs; subst. destruct IH as (b & c & ->).
      exists [], b, c. reflexivity.
    + destruct e; try discriminate; inversion Hs; subst.
      * exists [], r. reflexivity.
      * destruct IH as (a & b & c & ->). exists (EvConfigError :: a ++ EvOnline :: b), c.
        cbn [app]. rewrite <- app_assoc. reflexivity.
      * destruct IH as (a & b & c & ->). exists (EvParameterError :: a ++ EvOnline :: b), c.
        cbn [app]. rewrite <- app_assoc. reflexivity.
      * destruct IH as (a & b & c & ->). exists (EvOffline :: a ++ EvOnline :: b), c.
        cbn [app]. rewrite <- app_assoc. reflexivity.
Qed.

(* no DataExchanged is accepted before Online and Configured *)
Lemma dx_needs_online_configured a b l :
  life_run LOff (a ++ EvDataExchanged :: b) = Some l ->
  exists a1 a2 a3, a = a1 ++ EvOnline :: a2 ++ EvConfigured :: a3.
Proof.
  rewrite life_run_app. destruct (life_run LOff a) as [l1|] eqn:Ha; [|discriminate].
  cbn [life_run]. destruct l1; try discriminate. intros _.
  exact (life_reaches_cfg a LOff Ha).
Qed.

(* the joint run is one particular history *)
Lemma run_pops_app pa op a : forall p b,
  run_pops pa op p (a ++ b) =
    (let* (p1, e1) := run_pops pa op p a in let* (p2, e2) := run_pops pa op p1 b in Ok (p2, e1 ++ e2)).
Proof.
  induction a as [|o a IH]; intros p b.
  - cbn [app run_pops bind]. destruct (run_pops pa op p b) as [[p2 e2]| |]; reflexivity.
  - cbn [app run_pops]. destruct (pop_step pa op p o) as [[p1 e1]| |]; cbn [bind]; try reflexivity.
    rewrite IH. destruct (run_pops pa op p1 a) as [[p2 e2]| |]; cbn [bind]; try reflexivity.
    destruct (run_pops pa op p2 b) as [[p3 e3]| |]; cbn [bind]; try reflexivity.
    rewrite app_assoc. reflexivity.
Qed.

Lemma joint_cycle_pops pa op p s p' s' evs :
  joint_cycle pa op (p, s) = Ok ((p', s'), evs) -> exists ops, run_pops pa op p ops = Ok (p', evs).
Proof.
  unfold joint_cycle. unfold bind at 1. destruct (p_transmit pa op p) as [[p1 r]| |] eqn:Ht; try discriminate.
  destruct r as [h pdu|ev].
  - destruct (slave_step s (frame_spec h pdu)) as [s1 reply].
    destruct (deliver (p_address pa) (pe_addr p) reply) as [t|].
    + unfold bind. destruct (p_receive_reply p1 t) as [[p2 ev]| |] eqn:Hr; try discriminate.
      intro H. inversion H; subst. exists [PopTx; PopRx t].
      cbn [run_pops pop_step]. rewrite Ht. cbn [bind]. rewrite Hr. cbn [bind tx_events app].
      rewrite app_nil_r. reflexivity.
    + intro H. inversion H; subst. exists [PopTx]. cbn [run_pops pop_step]. rewrite Ht. reflexivity.
  - intro H. inversion H; subst. exists [PopTx]. cbn [run_pops pop_step]. rewrite Ht. cbn [bind tx_events].
    rewrite app_nil_r. destruct ev; reflexivity.
Qed.

Lemma joint_run_pops pa op : forall n p s p' s' evs,
  joint_run pa op n (p, s) = Ok ((p', s'), evs) -> exists ops, run_pops pa op p ops = Ok (p', evs).
Proof.
  induction n as [|n IH]; intros p s p' s' evs H.
  - inversion H; subst. exists []. reflexivity.
  - cbn [joint_run] in H. unfold bind in H.
    destruct (joint_cycle pa op (p, s)) as [[[p1 s1] e1]| |] eqn:H1; try discriminate.
    destruct (joint_run pa op n (p1, s1)) as [[[p2 s2] e2]| |] eqn:H2; try discriminate.
    inversion H; subst.
    destruct (joint_cycle_pops pa op p s p1 s1 e1 H1) as (o1 & R1).
    destruct (IH p1 s1 p' s' e2 H2) as (o2 & R2).
    exists (o1 ++ o2). rewrite run_pops_app, R1. cbn [bind]. rewrite R2. reflexivity.
Qed.

(* C07_online_again, joint form: a peripheral reported Offline whose device answers again is in data exchange
   within the bound, and on the way it was reported Online and then Configured; the whole event sequence
   is accepted by the life-cycle automaton from Off (so no DataExchanged comes before them) *)
Theorem online_again pa op p s :
  jinv pa p s -> op <> OpStop -> pe_state p = PsOffline -> pe_retry p <= p_max_retry pa ->
  exists k st' evs, (k <= c07_cycles (p_max_retry pa))%nat /\
    joint_run pa op k (p, s) = Ok (st', evs) /\ in_dx st' /\
    life_run LOff evs = Some LCfg /\
    exists a b c, evs = a ++ EvOnline :: b ++ EvConfigured :: c.
Proof.
  intros J Hop Hst Hr.
  assert (Hns : ~ f15_suspect (p, s)).
  { intros [_ [D|[D|[D|[D _]]]]]; rewrite Hst in D; discriminate. }
  destruct (recovery_explicit pa op p s J Hop Hns) as (k & Hk & Hall).
  destruct (Hall k (le_n k)) as ([p' s'] & evs & Hrun & Hdx).
  exists k, (p', s'), evs. split; [exact Hk|]. split; [exact Hrun|]. split; [exact Hdx|].
  destruct (joint_run_pops pa op k p s p' s' evs Hrun) as (ops & Hops).
  assert (HM : 1 <= p_max_retry pa) by (destruct (ji_M _ _ _ J); assumption).
  assert (Hfit : life_fits LOff p).
  { split; [split; [intros _; exact Hst|reflexivity]|intros [D|D]; rewrite Hst in D; discriminate]. }
  destruct (life_history pa op HM ops p LOff p' evs Hops (fun _ => Hr) Hfit) as (l' & Hl & [_ F2] & _).
  destruct Hdx as [D _]. cbn [fst] in D.
  assert (l' = LCfg) by (apply F2; right; exact D). subst l'.
  split; [exact Hl|]. exact (life_reaches_cfg evs LOff Hl).
Qed.

Lemma bound_within_monitor : forall max_retry, 0 <= max_retry ->
  c07_cycles max_retry = (Z.to_nat max_retry + 11)%nat /\ (c07_cycles max_retry <= c07_bound max_retry)%nat.
Proof. intros m H. split; [reflexivity|exact (cycles_le_bound m H)]. Qed.
