(* C07: the complete check of the finite control space, part 1 (ready delay 1); see C07Proofs.v *)
From PB Require Import C07Abs.
Lemma chk_fixes_1 : chk_fixes (fixes_d 1) = true.
Proof. vm_cast_no_check (eq_refl true). Qed.
