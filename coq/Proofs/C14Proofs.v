(* C14_turn_ends: <DpMaster as FdlApplication>::transmit_telegram always returns: the slot loop of the model
   never runs out of the fuel `length slots + 2`, for every master state (any slot vector incl. empty and
   all-None, any cycle state), every parameter set and time. *)
From PB Require Import DpMaster.

Definition no_fuel {A} (r : res A) : Prop := r <> OutOfFuel.

Lemma nf_ok : forall A (a : A), no_fuel (Ok a).
Proof. intros A a H; discriminate H. Qed.
Lemma nf_panic : forall A s, no_fuel (@Panic A s).
Proof. intros A s H; discriminate H. Qed.
Lemma nf_bind : forall A B (r : res A) (f : A -> res B),
  no_fuel r -> (forall a, no_fuel (f a)) -> no_fuel (bind r f).
Proof. intros A B r f Hr Hf. destruct r; cbn; [apply Hf|apply nf_panic|now elim Hr]. Qed.
#[local] Hint Resolve nf_ok nf_panic : nf.

(* ------------------------------------------------------------------ nothing but the loop uses fuel *)

Lemma nf_put : forall buf i v, no_fuel (put buf i v).
Proof. intros. unfold put. destruct (Nat.ltb i (length buf)); auto with nf. Qed.

Lemma nf_put_all : forall vs buf i, no_fuel (put_all buf i vs).
Proof.
  induction vs as [|v vs IH]; intros buf i; cbn [put_all]; [auto with nf|].
  apply nf_bind; [apply nf_put|intro b; apply IH].
Qed.

Lemma nf_serialize : forall h pdu buf, no_fuel (serialize_data h pdu buf).
Proof.
  intros h pdu buf. unfold serialize_data.
  apply nf_bind; [apply nf_put|intro b0].
  apply nf_bind.
  { destruct (_ =? SD2); [|auto with nf].
    destruct (Nat.ltb 249 _); [auto with nf|]. destruct (Nat.ltb 255 _); [auto with nf|].
    repeat (apply nf_bind; [apply nf_put|intro]). auto with nf. }
  intros [b1 c1].
  repeat (apply nf_bind; [apply nf_put|intro]).
  apply nf_bind.
  { destruct (h_dsap h); [apply nf_bind; [apply nf_put|intro; auto with nf]|auto with nf]. }
  intros [b2 c2].
  apply nf_bind.
  { destruct (h_ssap h); [apply nf_bind; [apply nf_put|intro; auto with nf]|auto with nf]. }
  intros [b3 c3].
  destruct (Nat.ltb _ _); [auto with nf|].
  apply nf_bind; [apply nf_put_all|intro].
  repeat (apply nf_bind; [apply nf_put|intro]).
  destruct (negb _); auto with nf.
Qed.

Lemma nf_send_data : forall n h pdu, no_fuel (send_data n h pdu).
Proof.
  intros. unfold send_data, encode_data_in.
  apply nf_bind; [|intro; auto with nf].
  apply nf_bind; [apply nf_serialize|intros [b c]; auto with nf].
Qed.

Lemma nf_p_transmit : forall pa op p, no_fuel (p_transmit pa op p).
Proof.
  intros. unfold p_transmit. destruct (opstate_eqb op OpStop); [auto with nf|].
  destruct (p_transmit_select pa op p) as [p1 r]. destruct r; [|auto with nf].
  destruct (255 <=? pe_retry p1); auto with nf.
Qed.

Lemma nf_u8 : forall i, no_fuel (u8_index i).
Proof. intros. unfold u8_index. destruct (Nat.ltb 255 i); auto with nf. Qed.

Lemma nf_get_at_index : forall l i, no_fuel (get_at_index l i).
Proof.
  intros. unfold get_at_index. destruct (find_occupied _ _) as [[j p]|]; [|auto with nf].
  apply nf_bind; [apply nf_u8|intro; auto with nf].
Qed.

Lemma nf_get_next_index : forall l i, no_fuel (get_next_index l i).
Proof.
  intros. unfold get_next_index. destruct (occupied_from _ _) as [|a [|b r]]; auto with nf.
  apply nf_bind; [apply nf_u8|intro; auto with nf].
Qed.

Lemma nf_increment_cycle : forall m i, no_fuel (increment_cycle m i).
Proof.
  intros. unfold increment_cycle. apply nf_bind; [apply nf_get_next_index|intros [n|]; auto with nf].
Qed.

(* ------------------------------------------------------------------ occupancy of the slot vector *)

Definition occ (o : option periph) : bool := match o with Some _ => true | None => false end.

Lemma occupied_mask : forall l l' j, map occ l = map occ l' -> occupied_from l j = occupied_from l' j.
Proof.
  induction l as [|x l IH]; intros [|y l'] j H; try discriminate H; [reflexivity|].
  cbn in H. inversion H as [[Hx Hl]].
  destruct x, y; try discriminate Hx; cbn [occupied_from]; rewrite (IH l' (S j) Hl); reflexivity.
Qed.

Lemma put_slot_mask : forall l i p q, nth_error l i = Some (Some q) -> map occ (put_slot l i p) = map occ l.
Proof.
  induction l as [|x l IH]; intros i p q H; [destruct i; discriminate H|].
  destruct i; cbn in *.
  - inversion H; subst. reflexivity.
  - rewrite (IH i p q H). reflexivity.
Qed.

Lemma map_skipn : forall A B (f : A -> B) n l, map f (skipn n l) = skipn n (map f l).
Proof. induction n; intros [|x l]; cbn; auto. Qed.

Lemma put_slot_occupied : forall l i p q n,
  nth_error l i = Some (Some q) ->
  occupied_from (skipn n (put_slot l i p)) n = occupied_from (skipn n l) n.
Proof.
  intros. apply occupied_mask. rewrite !map_skipn. rewrite (put_slot_mask l i p q H). reflexivity.
Qed.

Lemma find_occupied_nth : forall l j i p,
  find_occupied l j = Some (i, p) -> exists k, i = (j + k)%nat /\ nth_error l k = Some (Some p).
Proof.
  induction l as [|x l IH]; intros j i p H; [discriminate H|].
  destruct x as [q|]; cbn in H.
  - inversion H; subst. exists 0%nat. split; [lia|reflexivity].
  - destruct (IH _ _ _ H) as (k & Hk & Hn). exists (S k). split; [lia|exact Hn].
Qed.

Lemma nth_error_skipn' : forall A n (l : list A) k, nth_error (skipn n l) k = nth_error l (n + k).
Proof. induction n; intros [|x l] k; cbn; auto. destruct k; reflexivity. Qed.

(* the first occupied position of l (counted from i) and what follows it *)
Lemma occupied_head : forall l i b r,
  occupied_from l i = b :: r ->
  exists k, b = (i + k)%nat /\ occupied_from (skipn k l) b = b :: r.
Proof.
  induction l as [|x l IH]; intros i b r H; [discriminate H|].
  destruct x as [q|]; cbn [occupied_from] in H.
  - inversion H; subst. exists 0%nat. split; [lia|]. cbn. reflexivity.
  - destruct (IH _ _ _ H) as (k & Hk & Ho). exists (S k). split; [lia|exact Ho].
Qed.

Lemma occupied_second : forall l i a b r,
  occupied_from l i = a :: b :: r ->
  exists k, b = (i + k)%nat /\ occupied_from (skipn k l) b = b :: r.
Proof.
  induction l as [|x l IH]; intros i a b r H; [discriminate H|].
  destruct x as [q|]; cbn [occupied_from] in H.
  - injection H as Ha Hrest.
    destruct (occupied_head _ _ _ _ Hrest) as (k & Hk & Ho). exists (S k). split; [lia|exact Ho].
  - destruct (IH _ _ _ _ H) as (k & Hk & Ho). exists (S k). split; [lia|exact Ho].
Qed.

Lemma occupied_length : forall l j, (length (occupied_from l j) <= length l)%nat.
Proof. induction l as [|[q|] l IH]; intro j; cbn; [lia| |]; specialize (IH (S j)); lia. Qed.

(* measure of the loop: occupied slots at or after the cycle index *)
Definition mu (m : dpm) : nat :=
  match dm_cycle m with
  | CyCompleted => 0%nat
  | CyDataExchange i => length (occupied_from (skipn i (dm_slots m)) i)
  end.

Lemma mu_le : forall m, (mu m <= length (dm_slots m))%nat.
Proof.
  intro m. unfold mu. destruct (dm_cycle m); [|lia].
  etransitivity; [apply occupied_length|]. rewrite skipn_length. lia.
Qed.

Lemma skipn_skipn' : forall A k n (l : list A), skipn k (skipn n l) = skipn (n + k) l.
Proof. induction n; intros [|x l]; cbn; auto. destruct k; reflexivity. Qed.

Lemma get_at_index_some : forall l index hd p,
  get_at_index l index = Ok (Some (hd, p)) -> nth_error l (hd_index hd) = Some (Some p).
Proof.
  intros l index hd p H. unfold get_at_index in H.
  destruct (find_occupied (skipn index l) index) as [[i q]|] eqn:Hf; [|discriminate H].
  unfold bind, u8_index in H. destruct (Nat.ltb 255 i); [discriminate H|].
  inversion H; subst. cbn.
  destruct (find_occupied_nth _ _ _ _ Hf) as (k & Hk & Hn).
  rewrite nth_error_skipn' in Hn. subst i. exact Hn.
Qed.

Lemma increment_mu : forall m index m2,
  dm_cycle m = CyDataExchange index ->
  increment_cycle m index = Ok (m2, false) ->
  (S (mu m2) = mu m)%nat.
Proof.
  intros m index m2 Hc H. unfold increment_cycle, get_next_index in H.
  destruct (occupied_from (skipn index (dm_slots m)) index) as [|a [|b r]] eqn:Ho; cbn [bind] in H;
    try (inversion H; fail).
  unfold bind, u8_index in H. destruct (Nat.ltb 255 b); [discriminate H|].
  inversion H; subst. unfold mu. cbn [dm_cycle set_cycle dm_slots]. rewrite Hc, Ho.
  destruct (occupied_second _ _ _ _ _ Ho) as (k & Hk & Hs).
  rewrite skipn_skipn' in Hs. replace (index + k)%nat with b in Hs by lia.
  rewrite Hs. reflexivity.
Qed.

Lemma tx_loop_ends : forall fuel pa bufsize m pev,
  (mu m < fuel)%nat -> no_fuel (dp_tx_loop fuel pa bufsize m pev).
Proof.
  induction fuel as [|fuel IH]; intros pa bufsize m pev Hmu; [lia|].
  cbn [dp_tx_loop].
  destruct (dm_cycle m) as [index|] eqn:Hc; [|apply nf_ok].
  destruct (get_at_index (dm_slots m) index) as [[[hd p]|]| |] eqn:Hg; cbn [bind];
    [|apply nf_ok|apply nf_panic|exact (False_ind _ (nf_get_at_index _ _ Hg))].
  pose proof (get_at_index_some _ _ _ _ Hg) as Hnth.
  destruct (p_transmit pa (dm_op m) p) as [[p1 r]| |] eqn:Hp; cbn [bind];
    [|apply nf_panic|exact (False_ind _ (nf_p_transmit _ _ _ Hp))].
  destruct r as [h pdu|ev].
  - apply nf_bind; [apply nf_send_data|intro; apply nf_ok].
  - apply nf_bind; [destruct ev; [destruct pev|]; auto using nf_ok, nf_panic|intro pev1].
    set (m1 := set_slots m (put_slot (dm_slots m) (hd_index hd) p1)).
    destruct (increment_cycle m1 index) as [[m2 completed]| |] eqn:Hi; cbn [bind];
      [|apply nf_panic|exact (False_ind _ (nf_increment_cycle _ _ Hi))].
    destruct completed; [apply nf_ok|].
    destruct pev1; [apply nf_ok|].
    apply IH.
    assert (Hm1 : mu m1 = mu m).
    { unfold mu, m1. cbn [dm_cycle set_slots dm_slots]. rewrite Hc.
      rewrite (put_slot_occupied _ _ p1 p index Hnth). reflexivity. }
    assert (Hc1 : dm_cycle m1 = CyDataExchange index) by (unfold m1; cbn; exact Hc).
    pose proof (increment_mu _ _ _ Hc1 Hi). lia.
Qed.

Lemma dp_transmit_ends : forall pa bufsize m now hp, dp_transmit pa bufsize m now hp <> OutOfFuel.
Proof.
  intros. unfold dp_transmit.
  destruct (opstate_eqb (dm_op m) OpStop); [apply nf_ok|].
  apply nf_bind.
  { destruct hp; [apply nf_ok|]. unfold gc_due. destruct (dm_last_gc m); [|apply nf_ok].
    apply nf_bind; [|intro; apply nf_ok]. unfold instant_diff. destruct (_ || _); auto using nf_ok, nf_panic. }
  intros due. destruct due.
  - apply nf_bind; [destruct (dm_op m); auto using nf_ok, nf_panic|intro b].
    apply nf_bind; [apply nf_send_data|intro; apply nf_ok].
  - apply tx_loop_ends. unfold dp_tx_fuel. pose proof (mu_le m). lia.
Qed.
