(* More one-step facts about the FDL station model: what the GAP branches transmit (C12), what
   do_listen_token can lead to (C11), when applications are asked (C13), and the synchronisation
   pause before every transmission of do_pass_token / do_claim_token (C01). *)
From PB Require Import Common Tables FdlTables Telegram Phy TokenRing Params Fdl FdlProofs.

Section WithApps.
Variable A : Type.
Variable ops : app_ops A.
Notation W := (world A).

(* ------------------------------------------------------------------------------------------ *)
(* frame lemmas: what the small helpers leave unchanged                                         *)

Definition same_but_lba (f f' : fdl) : Prop :=
  f_p f' = f_p f /\ f_ring f' = f_ring f /\ f_conn f' = f_conn f /\ f_gap f' = f_gap f /\
  f_state f' = f_state f /\ f_pending f' = f_pending f /\ f_last_token_time f' = f_last_token_time f /\
  f_end_tht f' = f_end_tht f /\ f_next_app f' = f_next_app f.

Lemma same_but_lba_refl f : same_but_lba f f.
Proof. unfold same_but_lba. repeat split; reflexivity. Qed.

Lemma same_but_lba_trans f g h : same_but_lba f g -> same_but_lba g h -> same_but_lba f h.
Proof. unfold same_but_lba. intuition congruence. Qed.

Lemma lba_get_or_insert_same f now l f' : lba_get_or_insert f now = (l, f') ->
  same_but_lba f f' /\ f_lba f' = Some l /\ (match f_lba f with Some l0 => l = l0 | None => l = now end).
Proof.
  unfold lba_get_or_insert. destruct (f_lba f) as [l0|] eqn:E; intros H; injection H as <- <-.
  - split; [apply same_but_lba_refl|]. split; [exact E|reflexivity].
  - split; [unfold same_but_lba; cbn; repeat split; reflexivity|]. split; reflexivity.
Qed.

Lemma wait_sync_same f now f' b : wait_synchronization_pause f now = Ok (f', b) ->
  same_but_lba f f' /\
  exists l, f_lba f' = Some l /\ (match f_lba f with Some l0 => l = l0 | None => l = now end) /\
            (b = false -> l + p_bits_to_time (f_p f) sync_pause_bits < now).
Proof.
  unfold wait_synchronization_pause. destruct (lba_get_or_insert f now) as [l f1] eqn:E.
  apply lba_get_or_insert_same in E. destruct E as [Hs [Hl Hm]].
  unfold inst_add. destruct (i64_ok (l + p_bits_to_time (f_p f1) sync_pause_bits)); cbn [bind]; [|discriminate].
  intros H. injection H as <- <-. split; [exact Hs|]. exists l. split; [exact Hl|]. split; [exact Hm|].
  intros Hb. apply Z.leb_gt in Hb. destruct Hs as [Hp _]. rewrite Hp in Hb. exact Hb.
Qed.

Lemma mark_tx_same f now n f' : mark_tx f now n = Ok f' -> same_but_lba f f'.
Proof.
  unfold mark_tx. destruct (4294967295 <? Z.of_nat n); [discriminate|].
  destruct (4294967295 <? bits_per_byte * Z.of_nat n); [discriminate|].
  unfold inst_add. destruct (i64_ok _); cbn [bind]; [|discriminate].
  intros H. injection H as <-. unfold same_but_lba. cbn. repeat split; reflexivity.
Qed.

Lemma check_slot_expired_same f now f' b : check_slot_expired f now = Ok (f', b) -> same_but_lba f f'.
Proof.
  unfold check_slot_expired. destruct (lba_get_or_insert f now) as [l f1] eqn:E.
  apply lba_get_or_insert_same in E. destruct E as [Hs _].
  unfold inst_add. destruct (i64_ok _); cbn [bind]; [|discriminate].
  intros H. injection H as <- <-. exact Hs.
Qed.

Lemma phy_send_tx (w : W) rq w' n : phy_send A w rq = Ok (w', n) ->
  w_tx w = None /\ (exists wire, w_tx w' = Some wire) /\ w_calls w' = w_calls w /\ w_rx w' = w_rx w /\ w_apps w' = w_apps w.
Proof.
  unfold phy_send. destruct (transmit tx_buffer_size rq) as [[wire e]| |]; cbn [bind]; try discriminate.
  unfold phy_transmit. destruct (w_tx w) eqn:E; cbn [bind]; [discriminate|].
  intros H. injection H as <- <-. cbn. split; [reflexivity|]. split; [eexists; reflexivity|]. repeat split; reflexivity.
Qed.

Lemma next_gap_poll_traced_spec f (w : W) cur f' w' : next_gap_poll_traced A f w cur = Ok (f', w') ->
  exists g, next_gap_poll f cur = Ok g /\ f' = set_gap f g /\ w_tx w' = w_tx w /\ w_calls w' = w_calls w.
Proof.
  unfold next_gap_poll_traced. destruct (next_gap_poll f cur) as [g| |]; cbn [bind]; try discriminate.
  intros H. injection H as <- <-. exists g. repeat split; reflexivity.
Qed.

Lemma trans_spec f (w : W) t f' w' : trans A f w t = Ok (f', w') ->
  exists s', t (f_state f) = Ok s' /\ f' = set_st f s' /\ w' = note A w (TTrans (kind_of (f_state f)) (kind_of s')).
Proof.
  unfold trans. destruct (t (f_state f)) as [s'| |]; cbn [bind]; try discriminate.
  intros H. injection H as <- <-. exists s'. repeat split; reflexivity.
Qed.

(* the tail of do_pass_token (token transmission) never ends in AwaitStatusResponse *)
Lemma pass_token_tail_state f now (w : W) f' w' :
  (let* (w1, n) := phy_send A w (TxToken (r_ns (f_ring f)) (ts f)) in
   let* r := witness (f_ring f) (ts f) (r_ns (f_ring f)) in
   let* (f1, w0) :=
     (if r_ns (f_ring (set_ring f r)) =? ts (set_ring f r)
      then trans A (set_ring f r) (note A w1 TPassTokenToSelf) (fun s : state => transition_use_token s now None)
      else let* (_, attempt) := get_pass_token (f_state (set_ring f r)) in
           trans A (set_ring f r) (note A w1 TPassToken) (fun s : state => transition_check_token_pass s attempt)) in
   let* f0 := mark_tx f1 now n in Ok (f0, w0)) = Ok (f', w') ->
  (exists tk, f_state f' = UseToken tk None false) \/ (exists att, f_state f' = CheckTokenPass att).
Proof.
  intros H.
  destruct (phy_send A w _) as [[w1 n]| |]; cbn [bind] in H; try discriminate H.
  destruct (witness _ _ _) as [r| |]; cbn [bind] in H; try discriminate H.
  match type of H with bind ?x _ = _ => destruct x as [[f1 w0]| |] eqn:E end; cbn [bind] in H; try discriminate H.
  destruct (mark_tx f1 now n) as [f0| |] eqn:Em; cbn [bind] in H; try discriminate H.
  injection H as <- <-. apply mark_tx_same in Em. destruct Em as [_ [_ [_ [_ [Hs _]]]]]. rewrite Hs.
  destruct (r_ns (f_ring (set_ring f r)) =? ts (set_ring f r)).
  - apply trans_spec in E. destruct E as [s' [Ht [-> _]]]. cbn.
    unfold transition_use_token in Ht. destruct (assert_kind _ _); cbn [bind] in Ht; try discriminate Ht.
    injection Ht as <-. left. eexists. reflexivity.
  - destruct (get_pass_token _) as [[g att]| |]; cbn [bind] in E; try discriminate E.
    apply trans_spec in E. destruct E as [s' [Ht [-> _]]]. cbn.
    unfold transition_check_token_pass in Ht. destruct (assert_kind _ _); cbn [bind] in Ht; try discriminate Ht.
    injection Ht as <-. right. eexists. reflexivity.
Qed.

(* transmit_gap_poll_if_pending polls exactly the cursor of the GAP state *)
Lemma transmit_gap_poll_spec f now (w : W) f' w' polled :
  transmit_gap_poll_if_pending A f now w = Ok (f', w', polled) ->
  same_but_lba f f' /\
  match polled with
  | Some a => f_gap f = GapDoPoll a /\ a <> ts f /\ w_tx w = None /\ (exists wire, w_tx w' = Some wire)
  | None => (exists n, f_gap f = GapWaiting n) /\ w' = w /\ f' = f
  end.
Proof.
  unfold transmit_gap_poll_if_pending. destruct (f_gap f) as [n|cur] eqn:Eg.
  - intros H. injection H as <- <- <-. split; [apply same_but_lba_refl|]. split; [exists n; reflexivity|]. split; reflexivity.
  - destruct (Z.eqb_spec cur (ts f)) as [E|E]; [discriminate|].
    destruct (phy_send A w _) as [[w1 n]| |] eqn:Ep; cbn [bind]; try discriminate.
    destruct (mark_tx f now n) as [f1| |] eqn:Em; cbn [bind]; try discriminate.
    intros H. injection H as <- <- <-. apply mark_tx_same in Em. apply phy_send_tx in Ep.
    split; [exact Em|]. split; [reflexivity|]. split; [exact E|]. tauto.
Qed.

(* do_pass_token leaves the hold-time bookkeeping, the parameters and the application cursor alone *)
Lemma do_pass_token_hold f now (w : W) f' w' :
  do_pass_token A f now w = Ok (f', w') ->
  f_p f' = f_p f /\ f_last_token_time f' = f_last_token_time f /\ f_end_tht f' = f_end_tht f /\
  f_next_app f' = f_next_app f /\ f_conn f' = f_conn f.
Proof.
  unfold do_pass_token. intros H.
  destruct (assert_entry DoPassToken f); cbn [bind] in H; try discriminate H.
  destruct (wait_synchronization_pause f now) as [[f1 wait]| |] eqn:Ew; cbn [bind] in H; try discriminate H.
  apply wait_sync_same in Ew. destruct Ew as [[Hp1 [_ [Hc1 [_ [_ [_ [Hl1 [He1 Hn1]]]]]]]] _].
  destruct wait; [injection H as <- _; repeat split; assumption|].
  destruct (get_pass_token (f_state f1)) as [[g att]| |]; cbn [bind] in H; try discriminate H.
  match type of H with bind ?x _ = _ => destruct x as [[[f2 w2] polled]| |] eqn:E2 end; cbn [bind] in H; try discriminate H.
  assert (H2 : f_p f2 = f_p f1 /\ f_last_token_time f2 = f_last_token_time f1 /\ f_end_tht f2 = f_end_tht f1 /\
               f_next_app f2 = f_next_app f1 /\ f_conn f2 = f_conn f1).
  { destruct g; [|injection E2 as <- _ _; repeat split; reflexivity].
    match type of E2 with bind ?x _ = _ => destruct x as [[f3 w3]| |] eqn:E3 end; cbn [bind] in E2; try discriminate E2.
    assert (H3 : f_p f3 = f_p f1 /\ f_last_token_time f3 = f_last_token_time f1 /\ f_end_tht f3 = f_end_tht f1 /\
                 f_next_app f3 = f_next_app f1 /\ f_conn f3 = f_conn f1).
    { destruct (f_gap f1) as [rc|cur].
      - destruct (p_gap_wait (f_p f1) <? rc).
        + apply next_gap_poll_traced_spec in E3. destruct E3 as [g0 [_ [-> _]]]. cbn. repeat split; reflexivity.
        + destruct (u8_add rc 1); cbn [bind] in E3; try discriminate E3. injection E3 as <- _. cbn. repeat split; reflexivity.
      - apply next_gap_poll_traced_spec in E3. destruct E3 as [g0 [_ [-> _]]]. cbn. repeat split; reflexivity. }
    apply transmit_gap_poll_spec in E2. destruct E2 as [[Hp [_ [Hc [_ [_ [_ [Hl [He Hn]]]]]]]] _].
    destruct H3 as [Hp3 [Hl3 [He3 [Hn3 Hc3]]]]. repeat split; congruence. }
  destruct H2 as [Hp2 [Hl2 [He2 [Hn2 Hc2]]]].
  destruct polled as [pa|].
  - apply trans_spec in H. destruct H as [s' [_ [-> _]]]. cbn. repeat split; congruence.
  - destruct (phy_send A w2 _) as [[w3 n]| |]; cbn [bind] in H; try discriminate H.
    destruct (witness _ _ _) as [r| |]; cbn [bind] in H; try discriminate H.
    match type of H with bind ?x _ = _ => destruct x as [[f4 w4]| |] eqn:E4 end; cbn [bind] in H; try discriminate H.
    destruct (mark_tx f4 now n) as [f5| |] eqn:Em; cbn [bind] in H; try discriminate H. injection H as <- _.
    apply mark_tx_same in Em. destruct Em as [Hp5 [_ [Hc5 [_ [_ [_ [Hl5 [He5 Hn5]]]]]]]].
    assert (H4 : f_p f4 = f_p f2 /\ f_last_token_time f4 = f_last_token_time f2 /\ f_end_tht f4 = f_end_tht f2 /\
                 f_next_app f4 = f_next_app f2 /\ f_conn f4 = f_conn f2).
    { match type of E4 with (if ?c then _ else _) = _ => destruct c end.
      - apply trans_spec in E4. destruct E4 as [s' [_ [-> _]]]. cbn. repeat split; reflexivity.
      - destruct (get_pass_token _) as [[g2 att2]| |]; cbn [bind] in E4; try discriminate E4.
        apply trans_spec in E4. destruct E4 as [s' [_ [-> _]]]. cbn. repeat split; reflexivity. }
    destruct H4 as [Hp4 [Hl4 [He4 [Hn4 Hc4]]]]. repeat split; congruence.
Qed.

(* ------------------------------------------------------------------------------------------ *)
(* C12: both callers of transmit_gap_poll_if_pending poll only inside the GAP                   *)

(* do_pass_token: the only way into AwaitStatusResponse; the polled address is in the GAP of the
   ring view the station had when the function was entered, and a request went out *)
Lemma do_pass_token_gap_poll f now (w : W) f' w' a :
  do_pass_token A f now w = Ok (f', w') ->
  f_state f' = AwaitStatusResponse a ->
  in_gap (ts f) (r_ns (f_ring f)) a /\ a <> ts f /\ f_gap f' = GapDoPoll a /\
  w_tx w = None /\ (exists wire, w_tx w' = Some wire) /\
  (exists att, f_state f = PassToken true att).
Proof.
  unfold do_pass_token, assert_entry. intros H Hst.
  destruct (f_state f) as [ | | | | | | |dg att| | ] eqn:Es; cbn [kind_of do_fn_entry state_kind_eqb bind] in H; try discriminate H.
  destruct (wait_synchronization_pause f now) as [[f1 wait]| |] eqn:Ew; cbn [bind] in H; try discriminate H.
  apply wait_sync_same in Ew. destruct Ew as [[Hp1 [Hr1 [_ [Hg1 [Hs1 _]]]]] _].
  destruct wait.
  - injection H as <- <-. rewrite Hs1, Es in Hst. discriminate Hst.
  - rewrite Hs1, Es in H. cbn [get_pass_token bind] in H.
    destruct dg.
    + (* do_gap = Yes *)
      match type of H with bind (bind ?r _) _ = _ => destruct r as [[f2 w2]| |] eqn:Eg end; cbn [bind] in H; try discriminate H.
      destruct (transmit_gap_poll_if_pending A f2 now w2) as [[[f3 w3] polled]| |] eqn:Et; cbn [bind] in H; try discriminate H.
      apply transmit_gap_poll_spec in Et. destruct Et as [[Hp3 [Hr3 [_ [Hg3 [Hs3 _]]]]] Hpol].
      assert (Hf2 : f_state f2 = PassToken true att /\ f_ring f2 = f_ring f /\ f_p f2 = f_p f /\
                    (forall c, f_gap f2 = GapDoPoll c -> exists cur, next_gap_poll f1 cur = Ok (GapDoPoll c)) /\
                    w_tx w2 = w_tx w).
      { destruct (f_gap f1) as [rc|cur] eqn:Eg1.
        - destruct (p_gap_wait (f_p f1) <? rc).
          + apply next_gap_poll_traced_spec in Eg. destruct Eg as [g [Hn [-> [Htx _]]]]. cbn.
            rewrite Hs1, Es, Hr1, Hp1. repeat split; try reflexivity; try exact Htx.
            intros c Hc. exists (ts f1). rewrite Hn, Hc. reflexivity.
          + unfold u8_add in Eg. destruct (rc + 1 <=? 255); cbn [bind] in Eg; [|discriminate Eg].
            injection Eg as <- <-. cbn. rewrite Hs1, Es, Hr1, Hp1. repeat split; try reflexivity.
            intros c Hc. discriminate Hc.
        - apply next_gap_poll_traced_spec in Eg. destruct Eg as [g [Hn [-> [Htx _]]]]. cbn.
          rewrite Hs1, Es, Hr1, Hp1. repeat split; try reflexivity; try exact Htx.
          intros c Hc. exists cur. rewrite Hn, Hc. reflexivity. }
      destruct Hf2 as [Hs2 [Hr2 [Hp2 [Hgap2 Htx2]]]].
      destruct polled as [pa|].
      * apply trans_spec in H. destruct H as [s' [Ht [-> ->]]].
        rewrite Hs3, Hs2 in Ht. cbn in Ht. injection Ht as <-. cbn in Hst. injection Hst as <-.
        destruct Hpol as [Hgp [Hne [Hnone [wire Hsome]]]].
        destruct (Hgap2 _ Hgp) as [cur Hn].
        apply next_gap_poll_in_gap in Hn. destruct Hn as [Hin _].
        unfold ts in *. rewrite Hp1, Hr1 in Hin. rewrite Hp2 in Hne. cbn.
        split; [exact Hin|]. split; [exact Hne|]. split; [rewrite Hg3; exact Hgp|].
        split; [rewrite <- Htx2; exact Hnone|]. split; [exists wire; exact Hsome|exists att; reflexivity].
      * apply pass_token_tail_state in H. rewrite Hst in H. destruct H as [[tk H]|[at' H]]; discriminate H.
    + (* do_gap = No *)
      cbn [bind] in H. apply pass_token_tail_state in H. rewrite Hst in H. destruct H as [[tk H]|[at' H]]; discriminate H.
Qed.


(* do_claim_token_scan: the post-claim scan polls only inside the GAP as well *)
Lemma do_claim_token_scan_gap_poll f now (w : W) f' w' a :
  do_claim_token_scan A f now w = Ok (f', w') ->
  f_state f = ClaimToken StepScan ->
  f_state f' = ClaimToken (StepScanAwaitResponse a) ->
  in_gap (ts f) (r_ns (f_ring f)) a /\ a <> ts f /\ f_gap f' = GapDoPoll a /\
  w_tx w = None /\ (exists wire, w_tx w' = Some wire).
Proof.
  unfold do_claim_token_scan. intros H Es Hst.
  destruct (wait_synchronization_pause f now) as [[f1 wait]| |] eqn:Ew; cbn [bind] in H; try discriminate H.
  apply wait_sync_same in Ew. destruct Ew as [[Hp1 [Hr1 [_ [Hg1 [Hs1 _]]]]] _].
  destruct wait.
  - injection H as <- <-. rewrite Hs1, Es in Hst. discriminate Hst.
  - destruct (f_gap f1) as [rc|cur] eqn:Eg1.
    + match type of H with bind ?x _ = _ => destruct x as [[f2 w2]| |] eqn:Et end; cbn [bind] in H; try discriminate H.
      injection H as <- <-. apply trans_spec in Et. destruct Et as [s' [Ht [-> _]]].
      rewrite Hs1, Es in Ht. cbn in Ht. injection Ht as <-. discriminate Hst.
    + destruct (next_gap_poll_traced A f1 w cur) as [[f2 w2]| |] eqn:En; cbn [bind] in H; try discriminate H.
      apply next_gap_poll_traced_spec in En. destruct En as [g [Hn [-> [Htx2 _]]]].
      destruct (transmit_gap_poll_if_pending A (set_gap f1 g) now w2) as [[[f3 w3] polled]| |] eqn:Et; cbn [bind] in H; try discriminate H.
      apply transmit_gap_poll_spec in Et. destruct Et as [[Hp3 [Hr3 [_ [Hg3 [Hs3 _]]]]] Hpol].
      destruct polled as [pa|].
      * unfold set_claim_step in H. rewrite Hs3 in H. cbn [set_gap f_state] in H. rewrite Hs1, Es in H.
        cbn [get_claim_token_step bind] in H. injection H as <- <-. cbn in Hst. injection Hst as <-.
        destruct Hpol as [Hgp [Hne [Hnone [wire Hsome]]]]. cbn in Hgp. subst g.
        apply next_gap_poll_in_gap in Hn. destruct Hn as [Hin _].
        unfold ts in *. rewrite Hp1, Hr1 in Hin. cbn in Hne. rewrite Hp1 in Hne. cbn.
        split; [exact Hin|]. split; [exact Hne|]. split; [rewrite Hg3; reflexivity|].
        split; [rewrite <- Htx2; exact Hnone|exists wire; exact Hsome].
      * injection H as <- <-. destruct Hpol as [_ [_ ->]]. cbn in Hst. rewrite Hs1, Es in Hst. discriminate Hst.
Qed.

Lemma mark_rx_frame f now :
  f_p (mark_rx f now) = f_p f /\ f_ring (mark_rx f now) = f_ring f /\ f_gap (mark_rx f now) = f_gap f /\
  f_state (mark_rx f now) = f_state f /\ f_conn (mark_rx f now) = f_conn f /\
  f_end_tht (mark_rx f now) = f_end_tht f /\ f_next_app (mark_rx f now) = f_next_app f /\
  f_last_token_time (mark_rx f now) = f_last_token_time f.
Proof. unfold mark_rx, mark_bus_activity, lba_get_or_insert. cbn. destruct (f_lba f); cbn; repeat split; reflexivity. Qed.

(* await_gap_poll_response leaves state and GAP cursor alone; the ring changes only when the polled
   station answered *)
Lemma await_gap_poll_response_frame f now (w : W) pa f' w' r :
  await_gap_poll_response A f now w pa = Ok (f', w', r) ->
  f_p f' = f_p f /\ f_gap f' = f_gap f /\ f_state f' = f_state f /\ w_tx w' = w_tx w /\ w_calls w' = w_calls w /\
  (r <> GprStationResponded -> f_ring f' = f_ring f).
Proof.
  unfold await_gap_poll_response. intros H.
  destruct (pa =? ts f); [discriminate H|].
  destruct (negb _); [discriminate H|].
  destruct (receive_telegram (fun t => t) (w_rx w)) as [[rest received]| |]; cbn [bind] in H; try discriminate H.
  destruct received as [t|].
  - destruct (mark_rx_frame f now) as [Mp [Mr [Mg [Ms _]]]].
    destruct t as [[da sa dsap ssap fc] pdu|da sa|].
    + destruct fc as [fb rq|st status].
      * injection H as <- <- <-. cbn. rewrite ?Mp, ?Mr, ?Mg, ?Ms. repeat split; try reflexivity; try (intros _; reflexivity).
      * destruct ((sa =? pa) && (da =? ts (mark_rx f now))).
        -- destruct (resp_status_eqb status gap_reply_status && gap_reply_state_is_master st).
           ++ destruct (set_next_station _ _) as [r'| |]; cbn [bind] in H; try discriminate H.
              injection H as <- <- <-. cbn. rewrite ?Mp, ?Mr, ?Mg, ?Ms. repeat split; try reflexivity; try (intros _; reflexivity). intros C; contradiction C; reflexivity.
           ++ injection H as <- <- <-. cbn. rewrite ?Mp, ?Mr, ?Mg, ?Ms. repeat split; try reflexivity; try (intros _; reflexivity).
        -- injection H as <- <- <-. cbn. rewrite ?Mp, ?Mr, ?Mg, ?Ms. repeat split; try reflexivity; try (intros _; reflexivity).
    + injection H as <- <- <-. cbn. rewrite ?Mp, ?Mr, ?Mg, ?Ms. repeat split; try reflexivity; try (intros _; reflexivity).
    + injection H as <- <- <-. cbn. rewrite ?Mp, ?Mr, ?Mg, ?Ms. repeat split; try reflexivity; try (intros _; reflexivity).
  - destruct (check_slot_expired _ now) as [[f1 expired]| |] eqn:Ec; cbn [bind] in H; try discriminate H.
    apply check_slot_expired_same in Ec. destruct Ec as [Hp [Hr [_ [Hg [Hs _]]]]]. cbn in Hp, Hr, Hg, Hs.
    destruct expired; injection H as <- <- <-; cbn; rewrite ?Hp, ?Hr, ?Hg, ?Hs; repeat split; try reflexivity;
      try (intros _; reflexivity);
      match goal with |- context [if ?c then _ else _] => destruct c; reflexivity end.
Qed.

(* C12 for the whole of do_claim_token: whenever it newly enters ScanAwaitResponse{a}, a is in the GAP *)
Lemma do_claim_token_gap_poll f now (w : W) f' w' a :
  do_claim_token A f now w = Ok (f', w') ->
  f_state f' = ClaimToken (StepScanAwaitResponse a) -> f_state f <> f_state f' ->
  in_gap (ts f) (r_ns (f_ring f)) a /\ a <> ts f /\ f_gap f' = GapDoPoll a /\ (exists wire, w_tx w' = Some wire).
Proof.
  unfold do_claim_token, assert_entry. intros H Hst Hne.
  destruct (f_state f) as [ | | | | |step| | | | ] eqn:Es; cbn [kind_of do_fn_entry state_kind_eqb bind get_claim_token_step] in H; try discriminate H.
  destruct step as [ | | |a0].
  - (* FirstToken *)
    destruct (wait_synchronization_pause f now) as [[f1 wait]| |] eqn:Ew; cbn [bind] in H; try discriminate H.
    apply wait_sync_same in Ew. destruct Ew as [[_ [_ [_ [_ [Hs1 _]]]]] _].
    destruct wait; [injection H as <- <-; rewrite Hs1, Es in Hst; discriminate Hst|].
    destruct (phy_send A w _) as [[w1 n]| |]; cbn [bind] in H; try discriminate H.
    unfold set_claim_step in H. cbn [set_ring f_state] in H. rewrite Hs1, Es in H. cbn [get_claim_token_step bind] in H.
    destruct (mark_tx _ now n) as [f2| |] eqn:Em; cbn [bind] in H; try discriminate H.
    injection H as <- <-. apply mark_tx_same in Em. destruct Em as [_ [_ [_ [_ [Hs2 _]]]]]. rewrite Hs2 in Hst. discriminate Hst.
  - (* SecondToken *)
    destruct (wait_synchronization_pause f now) as [[f1 wait]| |] eqn:Ew; cbn [bind] in H; try discriminate H.
    apply wait_sync_same in Ew. destruct Ew as [[_ [_ [_ [_ [Hs1 _]]]]] _].
    destruct wait; [injection H as <- <-; rewrite Hs1, Es in Hst; discriminate Hst|].
    destruct (phy_send A w _) as [[w1 n]| |]; cbn [bind] in H; try discriminate H.
    unfold set_claim_step in H. cbn [set_ring f_state] in H. rewrite Hs1, Es in H. cbn [get_claim_token_step bind] in H.
    destruct (mark_tx _ now n) as [f2| |] eqn:Em; cbn [bind] in H; try discriminate H.
    injection H as <- <-. apply mark_tx_same in Em. destruct Em as [_ [_ [_ [_ [Hs2 _]]]]]. rewrite Hs2 in Hst. discriminate Hst.
  - (* Scan *)
    destruct (do_claim_token_scan_gap_poll f now w f' w' a H Es Hst) as [H1 [H2 [H3 [_ H5]]]]. tauto.
  - (* ScanAwaitResponse a0 *)
    destruct (await_gap_poll_response A f now w a0) as [[[f1 w1] r]| |] eqn:Ea; cbn [bind] in H; try discriminate H.
    apply await_gap_poll_response_frame in Ea. destruct Ea as [Hp1 [Hg1 [Hs1 [Htx1 [_ Hr1]]]]].
    destruct r.
    + injection H as <- <-. exfalso. apply Hne. rewrite Hs1, Es. reflexivity.
    + unfold set_claim_step in H. rewrite Hs1, Es in H. cbn [get_claim_token_step bind] in H.
      assert (Es1 : f_state (set_st f1 (ClaimToken StepScan)) = ClaimToken StepScan) by reflexivity.
      destruct (do_claim_token_scan_gap_poll _ now w1 f' w' a H Es1 Hst) as [H1 [H2 [H3 [_ H5]]]].
      unfold ts in *. cbn in H1, H2. rewrite Hp1 in H1, H2. rewrite Hr1 in H1 by discriminate. tauto.
    + unfold set_claim_step in H. rewrite Hs1, Es in H. cbn [get_claim_token_step bind] in H.
      injection H as <- <-. discriminate Hst.
    + apply trans_spec in H. destruct H as [s' [Ht [-> _]]]. rewrite Hs1, Es in Ht. cbn in Ht. injection Ht as <-. discriminate Hst.
Qed.


(* ------------------------------------------------------------------------------------------ *)
(* C11: do_listen_token never leads to a token-holding state except by claiming                 *)

Lemma receive_all_inv {S R : Type} (P : S -> Prop) (cb : S -> telegram -> bool -> res (S * R)) :
  (forall s t l s' r, P s -> cb s t l = Ok (s', r) -> P s') ->
  forall fuel s buf s' rest r, P s -> receive_all cb fuel s buf = Ok (s', rest, r) -> P s'.
Proof.
  intros Hcb. induction fuel as [|fuel IH]; intros s buf s' rest r Hp H; [discriminate H|].
  cbn [receive_all] in H.
  destruct (decode buf) as [d| |]; cbn [bind] in H; try discriminate H.
  destruct d as [ | |t n].
  - injection H as <- _ _. exact Hp.
  - injection H as <- _ _. exact Hp.
  - destruct (cb s t (Nat.eqb n (length buf))) as [[s1 r1]| |] eqn:E; cbn [bind] in H; try discriminate H.
    pose proof (Hcb _ _ _ _ _ Hp E) as Hp1.
    destruct (Nat.eqb n (length buf)).
    + injection H as <- _ _. exact Hp1.
    + exact (IH _ _ _ _ _ Hp1 H).
Qed.

Definition listening (s : fdl * W) : Prop :=
  kind_of (f_state (fst s)) = KListenToken \/ kind_of (f_state (fst s)) = KOffline.

Lemma listen_token_telegram_listening now s t il s' u :
  listening s -> listen_token_telegram A now s t il = Ok (s', u) -> listening s'.
Proof.
  destruct s as [fa wa]. destruct s' as [fb wb]. unfold listening. cbn [fst]. intros Hp Hc.
  unfold listen_token_telegram in Hc.
  destruct (mark_rx_frame fa now) as [Mp [Mr [Mg [Ms [Mc _]]]]].
  assert (Hrest :
    (if opt_eqb (source_address t) (Some (ts (mark_rx fa now)))
     then let* (sr, cc) := get_listen_token (f_state (mark_rx fa now)) in
          let* cc0 := u8_add cc 1 in
          let f := set_st (mark_rx fa now) (ListenToken sr cc0) in
          if cc0 =? listen_collision_tolerated then Ok (f, note A wa TLtCollisionFirst, tt)
          else let* f0 := set_offline f in Ok (f0, note A wa TLtCollisionOffline, tt)
     else match t with
          | TData h _ =>
              if is_fdl_status_request h && (h_da h =? ts (mark_rx fa now))
              then if il
                   then let* (_, cc) := get_listen_token (f_state (mark_rx fa now)) in
                        Ok (set_st (mark_rx fa now) (ListenToken (Some (h_sa h)) cc), note A wa TLtStatusReqLast, tt)
                   else Ok (mark_rx fa now, note A wa TLtStatusReqNotLast, tt)
              else Ok (mark_rx fa now, note A wa TLtOther, tt)
          | TToken da sa => let* r := witness (f_ring (mark_rx fa now)) sa da in Ok (set_ring (mark_rx fa now) r, note A wa TLtWitness, tt)
          | TShortConf => Ok (mark_rx fa now, note A wa TLtOther, tt)
          end) = Ok (fb, wb, u) ->
    kind_of (f_state fb) = KListenToken \/ kind_of (f_state fb) = KOffline).
  { clear Hc. intros Hc. destruct (opt_eqb _ _).
    - destruct (get_listen_token (f_state (mark_rx fa now))) as [[sr cc]| |]; cbn [bind] in Hc; try discriminate Hc.
      destruct (u8_add cc 1) as [cc'| |]; cbn [bind] in Hc; try discriminate Hc.
      destruct (cc' =? listen_collision_tolerated).
      + injection Hc as <- _ _. left; reflexivity.
      + unfold set_offline, set_state, fdl_new in Hc.
        destruct (negb _); [discriminate Hc|]. destruct (negb _); [discriminate Hc|].
        destruct (ring_new _) as [r0| |]; cbn [bind] in Hc; try discriminate Hc.
        injection Hc as <- _ _. right; reflexivity.
    - destruct t as [h pdu|da sa|].
      + destruct (is_fdl_status_request h && (h_da h =? ts (mark_rx fa now))).
        * destruct il.
          -- destruct (get_listen_token (f_state (mark_rx fa now))) as [[sr cc]| |]; cbn [bind] in Hc; try discriminate Hc.
             injection Hc as <- _ _. left; reflexivity.
          -- injection Hc as <- _ _. rewrite Ms. exact Hp.
        * injection Hc as <- _ _. rewrite Ms. exact Hp.
      + destruct (witness _ _ _) as [r0| |]; cbn [bind] in Hc; try discriminate Hc.
        injection Hc as <- _ _. cbn. rewrite Ms. exact Hp.
      + injection Hc as <- _ _. rewrite Ms. exact Hp. }
  destruct (f_conn (mark_rx fa now)).
  - injection Hc as <- _ _. rewrite Ms. exact Hp.
  - exact (Hrest Hc).
  - exact (Hrest Hc).
Qed.

(* While merely listening the station never accepts a token: whatever is received, one poll step of
   do_listen_token leaves it listening (or offline after an address collision), takes it into the ring
   as ActiveIdle by answering a status request, or - only through its own silence time-out - makes it
   claim the token.  Nothing but a status reply or the claim token is ever transmitted. *)
Lemma do_listen_token_never_accepts f now (w : W) f' w' :
  do_listen_token A f now w = Ok (f', w') ->
  kind_of (f_state f') = KListenToken \/ kind_of (f_state f') = KOffline \/
  kind_of (f_state f') = KActiveIdle \/
  (kind_of (f_state f') = KClaimToken /\
   exists l, (f_lba f = Some l \/ (f_lba f = None /\ l = now)) /\ token_lost_timeout (f_p f) <= Z.abs (now - l)).
Proof.
  unfold do_listen_token, assert_entry. intros H.
  destruct (f_state f) as [ | |sr0 cc0| | | | | | | ] eqn:Es; cbn [kind_of do_fn_entry state_kind_eqb bind] in H; try discriminate H.
  unfold handle_lost_token in H.
  destruct (lba_get_or_insert f now) as [l f0] eqn:El.
  apply lba_get_or_insert_same in El. destruct El as [[Hp0 [Hr0 [_ [Hg0 [Hs0 _]]]]] [Hl0 Hm0]].
  unfold inst_diff in H. destruct (i64_ok (now - l)); cbn [bind] in H; [|discriminate H].
  destruct (Z.leb_spec (token_lost_timeout (f_p f0)) (Z.abs (now - l))) as [Hto|Hto].
  - (* claim *)
    match type of H with bind (bind ?x _) _ = _ => destruct x as [[f1 w1]| |] eqn:Et end; cbn [bind] in H; try discriminate H.
    apply trans_spec in Et. destruct Et as [s' [Ht [-> ->]]]. rewrite Hs0, Es in Ht. cbn in Ht. injection Ht as <-.
    match type of H with bind (bind ?x _) _ = _ => destruct x as [[f2 w2]| |] eqn:Ed end; cbn [bind] in H; try discriminate H.
    injection H as <- <-.
    right. right. right. split.
    + unfold do_claim_token, assert_entry in Ed. cbn [set_st f_state kind_of do_fn_entry state_kind_eqb bind get_claim_token_step] in Ed.
      destruct (wait_synchronization_pause _ now) as [[f3 wait]| |] eqn:Ew; cbn [bind] in Ed; try discriminate Ed.
      apply wait_sync_same in Ew. destruct Ew as [[_ [_ [_ [_ [Hs3 _]]]]] _]. cbn in Hs3.
      destruct wait; [injection Ed as <- _; rewrite Hs3; reflexivity|].
      destruct (phy_send A _ _) as [[w3 n]| |]; cbn [bind] in Ed; try discriminate Ed.
      unfold set_claim_step in Ed. cbn [set_ring f_state] in Ed. rewrite Hs3 in Ed. cbn [get_claim_token_step bind] in Ed.
      destruct (mark_tx _ now n) as [f4| |] eqn:Em; cbn [bind] in Ed; try discriminate Ed.
      injection Ed as <- _. apply mark_tx_same in Em. destruct Em as [_ [_ [_ [_ [Hs4 _]]]]]. rewrite Hs4. reflexivity.
    + exists l. rewrite Hp0 in Hto. split; [|exact Hto].
      destruct (f_lba f) as [l0|]; [left; subst; reflexivity|right; split; [reflexivity|exact Hm0]].
  - cbn [bind] in H. rewrite Hs0, Es in H. cbn [get_listen_token bind] in H.
    destruct sr0 as [src|].
    + (* pending status request *)
      destruct (wait_synchronization_pause f0 now) as [[f1 wait]| |] eqn:Ew; cbn [bind] in H; try discriminate H.
      apply wait_sync_same in Ew. destruct Ew as [[_ [Hr1 [_ [_ [Hs1 _]]]]] _].
      destruct wait; [injection H as <- _; rewrite Hs1, Hs0, Es; left; reflexivity|].
      destruct (phy_send A w _) as [[w1 n]| |]; cbn [bind] in H; try discriminate H.
      destruct (ready_for_ring (f_ring f1)).
      * match type of H with bind ?x _ = _ => destruct x as [[f2 w2]| |] eqn:Et end; cbn [bind] in H; try discriminate H.
        apply trans_spec in Et. destruct Et as [s' [Ht [-> _]]]. rewrite Hs1, Hs0, Es in Ht. cbn in Ht. injection Ht as <-.
        destruct (mark_tx _ now n) as [f3| |] eqn:Em; cbn [bind] in H; try discriminate H.
        injection H as <- _. apply mark_tx_same in Em. destruct Em as [_ [_ [_ [_ [Hs3 _]]]]]. rewrite Hs3.
        right. right. left. reflexivity.
      * rewrite Hs1, Hs0, Es in H. cbn [get_listen_token bind] in H.
        destruct (mark_tx _ now n) as [f3| |] eqn:Em; cbn [bind] in H; try discriminate H.
        injection H as <- _. apply mark_tx_same in Em. destruct Em as [_ [_ [_ [_ [Hs3 _]]]]]. rewrite Hs3.
        left. reflexivity.
    + (* receive *)
      unfold receive_all_telegrams in H.
      destruct (receive_all _ _ _ _) as [[[s1 rest] r]| |] eqn:Er; cbn [bind] in H; try discriminate H.
      destruct s1 as [f1 w1]. injection H as <- _.
      assert (Hk : listening (f1, w1)).
      { refine (receive_all_inv listening (listen_token_telegram A now) _ _ (f0, w) _ (f1, w1) rest r _ Er).
        - intros s t il s' u Hp Hc. exact (listen_token_telegram_listening now s t il s' u Hp Hc).
        - unfold listening. cbn [fst]. rewrite Hs0, Es. left. reflexivity. }
      unfold listening in Hk. cbn [fst] in Hk.
      unfold sync_pending_bytes. cbn [set_pending f_state]. destruct Hk as [Hk|Hk]; [left|right; left]; exact Hk.
Qed.


(* ------------------------------------------------------------------------------------------ *)
(* C13: applications are asked only inside the hold time, or for the one guaranteed round        *)

Definition is_transmit_call (hp : bool) (c : call) : Prop := exists i r, c = CallTransmit i hp r.

Lemma app_transmit_calls f now (w : W) idx app hp f' w' d :
  app_transmit_telegram A ops f now w idx app hp = Ok (f', w', d) ->
  (exists r, w_calls w' = w_calls w ++ [CallTransmit idx hp r]) /\ f_end_tht f' = f_end_tht f.
Proof.
  unfold app_transmit_telegram. intros H.
  destruct (a_tx ops app now (f_p f) hp) as [[app' r]| |]; cbn [bind] in H; try discriminate H.
  destruct r as [[wire exp]|].
  - unfold phy_transmit in H. cbn [log_call set_app w_tx] in H.
    destruct (w_tx w); cbn [bind] in H; [discriminate H|].
    destruct exp as [addr|].
    + destruct (get_use_token (f_state f)) as [[[tk fa] fcd]| |]; cbn [bind] in H; try discriminate H.
      match type of H with context [trans A ?a ?b ?c] => destruct (trans A a b c) as [[f1 w1]| |] eqn:Et end; cbn [bind] in H; try discriminate H.
      apply trans_spec in Et. destruct Et as [s' [_ [-> ->]]].
      destruct (mark_tx _ now _) as [f2| |] eqn:Em; cbn [bind] in H; try discriminate H.
      injection H as <- <- _. apply mark_tx_same in Em. destruct Em as [_ [_ [_ [_ [_ [_ [_ [He _]]]]]]]].
      split; [eexists; reflexivity|rewrite He; reflexivity].
    + cbn [bind] in H. destruct (mark_tx f now _) as [f2| |] eqn:Em; cbn [bind] in H; try discriminate H.
      injection H as <- <- _. apply mark_tx_same in Em. destruct Em as [_ [_ [_ [_ [_ [_ [_ [He _]]]]]]]].
      split; [eexists; reflexivity|exact He].
  - injection H as <- <- _. split; [eexists; reflexivity|reflexivity].
Qed.

Lemma apps_transmit_loop_calls n : forall f now (w : W) hp f' w' d,
  apps_transmit_loop A ops n f now w hp = Ok (f', w', d) ->
  exists l, w_calls w' = w_calls w ++ l /\ Forall (is_transmit_call hp) l /\ f_end_tht f' = f_end_tht f.
Proof.
  induction n as [|n IH]; intros f now w hp f' w' d H; cbn [apps_transmit_loop] in H.
  - injection H as <- <- _. exists []. rewrite app_nil_r. repeat split; constructor.
  - destruct (nth_error (w_apps w) (f_next_app f)) as [app|]; [|discriminate H].
    destruct (app_transmit_telegram A ops f now w (f_next_app f) app hp) as [[[f1 w1] d1]| |] eqn:Ea; cbn [bind] in H; try discriminate H.
    apply app_transmit_calls in Ea. destruct Ea as [[r Hc] He].
    assert (Hone : Forall (is_transmit_call hp) [CallTransmit (f_next_app f) hp r])
      by (constructor; [eexists; eexists; reflexivity|constructor]).
    destruct d1.
    + injection H as <- <- _. eexists. split; [exact Hc|]. split; [exact Hone|exact He].
    + unfold schedule_next_application in H.
      destruct (get_use_token (f_state f1)) as [[[tk fa] fcd]| |]; cbn [bind] in H; try discriminate H.
      destruct (Nat.eqb (length (w_apps w1)) 0); [discriminate H|]. cbn [bind] in H.
      match type of H with (if ?c then _ else _) = _ => destruct c end.
      * injection H as <- <- _. cbn. eexists. split; [exact Hc|]. split; [exact Hone|exact He].
      * apply IH in H. destruct H as [l [Hl [Hf He2]]]. cbn in He2.
        exists (CallTransmit (f_next_app f) hp r :: l). split; [rewrite Hl, Hc, <- app_assoc; reflexivity|].
        split; [constructor; [eexists; eexists; reflexivity|exact Hf]|rewrite He2; exact He].
Qed.

(* The hold-time rule, "only if" half: whenever do_use_token asks applications, either the time is
   still before the end of the hold time of this visit (low-priority round), or the hold time is over
   and this is the one guaranteed (high-priority) round of the visit. *)
Lemma do_use_token_head_hold_rule f now (w : W) f' w' :
  do_use_token_head A ops f now w = Ok (f', w') ->
  exists l hp, w_calls w' = w_calls w ++ l /\ Forall (is_transmit_call hp) l /\
    (l <> [] ->
     if hp then (exists tk fa, f_state f = UseToken tk fa false) /\ f_end_tht f' <= now
     else now < f_end_tht f').
Proof.
  unfold do_use_token_head, assert_entry. intros H.
  destruct (f_state f) as [ | | | |tk fa fcd| | | | | ] eqn:Es; cbn [kind_of do_fn_entry state_kind_eqb bind get_use_token] in H; try discriminate H.
  match type of H with bind ?x _ = _ => destruct x as [[f1 w1]| |] eqn:E1 end; cbn [bind] in H; try discriminate H.
  assert (H1 : w_calls w1 = w_calls w /\ f_state f1 = f_state f).
  { destruct (negb _).
    - destruct (inst_add _ _) as [e| |]; cbn [bind] in E1; try discriminate E1.
      destruct (f_gap f).
      + injection E1 as <- <-. split; reflexivity.
      + destruct (inst_sub_dur _ _) as [e2| |]; cbn [bind] in E1; try discriminate E1.
        injection E1 as <- <-. split; reflexivity.
    - injection E1 as <- <-. split; reflexivity. }
  destruct H1 as [Hc1 Hs1].
  destruct (wait_synchronization_pause f1 now) as [[f2 wait]| |] eqn:Ew; cbn [bind] in H; try discriminate H.
  apply wait_sync_same in Ew. destruct Ew as [[_ [_ [_ [_ [Hs2 [_ [_ [He2 _]]]]]]]] _].
  destruct wait.
  - injection H as <- <-. exists [], false. cbn. rewrite app_nil_r. split; [exact Hc1|]. split; [constructor|]. intros C; contradiction C; reflexivity.
  - rewrite Hs2, Hs1, Es in H. cbn [get_use_token bind] in H.
    destruct (Z.ltb_spec now (f_end_tht f2)) as [Hlt|Hge].
    + unfold set_first_cycle_done in H. rewrite Hs2, Hs1, Es in H. cbn [get_use_token bind] in H.
      match type of H with bind ?x _ = _ => destruct x as [[[f3 w3] d]| |] eqn:El end; cbn [bind] in H; try discriminate H.
      apply apps_transmit_loop_calls in El. destruct El as [l [Hl [Hf He3]]]. cbn in Hl, He3.
      assert (Hfin : w_calls w' = w_calls w3 /\ f_end_tht f' = f_end_tht f3).
      { destruct d; [injection H as <- <-; split; reflexivity|].
        apply trans_spec in H. destruct H as [s' [_ [-> ->]]]. split; reflexivity. }
      destruct Hfin as [Hcw Hef]. exists l, false. rewrite Hcw, Hl, Hc1. split; [reflexivity|]. split; [exact Hf|].
      intros _. rewrite Hef, He3. exact Hlt.
    + destruct fcd.
      * cbn [negb bind] in H. apply trans_spec in H. destruct H as [s' [_ [-> ->]]].
        exists [], false. cbn. rewrite app_nil_r. split; [exact Hc1|]. split; [constructor|]. intros C; contradiction C; reflexivity.
      * cbn [negb] in H. unfold set_first_cycle_done in H. rewrite Hs2, Hs1, Es in H. cbn [get_use_token bind] in H.
        match type of H with bind ?x _ = _ => destruct x as [[[f3 w3] d]| |] eqn:El end; cbn [bind] in H; try discriminate H.
        apply apps_transmit_loop_calls in El. destruct El as [l [Hl [Hf He3]]]. cbn in Hl, He3.
        assert (Hfin : w_calls w' = w_calls w3 /\ f_end_tht f' = f_end_tht f3).
        { destruct d; [injection H as <- <-; split; reflexivity|].
          apply trans_spec in H. destruct H as [s' [_ [-> ->]]]. split; reflexivity. }
        destruct Hfin as [Hcw Hef]. exists l, true. rewrite Hcw, Hl, Hc1. split; [reflexivity|]. split; [exact Hf|].
        intros _. split; [exists tk, fa; reflexivity|]. rewrite Hef, He3. exact Hge.
Qed.

(* When the head of do_use_token turns to passing the token, no application has sent anything: the
   calls of the poll so far are declines (transmit_telegram returned None), nothing was handed to the
   PHY, and apart from the hold-time bookkeeping, the application cursor and the state the station is
   as it was. *)
Definition is_decline (c : call) : Prop := exists i hp, c = CallTransmit i hp None.

Definition head_frame (f f1 : fdl) (w w1 : W) : Prop :=
  f_p f1 = f_p f /\ f_ring f1 = f_ring f /\ f_conn f1 = f_conn f /\ f_gap f1 = f_gap f /\
  f_pending f1 = f_pending f /\
  w_tx w1 = w_tx w /\ w_rx w1 = w_rx w /\ exists l, w_calls w1 = w_calls w ++ l /\ Forall is_decline l.

Lemma head_frame_refl f w : head_frame f f w w.
Proof. unfold head_frame. repeat (split; [reflexivity|]). exists []. rewrite app_nil_r. split; [reflexivity|constructor]. Qed.

Lemma head_frame_trans f f1 f2 w w1 w2 : head_frame f f1 w w1 -> head_frame f1 f2 w1 w2 -> head_frame f f2 w w2.
Proof.
  intros [A1 [A2 [A3 [A4 [A5 [A6 [A7 [l1 [A8 A9]]]]]]]]] [B1 [B2 [B3 [B4 [B5 [B6 [B7 [l2 [B8 B9]]]]]]]]].
  unfold head_frame. repeat (split; [congruence|]). exists (l1 ++ l2).
  split; [rewrite B8, A8, app_assoc; reflexivity|apply Forall_app; split; assumption].
Qed.

Lemma app_transmit_decline f now (w : W) idx app hp f' w' :
  app_transmit_telegram A ops f now w idx app hp = Ok (f', w', false) ->
  f' = f /\ w_tx w' = w_tx w /\ w_rx w' = w_rx w /\ w_calls w' = w_calls w ++ [CallTransmit idx hp None].
Proof.
  unfold app_transmit_telegram. intros H.
  destruct (a_tx ops app now (f_p f) hp) as [[app' r]| |]; cbn [bind] in H; try discriminate H.
  destruct r as [[wire exp]|].
  - destruct (phy_transmit A _ wire) as [w1| |]; cbn [bind] in H; try discriminate H.
    match type of H with bind ?x _ = _ => destruct x as [[f1 w2]| |] end; cbn [bind] in H; try discriminate H.
    destruct (mark_tx f1 now _); cbn [bind] in H; discriminate H.
  - injection H as <- <-. cbn. repeat split; reflexivity.
Qed.

Lemma apps_loop_declines n : forall f now (w : W) hp f' w',
  apps_transmit_loop A ops n f now w hp = Ok (f', w', false) -> head_frame f f' w w'.
Proof.
  induction n as [|n IH]; intros f now w hp f' w' H; cbn [apps_transmit_loop] in H.
  - injection H as <- <-. apply head_frame_refl.
  - destruct (nth_error (w_apps w) (f_next_app f)) as [app|]; [|discriminate H].
    destruct (app_transmit_telegram A ops f now w (f_next_app f) app hp) as [[[f1 w1] d1]| |] eqn:Ea; cbn [bind] in H; try discriminate H.
    destruct d1; [discriminate H|].
    apply app_transmit_decline in Ea. destruct Ea as [-> [T1 [R1 C1]]].
    assert (F1 : head_frame f f w w1).
    { unfold head_frame. repeat (split; [reflexivity || assumption|]). eexists. split; [exact C1|].
      constructor; [eexists; eexists; reflexivity|constructor]. }
    unfold schedule_next_application in H.
    destruct (get_use_token (f_state f)) as [[[tk fa] fcd]| |]; cbn [bind] in H; try discriminate H.
    destruct (Nat.eqb (length (w_apps w1)) 0); [discriminate H|]. cbn [bind] in H.
    match type of H with (if ?c then _ else _) = _ => destruct c end.
    + injection H as <- <-. eapply head_frame_trans; [exact F1|].
      unfold head_frame. cbn. repeat (split; [reflexivity|]). exists []. rewrite app_nil_r. split; [reflexivity|constructor].
    + apply IH in H. eapply head_frame_trans; [exact F1|].
      destruct H as [B1 [B2 [B3 [B4 [B5 [B6 [B7 B8]]]]]]]. cbn in B1, B2, B3, B4, B5.
      unfold head_frame. repeat (split; [assumption|]). exact B8.
Qed.

Lemma do_use_token_head_pass f now (w : W) f1 w1 :
  do_use_token_head A ops f now w = Ok (f1, w1) -> is_pass_token (f_state f1) = true ->
  f_state f1 = PassToken true first_attempt /\ kind_of (f_state f) = KUseToken /\ head_frame f f1 w w1.
Proof.
  unfold do_use_token_head, assert_entry. intros H Hk.
  destruct (f_state f) as [ | | | |tk fa fcd| | | | | ] eqn:Es; cbn [kind_of do_fn_entry state_kind_eqb bind get_use_token] in H; try discriminate H.
  match type of H with bind ?x _ = _ => destruct x as [[f2 w2]| |] eqn:E1 end; cbn [bind] in H; try discriminate H.
  assert (H1 : head_frame f f2 w w2 /\ f_state f2 = f_state f).
  { destruct (negb _).
    - destruct (inst_add _ _) as [e| |]; cbn [bind] in E1; try discriminate E1.
      destruct (f_gap f) eqn:Eg.
      + injection E1 as <- <-. split; [|reflexivity]. unfold head_frame. cbn. rewrite Eg. repeat (split; [reflexivity|]).
        exists []. rewrite app_nil_r. split; [reflexivity|constructor].
      + destruct (inst_sub_dur _ _) as [e2| |]; cbn [bind] in E1; try discriminate E1.
        injection E1 as <- <-. split; [|reflexivity]. unfold head_frame. cbn. rewrite Eg. repeat (split; [reflexivity|]).
        exists []. rewrite app_nil_r. split; [reflexivity|constructor].
    - injection E1 as <- <-. split; [apply head_frame_refl|reflexivity]. }
  destruct H1 as [F2 Hs2].
  destruct (wait_synchronization_pause f2 now) as [[f3 wait]| |] eqn:Ew; cbn [bind] in H; try discriminate H.
  apply wait_sync_same in Ew. destruct Ew as [[Hp3 [Hr3 [Hc3 [Hg3 [Hs3 [Hpe3 _]]]]]] _].
  assert (F3 : head_frame f f3 w w2).
  { destruct F2 as [A1 [A2 [A3 [A4 [A5 [A6 [A7 A8]]]]]]]. unfold head_frame. repeat (split; [congruence|]). exact A8. }
  destruct wait.
  - injection H as <- <-. rewrite Hs3, Hs2, Es in Hk. discriminate Hk.
  - rewrite Hs3, Hs2, Es in H. cbn [get_use_token bind] in H.
    match type of H with bind ?x _ = _ => destruct x as [[[f4 w4] d]| |] eqn:E4 end; cbn [bind] in H; try discriminate H.
    assert (Hfc : forall f3', set_first_cycle_done f3 = Ok f3' -> f3' = set_st f3 (UseToken tk fa true)).
    { intros f3' Hc. unfold set_first_cycle_done in Hc. rewrite Hs3, Hs2, Es in Hc. cbn [get_use_token bind] in Hc.
      injection Hc as <-. reflexivity. }
    destruct d.
    + injection H as <- <-. exfalso.
      assert (Hn : is_pass_token (f_state f4) = false).
      { destruct (now <? f_end_tht f3).
        - destruct (set_first_cycle_done f3) as [f3'| |] eqn:Ec; cbn [bind] in E4; try discriminate E4.
          unfold apps_transmit_telegram in E4. apply apps_transmit_loop_not_pass in E4; [exact E4|]. rewrite (Hfc _ eq_refl). reflexivity.
        - destruct (negb fcd); [|discriminate E4].
          destruct (set_first_cycle_done f3) as [f3'| |] eqn:Ec; cbn [bind] in E4; try discriminate E4.
          unfold apps_transmit_telegram in E4. apply apps_transmit_loop_not_pass in E4; [exact E4|]. rewrite (Hfc _ eq_refl). reflexivity. }
      rewrite Hn in Hk. discriminate Hk.
    + assert (F4 : head_frame f f4 w w4).
      { assert (Hl : forall hp tg, (let* f0 := set_first_cycle_done f3 in apps_transmit_telegram A ops f0 now (note A w2 tg) hp) = Ok (f4, w4, false) ->
                      head_frame f f4 w w4).
        { intros hp tg Hl. destruct (set_first_cycle_done f3) as [f3'| |] eqn:Ec; cbn [bind] in Hl; try discriminate Hl.
          rewrite (Hfc _ eq_refl) in Hl. unfold apps_transmit_telegram in Hl. apply apps_loop_declines in Hl.
          eapply head_frame_trans; [exact F3|].
          destruct Hl as [B1 [B2 [B3 [B4 [B5 [B6 [B7 B8]]]]]]]. cbn in B1, B2, B3, B4, B5, B6, B7, B8.
          unfold head_frame. repeat (split; [assumption|]). exact B8. }
        destruct (now <? f_end_tht f3); [exact (Hl _ _ E4)|].
        destruct (negb fcd); [exact (Hl _ _ E4)|]. injection E4 as <- <-.
        destruct F3 as [A1 [A2 [A3 [A4 [A5 [A6 [A7 A8]]]]]]]. unfold head_frame. cbn. repeat (split; [assumption|]). exact A8. }
      apply trans_spec in H. destruct H as [s' [Ht [-> ->]]].
      unfold transition_pass_token in Ht. destruct (assert_kind _ _); cbn [bind] in Ht; try discriminate Ht. injection Ht as <-.
      split; [reflexivity|]. split; [reflexivity|].
      destruct F4 as [A1 [A2 [A3 [A4 [A5 [A6 [A7 A8]]]]]]]. unfold head_frame. cbn. repeat (split; [assumption|]). exact A8.
Qed.

Lemma do_use_token_hold_rule f now (w : W) f' w' :
  do_use_token A ops f now w = Ok (f', w') ->
  exists l hp, w_calls w' = w_calls w ++ l /\ Forall (is_transmit_call hp) l /\
    (l <> [] ->
     if hp then (exists tk fa, f_state f = UseToken tk fa false) /\ f_end_tht f' <= now
     else now < f_end_tht f').
Proof.
  rewrite do_use_token_split. intros H.
  destruct (do_use_token_head A ops f now w) as [[f1 w1]| |] eqn:Eh; cbn [bind] in H; try discriminate H.
  apply do_use_token_head_hold_rule in Eh.
  destruct (is_pass_token (f_state f1)); [|injection H as <- <-; exact Eh].
  destruct Eh as [l [hp [Hc [Hf Hr]]]].
  pose proof (do_pass_token_frame A f1 now w1 f' w' H) as [Hc' _].
  apply do_pass_token_hold in H. destruct H as [_ [_ [He _]]].
  exists l, hp. rewrite Hc', He. split; [exact Hc|]. split; [exact Hf|exact Hr].
Qed.


(* ------------------------------------------------------------------------------------------ *)
(* C01: every transmission of a poll happens later than last_bus_activity + 33 bit              *)

Definition lba_ok (f : fdl) (now : Z) : Prop :=
  exists l, f_lba f = Some l /\ l + p_bits_to_time (f_p f) sync_pause_bits < now.

(* "back-propagation": if the later state has a sufficiently old last_bus_activity, so had the earlier *)
Definition bp (f f' : fdl) (now : Z) : Prop := lba_ok f' now -> lba_ok f now.

Lemma sync_nonneg f : 0 <= p_bits_to_time (f_p f) sync_pause_bits.
Proof. unfold p_bits_to_time. apply (bits_to_time_bounds (p_baud (f_p f)) sync_pause_bits). vm_compute. split; discriminate. Qed.

Lemma bp_refl f now : bp f f now. Proof. unfold bp. tauto. Qed.
Lemma bp_trans f g h now : bp f g now -> bp g h now -> bp f h now. Proof. unfold bp. tauto. Qed.

Lemma bp_same f f' now : same_but_lba f f' ->
  (forall l', f_lba f' = Some l' -> exists l, f_lba f = Some l /\ l <= l' \/ (f_lba f = None /\ now <= l')) -> bp f f' now.
Proof.
  intros [Hp _] Hl [l' [E Hlt]]. rewrite Hp in Hlt. pose proof (sync_nonneg f) as Hn.
  destruct (Hl l' E) as [l [[El Hle]|[_ Hle]]].
  - exists l. split; [exact El|lia].
  - lia.
Qed.

Lemma bp_get_or_insert f now l f' : lba_get_or_insert f now = (l, f') -> bp f f' now.
Proof.
  intros E. apply lba_get_or_insert_same in E. destruct E as [Hs [Hl Hm]].
  apply bp_same; [exact Hs|]. intros l' E'. rewrite Hl in E'. injection E' as <-.
  destruct (f_lba f) as [l0|]; [exists l0; left; split; [reflexivity|lia]|exists 0; right; split; [reflexivity|lia]].
Qed.

Lemma bp_mark_rx f now : bp f (mark_rx f now) now.
Proof.
  intros [l' [E Hlt]]. exfalso. pose proof (sync_nonneg (mark_rx f now)) as Hn.
  unfold mark_rx, mark_bus_activity, lba_get_or_insert in E. cbn in E.
  destruct (f_lba f); cbn in E; injection E as <-; lia.
Qed.

Lemma bp_set_st f s now : bp f (set_st f s) now. Proof. unfold bp, lba_ok. cbn. tauto. Qed.
Lemma bp_set_ring f r now : bp f (set_ring f r) now. Proof. unfold bp, lba_ok. cbn. tauto. Qed.
Lemma bp_set_gap f g now : bp f (set_gap f g) now. Proof. unfold bp, lba_ok. cbn. tauto. Qed.
Lemma bp_set_pending f n now : bp f (set_pending f n) now. Proof. unfold bp, lba_ok. cbn. tauto. Qed.
Lemma bp_set_hold f a b now : bp f (set_hold f a b) now. Proof. unfold bp, lba_ok. cbn. tauto. Qed.

Lemma bp_check_slot f now f' b : check_slot_expired f now = Ok (f', b) -> bp f f' now.
Proof.
  unfold check_slot_expired. destruct (lba_get_or_insert f now) as [l f1] eqn:E.
  apply bp_get_or_insert in E. destruct (inst_add _ _); cbn [bind]; try discriminate.
  intros H. injection H as <- _. exact E.
Qed.

Lemma wait_sync_go f now f' : wait_synchronization_pause f now = Ok (f', false) -> lba_ok f now.
Proof.
  intros H. apply wait_sync_same in H. destruct H as [_ [l [_ [Hm Hlt]]]]. specialize (Hlt eq_refl).
  pose proof (sync_nonneg f). destruct (f_lba f) as [l0|] eqn:E; [exists l0; subst; split; [exact E|exact Hlt]|lia].
Qed.

Definition sends (w w' : W) : Prop := w_tx w = None /\ w_tx w' <> None.

Lemma trans_keeps f (w : W) t f' w' now : trans A f w t = Ok (f', w') -> w_tx w' = w_tx w /\ bp f f' now.
Proof. intros H. apply trans_spec in H. destruct H as [s' [_ [-> ->]]]. split; [reflexivity|apply bp_set_st]. Qed.

Lemma do_pass_token_sync f now (w : W) f' w' :
  do_pass_token A f now w = Ok (f', w') -> sends w w' -> lba_ok f now.
Proof.
  unfold do_pass_token. intros H [Hn Hs].
  destruct (assert_entry DoPassToken f); cbn [bind] in H; try discriminate H.
  destruct (wait_synchronization_pause f now) as [[f1 wait]| |] eqn:Ew; cbn [bind] in H; try discriminate H.
  destruct wait; [|exact (wait_sync_go _ _ _ Ew)].
  injection H as _ <-. cbn in Hs. contradiction.
Qed.

Lemma do_claim_token_scan_sync f now (w : W) f' w' :
  do_claim_token_scan A f now w = Ok (f', w') -> sends w w' -> lba_ok f now.
Proof.
  unfold do_claim_token_scan. intros H [Hn Hs].
  destruct (wait_synchronization_pause f now) as [[f1 wait]| |] eqn:Ew; cbn [bind] in H; try discriminate H.
  destruct wait; [|exact (wait_sync_go _ _ _ Ew)].
  injection H as _ <-. cbn in Hs. contradiction.
Qed.

Lemma await_gap_keeps f now (w : W) pa f' w' r :
  await_gap_poll_response A f now w pa = Ok (f', w', r) -> w_tx w' = w_tx w /\ bp f f' now.
Proof.
  intros H. pose proof (await_gap_poll_response_frame _ _ _ _ _ _ _ H) as [_ [_ [_ [Htx _]]]]. split; [exact Htx|].
  unfold await_gap_poll_response in H.
  destruct (pa =? ts f); [discriminate H|]. destruct (negb _); [discriminate H|].
  destruct (receive_telegram (fun t => t) (w_rx w)) as [[rest received]| |]; cbn [bind] in H; try discriminate H.
  destruct received as [t|].
  - assert (Hb : bp f f' now \/ True) by (right; exact I). clear Hb.
    assert (Hm := bp_mark_rx f now).
    destruct t as [[da sa dsap ssap fc] pdu|da sa|]; [destruct fc as [fb rq|st status]| |];
      try (injection H as <- _ _; exact Hm).
    destruct ((sa =? pa) && (da =? ts (mark_rx f now))); [|injection H as <- _ _; exact Hm].
    destruct (resp_status_eqb status gap_reply_status && gap_reply_state_is_master st); [|injection H as <- _ _; exact Hm].
    destruct (set_next_station _ _) as [r'| |]; cbn [bind] in H; try discriminate H.
    injection H as <- _ _. eapply bp_trans; [exact Hm|apply bp_set_ring].
  - destruct (check_slot_expired _ now) as [[f1 expired]| |] eqn:Ec; cbn [bind] in H; try discriminate H.
    apply bp_check_slot in Ec.
    assert (Hb : bp f f1 now) by (eapply bp_trans; [apply bp_set_pending|exact Ec]).
    destruct expired; injection H as <- _ _; exact Hb.
Qed.

Lemma do_claim_token_sync f now (w : W) f' w' :
  do_claim_token A f now w = Ok (f', w') -> sends w w' -> lba_ok f now.
Proof.
  unfold do_claim_token. intros H [Hn Hs].
  destruct (assert_entry DoClaimToken f); cbn [bind] in H; try discriminate H.
  destruct (get_claim_token_step (f_state f)) as [step| |]; cbn [bind] in H; try discriminate H.
  destruct step as [ | | |a0].
  - destruct (wait_synchronization_pause f now) as [[f1 wait]| |] eqn:Ew; cbn [bind] in H; try discriminate H.
    destruct wait; [|exact (wait_sync_go _ _ _ Ew)]. injection H as _ <-. cbn in Hs. contradiction.
  - destruct (wait_synchronization_pause f now) as [[f1 wait]| |] eqn:Ew; cbn [bind] in H; try discriminate H.
    destruct wait; [|exact (wait_sync_go _ _ _ Ew)]. injection H as _ <-. cbn in Hs. contradiction.
  - exact (do_claim_token_scan_sync _ _ _ _ _ H (conj Hn Hs)).
  - destruct (await_gap_poll_response A f now w a0) as [[[f1 w1] r]| |] eqn:Ea; cbn [bind] in H; try discriminate H.
    apply await_gap_keeps in Ea. destruct Ea as [Htx Hb].
    destruct r.
    + injection H as _ <-. rewrite Htx in Hs. contradiction.
    + unfold set_claim_step in H. destruct (get_claim_token_step (f_state f1)); cbn [bind] in H; try discriminate H.
      apply Hb. eapply bp_set_st. eapply do_claim_token_scan_sync; [exact H|]. split; [rewrite Htx; exact Hn|exact Hs].
    + destruct (set_claim_step f1 StepScan) as [f2| |]; cbn [bind] in H; try discriminate H.
      injection H as _ <-. rewrite Htx in Hs. contradiction.
    + apply trans_keeps with (now := now) in H. destruct H as [Ht _]. rewrite Ht, Htx in Hs. contradiction.
Qed.


Lemma handle_lost_token_sync f now (w : W) f' w' d :
  handle_lost_token A f now w = Ok (f', w', d) ->
  if d then sends w w' -> lba_ok f now else w_tx w' = w_tx w /\ bp f f' now.
Proof.
  unfold handle_lost_token. intros H.
  destruct (lba_get_or_insert f now) as [l f0] eqn:El. apply bp_get_or_insert in El.
  destruct (inst_diff now l); cbn [bind] in H; try discriminate H.
  match type of H with (if ?c then _ else _) = _ => destruct c end.
  - match type of H with context [trans A ?a ?b ?c] => destruct (trans A a b c) as [[f1 w1]| |] eqn:Et end; cbn [bind] in H; try discriminate H.
    apply trans_keeps with (now := now) in Et. destruct Et as [Htx Hb]. cbn in Htx.
    destruct (do_claim_token A f1 now w1) as [[f2 w2]| |] eqn:Ed; cbn [bind] in H; try discriminate H.
    injection H as <- <- <-. intros [Hn Hs]. apply El, Hb.
    eapply do_claim_token_sync; [exact Ed|]. split; [rewrite Htx; exact Hn|exact Hs].
  - injection H as <- <- <-. split; [reflexivity|exact El].
Qed.

(* handle_telegram and the receive closures never transmit *)
Lemma handle_telegram_keeps now f (w : W) t il f' w' :
  handle_telegram A now f w t il = Ok (f', w') -> w_tx w' = w_tx w.
Proof.
  unfold handle_telegram. intros H.
  destruct (f_state f) eqn:Es; cbn [negb kind_of state_kind_eqb] in H; try discriminate H;
    try (injection H as _ <-; reflexivity).
  destruct t as [h pdu|da sa|].
  - destruct (is_fdl_status_request h && (h_da h =? ts f) && il).
    + cbn [get_active_idle bind] in H. injection H as _ <-. reflexivity.
    + injection H as _ <-. reflexivity.
  - cbn [get_active_idle bind] in H.
    destruct (sa =? ts f).
    + destruct (u8_add _ _); cbn [bind] in H; try discriminate H.
      match type of H with (if ?c then _ else _) = _ => destruct c end.
      * injection H as _ <-. reflexivity.
      * apply trans_spec in H. destruct H as [s' [_ [_ ->]]]. reflexivity.
    + match type of H with (if ?c then _ else _) = _ => destruct c end.
      * destruct (witness _ _ _); cbn [bind] in H; try discriminate H. injection H as _ <-. reflexivity.
      * match type of H with (if ?c then _ else _) = _ => destruct c end.
        -- apply trans_spec in H. destruct H as [s' [_ [_ ->]]]. reflexivity.
        -- destruct new_previous_station as [address|].
           ++ destruct (address =? sa).
              ** destruct (witness _ _ _); cbn [bind] in H; try discriminate H.
                 apply trans_spec in H. destruct H as [s' [_ [_ ->]]]. reflexivity.
              ** injection H as _ <-. reflexivity.
           ++ injection H as _ <-. reflexivity.
  - injection H as _ <-. reflexivity.
Qed.

Lemma listen_token_telegram_keeps now s t il s' u :
  listen_token_telegram A now s t il = Ok (s', u) -> w_tx (snd s') = w_tx (snd s).
Proof.
  destruct s as [f w]. destruct s' as [f' w']. cbn [snd]. unfold listen_token_telegram. intros H.
  assert (Hrest : forall X : res (fdl * W * unit),
    X = Ok (f', w', u) ->
    X = (if opt_eqb (source_address t) (Some (ts (mark_rx f now)))
     then let* (sr, cc) := get_listen_token (f_state (mark_rx f now)) in
          let* cc0 := u8_add cc 1 in
          let f0 := set_st (mark_rx f now) (ListenToken sr cc0) in
          if cc0 =? listen_collision_tolerated then Ok (f0, note A w TLtCollisionFirst, tt)
          else let* f1 := set_offline f0 in Ok (f1, note A w TLtCollisionOffline, tt)
     else match t with
          | TData h _ =>
              if is_fdl_status_request h && (h_da h =? ts (mark_rx f now))
              then if il
                   then let* (_, cc) := get_listen_token (f_state (mark_rx f now)) in
                        Ok (set_st (mark_rx f now) (ListenToken (Some (h_sa h)) cc), note A w TLtStatusReqLast, tt)
                   else Ok (mark_rx f now, note A w TLtStatusReqNotLast, tt)
              else Ok (mark_rx f now, note A w TLtOther, tt)
          | TToken da sa => let* r := witness (f_ring (mark_rx f now)) sa da in Ok (set_ring (mark_rx f now) r, note A w TLtWitness, tt)
          | TShortConf => Ok (mark_rx f now, note A w TLtOther, tt)
          end) -> w_tx w' = w_tx w).
  { intros X HX ->. destruct (opt_eqb _ _).
    - destruct (get_listen_token _) as [[sr cc]| |]; cbn [bind] in HX; try discriminate HX.
      destruct (u8_add cc 1) as [cc'| |]; cbn [bind] in HX; try discriminate HX.
      destruct (cc' =? listen_collision_tolerated).
      + injection HX as _ <- _. reflexivity.
      + destruct (set_offline _); cbn [bind] in HX; try discriminate HX. injection HX as _ <- _. reflexivity.
    - destruct t as [h pdu|da sa|].
      + destruct (is_fdl_status_request h && _).
        * destruct il.
          -- destruct (get_listen_token _) as [[sr cc]| |]; cbn [bind] in HX; try discriminate HX.
             injection HX as _ <- _. reflexivity.
          -- injection HX as _ <- _. reflexivity.
        * injection HX as _ <- _. reflexivity.
      + destruct (witness _ _ _); cbn [bind] in HX; try discriminate HX. injection HX as _ <- _. reflexivity.
      + injection HX as _ <- _. reflexivity. }
  destruct (f_conn (mark_rx f now)).
  - injection H as _ <- _. reflexivity.
  - exact (Hrest _ H eq_refl).
  - exact (Hrest _ H eq_refl).
Qed.

Lemma receive_all_telegrams_keeps cb f (w : W) f' w' :
  (forall s t il s' u, cb s t il = Ok (s', u) -> w_tx (snd s') = w_tx (snd s)) ->
  receive_all_telegrams A cb f w = Ok (f', w') -> w_tx w' = w_tx w.
Proof.
  intros Hcb. unfold receive_all_telegrams. intros H.
  destruct (receive_all cb _ (f, w) (w_rx w)) as [[[s1 rest] r]| |] eqn:Er; cbn [bind] in H; try discriminate H.
  destruct s1 as [f1 w1]. injection H as _ <-. cbn.
  refine (receive_all_inv (fun s : fdl * W => w_tx (snd s) = w_tx w) cb _ _ (f, w) _ (f1, w1) rest r eq_refl Er).
  intros s t il s' u Hp Hc. rewrite (Hcb _ _ _ _ _ Hc). exact Hp.
Qed.

Lemma do_listen_token_sync f now (w : W) f' w' :
  do_listen_token A f now w = Ok (f', w') -> sends w w' -> lba_ok f now.
Proof.
  unfold do_listen_token. intros H Hsend.
  destruct (assert_entry DoListenToken f); cbn [bind] in H; try discriminate H.
  destruct (handle_lost_token A f now w) as [[[f0 w0] d]| |] eqn:Eh; cbn [bind] in H; try discriminate H.
  pose proof (handle_lost_token_sync _ _ _ _ _ _ Eh) as Hh.
  destruct d.
  - injection H as <- <-. exact (Hh Hsend).
  - pose proof Hh as Hk.
    destruct Hk as [Htx0 Hb0]. destruct Hsend as [Hn Hs].
    destruct (get_listen_token (f_state f0)) as [[sr cc]| |]; cbn [bind] in H; try discriminate H.
    destruct sr as [src|].
    + destruct (wait_synchronization_pause f0 now) as [[f1 wait]| |] eqn:Ew; cbn [bind] in H; try discriminate H.
      destruct wait; [|exact (Hb0 (wait_sync_go _ _ _ Ew))].
      injection H as _ <-. cbn in Hs. rewrite Htx0 in Hs. contradiction.
    + apply receive_all_telegrams_keeps in H; [|exact (listen_token_telegram_keeps now)].
      rewrite H, Htx0 in Hs. contradiction.
Qed.


Lemma active_idle_telegram_keeps now s t il s' u :
  active_idle_telegram A now s t il = Ok (s', u) -> w_tx (snd s') = w_tx (snd s).
Proof.
  destruct s as [f w]. destruct s' as [f' w']. cbn [snd]. unfold active_idle_telegram. intros H.
  destruct (handle_telegram A now (mark_rx f now) w t il) as [[f1 w1]| |] eqn:Eh; cbn [bind] in H; try discriminate H.
  injection H as _ <- _. exact (handle_telegram_keeps _ _ _ _ _ _ _ Eh).
Qed.

Lemma do_active_idle_sync f now (w : W) f' w' :
  do_active_idle A f now w = Ok (f', w') -> sends w w' -> lba_ok f now.
Proof.
  unfold do_active_idle. intros H Hsend.
  destruct (assert_entry DoActiveIdle f); cbn [bind] in H; try discriminate H.
  destruct (handle_lost_token A f now w) as [[[f0 w0] d]| |] eqn:Eh; cbn [bind] in H; try discriminate H.
  pose proof (handle_lost_token_sync _ _ _ _ _ _ Eh) as Hh.
  destruct d.
  - injection H as <- <-. exact (Hh Hsend).
  - destruct Hh as [Htx0 Hb0]. destruct Hsend as [Hn Hs].
    destruct (get_active_idle (f_state f0)) as [[[sr nps] cc]| |]; cbn [bind] in H; try discriminate H.
    destruct sr as [src|].
    + destruct (wait_synchronization_pause f0 now) as [[f1 wait]| |] eqn:Ew; cbn [bind] in H; try discriminate H.
      destruct wait; [|exact (Hb0 (wait_sync_go _ _ _ Ew))].
      injection H as _ <-. cbn in Hs. rewrite Htx0 in Hs. contradiction.
    + apply receive_all_telegrams_keeps in H; [|exact (active_idle_telegram_keeps now)].
      rewrite H, Htx0 in Hs. contradiction.
Qed.

Lemma do_use_token_sync f now (w : W) f' w' :
  do_use_token A ops f now w = Ok (f', w') -> sends w w' -> lba_ok f now.
Proof.
  unfold do_use_token. intros H [Hn Hs].
  destruct (assert_entry DoUseToken f); cbn [bind] in H; try discriminate H.
  destruct (get_use_token (f_state f)) as [[[tk fa] fcd]| |]; cbn [bind] in H; try discriminate H.
  match type of H with bind ?x _ = _ => destruct x as [[f1 w1]| |] eqn:E1 end; cbn [bind] in H; try discriminate H.
  assert (H1 : w_tx w1 = w_tx w /\ bp f f1 now).
  { destruct (negb _).
    - destruct (inst_add _ _) as [e| |]; cbn [bind] in E1; try discriminate E1.
      destruct (f_gap f).
      + injection E1 as <- <-. split; [reflexivity|apply bp_set_hold].
      + destruct (inst_sub_dur _ _) as [e2| |]; cbn [bind] in E1; try discriminate E1.
        injection E1 as <- <-. split; [reflexivity|apply bp_set_hold].
    - injection E1 as <- <-. split; [reflexivity|apply bp_refl]. }
  destruct H1 as [Htx1 Hb1].
  destruct (wait_synchronization_pause f1 now) as [[f2 wait]| |] eqn:Ew; cbn [bind] in H; try discriminate H.
  destruct wait; [|exact (Hb1 (wait_sync_go _ _ _ Ew))].
  injection H as _ <-. cbn in Hs. rewrite Htx1 in Hs. contradiction.
Qed.

Lemma do_await_data_response_sync f now (w : W) f' w' :
  do_await_data_response A ops f now w = Ok (f', w') -> sends w w' -> lba_ok f now.
Proof.
  unfold do_await_data_response. intros H [Hn Hs].
  destruct (assert_entry DoAwaitDataResponse f); cbn [bind] in H; try discriminate H.
  destruct (get_await_data_response (f_state f)) as [[[address tk] fa]| |]; cbn [bind] in H; try discriminate H.
  destruct (nth_error (w_apps w) (f_next_app f)) as [app|]; [|discriminate H].
  destruct (receive_telegram (fun t => t) (w_rx w)) as [[rest received]| |]; cbn [bind] in H; try discriminate H.
  destruct received as [t|].
  - destruct (is_valid_response (mark_rx f now) address t).
    + destruct (a_rx ops app now _ address t) as [app'| |]; cbn [bind] in H; try discriminate H.
      match type of H with context [trans A ?a ?b ?c] => destruct (trans A a b c) as [[f1 w1]| |] eqn:Et end; cbn [bind] in H; try discriminate H.
      apply trans_spec in Et. destruct Et as [s' [_ [-> ->]]].
      destruct (set_first_cycle_done _) as [f2| |]; cbn [bind] in H; try discriminate H.
      injection H as _ <-. cbn in Hs. contradiction.
    + apply trans_spec in H. destruct H as [s' [_ [_ ->]]]. cbn in Hs. contradiction.
  - destruct (check_slot_expired _ now) as [[f1 expired]| |] eqn:Ec; cbn [bind] in H; try discriminate H.
    apply bp_check_slot in Ec.
    assert (Hb : bp f f1 now) by (eapply bp_trans; [apply bp_set_pending|exact Ec]).
    destruct expired.
    + destruct (a_to ops app now _ address) as [app'| |]; cbn [bind] in H; try discriminate H.
      match type of H with context [trans A ?a ?b ?c] => destruct (trans A a b c) as [[f2 w2]| |] eqn:Et end; cbn [bind] in H; try discriminate H.
      apply trans_spec in Et. destruct Et as [s' [_ [-> ->]]].
      unfold set_first_cycle_done in H. destruct (get_use_token _) as [[[tk2 fa2] fcd2]| |]; cbn [bind] in H; try discriminate H.
      apply Hb. eapply bp_set_st. eapply bp_set_st. eapply do_use_token_sync; [exact H|].
      split; [|exact Hs]. cbn. match goal with |- context [if ?c then _ else _] => destruct c end; exact Hn.
    + injection H as _ <-. cbn in Hs. exfalso. apply Hs. match goal with |- context [if ?c then _ else _] => destruct c end; exact Hn.
Qed.

Lemma do_await_status_response_sync f now (w : W) f' w' :
  do_await_status_response A f now w = Ok (f', w') -> sends w w' -> lba_ok f now.
Proof.
  unfold do_await_status_response. intros H [Hn Hs].
  destruct (assert_entry DoAwaitStatusResponse f); cbn [bind] in H; try discriminate H.
  destruct (get_await_status_response_address (f_state f)) as [address| |]; cbn [bind] in H; try discriminate H.
  destruct (await_gap_poll_response A f now w address) as [[[f1 w1] r]| |] eqn:Ea; cbn [bind] in H; try discriminate H.
  apply await_gap_keeps in Ea. destruct Ea as [Htx Hb].
  destruct r.
  - injection H as _ <-. rewrite Htx in Hs. contradiction.
  - match type of H with context [trans A ?a ?b ?c] => destruct (trans A a b c) as [[f2 w2]| |] eqn:Et end; cbn [bind] in H; try discriminate H.
    apply trans_spec in Et. destruct Et as [s' [_ [-> ->]]].
    apply Hb. eapply bp_set_st. eapply do_pass_token_sync; [exact H|]. split; [cbn; rewrite Htx; exact Hn|exact Hs].
  - apply trans_spec in H. destruct H as [s' [_ [_ ->]]]. cbn in Hs. rewrite Htx in Hs. contradiction.
  - apply trans_spec in H. destruct H as [s' [_ [_ ->]]]. cbn in Hs. rewrite Htx in Hs. contradiction.
Qed.

Lemma check_token_pass_telegram_keeps now s t il s' u :
  check_token_pass_telegram A now s t il = Ok (s', u) -> w_tx (snd (fst s')) = w_tx (snd (fst s)).
Proof.
  destruct s as [[f w] fi]. destruct s' as [[f' w'] fi']. cbn [fst snd]. unfold check_token_pass_telegram. intros H.
  match type of H with bind ?x _ = _ => destruct x as [[f1 w1]| |] eqn:E1 end; cbn [bind] in H; try discriminate H.
  assert (H1 : w_tx w1 = w_tx w).
  { destruct fi; [|injection E1 as _ <-; reflexivity].
    apply trans_spec in E1. destruct E1 as [s' [_ [_ ->]]]. reflexivity. }
  destruct (handle_telegram A now f1 w1 t il) as [[f2 w2]| |] eqn:Eh; cbn [bind] in H; try discriminate H.
  injection H as _ <- _ _. rewrite (handle_telegram_keeps _ _ _ _ _ _ _ Eh). exact H1.
Qed.

Lemma do_check_token_pass_sync f now (w : W) f' w' :
  do_check_token_pass A f now w = Ok (f', w') -> sends w w' -> lba_ok f now.
Proof.
  unfold do_check_token_pass. intros H [Hn Hs].
  destruct (assert_entry DoCheckTokenPass f); cbn [bind] in H; try discriminate H.
  destruct (check_slot_expired f now) as [[f1 expired]| |] eqn:Ec; cbn [bind] in H; try discriminate H.
  apply bp_check_slot in Ec.
  destruct expired.
  - destruct (get_check_token_pass_attempt (f_state f1)) as [att| |]; cbn [bind] in H; try discriminate H.
    match type of H with bind ?x _ = _ => destruct x as [[f2 w2]| |] eqn:E2 end; cbn [bind] in H; try discriminate H.
    assert (H2 : w_tx w2 = w_tx w /\ bp f1 f2 now).
    { destruct (check_pass_removes att).
      - destruct (remove_station _ _) as [r| |]; cbn [bind] in E2; try discriminate E2.
        injection E2 as <- <-. split; [reflexivity|apply bp_set_ring].
      - injection E2 as <- <-. split; [reflexivity|apply bp_refl]. }
    destruct H2 as [Htx2 Hb2].
    match type of H with context [trans A ?a ?b ?c] => destruct (trans A a b c) as [[f3 w3]| |] eqn:Et end; cbn [bind] in H; try discriminate H.
    apply trans_spec in Et. destruct Et as [s' [_ [-> ->]]].
    apply Ec, Hb2. eapply bp_set_st. eapply do_pass_token_sync; [exact H|]. split; [cbn; rewrite Htx2; exact Hn|exact Hs].
  - destruct (receive_all _ _ (f1, w, true) (w_rx w)) as [[[s1 rest] r]| |] eqn:Er; cbn [bind] in H; try discriminate H.
    destruct s1 as [[f2 w2] fi]. injection H as _ <-.
    assert (Hk : w_tx w2 = w_tx w).
    { refine (receive_all_inv (fun s : fdl * W * bool => w_tx (snd (fst s)) = w_tx w) (check_token_pass_telegram A now) _ _ (f1, w, true) _ (f2, w2, fi) rest r eq_refl Er).
      intros s t il s' u Hp Hc. rewrite (check_token_pass_telegram_keeps _ _ _ _ _ _ Hc). exact Hp. }
    cbn in Hs. destruct fi; cbn in Hs; rewrite Hk in Hs; contradiction.
Qed.

(* C01_sync_pause for a whole poll: whatever the state, the inputs and the applications - if the poll
   transmits, then the station's last_bus_activity was known before the poll and lies more than the
   synchronisation pause (33 bit times) in the past. *)
Lemma poll_tx_sync_pause f now pin (apps : list A) f' o a c wire :
  poll ops f now pin apps = Ok (f', o, a, c) -> tx o = Some wire -> lba_ok f now.
Proof.
  unfold poll, poll_traced. intros H Htx.
  destruct (poll_inner ops f now (tx_busy pin) (mkWorld (rx pin) None apps [] [])) as [[f1 w1]| |] eqn:E; cbn [bind] in H; try discriminate H.
  injection H as _ <- _ _. cbn [tx] in Htx.
  assert (Hsend : forall wx : W, w_tx wx = None -> sends wx w1) by (intros wx Hx; split; [exact Hx|rewrite Htx; discriminate]).
  unfold poll_inner in E.
  match type of E with bind ?r _ = _ => destruct r as [[[f2 w2] off]| |] eqn:Ep end; cbn [bind] in E; try discriminate E.
  assert (Hw : w_tx w2 = None /\ bp f f2 now).
  { destruct (f_conn f).
    - destruct (f_state f); try discriminate Ep. injection Ep as <- <- _. split; [reflexivity|apply bp_refl].
    - destruct (passive_entry_kind _).
      + match type of Ep with context [trans A ?a ?b ?c] => destruct (trans A a b c) as [[f3 w3]| |] eqn:Et end; cbn [bind] in Ep; try discriminate Ep.
        injection Ep as <- <- _. apply trans_keeps with (now := now) in Et. destruct Et as [T B]. split; [rewrite T; reflexivity|exact B].
      + injection Ep as <- <- _. split; [reflexivity|apply bp_refl].
    - destruct (online_entry_kind _).
      + match type of Ep with context [trans A ?a ?b ?c] => destruct (trans A a b c) as [[f3 w3]| |] eqn:Et end; cbn [bind] in Ep; try discriminate Ep.
        injection Ep as <- <- _. apply trans_keeps with (now := now) in Et. destruct Et as [T B]. split; [rewrite T; reflexivity|exact B].
      + injection Ep as <- <- _. split; [reflexivity|apply bp_refl]. }
  destruct Hw as [Hn2 Hb2].
  destruct off; [injection E as _ <-; rewrite Hn2 in Htx; discriminate Htx|].
  unfold check_for_ongoing_transmision in E.
  match type of E with context [if ?c then (_, _, true) else _] => destruct c end.
  - injection E as _ <-. cbn in Htx. rewrite Hn2 in Htx. discriminate Htx.
  - unfold check_for_bus_activity in E.
    match type of E with context [if Nat.ltb ?a ?b then _ else _] => destruct (Nat.ltb a b) end.
    + (* activity marked in this poll: last_bus_activity = now, nothing can be transmitted *)
      set (f3 := set_pending (mark_bus_activity f2 now) (length (w_rx w2))) in *.
      assert (Hno : ~ lba_ok f3 now).
      { intros [l [El Hl]]. pose proof (sync_nonneg f3). unfold f3, mark_bus_activity, lba_get_or_insert in El. cbn in El.
        destruct (f_lba f2); cbn in El; injection El as <-; lia. }
      exfalso. apply Hno.
      destruct (poll_dispatch (kind_of (f_state f3))) as [ | |[ | | | | | | | ]]; try discriminate E;
        [eapply do_listen_token_sync|eapply do_active_idle_sync|eapply do_claim_token_sync|eapply do_use_token_sync
        |eapply do_await_data_response_sync|eapply do_pass_token_sync|eapply do_await_status_response_sync
        |eapply do_check_token_pass_sync]; try exact E; apply Hsend; cbn; exact Hn2.
    + apply Hb2.
      destruct (poll_dispatch (kind_of (f_state f2))) as [ | |[ | | | | | | | ]]; try discriminate E;
        [eapply do_listen_token_sync|eapply do_active_idle_sync|eapply do_claim_token_sync|eapply do_use_token_sync
        |eapply do_await_data_response_sync|eapply do_pass_token_sync|eapply do_await_status_response_sync
        |eapply do_check_token_pass_sync]; try exact E; apply Hsend; exact Hn2.
Qed.

End WithApps.
