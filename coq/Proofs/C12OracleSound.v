(* C12 - oracle soundness, the rest: on every transcript of the MODEL the executable rules R12_sweep_bound,
   R12_post_claim_scan_incomplete and R12_gap_wait_never_ends of Model/FdlOracle.v never fire.
   Parts 1-2: simulation between the bookkeeping of the second monitor (visit counter g_visit, per-address marks
   g_last, scan list g_scan) and the GAP state of the model, with the ranking function of C12_sweep_bound
   (visits_until) as the potential.
   Part 3 (liveness): exact bookkeeping of last_bus_activity / pending_bytes in the states that await a GAP reply
   (await_poll_exact, entry_plb), simulation LW between l_ref / l_txend / l_spur of the monitor and the model,
   theorems fdl_oracle_sound3, c12_oracle_sound_gap_wait, c12_oracle_sound. *)
From Coq Require Import Arith FinFun.
From PB Require Import Common Tables FdlTables Telegram Phy TokenRing Params Fdl FdlOracle FdlProofs FdlStepProofs.
From PB Require Import C05Proofs C01Proofs C11Proofs C15Proofs C13Proofs C12Proofs.
From PB Require Import FdlOracleSound1 FdlOracleSound2 FdlOracleSound3 FdlOracleSound4 FdlOracleSound5 FdlOracleSound6
                       FdlOracleSound7 FdlOracleSound8 FdlOracleSound9 FdlOracleSound10 FdlOracleSound11 FdlOracleSoundAll.

(* ------------------------------------------------------------------------------------------ *)
(* the GAP of a station whose NS may lie at or above HSA: for addresses below HSA it is the GAP up to
   "NS = 0" (everything above TS)                                                               *)

Definition ens (H n : Z) : Z := if H <=? n then 0 else n.

Lemma ens_range H n : 0 < H -> 0 <= n -> 0 <= ens H n < H.
Proof. unfold ens. intros. destruct (Z.leb_spec H n); lia. Qed.

Lemma in_gapb_ens t n H x : 0 <= t < H -> 0 <= x < H -> in_gapb t n x = in_gapb t (ens H n) x.
Proof.
  unfold ens, in_gapb. intros Ht Hx. destruct (Z.leb_spec H n); [|reflexivity].
  destruct (Z.ltb_spec t n); [|lia]. destruct (Z.ltb_spec t 0); [lia|].
  destruct (Z.ltb_spec t x); destruct (Z.ltb_spec x n); destruct (Z.ltb_spec x 0); try lia; reflexivity.
Qed.

Lemma gnext_ens t n H c : 0 <= t < H -> 0 <= c < H -> gnext t n H c = gnext t (ens H n) H c.
Proof. intros Ht Hc. unfold gnext. rewrite (in_gapb_ens t n H (nxt H c) Ht (nxt_range H c Hc)). reflexivity. Qed.

Lemma gstep_ens t n H gw g : 0 <= t < H -> gap_wf H gw g -> gstep t n H gw g = gstep t (ens H n) H gw g.
Proof.
  intros Ht Hw. unfold gstep. destruct g as [rc|c]; cbn in Hw.
  - destruct (gw <? rc); [apply gnext_ens; assumption|reflexivity].
  - apply gnext_ens; assumption.
Qed.

(* the parameters of the sweep of a station *)
Definition sH (f : fdl) : Z := p_hsa (f_p f).
Definition sN (f : fdl) : Z := ens (sH f) (r_ns (f_ring f)).
Definition sG (f : fdl) : Z := p_gap_wait (f_p f).
Definition sB (f : fdl) : Z := gap_size (ts f) (sN f) (sH f) + sG f + 2.
Definition vu (f : fdl) (a : Z) : Z := visits_until (ts f) (sN f) (sH f) (sG f) a (f_gap f).
Definition gst (f : fdl) (g : gap_state) : gap_state := gstep (ts f) (sN f) (sH f) (sG f) g.

Definition sweep_ok (f : fdl) : Prop :=
  0 <= ts f < sH f /\ sH f <= 126 /\ 0 <= r_ns (f_ring f) /\ 0 <= sG f <= 254 /\ gap_wf (sH f) (sG f) (f_gap f).

Lemma Rep_sweep_ok n f : Rep n f -> sweep_ok f.
Proof.
  intros R. pose proof (Rep_ts _ _ R) as Hts. pose proof (bv_ranges _ (rep_p _ _ R)) as Hb.
  pose proof (ring_ok_ns _ _ (rep_ring _ _ R) ltac:(lia)) as Hns. pose proof (rep_gap _ _ R) as Hg.
  unfold sweep_ok, sH, sG. split; [lia|]. split; [lia|]. split; [lia|]. split; [lia|].
  unfold gap_ok in Hg. destruct (f_gap f); cbn; lia.
Qed.

Lemma in_gap_sN f x : sweep_ok f -> 0 <= x < sH f -> (in_gap (ts f) (r_ns (f_ring f)) x <-> in_gap (ts f) (sN f) x).
Proof.
  intros (Ht & _) Hx. rewrite <- !in_gapb_spec. unfold sN. rewrite (in_gapb_ens _ (r_ns (f_ring f)) (sH f) x Ht Hx). tauto.
Qed.

Lemma gap_visit_step_gst f : sweep_ok f -> gap_visit_step f = Ok (gst f (f_gap f)).
Proof.
  intros (Ht & Hh & Hn & Hgw & Hw). unfold gst, sN. rewrite <- (gstep_ens _ (r_ns (f_ring f)) _ _ _ Ht Hw).
  unfold sH, sG in *.
  assert (Hnx : forall c, 0 <= c < p_hsa (f_p f) ->
    next_gap_poll f c = Ok (gnext (ts f) (r_ns (f_ring f)) (p_hsa (f_p f)) c)).
  { intros c Hc. unfold next_gap_poll, gnext, nxt, u8_sub, u8_add.
    destruct (Z.leb_spec 0 (p_hsa (f_p f) - 1)); [|lia]. cbn [bind].
    destruct (Z.eqb_spec c (p_hsa (f_p f) - 1)); cbn [bind].
    - destruct (in_gapb _ _ 0); reflexivity.
    - destruct (Z.leb_spec (c + 1) 255); [|lia]. cbn [bind]. destruct (in_gapb _ _ (c + 1)); reflexivity. }
  unfold gap_visit_step, gstep. destruct (f_gap f) as [rc|c]; cbn in Hw.
  - destruct (Z.ltb_spec (p_gap_wait (f_p f)) rc); [apply Hnx; exact Ht|].
    unfold u8_add. destruct (Z.leb_spec (rc + 1) 255); [reflexivity|lia].
  - apply Hnx. exact Hw.
Qed.

(* the countdown, in the vocabulary of the station *)
Lemma vu_step f a : sweep_ok f -> 0 <= a < sH f -> in_gap (ts f) (r_ns (f_ring f)) a ->
  1 <= vu f a <= sB f /\
  (vu f a = 1 -> gst f (f_gap f) = GapDoPoll a) /\
  (1 < vu f a -> visits_until (ts f) (sN f) (sH f) (sG f) a (gst f (f_gap f)) = vu f a - 1).
Proof.
  intros Hok Ha Hin. pose proof Hok as (Ht & Hh & Hn & Hgw & Hw).
  apply (in_gap_sN f a Hok Ha) in Hin.
  assert (H0 : 0 < sH f) by lia.
  exact (visits_until_step _ _ _ _ _ _ Ht (ens_range (sH f) (r_ns (f_ring f)) H0 Hn) (proj1 Hgw) Ha Hin Hw).
Qed.

(* a GAP step that does not produce DoPoll a brings the poll of a one visit nearer *)
Lemma vu_dec f f' a : sweep_ok f -> 0 <= a < sH f -> in_gap (ts f) (r_ns (f_ring f)) a ->
  f_p f' = f_p f -> r_ns (f_ring f') = r_ns (f_ring f) -> f_gap f' = gst f (f_gap f) -> f_gap f' <> GapDoPoll a ->
  vu f' a = vu f a - 1.
Proof.
  intros Hok Ha Hin Hp Hns Hg Hne. destruct (vu_step f a Hok Ha Hin) as (Hr & H1 & H2).
  assert (Hgt : 1 < vu f a).
  { destruct (Z.eq_dec (vu f a) 1) as [E|E]; [|lia]. exfalso. apply Hne. rewrite Hg. exact (H1 E). }
  unfold vu at 1. unfold sN, sH, sG, ts. rewrite Hp, Hns, Hg. exact (H2 Hgt).
Qed.

Lemma vu_upper f a : sweep_ok f -> 0 <= a < sH f -> in_gap (ts f) (r_ns (f_ring f)) a -> 1 <= vu f a <= sB f.
Proof. intros Hok Ha Hin. exact (proj1 (vu_step f a Hok Ha Hin)). Qed.

(* same parameters, NS and GAP state: same count *)
Lemma vu_same f f' a : f_p f' = f_p f -> r_ns (f_ring f') = r_ns (f_ring f) -> f_gap f' = f_gap f -> vu f' a = vu f a.
Proof. intros Hp Hns Hg. unfold vu, sN, sH, sG, ts. rewrite Hp, Hns, Hg. reflexivity. Qed.
Lemma sB_same f f' : f_p f' = f_p f -> r_ns (f_ring f') = r_ns (f_ring f) -> sB f' = sB f.
Proof. intros Hp Hns. unfold sB, sN, sH, sG, ts. rewrite Hp, Hns. reflexivity. Qed.

(* ------------------------------------------------------------------------------------------ *)
(* the monitor's list of GAP addresses                                                          *)

Lemma in_gap_addrs p ns a : In a (gap_addrs p ns) <-> 0 <= a < 126 /\ in_gapb (p_address p) ns a = true /\ a < p_hsa p.
Proof.
  unfold gap_addrs. rewrite filter_In, in_map_iff. split.
  - intros ((k & <- & Hk) & Hb). apply in_seq in Hk. apply andb_true_iff in Hb. destruct Hb as (H1 & H2). apply Z.ltb_lt in H2.
    unfold addr_count in Hk. split; [lia|]. split; assumption.
  - intros (Ha & H1 & H2). split.
    + exists (Z.to_nat a). split; [lia|]. apply in_seq. unfold addr_count. lia.
    + apply andb_true_iff. split; [exact H1|apply Z.ltb_lt; exact H2].
Qed.

Definition addr_at (t H k : Z) : Z := if t + k <? H then t + k else t + k - H.

Lemma addr_at_spec t H k : 0 <= t < H -> 1 <= k < H -> 0 <= addr_at t H k < H /\ off t H (addr_at t H k) = k.
Proof.
  intros Ht Hk. unfold addr_at, off. destruct (Z.ltb_spec (t + k) H).
  - split; [lia|]. destruct (Z.leb_spec t (t + k)); lia.
  - split; [lia|]. destruct (Z.leb_spec t (t + k - H)); lia.
Qed.

Lemma gap_addrs_length p ns : builder_valid p -> 0 <= ns ->
  gap_size (p_address p) (ens (p_hsa p) ns) (p_hsa p) <= Z.of_nat (length (gap_addrs p ns)).
Proof.
  intros Hbv Hns. pose proof (bv_ranges _ Hbv) as Hb.
  set (t := p_address p). set (H := p_hsa p). set (n := ens H ns).
  assert (Ht : 0 <= t < H) by (unfold t, H; lia).
  assert (Hn : 0 <= n < H) by (apply ens_range; unfold H; lia).
  pose proof (gap_size_range t n H Ht Hn) as Hgs.
  set (ks := map Z.of_nat (seq 1 (Z.to_nat (gap_size t n H)))).
  assert (Hks : forall k, In k ks <-> 1 <= k <= gap_size t n H).
  { intros k. unfold ks. rewrite in_map_iff. split.
    - intros (j & <- & Hj). apply in_seq in Hj. lia.
    - intros Hk. exists (Z.to_nat k). split; [lia|]. apply in_seq. lia. }
  assert (Hnd : NoDup (map (addr_at t H) ks)).
  { apply (NoDup_map_inv (off t H)). rewrite map_map.
    rewrite (map_ext_in _ (fun k => k)); [rewrite map_id; unfold ks; apply FinFun.Injective_map_NoDup; [intros x y E; lia|apply seq_NoDup]|].
    intros k Hk. apply Hks in Hk. apply (addr_at_spec t H k Ht). lia. }
  assert (Hincl : incl (map (addr_at t H) ks) (gap_addrs p ns)).
  { intros x Hx. apply in_map_iff in Hx. destruct Hx as (k & <- & Hk). apply Hks in Hk.
    destruct (addr_at_spec t H k Ht ltac:(lia)) as (Hr & Ho).
    apply in_gap_addrs. fold t H. split; [unfold H in *; lia|]. split; [|lia].
    rewrite (in_gapb_ens t ns H _ Ht Hr). fold n. apply in_gapb_spec. apply (gap_offsets t n H _ Ht Hn Hr). lia. }
  pose proof (NoDup_incl_length Hnd Hincl) as Hlen. rewrite map_length in Hlen. unfold ks in Hlen. rewrite map_length, seq_length in Hlen. lia.
Qed.

(* ------------------------------------------------------------------------------------------ *)
(* small list facts for the monitor's per-address marks                                          *)

Lemma set_nth_nat_length l i v : length (set_nth_nat l i v) = length l.
Proof. revert i. induction l as [|x l IH]; intros i; [reflexivity|]. destruct i; cbn; [reflexivity|]. rewrite IH. reflexivity. Qed.

Lemma nth_set_nth_nat l i v j : nth j (set_nth_nat l i v) 0%nat = if Nat.eqb j i && Nat.ltb i (length l) then v else nth j l 0%nat.
Proof.
  revert i j. induction l as [|x l IH]; intros i j.
  - cbn. rewrite andb_false_r. destruct j; reflexivity.
  - destruct i as [|i]; destruct j as [|j]; cbn [set_nth_nat nth Nat.eqb length]; try reflexivity.
    rewrite IH. change (Nat.ltb (S i) (S (length l))) with (Nat.ltb i (length l)). reflexivity.
Qed.

Lemma nth_repeat_lt {X} (v d : X) k i : (i < k)%nat -> nth i (repeat v k) d = v.
Proof. revert i. induction k as [|k IH]; intros i Hi; [lia|]. destruct i; cbn; [reflexivity|]. apply IH. lia. Qed.

Lemma nth_repeat_le (v : nat) k i : (nth i (repeat v k) 0 <= v)%nat.
Proof. destruct (Nat.lt_ge_cases i k); [rewrite nth_repeat_lt by assumption; lia|rewrite nth_overflow by (rewrite repeat_length; assumption); lia]. Qed.

Lemma forall_no_send_app_sent calls : Forall no_send calls -> app_sent calls = false.
Proof.
  intros Hf. unfold app_sent. induction calls as [|c l IH]; [reflexivity|]. inversion Hf as [|? ? H1 H2]; subst. cbn [existsb]. rewrite (IH H2).
  destruct c as [i hp [r|]|i a t|i a]; try reflexivity. contradiction.
Qed.

(* builder-valid parameters: the slot time is not shorter than the synchronisation pause *)
Lemma bv_not_short_slot f : builder_valid (f_p f) -> ~ short_slot f.
Proof.
  intros Hbv. unfold short_slot, slot_time, p_bits_to_time.
  assert (Hs : sync_pause_bits <= p_slot_bits (f_p f)).
  { destruct Hbv as (_ & (Hmin & _) & _). change sync_pause_bits with 33. destruct (p_baud (f_p f)); cbn in Hmin; lia. }
  pose proof (bits_to_time_mono (p_baud (f_p f)) _ _ Hs). lia.
Qed.

Lemma y_in_list_spec a l : y_in_list a l = true <-> In a l.
Proof.
  unfold y_in_list. rewrite existsb_exists. split.
  - intros (x & Hx & E). apply Z.eqb_eq in E. subst x. exact Hx.
  - intros H. exists a. split; [exact H|apply Z.eqb_refl].
Qed.

Section Sweep.
Variable A : Type.
Variable ops : app_ops A.
Variable p : params.
Variable n : nat.
Hypothesis Happs : apps_total A ops.
Hypothesis Hbv : builder_valid p.
Hypothesis Hdata : app_sends_data A ops.

Definition lastv (g : mon2) (a : Z) : nat := nth (Z.to_nat a) (g_last g) 0%nat.

(* the simulation: for every GAP address, the visits counted since its last poll plus the visits the model still
   needs to poll it stay within the bound (one more while the GAP step of the current visit is still due) *)
Record SW (f : fdl) (g : mon2) : Prop := mkSW {
  sw_len : length (g_last g) = addr_count;
  sw_le : forall i, (nth i (g_last g) 0 <= g_visit g)%nat;
  sw_off : f_state f = Offline -> forall i, (i < addr_count)%nat -> nth i (g_last g) 0%nat = g_visit g;
  sw_main : forall a, 0 <= a < sH f -> in_gap (ts f) (r_ns (f_ring f)) a ->
            Z.of_nat (g_visit g - lastv g a) + vu f a <= sB f + pend (f_state f)
}.

(* ---- what the second monitor reads from the transmission of a poll ---- *)
Section Decode.
Variables (f f' : fdl) (now : Z) (busy : bool) (rxb : bytes) (o : phy_out) (calls : list call).
Hypothesis Hp : f_p f = p.
Let s := poll_event now busy rxb f' o calls.

Lemma L_poll a : tx o = Some (sr_wire a (ts f)) -> Forall no_send calls -> 0 <= a < 128 -> 0 <= ts f < 128 ->
  y_gap_poll p s = Some a /\ y_token_tx p s = None.
Proof.
  intros Htx Hns Ha Hts.
  assert (Hwf : wf_header (status_request_header a (ts f))) by (unfold wf_header, is_addr7; cbn; lia).
  assert (Hd : y_txt s = Some (TData (status_request_header a (ts f)) [])).
  { rewrite (y_txt_tx _ (sr_wire a (ts f))) by (cbn; exact Htx). unfold sr_wire. apply (decode_one_data _ [] Hwf). cbn. lia. }
  split.
  - unfold y_gap_poll. rewrite Hd. cbn [s poll_event s_calls status_request_header h_fc h_sa h_da is_fdl_status_request].
    rewrite app_sent_conv, (forall_no_send_app_sent _ Hns). unfold y_ts, ts. rewrite Hp, Z.eqb_refl. reflexivity.
  - unfold y_token_tx. rewrite Hd. reflexivity.
Qed.

Lemma L_tok da : tx o = Some (encode_token da (ts f)) -> y_token_tx p s = Some da /\ y_gap_poll p s = None.
Proof.
  intros Htx. assert (Hts : ts f = p_address p) by (unfold ts; rewrite Hp; reflexivity). rewrite Hts in Htx.
  split; [apply y_token_of_wire; exact Htx|].
  unfold y_gap_poll. rewrite (y_txt_tx _ (encode_token da (p_address p))) by (cbn; exact Htx). rewrite decode_one_token. reflexivity.
Qed.
End Decode.

Lemma kind_in_visit k : kind_in k [KPassToken; KAwaitStatusResponse; KUseToken; KAwaitDataResponse] = true <->
  (k = KPassToken \/ k = KAwaitStatusResponse \/ k = KUseToken \/ k = KAwaitDataResponse).
Proof. destruct k; cbn; split; intros H; try discriminate H; try tauto; repeat (destruct H as [H|H]; try discriminate H); discriminate H. Qed.

Lemma visit_state_kind s : visit_state s <-> kind_in (kind_of s) [KPassToken; KAwaitStatusResponse; KUseToken; KAwaitDataResponse] = true.
Proof. rewrite kind_in_visit. unfold visit_state, in_use. tauto. Qed.

(* ---- one poll ---- *)
Lemma sw_poll f apps buf tl m g now busy nb f' o apps' calls :
  Base A p n f apps buf tl m -> SW f g -> length apps = n ->
  poll ops f now (mkPhyIn busy (buf ++ nb)) apps = Ok (f', o, apps', calls) ->
  Rep (length apps') f' -> f_p f' = p ->
  let s := poll_event now busy (buf ++ nb) f' o calls in
  y_e_sweep p m g s = [] /\ SW f' (y_g' p n m g s).
Proof.
  intros HB HS Hlen E R' Hp' s.
  pose proof (b_rep _ _ _ _ _ _ _ _ HB) as R. pose proof (b_p _ _ _ _ _ _ _ _ HB) as Hp. pose proof (b_view _ _ _ _ _ _ _ _ HB) as Hv.
  pose proof (Rep_sweep_ok _ _ R) as Hok. pose proof (Rep_sweep_ok _ _ R') as Hok'.
  assert (Hpp : f_p f' = f_p f) by congruence.
  assert (Hk0 : y_k0 m = kind_of (f_state f)) by (unfold y_k0, y_pre; rewrite Hv; reflexivity).
  assert (Hk1 : y_k1 s = kind_of (f_state f')) by reflexivity.
  assert (Hn0 : v_ns (y_pre m) = r_ns (f_ring f)) by (unfold y_pre; rewrite Hv; reflexivity).
  assert (Hn1 : v_ns (y_post s) = r_ns (f_ring f')) by reflexivity.
  assert (Hts : ts f = p_address p) by (unfold ts; rewrite Hp; reflexivity).
  assert (Hts' : ts f' = ts f) by (unfold ts; rewrite Hpp; reflexivity).
  pose proof (Rep_ts _ _ R) as Htsr.
  pose proof (poll_sweep_rel A ops _ _ _ _ _ _ _ _ E) as Hsw.
  pose proof (poll_txflags A ops p Hdata _ _ _ _ _ _ _ _ _ R Hp E) as Htf. fold s in Htf.
  destruct HS as [SL SLe SOff SMain].
  (* a visit token always leaves the station in a state from which the next visit starts with a GAP step *)
  assert (Hvt : y_visit_tx p m s = true -> pend (f_state f') = 1 /\ f_state f' <> Offline).
  { unfold y_visit_tx. destruct (y_token_tx p s) as [da|] eqn:Et; [|discriminate]. intros Hk. rewrite Hk0 in Hk.
    apply y_token_x in Et. destruct (tf_token _ _ _ _ _ _ Htf _ _ Et) as (_ & (da' & Hw & Hcl) & _).
    destruct Hcl as [(_ & [(S1 & Hpre)|(S1 & Hpre)])|([S1|(att & S1)] & _)].
    - exfalso. apply kind_in_visit in Hk. destruct Hpre as [[K|[K|K]]|K]; try (rewrite K in Hk; cbn in Hk; intuition discriminate).
      destruct (f_state f); cbn in K; try discriminate K; cbn in Hk; intuition discriminate.
    - exfalso. apply kind_in_visit in Hk. rewrite Hpre in Hk. cbn in Hk. intuition discriminate.
    - rewrite S1. split; [reflexivity|discriminate].
    - rewrite S1. split; [reflexivity|discriminate]. }
  assert (HS' : SW f' (y_g' p n m g s)).
  { unfold y_g'. destruct (y_restart p m s) eqn:Er.
    - (* the window restarts: every mark is the current count *)
      constructor; cbn [g_last g_visit].
      + unfold y_last2. rewrite Er. apply repeat_length.
      + intros i. unfold y_last2. rewrite Er. unfold y_visit. pose proof (nth_repeat_le (g_visit g) addr_count i). destruct (y_visit_tx p m s); lia.
      + intros Hoff i Hi. unfold y_last2. rewrite Er. rewrite nth_repeat_lt by exact Hi. unfold y_visit.
        destruct (y_visit_tx p m s) eqn:Evt; [|reflexivity]. destruct (Hvt eq_refl) as (_ & C). contradiction.
      + intros a Ha Hin. unfold lastv. cbn [g_last]. unfold y_last2. rewrite Er.
        assert (Hi : (Z.to_nat a < addr_count)%nat) by (destruct Hok' as (_ & Hh & _); unfold addr_count; lia).
        rewrite nth_repeat_lt by exact Hi. pose proof (vu_upper f' a Hok' Ha Hin) as Hu. pose proof (pend_range (f_state f')) as Hpr.
        unfold y_visit. destruct (y_visit_tx p m s) eqn:Evt.
        * destruct (Hvt eq_refl) as (Hp1 & _). rewrite Hp1. lia.
        * lia.
    - (* no restart: same NS, no claim token, not back to listening / offline *)
      unfold y_restart in Er. apply orb_false_iff in Er. destruct Er as (Er & Er3). apply orb_false_iff in Er. destruct Er as (Er1 & Er2).
      apply negb_false_iff, Z.eqb_eq in Er1. rewrite Hn0, Hn1 in Er1.
      rewrite Hk1 in Er3.
      assert (HB' : sB f' = sB f) by (apply sB_same; assumption).
      assert (HH' : sH f' = sH f) by (unfold sH; rewrite Hpp; reflexivity).
      (* the four things a poll can do to the sweep *)
      destruct Hsw as [Hres|[(a & Htx & (l & Hl & Hnsd) & Hstep & Hg' & Hp0 & Hring & _)|[(da & Htx & (l & Hl & Hnsd) & Hvs & Hp1 & Hgs)|(Hq & Hrel)]]].
      + (* reset: only "the station was offline" is compatible with no restart *)
        assert (Hoff : f_state f = Offline).
        { destruct Hres as [K|[K|[K|[K|[(Htx & Hkk & _)|K]]]]].
          - destruct (f_state f); try discriminate K. reflexivity.
          - exfalso. pose proof (rep_st _ _ R) as St. destruct (f_state f); try discriminate K. exact St.
          - exfalso. rewrite K in Er3. discriminate Er3.
          - exfalso. rewrite K in Er3. discriminate Er3.
          - exfalso. destruct (L_tok f f' now busy (buf ++ nb) o calls Hp _ Htx) as (Ht & _). fold s in Ht.
            unfold y_claim_tx in Er2. rewrite Ht, Hk0 in Er2. unfold y_ts in Er2. rewrite <- Hts, Z.eqb_refl in Er2.
            destruct Hkk as [K|[K|K]]; rewrite K in Er2; discriminate Er2.
          - exfalso. apply (bv_not_short_slot f); [rewrite Hp; exact Hbv|exact K]. }
        assert (Hnv : y_visit_tx p m s = false).
        { unfold y_visit_tx. destruct (y_token_tx p s); [|reflexivity]. rewrite Hk0, Hoff. reflexivity. }
        assert (Hall : forall i, (i < addr_count)%nat -> nth i (y_last2 p m g s) 0%nat = g_visit g).
        { intros i Hi. unfold y_last2. replace (y_restart p m s) with false
            by (symmetry; unfold y_restart; rewrite Hn0, Hn1, Er1, Z.eqb_refl, Er2, Hk1, Er3; reflexivity).
          unfold y_last1. destruct (y_gap_poll p s) as [da|]; [|exact (SOff Hoff i Hi)].
          destruct ((0 <=? da) && (da <? 126)); [|exact (SOff Hoff i Hi)].
          rewrite nth_set_nth_nat. destruct (Nat.eqb i (Z.to_nat da) && Nat.ltb (Z.to_nat da) (length (g_last g))); [reflexivity|exact (SOff Hoff i Hi)]. }
        constructor; cbn [g_last g_visit]; unfold lastv; cbn [g_last]; unfold y_visit; rewrite ?Hnv.
        * unfold y_last2. destruct (y_restart p m s); [apply repeat_length|]. unfold y_last1.
          destruct (y_gap_poll p s) as [da|]; [|exact SL]. destruct ((0 <=? da) && (da <? 126)); [rewrite set_nth_nat_length|]; exact SL.
        * intros i. destruct (Nat.lt_ge_cases i addr_count) as [Hi|Hi]; [rewrite (Hall i Hi); lia|].
          rewrite nth_overflow; [lia|].
          unfold y_last2. destruct (y_restart p m s); [rewrite repeat_length; exact Hi|]. unfold y_last1.
          destruct (y_gap_poll p s) as [da|]; [|rewrite SL; exact Hi]. destruct ((0 <=? da) && (da <? 126)); [rewrite set_nth_nat_length|]; rewrite SL; exact Hi.
        * intros _ i Hi. exact (Hall i Hi).
        * intros a Ha Hin. unfold lastv. cbn [g_last].
          assert (Hi : (Z.to_nat a < addr_count)%nat) by (destruct Hok' as (_ & Hh & _); unfold addr_count; lia).
          rewrite (Hall _ Hi). pose proof (vu_upper f' a Hok' Ha Hin). pose proof (pend_range (f_state f')). lia.
      + (* a GAP request *)
        cbn in Hl. subst l.
        destruct (gap_visit_step_in_gap f a Hstep) as (Hina & Hrng).
        assert (Hco : gap_cursor_ok f).
        { split; [lia|]. intros c Ec. pose proof (rep_gap _ _ R) as G. rewrite Ec in G. exact G. }
        specialize (Hrng Hco).
        destruct (L_poll f f' now busy (buf ++ nb) o calls Hp a Htx Hnsd ltac:(lia) ltac:(lia)) as (Hgp & Htk). fold s in Hgp, Htk.
        assert (Hnv : y_visit_tx p m s = false) by (unfold y_visit_tx; rewrite Htk; reflexivity).
        assert (Hgst : f_gap f' = gst f (f_gap f)).
        { rewrite (gap_visit_step_gst f Hok) in Hstep. injection Hstep as Hstep. rewrite Hg'. symmetry. exact Hstep. }
        assert (Hidx : (0 <=? a) && (a <? 126) = true) by (apply andb_true_iff; split; [apply Z.leb_le|apply Z.ltb_lt]; lia).
        assert (HL2 : y_last2 p m g s = set_nth_nat (g_last g) (Z.to_nat a) (g_visit g)).
        { unfold y_last2. replace (y_restart p m s) with false
            by (symmetry; unfold y_restart; rewrite Hn0, Hn1, Er1, Z.eqb_refl, Er2, Hk1, Er3; reflexivity).
          unfold y_last1. rewrite Hgp, Hidx. reflexivity. }
        constructor; cbn [g_last g_visit]; unfold lastv; cbn [g_last]; unfold y_visit; rewrite ?Hnv, ?HL2.
        * rewrite set_nth_nat_length. exact SL.
        * intros i. rewrite nth_set_nth_nat. destruct (Nat.eqb i (Z.to_nat a) && Nat.ltb (Z.to_nat a) (length (g_last g))); [apply Nat.le_refl|apply SLe].
        * intros Hoff. rewrite Hoff in Hp0. discriminate Hp0.
        * intros a' Ha' Hin'. rewrite nth_set_nth_nat.
          rewrite HH' in Ha'. rewrite Hts', Er1 in Hin'. rewrite HB', Hp0.
          destruct (Z.eq_dec a' a) as [->|Hne].
          -- rewrite Nat.eqb_refl. replace (Nat.ltb (Z.to_nat a) (length (g_last g))) with true
               by (symmetry; apply Nat.ltb_lt; rewrite SL; unfold addr_count; lia).
             cbn [andb]. rewrite Nat.sub_diag. cbn [Z.of_nat].
             assert (Hin2 : in_gap (ts f') (r_ns (f_ring f')) a) by (rewrite Hts', Er1; exact Hin').
             pose proof (vu_upper f' a Hok' ltac:(rewrite HH'; lia) Hin2). lia.
          -- replace (Nat.eqb (Z.to_nat a') (Z.to_nat a)) with false by (symmetry; apply Nat.eqb_neq; lia). cbn [andb].
             assert (Hdec : vu f' a' = vu f a' - 1).
             { apply (vu_dec f f' a' Hok Ha' Hin' Hpp Er1 Hgst). rewrite Hg'. intros C. injection C as C. lia. }
             pose proof (SMain a' Ha' Hin') as Hm. unfold lastv in Hm. pose proof (pend_range (f_state f)). lia.
      + (* the token of a visit *)
        cbn in Hl. subst l.
        destruct (L_tok f f' now busy (buf ++ nb) o calls Hp da Htx) as (Htk & Hgp). fold s in Htk, Hgp.
        assert (Hyv : y_visit_tx p m s = true).
        { unfold y_visit_tx. rewrite Htk, Hk0. apply visit_state_kind. exact Hvs. }
        assert (HL2 : y_last2 p m g s = g_last g).
        { unfold y_last2. replace (y_restart p m s) with false
            by (symmetry; unfold y_restart; rewrite Hn0, Hn1, Er1, Z.eqb_refl, Er2, Hk1, Er3; reflexivity).
          unfold y_last1. rewrite Hgp. reflexivity. }
        constructor; cbn [g_last g_visit]; unfold lastv; cbn [g_last]; unfold y_visit; rewrite ?Hyv, ?HL2.
        * exact SL.
        * intros i. pose proof (SLe i). lia.
        * intros Hoff. destruct (Hvt Hyv) as (_ & C). contradiction.
        * intros a' Ha' Hin'.
          rewrite HH' in Ha'. rewrite Hts', Er1 in Hin'. rewrite HB', Hp1.
          pose proof (SMain a' Ha' Hin') as Hm. unfold lastv in Hm. pose proof (SLe (Z.to_nat a')) as Hle.
          replace (Z.of_nat (S (g_visit g) - nth (Z.to_nat a') (g_last g) 0%nat)) with (Z.of_nat (g_visit g - nth (Z.to_nat a') (g_last g) 0%nat) + 1) by lia.
          destruct Hgs as [(Hpf & Hstep & (k & Hw))|(Hpf & Hgsame)].
          -- assert (Hgst : f_gap f' = gst f (f_gap f)).
             { rewrite (gap_visit_step_gst f Hok) in Hstep. injection Hstep as Hstep. symmetry. exact Hstep. }
             assert (Hdec : vu f' a' = vu f a' - 1).
             { apply (vu_dec f f' a' Hok Ha' Hin' Hpp Er1 Hgst). rewrite Hw. discriminate. }
             lia.
          -- rewrite (vu_same f f' a' Hpp Er1 Hgsame). lia.
      + (* neither *)
        assert (Hnone : y_gap_poll p s = None /\ y_visit_tx p m s = false).
        { destruct Hq as [Htx|[(wire & cs & i & hp & er & Htx & Hcs)|[(src & st & Htx & Hkk)|(da & Htx & Hkk)]]].
          - destruct (y_tx_none p now busy (buf ++ nb) f' o calls Htx) as (H1 & H2). fold s in H1, H2.
            split; [exact H2|]. unfold y_visit_tx. rewrite H1. reflexivity.
          - destruct (app_wire_is_data A ops Hdata _ _ _ _ _ _ _ _ _ _ _ _ _ E Hcs) as (h & pdu & Hd).
            split.
            + unfold y_gap_poll. rewrite (y_txt_tx _ wire) by (cbn; exact Htx). rewrite Hd.
              cbn [s poll_event s_calls]. rewrite app_sent_conv, Hcs, app_sent_last. cbn [negb]. rewrite andb_false_r. reflexivity.
            + unfold y_visit_tx, y_token_tx. rewrite (y_txt_tx _ wire) by (cbn; exact Htx). rewrite Hd. reflexivity.
          - split.
            + destruct (y_gap_poll p s) as [a|] eqn:Eg; [|reflexivity]. exfalso.
              destruct (tf_gap _ _ _ _ _ _ Htf a Eg) as (_ & _ & _ & _ & [(_ & Hor)|(_ & Hor)]).
              * destruct Hor as [(att & S1)|[K|K]]; destruct Hkk as [Q|Q]; try (rewrite S1 in Q; discriminate Q); rewrite K in Q; discriminate Q.
              * destruct Hkk as [Q|Q]; rewrite Hor in Q; discriminate Q.
            + unfold y_visit_tx. destruct (y_token_tx p s); [|reflexivity]. rewrite Hk0. destruct Hkk as [Q|Q]; rewrite Q; reflexivity.
          - split.
            + destruct (y_gap_poll p s) as [a|] eqn:Eg; [|reflexivity]. exfalso.
              destruct (tf_gap _ _ _ _ _ _ Htf a Eg) as (_ & _ & _ & _ & [(_ & Hor)|(_ & Hor)]).
              * destruct Hor as [(att & S1)|[K|K]]; try (rewrite S1 in Hkk; discriminate Hkk); rewrite K in Hkk; discriminate Hkk.
              * rewrite Hor in Hkk. discriminate Hkk.
            + unfold y_visit_tx. destruct (y_token_tx p s); [|reflexivity]. rewrite Hk0, Hkk. reflexivity. }
        destruct Hnone as (Hgp & Hnv).
        assert (HL2 : y_last2 p m g s = g_last g).
        { unfold y_last2. replace (y_restart p m s) with false
            by (symmetry; unfold y_restart; rewrite Hn0, Hn1, Er1, Z.eqb_refl, Er2, Hk1, Er3; reflexivity).
          unfold y_last1. rewrite Hgp. reflexivity. }
        assert (Hnoff : f_state f' <> Offline) by (intros C; rewrite C in Er3; discriminate Er3).
        constructor; cbn [g_last g_visit]; unfold lastv; cbn [g_last]; unfold y_visit; rewrite ?Hnv, ?HL2.
        * exact SL.
        * exact SLe.
        * intros Hoff. contradiction.
        * intros a' Ha' Hin'.
          rewrite HH' in Ha'. rewrite Hts', Er1 in Hin'. rewrite HB'.
          pose proof (SMain a' Ha' Hin') as Hm. unfold lastv in Hm.
          destruct Hrel as [(Hgsame & Hpd)|(Hpf & Hpf' & Hstep & _ & (k & Hw) & _)].
          -- rewrite (vu_same f f' a' Hpp Er1 Hgsame). lia.
          -- assert (Hgst : f_gap f' = gst f (f_gap f)).
             { rewrite (gap_visit_step_gst f Hok) in Hstep. injection Hstep as Hstep. symmetry. exact Hstep. }
             assert (Hdec : vu f' a' = vu f a' - 1).
             { apply (vu_dec f f' a' Hok Ha' Hin' Hpp Er1 Hgst). rewrite Hw. discriminate. }
             lia. }
  split; [|exact HS'].
  (* the rule: a consequence of the invariant after the poll *)
  unfold y_e_sweep. cbv zeta. destruct (y_visit_tx p m s && negb (y_restart p m s)) eqn:Ec; [|reflexivity].
  match goal with |- check ?b _ = [] => replace b with true; [reflexivity|symmetry] end.
  apply forallb_forall. intros a Ha. apply Nat.leb_le.
  apply in_gap_addrs in Ha. destruct Ha as (Ha & Hgb & Hah). rewrite Hn1 in Hgb. rewrite Hn1.
  destruct HS' as [_ _ _ SMain']. unfold lastv, y_g' in SMain'. cbn [g_last g_visit] in SMain'.
  assert (Ha' : 0 <= a < sH f') by (unfold sH; rewrite Hp'; lia).
  assert (Hin' : in_gap (ts f') (r_ns (f_ring f')) a) by (apply in_gapb_spec; rewrite Hts', Hts; exact Hgb).
  pose proof (SMain' a Ha' Hin') as Hm.
  pose proof (vu_upper f' a Hok' Ha' Hin'). pose proof (pend_range (f_state f')).
  destruct Hok' as (_ & _ & Hns' & _).
  pose proof (gap_addrs_length p (r_ns (f_ring f')) Hbv Hns') as Hlen2.
  unfold sB, sN, sH, sG, ts in Hm. rewrite Hp' in Hm. pose proof (bv_ranges _ Hbv). lia.
Qed.

Lemma sw_api a f f' m g : SW f g -> api_result p a f = Ok f' -> Rep n f' ->
  SW f' (snd (mon_after_api a (view_of f') m g)).
Proof.
  intros HS E R'. pose proof (Rep_sweep_ok _ _ R') as Hok'.
  assert (Hnew : SW f' mon2_reset).
  { constructor; cbn [mon2_reset g_last g_visit].
    - apply repeat_length.
    - intros i. pose proof (nth_repeat_le 0%nat addr_count i). lia.
    - intros _ i Hi. apply nth_repeat_lt. exact Hi.
    - intros x Hx Hin. pose proof (vu_upper f' x Hok' Hx Hin). pose proof (pend_range (f_state f')). cbn. lia. }
  destruct a; cbn [api_result mon_after_api snd] in *; try exact Hnew.
  - unfold set_online, set_state in E. injection E as <-. destruct HS as [S1 S2 S3 S4]. constructor; assumption.
  - discriminate E.
Qed.

Lemma sw_init f0 : fdl_new p = Ok f0 -> Rep n f0 -> SW f0 mon2_reset.
Proof.
  intros E R'. pose proof (Rep_sweep_ok _ _ R') as Hok'.
  constructor; cbn [mon2_reset g_last g_visit].
  - apply repeat_length.
  - intros i. pose proof (nth_repeat_le 0%nat addr_count i). lia.
  - intros _ i Hi. apply nth_repeat_lt. exact Hi.
  - intros x Hx Hin. pose proof (vu_upper f0 x Hok' Hx Hin). pose proof (pend_range (f_state f0)). cbn. lia.
Qed.

(* ------------------------------------------------------------------------------------------ *)
(* R12_post_claim_scan_incomplete: the scan list of the monitor lies ahead of the cursor         *)

Record SC (f : fdl) (g : mon2) : Prop := mkSC {
  sc_none : kind_of (f_state f) <> KClaimToken -> g_scan g = None;
  sc_list : forall l, g_scan g = Some l ->
     match f_gap f with
     | GapDoPoll c => forall a, In a l -> 0 <= a < sH f /\ off (ts f) (sH f) c < off (ts f) (sH f) a
     | GapWaiting _ => forall a, In a l -> ~ In a (gap_addrs p (r_ns (f_ring f)))
     end
}.

(* the successor of the cursor: one offset further when it is in the GAP; outside the GAP when the sweep ends *)
Lemma gnext_cases t nn H c : 0 <= t < H -> 0 <= nn < H -> 0 <= c < H ->
  (gnext t nn H c = GapDoPoll (nxt H c) /\ off t H (nxt H c) = off t H c + 1 /\ 1 <= off t H c + 1 <= gap_size t nn H) \/
  (gnext t nn H c = GapWaiting 0 /\ (off t H c = H - 1 \/ gap_size t nn H < off t H c + 1)).
Proof.
  intros Ht Hn Hc. rewrite (gnext_off t nn H c Ht Hn Hc). cbv zeta. pose proof (off_nxt t H c Ht Hc) as Ho.
  pose proof (off_range t H c Ht Hc) as Hr.
  destruct (Z.eqb_spec (off t H c) (H - 1)) as [E|E].
  - cbn. right. split; [reflexivity|left; exact E].
  - destruct (Z.leb_spec 1 (off t H c + 1)); [|lia]. cbn [andb].
    destruct (Z.leb_spec (off t H c + 1) (gap_size t nn H)).
    + left. split; [reflexivity|]. split; [exact Ho|lia].
    + right. split; [reflexivity|right; lia].
Qed.

Lemma in_gap_addrs_off f a : sweep_ok f -> f_p f = p -> In a (gap_addrs p (r_ns (f_ring f))) ->
  0 <= a < sH f /\ 1 <= off (ts f) (sH f) a <= gap_size (ts f) (sN f) (sH f).
Proof.
  intros (Ht & Hh & Hn & _) Hp Ha. apply in_gap_addrs in Ha. destruct Ha as (Ha & Hb & Hah).
  assert (Ha' : 0 <= a < sH f) by (unfold sH; rewrite Hp; lia). split; [exact Ha'|].
  replace (p_address p) with (ts f) in Hb by (unfold ts; rewrite Hp; reflexivity).
  rewrite (in_gapb_ens _ _ (sH f) a Ht Ha') in Hb.
  assert (H0 : 0 < sH f) by lia.
  unfold sN in Hb |- *. rewrite (in_gapb_off _ _ _ _ Ht (ens_range (sH f) (r_ns (f_ring f)) H0 Hn) Ha') in Hb. apply andb_true_iff in Hb. destruct Hb as (H1 & H2).
  apply Z.leb_le in H1. apply Z.leb_le in H2. lia.
Qed.

(* the two claim tokens come first: a poll in ClaimToken::FirstToken / SecondToken stays in ClaimToken *)
Lemma early_claim_poll f now pin (apps : list A) f' o apps' calls :
  poll ops f now pin apps = Ok (f', o, apps', calls) ->
  f_state f = ClaimToken StepFirstToken \/ f_state f = ClaimToken StepSecondToken ->
  kind_of (f_state f') = KClaimToken.
Proof.
  intros H Hst. apply poll_unfold in H. destruct H as (w' & Hi & _).
  assert (Hk : online_entry_kind (kind_of (f_state f)) = false /\ passive_entry_kind (kind_of (f_state f)) = false)
    by (destruct Hst as [S|S]; rewrite S; split; reflexivity).
  apply poll_inner_cases in Hi. destruct Hi as [Hpre|(f3 & w3 & Hpre & _ & Hd)].
  - pose proof (pre_rel_state A _ _ _ _ Hpre (proj1 Hk) (proj2 Hk)) as Hs. rewrite Hs. destruct Hst as [S|S]; rewrite S; reflexivity.
  - pose proof (pre_rel_state A _ _ _ _ Hpre (proj1 Hk) (proj2 Hk)) as Hs.
    unfold dispatch in Hd. rewrite Hs in Hd.
    assert (Hdc : do_claim_token A f3 now w3 = Ok (f', w')) by (destruct Hst as [S|S]; rewrite S in Hd; exact Hd).
    apply do_claim_token_spec in Hdc. destruct Hdc as (st0 & Es & _ & _ & _ & _ & Hcases). rewrite Hs in Es.
    destruct Hst as [S|S]; rewrite S in Es; injection Es as <-;
      destruct Hcases as (_ & [(_ & S1 & _)|(_ & _ & S1 & _)]); rewrite S1; try rewrite Hs, S; reflexivity.
Qed.

(* the monitor reads neither a GAP request nor (outside the idle states and CheckTokenPass) a token from the
   transmissions that are neither *)
Lemma qtx_read f apps now busy rxb f' o apps' calls :
  Rep (length apps) f -> f_p f = p ->
  poll ops f now (mkPhyIn busy rxb) apps = Ok (f', o, apps', calls) -> sw_qtx f calls (tx o) ->
  let s := poll_event now busy rxb f' o calls in
  y_gap_poll p s = None /\
  (y_token_tx p s = None \/ kind_of (f_state f) = KListenToken \/ kind_of (f_state f) = KActiveIdle \/ kind_of (f_state f) = KCheckTokenPass).
Proof.
  intros R Hp E Hq s.
  pose proof (poll_txflags A ops p Hdata _ _ _ _ _ _ _ _ _ R Hp E) as Htf. fold s in Htf.
  destruct Hq as [Htx|[(wire & cs & i & hp & er & Htx & Hcs)|[(src & st & Htx & Hkk)|(da & Htx & Hkk)]]].
  - destruct (y_tx_none p now busy rxb f' o calls Htx) as (H1 & H2). fold s in H1, H2. split; [exact H2|left; exact H1].
  - destruct (app_wire_is_data A ops Hdata _ _ _ _ _ _ _ _ _ _ _ _ _ E Hcs) as (h & pdu & Hd).
    split.
    + unfold y_gap_poll. rewrite (y_txt_tx _ wire) by (cbn; exact Htx). rewrite Hd.
      cbn [s poll_event s_calls]. rewrite app_sent_conv, Hcs, app_sent_last. cbn [negb]. rewrite andb_false_r. reflexivity.
    + left. unfold y_token_tx. rewrite (y_txt_tx _ wire) by (cbn; exact Htx). rewrite Hd. reflexivity.
  - split; [|destruct Hkk as [Q|Q]; [right; left; exact Q|right; right; left; exact Q]].
    destruct (y_gap_poll p s) as [a|] eqn:Eg; [|reflexivity]. exfalso.
    destruct (tf_gap _ _ _ _ _ _ Htf a Eg) as (_ & _ & _ & _ & [(_ & Hor)|(_ & Hor)]).
    + destruct Hor as [(att & S1)|[K|K]]; destruct Hkk as [Q|Q]; try (rewrite S1 in Q; discriminate Q); rewrite K in Q; discriminate Q.
    + destruct Hkk as [Q|Q]; rewrite Hor in Q; discriminate Q.
  - split; [|right; right; right; exact Hkk].
    destruct (y_gap_poll p s) as [a|] eqn:Eg; [|reflexivity]. exfalso.
    destruct (tf_gap _ _ _ _ _ _ Htf a Eg) as (_ & _ & _ & _ & [(_ & Hor)|(_ & Hor)]).
    + destruct Hor as [(att & S1)|[K|K]]; try (rewrite S1 in Hkk; discriminate Hkk); rewrite K in Hkk; discriminate Hkk.
    + rewrite Hor in Hkk. discriminate Hkk.
Qed.

(* the claim token as the monitor reads it: the station is claiming and its GAP cursor is back at TS *)
Lemma claim_tx_model f apps now busy rxb f' o apps' calls m :
  Rep (length apps) f -> f_p f = p -> m_view m = view_of f ->
  poll ops f now (mkPhyIn busy rxb) apps = Ok (f', o, apps', calls) ->
  let s := poll_event now busy rxb f' o calls in
  y_claim_tx p m s = true -> kind_of (f_state f') = KClaimToken /\ f_gap f' = GapDoPoll (ts f).
Proof.
  intros R Hp Hv E s Hc.
  pose proof (poll_txflags A ops p Hdata _ _ _ _ _ _ _ _ _ R Hp E) as Htf. fold s in Htf.
  assert (Hts : ts f = p_address p) by (unfold ts; rewrite Hp; reflexivity).
  unfold y_claim_tx in Hc. destruct (y_token_tx p s) as [da|] eqn:Et; [|discriminate Hc].
  apply andb_true_iff in Hc. destruct Hc as (Hda & Hk). apply Z.eqb_eq in Hda. unfold y_ts in Hda. subst da.
  unfold y_k0, y_pre in Hk. rewrite Hv in Hk. cbn [view_of v_kind] in Hk.
  assert (Hkk : kind_of (f_state f) = KListenToken \/ kind_of (f_state f) = KActiveIdle \/ kind_of (f_state f) = KClaimToken)
    by (destruct (kind_of (f_state f)); try discriminate Hk; tauto).
  apply y_token_x in Et. destruct (tf_token _ _ _ _ _ _ Htf _ _ Et) as (_ & (da' & Hw & Hcl) & Hstx).
  cbn [s poll_event s_tx] in Hstx. rewrite <- Hts in Hstx.
  assert (Hk' : kind_of (f_state f') = KClaimToken).
  { destruct Hcl as [(_ & [(S1 & _)|(S1 & _)])|(_ & Hpre)]; try (rewrite S1; reflexivity).
    exfalso. destruct Hpre as [K|[K|[K|[K|K]]]]; destruct Hkk as [Q|[Q|Q]]; rewrite Q in K; discriminate K. }
  split; [exact Hk'|].
  pose proof (poll_sweep_rel A ops _ _ _ _ _ _ _ _ E) as Hsw. rewrite Hstx in Hsw.
  destruct Hsw as [Hres|[(a & Htx & _)|[(da & Htx & _ & Hvs & _)|(Hq & _)]]].
  - destruct Hres as [K|[K|[K|[K|[(_ & _ & G & _)|K]]]]].
    + exfalso. destruct Hkk as [Q|[Q|Q]]; rewrite Q in K; discriminate K.
    + exfalso. destruct Hkk as [Q|[Q|Q]]; rewrite Q in K; discriminate K.
    + exfalso. rewrite Hk' in K. discriminate K.
    + exfalso. rewrite Hk' in K. discriminate K.
    + exact G.
    + exfalso. apply (bv_not_short_slot f); [rewrite Hp; exact Hbv|exact K].
  - exfalso. unfold sr_wire, encode_token in Htx. cbn in Htx. discriminate Htx.
  - exfalso. destruct Hvs as [K|[K|[K|K]]]; destruct Hkk as [Q|[Q|Q]]; rewrite Q in K; discriminate K.
  - exfalso. destruct Hq as [Htx|[(wire & cs & i & hp & er & Htx & Hcs)|[(src & st & Htx & _)|(da & _ & K)]]].
    + discriminate Htx.
    + injection Htx as <-. destruct (app_wire_is_data A ops Hdata _ _ _ _ _ _ _ _ _ _ _ _ _ E Hcs) as (h & pdu & Hd).
      rewrite decode_one_token in Hd. discriminate Hd.
    + unfold reply_wire, encode_token in Htx. cbn in Htx. discriminate Htx.
    + destruct Hkk as [Q|[Q|Q]]; rewrite Q in K; discriminate K.
Qed.

Lemma sc_poll f apps buf tl m g now busy nb f' o apps' calls :
  Base A p n f apps buf tl m -> SC f g -> length apps = n ->
  poll ops f now (mkPhyIn busy (buf ++ nb)) apps = Ok (f', o, apps', calls) ->
  Rep (length apps') f' -> f_p f' = p ->
  let s := poll_event now busy (buf ++ nb) f' o calls in
  y_e_scan p m g s = [] /\ SC f' (y_g' p n m g s).
Proof.
  intros HB HC Hlen E R' Hp' s.
  pose proof (b_rep _ _ _ _ _ _ _ _ HB) as R. pose proof (b_p _ _ _ _ _ _ _ _ HB) as Hp. pose proof (b_view _ _ _ _ _ _ _ _ HB) as Hv.
  pose proof (Rep_sweep_ok _ _ R) as Hok. pose proof (Rep_sweep_ok _ _ R') as Hok'.
  assert (Hpp : f_p f' = f_p f) by congruence.
  assert (Hk0 : y_k0 m = kind_of (f_state f)) by (unfold y_k0, y_pre; rewrite Hv; reflexivity).
  assert (Hk1 : y_k1 s = kind_of (f_state f')) by reflexivity.
  assert (Hn1 : v_ns (y_post s) = r_ns (f_ring f')) by reflexivity.
  assert (Hts : ts f = p_address p) by (unfold ts; rewrite Hp; reflexivity).
  assert (Hts' : ts f' = ts f) by (unfold ts; rewrite Hpp; reflexivity).
  assert (HH' : sH f' = sH f) by (unfold sH; rewrite Hpp; reflexivity).
  pose proof (Rep_ts _ _ R) as Htsr.
  pose proof (poll_sweep_rel A ops _ _ _ _ _ _ _ _ E) as Hsw.
  pose proof (poll_txflags A ops p Hdata _ _ _ _ _ _ _ _ _ R Hp E) as Htf. fold s in Htf.
  pose proof (claim_tx_model f apps now busy (buf ++ nb) f' o apps' calls m R Hp Hv E) as Hclaim. fold s in Hclaim. cbv zeta in Hclaim.
  destruct HC as [CN CL].
  pose proof Hok as (Ht & Hh & Hnsr & Hgw & Hwf).
  assert (HnN : 0 <= sN f < sH f) by (apply ens_range; lia).
  (* what a poll of a claiming station that keeps claiming (and sends no claim token) does to cursor and scan list *)
  assert (Hstep : kind_of (f_state f) = KClaimToken -> kind_of (f_state f') = KClaimToken -> y_claim_tx p m s = false ->
    (exists a c, y_gap_poll p s = Some a /\ f_gap f = GapDoPoll c /\ f_gap f' = GapDoPoll a /\ gst f (GapDoPoll c) = GapDoPoll a) \/
    (y_gap_poll p s = None /\ f_gap f' = f_gap f) \/
    (y_gap_poll p s = None /\ exists c k, f_gap f = GapDoPoll c /\ f_gap f' = GapWaiting k /\ gst f (GapDoPoll c) = GapWaiting k /\ f_ring f' = f_ring f)).
  { intros Hkc Hkc' Hnc.
    destruct Hsw as [Hres|[(a & Htx & (l0 & Hl0 & Hnsd) & Hst & Hg' & _ & _ & Hcur)|[(da & _ & _ & Hvs & _)|(Hq & Hrel)]]].
    - exfalso. destruct Hres as [K|[K|[K|[K|[(Htx & _)|K]]]]]; try (rewrite Hkc in K; discriminate K); try (rewrite Hkc' in K; discriminate K).
      + destruct (L_tok f f' now busy (buf ++ nb) o calls Hp _ Htx) as (Htk & _). fold s in Htk.
        unfold y_claim_tx in Hnc. rewrite Htk, Hk0, Hkc in Hnc. unfold y_ts in Hnc. rewrite <- Hts, Z.eqb_refl in Hnc. discriminate Hnc.
      + apply (bv_not_short_slot f); [rewrite Hp; exact Hbv|exact K].
    - left. cbn in Hl0. subst l0. destruct (Hcur Hkc) as (c & Ec).
      destruct (gap_visit_step_in_gap f a Hst) as (_ & Hrng).
      assert (Hco : gap_cursor_ok f).
      { split; [lia|]. intros c0 Ec0. pose proof (rep_gap _ _ R) as G. rewrite Ec0 in G. exact G. }
      specialize (Hrng Hco).
      destruct (L_poll f f' now busy (buf ++ nb) o calls Hp a Htx Hnsd ltac:(lia) ltac:(lia)) as (Hgp & _). fold s in Hgp.
      exists a, c. split; [exact Hgp|]. split; [exact Ec|]. split; [exact Hg'|].
      rewrite (gap_visit_step_gst f Hok), Ec in Hst. injection Hst as Hst. exact Hst.
    - exfalso. destruct Hvs as [K|[K|[K|K]]]; rewrite Hkc in K; discriminate K.
    - destruct (qtx_read f apps now busy (buf ++ nb) f' o apps' calls R Hp E Hq) as (Hgp & _). fold s in Hgp.
      destruct Hrel as [(Hgs & _)|(_ & _ & Hst & (c & Ec) & (k & Ew) & Hring)].
      + right. left. split; assumption.
      + right. right. split; [exact Hgp|]. exists c, k. split; [exact Ec|]. split; [exact Ew|]. split; [|exact Hring].
        rewrite (gap_visit_step_gst f Hok), Ec, Ew in Hst. injection Hst as Hst. exact Hst. }
  (* the list stays ahead of the cursor / outside the GAP *)
  assert (Hahead : forall l c a, (forall x, In x l -> 0 <= x < sH f /\ off (ts f) (sH f) c < off (ts f) (sH f) x) -> 0 <= c < sH f ->
     gst f (GapDoPoll c) = GapDoPoll a ->
     forall x, In x (filter (fun y => negb (y =? a)) l) -> 0 <= x < sH f /\ off (ts f) (sH f) a < off (ts f) (sH f) x).
  { intros l c a Hl Hc Hg x Hx. apply filter_In in Hx. destruct Hx as (Hx & Hne). apply negb_true_iff, Z.eqb_neq in Hne.
    destruct (Hl x Hx) as (Hxr & Hox). split; [exact Hxr|].
    unfold gst, gstep in Hg. destruct (gnext_cases (ts f) (sN f) (sH f) c Ht HnN Hc) as [(G1 & G2 & _)|(G1 & _)]; rewrite G1 in Hg; [|discriminate Hg].
    injection Hg as <-. rewrite G2.
    assert (off (ts f) (sH f) x <> off (ts f) (sH f) (nxt (sH f) c)).
    { intros C. apply Hne. apply (off_inj (ts f) (sH f)); try assumption. apply nxt_range. exact Hc. }
    lia. }
  assert (Hend : forall l c k, (forall x, In x l -> 0 <= x < sH f /\ off (ts f) (sH f) c < off (ts f) (sH f) x) -> 0 <= c < sH f ->
     gst f (GapDoPoll c) = GapWaiting k -> forall x, In x l -> ~ In x (gap_addrs p (r_ns (f_ring f)))).
  { intros l c k Hl Hc Hg x Hx Hin. destruct (Hl x Hx) as (Hxr & Hox).
    destruct (in_gap_addrs_off f x Hok Hp Hin) as (_ & Hgx).
    pose proof (off_range (ts f) (sH f) x Ht Hxr).
    unfold gst, gstep in Hg. destruct (gnext_cases (ts f) (sN f) (sH f) c Ht HnN Hc) as [(G1 & _)|(_ & [G2|G2])]; [rewrite G1 in Hg; discriminate Hg|lia|lia]. }
  assert (Hcur : forall c, f_gap f = GapDoPoll c -> 0 <= c < sH f) by (intros c Ec; rewrite Ec in Hwf; exact Hwf).
  assert (HC' : SC f' (y_g' p n m g s)).
  { unfold y_g'. constructor; cbn [g_scan].
    - (* outside the claim phase there is no scan list *)
      intros Hnk'. unfold y_scan. destruct (y_scan_ends m s) eqn:Ese; [reflexivity|].
      unfold y_scan_ends in Ese. rewrite Hk0, Hk1 in Ese.
      assert (Hnk : kind_of (f_state f) <> KClaimToken).
      { intros C. rewrite C in Ese. cbn in Ese. destruct (kind_of (f_state f')); try discriminate Ese. contradiction. }
      destruct (kind_in (y_k1 s) [KClaimToken; KListenToken; KActiveIdle]); [|reflexivity].
      unfold y_scan1. destruct (y_claim_tx p m s) eqn:Ec; [destruct (Hclaim eq_refl) as (C & _); contradiction|].
      rewrite (CN Hnk). reflexivity.
    - intros l' Hl'. unfold y_scan in Hl'. destruct (y_scan_ends m s) eqn:Ese; [discriminate Hl'|].
      destruct (kind_in (y_k1 s) [KClaimToken; KListenToken; KActiveIdle]) eqn:Ek1; [|discriminate Hl'].
      unfold y_scan1 in Hl'. destruct (y_claim_tx p m s) eqn:Ec.
      + (* claim token: the whole GAP, cursor at TS *)
        destruct (Hclaim eq_refl) as (_ & G). rewrite G. injection Hl' as <-.
        intros a Ha. destruct (in_gap_addrs_off f' a Hok' Hp' Ha) as (Hr & Ho). split; [exact Hr|].
        rewrite Hts'. rewrite off_self. rewrite Hts' in Ho. lia.
      + destruct (g_scan g) as [l|] eqn:Eg; [|destruct (y_gap_poll p s); discriminate Hl'].
        assert (Hkc : kind_of (f_state f) = KClaimToken).
        { destruct (state_kind_eqb (kind_of (f_state f)) KClaimToken) eqn:Ek; [destruct (kind_of (f_state f)); try discriminate Ek; reflexivity|].
          exfalso. assert (Hn : kind_of (f_state f) <> KClaimToken) by (intros C; rewrite C in Ek; discriminate Ek).
          pose proof (CN Hn) as C. congruence. }
        assert (Hkc' : kind_of (f_state f') = KClaimToken).
        { unfold y_scan_ends in Ese. rewrite Hk0, Hk1, Hkc in Ese. cbn in Ese. apply negb_false_iff in Ese.
          destruct (kind_of (f_state f')); try discriminate Ese. reflexivity. }
        pose proof (CL l eq_refl) as Hinv.
        destruct (Hstep Hkc Hkc' eq_refl) as [(a & c & Hgp & Ec0 & Eg' & Hgst)|[(Hgp & Hgs)|(Hgp & c & k & Ec0 & Eg' & Hgst & Hring)]].
        * rewrite Hgp in Hl'. injection Hl' as <-. rewrite Eg'. rewrite Ec0 in Hinv.
          rewrite Hts', HH'. exact (Hahead l c a Hinv (Hcur c Ec0) Hgst).
        * rewrite Hgp in Hl'. injection Hl' as <-. rewrite Hgs.
          destruct (f_gap f) as [rc|c] eqn:Egf.
          -- (* GAP state Waiting: the station is not waiting for a reply, its ring view is unchanged *)
             assert (Hns : r_ns (f_ring f') = r_ns (f_ring f)).
             { destruct (f_state f) as [ | | | | |st| | | | ] eqn:Es; try discriminate Hkc.
               destruct (FdlOracleSound7.claim_poll_facts A ops (length apps) _ _ _ _ _ _ _ _ st E Es R) as (_ & Hst).
               destruct st as [ | | |a0]; try (destruct Hst as (X & _); exact X).
               exfalso. pose proof (rep_st _ _ R) as St. rewrite Es in St. cbn in St. destruct St as (St & _). rewrite Egf in St. discriminate St. }
             rewrite Hns. exact Hinv.
          -- rewrite Hts', HH'. exact Hinv.
        * rewrite Hgp in Hl'. injection Hl' as <-. rewrite Eg'. rewrite Ec0 in Hinv. rewrite Hring.
          exact (Hend l c k Hinv (Hcur c Ec0) Hgst). }
  split; [|exact HC'].
  (* the rule *)
  unfold y_e_scan. cbv zeta. destruct (y_scan_ends m s && state_kind_eqb (y_k1 s) KPassToken) eqn:Ec; [|reflexivity].
  apply andb_true_iff in Ec. destruct Ec as (Ese & Ekp).
  unfold y_scan_ends in Ese. rewrite Hk0, Hk1 in Ese. apply andb_true_iff in Ese. destruct Ese as (Ekc & _).
  assert (Hkc : kind_of (f_state f) = KClaimToken) by (destruct (kind_of (f_state f)); try discriminate Ekc; reflexivity).
  assert (Hkp : kind_of (f_state f') = KPassToken) by (rewrite Hk1 in Ekp; destruct (kind_of (f_state f')); try discriminate Ekp; reflexivity).
  destruct (y_scan1 p m g s) as [l'|] eqn:El'; [|reflexivity].
  remember (gap_addrs p (v_ns (y_post s))) as gap eqn:Egap.
  match goal with |- check ?b _ = [] => replace b with true; [reflexivity|symmetry] end.
  apply negb_true_iff. apply not_true_is_false. intros Hex. apply existsb_exists in Hex. destruct Hex as (a & Hal & Ha2).
  apply y_in_list_spec in Ha2. rewrite Egap, Hn1 in Ha2. clear Egap gap.
  (* no claim token, no GAP request in a poll that ends in PassToken *)
  unfold y_scan1 in El'.
  destruct (y_claim_tx p m s) eqn:Ect; [destruct (Hclaim eq_refl) as (C & _); rewrite Hkp in C; discriminate C|].
  destruct (g_scan g) as [l|] eqn:Eg; [|destruct (y_gap_poll p s); discriminate El'].
  pose proof (CL l eq_refl) as Hinv.
  assert (Hgp : y_gap_poll p s = None).
  { destruct (y_gap_poll p s) as [x|] eqn:Egp; [|reflexivity]. exfalso.
    destruct (tf_gap _ _ _ _ _ _ Htf x Egp) as (_ & _ & _ & _ & [(S1 & _)|(S1 & _)]); rewrite S1 in Hkp; discriminate Hkp. }
  rewrite Hgp in El'. injection El' as <-.
  (* the station was scanning, and the scan ends with the GAP state Waiting *)
  destruct Hsw as [Hres|[(x & Htx & (l0 & Hl0 & Hnsd) & Hst & _)|[(da & _ & _ & Hvs & _)|(Hq & Hrel)]]].
  - destruct Hres as [K|[K|[K|[K|[(_ & _ & _ & K)|K]]]]]; try (rewrite Hkc in K; discriminate K); try (rewrite Hkp in K; discriminate K).
    apply (bv_not_short_slot f); [rewrite Hp; exact Hbv|exact K].
  - cbn in Hl0. subst l0. destruct (gap_visit_step_in_gap f x Hst) as (_ & Hrng).
    assert (Hco : gap_cursor_ok f).
    { split; [lia|]. intros c0 Ec0. pose proof (rep_gap _ _ R) as G. rewrite Ec0 in G. exact G. }
    specialize (Hrng Hco).
    destruct (L_poll f f' now busy (buf ++ nb) o calls Hp x Htx Hnsd ltac:(lia) ltac:(lia)) as (Hgp2 & _). fold s in Hgp2.
    rewrite Hgp in Hgp2. discriminate Hgp2.
  - destruct Hvs as [K|[K|[K|K]]]; rewrite Hkc in K; discriminate K.
  - destruct Hrel as [(Hgs & Hpd)|(_ & _ & Hst & (c & Ec0) & (k & Ew) & Hring)].
    + assert (Hp0 : pend (f_state f) = 0).
      { pose proof (pend_range (f_state f)). destruct (f_state f') as [ | | | | | | |[|] att| | ] eqn:Es'; try discriminate Hkp; cbn in Hpd; try lia.
        (* PassToken{do_gap: Yes} is never entered from ClaimToken *)
        exfalso. destruct (f_state f) as [ | | | | |st| | | | ] eqn:Es; try discriminate Hkc.
        destruct (FdlOracleSound7.claim_poll_facts A ops (length apps) _ _ _ _ _ _ _ _ st E Es R) as (_ & Hst).
        destruct st as [ | | |a0].
        - pose proof (early_claim_poll _ _ _ _ _ _ _ _ E (or_introl Es)) as C. rewrite Es' in C. discriminate C.
        - pose proof (early_claim_poll _ _ _ _ _ _ _ _ E (or_intror Es)) as C. rewrite Es' in C. discriminate C.
        - destruct Hst as (_ & _ & [C|[(a1 & C)|[C|C]]]); rewrite Es' in C; discriminate C.
        - destruct Hst as (_ & [C|[(a1 & C)|[C|C]]]); rewrite Es' in C; discriminate C. }
      assert (Hscan : f_state f = ClaimToken StepScan \/ exists a0, f_state f = ClaimToken (StepScanAwaitResponse a0)).
      { destruct (f_state f) as [ | | | | |[ | | |a0]| | | | ]; try discriminate Hkc; try discriminate Hp0; [left; reflexivity|right; exists a0; reflexivity]. }
      destruct (claim_scan_step A ops _ _ _ _ _ _ _ _ E Hscan) as (_ & [(_ & [S1|[S1|[S1|(_ & k & Ew)]]])|(x & (_ & [S1|S1]) & _)]);
        try (rewrite S1 in Hkp; try (destruct Hscan as [Q|(a0 & Q)]; rewrite Q in Hkp); discriminate Hkp).
      rewrite Hgs in Ew. rewrite Ew in Hinv.
      assert (Hns : r_ns (f_ring f') = r_ns (f_ring f)).
      { destruct Hscan as [Es|(a0 & Es)].
        - destruct (FdlOracleSound7.claim_poll_facts A ops (length apps) _ _ _ _ _ _ _ _ _ E Es R) as (_ & X & _). exact X.
        - exfalso. pose proof (rep_st _ _ R) as St. rewrite Es in St. cbn in St. destruct St as (St & _). rewrite Ew in St. discriminate St. }
      rewrite Hns in Ha2. exact (Hinv a Hal Ha2).
    + rewrite Ec0 in Hinv. rewrite Hring in Ha2.
      assert (Hgst : gst f (GapDoPoll c) = GapWaiting k).
      { rewrite (gap_visit_step_gst f Hok), Ec0, Ew in Hst. injection Hst as Hst. exact Hst. }
      exact (Hend l c k Hinv (Hcur c Ec0) Hgst a Hal Ha2).
Qed.

Lemma sc_api a f f' m g : SC f g -> api_result p a f = Ok f' ->
  SC f' (snd (mon_after_api a (view_of f') m g)).
Proof.
  intros [C1 C2] E.
  assert (Hnew : SC f' mon2_reset) by (constructor; cbn [mon2_reset g_scan]; [reflexivity|intros l C; discriminate C]).
  destruct a; cbn [api_result mon_after_api snd] in *; try exact Hnew.
  - unfold set_online, set_state in E. injection E as <-. constructor; assumption.
  - discriminate E.
Qed.

Lemma sc_init f0 : SC f0 mon2_reset.
Proof. constructor; cbn [mon2_reset g_scan]; [reflexivity|intros l C; discriminate C]. Qed.

End Sweep.

(* ------------------------------------------------------------------------------------------ *)
(* the induction over model transcripts: JA of FdlOracleSoundAll.v plus the two simulations     *)

(* what is still not proved about the rules of the FDL monitors: the liveness rules and R05_panic *)
Definition open_rules2_req : list rule :=
  [R05_panic; R11_supervision_never_ends; R12_gap_wait_never_ends; R15_no_reply_no_timeout].
Definition open_rules2 : list rule :=
  [R12_reply_without_request; R12_reply_untruthful; R12_reply_from_wrong_state] ++ open_rules2_req.

Ltac in_leaf2 := unfold may_fire, open_rules2, open_rules2_req; cbn; repeat (first [left; reflexivity | right]).

Section Master2.
Variable A : Type.
Variable ops : app_ops A.
Variable p : params.
Hypothesis Happs : apps_total A ops.
Hypothesis Hbv : builder_valid p.
Hypothesis Hdata : app_sends_data A ops.

Definition JB (n : nat) (f : fdl) (apps : list A) (buf : bytes) (tl : Z) (m : mon) (g : mon2) : Prop :=
  JA A p n f apps buf tl m g /\ SW f g /\ SC p f g.

Lemma JA_base n f apps buf tl m g : JA A p n f apps buf tl m g -> Base A p n f apps buf tl m.
Proof. intros ((((HB & _) & _) & _) & _). exact HB. Qed.

Lemma x_e12b_open2 m s : onlyr (may_fire open_rules2) (x_e12b p m s).
Proof. unfold x_e12b. cbv zeta. solve_onlyr in_leaf2. Qed.
Lemma y_e_live_open2 l m g s : (forall r, In r open_rules2_req -> In r l) -> onlyr (may_fire l) (y_e_live p m g s).
Proof. intros Hl. unfold y_e_live. solve_onlyr ltac:(apply Hl; in_leaf2). Qed.

Lemma JB_init n f0 apps : fdl_new p = Ok f0 -> length apps = n -> JB n f0 apps [] 0 (mon_reset (view_of f0) 0) mon2_reset.
Proof.
  intros E Hn. pose proof (JA_init A p Hbv n f0 apps E Hn) as HJ. split; [exact HJ|].
  pose proof (JA_base _ _ _ _ _ _ _ HJ) as HB. pose proof (b_rep _ _ _ _ _ _ _ _ HB) as R. rewrite Hn in R.
  split; [eapply (sw_init p); eassumption|apply sc_init].
Qed.

Lemma JB_api n a f apps buf tl m g f' :
  JB n f apps buf tl m g -> api_result p a f = Ok f' ->
  JB n f' apps buf tl (fst (mon_after_api a (view_of f') m g)) (snd (mon_after_api a (view_of f') m g)).
Proof.
  intros (HJ & HS & HC) E. pose proof (JA_api A p Hbv n a f apps buf tl m g f' HJ E) as HJ'. split; [exact HJ'|].
  pose proof (JA_base _ _ _ _ _ _ _ HJ') as HB'. pose proof (b_rep _ _ _ _ _ _ _ _ HB') as R'.
  pose proof (b_n _ _ _ _ _ _ _ _ HB') as Hn. rewrite Hn in R'.
  split; [eapply (sw_api p); eassumption|eapply sc_api; eassumption].
Qed.

Lemma JB_poll n f apps buf tl m g now busy nb f' o apps' calls :
  length apps = n ->
  JB n f apps buf tl m g -> tl < now -> time_ok now -> all_bytes nb ->
  poll ops f now (mkPhyIn busy (buf ++ nb)) apps = Ok (f', o, apps', calls) ->
  let s := poll_event now busy (buf ++ nb) f' o calls in
  snd (mon_poll p n m s) = x_e12b p m s /\
  snd (mon_poll2 p n m g s) = y_e_live p m g s /\
  JB n f' apps' (rx_left o) now (fst (mon_poll p n m s)) (fst (mon_poll2 p n m g s)) /\
  Base A p n f apps buf tl m /\ FdlOracleSound11.RQ f m.
Proof.
  intros Hlen (HJ & HS & HC) Hlt Hnow Hnb E s.
  destruct (JA_poll A ops p Happs Hbv Hdata n f apps buf tl m g now busy nb f' o apps' calls Hlen HJ Hlt Hnow Hnb E) as (H1 & H2 & HJ' & HB & HR).
  fold s in H1, H2, HJ'.
  pose proof (JA_base _ _ _ _ _ _ _ HJ') as HB'. pose proof (b_rep _ _ _ _ _ _ _ _ HB') as R'. pose proof (b_p _ _ _ _ _ _ _ _ HB') as Hp'.
  destruct (sw_poll A ops p n Hbv Hdata f apps buf tl m g now busy nb f' o apps' calls HB HS Hlen E R' Hp') as (Hsw & HS').
  destruct (sc_poll A ops p n Hbv Hdata f apps buf tl m g now busy nb f' o apps' calls HB HC Hlen E R' Hp') as (Hsc & HC').
  fold s in Hsw, HS', Hsc, HC'.
  split; [exact H1|]. split; [rewrite H2, Hsw, Hsc; reflexivity|]. split; [|split; assumption].
  split; [exact HJ'|]. rewrite mon_poll2_eq. cbn [fst]. split; assumption.
Qed.

(* ORACLE SOUNDNESS for the monitors of the FDL layer, all rule groups but the liveness rules: on a transcript of
   the model only the three status-reply rules (see fdl_oracle_sound2_req), R05_panic (treated in C05Proofs) and
   the three liveness rules can be reported. *)
Theorem fdl_oracle_sound2 (apps : list A) (ins : list minput) :
  ins_ok 0 ins ->
  forall k r, In (k, r) (monitor p (length apps) (model_transcript A ops p apps ins)) -> In r open_rules2.
Proof.
  intros Hok.
  apply (generic_sound_transcript A ops p (length apps) (may_fire open_rules2) (JB (length apps)) (fun _ => True)); try assumption; try reflexivity.
  - in_leaf2.
  - intros a f apps0 buf tl m g f' HJ E _. exact (JB_api _ _ _ _ _ _ _ _ _ HJ E).
  - intros f apps0 buf tl m g now busy nb f' o apps' calls HJ Hlt Hnow Hnb E _.
    assert (Hlen : length apps0 = length apps) by (destruct HJ as (HJ & _); exact (b_n _ _ _ _ _ _ _ _ (JA_base _ _ _ _ _ _ _ HJ))).
    destruct (JB_poll _ _ _ _ _ _ _ _ _ _ _ _ _ _ Hlen HJ Hlt Hnow Hnb E) as (H1 & H2 & HJ' & _).
    split; [|split; [|exact HJ']].
    + rewrite H1. apply x_e12b_open2.
    + rewrite H2. apply y_e_live_open2. intros r Hr. unfold open_rules2. apply in_or_app. right. exact Hr.
  - intros f0 apps0 E Hn _. exact (JB_init _ _ _ E Hn).
  - apply transcript_ok_true.
Qed.

Theorem fdl_oracle_sound2_req (apps : list A) (ins : list minput) :
  app_sends_requests A ops -> ins_ok 0 ins ->
  forall k r, In (k, r) (monitor p (length apps) (model_transcript A ops p apps ins)) -> In r open_rules2_req.
Proof.
  intros Hreq Hok.
  apply (generic_sound_transcript A ops p (length apps) (may_fire open_rules2_req) (JB (length apps)) (fun _ => True)); try assumption; try reflexivity.
  - in_leaf2.
  - intros a f apps0 buf tl m g f' HJ E _. exact (JB_api _ _ _ _ _ _ _ _ _ HJ E).
  - intros f apps0 buf tl m g now busy nb f' o apps' calls HJ Hlt Hnow Hnb E _.
    assert (Hlen : length apps0 = length apps) by (destruct HJ as (HJ & _); exact (b_n _ _ _ _ _ _ _ _ (JA_base _ _ _ _ _ _ _ HJ))).
    destruct (JB_poll _ _ _ _ _ _ _ _ _ _ _ _ _ _ Hlen HJ Hlt Hnow Hnb E) as (H1 & H2 & HJ' & HB & HR).
    split; [|split; [|exact HJ']].
    + rewrite H1. rewrite (e12b_ok A ops p (length apps) Hdata Hreq _ _ _ _ _ _ _ _ _ _ _ _ HB HR E). intros r [].
    + rewrite H2. apply y_e_live_open2. auto.
  - intros f0 apps0 E Hn _. exact (JB_init _ _ _ E Hn).
  - apply transcript_ok_true.
Qed.

(* the two rules of this file *)
Corollary c12_oracle_sound_sweep (apps : list A) (ins : list minput) :
  ins_ok 0 ins ->
  forall k r, In (k, r) (monitor p (length apps) (model_transcript A ops p apps ins)) -> r <> R12_sweep_bound.
Proof.
  intros Hok k r Hin ->. pose proof (fdl_oracle_sound2 _ _ Hok _ _ Hin) as H. unfold open_rules2, open_rules2_req in H. cbn in H.
  repeat (destruct H as [H|H]; [discriminate H|]). contradiction.
Qed.

Corollary c12_oracle_sound_claim_scan (apps : list A) (ins : list minput) :
  ins_ok 0 ins ->
  forall k r, In (k, r) (monitor p (length apps) (model_transcript A ops p apps ins)) -> r <> R12_post_claim_scan_incomplete.
Proof.
  intros Hok k r Hin ->. pose proof (fdl_oracle_sound2 _ _ Hok _ _ Hin) as H. unfold open_rules2, open_rules2_req in H. cbn in H.
  repeat (destruct H as [H|H]; [discriminate H|]). contradiction.
Qed.

(* all of C12 but the liveness rule *)
Corollary c12_oracle_sound_safety (apps : list A) (ins : list minput) :
  app_sends_requests A ops -> ins_ok 0 ins ->
  forall k r, In (k, r) (monitor p (length apps) (model_transcript A ops p apps ins)) -> rule_prop r = PC12 ->
  r = R12_gap_wait_never_ends.
Proof.
  intros Hreq Hok k r Hin Hp. pose proof (fdl_oracle_sound2_req _ _ Hreq Hok _ _ Hin) as H. unfold open_rules2_req in H. cbn in H.
  repeat (destruct H as [<-|H]; [first [discriminate Hp | reflexivity]|]). contradiction.
Qed.

End Master2.

(* ------------------------------------------------------------------------------------------ *)
(* the liveness rule R12_gap_wait_never_ends: exact bookkeeping of last_bus_activity / pending_bytes *)
(* in the states that await a GAP reply                                                          *)

Section LiveModel.
Variable A : Type.
Variable ops : app_ops A.
Notation W := (world A).

(* one poll of a token-holding state, with the exact effect of check_for_bus_activity *)
Lemma token_poll_exact f now pin (apps : list A) f' o apps' calls :
  poll ops f now pin apps = Ok (f', o, apps', calls) -> have_token (f_state f) = true \/ in_pass (f_state f) = true ->
  ((tx_busy pin = true \/ predicted f now = true) /\ f' = mark_bus_activity f now /\ tx o = None /\ calls = [] /\
     apps' = apps /\ rx_left o = rx pin) \/
  (tx_busy pin = false /\ predicted f now = false /\ exists f1 w1 w',
     check_for_bus_activity A f now (mkWorld (rx pin) None apps [] []) = (f1, w1) /\
     C11Proofs.dispatch A ops f1 now w1 = Ok (f', w') /\
     o = mkPhyOut (w_tx w') (w_rx w') /\ apps' = w_apps w' /\ calls = w_calls w').
Proof.
  intros H Hht. apply (C11Proofs.poll_inv A ops) in H. destruct H as (w' & H & -> & -> & ->).
  apply (C11Proofs.poll_inner_cases A ops) in H.
  destruct H as [(_ & Hs & _)|(_ & f0 & w0 & Hpro & Hb)]; [rewrite Hs in Hht; destruct Hht as [C|C]; discriminate C|].
  assert (E0 : f0 = f /\ w0 = mkWorld (rx pin) None apps [] []).
  { destruct Hht as [Hht|Hht]; [exact (prologue_have_token A _ _ _ _ Hpro Hht)|exact (prologue_in_pass A _ _ _ _ Hpro Hht)]. }
  destruct E0 as (-> & ->).
  unfold C11Proofs.body in Hb.
  destruct (tx_busy pin || predicted f now) eqn:Eb.
  - injection Hb as <- <-. left. cbn. apply orb_true_iff in Eb. repeat split; try reflexivity. exact Eb.
  - apply orb_false_iff in Eb. destruct Eb as (Hbusy & Hpred).
    destruct (check_for_bus_activity A f now _) as [f1 w1] eqn:Ec.
    right. split; [exact Hbusy|]. split; [exact Hpred|]. exists f1, w1, w'. repeat split; try reflexivity. exact Hb.
Qed.

(* await_gap_poll_response when no telegram is taken from the buffer: exactly what happens to the bookkeeping *)
Lemma agpr_none f now (w : W) a f' w' r :
  await_gap_poll_response A f now w a = Ok (f', w', r) ->
  r = GprWaiting \/ r = GprNoResponse ->
  f_lba f' = Some (gv now (f_lba f)) /\ f_pending f' = Nat.min (f_pending f) (length (w_rx w')) /\ f_state f' = f_state f /\
  f_p f' = f_p f /\ f_gap f' = f_gap f /\ f_ring f' = f_ring f /\
  w_tx w' = w_tx w /\ w_calls w' = w_calls w /\ (exists k, w_rx w' = skipn k (w_rx w)) /\
  (r = GprNoResponse <-> gv now (f_lba f) + slot_time (f_p f) < now).
Proof.
  unfold await_gap_poll_response. intros H Hr.
  destruct (a =? ts f); [discriminate H|].
  destruct (negb _); [discriminate H|].
  destruct (receive_telegram (fun t => t) (w_rx w)) as [[rest received]| |] eqn:Er; cbn [bind] in H; try discriminate H.
  destruct received as [t|].
  - exfalso. destruct t as [[da sa d1 d2 [rq rt|st status]] pdu|da sa|]; try (destruct Hr as [C|C]; rewrite C in H; discriminate H).
    destruct ((sa =? a) && (da =? ts (mark_rx f now))).
    + destruct (resp_status_eqb status gap_reply_status && gap_reply_state_is_master st).
      * destruct (set_next_station _ _); cbn [bind] in H; try discriminate H. destruct Hr as [C|C]; rewrite C in H; discriminate H.
      * destruct Hr as [C|C]; rewrite C in H; discriminate H.
    + destruct Hr as [C|C]; rewrite C in H; discriminate H.
  - apply receive_telegram_suffix in Er.
    revert H. generalize (Nat.ltb (length rest) (length (w_rx w))). intros c H.
    unfold check_slot_expired, lba_get_or_insert, sync_pending_bytes in H. cbn in H.
    destruct (f_lba f) as [l|] eqn:Hl; cbn [gv].
    + unfold inst_add in H. destruct (i64_ok _); cbn [bind] in H; [|discriminate H].
      change (f_p (set_pending f (Nat.min (f_pending f) (length rest)))) with (f_p f) in H.
      destruct (l + slot_time (f_p f) <? now) eqn:Ex; injection H as <- <- <-; cbn;
        (repeat (split; [first [reflexivity | exact Hl | exact Er | destruct c; reflexivity]|])).
      * apply Z.ltb_lt in Ex. split; [intros _; exact Ex|reflexivity].
      * apply Z.ltb_ge in Ex. split; [discriminate|lia].
    + unfold inst_add in H. destruct (i64_ok _); cbn [bind] in H; [|discriminate H]. cbn in H.
      destruct (now + slot_time (f_p f) <? now) eqn:Ex; injection H as <- <- <-; cbn;
        (repeat (split; [first [reflexivity | exact Er | destruct c; reflexivity]|])).
      * apply Z.ltb_lt in Ex. split; [intros _; exact Ex|reflexivity].
      * apply Z.ltb_ge in Ex. split; [discriminate|lia].
Qed.

Lemma not_awaiting_scan a : ~ awaiting_state (ClaimToken StepScan) a.
Proof. intros [C|C]; discriminate C. Qed.

(* the Scan step of do_claim_token: pending_bytes and the buffer stay; a state that awaits a reply only with a request *)
Lemma claim_scan_live f now (w : W) f' w' :
  do_claim_token_scan A f now w = Ok (f', w') -> f_state f = ClaimToken StepScan ->
  f_pending f' = f_pending f /\ w_rx w' = w_rx w /\ ((forall a, ~ awaiting_state (f_state f') a) \/ w_tx w' <> None).
Proof.
  unfold do_claim_token_scan. intros H Es.
  destruct (wait_synchronization_pause f now) as [[f1 wait]| |] eqn:Ew; cbn [bind] in H; try discriminate H.
  apply wait_sync_same in Ew. destruct Ew as ((_ & _ & _ & _ & Hs1 & Hpd1 & _) & _).
  destruct wait.
  { injection H as <- <-. split; [exact Hpd1|]. split; [reflexivity|]. left. intros a. rewrite Hs1, Es. apply not_awaiting_scan. }
  destruct (f_gap f1) as [rc|cur].
  - match type of H with bind ?x _ = _ => destruct x as [[f2 w2]| |] eqn:Et end; cbn [bind] in H; try discriminate H.
    injection H as <- <-. apply trans_spec in Et. destruct Et as (s2 & Ht & -> & ->). split; [exact Hpd1|]. split; [reflexivity|].
    left. intros a. cbn [set_st f_state]. rewrite Hs1, Es in Ht. cbn in Ht. injection Ht as <-. intros [C|C]; discriminate C.
  - destruct (next_gap_poll_traced A f1 w cur) as [[f2 w2]| |] eqn:En; cbn [bind] in H; try discriminate H.
    unfold next_gap_poll_traced in En. destruct (next_gap_poll f1 cur) as [g2| |]; cbn [bind] in En; try discriminate En.
    injection En as <- <-.
    destruct (transmit_gap_poll_if_pending A _ now _) as [[[f3 w3] polled]| |] eqn:Eg; cbn [bind] in H; try discriminate H.
    unfold transmit_gap_poll_if_pending in Eg. cbn [f_gap set_gap] in Eg. destruct g2 as [rc|c2].
    + injection Eg as <- <- <-. injection H as <- <-. split; [exact Hpd1|]. split; [reflexivity|]. left. intros a.
      cbn. rewrite Hs1, Es. apply not_awaiting_scan.
    + destruct (c2 =? _); [discriminate Eg|].
      destruct (phy_send A _ _) as [[w4 k]| |] eqn:Ep; cbn [bind] in Eg; try discriminate Eg.
      destruct (mark_tx _ now k) as [f4| |] eqn:Em; cbn [bind] in Eg; try discriminate Eg.
      injection Eg as <- <- <-. apply mark_tx_spec in Em. subst f4.
      apply phy_send_spec in Ep. destruct Ep as (_ & wire & Htx & _ & Hrx & _). cbn in Hrx.
      destruct (set_claim_step _ _) as [f5| |] eqn:Es5; cbn [bind] in H; try discriminate H.
      apply set_claim_step_spec' in Es5. subst f5. injection H as <- <-. cbn.
      split; [exact Hpd1|]. split; [exact Hrx|]. right. rewrite Htx. discriminate.
Qed.

Lemma ngpt_pending f (w : W) cur f' w' : next_gap_poll_traced A f w cur = Ok (f', w') -> f_pending f' = f_pending f.
Proof.
  unfold next_gap_poll_traced. destruct (next_gap_poll f cur); cbn [bind]; try discriminate. intros H. injection H as <- <-. reflexivity.
Qed.

Lemma tgp_pending f now (w : W) f' w' polled :
  transmit_gap_poll_if_pending A f now w = Ok (f', w', polled) -> f_pending f' = f_pending f.
Proof.
  unfold transmit_gap_poll_if_pending. destruct (f_gap f) as [rc|cur].
  - intros H. injection H as <- <- <-. reflexivity.
  - destruct (cur =? ts f); [discriminate|].
    destruct (phy_send A w _) as [[w1 k]| |]; cbn [bind]; try discriminate.
    destruct (mark_tx f now k) as [f1| |] eqn:Em; cbn [bind]; try discriminate.
    intros H. injection H as <- <- <-. apply mark_tx_spec in Em. subst f1. reflexivity.
Qed.

Lemma trans_pending f (w : W) t f' w' : trans A f w t = Ok (f', w') -> f_pending f' = f_pending f.
Proof. intros H. apply trans_spec in H. destruct H as (s' & _ & -> & ->). reflexivity. Qed.

(* do_pass_token never touches pending_bytes *)
Lemma pass_token_pending f now (w : W) f' w' : do_pass_token A f now w = Ok (f', w') -> f_pending f' = f_pending f.
Proof.
  unfold do_pass_token. intros H.
  destruct (assert_entry DoPassToken f); cbn [bind] in H; try discriminate H.
  destruct (wait_synchronization_pause f now) as [[f1 wait]| |] eqn:Ew; cbn [bind] in H; try discriminate H.
  apply wait_sync_same in Ew. destruct Ew as ((_ & _ & _ & _ & _ & Hpd1 & _) & _).
  destruct wait; [injection H as <- <-; exact Hpd1|].
  destruct (get_pass_token (f_state f1)) as [[dg att]| |]; cbn [bind] in H; try discriminate H.
  match type of H with bind ?x _ = _ => destruct x as [[[f2 w2] polled]| |] eqn:E2 end; cbn [bind] in H; try discriminate H.
  assert (Hpd2 : f_pending f2 = f_pending f1).
  { destruct dg; [|injection E2 as <- _ _; reflexivity].
    match type of E2 with bind ?x _ = _ => destruct x as [[f3 w3]| |] eqn:E3 end; cbn [bind] in E2; try discriminate E2.
    apply tgp_pending in E2. rewrite E2.
    destruct (f_gap f1) as [rc|cur].
    - destruct (p_gap_wait (f_p f1) <? rc).
      + exact (ngpt_pending _ _ _ _ _ E3).
      + destruct (u8_add rc 1); cbn [bind] in E3; try discriminate E3. injection E3 as <- _. reflexivity.
    - exact (ngpt_pending _ _ _ _ _ E3). }
  destruct polled as [pa|].
  - apply trans_pending in H. congruence.
  - destruct (phy_send A w2 _) as [[w3 k]| |]; cbn [bind] in H; try discriminate H.
    destruct (witness _ _ _) as [r| |]; cbn [bind] in H; try discriminate H.
    match type of H with bind ?x _ = _ => destruct x as [[f4 w4]| |] eqn:E4 end; cbn [bind] in H; try discriminate H.
    destruct (mark_tx f4 now k) as [f5| |] eqn:Em; cbn [bind] in H; try discriminate H. injection H as <- <-.
    apply mark_tx_spec in Em. subst f5. cbn [f_pending set_lba].
    assert (Hpd4 : f_pending f4 = f_pending f2).
    { cbn [f_ring set_ring] in E4. destruct (r_ns r =? _).
      - apply trans_pending in E4. exact E4.
      - destruct (get_pass_token _) as [[x y]| |]; cbn [bind] in E4; try discriminate E4. apply trans_pending in E4. exact E4. }
    congruence.
Qed.

Lemma awaiting_have_token s a : awaiting_state s a -> have_token s = true.
Proof. intros [-> | ->]; reflexivity. Qed.

(* A poll in a state that awaits a GAP reply, which stays in that state and transmits nothing: either the poll
   ends at the check for an ongoing transmission, or the buffer is looked at and the slot time has not expired
   - with the exact values of last_bus_activity and pending_bytes *)
Lemma await_poll_exact f now pin (apps : list A) f' o apps' calls a l :
  poll ops f now pin apps = Ok (f', o, apps', calls) -> awaiting_state (f_state f) a -> f_lba f = Some l ->
  f_state f' = f_state f -> tx o = None ->
  ((tx_busy pin = true \/ now <= l) /\ f_lba f' = Some (Z.max l now) /\ f_pending f' = f_pending f /\ rx_left o = rx pin) \/
  (tx_busy pin = false /\ l < now /\
   let l1 := if Nat.ltb (f_pending f) (length (rx pin)) then now else l in
   f_lba f' = Some l1 /\ f_pending f' = length (rx_left o) /\ (exists k, rx_left o = skipn k (rx pin)) /\
   ~ l1 + slot_time (f_p f) < now).
Proof.
  intros H Haw Hl Hst Htx.
  destruct (token_poll_exact _ _ _ _ _ _ _ _ H (or_introl (awaiting_have_token _ _ Haw))) as
    [(Hb & -> & _ & _ & _ & Hrx)|(Hbusy & Hpred & f1 & w1 & w' & Ec & Hd & -> & _ & _)].
  - left. split.
    + destruct Hb as [Hb|Hb]; [left; exact Hb|right]. unfold predicted in Hb. rewrite Hl in Hb. apply Z.leb_le in Hb. exact Hb.
    + split; [|split; [|exact Hrx]].
      * unfold mark_bus_activity, lba_get_or_insert. rewrite Hl. reflexivity.
      * unfold mark_bus_activity, lba_get_or_insert. rewrite Hl. reflexivity.
  - right. split; [exact Hbusy|]. unfold predicted in Hpred. rewrite Hl in Hpred. apply Z.leb_gt in Hpred. split; [exact Hpred|].
    cbn [tx rx_left] in *.
    unfold check_for_bus_activity in Ec. cbn [w_rx] in Ec.
    set (l1 := if Nat.ltb (f_pending f) (length (rx pin)) then now else l).
    assert (H1 : f_lba f1 = Some l1 /\ (length (rx pin) <= f_pending f1)%nat /\ f_state f1 = f_state f /\ f_p f1 = f_p f /\
                 w_rx w1 = rx pin /\ w_tx w1 = None).
    { subst l1. destruct (Nat.ltb_spec (f_pending f) (length (rx pin))); injection Ec as <- <-.
      - unfold mark_bus_activity, lba_get_or_insert. rewrite Hl. cbn. split; [f_equal; lia|]. repeat split; reflexivity.
      - repeat split; try reflexivity; assumption. }
    clear Ec. destruct H1 as (Hl1 & Hpd1 & Hs1 & Hp1 & Hrx1 & Htx1). rewrite <- Hp1.
    assert (Hnone : forall f2 w2 r, await_gap_poll_response A f1 now w1 a = Ok (f2, w2, r) -> r = GprWaiting \/ r = GprNoResponse ->
      f_lba f2 = Some l1 /\ f_pending f2 = length (w_rx w2) /\ (exists k, w_rx w2 = skipn k (rx pin)) /\ f_state f2 = f_state f /\
      w_tx w2 = None /\ (r = GprNoResponse <-> l1 + slot_time (f_p f1) < now)).
    { intros f2 w2 r Ea Hr. destruct (agpr_none _ _ _ _ _ _ _ Ea Hr) as (L2 & P2 & S2 & _ & _ & _ & T2 & _ & (k & R2) & X2). rewrite Hl1 in L2, X2. cbn [gv] in L2, X2.
      rewrite Hrx1 in R2. split; [exact L2|]. split; [|split; [exists k; exact R2|split; [congruence|split; [congruence|exact X2]]]].
      rewrite P2. apply Nat.min_r. rewrite R2, skipn_length. lia. }
    unfold C11Proofs.dispatch in Hd. rewrite Hs1 in Hd. rewrite <- Hs1 in Hst.
    destruct Haw as [Es|Es]; rewrite Es in Hd; cbn [kind_of poll_dispatch] in Hd.
    + unfold do_await_status_response, assert_entry in Hd. rewrite Hs1, Es in Hd.
      cbn [kind_of do_fn_entry state_kind_eqb bind get_await_status_response_address] in Hd.
      destruct (await_gap_poll_response A f1 now w1 a) as [[[f2 w2] r]| |] eqn:Ea; cbn [bind] in Hd; try discriminate Hd.
      pose proof (await_gap_bk0 A now _ _ _ _ _ _ Ea) as (_ & Hs2).
      destruct r.
      * injection Hd as <- <-. destruct (Hnone _ _ _ eq_refl (or_introl eq_refl)) as (L2 & P2 & R2 & _ & _ & X2).
        split; [exact L2|]. split; [exact P2|]. split; [exact R2|]. intros C. apply X2 in C. discriminate C.
      * exfalso. destruct (trans A f2 w2 _) as [[f3 w3]| |] eqn:Et; cbn [bind] in Hd; try discriminate Hd.
        apply trans_spec in Et. destruct Et as (s' & Ht & -> & ->). rewrite Hs2, Hs1, Es in Ht. cbn in Ht. injection Ht as <-.
        destruct (C12Proofs.do_pass_token_spec A _ _ _ _ _ Hd) as (dg & att & Es3 & _ & _ & _ & _ & _ & [(_ & Hs & _)|[(Hdg & _)|(_ & _ & Htx3 & _)]]).
        -- rewrite Hs in Hst. cbn [f_state set_st] in Hst. rewrite Hs1, Es in Hst. discriminate Hst.
        -- cbn [f_state set_st] in Es3. injection Es3 as <- _. discriminate Hdg.
        -- rewrite Htx3 in Htx. discriminate Htx.
      * exfalso. apply trans_spec in Hd. destruct Hd as (s' & Ht & -> & _). rewrite Hs2, Hs1, Es in Ht. cbn in Ht. injection Ht as <-.
        cbn [f_state set_st] in Hst. rewrite Hs1, Es in Hst. discriminate Hst.
      * exfalso. apply trans_spec in Hd. destruct Hd as (s' & Ht & -> & _). rewrite Hs2, Hs1, Es in Ht. cbn in Ht. injection Ht as <-.
        cbn [f_state set_st] in Hst. rewrite Hs1, Es in Hst. discriminate Hst.
    + unfold do_claim_token, assert_entry in Hd. rewrite Hs1, Es in Hd.
      cbn [kind_of do_fn_entry state_kind_eqb bind get_claim_token_step] in Hd.
      destruct (await_gap_poll_response A f1 now w1 a) as [[[f2 w2] r]| |] eqn:Ea; cbn [bind] in Hd; try discriminate Hd.
      pose proof (await_gap_bk0 A now _ _ _ _ _ _ Ea) as (_ & Hs2).
      destruct r.
      * injection Hd as <- <-. destruct (Hnone _ _ _ eq_refl (or_introl eq_refl)) as (L2 & P2 & R2 & _ & _ & X2).
        split; [exact L2|]. split; [exact P2|]. split; [exact R2|]. intros C. apply X2 in C. discriminate C.
      * exfalso. destruct (set_claim_step f2 StepScan) as [f3| |] eqn:Es3; cbn [bind] in Hd; try discriminate Hd.
        apply set_claim_step_spec' in Es3. subst f3.
        destruct (claim_scan_live _ _ _ _ _ Hd eq_refl) as (_ & _ & [Hna|Ht]).
        -- apply (Hna a). right. rewrite Hst, Hs1. exact Es.
        -- apply Ht. exact Htx.
      * exfalso. destruct (set_claim_step f2 StepScan) as [f3| |] eqn:Es3; cbn [bind] in Hd; try discriminate Hd.
        apply set_claim_step_spec' in Es3. subst f3. injection Hd as <- <-. cbn [f_state set_st] in Hst. rewrite Hs1, Es in Hst. discriminate Hst.
      * exfalso. apply trans_spec in Hd. destruct Hd as (s' & Ht & -> & _). rewrite Hs2, Hs1, Es in Ht. cbn in Ht. injection Ht as <-.
        cbn [f_state set_st] in Hst. rewrite Hs1, Es in Hst. discriminate Hst.
Qed.

(* ---- a state that awaits a GAP reply is entered with pending_bytes >= the bytes left in the buffer ---- *)

Definition plb (f : fdl) (w : W) : Prop := (length (w_rx w) <= f_pending f)%nat.

Lemma pass_token_plb f now (w : W) f' w' : do_pass_token A f now w = Ok (f', w') -> plb f w -> plb f' w'.
Proof.
  intros H P. unfold plb. rewrite (pass_token_pending _ _ _ _ _ H).
  destruct (do_pass_token_frame A _ _ _ _ _ H) as (_ & _ & ->). exact P.
Qed.

Lemma use_token_plb f now (w : W) f' w' a :
  do_use_token A ops f now w = Ok (f', w') -> plb f w -> awaiting_state (f_state f') a -> plb f' w'.
Proof.
  intros H P Haw. pose proof H as H0. rewrite do_use_token_split in H.
  destruct (do_use_token_head A ops f now w) as [[f2 w2]| |] eqn:Eh; cbn [bind] in H; try discriminate H.
  assert (Hst : exists tk fa fcd, f_state f = UseToken tk fa fcd).
  { unfold do_use_token, assert_entry in H0. destruct (f_state f); cbn in H0; try discriminate H0. eauto. }
  destruct Hst as (tk & fa & fcd & Es).
  destruct (do_use_token_head_state A ops _ _ _ _ _ _ _ _ Eh Es) as (_ & _ & Hst2).
  destruct (is_pass_token (f_state f2)) eqn:Ep.
  - destruct (do_use_token_head_pass A ops _ _ _ _ _ Eh Ep) as (_ & _ & (_ & _ & _ & _ & Hpd & _ & Hrx & _)).
    apply (pass_token_plb _ _ _ _ _ H). unfold plb. rewrite Hpd, Hrx. exact P.
  - injection H as <- <-. exfalso.
    destruct Hst2 as [(E & _)|[(fa' & E)|[(a1 & fa' & E)|E]]]; try (rewrite E in Haw; try rewrite Es in Haw; destruct Haw as [C|C]; discriminate C).
Qed.

Lemma await_data_plb f now (w : W) f' w' a :
  do_await_data_response A ops f now w = Ok (f', w') -> plb f w -> awaiting_state (f_state f') a -> plb f' w'.
Proof.
  unfold do_await_data_response. intros H P Haw.
  destruct (assert_entry DoAwaitDataResponse f) as [[]| |]; cbn [bind] in H; try discriminate H.
  destruct (f_state f) as [ | | | | | |a0 tk fa| | | ] eqn:Es; cbn [get_await_data_response bind] in H; try discriminate H.
  destruct (nth_error (w_apps w) (f_next_app f)) as [app|] eqn:En; [|discriminate H].
  destruct (receive_telegram (fun t => t) (w_rx w)) as [[rest received]| |] eqn:Er; cbn [bind] in H; try discriminate H.
  destruct received as [t|].
  - exfalso. destruct (is_valid_response (mark_rx f now) a0 t).
    + destruct (a_rx ops app now _ a0 t) as [app'| |]; cbn [bind] in H; try discriminate H.
      match type of H with context [trans A ?a ?b ?c] => destruct (trans A a b c) as [[f1 w1]| |] eqn:Et end; cbn [bind] in H; try discriminate H.
      unfold set_first_cycle_done in H. destruct (get_use_token (f_state f1)) as [[[x y] z]| |]; cbn [bind] in H; try discriminate H.
      injection H as <- <-. destruct Haw as [C|C]; discriminate C.
    + apply trans_spec in H. destruct H as (s' & Ht & -> & _). cbn [f_state set_st mark_rx mark_bus_activity] in *.
      replace (f_state (mark_rx f now)) with (f_state f) in Ht by (unfold mark_rx, mark_bus_activity, lba_get_or_insert; cbn; destruct (f_lba f); reflexivity).
      rewrite Es in Ht. cbn in Ht. injection Ht as <-. destruct Haw as [C|C]; discriminate C.
  - apply receive_telegram_suffix in Er. destruct Er as (k & Er).
    revert H. generalize (Nat.ltb (length rest) (length (w_rx w))). intros c H.
    destruct (check_slot_expired _ now) as [[f2 ex]| |] eqn:Ec; cbn [bind] in H; try discriminate H.
    apply check_slot_expired_same in Ec. destruct Ec as (Hp2 & _ & _ & _ & Hs2 & Hpd2 & _).
    cbn [f_pending sync_pending_bytes set_pending f_state w_rx set_rx] in Hpd2, Hs2.
    assert (P2 : (length rest <= f_pending f2)%nat).
    { rewrite Hpd2. unfold plb in P. rewrite Er, skipn_length in *. lia. }
    destruct ex.
    + destruct (a_to ops app now _ a0) as [app'| |]; cbn [bind] in H; try discriminate H.
      match type of H with context [trans A ?a ?b ?c] => destruct (trans A a b c) as [[f3 w3]| |] eqn:Et end; cbn [bind] in H; try discriminate H.
      apply trans_spec in Et. destruct Et as (s' & _ & -> & ->).
      unfold set_first_cycle_done in H. cbn [f_state set_st] in H. destruct (get_use_token s') as [[[x y] z]| |]; cbn [bind] in H; try discriminate H.
      eapply use_token_plb; [exact H| |exact Haw]. unfold plb. cbn. destruct c; exact P2.
    + injection H as <- <-. exfalso. rewrite Hs2, Es in Haw. destruct Haw as [C|C]; discriminate C.
Qed.

Lemma agpr_plb f now (w : W) a f' w' r :
  await_gap_poll_response A f now w a = Ok (f', w', r) -> r = GprWaiting \/ r = GprNoResponse -> plb f w -> plb f' w'.
Proof.
  intros H Hr P. destruct (agpr_none _ _ _ _ _ _ _ H Hr) as (_ & P2 & _ & _ & _ & _ & _ & _ & (k & R2) & _).
  unfold plb in *. rewrite P2. rewrite R2, skipn_length in *. lia.
Qed.

Lemma claim_token_plb f now (w : W) f' w' a :
  do_claim_token A f now w = Ok (f', w') -> plb f w -> awaiting_state (f_state f') a -> plb f' w'.
Proof.
  unfold do_claim_token, assert_entry. intros H P Haw.
  destruct (f_state f) as [ | | | | |st| | | | ] eqn:Es; cbn [kind_of do_fn_entry state_kind_eqb bind get_claim_token_step] in H; try discriminate H.
  assert (Htok : forall nxt, nxt <> StepScanAwaitResponse a ->
    (let* (f0, wait) := wait_synchronization_pause f now in
     if wait then Ok (f0, note A w TSyncWait)
     else let* (w0, n) := phy_send A w (TxToken (ts f0) (ts f0)) in
          let f1 := set_ring f0 (claim_token (f_ring f0)) in
          let* f2 := set_claim_step f1 nxt in
          let f3 := set_gap f2 (GapDoPoll (ts f2)) in
          let* f4 := mark_tx f3 now n in Ok (f4, note A w0 TClaimSendToken)) = Ok (f', w') ->
    f_state f = ClaimToken StepFirstToken \/ f_state f = ClaimToken StepSecondToken -> False).
  { intros nxt Hnxt H0 Hst.
    destruct (wait_synchronization_pause f now) as [[f1 wait]| |] eqn:Ew; cbn [bind] in H0; try discriminate H0.
    apply wait_sync_same in Ew. destruct Ew as ((_ & _ & _ & _ & Hs1 & _) & _).
    destruct wait.
    { injection H0 as <- <-. rewrite Hs1 in Haw. destruct Hst as [E|E]; rewrite E in Haw; destruct Haw as [C|C]; discriminate C. }
    destruct (phy_send A w _) as [[w1 k]| |] eqn:Ep; cbn [bind] in H0; try discriminate H0.
    destruct (set_claim_step _ nxt) as [f2| |] eqn:Es2; cbn [bind] in H0; try discriminate H0.
    apply set_claim_step_spec' in Es2. subst f2.
    match type of H0 with bind (mark_tx ?fx now k) _ = _ => destruct (mark_tx fx now k) as [f4| |] eqn:Em end; cbn [bind] in H0; try discriminate H0.
    injection H0 as <- <-. apply mark_tx_spec in Em. subst f4. cbn in Haw. destruct Haw as [C|C]; [discriminate C|]. injection C as C. exact (Hnxt C). }
  destruct st as [ | | |a0].
  - exfalso. eapply Htok; [|exact H|left; exact Es]. discriminate.
  - exfalso. eapply Htok; [|exact H|right; exact Es]. discriminate.
  - destruct (claim_scan_live _ _ _ _ _ H Es) as (Hpd & Hrx & _). unfold plb. rewrite Hpd, Hrx. exact P.
  - destruct (await_gap_poll_response A f now w a0) as [[[f1 w1] r]| |] eqn:Ea; cbn [bind] in H; try discriminate H.
    pose proof (await_gap_bk0 A now _ _ _ _ _ _ Ea) as (_ & Hs1).
    destruct r.
    + injection H as <- <-. exact (agpr_plb _ _ _ _ _ _ _ Ea (or_introl eq_refl) P).
    + pose proof (agpr_plb _ _ _ _ _ _ _ Ea (or_intror eq_refl) P) as P1.
      destruct (set_claim_step f1 StepScan) as [f2| |] eqn:Es2; cbn [bind] in H; try discriminate H.
      apply set_claim_step_spec' in Es2. subst f2.
      destruct (claim_scan_live _ _ _ _ _ H eq_refl) as (Hpd & Hrx & _). unfold plb. rewrite Hpd, Hrx. exact P1.
    + exfalso. destruct (set_claim_step f1 StepScan) as [f2| |] eqn:Es2; cbn [bind] in H; try discriminate H.
      apply set_claim_step_spec' in Es2. subst f2. injection H as <- <-. exact (not_awaiting_scan a Haw).
    + exfalso. apply trans_spec in H. destruct H as (s' & Ht & -> & _). rewrite Hs1, Es in Ht. cbn in Ht. injection Ht as <-.
      destruct Haw as [C|C]; discriminate C.
Qed.

Lemma await_status_plb f now (w : W) f' w' a :
  do_await_status_response A f now w = Ok (f', w') -> plb f w -> awaiting_state (f_state f') a -> plb f' w'.
Proof.
  unfold do_await_status_response, assert_entry. intros H P Haw.
  destruct (f_state f) as [ | | | | | | | | |a0] eqn:Es; cbn [kind_of do_fn_entry state_kind_eqb bind get_await_status_response_address] in H; try discriminate H.
  destruct (await_gap_poll_response A f now w a0) as [[[f2 w2] r]| |] eqn:Ea; cbn [bind] in H; try discriminate H.
  pose proof (await_gap_bk0 A now _ _ _ _ _ _ Ea) as (_ & Hs2).
  destruct r.
  - injection H as <- <-. exact (agpr_plb _ _ _ _ _ _ _ Ea (or_introl eq_refl) P).
  - exfalso. destruct (trans A f2 w2 _) as [[f3 w3]| |] eqn:Et; cbn [bind] in H; try discriminate H.
    apply trans_spec in Et. destruct Et as (s' & Ht & -> & ->). rewrite Hs2, Es in Ht. cbn in Ht. injection Ht as <-.
    destruct (C12Proofs.do_pass_token_spec A _ _ _ _ _ H) as (dg & att & Es3 & _ & _ & _ & _ & _ & [(_ & Hs & _)|[(Hdg & _)|(_ & _ & _ & Htp)]]).
    + rewrite Hs in Haw. destruct Haw as [C|C]; discriminate C.
    + cbn [f_state set_st] in Es3. injection Es3 as <- _. discriminate Hdg.
    + destruct Htp as (_ & [(_ & Hs)|(_ & Hs)]); rewrite Hs in Haw; destruct Haw as [C|C]; discriminate C.
  - exfalso. apply trans_spec in H. destruct H as (s' & Ht & -> & _). rewrite Hs2, Es in Ht. cbn in Ht. injection Ht as <-.
    destruct Haw as [C|C]; discriminate C.
  - exfalso. apply trans_spec in H. destruct H as (s' & Ht & -> & _). rewrite Hs2, Es in Ht. cbn in Ht. injection Ht as <-.
    destruct Haw as [C|C]; discriminate C.
Qed.

(* a poll that enters (or re-enters) a state that awaits a GAP reply with a transmission leaves
   pending_bytes >= the bytes left in the buffer *)
Lemma entry_plb f now pin (apps : list A) f' o apps' calls a :
  poll ops f now pin apps = Ok (f', o, apps', calls) -> awaiting_state (f_state f') a -> tx o <> None ->
  (length (rx_left o) <= f_pending f')%nat.
Proof.
  intros H Haw Hn.
  assert (Htok : (have_token (f_state f) = true /\ in_pass (f_state f) = false) \/ (exists dg att, f_state f = PassToken dg att) ->
                 (length (rx_left o) <= f_pending f')%nat).
  { intros Hht.
    assert (Hht' : have_token (f_state f) = true \/ in_pass (f_state f) = true).
    { destruct Hht as [(Hht & _)|(dg & att & Hht)]; [left; exact Hht|right; rewrite Hht; reflexivity]. }
    destruct (token_poll_exact _ _ _ _ _ _ _ _ H Hht') as [(_ & _ & Htx & _)|(_ & _ & f1 & w1 & w' & Ec & Hd & -> & _ & _)]; [contradiction|].
    cbn [tx rx_left] in *.
    assert (P1 : plb f1 w1 /\ f_state f1 = f_state f).
    { unfold check_for_bus_activity in Ec. cbn [w_rx] in Ec. unfold plb.
      destruct (Nat.ltb_spec (f_pending f) (length (rx pin))); injection Ec as <- <-.
      - split; [cbn; lia|]. unfold mark_bus_activity, lba_get_or_insert. cbn. destruct (f_lba f); reflexivity.
      - split; [cbn; lia|reflexivity]. }
    destruct P1 as (P1 & Hs1). unfold C11Proofs.dispatch in Hd. rewrite Hs1 in Hd.
    clear Hht'. destruct (f_state f) eqn:Es; cbn [kind_of poll_dispatch] in Hd;
      try (exfalso; destruct Hht as [(C1 & C2)|(dg0 & att0 & C)]; [cbn in C1, C2; first [discriminate C1|discriminate C2]|discriminate C]).
    - exact (use_token_plb _ _ _ _ _ _ Hd P1 Haw).
    - exact (claim_token_plb _ _ _ _ _ _ Hd P1 Haw).
    - exact (await_data_plb _ _ _ _ _ _ Hd P1 Haw).
    - exact (pass_token_plb _ _ _ _ _ Hd P1).
    - exact (await_status_plb _ _ _ _ _ _ Hd P1 Haw). }
  destruct (f_state f) as [ | |sr cc|sr nps cc|tk fa fcd|st|a1 tk fa|dg att|att|a0] eqn:Es.
  - exfalso. eapply (idle_poll_not_awaiting A ops); [exact H|rewrite Es; reflexivity|rewrite Es; reflexivity|exact Haw].
  - exfalso. eapply (idle_poll_not_awaiting A ops); [exact H|rewrite Es; reflexivity|rewrite Es; reflexivity|exact Haw].
  - exfalso. eapply (idle_poll_not_awaiting A ops); [exact H|rewrite Es; reflexivity|rewrite Es; reflexivity|exact Haw].
  - exfalso. eapply (idle_poll_not_awaiting A ops); [exact H|rewrite Es; reflexivity|rewrite Es; reflexivity|exact Haw].
  - apply Htok. left. split; reflexivity.
  - apply Htok. left. split; reflexivity.
  - apply Htok. left. split; reflexivity.
  - apply Htok. right. eauto.
  - exfalso. destruct (check_pass_poll A ops _ _ _ _ _ _ _ _ _ Es H) as (_ & _ & _ & Hc).
    destruct (slot_expired f now pin).
    + destruct Hc as (_ & r1 & _ & [(_ & E & _)|(r' & _ & _ & _ & E)]); rewrite E in Haw.
      * destruct Haw as [C|C]; discriminate C.
      * destruct (r_ns r' =? ts f); destruct Haw as [C|C]; discriminate C.
    + destruct Hc as (_ & _ & Hc). destruct (tx_busy pin || predicted f now).
      * destruct Hc as (E & _). rewrite E in Haw. destruct Haw as [C|C]; discriminate C.
      * destruct (DecodeSpec.decode_spec (rx pin)).
        -- destruct Hc as (E & _). rewrite E in Haw. destruct Haw as [C|C]; discriminate C.
        -- destruct Hc as (E & _). rewrite E in Haw. destruct Haw as [C|C]; discriminate C.
        -- exact (heard_not_awaiting _ _ Hc Haw).
  - apply Htok. left. split; reflexivity.
Qed.

End LiveModel.

(* ------------------------------------------------------------------------------------------ *)
(* the simulation: l_ref of the second monitor never lags behind last_bus_activity of the model  *)

Section Live.
Variable A : Type.
Variable ops : app_ops A.
Variable p : params.
Variable n : nat.

(* In a state that awaits a GAP reply: the reference instant of the monitor is not earlier than
   last_bus_activity; the predicted end of the last transmission is not later; last_bus_activity is that end or
   lies before the last poll; and unless the monitor expects a spurious growth of the buffer, pending_bytes is
   the number of bytes in the buffer. *)
Definition LW (f : fdl) (buf : bytes) (tl : Z) (g : mon2) : Prop :=
  forall a, awaiting_state (f_state f) a ->
  exists l r, f_lba f = Some l /\ l_ref g = Some r /\ l <= r /\
    (forall e, l_txend g = Some e -> e <= l) /\ (l <= tl \/ l_txend g = Some l) /\
    (l_spur g = false -> (length buf <= f_pending f)%nat).

Lemma view_awaiting f : 
  (kind_of (f_state f) = KAwaitStatusResponse \/ (kind_of (f_state f) = KClaimToken /\ v_scan_await (view_of f) = true)) ->
  exists a, awaiting_state (f_state f) a.
Proof.
  unfold view_of. cbn [v_scan_await]. intros [H|(H1 & H2)].
  - destruct (f_state f); try discriminate H. eexists. left. reflexivity.
  - destruct (f_state f) as [ | | | | |st| | | | ]; try discriminate H1. destruct st; try discriminate H2. eexists. right. reflexivity.
Qed.

Lemma skeqb_eq k k' : state_kind_eqb k k' = true <-> k = k'.
Proof. split; [destruct k, k'; intros H; try discriminate H; reflexivity|intros <-; destruct k; reflexivity]. Qed.

Lemma lw_poll f apps buf tl m g now busy nb f' o apps' calls :
  Base A p n f apps buf tl m -> LW f buf tl g -> tl < now ->
  poll ops f now (mkPhyIn busy (buf ++ nb)) apps = Ok (f', o, apps', calls) ->
  let s := poll_event now busy (buf ++ nb) f' o calls in
  (y_quiet m g s && y_expired p g s && negb (y_acted m s) = true -> y_waiting_c12 m = false) /\
  LW f' (rx_left o) now (y_g' p n m g s).
Proof.
  intros HB HL Hlt E s.
  destruct HB as [R Hp Hn Hv Hl Hpd Hb Htl]. rewrite Hn in R.
  set (rxb := buf ++ nb) in *.
  assert (Hgrew : y_grew m s = Nat.ltb (length buf) (length rxb)) by (unfold y_grew; rewrite Hl; reflexivity).
  assert (Hcons : y_consumed s = negb (Nat.eqb (length rxb - length (rx_left o)) 0)) by reflexivity.
  assert (Hong : y_ongoing g s = match l_txend g with Some e => now <=? e | None => false end) by reflexivity.
  assert (Hlooks : y_looks g s = negb busy && negb (y_ongoing g s)) by reflexivity.
  assert (Hspn : y_spur_now g s = l_spur g && y_looks g s && match rxb with [] => false | _ => true end) by reflexivity.
  assert (Hhap : y_happened m g s = y_grew m s || busy || y_consumed s || y_spur_now g s) by reflexivity.
  assert (Href1 : y_ref1 m g s = if y_happened m g s then Some (zmax_opt (l_ref g) now)
                                 else match l_ref g with Some r => Some r | None => Some now end) by reflexivity.
  assert (Hrep_l : forall a l r, awaiting_state (f_state f) a -> f_state f' = f_state f -> tx o = None -> f_lba f = Some l ->
    l_ref g = Some r -> l <= r -> (forall e, l_txend g = Some e -> e <= l) -> (l <= tl \/ l_txend g = Some l) ->
    (l_spur g = false -> (length buf <= f_pending f)%nat) ->
    ((busy = true \/ now <= l) /\ f_lba f' = Some (Z.max l now) /\ f_pending f' = f_pending f /\ rx_left o = rxb /\ y_looks g s = false) \/
    (busy = false /\ l < now /\ y_looks g s = true /\
     let l1 := if Nat.ltb (f_pending f) (length rxb) then now else l in
     f_lba f' = Some l1 /\ f_pending f' = length (rx_left o) /\ (exists k, rx_left o = skipn k rxb) /\
     ~ l1 + slot_time p < now)).
  { intros a l r Haw Hst Htx Hlba Hr Hlr He Hlt2 Hsp.
    destruct (await_poll_exact A ops _ _ _ _ _ _ _ _ _ _ E Haw Hlba Hst Htx) as [(Hb1 & L1 & P1 & R1)|(Hb1 & Hl1 & L1 & P1 & R1 & X1)]; cbn [tx_busy rx] in *.
    - left. split; [exact Hb1|]. split; [exact L1|]. split; [exact P1|]. split; [exact R1|].
      rewrite Hlooks. destruct Hb1 as [->|Hb1]; [reflexivity|].
      destruct Hlt2 as [C|C]; [lia|]. rewrite Hong, C. destruct (Z.leb_spec now l); [|lia]. destruct busy; reflexivity.
    - right. split; [exact Hb1|]. split; [exact Hl1|]. split.
      + rewrite Hlooks, Hong, Hb1. destruct (l_txend g) as [e|] eqn:Ee; [|reflexivity].
        pose proof (He e eq_refl). destruct (Z.leb_spec now e); [lia|reflexivity].
      + rewrite Hp in X1. cbv zeta. split; [exact L1|]. split; [exact P1|]. split; [exact R1|exact X1]. }
  split.
  - intros Hq. destruct (y_waiting_c12 m) eqn:Ew; [exfalso|reflexivity].
    apply andb_true_iff in Hq. destruct Hq as (Hq & Hact). apply andb_true_iff in Hq. destruct Hq as (Hq & Hexp).
    unfold y_quiet in Hq. apply andb_true_iff in Hq. destruct Hq as (Hq & Hnsp). apply andb_true_iff in Hq. destruct Hq as (Hlk & Hng).
    apply negb_true_iff in Hnsp, Hng, Hact.
    unfold y_acted in Hact.
    apply orb_false_iff in Hact. destruct Hact as (Hact & Hc5). apply orb_false_iff in Hact. destruct Hact as (Hact & Hc4).
    apply orb_false_iff in Hact. destruct Hact as (Hact & Hc3). apply orb_false_iff in Hact. destruct Hact as (Hc1 & Hc2).
    change (y_k0 m) with (v_kind (m_view m)) in *. rewrite Hv in *. cbn [view_of v_kind] in *.
    change (y_k1 s) with (kind_of (f_state f')) in *. change (y_post s) with (view_of f') in *.
    apply negb_false_iff, skeqb_eq in Hc2.
    assert (Htx : tx o = None) by (change (s_tx s) with (tx o) in Hc3; destruct (tx o); [discriminate Hc3|reflexivity]).
    unfold y_waiting_c12 in Ew. change (y_k0 m) with (v_kind (m_view m)) in Ew. change (y_pre m) with (m_view m) in Ew.
    rewrite Hv in Ew. change (v_kind (view_of f)) with (kind_of (f_state f)) in Ew.
    assert (Hk0 : kind_of (f_state f) = KAwaitStatusResponse \/ (kind_of (f_state f) = KClaimToken /\ v_scan_await (view_of f) = true)).
    { apply orb_true_iff in Ew. destruct Ew as [Ew|Ew]; [left; apply skeqb_eq; exact Ew|right].
      apply andb_true_iff in Ew. destruct Ew as (E1 & E2). split; [apply skeqb_eq; exact E1|exact E2]. }
    destruct (view_awaiting f Hk0) as (a & Haw).
    assert (Hk1 : kind_of (f_state f') = KAwaitStatusResponse \/ (kind_of (f_state f') = KClaimToken /\ v_scan_await (view_of f') = true)).
    { destruct Hk0 as [Hk0|(Hk0 & _)]; [left; congruence|right]. split; [congruence|].
      rewrite Hk0 in Hc5. cbn [state_kind_eqb andb] in Hc5. apply negb_false_iff in Hc5. exact Hc5. }
    destruct (view_awaiting f' Hk1) as (a' & Haw').
    pose proof (await_entry A ops n _ _ _ _ _ _ _ _ _ E R Haw' Htx) as Hst.
    destruct (HL a Haw) as (l & r & Hlba & Hr & Hlr & He & Hlt2 & Hsp).
    unfold y_expired in Hexp. rewrite Hr in Hexp. change (y_now s) with now in Hexp. apply Z.ltb_lt in Hexp.
    destruct (Hrep_l a l r Haw Hst Htx Hlba Hr Hlr He Hlt2 Hsp) as [(_ & _ & _ & _ & C)|(_ & Hl1 & _ & X)]; [congruence|].
    cbv zeta in X. destruct X as (_ & _ & _ & X). apply X.
    rewrite Hgrew in Hng. apply Nat.ltb_ge in Hng.
    assert (Hge : (length rxb <= f_pending f)%nat).
    { destruct (l_spur g) eqn:Esp.
      - rewrite Hspn, Hlk in Hnsp. cbn [andb] in Hnsp. destruct rxb; [cbn; lia|discriminate Hnsp].
      - pose proof (Hsp eq_refl). lia. }
    apply Nat.ltb_ge in Hge. rewrite Hge. lia.
  - intros a Haw'. change (l_ref (y_g' p n m g s)) with (y_ref2 p m g s). change (l_txend (y_g' p n m g s)) with (y_txend p g s).
    change (l_spur (y_g' p n m g s)) with (y_spur m g s).
    destruct (tx o) as [wire|] eqn:Etx.
    + pose proof (poll_lba_case A ops _ _ _ _ _ _ _ _ _ E) as LC. rewrite Etx in LC.
      destruct LC as [wire0 l0 Hw L' _ _ _ _|C _|C _|C _ _|C _ _]; try discriminate C.
      injection Hw as <-. rewrite Hp in L'.
      set (e := now + dur p (length wire)) in *.
      assert (Hte : y_tx_end p s = Some e).
      { unfold y_tx_end. change (s_tx s) with (tx o). rewrite Etx. change (y_now s) with now. rewrite dur_is_prop. reflexivity. }
      exists e, (zmax_opt (y_ref1 m g s) e). split; [exact L'|]. unfold y_ref2, y_txend. rewrite Hte. split; [reflexivity|].
      split; [unfold zmax_opt; destruct (y_ref1 m g s); lia|]. split; [intros e0 H0; injection H0 as <-; lia|]. split; [right; reflexivity|].
      intros _. apply (entry_plb A ops _ _ _ _ _ _ _ _ _ E Haw'). rewrite Etx. discriminate.
    + pose proof (await_entry A ops n _ _ _ _ _ _ _ _ _ E R Haw' Etx) as Hst.
      assert (Haw : awaiting_state (f_state f) a) by (rewrite <- Hst; exact Haw').
      destruct (HL a Haw) as (l & r & Hlba & Hr & Hlr & He & Hlt2 & Hsp).
      assert (Hte : y_tx_end p s = None) by (unfold y_tx_end; change (s_tx s) with (tx o); rewrite Etx; reflexivity).
      unfold y_ref2, y_txend. rewrite Hte.
      assert (Hr' : y_ref1 m g s = Some (if y_happened m g s then Z.max r now else r)).
      { rewrite Href1, Hr. destruct (y_happened m g s); reflexivity. }
      rewrite Hr'.
      destruct (Hrep_l a l r Haw Hst eq_refl Hlba Hr Hlr He Hlt2 Hsp) as [(Hb1 & L1 & P1 & R1 & Hlk)|(Hb1 & Hl1 & Hlk & X)].
      * exists (Z.max l now), (if y_happened m g s then Z.max r now else r). split; [exact L1|]. split; [reflexivity|].
        split.
        { destruct Hb1 as [Hb1|Hb1].
          - assert (Hh : y_happened m g s = true) by (rewrite Hhap, Hb1; destruct (y_grew m s); reflexivity). rewrite Hh. lia.
          - destruct (y_happened m g s); lia. }
        split; [intros e0 H0; pose proof (He e0 H0); lia|].
        split.
        { destruct (Z.le_gt_cases l now); [left; lia|right]. destruct Hlt2 as [C|C]; [lia|]. rewrite Z.max_l by lia. exact C. }
        rewrite R1, P1. unfold y_spur. rewrite Hcons, R1, Nat.sub_diag. cbn [Nat.eqb negb]. rewrite Hlk. intros Hs0.
        apply orb_false_iff in Hs0. destruct Hs0 as (Hs1 & Hs2). rewrite Hgrew in Hs2. apply Nat.ltb_ge in Hs2.
        pose proof (Hsp Hs1). lia.
      * cbv zeta in X. destruct X as (L1 & P1 & R1 & _).
        exists (if Nat.ltb (f_pending f) (length rxb) then now else l), (if y_happened m g s then Z.max r now else r).
        split; [exact L1|]. split; [reflexivity|].
        split.
        { destruct (Nat.ltb_spec (f_pending f) (length rxb)) as [Hact|Hact]; [|destruct (y_happened m g s); lia].
          assert (Hh : y_happened m g s = true).
          { rewrite Hhap, Hgrew. destruct (Nat.ltb_spec (length buf) (length rxb)) as [Eg|Eg]; [reflexivity|].
            destruct (l_spur g) eqn:Esp; [|pose proof (Hsp eq_refl); lia].
            rewrite Hspn, Hlk. destruct rxb; [cbn in Hact; lia|]. cbn [andb]. rewrite !orb_true_r. reflexivity. }
          rewrite Hh. lia. }
        split; [intros e0 H0; pose proof (He e0 H0); destruct (Nat.ltb (f_pending f) (length rxb)); lia|].
        split; [left; destruct (Nat.ltb (f_pending f) (length rxb)); lia|].
        intros _. rewrite P1. lia.
Qed.

Lemma not_awaiting_offline f buf tl g : f_state f = Offline -> LW f buf tl g.
Proof. intros Hs a [C|C]; rewrite Hs in C; discriminate C. Qed.

Lemma fdl_new_offline q f0 : fdl_new q = Ok f0 -> f_state f0 = Offline.
Proof.
  unfold fdl_new. destruct (negb _); [discriminate|]. destruct (negb _); [discriminate|].
  destruct (ring_new _); cbn [bind]; try discriminate. intros H. injection H as <-. reflexivity.
Qed.

Lemma lw_api a f f' buf tl m g : LW f buf tl g -> api_result p a f = Ok f' ->
  LW f' buf tl (snd (mon_after_api a (view_of f') m g)).
Proof.
  intros HL E. destruct a; cbn [api_result mon_after_api snd] in *.
  - apply not_awaiting_offline. exact (fdl_new_offline _ _ E).
  - unfold set_online, set_state in E. injection E as <-. exact HL.
  - apply not_awaiting_offline. unfold set_offline, set_state in E. exact (fdl_new_offline _ _ E).
  - discriminate E.
Qed.

Lemma lw_init f0 : fdl_new p = Ok f0 -> LW f0 [] 0 mon2_reset.
Proof. intros E. apply not_awaiting_offline. exact (fdl_new_offline _ _ E). Qed.

End Live.

(* ------------------------------------------------------------------------------------------ *)
(* the induction once more, with the liveness simulation: what remains open are the liveness rules of C11    *)
(* and C15 and R05_panic                                                                             *)

Definition open_rules3_req : list rule := [R05_panic; R11_supervision_never_ends; R15_no_reply_no_timeout].
Definition open_rules3 : list rule :=
  [R12_reply_without_request; R12_reply_untruthful; R12_reply_from_wrong_state] ++ open_rules3_req.

Ltac in_leaf3 := unfold may_fire, open_rules3, open_rules3_req; cbn; repeat (first [left; reflexivity | right]).

Section Master3.
Variable A : Type.
Variable ops : app_ops A.
Variable p : params.
Hypothesis Happs : apps_total A ops.
Hypothesis Hbv : builder_valid p.
Hypothesis Hdata : app_sends_data A ops.

Definition JC (n : nat) (f : fdl) (apps : list A) (buf : bytes) (tl : Z) (m : mon) (g : mon2) : Prop :=
  JB A p n f apps buf tl m g /\ LW f buf tl g.

Lemma x_e12b_open3 m s : onlyr (may_fire open_rules3) (x_e12b p m s).
Proof. unfold x_e12b. cbv zeta. solve_onlyr in_leaf3. Qed.

Lemma y_e_live_open3 l m g s :
  (y_quiet m g s && y_expired p g s && negb (y_acted m s) = true -> y_waiting_c12 m = false) ->
  (forall r, In r open_rules3_req -> In r l) -> onlyr (may_fire l) (y_e_live p m g s).
Proof.
  intros Hw Hl. unfold y_e_live. destruct (y_quiet m g s && y_expired p g s && negb (y_acted m s)) eqn:Ec; [|apply onlyr_nil].
  rewrite (Hw eq_refl). solve_onlyr ltac:(apply Hl; in_leaf3).
Qed.

Lemma JC_init n f0 apps : fdl_new p = Ok f0 -> length apps = n -> JC n f0 apps [] 0 (mon_reset (view_of f0) 0) mon2_reset.
Proof. intros E Hn. split; [exact (JB_init A p Hbv n f0 apps E Hn)|exact (lw_init p f0 E)]. Qed.

Lemma JC_api n a f apps buf tl m g f' :
  JC n f apps buf tl m g -> api_result p a f = Ok f' ->
  JC n f' apps buf tl (fst (mon_after_api a (view_of f') m g)) (snd (mon_after_api a (view_of f') m g)).
Proof. intros (HJ & HL) E. split; [exact (JB_api A p Hbv n a f apps buf tl m g f' HJ E)|exact (lw_api p a f f' buf tl m g HL E)]. Qed.

Lemma JC_poll n f apps buf tl m g now busy nb f' o apps' calls :
  length apps = n ->
  JC n f apps buf tl m g -> tl < now -> time_ok now -> all_bytes nb ->
  poll ops f now (mkPhyIn busy (buf ++ nb)) apps = Ok (f', o, apps', calls) ->
  let s := poll_event now busy (buf ++ nb) f' o calls in
  snd (mon_poll p n m s) = x_e12b p m s /\
  snd (mon_poll2 p n m g s) = y_e_live p m g s /\
  (y_quiet m g s && y_expired p g s && negb (y_acted m s) = true -> y_waiting_c12 m = false) /\
  JC n f' apps' (rx_left o) now (fst (mon_poll p n m s)) (fst (mon_poll2 p n m g s)) /\
  Base A p n f apps buf tl m /\ FdlOracleSound11.RQ f m.
Proof.
  intros Hlen (HJ & HL) Hlt Hnow Hnb E s.
  destruct (JB_poll A ops p Happs Hbv Hdata n f apps buf tl m g now busy nb f' o apps' calls Hlen HJ Hlt Hnow Hnb E) as (H1 & H2 & HJ' & HB & HR).
  destruct (lw_poll A ops p n f apps buf tl m g now busy nb f' o apps' calls HB HL Hlt E) as (Hw & HL').
  fold s in H1, H2, HJ', Hw, HL'.
  split; [exact H1|]. split; [exact H2|]. split; [exact Hw|]. split; [|split; assumption].
  split; [exact HJ'|]. rewrite mon_poll2_eq. cbn [fst]. exact HL'.
Qed.

(* ORACLE SOUNDNESS for the monitors of the FDL layer including the liveness rule of C12. *)
Theorem fdl_oracle_sound3 (apps : list A) (ins : list minput) :
  ins_ok 0 ins ->
  forall k r, In (k, r) (monitor p (length apps) (model_transcript A ops p apps ins)) -> In r open_rules3.
Proof.
  intros Hok.
  apply (generic_sound_transcript A ops p (length apps) (may_fire open_rules3) (JC (length apps)) (fun _ => True)); try assumption; try reflexivity.
  - in_leaf3.
  - intros a f apps0 buf tl m g f' HJ E _. exact (JC_api _ _ _ _ _ _ _ _ _ HJ E).
  - intros f apps0 buf tl m g now busy nb f' o apps' calls HJ Hlt Hnow Hnb E _.
    assert (Hlen : length apps0 = length apps) by (destruct HJ as ((HJ & _) & _); exact (b_n _ _ _ _ _ _ _ _ (JA_base _ _ _ _ _ _ _ _ _ HJ))).
    destruct (JC_poll _ _ _ _ _ _ _ _ _ _ _ _ _ _ Hlen HJ Hlt Hnow Hnb E) as (H1 & H2 & Hw & HJ' & _).
    split; [|split; [|exact HJ']].
    + rewrite H1. apply x_e12b_open3.
    + rewrite H2. apply y_e_live_open3; [exact Hw|]. intros r Hr. unfold open_rules3. apply in_or_app. right. exact Hr.
  - intros f0 apps0 E Hn _. exact (JC_init _ _ _ E Hn).
  - apply transcript_ok_true.
Qed.

Theorem fdl_oracle_sound3_req (apps : list A) (ins : list minput) :
  app_sends_requests A ops -> ins_ok 0 ins ->
  forall k r, In (k, r) (monitor p (length apps) (model_transcript A ops p apps ins)) -> In r open_rules3_req.
Proof.
  intros Hreq Hok.
  apply (generic_sound_transcript A ops p (length apps) (may_fire open_rules3_req) (JC (length apps)) (fun _ => True)); try assumption; try reflexivity.
  - in_leaf3.
  - intros a f apps0 buf tl m g f' HJ E _. exact (JC_api _ _ _ _ _ _ _ _ _ HJ E).
  - intros f apps0 buf tl m g now busy nb f' o apps' calls HJ Hlt Hnow Hnb E _.
    assert (Hlen : length apps0 = length apps) by (destruct HJ as ((HJ & _) & _); exact (b_n _ _ _ _ _ _ _ _ (JA_base _ _ _ _ _ _ _ _ _ HJ))).
    destruct (JC_poll _ _ _ _ _ _ _ _ _ _ _ _ _ _ Hlen HJ Hlt Hnow Hnb E) as (H1 & H2 & Hw & HJ' & HB & HR).
    split; [|split; [|exact HJ']].
    + rewrite H1. rewrite (e12b_ok A ops p (length apps) Hdata Hreq _ _ _ _ _ _ _ _ _ _ _ _ HB HR E). intros r [].
    + rewrite H2. apply y_e_live_open3; [exact Hw|]. auto.
  - intros f0 apps0 E Hn _. exact (JC_init _ _ _ E Hn).
  - apply transcript_ok_true.
Qed.

(* the liveness rule of C12 *)
Corollary c12_oracle_sound_gap_wait (apps : list A) (ins : list minput) :
  ins_ok 0 ins ->
  forall k r, In (k, r) (monitor p (length apps) (model_transcript A ops p apps ins)) -> r <> R12_gap_wait_never_ends.
Proof.
  intros Hok k r Hin ->. pose proof (fdl_oracle_sound3 _ _ Hok _ _ Hin) as H. unfold open_rules3, open_rules3_req in H. cbn in H.
  repeat (destruct H as [H|H]; [discriminate H|]). contradiction.
Qed.

(* C12 complete: no rule of C12 fires on a transcript of the model *)
Corollary c12_oracle_sound (apps : list A) (ins : list minput) :
  app_sends_requests A ops -> ins_ok 0 ins ->
  forall k r, In (k, r) (monitor p (length apps) (model_transcript A ops p apps ins)) -> rule_prop r <> PC12.
Proof.
  intros Hreq Hok k r Hin Hp. pose proof (fdl_oracle_sound3_req _ _ Hreq Hok _ _ Hin) as H. unfold open_rules3_req in H. cbn in H.
  repeat (destruct H as [<-|H]; [discriminate Hp|]). contradiction.
Qed.

End Master3.
