(* C12 - oracle soundness, the rest: on every transcript of the MODEL the executable rules R12_sweep_bound and
   R12_post_claim_scan_incomplete of Model/FdlOracle.v never fire.  Simulation between the bookkeeping of the
   second monitor (visit counter g_visit, per-address marks g_last, scan list g_scan) and the GAP state of the
   model, with the ranking function of C12_sweep_bound (visits_until) as the potential. *)
From Coq Require Import Arith FinFun.
From PB Require Import Common Tables FdlTables Telegram Phy TokenRing Params Fdl FdlOracle FdlProofs FdlStepProofs.
From PB Require Import C05Proofs C01Proofs C11Proofs C15Proofs C13Proofs C12Proofs.
From PB Require Import FdlOracleSound1 FdlOracleSound2 FdlOracleSound3 FdlOracleSound4 FdlOracleSound5 FdlOracleSound6
                       FdlOracleSound7 FdlOracleSound8 FdlOracleSound9 FdlOracleSound10 FdlOracleSound11 FdlOracleSoundAll.

(* ------------------------------------------------------------------------------------------ *)
(* the GAP of a station whose NS may lie at or above HSA: for addresses below HSA it is the GAP up to
   "NS = 0" (everything above TS)                                                               *)

Definition ens (H n : Z) : Z := if H <=? n then 0 else n.

Lemma ens_range H n : 0 < H -> 0 <= n -> 0 <= ens H n < H.
Proof. unfold ens. intros. destruct (Z.leb_spec H n); lia. Qed.

Lemma in_gapb_ens t n H x : 0 <= t < H -> 0 <= x < H -> in_gapb t n x = in_gapb t (ens H n) x.
Proof.
  unfold ens, in_gapb. intros Ht Hx. destruct (Z.leb_spec H n); [|reflexivity].
  destruct (Z.ltb_spec t n); [|lia]. destruct (Z.ltb_spec t 0); [lia|].
  destruct (Z.ltb_spec t x); destruct (Z.ltb_spec x n); destruct (Z.ltb_spec x 0); try lia; reflexivity.
Qed.

Lemma gnext_ens t n H c : 0 <= t < H -> 0 <= c < H -> gnext t n H c = gnext t (ens H n) H c.
Proof. intros Ht Hc. unfold gnext. rewrite (in_gapb_ens t n H (nxt H c) Ht (nxt_range H c Hc)). reflexivity. Qed.

Lemma gstep_ens t n H gw g : 0 <= t < H -> gap_wf H gw g -> gstep t n H gw g = gstep t (ens H n) H gw g.
Proof.
  intros Ht Hw. unfold gstep. destruct g as [rc|c]; cbn in Hw.
  - destruct (gw <? rc); [apply gnext_ens; assumption|reflexivity].
  - apply gnext_ens; assumption.
Qed.

(* the parameters of the sweep of a station *)
Definition sH (f : fdl) : Z := p_hsa (f_p f).
Definition sN (f : fdl) : Z := ens (sH f) (r_ns (f_ring f)).
Definition sG (f : fdl) : Z := p_gap_wait (f_p f).
Definition sB (f : fdl) : Z := gap_size (ts f) (sN f) (sH f) + sG f + 2.
Definition vu (f : fdl) (a : Z) : Z := visits_until (ts f) (sN f) (sH f) (sG f) a (f_gap f).
Definition gst (f : fdl) (g : gap_state) : gap_state := gstep (ts f) (sN f) (sH f) (sG f) g.

Definition sweep_ok (f : fdl) : Prop :=
  0 <= ts f < sH f /\ sH f <= 126 /\ 0 <= r_ns (f_ring f) /\ 0 <= sG f <= 254 /\ gap_wf (sH f) (sG f) (f_gap f).

Lemma Rep_sweep_ok n f : Rep n f -> sweep_ok f.
Proof.
  intros R. pose proof (Rep_ts _ _ R) as Hts. pose proof (bv_ranges _ (rep_p _ _ R)) as Hb.
  pose proof (ring_ok_ns _ _ (rep_ring _ _ R) ltac:(lia)) as Hns. pose proof (rep_gap _ _ R) as Hg.
  unfold sweep_ok, sH, sG. split; [lia|]. split; [lia|]. split; [lia|]. split; [lia|].
  unfold gap_ok in Hg. destruct (f_gap f); cbn; lia.
Qed.

Lemma in_gap_sN f x : sweep_ok f -> 0 <= x < sH f -> (in_gap (ts f) (r_ns (f_ring f)) x <-> in_gap (ts f) (sN f) x).
Proof.
  intros (Ht & _) Hx. rewrite <- !in_gapb_spec. unfold sN. rewrite (in_gapb_ens _ (r_ns (f_ring f)) (sH f) x Ht Hx). tauto.
Qed.

Lemma gap_visit_step_gst f : sweep_ok f -> gap_visit_step f = Ok (gst f (f_gap f)).
Proof.
  intros (Ht & Hh & Hn & Hgw & Hw). unfold gst, sN. rewrite <- (gstep_ens _ (r_ns (f_ring f)) _ _ _ Ht Hw).
  unfold sH, sG in *.
  assert (Hnx : forall c, 0 <= c < p_hsa (f_p f) ->
    next_gap_poll f c = Ok (gnext (ts f) (r_ns (f_ring f)) (p_hsa (f_p f)) c)).
  { intros c Hc. unfold next_gap_poll, gnext, nxt, u8_sub, u8_add.
    destruct (Z.leb_spec 0 (p_hsa (f_p f) - 1)); [|lia]. cbn [bind].
    destruct (Z.eqb_spec c (p_hsa (f_p f) - 1)); cbn [bind].
    - destruct (in_gapb _ _ 0); reflexivity.
    - destruct (Z.leb_spec (c + 1) 255); [|lia]. cbn [bind]. destruct (in_gapb _ _ (c + 1)); reflexivity. }
  unfold gap_visit_step, gstep. destruct (f_gap f) as [rc|c]; cbn in Hw.
  - destruct (Z.ltb_spec (p_gap_wait (f_p f)) rc); [apply Hnx; exact Ht|].
    unfold u8_add. destruct (Z.leb_spec (rc + 1) 255); [reflexivity|lia].
  - apply Hnx. exact Hw.
Qed.

(* the countdown, in the vocabulary of the station *)
Lemma vu_step f a : sweep_ok f -> 0 <= a < sH f -> in_gap (ts f) (r_ns (f_ring f)) a ->
  1 <= vu f a <= sB f /\
  (vu f a = 1 -> gst f (f_gap f) = GapDoPoll a) /\
  (1 < vu f a -> visits_until (ts f) (sN f) (sH f) (sG f) a (gst f (f_gap f)) = vu f a - 1).
Proof.
  intros Hok Ha Hin. pose proof Hok as (Ht & Hh & Hn & Hgw & Hw).
  apply (in_gap_sN f a Hok Ha) in Hin.
  assert (H0 : 0 < sH f) by lia.
  exact (visits_until_step _ _ _ _ _ _ Ht (ens_range (sH f) (r_ns (f_ring f)) H0 Hn) (proj1 Hgw) Ha Hin Hw).
Qed.

(* a GAP step that does not produce DoPoll a brings the poll of a one visit nearer *)
Lemma vu_dec f f' a : sweep_ok f -> 0 <= a < sH f -> in_gap (ts f) (r_ns (f_ring f)) a ->
  f_p f' = f_p f -> r_ns (f_ring f') = r_ns (f_ring f) -> f_gap f' = gst f (f_gap f) -> f_gap f' <> GapDoPoll a ->
  vu f' a = vu f a - 1.
Proof.
  intros Hok Ha Hin Hp Hns Hg Hne. destruct (vu_step f a Hok Ha Hin) as (Hr & H1 & H2).
  assert (Hgt : 1 < vu f a).
  { destruct (Z.eq_dec (vu f a) 1) as [E|E]; [|lia]. exfalso. apply Hne. rewrite Hg. exact (H1 E). }
  unfold vu at 1. unfold sN, sH, sG, ts. rewrite Hp, Hns, Hg. exact (H2 Hgt).
Qed.

Lemma vu_upper f a : sweep_ok f -> 0 <= a < sH f -> in_gap (ts f) (r_ns (f_ring f)) a -> 1 <= vu f a <= sB f.
Proof. intros Hok Ha Hin. exact (proj1 (vu_step f a Hok Ha Hin)). Qed.

(* same parameters, NS and GAP state: same count *)
Lemma vu_same f f' a : f_p f' = f_p f -> r_ns (f_ring f') = r_ns (f_ring f) -> f_gap f' = f_gap f -> vu f' a = vu f a.
Proof. intros Hp Hns Hg. unfold vu, sN, sH, sG, ts. rewrite Hp, Hns, Hg. reflexivity. Qed.
Lemma sB_same f f' : f_p f' = f_p f -> r_ns (f_ring f') = r_ns (f_ring f) -> sB f' = sB f.
Proof. intros Hp Hns. unfold sB, sN, sH, sG, ts. rewrite Hp, Hns. reflexivity. Qed.

(* ------------------------------------------------------------------------------------------ *)
(* the monitor's list of GAP addresses                                                          *)

Lemma in_gap_addrs p ns a : In a (gap_addrs p ns) <-> 0 <= a < 126 /\ in_gapb (p_address p) ns a = true /\ a < p_hsa p.
Proof.
  unfold gap_addrs. rewrite filter_In, in_map_iff. split.
  - intros ((k & <- & Hk) & Hb). apply in_seq in Hk. apply andb_true_iff in Hb. destruct Hb as (H1 & H2). apply Z.ltb_lt in H2.
    unfold addr_count in Hk. split; [lia|]. split; assumption.
  - intros (Ha & H1 & H2). split.
    + exists (Z.to_nat a). split; [lia|]. apply in_seq. unfold addr_count. lia.
    + apply andb_true_iff. split; [exact H1|apply Z.ltb_lt; exact H2].
Qed.

Definition addr_at (t H k : Z) : Z := if t + k <? H then t + k else t + k - H.

Lemma addr_at_spec t H k : 0 <= t < H -> 1 <= k < H -> 0 <= addr_at t H k < H /\ off t H (addr_at t H k) = k.
Proof.
  intros Ht Hk. unfold addr_at, off. destruct (Z.ltb_spec (t + k) H).
  - split; [lia|]. destruct (Z.leb_spec t (t + k)); lia.
  - split; [lia|]. destruct (Z.leb_spec t (t + k - H)); lia.
Qed.

Lemma gap_addrs_length p ns : builder_valid p -> 0 <= ns ->
  gap_size (p_address p) (ens (p_hsa p) ns) (p_hsa p) <= Z.of_nat (length (gap_addrs p ns)).
Proof.
  intros Hbv Hns. pose proof (bv_ranges _ Hbv) as Hb.
  set (t := p_address p). set (H := p_hsa p). set (n := ens H ns).
  assert (Ht : 0 <= t < H) by (unfold t, H; lia).
  assert (Hn : 0 <= n < H) by (apply ens_range; unfold H; lia).
  pose proof (gap_size_range t n H Ht Hn) as Hgs.
  set (ks := map Z.of_nat (seq 1 (Z.to_nat (gap_size t n H)))).
  assert (Hks : forall k, In k ks <-> 1 <= k <= gap_size t n H).
  { intros k. unfold ks. rewrite in_map_iff. split.
    - intros (j & <- & Hj). apply in_seq in Hj. lia.
    - intros Hk. exists (Z.to_nat k). split; [lia|]. apply in_seq. lia. }
  assert (Hnd : NoDup (map (addr_at t H) ks)).
  { apply (NoDup_map_inv (off t H)). rewrite map_map.
    rewrite (map_ext_in _ (fun k => k)); [rewrite map_id; unfold ks; apply FinFun.Injective_map_NoDup; [intros x y E; lia|apply seq_NoDup]|].
    intros k Hk. apply Hks in Hk. apply (addr_at_spec t H k Ht). lia. }
  assert (Hincl : incl (map (addr_at t H) ks) (gap_addrs p ns)).
  { intros x Hx. apply in_map_iff in Hx. destruct Hx as (k & <- & Hk). apply Hks in Hk.
    destruct (addr_at_spec t H k Ht ltac:(lia)) as (Hr & Ho).
    apply in_gap_addrs. fold t H. split; [unfold H in *; lia|]. split; [|lia].
    rewrite (in_gapb_ens t ns H _ Ht Hr). fold n. apply in_gapb_spec. apply (gap_offsets t n H _ Ht Hn Hr). lia. }
  pose proof (NoDup_incl_length Hnd Hincl) as Hlen. rewrite map_length in Hlen. unfold ks in Hlen. rewrite map_length, seq_length in Hlen. lia.
Qed.

(* ------------------------------------------------------------------------------------------ *)
(* small list facts for the monitor's per-address marks                                          *)

Lemma set_nth_nat_length l i v : length (set_nth_nat l i v) = length l.
Proof. revert i. induction l as [|x l IH]; intros i; [reflexivity|]. destruct i; cbn; [reflexivity|]. rewrite IH. reflexivity. Qed.

Lemma nth_set_nth_nat l i v j : nth j (set_nth_nat l i v) 0%nat = if Nat.eqb j i && Nat.ltb i (length l) then v else nth j l 0%nat.
Proof.
  revert i j. induction l as [|x l IH]; intros i j.
  - cbn. rewrite andb_false_r. destruct j; reflexivity.
  - destruct i as [|i]; destruct j as [|j]; cbn [set_nth_nat nth Nat.eqb length]; try reflexivity.
    rewrite IH. change (Nat.ltb (S i) (S (length l))) with (Nat.ltb i (length l)). reflexivity.
Qed.

Lemma nth_repeat_lt {X} (v d : X) k i : (i < k)%nat -> nth i (repeat v k) d = v.
Proof. revert i. induction k as [|k IH]; intros i Hi; [lia|]. destruct i; cbn; [reflexivity|]. apply IH. lia. Qed.

Lemma nth_repeat_le (v : nat) k i : (nth i (repeat v k) 0 <= v)%nat.
Proof. destruct (Nat.lt_ge_cases i k); [rewrite nth_repeat_lt by assumption; lia|rewrite nth_overflow by (rewrite repeat_length; assumption); lia]. Qed.

Lemma forall_no_send_app_sent calls : Forall no_send calls -> app_sent calls = false.
Proof.
  intros Hf. unfold app_sent. induction calls as [|c l IH]; [reflexivity|]. inversion Hf as [|? ? H1 H2]; subst. cbn [existsb]. rewrite (IH H2).
  destruct c as [i hp [r|]|i a t|i a]; try reflexivity. contradiction.
Qed.

(* builder-valid parameters: the slot time is not shorter than the synchronisation pause *)
Lemma bv_not_short_slot f : builder_valid (f_p f) -> ~ short_slot f.
Proof.
  intros Hbv. unfold short_slot, slot_time, p_bits_to_time.
  assert (Hs : sync_pause_bits <= p_slot_bits (f_p f)).
  { destruct Hbv as (_ & (Hmin & _) & _). change sync_pause_bits with 33. destruct (p_baud (f_p f)); cbn in Hmin; lia. }
  pose proof (bits_to_time_mono (p_baud (f_p f)) _ _ Hs). lia.
Qed.

Lemma y_in_list_spec a l : y_in_list a l = true <-> In a l.
Proof.
  unfold y_in_list. rewrite existsb_exists. split.
  - intros (x & Hx & E). apply Z.eqb_eq in E. subst x. exact Hx.
  - intros H. exists a. split; [exact H|apply Z.eqb_refl].
Qed.

Section Sweep.
Variable A : Type.
Variable ops : app_ops A.
Variable p : params.
Variable n : nat.
Hypothesis Happs : apps_total A ops.
Hypothesis Hbv : builder_valid p.
Hypothesis Hdata : app_sends_data A ops.

Definition lastv (g : mon2) (a : Z) : nat := nth (Z.to_nat a) (g_last g) 0%nat.

(* the simulation: for every GAP address, the visits counted since its last poll plus the visits the model still
   needs to poll it stay within the bound (one more while the GAP step of the current visit is still due) *)
Record SW (f : fdl) (g : mon2) : Prop := mkSW {
  sw_len : length (g_last g) = addr_count;
  sw_le : forall i, (nth i (g_last g) 0 <= g_visit g)%nat;
  sw_off : f_state f = Offline -> forall i, (i < addr_count)%nat -> nth i (g_last g) 0%nat = g_visit g;
  sw_main : forall a, 0 <= a < sH f -> in_gap (ts f) (r_ns (f_ring f)) a ->
            Z.of_nat (g_visit g - lastv g a) + vu f a <= sB f + pend (f_state f)
}.

(* ---- what the second monitor reads from the transmission of a poll ---- *)
Section Decode.
Variables (f f' : fdl) (now : Z) (busy : bool) (rxb : bytes) (o : phy_out) (calls : list call).
Hypothesis Hp : f_p f = p.
Let s := poll_event now busy rxb f' o calls.

Lemma L_poll a : tx o = Some (sr_wire a (ts f)) -> Forall no_send calls -> 0 <= a < 128 -> 0 <= ts f < 128 ->
  y_gap_poll p s = Some a /\ y_token_tx p s = None.
Proof.
  intros Htx Hns Ha Hts.
  assert (Hwf : wf_header (status_request_header a (ts f))) by (unfold wf_header, is_addr7; cbn; lia).
  assert (Hd : y_txt s = Some (TData (status_request_header a (ts f)) [])).
  { rewrite (y_txt_tx _ (sr_wire a (ts f))) by (cbn; exact Htx). unfold sr_wire. apply (decode_one_data _ [] Hwf). cbn. lia. }
  split.
  - unfold y_gap_poll. rewrite Hd. cbn [s poll_event s_calls status_request_header h_fc h_sa h_da is_fdl_status_request].
    rewrite app_sent_conv, (forall_no_send_app_sent _ Hns). unfold y_ts, ts. rewrite Hp, Z.eqb_refl. reflexivity.
  - unfold y_token_tx. rewrite Hd. reflexivity.
Qed.

Lemma L_tok da : tx o = Some (encode_token da (ts f)) -> y_token_tx p s = Some da /\ y_gap_poll p s = None.
Proof.
  intros Htx. assert (Hts : ts f = p_address p) by (unfold ts; rewrite Hp; reflexivity). rewrite Hts in Htx.
  split; [apply y_token_of_wire; exact Htx|].
  unfold y_gap_poll. rewrite (y_txt_tx _ (encode_token da (p_address p))) by (cbn; exact Htx). rewrite decode_one_token. reflexivity.
Qed.
End Decode.

Lemma kind_in_visit k : kind_in k [KPassToken; KAwaitStatusResponse; KUseToken; KAwaitDataResponse] = true <->
  (k = KPassToken \/ k = KAwaitStatusResponse \/ k = KUseToken \/ k = KAwaitDataResponse).
Proof. destruct k; cbn; split; intros H; try discriminate H; try tauto; repeat (destruct H as [H|H]; try discriminate H); discriminate H. Qed.

Lemma visit_state_kind s : visit_state s <-> kind_in (kind_of s) [KPassToken; KAwaitStatusResponse; KUseToken; KAwaitDataResponse] = true.
Proof. rewrite kind_in_visit. unfold visit_state, in_use. tauto. Qed.

(* ---- one poll ---- *)
Lemma sw_poll f apps buf tl m g now busy nb f' o apps' calls :
  Base A p n f apps buf tl m -> SW f g -> length apps = n ->
  poll ops f now (mkPhyIn busy (buf ++ nb)) apps = Ok (f', o, apps', calls) ->
  Rep (length apps') f' -> f_p f' = p ->
  let s := poll_event now busy (buf ++ nb) f' o calls in
  y_e_sweep p m g s = [] /\ SW f' (y_g' p n m g s).
Proof.
  intros HB HS Hlen E R' Hp' s.
  pose proof (b_rep _ _ _ _ _ _ _ _ HB) as R. pose proof (b_p _ _ _ _ _ _ _ _ HB) as Hp. pose proof (b_view _ _ _ _ _ _ _ _ HB) as Hv.
  pose proof (Rep_sweep_ok _ _ R) as Hok. pose proof (Rep_sweep_ok _ _ R') as Hok'.
  assert (Hpp : f_p f' = f_p f) by congruence.
  assert (Hk0 : y_k0 m = kind_of (f_state f)) by (unfold y_k0, y_pre; rewrite Hv; reflexivity).
  assert (Hk1 : y_k1 s = kind_of (f_state f')) by reflexivity.
  assert (Hn0 : v_ns (y_pre m) = r_ns (f_ring f)) by (unfold y_pre; rewrite Hv; reflexivity).
  assert (Hn1 : v_ns (y_post s) = r_ns (f_ring f')) by reflexivity.
  assert (Hts : ts f = p_address p) by (unfold ts; rewrite Hp; reflexivity).
  assert (Hts' : ts f' = ts f) by (unfold ts; rewrite Hpp; reflexivity).
  pose proof (Rep_ts _ _ R) as Htsr.
  pose proof (poll_sweep_rel A ops _ _ _ _ _ _ _ _ E) as Hsw.
  pose proof (poll_txflags A ops p Hdata _ _ _ _ _ _ _ _ _ R Hp E) as Htf. fold s in Htf.
  destruct HS as [SL SLe SOff SMain].
  (* a visit token always leaves the station in a state from which the next visit starts with a GAP step *)
  assert (Hvt : y_visit_tx p m s = true -> pend (f_state f') = 1 /\ f_state f' <> Offline).
  { unfold y_visit_tx. destruct (y_token_tx p s) as [da|] eqn:Et; [|discriminate]. intros Hk. rewrite Hk0 in Hk.
    apply y_token_x in Et. destruct (tf_token _ _ _ _ _ _ Htf _ _ Et) as (_ & (da' & Hw & Hcl) & _).
    destruct Hcl as [(_ & [(S1 & Hpre)|(S1 & Hpre)])|([S1|(att & S1)] & _)].
    - exfalso. apply kind_in_visit in Hk. destruct Hpre as [[K|[K|K]]|K]; try (rewrite K in Hk; cbn in Hk; intuition discriminate).
      destruct (f_state f); cbn in K; try discriminate K; cbn in Hk; intuition discriminate.
    - exfalso. apply kind_in_visit in Hk. rewrite Hpre in Hk. cbn in Hk. intuition discriminate.
    - rewrite S1. split; [reflexivity|discriminate].
    - rewrite S1. split; [reflexivity|discriminate]. }
  assert (HS' : SW f' (y_g' p n m g s)).
  { unfold y_g'. destruct (y_restart p m s) eqn:Er.
    - (* the window restarts: every mark is the current count *)
      constructor; cbn [g_last g_visit].
      + unfold y_last2. rewrite Er. apply repeat_length.
      + intros i. unfold y_last2. rewrite Er. unfold y_visit. pose proof (nth_repeat_le (g_visit g) addr_count i). destruct (y_visit_tx p m s); lia.
      + intros Hoff i Hi. unfold y_last2. rewrite Er. rewrite nth_repeat_lt by exact Hi. unfold y_visit.
        destruct (y_visit_tx p m s) eqn:Evt; [|reflexivity]. destruct (Hvt eq_refl) as (_ & C). contradiction.
      + intros a Ha Hin. unfold lastv. cbn [g_last]. unfold y_last2. rewrite Er.
        assert (Hi : (Z.to_nat a < addr_count)%nat) by (destruct Hok' as (_ & Hh & _); unfold addr_count; lia).
        rewrite nth_repeat_lt by exact Hi. pose proof (vu_upper f' a Hok' Ha Hin) as Hu. pose proof (pend_range (f_state f')) as Hpr.
        unfold y_visit. destruct (y_visit_tx p m s) eqn:Evt.
        * destruct (Hvt eq_refl) as (Hp1 & _). rewrite Hp1. lia.
        * lia.
    - (* no restart: same NS, no claim token, not back to listening / offline *)
      unfold y_restart in Er. apply orb_false_iff in Er. destruct Er as (Er & Er3). apply orb_false_iff in Er. destruct Er as (Er1 & Er2).
      apply negb_false_iff, Z.eqb_eq in Er1. rewrite Hn0, Hn1 in Er1.
      rewrite Hk1 in Er3.
      assert (HB' : sB f' = sB f) by (apply sB_same; assumption).
      assert (HH' : sH f' = sH f) by (unfold sH; rewrite Hpp; reflexivity).
      (* the four things a poll can do to the sweep *)
      destruct Hsw as [Hres|[(a & Htx & (l & Hl & Hnsd) & Hstep & Hg' & Hp0 & Hring & _)|[(da & Htx & (l & Hl & Hnsd) & Hvs & Hp1 & Hgs)|(Hq & Hrel)]]].
      + (* reset: only "the station was offline" is compatible with no restart *)
        assert (Hoff : f_state f = Offline).
        { destruct Hres as [K|[K|[K|[K|[(Htx & Hkk & _)|K]]]]].
          - destruct (f_state f); try discriminate K. reflexivity.
          - exfalso. pose proof (rep_st _ _ R) as St. destruct (f_state f); try discriminate K. exact St.
          - exfalso. rewrite K in Er3. discriminate Er3.
          - exfalso. rewrite K in Er3. discriminate Er3.
          - exfalso. destruct (L_tok f f' now busy (buf ++ nb) o calls Hp _ Htx) as (Ht & _). fold s in Ht.
            unfold y_claim_tx in Er2. rewrite Ht, Hk0 in Er2. unfold y_ts in Er2. rewrite <- Hts, Z.eqb_refl in Er2.
            destruct Hkk as [K|[K|K]]; rewrite K in Er2; discriminate Er2.
          - exfalso. apply (bv_not_short_slot f); [rewrite Hp; exact Hbv|exact K]. }
        assert (Hnv : y_visit_tx p m s = false).
        { unfold y_visit_tx. destruct (y_token_tx p s); [|reflexivity]. rewrite Hk0, Hoff. reflexivity. }
        assert (Hall : forall i, (i < addr_count)%nat -> nth i (y_last2 p m g s) 0%nat = g_visit g).
        { intros i Hi. unfold y_last2. replace (y_restart p m s) with false
            by (symmetry; unfold y_restart; rewrite Hn0, Hn1, Er1, Z.eqb_refl, Er2, Hk1, Er3; reflexivity).
          unfold y_last1. destruct (y_gap_poll p s) as [da|]; [|exact (SOff Hoff i Hi)].
          destruct ((0 <=? da) && (da <? 126)); [|exact (SOff Hoff i Hi)].
          rewrite nth_set_nth_nat. destruct (Nat.eqb i (Z.to_nat da) && Nat.ltb (Z.to_nat da) (length (g_last g))); [reflexivity|exact (SOff Hoff i Hi)]. }
        constructor; cbn [g_last g_visit]; unfold lastv; cbn [g_last]; unfold y_visit; rewrite ?Hnv.
        * unfold y_last2. destruct (y_restart p m s); [apply repeat_length|]. unfold y_last1.
          destruct (y_gap_poll p s) as [da|]; [|exact SL]. destruct ((0 <=? da) && (da <? 126)); [rewrite set_nth_nat_length|]; exact SL.
        * intros i. destruct (Nat.lt_ge_cases i addr_count) as [Hi|Hi]; [rewrite (Hall i Hi); lia|].
          rewrite nth_overflow; [lia|].
          unfold y_last2. destruct (y_restart p m s); [rewrite repeat_length; exact Hi|]. unfold y_last1.
          destruct (y_gap_poll p s) as [da|]; [|rewrite SL; exact Hi]. destruct ((0 <=? da) && (da <? 126)); [rewrite set_nth_nat_length|]; rewrite SL; exact Hi.
        * intros _ i Hi. exact (Hall i Hi).
        * intros a Ha Hin. unfold lastv. cbn [g_last].
          assert (Hi : (Z.to_nat a < addr_count)%nat) by (destruct Hok' as (_ & Hh & _); unfold addr_count; lia).
          rewrite (Hall _ Hi). pose proof (vu_upper f' a Hok' Ha Hin). pose proof (pend_range (f_state f')). lia.
      + (* a GAP request *)
        cbn in Hl. subst l.
        destruct (gap_visit_step_in_gap f a Hstep) as (Hina & Hrng).
        assert (Hco : gap_cursor_ok f).
        { split; [lia|]. intros c Ec. pose proof (rep_gap _ _ R) as G. rewrite Ec in G. exact G. }
        specialize (Hrng Hco).
        destruct (L_poll f f' now busy (buf ++ nb) o calls Hp a Htx Hnsd ltac:(lia) ltac:(lia)) as (Hgp & Htk). fold s in Hgp, Htk.
        assert (Hnv : y_visit_tx p m s = false) by (unfold y_visit_tx; rewrite Htk; reflexivity).
        assert (Hgst : f_gap f' = gst f (f_gap f)).
        { rewrite (gap_visit_step_gst f Hok) in Hstep. injection Hstep as Hstep. rewrite Hg'. symmetry. exact Hstep. }
        assert (Hidx : (0 <=? a) && (a <? 126) = true) by (apply andb_true_iff; split; [apply Z.leb_le|apply Z.ltb_lt]; lia).
        assert (HL2 : y_last2 p m g s = set_nth_nat (g_last g) (Z.to_nat a) (g_visit g)).
        { unfold y_last2. replace (y_restart p m s) with false
            by (symmetry; unfold y_restart; rewrite Hn0, Hn1, Er1, Z.eqb_refl, Er2, Hk1, Er3; reflexivity).
          unfold y_last1. rewrite Hgp, Hidx. reflexivity. }
        constructor; cbn [g_last g_visit]; unfold lastv; cbn [g_last]; unfold y_visit; rewrite ?Hnv, ?HL2.
        * rewrite set_nth_nat_length. exact SL.
        * intros i. rewrite nth_set_nth_nat. destruct (Nat.eqb i (Z.to_nat a) && Nat.ltb (Z.to_nat a) (length (g_last g))); [apply Nat.le_refl|apply SLe].
        * intros Hoff. rewrite Hoff in Hp0. discriminate Hp0.
        * intros a' Ha' Hin'. rewrite nth_set_nth_nat.
          rewrite HH' in Ha'. rewrite Hts', Er1 in Hin'. rewrite HB', Hp0.
          destruct (Z.eq_dec a' a) as [->|Hne].
          -- rewrite Nat.eqb_refl. replace (Nat.ltb (Z.to_nat a) (length (g_last g))) with true
               by (symmetry; apply Nat.ltb_lt; rewrite SL; unfold addr_count; lia).
             cbn [andb]. rewrite Nat.sub_diag. cbn [Z.of_nat].
             assert (Hin2 : in_gap (ts f') (r_ns (f_ring f')) a) by (rewrite Hts', Er1; exact Hin').
             pose proof (vu_upper f' a Hok' ltac:(rewrite HH'; lia) Hin2). lia.
          -- replace (Nat.eqb (Z.to_nat a') (Z.to_nat a)) with false by (symmetry; apply Nat.eqb_neq; lia). cbn [andb].
             assert (Hdec : vu f' a' = vu f a' - 1).
             { apply (vu_dec f f' a' Hok Ha' Hin' Hpp Er1 Hgst). rewrite Hg'. intros C. injection C as C. lia. }
             pose proof (SMain a' Ha' Hin') as Hm. unfold lastv in Hm. pose proof (pend_range (f_state f)). lia.
      + (* the token of a visit *)
        cbn in Hl. subst l.
        destruct (L_tok f f' now busy (buf ++ nb) o calls Hp da Htx) as (Htk & Hgp). fold s in Htk, Hgp.
        assert (Hyv : y_visit_tx p m s = true).
        { unfold y_visit_tx. rewrite Htk, Hk0. apply visit_state_kind. exact Hvs. }
        assert (HL2 : y_last2 p m g s = g_last g).
        { unfold y_last2. replace (y_restart p m s) with false
            by (symmetry; unfold y_restart; rewrite Hn0, Hn1, Er1, Z.eqb_refl, Er2, Hk1, Er3; reflexivity).
          unfold y_last1. rewrite Hgp. reflexivity. }
        constructor; cbn [g_last g_visit]; unfold lastv; cbn [g_last]; unfold y_visit; rewrite ?Hyv, ?HL2.
        * exact SL.
        * intros i. pose proof (SLe i). lia.
        * intros Hoff. destruct (Hvt Hyv) as (_ & C). contradiction.
        * intros a' Ha' Hin'.
          rewrite HH' in Ha'. rewrite Hts', Er1 in Hin'. rewrite HB', Hp1.
          pose proof (SMain a' Ha' Hin') as Hm. unfold lastv in Hm. pose proof (SLe (Z.to_nat a')) as Hle.
          replace (Z.of_nat (S (g_visit g) - nth (Z.to_nat a') (g_last g) 0%nat)) with (Z.of_nat (g_visit g - nth (Z.to_nat a') (g_last g) 0%nat) + 1) by lia.
          destruct Hgs as [(Hpf & Hstep & (k & Hw))|(Hpf & Hgsame)].
          -- assert (Hgst : f_gap f' = gst f (f_gap f)).
             { rewrite (gap_visit_step_gst f Hok) in Hstep. injection Hstep as Hstep. symmetry. exact Hstep. }
             assert (Hdec : vu f' a' = vu f a' - 1).
             { apply (vu_dec f f' a' Hok Ha' Hin' Hpp Er1 Hgst). rewrite Hw. discriminate. }
             lia.
          -- rewrite (vu_same f f' a' Hpp Er1 Hgsame). lia.
      + (* neither *)
        assert (Hnone : y_gap_poll p s = None /\ y_visit_tx p m s = false).
        { destruct Hq as [Htx|[(wire & cs & i & hp & er & Htx & Hcs)|[(src & st & Htx & Hkk)|(da & Htx & Hkk)]]].
          - destruct (y_tx_none p now busy (buf ++ nb) f' o calls Htx) as (H1 & H2). fold s in H1, H2.
            split; [exact H2|]. unfold y_visit_tx. rewrite H1. reflexivity.
          - destruct (app_wire_is_data A ops Hdata _ _ _ _ _ _ _ _ _ _ _ _ _ E Hcs) as (h & pdu & Hd).
            split.
            + unfold y_gap_poll. rewrite (y_txt_tx _ wire) by (cbn; exact Htx). rewrite Hd.
              cbn [s poll_event s_calls]. rewrite app_sent_conv, Hcs, app_sent_last. cbn [negb]. rewrite andb_false_r. reflexivity.
            + unfold y_visit_tx, y_token_tx. rewrite (y_txt_tx _ wire) by (cbn; exact Htx). rewrite Hd. reflexivity.
          - split.
            + destruct (y_gap_poll p s) as [a|] eqn:Eg; [|reflexivity]. exfalso.
              destruct (tf_gap _ _ _ _ _ _ Htf a Eg) as (_ & _ & _ & _ & [(_ & Hor)|(_ & Hor)]).
              * destruct Hor as [(att & S1)|[K|K]]; destruct Hkk as [Q|Q]; try (rewrite S1 in Q; discriminate Q); rewrite K in Q; discriminate Q.
              * destruct Hkk as [Q|Q]; rewrite Hor in Q; discriminate Q.
            + unfold y_visit_tx. destruct (y_token_tx p s); [|reflexivity]. rewrite Hk0. destruct Hkk as [Q|Q]; rewrite Q; reflexivity.
          - split.
            + destruct (y_gap_poll p s) as [a|] eqn:Eg; [|reflexivity]. exfalso.
              destruct (tf_gap _ _ _ _ _ _ Htf a Eg) as (_ & _ & _ & _ & [(_ & Hor)|(_ & Hor)]).
              * destruct Hor as [(att & S1)|[K|K]]; try (rewrite S1 in Hkk; discriminate Hkk); rewrite K in Hkk; discriminate Hkk.
              * rewrite Hor in Hkk. discriminate Hkk.
            + unfold y_visit_tx. destruct (y_token_tx p s); [|reflexivity]. rewrite Hk0, Hkk. reflexivity. }
        destruct Hnone as (Hgp & Hnv).
        assert (HL2 : y_last2 p m g s = g_last g).
        { unfold y_last2. replace (y_restart p m s) with false
            by (symmetry; unfold y_restart; rewrite Hn0, Hn1, Er1, Z.eqb_refl, Er2, Hk1, Er3; reflexivity).
          unfold y_last1. rewrite Hgp. reflexivity. }
        assert (Hnoff : f_state f' <> Offline) by (intros C; rewrite C in Er3; discriminate Er3).
        constructor; cbn [g_last g_visit]; unfold lastv; cbn [g_last]; unfold y_visit; rewrite ?Hnv, ?HL2.
        * exact SL.
        * exact SLe.
        * intros Hoff. contradiction.
        * intros a' Ha' Hin'.
          rewrite HH' in Ha'. rewrite Hts', Er1 in Hin'. rewrite HB'.
          pose proof (SMain a' Ha' Hin') as Hm. unfold lastv in Hm.
          destruct Hrel as [(Hgsame & Hpd)|(Hpf & Hpf' & Hstep & _ & (k & Hw) & _)].
          -- rewrite (vu_same f f' a' Hpp Er1 Hgsame). lia.
          -- assert (Hgst : f_gap f' = gst f (f_gap f)).
             { rewrite (gap_visit_step_gst f Hok) in Hstep. injection Hstep as Hstep. symmetry. exact Hstep. }
             assert (Hdec : vu f' a' = vu f a' - 1).
             { apply (vu_dec f f' a' Hok Ha' Hin' Hpp Er1 Hgst). rewrite Hw. discriminate. }
             lia. }
  split; [|exact HS'].
  (* the rule: a consequence of the invariant after the poll *)
  unfold y_e_sweep. cbv zeta. destruct (y_visit_tx p m s && negb (y_restart p m s)) eqn:Ec; [|reflexivity].
  match goal with |- check ?b _ = [] => replace b with true; [reflexivity|symmetry] end.
  apply forallb_forall. intros a Ha. apply Nat.leb_le.
  apply in_gap_addrs in Ha. destruct Ha as (Ha & Hgb & Hah). rewrite Hn1 in Hgb. rewrite Hn1.
  destruct HS' as [_ _ _ SMain']. unfold lastv, y_g' in SMain'. cbn [g_last g_visit] in SMain'.
  assert (Ha' : 0 <= a < sH f') by (unfold sH; rewrite Hp'; lia).
  assert (Hin' : in_gap (ts f') (r_ns (f_ring f')) a) by (apply in_gapb_spec; rewrite Hts', Hts; exact Hgb).
  pose proof (SMain' a Ha' Hin') as Hm.
  pose proof (vu_upper f' a Hok' Ha' Hin'). pose proof (pend_range (f_state f')).
  destruct Hok' as (_ & _ & Hns' & _).
  pose proof (gap_addrs_length p (r_ns (f_ring f')) Hbv Hns') as Hlen2.
  unfold sB, sN, sH, sG, ts in Hm. rewrite Hp' in Hm. pose proof (bv_ranges _ Hbv). lia.
Qed.

Lemma sw_api a f f' m g : SW f g -> api_result p a f = Ok f' -> Rep n f' ->
  SW f' (snd (mon_after_api a (view_of f') m g)).
Proof.
  intros HS E R'. pose proof (Rep_sweep_ok _ _ R') as Hok'.
  assert (Hnew : SW f' mon2_reset).
  { constructor; cbn [mon2_reset g_last g_visit].
    - apply repeat_length.
    - intros i. pose proof (nth_repeat_le 0%nat addr_count i). lia.
    - intros _ i Hi. apply nth_repeat_lt. exact Hi.
    - intros x Hx Hin. pose proof (vu_upper f' x Hok' Hx Hin). pose proof (pend_range (f_state f')). cbn. lia. }
  destruct a; cbn [api_result mon_after_api snd] in *; try exact Hnew.
  - unfold set_online, set_state in E. injection E as <-. destruct HS as [S1 S2 S3 S4]. constructor; assumption.
  - discriminate E.
Qed.

Lemma sw_init f0 : fdl_new p = Ok f0 -> Rep n f0 -> SW f0 mon2_reset.
Proof.
  intros E R'. pose proof (Rep_sweep_ok _ _ R') as Hok'.
  constructor; cbn [mon2_reset g_last g_visit].
  - apply repeat_length.
  - intros i. pose proof (nth_repeat_le 0%nat addr_count i). lia.
  - intros _ i Hi. apply nth_repeat_lt. exact Hi.
  - intros x Hx Hin. pose proof (vu_upper f0 x Hok' Hx Hin). pose proof (pend_range (f_state f0)). cbn. lia.
Qed.

(* ------------------------------------------------------------------------------------------ *)
(* R12_post_claim_scan_incomplete: the scan list of the monitor lies ahead of the cursor         *)

Record SC (f : fdl) (g : mon2) : Prop := mkSC {
  sc_none : kind_of (f_state f) <> KClaimToken -> g_scan g = None;
  sc_list : forall l, g_scan g = Some l ->
     match f_gap f with
     | GapDoPoll c => forall a, In a l -> 0 <= a < sH f /\ off (ts f) (sH f) c < off (ts f) (sH f) a
     | GapWaiting _ => forall a, In a l -> ~ In a (gap_addrs p (r_ns (f_ring f)))
     end
}.

(* the successor of the cursor: one offset further when it is in the GAP; outside the GAP when the sweep ends *)
Lemma gnext_cases t nn H c : 0 <= t < H -> 0 <= nn < H -> 0 <= c < H ->
  (gnext t nn H c = GapDoPoll (nxt H c) /\ off t H (nxt H c) = off t H c + 1 /\ 1 <= off t H c + 1 <= gap_size t nn H) \/
  (gnext t nn H c = GapWaiting 0 /\ (off t H c = H - 1 \/ gap_size t nn H < off t H c + 1)).
Proof.
  intros Ht Hn Hc. rewrite (gnext_off t nn H c Ht Hn Hc). cbv zeta. pose proof (off_nxt t H c Ht Hc) as Ho.
  pose proof (off_range t H c Ht Hc) as Hr.
  destruct (Z.eqb_spec (off t H c) (H - 1)) as [E|E].
  - cbn. right. split; [reflexivity|left; exact E].
  - destruct (Z.leb_spec 1 (off t H c + 1)); [|lia]. cbn [andb].
    destruct (Z.leb_spec (off t H c + 1) (gap_size t nn H)).
    + left. split; [reflexivity|]. split; [exact Ho|lia].
    + right. split; [reflexivity|right; lia].
Qed.

Lemma in_gap_addrs_off f a : sweep_ok f -> f_p f = p -> In a (gap_addrs p (r_ns (f_ring f))) ->
  0 <= a < sH f /\ 1 <= off (ts f) (sH f) a <= gap_size (ts f) (sN f) (sH f).
Proof.
  intros (Ht & Hh & Hn & _) Hp Ha. apply in_gap_addrs in Ha. destruct Ha as (Ha & Hb & Hah).
  assert (Ha' : 0 <= a < sH f) by (unfold sH; rewrite Hp; lia). split; [exact Ha'|].
  replace (p_address p) with (ts f) in Hb by (unfold ts; rewrite Hp; reflexivity).
  rewrite (in_gapb_ens _ _ (sH f) a Ht Ha') in Hb.
  assert (H0 : 0 < sH f) by lia.
  unfold sN in Hb |- *. rewrite (in_gapb_off _ _ _ _ Ht (ens_range (sH f) (r_ns (f_ring f)) H0 Hn) Ha') in Hb. apply andb_true_iff in Hb. destruct Hb as (H1 & H2).
  apply Z.leb_le in H1. apply Z.leb_le in H2. lia.
Qed.

(* the two claim tokens come first: a poll in ClaimToken::FirstToken / SecondToken stays in ClaimToken *)
Lemma early_claim_poll f now pin (apps : list A) f' o apps' calls :
  poll ops f now pin apps = Ok (f', o, apps', calls) ->
  f_state f = ClaimToken StepFirstToken \/ f_state f = ClaimToken StepSecondToken ->
  kind_of (f_state f') = KClaimToken.
Proof.
  intros H Hst. apply poll_unfold in H. destruct H as (w' & Hi & _).
  assert (Hk : online_entry_kind (kind_of (f_state f)) = false /\ passive_entry_kind (kind_of (f_state f)) = false)
    by (destruct Hst as [S|S]; rewrite S; split; reflexivity).
  apply poll_inner_cases in Hi. destruct Hi as [Hpre|(f3 & w3 & Hpre & _ & Hd)].
  - pose proof (pre_rel_state A _ _ _ _ Hpre (proj1 Hk) (proj2 Hk)) as Hs. rewrite Hs. destruct Hst as [S|S]; rewrite S; reflexivity.
  - pose proof (pre_rel_state A _ _ _ _ Hpre (proj1 Hk) (proj2 Hk)) as Hs.
    unfold dispatch in Hd. rewrite Hs in Hd.
    assert (Hdc : do_claim_token A f3 now w3 = Ok (f', w')) by (destruct Hst as [S|S]; rewrite S in Hd; exact Hd).
    apply do_claim_token_spec in Hdc. destruct Hdc as (st0 & Es & _ & _ & _ & _ & Hcases). rewrite Hs in Es.
    destruct Hst as [S|S]; rewrite S in Es; injection Es as <-;
      destruct Hcases as (_ & [(_ & S1 & _)|(_ & _ & S1 & _)]); rewrite S1; try rewrite Hs, S; reflexivity.
Qed.

(* the monitor reads neither a GAP request nor (outside the idle states and CheckTokenPass) a token from the
   transmissions that are neither *)
Lemma qtx_read f apps now busy rxb f' o apps' calls :
  Rep (length apps) f -> f_p f = p ->
  poll ops f now (mkPhyIn busy rxb) apps = Ok (f', o, apps', calls) -> sw_qtx f calls (tx o) ->
  let s := poll_event now busy rxb f' o calls in
  y_gap_poll p s = None /\
  (y_token_tx p s = None \/ kind_of (f_state f) = KListenToken \/ kind_of (f_state f) = KActiveIdle \/ kind_of (f_state f) = KCheckTokenPass).
Proof.
  intros R Hp E Hq s.
  pose proof (poll_txflags A ops p Hdata _ _ _ _ _ _ _ _ _ R Hp E) as Htf. fold s in Htf.
  destruct Hq as [Htx|[(wire & cs & i & hp & er & Htx & Hcs)|[(src & st & Htx & Hkk)|(da & Htx & Hkk)]]].
  - destruct (y_tx_none p now busy rxb f' o calls Htx) as (H1 & H2). fold s in H1, H2. split; [exact H2|left; exact H1].
  - destruct (app_wire_is_data A ops Hdata _ _ _ _ _ _ _ _ _ _ _ _ _ E Hcs) as (h & pdu & Hd).
    split.
    + unfold y_gap_poll. rewrite (y_txt_tx _ wire) by (cbn; exact Htx). rewrite Hd.
      cbn [s poll_event s_calls]. rewrite app_sent_conv, Hcs, app_sent_last. cbn [negb]. rewrite andb_false_r. reflexivity.
    + left. unfold y_token_tx. rewrite (y_txt_tx _ wire) by (cbn; exact Htx). rewrite Hd. reflexivity.
  - split; [|destruct Hkk as [Q|Q]; [right; left; exact Q|right; right; left; exact Q]].
    destruct (y_gap_poll p s) as [a|] eqn:Eg; [|reflexivity]. exfalso.
    destruct (tf_gap _ _ _ _ _ _ Htf a Eg) as (_ & _ & _ & _ & [(_ & Hor)|(_ & Hor)]).
    + destruct Hor as [(att & S1)|[K|K]]; destruct Hkk as [Q|Q]; try (rewrite S1 in Q; discriminate Q); rewrite K in Q; discriminate Q.
    + destruct Hkk as [Q|Q]; rewrite Hor in Q; discriminate Q.
  - split; [|right; right; right; exact Hkk].
    destruct (y_gap_poll p s) as [a|] eqn:Eg; [|reflexivity]. exfalso.
    destruct (tf_gap _ _ _ _ _ _ Htf a Eg) as (_ & _ & _ & _ & [(_ & Hor)|(_ & Hor)]).
    + destruct Hor as [(att & S1)|[K|K]]; try (rewrite S1 in Hkk; discriminate Hkk); rewrite K in Hkk; discriminate Hkk.
    + rewrite Hor in Hkk. discriminate Hkk.
Qed.

(* the claim token as the monitor reads it: the station is claiming and its GAP cursor is back at TS *)
Lemma claim_tx_model f apps now busy rxb f' o apps' calls m :
  Rep (length apps) f -> f_p f = p -> m_view m = view_of f ->
  poll ops f now (mkPhyIn busy rxb) apps = Ok (f', o, apps', calls) ->
  let s := poll_event now busy rxb f' o calls in
  y_claim_tx p m s = true -> kind_of (f_state f') = KClaimToken /\ f_gap f' = GapDoPoll (ts f).
Proof.
  intros R Hp Hv E s Hc.
  pose proof (poll_txflags A ops p Hdata _ _ _ _ _ _ _ _ _ R Hp E) as Htf. fold s in Htf.
  assert (Hts : ts f = p_address p) by (unfold ts; rewrite Hp; reflexivity).
  unfold y_claim_tx in Hc. destruct (y_token_tx p s) as [da|] eqn:Et; [|discriminate Hc].
  apply andb_true_iff in Hc. destruct Hc as (Hda & Hk). apply Z.eqb_eq in Hda. unfold y_ts in Hda. subst da.
  unfold y_k0, y_pre in Hk. rewrite Hv in Hk. cbn [view_of v_kind] in Hk.
  assert (Hkk : kind_of (f_state f) = KListenToken \/ kind_of (f_state f) = KActiveIdle \/ kind_of (f_state f) = KClaimToken)
    by (destruct (kind_of (f_state f)); try discriminate Hk; tauto).
  apply y_token_x in Et. destruct (tf_token _ _ _ _ _ _ Htf _ _ Et) as (_ & (da' & Hw & Hcl) & Hstx).
  cbn [s poll_event s_tx] in Hstx. rewrite <- Hts in Hstx.
  assert (Hk' : kind_of (f_state f') = KClaimToken).
  { destruct Hcl as [(_ & [(S1 & _)|(S1 & _)])|(_ & Hpre)]; try (rewrite S1; reflexivity).
    exfalso. destruct Hpre as [K|[K|[K|[K|K]]]]; destruct Hkk as [Q|[Q|Q]]; rewrite Q in K; discriminate K. }
  split; [exact Hk'|].
  pose proof (poll_sweep_rel A ops _ _ _ _ _ _ _ _ E) as Hsw. rewrite Hstx in Hsw.
  destruct Hsw as [Hres|[(a & Htx & _)|[(da & Htx & _ & Hvs & _)|(Hq & _)]]].
  - destruct Hres as [K|[K|[K|[K|[(_ & _ & G & _)|K]]]]].
    + exfalso. destruct Hkk as [Q|[Q|Q]]; rewrite Q in K; discriminate K.
    + exfalso. destruct Hkk as [Q|[Q|Q]]; rewrite Q in K; discriminate K.
    + exfalso. rewrite Hk' in K. discriminate K.
    + exfalso. rewrite Hk' in K. discriminate K.
    + exact G.
    + exfalso. apply (bv_not_short_slot f); [rewrite Hp; exact Hbv|exact K].
  - exfalso. unfold sr_wire, encode_token in Htx. cbn in Htx. discriminate Htx.
  - exfalso. destruct Hvs as [K|[K|[K|K]]]; destruct Hkk as [Q|[Q|Q]]; rewrite Q in K; discriminate K.
  - exfalso. destruct Hq as [Htx|[(wire & cs & i & hp & er & Htx & Hcs)|[(src & st & Htx & _)|(da & _ & K)]]].
    + discriminate Htx.
    + injection Htx as <-. destruct (app_wire_is_data A ops Hdata _ _ _ _ _ _ _ _ _ _ _ _ _ E Hcs) as (h & pdu & Hd).
      rewrite decode_one_token in Hd. discriminate Hd.
    + unfold reply_wire, encode_token in Htx. cbn in Htx. discriminate Htx.
    + destruct Hkk as [Q|[Q|Q]]; rewrite Q in K; discriminate K.
Qed.

Lemma sc_poll f apps buf tl m g now busy nb f' o apps' calls :
  Base A p n f apps buf tl m -> SC f g -> length apps = n ->
  poll ops f now (mkPhyIn busy (buf ++ nb)) apps = Ok (f', o, apps', calls) ->
  Rep (length apps') f' -> f_p f' = p ->
  let s := poll_event now busy (buf ++ nb) f' o calls in
  y_e_scan p m g s = [] /\ SC f' (y_g' p n m g s).
Proof.
  intros HB HC Hlen E R' Hp' s.
  pose proof (b_rep _ _ _ _ _ _ _ _ HB) as R. pose proof (b_p _ _ _ _ _ _ _ _ HB) as Hp. pose proof (b_view _ _ _ _ _ _ _ _ HB) as Hv.
  pose proof (Rep_sweep_ok _ _ R) as Hok. pose proof (Rep_sweep_ok _ _ R') as Hok'.
  assert (Hpp : f_p f' = f_p f) by congruence.
  assert (Hk0 : y_k0 m = kind_of (f_state f)) by (unfold y_k0, y_pre; rewrite Hv; reflexivity).
  assert (Hk1 : y_k1 s = kind_of (f_state f')) by reflexivity.
  assert (Hn1 : v_ns (y_post s) = r_ns (f_ring f')) by reflexivity.
  assert (Hts : ts f = p_address p) by (unfold ts; rewrite Hp; reflexivity).
  assert (Hts' : ts f' = ts f) by (unfold ts; rewrite Hpp; reflexivity).
  assert (HH' : sH f' = sH f) by (unfold sH; rewrite Hpp; reflexivity).
  pose proof (Rep_ts _ _ R) as Htsr.
  pose proof (poll_sweep_rel A ops _ _ _ _ _ _ _ _ E) as Hsw.
  pose proof (poll_txflags A ops p Hdata _ _ _ _ _ _ _ _ _ R Hp E) as Htf. fold s in Htf.
  pose proof (claim_tx_model f apps now busy (buf ++ nb) f' o apps' calls m R Hp Hv E) as Hclaim. fold s in Hclaim. cbv zeta in Hclaim.
  destruct HC as [CN CL].
  pose proof Hok as (Ht & Hh & Hnsr & Hgw & Hwf).
  assert (HnN : 0 <= sN f < sH f) by (apply ens_range; lia).
  (* what a poll of a claiming station that keeps claiming (and sends no claim token) does to cursor and scan list *)
  assert (Hstep : kind_of (f_state f) = KClaimToken -> kind_of (f_state f') = KClaimToken -> y_claim_tx p m s = false ->
    (exists a c, y_gap_poll p s = Some a /\ f_gap f = GapDoPoll c /\ f_gap f' = GapDoPoll a /\ gst f (GapDoPoll c) = GapDoPoll a) \/
    (y_gap_poll p s = None /\ f_gap f' = f_gap f) \/
    (y_gap_poll p s = None /\ exists c k, f_gap f = GapDoPoll c /\ f_gap f' = GapWaiting k /\ gst f (GapDoPoll c) = GapWaiting k /\ f_ring f' = f_ring f)).
  { intros Hkc Hkc' Hnc.
    destruct Hsw as [Hres|[(a & Htx & (l0 & Hl0 & Hnsd) & Hst & Hg' & _ & _ & Hcur)|[(da & _ & _ & Hvs & _)|(Hq & Hrel)]]].
    - exfalso. destruct Hres as [K|[K|[K|[K|[(Htx & _)|K]]]]]; try (rewrite Hkc in K; discriminate K); try (rewrite Hkc' in K; discriminate K).
      + destruct (L_tok f f' now busy (buf ++ nb) o calls Hp _ Htx) as (Htk & _). fold s in Htk.
        unfold y_claim_tx in Hnc. rewrite Htk, Hk0, Hkc in Hnc. unfold y_ts in Hnc. rewrite <- Hts, Z.eqb_refl in Hnc. discriminate Hnc.
      + apply (bv_not_short_slot f); [rewrite Hp; exact Hbv|exact K].
    - left. cbn in Hl0. subst l0. destruct (Hcur Hkc) as (c & Ec).
      destruct (gap_visit_step_in_gap f a Hst) as (_ & Hrng).
      assert (Hco : gap_cursor_ok f).
      { split; [lia|]. intros c0 Ec0. pose proof (rep_gap _ _ R) as G. rewrite Ec0 in G. exact G. }
      specialize (Hrng Hco).
      destruct (L_poll f f' now busy (buf ++ nb) o calls Hp a Htx Hnsd ltac:(lia) ltac:(lia)) as (Hgp & _). fold s in Hgp.
      exists a, c. split; [exact Hgp|]. split; [exact Ec|]. split; [exact Hg'|].
      rewrite (gap_visit_step_gst f Hok), Ec in Hst. injection Hst as Hst. exact Hst.
    - exfalso. destruct Hvs as [K|[K|[K|K]]]; rewrite Hkc in K; discriminate K.
    - destruct (qtx_read f apps now busy (buf ++ nb) f' o apps' calls R Hp E Hq) as (Hgp & _). fold s in Hgp.
      destruct Hrel as [(Hgs & _)|(_ & _ & Hst & (c & Ec) & (k & Ew) & Hring)].
      + right. left. split; assumption.
      + right. right. split; [exact Hgp|]. exists c, k. split; [exact Ec|]. split; [exact Ew|]. split; [|exact Hring].
        rewrite (gap_visit_step_gst f Hok), Ec, Ew in Hst. injection Hst as Hst. exact Hst. }
  (* the list stays ahead of the cursor / outside the GAP *)
  assert (Hahead : forall l c a, (forall x, In x l -> 0 <= x < sH f /\ off (ts f) (sH f) c < off (ts f) (sH f) x) -> 0 <= c < sH f ->
     gst f (GapDoPoll c) = GapDoPoll a ->
     forall x, In x (filter (fun y => negb (y =? a)) l) -> 0 <= x < sH f /\ off (ts f) (sH f) a < off (ts f) (sH f) x).
  { intros l c a Hl Hc Hg x Hx. apply filter_In in Hx. destruct Hx as (Hx & Hne). apply negb_true_iff, Z.eqb_neq in Hne.
    destruct (Hl x Hx) as (Hxr & Hox). split; [exact Hxr|].
    unfold gst, gstep in Hg. destruct (gnext_cases (ts f) (sN f) (sH f) c Ht HnN Hc) as [(G1 & G2 & _)|(G1 & _)]; rewrite G1 in Hg; [|discriminate Hg].
    injection Hg as <-. rewrite G2.
    assert (off (ts f) (sH f) x <> off (ts f) (sH f) (nxt (sH f) c)).
    { intros C. apply Hne. apply (off_inj (ts f) (sH f)); try assumption. apply nxt_range. exact Hc. }
    lia. }
  assert (Hend : forall l c k, (forall x, In x l -> 0 <= x < sH f /\ off (ts f) (sH f) c < off (ts f) (sH f) x) -> 0 <= c < sH f ->
     gst f (GapDoPoll c) = GapWaiting k -> forall x, In x l -> ~ In x (gap_addrs p (r_ns (f_ring f)))).
  { intros l c k Hl Hc Hg x Hx Hin. destruct (Hl x Hx) as (Hxr & Hox).
    destruct (in_gap_addrs_off f x Hok Hp Hin) as (_ & Hgx).
    pose proof (off_range (ts f) (sH f) x Ht Hxr).
    unfold gst, gstep in Hg. destruct (gnext_cases (ts f) (sN f) (sH f) c Ht HnN Hc) as [(G1 & _)|(_ & [G2|G2])]; [rewrite G1 in Hg; discriminate Hg|lia|lia]. }
  assert (Hcur : forall c, f_gap f = GapDoPoll c -> 0 <= c < sH f) by (intros c Ec; rewrite Ec in Hwf; exact Hwf).
  assert (HC' : SC f' (y_g' p n m g s)).
  { unfold y_g'. constructor; cbn [g_scan].
    - (* outside the claim phase there is no scan list *)
      intros Hnk'. unfold y_scan. destruct (y_scan_ends m s) eqn:Ese; [reflexivity|].
      unfold y_scan_ends in Ese. rewrite Hk0, Hk1 in Ese.
      assert (Hnk : kind_of (f_state f) <> KClaimToken).
      { intros C. rewrite C in Ese. cbn in Ese. destruct (kind_of (f_state f')); try discriminate Ese. contradiction. }
      destruct (kind_in (y_k1 s) [KClaimToken; KListenToken; KActiveIdle]); [|reflexivity].
      unfold y_scan1. destruct (y_claim_tx p m s) eqn:Ec; [destruct (Hclaim eq_refl) as (C & _); contradiction|].
      rewrite (CN Hnk). reflexivity.
    - intros l' Hl'. unfold y_scan in Hl'. destruct (y_scan_ends m s) eqn:Ese; [discriminate Hl'|].
      destruct (kind_in (y_k1 s) [KClaimToken; KListenToken; KActiveIdle]) eqn:Ek1; [|discriminate Hl'].
      unfold y_scan1 in Hl'. destruct (y_claim_tx p m s) eqn:Ec.
      + (* claim token: the whole GAP, cursor at TS *)
        destruct (Hclaim eq_refl) as (_ & G). rewrite G. injection Hl' as <-.
        intros a Ha. destruct (in_gap_addrs_off f' a Hok' Hp' Ha) as (Hr & Ho). split; [exact Hr|].
        rewrite Hts'. rewrite off_self. rewrite Hts' in Ho. lia.
      + destruct (g_scan g) as [l|] eqn:Eg; [|destruct (y_gap_poll p s); discriminate Hl'].
        assert (Hkc : kind_of (f_state f) = KClaimToken).
        { destruct (state_kind_eqb (kind_of (f_state f)) KClaimToken) eqn:Ek; [destruct (kind_of (f_state f)); try discriminate Ek; reflexivity|].
          exfalso. assert (Hn : kind_of (f_state f) <> KClaimToken) by (intros C; rewrite C in Ek; discriminate Ek).
          pose proof (CN Hn) as C. congruence. }
        assert (Hkc' : kind_of (f_state f') = KClaimToken).
        { unfold y_scan_ends in Ese. rewrite Hk0, Hk1, Hkc in Ese. cbn in Ese. apply negb_false_iff in Ese.
          destruct (kind_of (f_state f')); try discriminate Ese. reflexivity. }
        pose proof (CL l eq_refl) as Hinv.
        destruct (Hstep Hkc Hkc' eq_refl) as [(a & c & Hgp & Ec0 & Eg' & Hgst)|[(Hgp & Hgs)|(Hgp & c & k & Ec0 & Eg' & Hgst & Hring)]].
        * rewrite Hgp in Hl'. injection Hl' as <-. rewrite Eg'. rewrite Ec0 in Hinv.
          rewrite Hts', HH'. exact (Hahead l c a Hinv (Hcur c Ec0) Hgst).
        * rewrite Hgp in Hl'. injection Hl' as <-. rewrite Hgs.
          destruct (f_gap f) as [rc|c] eqn:Egf.
          -- (* GAP state Waiting: the station is not waiting for a reply, its ring view is unchanged *)
             assert (Hns : r_ns (f_ring f') = r_ns (f_ring f)).
             { destruct (f_state f) as [ | | | | |st| | | | ] eqn:Es; try discriminate Hkc.
               destruct (FdlOracleSound7.claim_poll_facts A ops (length apps) _ _ _ _ _ _ _ _ st E Es R) as (_ & Hst).
               destruct st as [ | | |a0]; try (destruct Hst as (X & _); exact X).
               exfalso. pose proof (rep_st _ _ R) as St. rewrite Es in St. cbn in St. destruct St as (St & _). rewrite Egf in St. discriminate St. }
             rewrite Hns. exact Hinv.
          -- rewrite Hts', HH'. exact Hinv.
        * rewrite Hgp in Hl'. injection Hl' as <-. rewrite Eg'. rewrite Ec0 in Hinv. rewrite Hring.
          exact (Hend l c k Hinv (Hcur c Ec0) Hgst). }
  split; [|exact HC'].
  (* the rule *)
  unfold y_e_scan. cbv zeta. destruct (y_scan_ends m s && state_kind_eqb (y_k1 s) KPassToken) eqn:Ec; [|reflexivity].
  apply andb_true_iff in Ec. destruct Ec as (Ese & Ekp).
  unfold y_scan_ends in Ese. rewrite Hk0, Hk1 in Ese. apply andb_true_iff in Ese. destruct Ese as (Ekc & _).
  assert (Hkc : kind_of (f_state f) = KClaimToken) by (destruct (kind_of (f_state f)); try discriminate Ekc; reflexivity).
  assert (Hkp : kind_of (f_state f') = KPassToken) by (rewrite Hk1 in Ekp; destruct (kind_of (f_state f')); try discriminate Ekp; reflexivity).
  destruct (y_scan1 p m g s) as [l'|] eqn:El'; [|reflexivity].
  remember (gap_addrs p (v_ns (y_post s))) as gap eqn:Egap.
  match goal with |- check ?b _ = [] => replace b with true; [reflexivity|symmetry] end.
  apply negb_true_iff. apply not_true_is_false. intros Hex. apply existsb_exists in Hex. destruct Hex as (a & Hal & Ha2).
  apply y_in_list_spec in Ha2. rewrite Egap, Hn1 in Ha2. clear Egap gap.
  (* no claim token, no GAP request in a poll that ends in PassToken *)
  unfold y_scan1 in El'.
  destruct (y_claim_tx p m s) eqn:Ect; [destruct (Hclaim eq_refl) as (C & _); rewrite Hkp in C; discriminate C|].
  destruct (g_scan g) as [l|] eqn:Eg; [|destruct (y_gap_poll p s); discriminate El'].
  pose proof (CL l eq_refl) as Hinv.
  assert (Hgp : y_gap_poll p s = None).
  { destruct (y_gap_poll p s) as [x|] eqn:Egp; [|reflexivity]. exfalso.
    destruct (tf_gap _ _ _ _ _ _ Htf x Egp) as (_ & _ & _ & _ & [(S1 & _)|(S1 & _)]); rewrite S1 in Hkp; discriminate Hkp. }
  rewrite Hgp in El'. injection El' as <-.
  (* the station was scanning, and the scan ends with the GAP state Waiting *)
  destruct Hsw as [Hres|[(x & Htx & (l0 & Hl0 & Hnsd) & Hst & _)|[(da & _ & _ & Hvs & _)|(Hq & Hrel)]]].
  - destruct Hres as [K|[K|[K|[K|[(_ & _ & _ & K)|K]]]]]; try (rewrite Hkc in K; discriminate K); try (rewrite Hkp in K; discriminate K).
    apply (bv_not_short_slot f); [rewrite Hp; exact Hbv|exact K].
  - cbn in Hl0. subst l0. destruct (gap_visit_step_in_gap f x Hst) as (_ & Hrng).
    assert (Hco : gap_cursor_ok f).
    { split; [lia|]. intros c0 Ec0. pose proof (rep_gap _ _ R) as G. rewrite Ec0 in G. exact G. }
    specialize (Hrng Hco).
    destruct (L_poll f f' now busy (buf ++ nb) o calls Hp x Htx Hnsd ltac:(lia) ltac:(lia)) as (Hgp2 & _). fold s in Hgp2.
    rewrite Hgp in Hgp2. discriminate Hgp2.
  - destruct Hvs as [K|[K|[K|K]]]; rewrite Hkc in K; discriminate K.
  - destruct Hrel as [(Hgs & Hpd)|(_ & _ & Hst & (c & Ec0) & (k & Ew) & Hring)].
    + assert (Hp0 : pend (f_state f) = 0).
      { pose proof (pend_range (f_state f)). destruct (f_state f') as [ | | | | | | |[|] att| | ] eqn:Es'; try discriminate Hkp; cbn in Hpd; try lia.
        (* PassToken{do_gap: Yes} is never entered from ClaimToken *)
        exfalso. destruct (f_state f) as [ | | | | |st| | | | ] eqn:Es; try discriminate Hkc.
        destruct (FdlOracleSound7.claim_poll_facts A ops (length apps) _ _ _ _ _ _ _ _ st E Es R) as (_ & Hst).
        destruct st as [ | | |a0].
        - pose proof (early_claim_poll _ _ _ _ _ _ _ _ E (or_introl Es)) as C. rewrite Es' in C. discriminate C.
        - pose proof (early_claim_poll _ _ _ _ _ _ _ _ E (or_intror Es)) as C. rewrite Es' in C. discriminate C.
        - destruct Hst as (_ & _ & [C|[(a1 & C)|[C|C]]]); rewrite Es' in C; discriminate C.
        - destruct Hst as (_ & [C|[(a1 & C)|[C|C]]]); rewrite Es' in C; discriminate C. }
      assert (Hscan : f_state f = ClaimToken StepScan \/ exists a0, f_state f = ClaimToken (StepScanAwaitResponse a0)).
      { destruct (f_state f) as [ | | | | |[ | | |a0]| | | | ]; try discriminate Hkc; try discriminate Hp0; [left; reflexivity|right; exists a0; reflexivity]. }
      destruct (claim_scan_step A ops _ _ _ _ _ _ _ _ E Hscan) as (_ & [(_ & [S1|[S1|[S1|(_ & k & Ew)]]])|(x & (_ & [S1|S1]) & _)]);
        try (rewrite S1 in Hkp; try (destruct Hscan as [Q|(a0 & Q)]; rewrite Q in Hkp); discriminate Hkp).
      rewrite Hgs in Ew. rewrite Ew in Hinv.
      assert (Hns : r_ns (f_ring f') = r_ns (f_ring f)).
      { destruct Hscan as [Es|(a0 & Es)].
        - destruct (FdlOracleSound7.claim_poll_facts A ops (length apps) _ _ _ _ _ _ _ _ _ E Es R) as (_ & X & _). exact X.
        - exfalso. pose proof (rep_st _ _ R) as St. rewrite Es in St. cbn in St. destruct St as (St & _). rewrite Ew in St. discriminate St. }
      rewrite Hns in Ha2. exact (Hinv a Hal Ha2).
    + rewrite Ec0 in Hinv. rewrite Hring in Ha2.
      assert (Hgst : gst f (GapDoPoll c) = GapWaiting k).
      { rewrite (gap_visit_step_gst f Hok), Ec0, Ew in Hst. injection Hst as Hst. exact Hst. }
      exact (Hend l c k Hinv (Hcur c Ec0) Hgst a Hal Ha2).
Qed.

Lemma sc_api a f f' m g : SC f g -> api_result p a f = Ok f' ->
  SC f' (snd (mon_after_api a (view_of f') m g)).
Proof.
  intros [C1 C2] E.
  assert (Hnew : SC f' mon2_reset) by (constructor; cbn [mon2_reset g_scan]; [reflexivity|intros l C; discriminate C]).
  destruct a; cbn [api_result mon_after_api snd] in *; try exact Hnew.
  - unfold set_online, set_state in E. injection E as <-. constructor; assumption.
  - discriminate E.
Qed.

Lemma sc_init f0 : SC f0 mon2_reset.
Proof. constructor; cbn [mon2_reset g_scan]; [reflexivity|intros l C; discriminate C]. Qed.

End Sweep.

(* ------------------------------------------------------------------------------------------ *)
(* the induction over model transcripts: JA of FdlOracleSoundAll.v plus the two simulations     *)

(* what is still not proved about the rules of the FDL monitors: the liveness rules and R05_panic *)
Definition open_rules2_req : list rule :=
  [R05_panic; R11_supervision_never_ends; R12_gap_wait_never_ends; R15_no_reply_no_timeout].
Definition open_rules2 : list rule :=
  [R12_reply_without_request; R12_reply_untruthful; R12_reply_from_wrong_state] ++ open_rules2_req.

Ltac in_leaf2 := unfold may_fire, open_rules2, open_rules2_req; cbn; repeat (first [left; reflexivity | right]).

Section Master2.
Variable A : Type.
Variable ops : app_ops A.
Variable p : params.
Hypothesis Happs : apps_total A ops.
Hypothesis Hbv : builder_valid p.
Hypothesis Hdata : app_sends_data A ops.

Definition JB (n : nat) (f : fdl) (apps : list A) (buf : bytes) (tl : Z) (m : mon) (g : mon2) : Prop :=
  JA A p n f apps buf tl m g /\ SW f g /\ SC p f g.

Lemma JA_base n f apps buf tl m g : JA A p n f apps buf tl m g -> Base A p n f apps buf tl m.
Proof. intros ((((HB & _) & _) & _) & _). exact HB. Qed.

Lemma x_e12b_open2 m s : onlyr (may_fire open_rules2) (x_e12b p m s).
Proof. unfold x_e12b. cbv zeta. solve_onlyr in_leaf2. Qed.
Lemma y_e_live_open2 l m g s : (forall r, In r open_rules2_req -> In r l) -> onlyr (may_fire l) (y_e_live p m g s).
Proof. intros Hl. unfold y_e_live. solve_onlyr ltac:(apply Hl; in_leaf2). Qed.

Lemma JB_init n f0 apps : fdl_new p = Ok f0 -> length apps = n -> JB n f0 apps [] 0 (mon_reset (view_of f0) 0) mon2_reset.
Proof.
  intros E Hn. pose proof (JA_init A p Hbv n f0 apps E Hn) as HJ. split; [exact HJ|].
  pose proof (JA_base _ _ _ _ _ _ _ HJ) as HB. pose proof (b_rep _ _ _ _ _ _ _ _ HB) as R. rewrite Hn in R.
  split; [eapply (sw_init p); eassumption|apply sc_init].
Qed.

Lemma JB_api n a f apps buf tl m g f' :
  JB n f apps buf tl m g -> api_result p a f = Ok f' ->
  JB n f' apps buf tl (fst (mon_after_api a (view_of f') m g)) (snd (mon_after_api a (view_of f') m g)).
Proof.
  intros (HJ & HS & HC) E. pose proof (JA_api A p Hbv n a f apps buf tl m g f' HJ E) as HJ'. split; [exact HJ'|].
  pose proof (JA_base _ _ _ _ _ _ _ HJ') as HB'. pose proof (b_rep _ _ _ _ _ _ _ _ HB') as R'.
  pose proof (b_n _ _ _ _ _ _ _ _ HB') as Hn. rewrite Hn in R'.
  split; [eapply (sw_api p); eassumption|eapply sc_api; eassumption].
Qed.

Lemma JB_poll n f apps buf tl m g now busy nb f' o apps' calls :
  length apps = n ->
  JB n f apps buf tl m g -> tl < now -> time_ok now -> all_bytes nb ->
  poll ops f now (mkPhyIn busy (buf ++ nb)) apps = Ok (f', o, apps', calls) ->
  let s := poll_event now busy (buf ++ nb) f' o calls in
  snd (mon_poll p n m s) = x_e12b p m s /\
  snd (mon_poll2 p n m g s) = y_e_live p m g s /\
  JB n f' apps' (rx_left o) now (fst (mon_poll p n m s)) (fst (mon_poll2 p n m g s)) /\
  Base A p n f apps buf tl m /\ FdlOracleSound11.RQ f m.
Proof.
  intros Hlen (HJ & HS & HC) Hlt Hnow Hnb E s.
  destruct (JA_poll A ops p Happs Hbv Hdata n f apps buf tl m g now busy nb f' o apps' calls Hlen HJ Hlt Hnow Hnb E) as (H1 & H2 & HJ' & HB & HR).
  fold s in H1, H2, HJ'.
  pose proof (JA_base _ _ _ _ _ _ _ HJ') as HB'. pose proof (b_rep _ _ _ _ _ _ _ _ HB') as R'. pose proof (b_p _ _ _ _ _ _ _ _ HB') as Hp'.
  destruct (sw_poll A ops p n Hbv Hdata f apps buf tl m g now busy nb f' o apps' calls HB HS Hlen E R' Hp') as (Hsw & HS').
  destruct (sc_poll A ops p n Hbv Hdata f apps buf tl m g now busy nb f' o apps' calls HB HC Hlen E R' Hp') as (Hsc & HC').
  fold s in Hsw, HS', Hsc, HC'.
  split; [exact H1|]. split; [rewrite H2, Hsw, Hsc; reflexivity|]. split; [|split; assumption].
  split; [exact HJ'|]. rewrite mon_poll2_eq. cbn [fst]. split; assumption.
Qed.

(* ORACLE SOUNDNESS for the monitors of the FDL layer, all rule groups but the liveness rules: on a transcript of
   the model only the three status-reply rules (see fdl_oracle_sound2_req), R05_panic (treated in C05Proofs) and
   the three liveness rules can be reported. *)
Theorem fdl_oracle_sound2 (apps : list A) (ins : list minput) :
  ins_ok 0 ins ->
  forall k r, In (k, r) (monitor p (length apps) (model_transcript A ops p apps ins)) -> In r open_rules2.
Proof.
  intros Hok.
  apply (generic_sound_transcript A ops p (length apps) (may_fire open_rules2) (JB (length apps)) (fun _ => True)); try assumption; try reflexivity.
  - in_leaf2.
  - intros a f apps0 buf tl m g f' HJ E _. exact (JB_api _ _ _ _ _ _ _ _ _ HJ E).
  - intros f apps0 buf tl m g now busy nb f' o apps' calls HJ Hlt Hnow Hnb E _.
    assert (Hlen : length apps0 = length apps) by (destruct HJ as (HJ & _); exact (b_n _ _ _ _ _ _ _ _ (JA_base _ _ _ _ _ _ _ HJ))).
    destruct (JB_poll _ _ _ _ _ _ _ _ _ _ _ _ _ _ Hlen HJ Hlt Hnow Hnb E) as (H1 & H2 & HJ' & _).
    split; [|split; [|exact HJ']].
    + rewrite H1. apply x_e12b_open2.
    + rewrite H2. apply y_e_live_open2. intros r Hr. unfold open_rules2. apply in_or_app. right. exact Hr.
  - intros f0 apps0 E Hn _. exact (JB_init _ _ _ E Hn).
  - apply transcript_ok_true.
Qed.

Theorem fdl_oracle_sound2_req (apps : list A) (ins : list minput) :
  app_sends_requests A ops -> ins_ok 0 ins ->
  forall k r, In (k, r) (monitor p (length apps) (model_transcript A ops p apps ins)) -> In r open_rules2_req.
Proof.
  intros Hreq Hok.
  apply (generic_sound_transcript A ops p (length apps) (may_fire open_rules2_req) (JB (length apps)) (fun _ => True)); try assumption; try reflexivity.
  - in_leaf2.
  - intros a f apps0 buf tl m g f' HJ E _. exact (JB_api _ _ _ _ _ _ _ _ _ HJ E).
  - intros f apps0 buf tl m g now busy nb f' o apps' calls HJ Hlt Hnow Hnb E _.
    assert (Hlen : length apps0 = length apps) by (destruct HJ as (HJ & _); exact (b_n _ _ _ _ _ _ _ _ (JA_base _ _ _ _ _ _ _ HJ))).
    destruct (JB_poll _ _ _ _ _ _ _ _ _ _ _ _ _ _ Hlen HJ Hlt Hnow Hnb E) as (H1 & H2 & HJ' & HB & HR).
    split; [|split; [|exact HJ']].
    + rewrite H1. rewrite (e12b_ok A ops p (length apps) Hdata Hreq _ _ _ _ _ _ _ _ _ _ _ _ HB HR E). intros r [].
    + rewrite H2. apply y_e_live_open2. auto.
  - intros f0 apps0 E Hn _. exact (JB_init _ _ _ E Hn).
  - apply transcript_ok_true.
Qed.

(* the two rules of this file *)
Corollary c12_oracle_sound_sweep (apps : list A) (ins : list minput) :
  ins_ok 0 ins ->
  forall k r, In (k, r) (monitor p (length apps) (model_transcript A ops p apps ins)) -> r <> R12_sweep_bound.
Proof.
  intros Hok k r Hin ->. pose proof (fdl_oracle_sound2 _ _ Hok _ _ Hin) as H. unfold open_rules2, open_rules2_req in H. cbn in H.
  repeat (destruct H as [H|H]; [discriminate H|]). contradiction.
Qed.

Corollary c12_oracle_sound_claim_scan (apps : list A) (ins : list minput) :
  ins_ok 0 ins ->
  forall k r, In (k, r) (monitor p (length apps) (model_transcript A ops p apps ins)) -> r <> R12_post_claim_scan_incomplete.
Proof.
  intros Hok k r Hin ->. pose proof (fdl_oracle_sound2 _ _ Hok _ _ Hin) as H. unfold open_rules2, open_rules2_req in H. cbn in H.
  repeat (destruct H as [H|H]; [discriminate H|]). contradiction.
Qed.

(* all of C12 but the liveness rule *)
Corollary c12_oracle_sound_safety (apps : list A) (ins : list minput) :
  app_sends_requests A ops -> ins_ok 0 ins ->
  forall k r, In (k, r) (monitor p (length apps) (model_transcript A ops p apps ins)) -> rule_prop r = PC12 ->
  r = R12_gap_wait_never_ends.
Proof.
  intros Hreq Hok k r Hin Hp. pose proof (fdl_oracle_sound2_req _ _ Hreq Hok _ _ Hin) as H. unfold open_rules2_req in H. cbn in H.
  repeat (destruct H as [<-|H]; [first [discriminate Hp | reflexivity]|]). contradiction.
Qed.

End Master2.
