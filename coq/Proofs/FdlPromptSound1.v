(* Soundness of the reaction-time monitor Model/FdlPrompt.v, part 1: the MODEL side.

   (1) `nm` ("no mark"): a step of the station that consumes nothing from the receive buffer keeps
       pending_bytes >= the buffered bytes and - when it transmits nothing - leaves last_bus_activity as
       it was (or records `now` where there was none).  Proved for every do_* function, hence for the
       dispatch of poll_inner.  (The existing bookkeeping relation bk of FdlOracleSound2 allows a mark
       whenever the buffer is not empty; here the mark needs a consumed telegram.)
   (2) `gated_acts`: in the states the monitor calls gated - PassToken, UseToken, ClaimToken outside
       ScanAwaitResponse, ListenToken / ActiveIdle with a pending status request - a dispatch whose
       synchronisation pause is over acts visibly: transmits, calls an application, changes the state
       kind, or ends the GAP polling phase.
   (3) a listening station without a pending status request that consumes nothing and transmits nothing
       stays as it is. *)
From Coq Require Import Arith.
From PB Require Import Common Tables FdlTables Telegram Phy TokenRing Params Fdl FdlOracle FdlProofs FdlStepProofs.
From PB Require Import C05Proofs C01Proofs FdlOracleSound1 FdlOracleSound2 FdlOracleSound3 FdlOracleSound10.
From PB Require C11Proofs C12Proofs C16Proofs.

(* last_bus_activity after a step without a mark: unchanged, or `now` recorded where there was none *)
Definition lbs (now : Z) (v v' : option Z) : Prop := v' = v \/ v' = Some (gv now v).

Lemma lbs_refl now v : lbs now v v.
Proof. left. reflexivity. Qed.

Lemma lbs_trans now v1 v2 v3 : lbs now v1 v2 -> lbs now v2 v3 -> lbs now v1 v3.
Proof. unfold lbs. intros [-> | ->] [-> | ->]; cbn [gv]; auto. Qed.

Lemma lbs_some now l v' : lbs now (Some l) v' -> v' = Some l.
Proof. intros [-> | ->]; reflexivity. Qed.

Section NM.
Variable A : Type.
Variable ops : app_ops A.
Notation W := (world A).

Definition plb (f : fdl) (w : W) : Prop := (length (w_rx w) <= f_pending f)%nat.

Definition nm (now : Z) (f : fdl) (w : W) (f' : fdl) (w' : W) : Prop :=
  suffix_rx A w w' /\
  (length (w_rx w') = length (w_rx w) ->
     (plb f w -> plb f' w') /\
     (forall x, w_tx w = Some x -> w_tx w' = Some x) /\
     (w_tx w' = None -> lbs now (f_lba f) (f_lba f'))).

Lemma suffix_len (w w' : W) : suffix_rx A w w' -> (length (w_rx w') <= length (w_rx w))%nat.
Proof. intros (k & ->). rewrite skipn_length. lia. Qed.

Lemma nm_refl now f w : nm now f w f w.
Proof.
  split; [apply suffix_rx_refl|]. intros _. split; [auto|]. split; [auto|]. intros _. apply lbs_refl.
Qed.

Lemma nm_trans now f w f1 w1 f2 w2 : nm now f w f1 w1 -> nm now f1 w1 f2 w2 -> nm now f w f2 w2.
Proof.
  intros (S1 & H1) (S2 & H2). split; [eapply suffix_rx_trans; eassumption|]. intros Hlen.
  pose proof (suffix_len _ _ S1). pose proof (suffix_len _ _ S2).
  destruct (H1 ltac:(lia)) as (P1 & M1 & L1). destruct (H2 ltac:(lia)) as (P2 & M2 & L2).
  split; [auto|]. split; [intros x Hx; apply M2, M1, Hx|]. intros Hn.
  assert (Hn1 : w_tx w1 = None).
  { destruct (w_tx w1) as [x|] eqn:E; [|reflexivity]. rewrite (M2 x eq_refl) in Hn. discriminate Hn. }
  eapply lbs_trans; [apply L1; exact Hn1|apply L2; exact Hn].
Qed.

Lemma nm_frame now f (w : W) f' w' :
  w_rx w' = w_rx w -> w_tx w' = w_tx w -> f_pending f' = f_pending f -> lbs now (f_lba f) (f_lba f') ->
  nm now f w f' w'.
Proof.
  intros R T P L. split; [apply suffix_rx_eq; exact R|]. intros _. unfold plb. rewrite R, P, T.
  split; [auto|]. split; [auto|]. intros _. exact L.
Qed.

Lemma nm_frm now f (w : W) f' w' : frm A f w f' w' -> nm now f w f' w'.
Proof. intros (T & R & L & P & _). apply nm_frame; try assumption. rewrite L. apply lbs_refl. Qed.

Lemma nm_txs now f (w : W) f' w' : txs A now f w f' w' -> nm now f w f' w'.
Proof.
  intros (Hn & wire & T & R & _ & P & _). split; [apply suffix_rx_eq; exact R|]. intros _. unfold plb. rewrite R, P.
  split; [auto|]. split; [intros x Hx; rewrite Hn in Hx; discriminate Hx|]. intros C. rewrite T in C. discriminate C.
Qed.

Lemma nm_consumed now f (w : W) f' w' :
  suffix_rx A w w' -> (length (w_rx w') < length (w_rx w))%nat -> nm now f w f' w'.
Proof. intros S Hlt. split; [exact S|]. intros C. lia. Qed.

(* ---- primitives ---- *)

Lemma goi_nm now f l f1 (w : W) : lba_get_or_insert f now = (l, f1) ->
  nm now f w f1 w /\ f_state f1 = f_state f /\ f_lba f1 = Some l.
Proof.
  intros E. apply lba_get_or_insert_same in E. destruct E as ((_ & _ & _ & _ & Hs & Hpd & _) & Hl & Hm).
  split; [|split; [exact Hs|exact Hl]].
  apply nm_frame; try reflexivity; try assumption.
  right. rewrite Hl. unfold gv. destruct (f_lba f); subst; reflexivity.
Qed.

Lemma wait_sync_nm now f f1 b (w : W) : wait_synchronization_pause f now = Ok (f1, b) ->
  nm now f w f1 w /\ same_but_lba f f1.
Proof.
  intros E. apply wait_sync_same in E. destruct E as (Hsame & l & Hl & Hm & _). split; [|exact Hsame].
  destruct Hsame as (_ & _ & _ & _ & _ & Hpd & _).
  apply nm_frame; try reflexivity; try assumption.
  right. rewrite Hl. unfold gv. destruct (f_lba f); subst; reflexivity.
Qed.

Lemma check_slot_nm now f f1 b (w : W) : check_slot_expired f now = Ok (f1, b) ->
  nm now f w f1 w /\ same_but_lba f f1.
Proof.
  intros E. pose proof (check_slot_expired_same _ _ _ _ E) as Hsame. split; [|exact Hsame].
  unfold check_slot_expired in E. destruct (lba_get_or_insert f now) as [l f0] eqn:E0.
  destruct (inst_add _ _); cbn [bind] in E; try discriminate. injection E as <- _.
  exact (proj1 (goi_nm now f l f0 w E0)).
Qed.

Lemma trans_nm now f (w : W) t f' w' : trans A f w t = Ok (f', w') -> nm now f w f' w'.
Proof. intros H. apply nm_frm. exact (trans_frm A _ _ _ _ _ H). Qed.

Lemma receive_telegram_some_lt {R} (g : telegram -> R) buf rest r :
  receive_telegram g buf = Ok (rest, Some r) -> (length rest < length buf)%nat.
Proof.
  unfold receive_telegram. destruct (decode buf) as [d| |] eqn:Ed; cbn [bind]; try discriminate.
  destruct d as [ | |t n]; intros H; try discriminate H. injection H as <- _.
  pose proof (C16Proofs.decode_accept_bounds _ _ _ Ed). rewrite skipn_length. lia.
Qed.

Lemma receive_all_len {S R} (cb : S -> telegram -> bool -> res (S * R)) s buf s' rest r :
  receive_all cb (receive_all_fuel buf) s buf = Ok (s', rest, r) -> length rest = length buf -> s' = s.
Proof.
  intros H Hlen. destruct (receive_all_delivered _ _ _ _ _ _ H) as (_ & _ & Hnil & Hne).
  destruct (delivered buf) as [|x l]; [exact (proj1 (Hnil eq_refl))|].
  specialize (Hne ltac:(discriminate)). lia.
Qed.

(* the end of a receive loop that delivered nothing *)
Lemma loop_end_nm now f (w : W) (wc : W) rest k :
  rest = skipn k (w_rx w) -> w_tx wc = w_tx w ->
  nm now f w (sync_pending_bytes A f (set_rx A wc rest)) (set_rx A wc rest).
Proof.
  intros Ek T. split; [exists k; exact Ek|]. cbn [w_rx set_rx]. intros Hlen. unfold plb. cbn. rewrite T.
  split; [intros P; rewrite Hlen; lia|]. split; [auto|]. intros _. apply lbs_refl.
Qed.

(* ---- await_gap_poll_response ---- *)

Lemma await_gap_nm now f (w : W) pa f' w' r :
  await_gap_poll_response A f now w pa = Ok (f', w', r) -> nm now f w f' w'.
Proof.
  unfold await_gap_poll_response.
  destruct (pa =? ts f); [discriminate|]. destruct (negb _); [discriminate|].
  destruct (receive_telegram (fun t => t) (w_rx w)) as [[rest received]| |] eqn:Er; cbn [bind]; try discriminate.
  destruct (receive_telegram_suffix _ _ _ _ Er) as [k Ek].
  destruct received as [t|].
  - pose proof (receive_telegram_some_lt _ _ _ _ Er) as Hlt.
    assert (Hdone : forall fx t0, nm now f w fx (note A (set_rx A w rest) t0)).
    { intros fx t0. apply nm_consumed; [exists k; exact Ek|exact Hlt]. }
    destruct t as [[da sa dsap ssap fc] pdu|da sa|]; [destruct fc as [fb rq|st status]| |];
      try (intros H; injection H as <- <- _; apply Hdone).
    destruct ((sa =? pa) && (da =? ts (mark_rx f now))); [|intros H; injection H as <- <- _; apply Hdone].
    destruct (resp_status_eqb status gap_reply_status && gap_reply_state_is_master st);
      [|intros H; injection H as <- <- _; apply Hdone].
    destruct (set_next_station _ _) as [r'| |]; cbn [bind]; try discriminate.
    intros H; injection H as <- <- _; apply Hdone.
  - match goal with |- context [check_slot_expired ?fx now] => destruct (check_slot_expired fx now) as [[f1 expired]| |] eqn:Ec end;
      cbn [bind]; try discriminate.
    match type of Ec with check_slot_expired ?fx now = _ => set (f0 := fx) in * end.
    match goal with |- context [set_rx A ?wx rest] => set (wx0 := wx) in * end.
    destruct (check_slot_nm now f0 f1 expired (set_rx A wx0 rest) Ec) as (Hb & _).
    assert (H0 : nm now f w f0 (set_rx A wx0 rest)).
    { subst f0. apply loop_end_nm with (k := k); [exact Ek|]. subst wx0. destruct (Nat.ltb _ _); reflexivity. }
    assert (Hfin : forall t, nm now f w f1 (note A (set_rx A wx0 rest) t)).
    { intros t. eapply nm_trans; [exact H0|]. eapply nm_trans; [exact Hb|apply nm_frame; try reflexivity; apply lbs_refl]. }
    destruct expired; intros H; injection H as <- <- _; apply Hfin.
Qed.

(* ---- do_claim_token, handle_lost_token ---- *)

Lemma next_gap_nm now f (w : W) cur f' w' : next_gap_poll_traced A f w cur = Ok (f', w') -> nm now f w f' w'.
Proof.
  unfold next_gap_poll_traced. destruct (next_gap_poll f cur) as [g| |]; cbn [bind]; try discriminate.
  intros H. injection H as <- <-. apply nm_frame; try reflexivity. apply lbs_refl.
Qed.

Lemma transmit_gap_nm now f (w : W) f' w' polled :
  transmit_gap_poll_if_pending A f now w = Ok (f', w', polled) -> nm now f w f' w'.
Proof.
  intros H. destruct (transmit_gap_bk A now _ _ _ _ _ H) as (_ & Hg). destruct polled.
  - apply nm_txs. exact Hg.
  - destruct Hg as (-> & ->). apply nm_refl.
Qed.

Lemma nm_note now f (w : W) t : nm now f w f (note A w t).
Proof. apply nm_frame; try reflexivity. apply lbs_refl. Qed.

Lemma nm_set_st now f (w : W) s : nm now f w (set_st f s) w.
Proof. apply nm_frame; try reflexivity. apply lbs_refl. Qed.

Lemma do_claim_token_scan_nm now f (w : W) f' w' :
  do_claim_token_scan A f now w = Ok (f', w') -> nm now f w f' w'.
Proof.
  unfold do_claim_token_scan. intros H.
  destruct (wait_synchronization_pause f now) as [[f1 wait]| |] eqn:Ew; cbn [bind] in H; try discriminate H.
  destruct (wait_sync_nm now f f1 wait w Ew) as (B1 & _).
  destruct wait.
  { injection H as <- <-. eapply nm_trans; [exact B1|apply nm_note]. }
  destruct (f_gap f1) as [rc|cur].
  - match type of H with bind ?x _ = _ => destruct x as [[f2 w2]| |] eqn:Et end; cbn [bind] in H; try discriminate H.
    injection H as <- <-. apply trans_nm with (now := now) in Et.
    eapply nm_trans; [exact B1|]. eapply nm_trans; [apply nm_note|exact Et].
  - destruct (next_gap_poll_traced A f1 w cur) as [[f2 w2]| |] eqn:En; cbn [bind] in H; try discriminate H.
    pose proof (next_gap_nm now _ _ _ _ _ En) as B2.
    destruct (transmit_gap_poll_if_pending A f2 now w2) as [[[f3 w3] polled]| |] eqn:Eg; cbn [bind] in H; try discriminate H.
    pose proof (transmit_gap_nm now _ _ _ _ _ Eg) as B3.
    assert (B13 : nm now f w f3 w3) by (eapply nm_trans; [exact B1|]; eapply nm_trans; eassumption).
    destruct polled as [a|].
    + destruct (set_claim_step f3 _) as [f4| |] eqn:Es; cbn [bind] in H; try discriminate H.
      injection H as <- <-. apply set_claim_step_spec' in Es. subst f4.
      eapply nm_trans; [exact B13|]. eapply nm_trans; [apply nm_set_st|apply nm_note].
    + injection H as <- <-. eapply nm_trans; [exact B13|apply nm_note].
Qed.

(* phy_send, steps that leave the bookkeeping alone, mark_tx *)
Lemma send_mark_nm now f (w : W) rq w1 k f1 f2 w2 :
  phy_send A w rq = Ok (w1, k) -> mark_tx f1 now k = Ok f2 ->
  f_pending f1 = f_pending f -> f_p f1 = f_p f -> w_tx w2 = w_tx w1 -> w_rx w2 = w_rx w1 ->
  nm now f w f2 w2.
Proof. intros. apply nm_txs. eapply send_mark; eassumption. Qed.

Lemma do_claim_token_nm now f (w : W) f' w' :
  do_claim_token A f now w = Ok (f', w') -> nm now f w f' w'.
Proof.
  unfold do_claim_token. intros H.
  destruct (assert_entry DoClaimToken f); cbn [bind] in H; try discriminate H.
  destruct (get_claim_token_step (f_state f)) as [step| |]; cbn [bind] in H; try discriminate H.
  assert (Htok : forall nxt,
    (let* (f0, wait) := wait_synchronization_pause f now in
     if wait then Ok (f0, note A w TSyncWait)
     else let* (w0, n) := phy_send A w (TxToken (ts f0) (ts f0)) in
          let f1 := set_ring f0 (claim_token (f_ring f0)) in
          let* f2 := set_claim_step f1 nxt in
          let f3 := set_gap f2 (GapDoPoll (ts f2)) in
          let* f4 := mark_tx f3 now n in Ok (f4, note A w0 TClaimSendToken)) = Ok (f', w') -> nm now f w f' w').
  { intros nxt H0.
    destruct (wait_synchronization_pause f now) as [[f1 wait]| |] eqn:Ew; cbn [bind] in H0; try discriminate H0.
    destruct (wait_sync_nm now f f1 wait w Ew) as (B1 & _).
    destruct wait.
    { injection H0 as <- <-. eapply nm_trans; [exact B1|apply nm_note]. }
    destruct (phy_send A w _) as [[w1 k]| |] eqn:Ep; cbn [bind] in H0; try discriminate H0.
    destruct (set_claim_step _ nxt) as [f2| |] eqn:Es; cbn [bind] in H0; try discriminate H0.
    apply set_claim_step_spec' in Es. subst f2.
    match type of H0 with bind (mark_tx ?fx now k) _ = _ => destruct (mark_tx fx now k) as [f4| |] eqn:Em end; cbn [bind] in H0; try discriminate H0.
    injection H0 as <- <-. eapply nm_trans; [exact B1|].
    eapply send_mark_nm; try eassumption; reflexivity. }
  destruct step as [ | | |a0].
  - exact (Htok _ H).
  - exact (Htok _ H).
  - exact (do_claim_token_scan_nm now _ _ _ _ H).
  - destruct (await_gap_poll_response A f now w a0) as [[[f1 w1] r]| |] eqn:Ea; cbn [bind] in H; try discriminate H.
    pose proof (await_gap_nm now _ _ _ _ _ _ Ea) as B1.
    destruct r.
    + injection H as <- <-. exact B1.
    + destruct (set_claim_step f1 StepScan) as [f2| |] eqn:Es; cbn [bind] in H; try discriminate H.
      apply set_claim_step_spec' in Es. subst f2.
      eapply nm_trans; [exact B1|]. eapply nm_trans; [apply nm_set_st|exact (do_claim_token_scan_nm now _ _ _ _ H)].
    + destruct (set_claim_step f1 StepScan) as [f2| |] eqn:Es; cbn [bind] in H; try discriminate H.
      apply set_claim_step_spec' in Es. subst f2. injection H as <- <-.
      eapply nm_trans; [exact B1|apply nm_set_st].
    + apply trans_nm with (now := now) in H. eapply nm_trans; eassumption.
Qed.

Lemma handle_lost_token_nm now f (w : W) f' w' d :
  handle_lost_token A f now w = Ok (f', w', d) -> nm now f w f' w'.
Proof.
  unfold handle_lost_token. intros H.
  destruct (lba_get_or_insert f now) as [l f0] eqn:El. destruct (goi_nm now f l f0 w El) as (B0 & _).
  destruct (inst_diff now l); cbn [bind] in H; try discriminate H.
  match type of H with (if ?c then _ else _) = _ => destruct c end.
  - match type of H with context [trans A ?a ?b ?c] => destruct (trans A a b c) as [[f1 w1]| |] eqn:Et end; cbn [bind] in H; try discriminate H.
    apply trans_nm with (now := now) in Et.
    destruct (do_claim_token A f1 now w1) as [[f2 w2]| |] eqn:Ed; cbn [bind] in H; try discriminate H.
    injection H as <- <- <-.
    eapply nm_trans; [exact B0|]. eapply nm_trans; [apply nm_note|]. eapply nm_trans; [exact Et|].
    exact (do_claim_token_nm now _ _ _ _ Ed).
  - injection H as <- <- <-. exact B0.
Qed.

(* ---- the receive loops: nothing consumed = no callback ---- *)

Lemma receive_all_telegrams_nm now cb f (w : W) f' w' :
  receive_all_telegrams A cb f w = Ok (f', w') -> nm now f w f' w'.
Proof.
  unfold receive_all_telegrams. intros H.
  destruct (receive_all _ _ (f, w) (w_rx w)) as [[[s1 rest] r]| |] eqn:Er; cbn [bind] in H; try discriminate H.
  destruct s1 as [f1 w1]. injection H as <- <-.
  destruct (receive_all_suffix _ _ _ _ _ _ _ Er) as [k Ek].
  split; [exists k; exact Ek|]. cbn [w_rx set_rx]. intros Hlen.
  pose proof (receive_all_len _ _ _ _ _ _ Er Hlen) as Es. injection Es as -> ->.
  destruct (loop_end_nm now f w w rest k Ek eq_refl) as (_ & Hn). exact (Hn Hlen).
Qed.

(* ---- do_listen_token / do_active_idle ---- *)

Lemma do_listen_token_nm now f (w : W) f' w' :
  do_listen_token A f now w = Ok (f', w') -> nm now f w f' w'.
Proof.
  unfold do_listen_token. intros H.
  destruct (assert_entry DoListenToken f); cbn [bind] in H; try discriminate H.
  destruct (handle_lost_token A f now w) as [[[f0 w0] d]| |] eqn:Eh; cbn [bind] in H; try discriminate H.
  pose proof (handle_lost_token_nm now _ _ _ _ _ Eh) as B0.
  destruct d; [injection H as <- <-; exact B0|].
  destruct (get_listen_token (f_state f0)) as [[sr cc]| |]; cbn [bind] in H; try discriminate H.
  destruct sr as [src|].
  - destruct (wait_synchronization_pause f0 now) as [[f1 wait]| |] eqn:Ew; cbn [bind] in H; try discriminate H.
    destruct (wait_sync_nm now f0 f1 wait w0 Ew) as (B1 & _).
    destruct wait.
    { injection H as <- <-. eapply nm_trans; [exact B0|]. eapply nm_trans; [exact B1|apply nm_note]. }
    destruct (phy_send A w0 _) as [[w1 k]| |] eqn:Ep; cbn [bind] in H; try discriminate H.
    match type of H with bind ?x _ = _ => destruct x as [[f2 w2]| |] eqn:E2 end; cbn [bind] in H; try discriminate H.
    destruct (mark_tx f2 now k) as [f3| |] eqn:Em; cbn [bind] in H; try discriminate H.
    injection H as <- <-.
    eapply nm_trans; [exact B0|]. eapply nm_trans; [exact B1|].
    assert (H2 : frm A f1 (note A w1 (if ready_for_ring (f_ring f1) && (src =? r_ps (f_ring f1)) then TLtReplyReady else TLtReplyNotReady)) f2 w2).
    { destruct (ready_for_ring (f_ring f1)).
      - apply trans_frm in E2. exact E2.
      - destruct (get_listen_token (f_state f1)) as [[sr1 cc1]| |]; cbn [bind] in E2; try discriminate E2.
        injection E2 as <- <-. unfold frm. cbn. tauto. }
    destruct H2 as (T2 & R2 & L2 & P2 & Q2). cbn [w_tx w_rx note] in T2, R2.
    eapply send_mark_nm; try eassumption.
  - eapply nm_trans; [exact B0|]. exact (receive_all_telegrams_nm now _ _ _ _ _ H).
Qed.

Lemma do_active_idle_nm now f (w : W) f' w' :
  do_active_idle A f now w = Ok (f', w') -> nm now f w f' w'.
Proof.
  unfold do_active_idle. intros H.
  destruct (assert_entry DoActiveIdle f); cbn [bind] in H; try discriminate H.
  destruct (handle_lost_token A f now w) as [[[f0 w0] d]| |] eqn:Eh; cbn [bind] in H; try discriminate H.
  pose proof (handle_lost_token_nm now _ _ _ _ _ Eh) as B0.
  destruct d; [injection H as <- <-; exact B0|].
  destruct (get_active_idle (f_state f0)) as [[[sr nps] cc]| |]; cbn [bind] in H; try discriminate H.
  destruct sr as [src|].
  - destruct (wait_synchronization_pause f0 now) as [[f1 wait]| |] eqn:Ew; cbn [bind] in H; try discriminate H.
    destruct (wait_sync_nm now f0 f1 wait w0 Ew) as (B1 & _).
    destruct wait.
    { injection H as <- <-. eapply nm_trans; [exact B0|]. eapply nm_trans; [exact B1|apply nm_note]. }
    destruct (phy_send A w0 _) as [[w1 k]| |] eqn:Ep; cbn [bind] in H; try discriminate H.
    match type of H with bind (mark_tx ?fx now k) _ = _ => destruct (mark_tx fx now k) as [f3| |] eqn:Em end; cbn [bind] in H; try discriminate H.
    injection H as <- <-.
    eapply nm_trans; [exact B0|]. eapply nm_trans; [exact B1|].
    eapply send_mark_nm; try eassumption; reflexivity.
  - eapply nm_trans; [exact B0|]. exact (receive_all_telegrams_nm now _ _ _ _ _ H).
Qed.

(* ---- token passing ---- *)

Lemma do_pass_token_nm now f (w : W) f' w' :
  do_pass_token A f now w = Ok (f', w') -> nm now f w f' w'.
Proof.
  unfold do_pass_token. intros H.
  destruct (assert_entry DoPassToken f); cbn [bind] in H; try discriminate H.
  destruct (wait_synchronization_pause f now) as [[f1 wait]| |] eqn:Ew; cbn [bind] in H; try discriminate H.
  destruct (wait_sync_nm now f f1 wait w Ew) as (B1 & _).
  destruct wait.
  { injection H as <- <-. eapply nm_trans; [exact B1|apply nm_note]. }
  destruct (get_pass_token (f_state f1)) as [[do_gap att]| |]; cbn [bind] in H; try discriminate H.
  match type of H with bind ?x _ = _ => destruct x as [[[f2 w2] polled]| |] eqn:Eg end; cbn [bind] in H; try discriminate H.
  assert (Hg : nm now f1 w f2 w2).
  { destruct do_gap.
    - match type of Eg with bind ?x _ = _ => destruct x as [[fa wa]| |] eqn:Ea end; cbn [bind] in Eg; try discriminate Eg.
      assert (Hfa : nm now f1 w fa wa).
      { destruct (f_gap f1) as [rc|cur].
        - destruct (p_gap_wait (f_p f1) <? rc).
          + eapply nm_trans; [apply nm_note|exact (next_gap_nm now _ _ _ _ _ Ea)].
          + destruct (u8_add rc 1); cbn [bind] in Ea; try discriminate Ea. injection Ea as <- <-.
            apply nm_frame; try reflexivity. apply lbs_refl.
        - exact (next_gap_nm now _ _ _ _ _ Ea). }
      eapply nm_trans; [exact Hfa|exact (transmit_gap_nm now _ _ _ _ _ Eg)].
    - injection Eg as <- <- <-. apply nm_refl. }
  eapply nm_trans; [exact B1|]. eapply nm_trans; [exact Hg|].
  destruct polled as [pa|].
  - exact (trans_nm now _ _ _ _ _ H).
  - destruct (phy_send A w2 _) as [[w3 k]| |] eqn:Ep; cbn [bind] in H; try discriminate H.
    destruct (witness _ _ _) as [r| |]; cbn [bind] in H; try discriminate H.
    match type of H with bind ?x _ = _ => destruct x as [[f4 w4]| |] eqn:E4 end; cbn [bind] in H; try discriminate H.
    destruct (mark_tx f4 now k) as [f5| |] eqn:Em; cbn [bind] in H; try discriminate H.
    injection H as <- <-.
    assert (H4 : exists t0, frm A (set_ring f2 r) (note A w3 t0) f4 w4).
    { destruct (r_ns (f_ring (set_ring f2 r)) =? ts (set_ring f2 r)).
      - eexists. apply trans_frm in E4. exact E4.
      - destruct (get_pass_token _) as [[g2 a2]| |]; cbn [bind] in E4; try discriminate E4.
        eexists. apply trans_frm in E4. exact E4. }
    destruct H4 as (t0 & T4 & R4 & L4 & P4 & Q4). cbn in T4, R4, L4, P4, Q4.
    eapply send_mark_nm; try eassumption.
Qed.

Lemma do_await_status_response_nm now f (w : W) f' w' :
  do_await_status_response A f now w = Ok (f', w') -> nm now f w f' w'.
Proof.
  unfold do_await_status_response. intros H.
  destruct (assert_entry DoAwaitStatusResponse f); cbn [bind] in H; try discriminate H.
  destruct (get_await_status_response_address (f_state f)) as [a0| |]; cbn [bind] in H; try discriminate H.
  destruct (await_gap_poll_response A f now w a0) as [[[f1 w1] r]| |] eqn:Ea; cbn [bind] in H; try discriminate H.
  pose proof (await_gap_nm now _ _ _ _ _ _ Ea) as B1.
  eapply nm_trans; [exact B1|].
  destruct r.
  - injection H as <- <-. apply nm_refl.
  - destruct (trans A f1 w1 _) as [[f2 w2]| |] eqn:Et; cbn [bind] in H; try discriminate H.
    eapply nm_trans; [exact (trans_nm now _ _ _ _ _ Et)|exact (do_pass_token_nm now _ _ _ _ H)].
  - exact (trans_nm now _ _ _ _ _ H).
  - exact (trans_nm now _ _ _ _ _ H).
Qed.

Lemma do_check_token_pass_nm now f (w : W) f' w' :
  do_check_token_pass A f now w = Ok (f', w') -> nm now f w f' w'.
Proof.
  unfold do_check_token_pass. intros H.
  destruct (assert_entry DoCheckTokenPass f); cbn [bind] in H; try discriminate H.
  destruct (check_slot_expired f now) as [[f1 expired]| |] eqn:Ec; cbn [bind] in H; try discriminate H.
  destruct (check_slot_nm now f f1 expired w Ec) as (B1 & _).
  eapply nm_trans; [exact B1|].
  destruct expired.
  - destruct (get_check_token_pass_attempt (f_state f1)) as [att| |]; cbn [bind] in H; try discriminate H.
    match type of H with bind ?x _ = _ => destruct x as [[f2 w2]| |] eqn:E2 end; cbn [bind] in H; try discriminate H.
    assert (H2 : frm A f1 w f2 w2).
    { destruct (check_pass_removes att).
      - destruct (remove_station _ _); cbn [bind] in E2; try discriminate E2. injection E2 as <- <-. unfold frm. cbn. tauto.
      - injection E2 as <- <-. unfold frm. cbn. tauto. }
    destruct (trans A f2 w2 _) as [[f3 w3]| |] eqn:Et; cbn [bind] in H; try discriminate H.
    eapply nm_trans; [apply nm_frm; exact H2|]. eapply nm_trans; [exact (trans_nm now _ _ _ _ _ Et)|].
    exact (do_pass_token_nm now _ _ _ _ H).
  - destruct (receive_all _ _ (f1, w, true) (w_rx w)) as [[[s1 rest] r]| |] eqn:Er; cbn [bind] in H; try discriminate H.
    destruct s1 as [[f2 w2] fi]. injection H as <- <-.
    destruct (receive_all_suffix _ _ _ _ _ _ _ Er) as [k Ek].
    split; [exists k; exact Ek|]. cbn [w_rx set_rx]. intros Hlen.
    pose proof (receive_all_len _ _ _ _ _ _ Er Hlen) as Es. injection Es as -> -> ->.
    destruct (loop_end_nm now f1 w (note A w TCheckAwait) rest k Ek eq_refl) as (_ & Hn). exact (Hn Hlen).
Qed.

(* ---- applications and token use ---- *)

Lemma apps_loop_nm now k f (w : W) hp f' w' d :
  apps_transmit_loop A ops k f now w hp = Ok (f', w', d) -> w_tx w = None -> nm now f w f' w'.
Proof.
  intros H Hw. apply (apps_loop_bk A ops now) in H. destruct d; [apply nm_txs; exact (H Hw)|apply nm_frm; exact H].
Qed.

Lemma do_use_token_nm now f (w : W) f' w' :
  do_use_token A ops f now w = Ok (f', w') -> w_tx w = None -> nm now f w f' w'.
Proof.
  unfold do_use_token. intros H Hw.
  destruct (assert_entry DoUseToken f); cbn [bind] in H; try discriminate H.
  destruct (get_use_token (f_state f)) as [[[tk fa] fcd]| |]; cbn [bind] in H; try discriminate H.
  match type of H with bind ?x _ = _ => destruct x as [[f1 w1]| |] eqn:E1 end; cbn [bind] in H; try discriminate H.
  assert (H1 : frm A f w f1 w1).
  { destruct (negb _).
    - destruct (inst_add _ _) as [e| |]; cbn [bind] in E1; try discriminate E1.
      destruct (f_gap f).
      + injection E1 as <- <-. unfold frm. cbn. tauto.
      + destruct (inst_sub_dur _ _) as [e2| |]; cbn [bind] in E1; try discriminate E1.
        injection E1 as <- <-. unfold frm. cbn. tauto.
    - injection E1 as <- <-. apply frm_refl. }
  assert (Hw1 : w_tx w1 = None) by (destruct H1 as (T & _); congruence).
  destruct (wait_synchronization_pause f1 now) as [[f2 wait]| |] eqn:Ew; cbn [bind] in H; try discriminate H.
  destruct (wait_sync_nm now f1 f2 wait w1 Ew) as (B2 & _).
  assert (B12 : nm now f w f2 w1) by (eapply nm_trans; [apply nm_frm; exact H1|exact B2]).
  eapply nm_trans; [exact B12|].
  destruct wait.
  { injection H as <- <-. apply nm_note. }
  destruct (get_use_token (f_state f2)) as [[[tk2 fa2] fcd2]| |]; cbn [bind] in H; try discriminate H.
  match type of H with bind ?x _ = _ => destruct x as [[[f3 w3] done]| |] eqn:E3 end; cbn [bind] in H; try discriminate H.
  assert (H3 : nm now f2 w1 f3 w3).
  { destruct (now <? f_end_tht f2).
    - destruct (set_first_cycle_done f2) as [f2'| |] eqn:Es; cbn [bind] in E3; try discriminate E3.
      pose proof (set_first_cycle_done_frm A _ _ w1 Es) as Hs.
      unfold apps_transmit_telegram in E3.
      eapply nm_trans; [apply nm_frm; exact Hs|]. eapply nm_trans; [apply nm_note|].
      exact (apps_loop_nm now _ _ _ _ _ _ _ E3 Hw1).
    - destruct (negb fcd2).
      + destruct (set_first_cycle_done f2) as [f2'| |] eqn:Es; cbn [bind] in E3; try discriminate E3.
        pose proof (set_first_cycle_done_frm A _ _ w1 Es) as Hs.
        unfold apps_transmit_telegram in E3.
        eapply nm_trans; [apply nm_frm; exact Hs|]. eapply nm_trans; [apply nm_note|].
        exact (apps_loop_nm now _ _ _ _ _ _ _ E3 Hw1).
      + injection E3 as <- <- <-. apply nm_note. }
  eapply nm_trans; [exact H3|].
  destruct done.
  - injection H as <- <-. apply nm_refl.
  - destruct (trans A f3 w3 _) as [[f4 w4]| |] eqn:Et; cbn [bind] in H; try discriminate H.
    eapply nm_trans; [exact (trans_nm now _ _ _ _ _ Et)|exact (do_pass_token_nm now _ _ _ _ H)].
Qed.

Lemma do_await_data_response_nm now f (w : W) f' w' :
  do_await_data_response A ops f now w = Ok (f', w') -> w_tx w = None -> nm now f w f' w'.
Proof.
  unfold do_await_data_response. intros H Hw.
  destruct (assert_entry DoAwaitDataResponse f); cbn [bind] in H; try discriminate H.
  destruct (get_await_data_response (f_state f)) as [[[addr tk] fa]| |]; cbn [bind] in H; try discriminate H.
  destruct (nth_error (w_apps w) (f_next_app f)) as [app|]; [|discriminate H].
  destruct (receive_telegram (fun t => t) (w_rx w)) as [[rest received]| |] eqn:Er; cbn [bind] in H; try discriminate H.
  destruct (receive_telegram_suffix _ _ _ _ Er) as [k Ek].
  destruct received as [t|].
  - pose proof (receive_telegram_some_lt _ _ _ _ Er) as Hlt.
    destruct (is_valid_response (mark_rx f now) addr t).
    + destruct (a_rx ops app now _ addr t) as [app'| |]; cbn [bind] in H; try discriminate H.
      match type of H with bind ?x _ = _ => destruct x as [[f2 w2]| |] eqn:E2 end; cbn [bind] in H; try discriminate H.
      destruct (set_first_cycle_done f2) as [f3| |] eqn:Es; cbn [bind] in H; try discriminate H.
      injection H as <- <-. apply trans_frm in E2. destruct E2 as (T & R & _). cbn in R.
      apply nm_consumed; [exists k; rewrite R; exact Ek|rewrite R; exact Hlt].
    + apply trans_frm in H. destruct H as (T & R & _). cbn in R.
      apply nm_consumed; [exists k; rewrite R; exact Ek|rewrite R; exact Hlt].
  - match type of H with context [check_slot_expired ?fx now] => destruct (check_slot_expired fx now) as [[f1 expired]| |] eqn:Ec end;
      cbn [bind] in H; try discriminate H.
    match type of Ec with check_slot_expired ?fx now = _ => set (f0 := fx) in * end.
    match type of H with context [set_rx A ?wx rest] => set (wx0 := wx) in * end.
    assert (Hwx : w_tx wx0 = w_tx w) by (subst wx0; destruct (Nat.ltb _ _); reflexivity).
    destruct (check_slot_nm now f0 f1 expired (set_rx A wx0 rest) Ec) as (Hb & _).
    assert (H0 : nm now f w f0 (set_rx A wx0 rest)).
    { subst f0. apply loop_end_nm with (k := k); [exact Ek|exact Hwx]. }
    assert (B01 : nm now f w f1 (set_rx A wx0 rest)) by (eapply nm_trans; eassumption).
    eapply nm_trans; [exact B01|].
    destruct expired.
    + destruct (a_to ops app now _ addr) as [app'| |]; cbn [bind] in H; try discriminate H.
      match type of H with bind ?x _ = _ => destruct x as [[f2 w2]| |] eqn:E2 end; cbn [bind] in H; try discriminate H.
      destruct (set_first_cycle_done f2) as [f3| |] eqn:Es; cbn [bind] in H; try discriminate H.
      pose proof (trans_frm A _ _ _ _ _ E2) as F2. pose proof (set_first_cycle_done_frm A _ _ w2 Es) as Hs.
      assert (Hw2 : w_tx w2 = None) by (destruct F2 as (T & _); cbn in T; congruence).
      eapply nm_trans; [|exact (do_use_token_nm now _ _ _ _ H Hw2)].
      eapply nm_trans; [|apply nm_frm; exact Hs]. eapply nm_trans; [|apply nm_frm; exact F2].
      apply nm_frame; try reflexivity. apply lbs_refl.
    + injection H as <- <-. apply nm_note.
Qed.

(* ---- the dispatch of poll_inner ---- *)

Lemma dispatch_nm now f (w : W) f' w' :
  C11Proofs.dispatch A ops f now w = Ok (f', w') -> w_tx w = None -> nm now f w f' w'.
Proof.
  unfold C11Proofs.dispatch. intros H Hw.
  destruct (poll_dispatch (kind_of (f_state f))) as [ | |[ | | | | | | | ]]; try discriminate H.
  - exact (do_listen_token_nm now _ _ _ _ H).
  - exact (do_active_idle_nm now _ _ _ _ H).
  - exact (do_claim_token_nm now _ _ _ _ H).
  - exact (do_use_token_nm now _ _ _ _ H Hw).
  - exact (do_await_data_response_nm now _ _ _ _ H Hw).
  - exact (do_pass_token_nm now _ _ _ _ H).
  - exact (do_await_status_response_nm now _ _ _ _ H).
  - exact (do_check_token_pass_nm now _ _ _ _ H).
Qed.

End NM.

(* ------------------------------------------------------------------------------------------ *)
(* (2) the gated states act as soon as the synchronisation pause is over                        *)

Definition gapdue (f : fdl) : bool := match f_gap f with GapDoPoll _ => true | GapWaiting _ => false end.

(* the states the monitor calls gated (pmon_poll: gated), as a function of the station state *)
Definition gatedS (s : state) : bool :=
  match s with
  | PassToken _ _ | UseToken _ _ _ => true
  | ClaimToken (StepScanAwaitResponse _) => false
  | ClaimToken _ => true
  | ListenToken (Some _) _ | ActiveIdle (Some _) _ _ => true
  | _ => false
  end.

Section Acts.
Variable A : Type.
Variable ops : app_ops A.
Notation W := (world A).

Definition sync_of (f : fdl) : Z := p_bits_to_time (f_p f) sync_pause_bits.

Lemma wait_sync_val f now f1 b :
  wait_synchronization_pause f now = Ok (f1, b) -> b = (now <=? gv now (f_lba f) + sync_of f).
Proof.
  unfold wait_synchronization_pause, lba_get_or_insert, sync_of. destruct (f_lba f) as [l|]; cbn [gv];
    unfold inst_add; (destruct (i64_ok _); cbn [bind]; [|discriminate]); intros H; injection H as _ <-; reflexivity.
Qed.

Lemma wait_sync_over f now f1 b l :
  wait_synchronization_pause f now = Ok (f1, b) -> f_lba f = Some l -> l + sync_of f < now -> b = false /\ f1 = f.
Proof.
  intros H Hl Hlt. pose proof (wait_sync_val _ _ _ _ H) as Hb. rewrite Hl in Hb. cbn [gv] in Hb.
  split; [rewrite Hb; apply Z.leb_gt; exact Hlt|].
  unfold wait_synchronization_pause, lba_get_or_insert in H. rewrite Hl in H.
  destruct (inst_add _ _); cbn [bind] in H; try discriminate H. injection H as <- _. reflexivity.
Qed.

Lemma pass_acts f now (w : W) f' w' l :
  do_pass_token A f now w = Ok (f', w') -> f_lba f = Some l -> l + sync_of f < now -> w_tx w' <> None.
Proof.
  unfold do_pass_token. intros H Hl Hlt.
  destruct (assert_entry DoPassToken f); cbn [bind] in H; try discriminate H.
  destruct (wait_synchronization_pause f now) as [[f1 wait]| |] eqn:Ew; cbn [bind] in H; try discriminate H.
  destruct (wait_sync_over _ _ _ _ _ Ew Hl Hlt) as (-> & ->).
  destruct (get_pass_token (f_state f)) as [[do_gap att]| |]; cbn [bind] in H; try discriminate H.
  match type of H with bind ?x _ = _ => destruct x as [[[f2 w2] polled]| |] eqn:Eg end; cbn [bind] in H; try discriminate H.
  destruct polled as [pa|].
  - assert (Ht2 : w_tx w2 <> None).
    { destruct do_gap; [|discriminate Eg].
      match type of Eg with bind ?x _ = _ => destruct x as [[fa wa]| |] eqn:Ea end; cbn [bind] in Eg; try discriminate Eg.
      destruct (transmit_gap_bk A now _ _ _ _ _ Eg) as (_ & (_ & wire & T & _)). rewrite T. discriminate. }
    apply trans_spec in H. destruct H as (s' & _ & _ & ->). exact Ht2.
  - destruct (phy_send A w2 _) as [[w3 k]| |] eqn:Ep; cbn [bind] in H; try discriminate H.
    destruct (witness _ _ _) as [r| |]; cbn [bind] in H; try discriminate H.
    match type of H with bind ?x _ = _ => destruct x as [[f4 w4]| |] eqn:E4 end; cbn [bind] in H; try discriminate H.
    destruct (mark_tx f4 now k) as [f5| |] eqn:Em; cbn [bind] in H; try discriminate H.
    injection H as <- <-.
    apply phy_send_tx in Ep. destruct Ep as (_ & (wire & T3) & _).
    assert (H4 : w_tx w4 = w_tx w3).
    { destruct (r_ns (f_ring (set_ring f2 r)) =? ts (set_ring f2 r)).
      - apply trans_spec in E4. destruct E4 as (s' & _ & _ & ->). reflexivity.
      - destruct (get_pass_token _) as [[g2 a2]| |]; cbn [bind] in E4; try discriminate E4.
        apply trans_spec in E4. destruct E4 as (s' & _ & _ & ->). reflexivity. }
    rewrite H4, T3. discriminate.
Qed.

Lemma use_acts f now (w : W) f' w' l :
  do_use_token A ops f now w = Ok (f', w') -> f_lba f = Some l -> l + sync_of f < now -> w_tx w = None ->
  w_tx w' <> None.
Proof.
  unfold do_use_token. intros H Hl Hlt Hw.
  destruct (assert_entry DoUseToken f); cbn [bind] in H; try discriminate H.
  destruct (get_use_token (f_state f)) as [[[tk fa] fcd]| |]; cbn [bind] in H; try discriminate H.
  match type of H with bind ?x _ = _ => destruct x as [[f1 w1]| |] eqn:E1 end; cbn [bind] in H; try discriminate H.
  assert (H1 : frm A f w f1 w1).
  { destruct (negb _).
    - destruct (inst_add _ _) as [e| |]; cbn [bind] in E1; try discriminate E1.
      destruct (f_gap f).
      + injection E1 as <- <-. unfold frm. cbn. tauto.
      + destruct (inst_sub_dur _ _) as [e2| |]; cbn [bind] in E1; try discriminate E1.
        injection E1 as <- <-. unfold frm. cbn. tauto.
    - injection E1 as <- <-. apply frm_refl. }
  destruct H1 as (T1 & R1 & L1 & P1 & Q1).
  assert (Hw1 : w_tx w1 = None) by congruence.
  assert (Hl1 : f_lba f1 = Some l) by congruence.
  assert (Hlt1 : l + sync_of f1 < now) by (unfold sync_of in *; rewrite Q1; exact Hlt).
  destruct (wait_synchronization_pause f1 now) as [[f2 wait]| |] eqn:Ew; cbn [bind] in H; try discriminate H.
  destruct (wait_sync_over _ _ _ _ _ Ew Hl1 Hlt1) as (-> & ->).
  destruct (get_use_token (f_state f1)) as [[[tk2 fa2] fcd2]| |]; cbn [bind] in H; try discriminate H.
  match type of H with bind ?x _ = _ => destruct x as [[[f3 w3] done]| |] eqn:E3 end; cbn [bind] in H; try discriminate H.
  assert (H3 : if done then txs A now f1 w1 f3 w3 else frm A f1 w1 f3 w3).
  { destruct (now <? f_end_tht f1).
    - destruct (set_first_cycle_done f1) as [f2'| |] eqn:Es; cbn [bind] in E3; try discriminate E3.
      pose proof (set_first_cycle_done_frm A _ _ w1 Es) as Hs.
      unfold apps_transmit_telegram in E3. apply (apps_loop_bk A ops now) in E3. destruct done.
      + eapply frm_txs; [eapply frm_trans; [exact Hs|]|apply E3; exact Hw1]. unfold frm. cbn. tauto.
      + eapply frm_trans; [exact Hs|]. eapply frm_trans; [|exact E3]. unfold frm. cbn. tauto.
    - destruct (negb fcd2).
      + destruct (set_first_cycle_done f1) as [f2'| |] eqn:Es; cbn [bind] in E3; try discriminate E3.
        pose proof (set_first_cycle_done_frm A _ _ w1 Es) as Hs.
        unfold apps_transmit_telegram in E3. apply (apps_loop_bk A ops now) in E3. destruct done.
        * eapply frm_txs; [eapply frm_trans; [exact Hs|]|apply E3; exact Hw1]. unfold frm. cbn. tauto.
        * eapply frm_trans; [exact Hs|]. eapply frm_trans; [|exact E3]. unfold frm. cbn. tauto.
      + injection E3 as <- <- <-. unfold frm. cbn. tauto. }
  destruct done.
  - injection H as <- <-. destruct H3 as (_ & wire & T & _). rewrite T. discriminate.
  - destruct H3 as (T3 & R3 & L3 & P3 & Q3).
    destruct (trans A f3 w3 _) as [[f4 w4]| |] eqn:Et; cbn [bind] in H; try discriminate H.
    apply trans_spec in Et. destruct Et as (s' & _ & -> & ->).
    refine (pass_acts _ _ _ _ _ l H _ _).
    + cbn. congruence.
    + unfold sync_of in *. cbn. rewrite Q3. exact Hlt1.
Qed.

Lemma claim_acts f now (w : W) f' w' l st :
  do_claim_token A f now w = Ok (f', w') -> f_state f = ClaimToken st ->
  (forall a, st <> StepScanAwaitResponse a) ->
  f_lba f = Some l -> l + sync_of f < now ->
  w_tx w' <> None \/ kind_of (f_state f') <> KClaimToken \/ (gapdue f = true /\ gapdue f' = false).
Proof.
  unfold do_claim_token, assert_entry. intros H Es Hst Hl Hlt. rewrite Es in H.
  cbn [kind_of do_fn_entry state_kind_eqb bind get_claim_token_step] in H.
  assert (Htok : forall nxt,
    (let* (f0, wait) := wait_synchronization_pause f now in
     if wait then Ok (f0, note A w TSyncWait)
     else let* (w0, n) := phy_send A w (TxToken (ts f0) (ts f0)) in
          let f1 := set_ring f0 (claim_token (f_ring f0)) in
          let* f2 := set_claim_step f1 nxt in
          let f3 := set_gap f2 (GapDoPoll (ts f2)) in
          let* f4 := mark_tx f3 now n in Ok (f4, note A w0 TClaimSendToken)) = Ok (f', w') -> w_tx w' <> None).
  { intros nxt H0.
    destruct (wait_synchronization_pause f now) as [[f1 wait]| |] eqn:Ew; cbn [bind] in H0; try discriminate H0.
    destruct (wait_sync_over _ _ _ _ _ Ew Hl Hlt) as (-> & ->).
    destruct (phy_send A w _) as [[w1 k]| |] eqn:Ep; cbn [bind] in H0; try discriminate H0.
    destruct (set_claim_step _ nxt) as [f2| |] eqn:Es2; cbn [bind] in H0; try discriminate H0.
    match type of H0 with bind (mark_tx ?fx now k) _ = _ => destruct (mark_tx fx now k) as [f4| |] eqn:Em end; cbn [bind] in H0; try discriminate H0.
    injection H0 as <- <-. apply phy_send_tx in Ep. destruct Ep as (_ & (wire & T) & _). cbn. rewrite T. discriminate. }
  destruct st as [ | | |a0].
  - left. exact (Htok _ H).
  - left. exact (Htok _ H).
  - unfold do_claim_token_scan in H.
    destruct (wait_synchronization_pause f now) as [[f1 wait]| |] eqn:Ew; cbn [bind] in H; try discriminate H.
    destruct (wait_sync_over _ _ _ _ _ Ew Hl Hlt) as (-> & ->).
    destruct (f_gap f) as [rc|cur] eqn:Eg.
    + match type of H with bind ?x _ = _ => destruct x as [[f2 w2]| |] eqn:Et end; cbn [bind] in H; try discriminate H.
      injection H as <- <-. apply trans_spec in Et. destruct Et as (s' & Ht & -> & _). right. left.
      unfold transition_pass_token in Ht. destruct (assert_kind _ _); cbn [bind] in Ht; try discriminate Ht. injection Ht as <-.
      cbn. discriminate.
    + destruct (next_gap_poll_traced A f w cur) as [[f2 w2]| |] eqn:En; cbn [bind] in H; try discriminate H.
      apply next_gap_poll_traced_spec in En. destruct En as (g & _ & -> & _).
      destruct (transmit_gap_poll_if_pending A (set_gap f g) now w2) as [[[f3 w3] polled]| |] eqn:Etg; cbn [bind] in H; try discriminate H.
      destruct (transmit_gap_bk A now _ _ _ _ _ Etg) as (_ & Hg).
      destruct polled as [a|].
      * destruct (set_claim_step f3 _) as [f4| |] eqn:Es4; cbn [bind] in H; try discriminate H.
        injection H as <- <-. left. destruct Hg as (_ & wire & T & _). cbn. rewrite T. discriminate.
      * destruct Hg as (-> & ->). injection H as <- <-. right. right. unfold gapdue. rewrite Eg. split; [reflexivity|].
        cbn [f_gap set_gap]. unfold transmit_gap_poll_if_pending in Etg. cbn [f_gap set_gap] in Etg.
        destruct g as [rc|c2]; [reflexivity|]. exfalso.
        destruct (c2 =? _); [discriminate Etg|].
        destruct (phy_send A w2 _) as [[w4 k]| |]; cbn [bind] in Etg; try discriminate Etg.
        destruct (mark_tx _ now k); cbn [bind] in Etg; discriminate Etg.
  - exfalso. exact (Hst a0 eq_refl).
Qed.

Lemma handle_lost_token_false f now (w : W) f0 w0 l :
  handle_lost_token A f now w = Ok (f0, w0, false) -> f_lba f = Some l -> f0 = f /\ w0 = w.
Proof.
  unfold handle_lost_token, lba_get_or_insert. intros H Hl. rewrite Hl in H.
  destruct (inst_diff now l); cbn [bind] in H; try discriminate H.
  match type of H with (if ?c then _ else _) = _ => destruct c end.
  - match type of H with context [trans A ?a ?b ?c] => destruct (trans A a b c) as [[fy wy]| |] end; cbn [bind] in H; try discriminate H.
    destruct (do_claim_token A fy now wy) as [[fz wz]| |]; cbn [bind] in H; discriminate H.
  - injection H as <- <-. split; reflexivity.
Qed.

Lemma listen_acts f now (w : W) f' w' l src cc :
  do_listen_token A f now w = Ok (f', w') -> f_state f = ListenToken (Some src) cc ->
  f_lba f = Some l -> l + sync_of f < now ->
  w_tx w' <> None \/ kind_of (f_state f') = KClaimToken.
Proof.
  unfold do_listen_token. intros H Es Hl Hlt.
  destruct (assert_entry DoListenToken f); cbn [bind] in H; try discriminate H.
  destruct (handle_lost_token A f now w) as [[[f0 w0] d]| |] eqn:Eh; cbn [bind] in H; try discriminate H.
  destruct d.
  { injection H as <- <-. right. destruct (handle_lost_token_claims A _ _ _ _ _ Eh) as [-> | ->]; reflexivity. }
  destruct (handle_lost_token_false _ _ _ _ _ _ Eh Hl) as (-> & ->).
  rewrite Es in H. cbn [get_listen_token bind] in H.
  destruct (wait_synchronization_pause f now) as [[f1 wait]| |] eqn:Ew; cbn [bind] in H; try discriminate H.
  destruct (wait_sync_over _ _ _ _ _ Ew Hl Hlt) as (-> & ->).
  destruct (phy_send A w _) as [[w1 k]| |] eqn:Ep; cbn [bind] in H; try discriminate H.
  match type of H with bind ?x _ = _ => destruct x as [[f2 w2]| |] eqn:E2 end; cbn [bind] in H; try discriminate H.
  destruct (mark_tx f2 now k) as [f3| |] eqn:Em; cbn [bind] in H; try discriminate H.
  injection H as <- <-. left.
  apply phy_send_tx in Ep. destruct Ep as (_ & (wire & T) & _).
  assert (H2 : w_tx w2 = w_tx w1).
  { destruct (ready_for_ring (f_ring f)).
    - apply trans_spec in E2. destruct E2 as (s' & _ & _ & ->). reflexivity.
    - destruct (get_listen_token (f_state f)) as [[sr1 cc1]| |]; cbn [bind] in E2; try discriminate E2.
      injection E2 as _ <-. reflexivity. }
  rewrite H2, T. discriminate.
Qed.

Lemma idle_acts f now (w : W) f' w' l src nps cc :
  do_active_idle A f now w = Ok (f', w') -> f_state f = ActiveIdle (Some src) nps cc ->
  f_lba f = Some l -> l + sync_of f < now ->
  w_tx w' <> None \/ kind_of (f_state f') = KClaimToken.
Proof.
  unfold do_active_idle. intros H Es Hl Hlt.
  destruct (assert_entry DoActiveIdle f); cbn [bind] in H; try discriminate H.
  destruct (handle_lost_token A f now w) as [[[f0 w0] d]| |] eqn:Eh; cbn [bind] in H; try discriminate H.
  destruct d.
  { injection H as <- <-. right. destruct (handle_lost_token_claims A _ _ _ _ _ Eh) as [-> | ->]; reflexivity. }
  destruct (handle_lost_token_false _ _ _ _ _ _ Eh Hl) as (-> & ->).
  rewrite Es in H. cbn [get_active_idle bind] in H.
  destruct (wait_synchronization_pause f now) as [[f1 wait]| |] eqn:Ew; cbn [bind] in H; try discriminate H.
  destruct (wait_sync_over _ _ _ _ _ Ew Hl Hlt) as (-> & ->).
  destruct (phy_send A w _) as [[w1 k]| |] eqn:Ep; cbn [bind] in H; try discriminate H.
  match type of H with bind (mark_tx ?fx now k) _ = _ => destruct (mark_tx fx now k) as [f3| |] eqn:Em end; cbn [bind] in H; try discriminate H.
  injection H as <- <-. left.
  apply phy_send_tx in Ep. destruct Ep as (_ & (wire & T) & _). cbn. rewrite T. discriminate.
Qed.

(* the gated states: once the synchronisation pause is over the station acts *)
Theorem gated_acts f now (w : W) f' w' l :
  C11Proofs.dispatch A ops f now w = Ok (f', w') -> gatedS (f_state f) = true ->
  f_lba f = Some l -> l + sync_of f < now -> w_tx w = None ->
  w_tx w' <> None \/ kind_of (f_state f') <> kind_of (f_state f) \/ gapdue f' <> gapdue f.
Proof.
  unfold C11Proofs.dispatch. intros H Hg Hl Hlt Hw.
  destruct (f_state f) as [ | |sr cc|sr nps cc|tk fa fcd|st|a1 tk fa|dg att|att|a0] eqn:Es; try discriminate Hg;
    cbn [kind_of poll_dispatch] in H.
  - destruct sr as [src|]; [|discriminate Hg].
    destruct (listen_acts _ _ _ _ _ _ _ _ H Es Hl Hlt) as [T|K]; [left; exact T|right; left; rewrite K; discriminate].
  - destruct sr as [src|]; [|discriminate Hg].
    destruct (idle_acts _ _ _ _ _ _ _ _ _ H Es Hl Hlt) as [T|K]; [left; exact T|right; left; rewrite K; discriminate].
  - left. exact (use_acts _ _ _ _ _ _ H Hl Hlt Hw).
  - assert (Hst : forall a, st <> StepScanAwaitResponse a) by (intros a ->; discriminate Hg).
    destruct (claim_acts _ _ _ _ _ _ _ H Es Hst Hl Hlt) as [T|[K|(G1 & G2)]];
      [left; exact T|right; left; exact K|right; right; rewrite G1, G2; discriminate].
  - left. exact (pass_acts _ _ _ _ _ _ H Hl Hlt).
Qed.

(* ------------------------------------------------------------------------------------------ *)
(* (3) listening without a pending status request: nothing consumed, nothing sent = no change   *)

Lemma listen_none_quiet f now (w : W) f' w' cc :
  do_listen_token A f now w = Ok (f', w') -> f_state f = ListenToken None cc ->
  (forall l, f_lba f = Some l -> l <= now) ->
  0 <= sync_of f < token_lost_timeout (f_p f) ->
  length (w_rx w') = length (w_rx w) -> w_tx w' = None ->
  f_state f' = ListenToken None cc.
Proof.
  unfold do_listen_token. intros H Es Hnp Hst Hlen Hn.
  destruct (assert_entry DoListenToken f); cbn [bind] in H; try discriminate H.
  destruct (handle_lost_token A f now w) as [[[f0 w0] d]| |] eqn:Eh; cbn [bind] in H; try discriminate H.
  destruct d.
  - exfalso. injection H as <- <-. unfold handle_lost_token in Eh.
    destruct (lba_get_or_insert f now) as [l0 fx] eqn:El.
    apply lba_get_or_insert_same in El. destruct El as ((Hpx & _ & _ & _ & Hsx & _) & Hlx & Hm).
    assert (Hl0 : l0 <= now) by (destruct (f_lba f) as [lf|] eqn:Elf; [subst l0; exact (Hnp lf eq_refl)|lia]).
    unfold inst_diff in Eh. destruct (i64_ok (now - l0)); cbn [bind] in Eh; try discriminate Eh.
    destruct (Z.leb_spec (token_lost_timeout (f_p fx)) (Z.abs (now - l0))) as [Hto|_]; [|discriminate Eh].
    match type of Eh with context [trans A ?a ?b ?c] => destruct (trans A a b c) as [[f1 w1]| |] eqn:Et end; cbn [bind] in Eh; try discriminate Eh.
    apply trans_spec in Et. destruct Et as (s1 & Ht & -> & ->).
    unfold transition_claim_token in Ht. destruct (assert_kind _ _); cbn [bind] in Ht; try discriminate Ht. injection Ht as <-.
    destruct (do_claim_token A _ now _) as [[f2 w2]| |] eqn:Ed; cbn [bind] in Eh; try discriminate Eh.
    injection Eh as <- <-.
    unfold do_claim_token, assert_entry in Ed. cbn [f_state set_st kind_of do_fn_entry state_kind_eqb bind get_claim_token_step] in Ed.
    destruct (wait_synchronization_pause _ now) as [[f3 wait]| |] eqn:Ew; cbn [bind] in Ed; try discriminate Ed.
    pose proof (wait_sync_val _ _ _ _ Ew) as Hb. cbn [f_lba set_st] in Hb. rewrite Hlx in Hb. cbn [gv] in Hb.
    unfold sync_of in Hb, Hst. cbn [f_p set_st] in Hb. rewrite Hpx in Hb, Hto.
    destruct wait.
    + symmetry in Hb. apply Z.leb_le in Hb. rewrite Z.abs_eq in Hto by lia. lia.
    + destruct (phy_send A _ _) as [[w3 k]| |] eqn:Ep; cbn [bind] in Ed; try discriminate Ed.
      destruct (set_claim_step _ _) as [f4| |]; cbn [bind] in Ed; try discriminate Ed.
      match type of Ed with bind (mark_tx ?fy now k) _ = _ => destruct (mark_tx fy now k) as [f5| |] end; cbn [bind] in Ed; try discriminate Ed.
      injection Ed as _ <-. apply phy_send_tx in Ep. destruct Ep as (_ & (wire & T) & _). cbn in Hn. rewrite T in Hn. discriminate Hn.
  - pose proof (handle_lost_token_keeps A _ _ _ _ _ Eh) as Hs0.
    pose proof (handle_lost_token_nm A now _ _ _ _ _ Eh) as (S0 & _).
    rewrite Hs0, Es in H. cbn [get_listen_token bind] in H.
    unfold receive_all_telegrams in H.
    destruct (receive_all _ _ (f0, w0) (w_rx w0)) as [[[s1 rest] r]| |] eqn:Er; cbn [bind] in H; try discriminate H.
    destruct s1 as [f1 w1]. injection H as <- <-. cbn [w_rx set_rx] in Hlen.
    destruct (receive_all_suffix _ _ _ _ _ _ _ Er) as [k Ek].
    pose proof (suffix_len A _ _ S0) as Hle.
    assert (Hlen0 : length rest = length (w_rx w0)) by (rewrite Ek, skipn_length in *; lia).
    pose proof (receive_all_len _ _ _ _ _ _ Er Hlen0) as E1. injection E1 as -> ->.
    cbn. rewrite Hs0. exact Es.
Qed.

(* ------------------------------------------------------------------------------------------ *)
(* a poll of a station that is online: the connectivity prologue, then the body                 *)

Lemma poll_body f now busy rxb (apps : list A) f' o apps' calls k :
  poll ops f now (mkPhyIn busy rxb) apps = Ok (f', o, apps', calls) -> Rep k f -> f_conn f = ConnOnline ->
  exists f0 (w0 w' : W),
    ((f_state f <> Offline /\ f0 = f) \/ (f_state f = Offline /\ f0 = set_st f (ListenToken None 0))) /\
    w_rx w0 = rxb /\ w_tx w0 = None /\ w_calls w0 = [] /\
    C11Proofs.body A ops f0 now busy w0 = Ok (f', w') /\
    o = mkPhyOut (w_tx w') (w_rx w') /\ apps' = w_apps w' /\ calls = w_calls w'.
Proof.
  intros E R Hc. apply (C11Proofs.poll_inv A ops) in E. destruct E as (w' & H & -> & -> & ->). cbn [tx_busy rx] in H.
  destruct (f_state f) as [ | |sr cc|sr nps cc|tk fa fcd|st|a1 tk fa|dg att|att|a0] eqn:Es.
  2:{ exfalso. pose proof (rep_st _ _ R) as St. rewrite Es in St. exact St. }
  1:{ unfold poll_inner in H. rewrite Hc, Es in H. cbn [kind_of online_entry_kind] in H.
      unfold trans, transition_listen_token, assert_kind in H. rewrite Es in H. cbn [kind_of may_transition_listen_token bind] in H.
      rewrite C11Proofs.body_eq in H.
      eexists. eexists. exists w'. split; [right; split; reflexivity|].
      split; [|split; [|split; [|split; [exact H|repeat split; reflexivity]]]]; reflexivity. }
  all: rewrite (C11Proofs.poll_inner_online A ops f now _ _ Hc ltac:(rewrite Es; reflexivity)) in H;
    exists f; eexists; exists w'; (split; [left; split; [discriminate|reflexivity]|]);
    (split; [|split; [|split; [|split; [exact H|repeat split; reflexivity]]]]); reflexivity.
Qed.

End Acts.
